import Claripy.Gen.Z3Tables
import Claripy.Z3.Sem
import Claripy.Anno.Model
/-!
# C09 — solver-backed simplification preserves meaning and handles all claripy operators

The operator tables of `backend_z3` (regenerated from the live module on every run into `Claripy.Gen.Z3Tables`) are
checked, entry by entry, against the reference table `Claripy.Z3.Sem`:

* `C09_roundtrip_sem`   — for every claripy operation with a listed meaning: the Z3 kind it is translated to denotes
  that meaning, is mapped back by `op_map`, and the operation it comes back as has the same meaning;
* `C09_roundtrip_total` — every Z3 kind occurring in the translation of any sampled claripy operation (bit-vector,
  Boolean, floating point, incl. `fpIsNaN`/`fpIsInf`) is mapped back (`op_map` entry not None);
* `C09_opmap_sem`       — no entry of `op_map` sends a kind to an operation of a different meaning (this is the
  theorem the old `BSMOD ↦ SMod` entry violates);
* `C09_simplify_models` — `ConstrainedFrontend.simplify` keeps exactly the models, for any rewriter that preserves the
  models of the conjunction it is given.
Z3's own simplifier and tactics are trusted to preserve equivalence (validated by the oracle on every sampled case).
-/
namespace Claripy.Props.C09
open Claripy.Gen.Z3Tables Claripy.Z3

theorem C09_roundtrip_sem : fwd.all (fwdOk opMap) = true := by decide +kernel
theorem C09_roundtrip_total : fwd.all (totalOk opMap) = true := by decide +kernel
theorem C09_opmap_sem : opMap.all bwdOk = true := by decide +kernel

/-- the entry the unrepaired table contained is rejected by the backward check -/
theorem C09_bsmod_as_smod_rejected : bwdOk (.Z3_OP_BSMOD, some .SMod) = false := by decide

theorem all_partition {α : Type} (l : List α) (p q : α → Bool) :
    ((l.filter p).all q && (l.filter fun x => !p x).all q) = l.all q := by
  induction l with
  | nil => rfl
  | cons x xs ih =>
    simp only [List.all_cons, ← ih, List.filter]
    cases hp : p x <;> cases hq : q x <;> simp [hp, hq]
    all_goals (cases (xs.filter p).all q <;> simp)

open Claripy.Anno in
/-- **C09 (solver simplify keeps the models)**: `sat a c` says assignment `a` satisfies constraint `c`.  If the rewriter
returns a list with the same satisfying assignments as the list it was given, the solver's new constraint list has the
same satisfying assignments as the old one. -/
theorem C09_simplify_models {A : Type} (sat : A → AExpr → Bool) (constraints : List AExpr)
    (rewriter : List AExpr → List AExpr)
    (hrw : ∀ (a : A) (l : List AExpr), (rewriter l).all (sat a) = l.all (sat a)) (a : A) :
    (frontendSimplify constraints rewriter).all (sat a) = constraints.all (sat a) := by
  unfold frontendSimplify
  simp only
  split
  · rfl
  · rw [List.all_append, hrw]
    exact all_partition constraints hasAvoid (sat a)

end Claripy.Props.C09
