import Claripy.Conc.Shared
import Claripy.Gen.SharedState
/-!
# C20 — solvers used from several threads answer as if used alone (the part that is logic)

* `C20_all_classified` — every process-wide mutable binding in claripy's source (regenerated inventory) has a
  classification; a new shared cell that nobody classified breaks this theorem;
* `C20_interleave_eq_solo` — in the execution model (any number of threads, any interleaving, entries evicted at any
  time, duplicate insertions), every thread receives for each request exactly `f key`, i.e. exactly what it receives
  when it runs alone with an empty store: memo tables whose values are functions of their keys are transparent.
Not exhibited by this model: atomicity of single dict/set operations under the GIL, Z3 context thread-affinity, data races
inside Z3; these are exercised by the multi-threaded runs of the check.
-/
namespace Claripy.Props.C20
open Claripy.Conc

theorem C20_all_classified :
    Claripy.Gen.SharedState.cells.all (fun c => c.2.2 != .unclassified) = true := by decide +kernel

variable {K V : Type} [DecidableEq K]

def Coherent (f : K → V) (store : List (K × V)) : Prop := ∀ e ∈ store, e.2 = f e.1

/-- what thread `tid` has received so far is `f` of what it has asked so far -/
def OutputsOk (f : K → V) (progs : List (List K)) (s : Sys K V) : Prop :=
  s.pending.length = progs.length ∧ s.outputs.length = progs.length ∧
  ∀ (tid : Nat) (p : List K), progs[tid]? = some p →
    ∃ (done rest : List K) (outs : List V), p = done ++ rest ∧ s.pending[tid]? = some rest ∧ s.outputs[tid]? = some outs ∧
      outs.reverse = done.map f

theorem lookup_coherent (f : K → V) (store : List (K × V)) (hc : Coherent f store) (k : K) (v : V)
    (h : lookup store k = some v) : v = f k := by
  unfold lookup at h
  cases hf : store.find? (fun e => e.1 = k) with
  | none => simp [hf] at h
  | some e =>
    simp [hf] at h
    have hm := List.mem_of_find?_eq_some hf
    have hp := List.find?_some hf
    simp at hp
    rw [← h, hc e hm, hp]

theorem serve_spec (f : K → V) (store : List (K × V)) (hc : Coherent f store) (k : K) :
    (serve f store k).1 = f k ∧ Coherent f (serve f store k).2 := by
  unfold serve
  cases hl : lookup store k with
  | some w => exact ⟨lookup_coherent f store hc k w hl, hc⟩
  | none =>
    refine ⟨rfl, ?_⟩
    intro e he
    rcases List.mem_cons.mp he with rfl | he
    · rfl
    · exact hc e he

theorem step_inv (f : K → V) (progs : List (List K)) (s : Sys K V) (st : Step K)
    (hc : Coherent f s.store) (ho : OutputsOk f progs s) :
    Coherent f (step f s st).store ∧ OutputsOk f progs (step f s st) := by
  cases st with
  | evict k =>
    refine ⟨?_, by simpa [OutputsOk, step] using ho⟩
    intro e he
    simp [step] at he
    exact hc e he.1
  | run tid =>
    simp only [step]
    cases hp : s.pending[tid]? with
    | none => exact ⟨hc, ho⟩
    | some prog =>
      cases prog with
      | nil => exact ⟨hc, ho⟩
      | cons k rest =>
        simp only
        obtain ⟨hv, hcs⟩ := serve_spec f s.store hc k
        refine ⟨hcs, ?_⟩
        obtain ⟨hl1, hl2, hall⟩ := ho
        have htid : tid < s.pending.length := by
          rcases Nat.lt_or_ge tid s.pending.length with h | h
          · exact h
          · simp [List.getElem?_eq_none h] at hp
        refine ⟨by simp [hl1], by simp [hl2], ?_⟩
        intro t p hpt
        obtain ⟨done, rem, outs, hsplit, hpend, houts, hrev⟩ := hall t p hpt
        by_cases ht : tid = t
        · subst ht
          rw [hp] at hpend
          cases hpend
          refine ⟨done ++ [k], rest, f k :: outs, by simp [hsplit], ?_, ?_, ?_⟩
          · simp [List.getElem?_set_self htid]
          · have : tid < s.outputs.length := by omega
            simp [List.getElem?_set_self this, houts, hv]
          · simp [hrev]
        · refine ⟨done, rem, outs, hsplit, ?_, ?_, hrev⟩
          · rw [List.getElem?_set_ne ht]; exact hpend
          · rw [List.getElem?_set_ne ht]; exact houts

theorem init_ok (f : K → V) (progs : List (List K)) : Coherent f (initSys (V := V) progs).store ∧ OutputsOk f progs (initSys progs) := by
  refine ⟨by intro e he; simp [initSys] at he, by simp [initSys], by simp [initSys], ?_⟩
  intro tid p hp
  refine ⟨[], p, [], by simp, by simpa [initSys] using hp, ?_, by simp⟩
  simp only [initSys, List.getElem?_map, hp, Option.map_some]

theorem run_inv (f : K → V) (progs : List (List K)) (s : Sys K V) (sched : List (Step K))
    (hc : Coherent f s.store) (ho : OutputsOk f progs s) :
    Coherent f (runSteps f s sched).store ∧ OutputsOk f progs (runSteps f s sched) := by
  induction sched generalizing s with
  | nil => exact ⟨hc, ho⟩
  | cons st rest ih =>
    obtain ⟨h1, h2⟩ := step_inv f progs s st hc ho
    exact ih _ h1 h2

/-- **C20 (model)**: for ANY schedule (interleaving of any number of threads with evictions anywhere), every thread has
received, for the requests it has completed, exactly `f` of each requested key in order — which is what a thread
running alone on an empty store receives. -/
theorem C20_interleave_eq_solo (f : K → V) (progs : List (List K)) (sched : List (Step K)) (tid : Nat) (p : List K)
    (hp : progs[tid]? = some p) :
    ∃ (done rest : List K) (outs : List V), p = done ++ rest ∧ (runSteps f (initSys progs) sched).outputs[tid]? = some outs ∧
      outs.reverse = done.map f := by
  obtain ⟨hc, ho⟩ := init_ok (V := V) f progs
  obtain ⟨_, _, _, hall⟩ := run_inv f progs (initSys progs) sched hc ho
  obtain ⟨done, rest, outs, h1, _, h3, h4⟩ := hall tid p hp
  exact ⟨done, rest, outs, h1, h3, h4⟩

/-- non-vacuity: two threads, interleaved, with an eviction in the middle -/
example : (runSteps (fun k : Nat => k * k) (initSys [[2, 3], [3, 2]])
    [.run 0, .run 1, .evict 3, .run 1, .run 0]).outputs = [[9, 4], [4, 9]] := by decide

end Claripy.Props.C20
