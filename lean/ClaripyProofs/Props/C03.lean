import ClaripyProofs.Lemmas.Str.Ops
import ClaripyProofs.Lemmas.Str.Digits
import ClaripyProofs.Lemmas.Str.CodecOut
import ClaripyProofs.Lemmas.Str.SpecChar
/-!
# C03 — string operations mean the same folded and solved, for every character

`Claripy.Str.Model` transcribes `claripy/backends/backend_concrete/strings.py` (current tree, after the `fix:` commits
recorded in known_findings.json); `Claripy.Str.Spec` is the SMT-LIB 2.6 meaning with claripy's BV64 interface
(indices read as naturals below 2^64, integer results modulo 2^64).  Every theorem is for ALL code-point lists and all
indices; nothing is bounded.  The literal codec theorems say that a `StringV` reaches Z3 as written and that a Z3 string
value comes back as the characters it holds.
-/
namespace Claripy.Props.C03
open Claripy.Str Claripy.Str.Codec

/-! ## the SMT-LIB reference is what the standard says (characterisation of `findAt`, `fromInt`) -/

/-- `findAt` returns a position where the pattern occurs … -/
theorem findAt_sound (t s : S) (j : Nat) (h : Spec.findAt t s 0 = some j) : j ≤ s.length ∧ t <+: s.drop j := by
  have := Claripy.Str.findAt_sound t s 0 j h; simpa using this.2

/-- … the first one (`u1` is the shortest word with `s = u1 t u2`) … -/
theorem findAt_least (t s : S) (j : Nat) (h : Spec.findAt t s 0 = some j) : ∀ i < j, ¬ t <+: s.drop i := by
  intro i hi; have := Claripy.Str.findAt_least t s 0 j h i (Nat.zero_le _) hi; simpa using this

/-- … and `none` only if the pattern occurs nowhere. -/
theorem findAt_complete (t s : S) (h : Spec.findAt t s 0 = none) : ∀ i ≤ s.length, ¬ t <+: s.drop i :=
  Claripy.Str.findAt_complete t s 0 h

example : Spec.findAt [98] [97, 98, 98] 0 = some 1 := by decide
example : Spec.findAt [99] [97, 98, 98] 0 = none := by decide

/-- `str.contains s t` holds exactly when `s = u1 ++ t ++ u2` -/
theorem contains_char (s t : S) : Spec.contains s t = true ↔ t <:+: s := contains_iff_infix s t

/-- `str.replace` in the words of the standard: unchanged if `t` does not occur; otherwise `u1 ++ r ++ u2` where
`s = u1 ++ t ++ u2` and `u1` is the shortest such prefix -/
theorem replace_char (s t r : S) :
    (¬ t <:+: s → Spec.replace s t r = s) ∧
    (t <:+: s → ∃ u1 u2, s = u1 ++ t ++ u2 ∧ Spec.replace s t r = u1 ++ r ++ u2 ∧
      ∀ v1 v2, s = v1 ++ t ++ v2 → u1.length ≤ v1.length) := Claripy.Str.replace_char s t r

/-- `str.indexof s t i` (`i ≤ |s|`): the smallest position `j ≥ i` where `t` occurs, -1 if there is none -/
theorem indexof_char (s t : S) (i : Nat) (hi : i ≤ s.length) :
    (∀ j, Spec.findAt t (s.drop i) i = some j → i ≤ j ∧ t <+: s.drop j ∧ (∀ k, i ≤ k → k < j → ¬ t <+: s.drop k) ∧
      Spec.indexof s t i = j % M64) ∧
    (Spec.findAt t (s.drop i) i = none → (∀ k, i ≤ k → k ≤ s.length → ¬ t <+: s.drop k) ∧ Spec.indexof s t i = minusOne) :=
  Claripy.Str.indexof_char s t i hi

/-- `str.from_int` is a right inverse of `str.to_int`, is never empty and has no leading zero -/
theorem fromInt_toInt (n : Nat) :
    Spec.toInt (Spec.fromInt n) = n % M64 ∧ Spec.fromInt n ≠ [] ∧ ((Spec.fromInt n).head? = some 48 → n = 0) :=
  ⟨toInt_fromInt n, fromInt_ne_nil n, fromInt_head n⟩

/-! ## every folded operation equals its SMT-LIB meaning -/

/-- Python's `find` (hence `in`, `index`, `replace(.., 1)`) computes the first occurrence -/
theorem find_spec (s t : S) : Py.find s t = Spec.findAt t s 0 := Claripy.Str.find_spec s t

theorem concat_spec (args : List S) : Model.StrConcat args = args.foldr Spec.concat [] := concat_many args
theorem len_spec (s : S) : Model.StrLen s = Spec.len s := rfl
theorem substr_spec (s : S) (i n : Nat) : Model.StrSubstr i n s = Spec.substr s i n := substr_eq s i n
/-- including the empty pattern (the replacement is prepended) -/
theorem replace_spec (s t r : S) : Model.StrReplace s t r = Spec.replace s t r := replace_eq s t r
theorem contains_spec (s t : S) : Model.StrContains s t = Spec.contains s t := contains_eq s t
theorem prefixof_spec (p s : S) : Model.StrPrefixOf p s = Spec.prefixof p s := prefixof_eq p s
theorem suffixof_spec (p s : S) : Model.StrSuffixOf p s = Spec.suffixof p s := suffixof_eq p s
theorem indexof_spec (s t : S) (i : Nat) : Model.StrIndexOf s t i = Spec.indexof s t i := indexof_eq s t i
theorem toint_spec (s : S) : Model.StrToInt s = Spec.toInt s := toint_eq s
theorem fromint_spec (n : Nat) : Model.IntToStr n = Spec.fromInt n := str_eq_fromInt n
theorem eq_spec (a b : S) : Model.eq a b = Spec.eq a b := eq_eq a b
theorem ne_spec (a b : S) : Model.ne a b = !Spec.eq a b := ne_eq a b

example : Model.StrReplace [97, 98] [] [99] = [99, 97, 98] := by decide
example : Model.StrSubstr 1 (2 ^ 64 - 1) [97, 98, 99] = [98, 99] := by decide
example : Model.StrIndexOf [97, 98] [] 2 = 2 := by decide

/-! ## the literal codec -/

/-- A string constant reaches the solver as exactly the characters the caller wrote: for every string over the SMT-LIB
alphabet (code points ≤ 0x2FFFF), Z3's reading of the text that z3py produces from claripy's escaped literal is the
string itself. -/
theorem literal_roundtrip (s : S) (h : ∀ c ∈ s, c ≤ z3MaxChar) :
    (claripyEncode s).map (fun t => z3Parse (z3pyEncode t)) = some s := literal_roundtrip' s h

example : (claripyEncode [92, 117, 123, 52, 56, 125, 0, 0x1F600]).map (fun t => z3Parse (z3pyEncode t))
    = some [92, 117, 123, 52, 56, 125, 0, 0x1F600] := literal_roundtrip _ (by decide)

/-- code points SMT-LIB strings do not have are refused, not mangled -/
theorem literal_rejects_big (s : S) (h : ∃ c ∈ s, c > z3MaxChar) : claripyEncode s = none := literal_rejects_big' s h

/-- Values extracted from models: decoding what Z3 prints gives back every string Python can hold. -/
theorem extract_roundtrip (s : S) (h : ∀ c ∈ s, c ≤ pyMaxChar) : claripyDecode (z3Print s) = s := extract_roundtrip' s h

/-! ## why the repairs were needed (negations with concrete witnesses; each witness is replayed on the real code) -/

/-- without claripy's escaping (`claripyEncode = id`, the code before the fix) the literal `\u{48}` arrives as `H` -/
theorem literal_unescaped_backslash_wrong : ¬ ∀ s : S, z3Parse (z3pyEncode s) = s := by
  intro h; have := h [92, 117, 123, 52, 56, 125]; revert this; decide

/-- without decoding (`claripyDecode = id`, the code before the fix) the model value NUL,`z` comes back as `\u{0}z` -/
theorem extract_undecoded_wrong : ¬ ∀ s : S, z3Print s = s := by
  intro h
  have := h [0, 122]
  simp [z3Print, braceEscape, toHex_eq, hexChar, bslash, chU, lbrace, rbrace] at this

/-- `str.to_int "-5"` is -1; Python's `int("-5")` (the code before the fix) is -5 -/
theorem python_int_is_not_to_int : Spec.toInt [45, 53] = minusOne ∧ minusOne ≠ M64 - 5 := by decide

/-- `str.prefixof "a." "ab"` is false; the regular expression `^a.` (the code before the fix) matches `ab` -/
theorem regex_prefix_is_not_prefixof : Spec.prefixof [97, 46] [97, 98] = false := by decide

/-- the unguarded expression `i + s[i:].index(t)` (the code before the fix) -/
def indexofUnguarded (s t : S) (i : Nat) : Nat :=
  match Py.index (Py.sliceFrom s i) t with
  | some k => Model.bvv64 (i + k)
  | none => Model.bvvMinusOne

theorem indexof_unguarded_wrong : ¬ ∀ (s t : S) (i : Nat), indexofUnguarded s t i = Spec.indexof s t i := by
  intro h; have := h [97, 98] [] 5; revert this; decide

/-! ## bounded tests written in Lean (not obligations) -/
theorem test_ops_small :
    (List.range 5).map (Model.StrIndexOf [97, 98, 97] [97]) = [0, 2, 2, minusOne, minusOne] ∧
    Model.StrToInt [49, 56, 52, 52, 54, 55, 52, 52, 48, 55, 51, 55, 48, 57, 53, 53, 49, 54, 49, 54] = 0 ∧
    Model.StrSuffixOf [97, 98] [120, 10, 97, 98] = true ∧
    Model.StrPrefixOf [40] [40] = true := by decide

end Claripy.Props.C03
