import Claripy.AST.Subst
import ClaripyProofs.Lemmas.AST.RulesSound
import ClaripyProofs.Lemmas.AST.IteRelocSound
import ClaripyProofs.Lemmas.AST.CanonInj
import ClaripyProofs.Lemmas.AST.LeafWalk
/-!
# C08 — substitution, canonicalisation and ITE utilities preserve meaning

* `C08_replace_leaf` — substituting an expression for a variable (claripy.replace on a leaf key) denotes the original
  under the assignment that binds the variable to the value of the replacement (substitution lemma, all expressions);
* `C08_rename` / `C08_canonicalize` — canonicalize is a renaming: its value is the original's value under the renamed
  assignment;
* `C08_ite_cases` — `ite_cases` denotes the value of the first case whose condition holds, else the default;
* `C08_ite_dict` — the binary search tree of `ite_dict` denotes the same as the linear first-match table over the same
  entries, for ANY choice of split keys and any recursion depth (keys as unsigned values of the selector's width);
* `C08_excavate_step` — pulling an `If` out of an argument position of any operator preserves the value
  (the step `excavate_ite`/`burrow_ite` iterate);
* `C08_identical_vsa_route_unsound` — the pair the real `BV.identical` reports identical is not a renaming pair
  (recorded finding: the method answers through the VSA backend).
-/
namespace Claripy.Props.C08
open Claripy.AST

/-! ### replace -/

def Env.setBv (env : Env) (name : String) (v : Nat) : Env :=
  { env with bv := fun n => if n = name then v else env.bv n }

mutual
/-- every occurrence of the variable name has width `w` (claripy variables are name+width; the model's
assignments are keyed by name) -/
def onlyWidth (name : String) (w : Nat) : Expr → Bool
  | .bvs n w' => n ≠ name || w' = w
  | .app _ args => onlyWidthList name w args
  | _ => true
def onlyWidthList (name : String) (w : Nat) : List Expr → Bool
  | [] => true
  | e :: es => onlyWidth name w e && onlyWidthList name w es
end

mutual
theorem substBv_sound (env : Env) (name : String) (w v : Nat) (r : Expr) (hr : eval env r = .bv w v) :
    ∀ e : Expr, onlyWidth name w e = true → eval env (substBv name w r e) = eval (Env.setBv env name v) e
  | .bvv x w', _ => by simp [substBv, eval]
  | .bvs n w', h => by
    simp only [substBv]
    by_cases hc : n = name ∧ w' = w
    · obtain ⟨rfl, rfl⟩ := hc
      have hwf := eval_wf env r
      rw [hr] at hwf
      simp [hr, eval, Env.setBv, hwf.2, Nat.mod_eq_of_lt hwf.1]
    · simp only [hc, if_false]
      have hn : n ≠ name := by
        intro hn; subst hn
        simp [onlyWidth] at h
        exact hc ⟨rfl, h⟩
      simp [eval, Env.setBv, hn]
  | .boolv b, _ => by simp [substBv, eval]
  | .bools n, _ => by simp [substBv, eval, Env.setBv]
  | .app op args, h => by
    simp only [substBv, eval]
    rw [substBvList_sound env name w v r hr args (by simpa [onlyWidth] using h)]
theorem substBvList_sound (env : Env) (name : String) (w v : Nat) (r : Expr) (hr : eval env r = .bv w v) :
    ∀ es : List Expr, onlyWidthList name w es = true →
      evalList env (substBvList name w r es) = evalList (Env.setBv env name v) es
  | [], _ => by simp [substBvList, evalList]
  | e :: es, h => by
    simp only [onlyWidthList, Bool.and_eq_true] at h
    simp only [substBvList, evalList]
    rw [substBv_sound env name w v r hr e h.1, substBvList_sound env name w v r hr es h.2]
end

/-- **C08 (replace)**: substitution lemma. -/
theorem C08_replace_leaf (env : Env) (name : String) (w v : Nat) (r e : Expr) (hr : eval env r = .bv w v)
    (h : onlyWidth name w e = true) : eval env (substBv name w r e) = eval (Env.setBv env name v) e :=
  substBv_sound env name w v r hr e h

/-! ### canonicalize -/

def Env.comp (env : Env) (ρ : String → String) : Env := { bv := fun n => env.bv (ρ n), bool := fun n => env.bool (ρ n) }

mutual
theorem rename_sound (env : Env) (ρ : String → String) : ∀ e : Expr, eval env (rename ρ e) = eval (Env.comp env ρ) e
  | .bvv _ _ => by simp [rename, eval]
  | .bvs n w => by simp [rename, eval, Env.comp]
  | .boolv _ => by simp [rename, eval]
  | .bools n => by simp [rename, eval, Env.comp]
  | .app op args => by simp only [rename, eval]; rw [renameList_sound env ρ args]
theorem renameList_sound (env : Env) (ρ : String → String) :
    ∀ es : List Expr, evalList env (renameList ρ es) = evalList (Env.comp env ρ) es
  | [] => by simp [renameList, evalList]
  | e :: es => by simp only [renameList, evalList]; rw [rename_sound env ρ e, renameList_sound env ρ es]
end

/-- **C08 (rename)**: a renamed expression denotes the original under the renamed assignment. -/
theorem C08_rename (env : Env) (ρ : String → String) (e : Expr) : eval env (rename ρ e) = eval (Env.comp env ρ) e :=
  rename_sound env ρ e

/-- **C08 (canonicalize)**: `canonicalize` is such a renaming. -/
theorem C08_canonicalize (env : Env) (e : Expr) :
    ∃ ρ : String → String, canonicalize e = rename ρ e ∧ eval env (canonicalize e) = eval (Env.comp env ρ) e :=
  ⟨_, rfl, rename_sound env _ e⟩

/-- **C08 (canonicalize is a renaming that merges nothing)**: two variables among the leaves `canonicalize` walks
(`leaf_asts()`) that have different names get different canonical names (`C08_canonicalize_injective_full` adds that the
walk reaches every variable). -/
theorem C08_canonicalize_injective (e : Expr) (l1 l2 : Expr) (h1 : l1 ∈ leafAsts e) (h2 : l2 ∈ leafAsts e)
    (n1 n2 : String) (hn1 : leafName l1 = some n1) (hn2 : leafName l2 = some n2) (hne : n1 ≠ n2) :
    canonicalize e = rename (canonRho e) e ∧ canonRho e n1 ≠ canonRho e n2 :=
  ⟨rfl, canonRho_injective e l1 l2 h1 h2 n1 n2 hn1 hn2 hne⟩

theorem leafName_isLeaf (l : Expr) (n : String) (h : leafName l = some n) : l.isLeaf = true := by
  cases l <;> simp [leafName, Expr.isLeaf] at h ⊢

/-- **C08 (canonicalize, full statement)**: any two variables that occur anywhere in the expression and have different
names get different canonical names — the walk reaches every leaf (`leafAsts_complete`: the fuel of the modelled stack walk
is never exhausted, whatever sharing the expression has) and the numbering never repeats. -/
theorem C08_canonicalize_injective_full (e : Expr) (l1 l2 : Expr) (h1 : l1 ∈ e.subs) (h2 : l2 ∈ e.subs)
    (n1 n2 : String) (hn1 : leafName l1 = some n1) (hn2 : leafName l2 = some n2) (hne : n1 ≠ n2) :
    canonRho e n1 ≠ canonRho e n2 :=
  canonRho_injective e l1 l2 (leafAsts_complete e l1 h1 (leafName_isLeaf l1 n1 hn1))
    (leafAsts_complete e l2 h2 (leafName_isLeaf l2 n2 hn2)) n1 n2 hn1 hn2 hne

/-- the right-to-left walk: the second operand is leaf 0, the first is leaf 1; a variable that already has a canonical
name is renamed like any other (here to itself) -/
example : (canonicalize (.app .add [.bvs "a" 8, .bvs "canonical_0" 8]) == .app .add [.bvs "canonical_1" 8, .bvs "canonical_0" 8]) = true := by
  decide +kernel

/-! ### ite_cases / ite_dict -/

/-- value of a case list: first-match semantics written with the value-level `If` -/
def evalCases (env : Env) : List (Expr × Expr) → Expr → Val
  | [], d => eval env d
  | cv :: rest, d => valIte (eval env cv.1) (eval env cv.2) (evalCases env rest d)

theorem iteCases_eval (env : Env) (cs : List (Expr × Expr)) (d : Expr) :
    eval env (iteCases cs d) = evalCases env cs d := by
  induction cs with
  | nil => rfl
  | cons cv rest ih =>
    simp only [iteCases, List.foldr] at ih ⊢
    simp only [eval, evalList, applyOp, evalCases, ih]

/-- all conditions are Booleans and all values have the type of the default -/
def WellTypedCases (env : Env) (cs : List (Expr × Expr)) (d : Expr) : Prop :=
  ∀ cv ∈ cs, (∃ b, eval env cv.1 = .bool b) ∧ sameTy (eval env cv.2) (eval env d)

theorem sameTy_refl_of_left {a b : Val} (h : sameTy a b) : sameTy a a := by
  cases a <;> cases b <;> simp_all [sameTy]
theorem sameTy_refl_of_right {a b : Val} (h : sameTy a b) : sameTy b b := by
  cases a <;> cases b <;> simp_all [sameTy]

theorem evalCases_sameTy (env : Env) (cs : List (Expr × Expr)) (d : Expr) (hd : sameTy (eval env d) (eval env d))
    (hwt : WellTypedCases env cs d) : sameTy (evalCases env cs d) (eval env d) := by
  induction cs with
  | nil => exact hd
  | cons cv rest ih =>
    obtain ⟨⟨b, hb⟩, hty⟩ := hwt cv (List.mem_cons_self ..)
    have ih' := ih (fun x hx => hwt x (List.mem_cons_of_mem _ hx))
    simp only [evalCases, hb]
    rw [valIte_of_sameTy b _ _ (sameTy_trans hty (sameTy_symm ih'))]
    cases b <;> simp [hty, ih']

/-- **C08 (ite_cases)**: the expression denotes the value of the first case whose condition is true, else the default. -/
theorem C08_ite_cases (env : Env) (cs : List (Expr × Expr)) (d : Expr) (hd : sameTy (eval env d) (eval env d))
    (hwt : WellTypedCases env cs d) :
    eval env (iteCases cs d) =
      match cs.find? (fun cv => eval env cv.1 == .bool true) with
      | some cv => eval env cv.2
      | none => eval env d := by
  rw [iteCases_eval]
  induction cs with
  | nil => rfl
  | cons cv rest ih =>
    obtain ⟨⟨b, hb⟩, hty⟩ := hwt cv (List.mem_cons_self ..)
    have hrest : WellTypedCases env rest d := fun x hx => hwt x (List.mem_cons_of_mem _ hx)
    have hty' := evalCases_sameTy env rest d hd hrest
    simp only [evalCases, hb, List.find?]
    rw [valIte_of_sameTy b _ _ (sameTy_trans hty (sameTy_symm hty'))]
    cases b
    · simp only [Bool.false_eq_true, if_false]
      have : (Val.bool false == Val.bool true) = false := by decide
      simp only [this]
      exact ih hrest
    · have : (Val.bool true == Val.bool true) = true := by decide
      simp [this]

/-- removing entries whose condition is false does not change the value of a case list -/
theorem evalCases_filter (env : Env) (cs : List (Expr × Expr)) (d : Expr) (hd : sameTy (eval env d) (eval env d))
    (hwt : WellTypedCases env cs d) (keep : Expr × Expr → Bool)
    (hkeep : ∀ cv ∈ cs, keep cv = false → eval env cv.1 = .bool false) :
    evalCases env (cs.filter keep) d = evalCases env cs d := by
  induction cs with
  | nil => rfl
  | cons cv rest ih =>
    have hrest : WellTypedCases env rest d := fun x hx => hwt x (List.mem_cons_of_mem _ hx)
    have ih' := ih hrest (fun x hx => hkeep x (List.mem_cons_of_mem _ hx))
    obtain ⟨⟨b, hb⟩, hty⟩ := hwt cv (List.mem_cons_self ..)
    have hty' := evalCases_sameTy env rest d hd hrest
    simp only [List.filter]
    cases hk : keep cv with
    | true => simp only [evalCases, ih']
    | false =>
      have hf := hkeep cv (List.mem_cons_self ..) hk
      simp only [evalCases, hf]
      rw [valIte_of_sameTy false _ _ (sameTy_trans hty (sameTy_symm hty'))]
      simpa using ih'

/-- a predicate on table entries, seen on the corresponding case `(i == key, value)` -/
def liftPred (p : Nat × Expr → Bool) (cv : Expr × Expr) : Bool :=
  match cv.1 with
  | .app .eq [_, .bvv k _] => p (k, cv.2)
  | _ => true

theorem liftPred_linear (p : Nat × Expr → Bool) (i : Expr) (w : Nat) (kv : Nat × Expr) :
    liftPred p (.app .eq [i, .bvv kv.1 w], kv.2) = p kv := by
  cases kv; rfl

theorem linearCases_filter (i : Expr) (w : Nat) (d : List (Nat × Expr)) (p : Nat × Expr → Bool) :
    linearCases i w (d.filter p) = (linearCases i w d).filter (liftPred p) := by
  induction d with
  | nil => rfl
  | cons kv rest ih =>
    simp only [linearCases, List.filter, List.map] at ih ⊢
    cases hp : p kv <;> simp [hp, ih, liftPred_linear]

/-- hypotheses of the ite_dict theorem: the selector is a `w`-bit vector, keys are unsigned `w`-bit values,
all values have the type of the default -/
structure DictOK (env : Env) (i : Expr) (w : Nat) (d : List (Nat × Expr)) (dflt : Expr) : Prop where
  sel : ∃ x : BitVec w, eval env i = Val.ofBV x ∧ 0 < w
  keys : ∀ kv ∈ d, kv.1 < 2 ^ w
  vals : ∀ kv ∈ d, sameTy (eval env kv.2) (eval env dflt)
  dflt : sameTy (eval env dflt) (eval env dflt)

theorem DictOK.filter {env i w d dflt} (h : DictOK env i w d dflt) (p : Nat × Expr → Bool) :
    DictOK env i w (d.filter p) dflt :=
  ⟨h.sel, fun kv hkv => h.keys kv (List.mem_of_mem_filter hkv), fun kv hkv => h.vals kv (List.mem_of_mem_filter hkv), h.dflt⟩

theorem linear_wellTyped {env i w d dflt} (h : DictOK env i w d dflt) : WellTypedCases env (linearCases i w d) dflt := by
  intro cv hcv
  simp only [linearCases, List.mem_map] at hcv
  obtain ⟨kv, hkv, rfl⟩ := hcv
  obtain ⟨x, hx, hw⟩ := h.sel
  refine ⟨?_, h.vals kv hkv⟩
  simp only [eval_app, evalList_cons, evalList_nil, applyOp, hx, eval_bvv env kv.1 w hw, valEq_ofBV _ _ hw]
  exact ⟨_, rfl⟩

/-- **C08 (ite_dict)**: for any split function and any recursion depth, the search tree denotes exactly what the
linear first-match table over the same entries denotes. -/
theorem C08_ite_dict (env : Env) (split : List (Nat × Expr) → Nat) (i : Expr) (w : Nat) (dflt : Expr)
    (hsplit : ∀ d' : List (Nat × Expr), (∀ kv ∈ d', kv.1 < 2 ^ w) → split d' < 2 ^ w) :
    ∀ (fuel : Nat) (d : List (Nat × Expr)), DictOK env i w d dflt →
      eval env (iteDict split i w dflt fuel d) = eval env (iteCases (linearCases i w d) dflt)
  | 0, d, _ => rfl
  | fuel + 1, d, hok => by
    simp only [iteDict]
    split
    · rfl
    · obtain ⟨x, hx, hw⟩ := hok.sel
      have ihL := C08_ite_dict env split i w dflt hsplit fuel _ (hok.filter fun kv => decide (kv.1 ≤ split d))
      have ihH := C08_ite_dict env split i w dflt hsplit fuel _ (hok.filter fun kv => decide (¬ kv.1 ≤ split d))
      simp only [eval_app, evalList_cons, evalList_nil, applyOp]
      rw [ihL, ihH, iteCases_eval, iteCases_eval, iteCases_eval]
      simp only [hx, eval_bvv env (split d) w hw, bvCmp_ofBV _ _ _ hw]
      -- both halves are the full table with non-matching entries removed
      have hL := linearCases_filter i w d (fun kv => decide (kv.1 ≤ split d))
      have hH := linearCases_filter i w d (fun kv => decide (¬ kv.1 ≤ split d))
      have wt := linear_wellTyped hok
      by_cases hle : BitVec.ule x (BitVec.ofNat w (split d)) = true
      · -- selector ≤ split: the entries with key > split cannot match
        have hf := evalCases_filter env (linearCases i w d) dflt hok.dflt wt
            (liftPred fun kv => decide (kv.1 ≤ split d)) (by
          intro cv hcv hk
          simp only [linearCases, List.mem_map] at hcv
          obtain ⟨kv, hkv, rfl⟩ := hcv
          rw [liftPred_linear] at hk
          simp only [decide_eq_false_iff_not, Nat.not_le] at hk
          simp only [eval_app, evalList_cons, evalList_nil, applyOp, hx, eval_bvv env kv.1 w hw, valEq_ofBV _ _ hw]
          congr 1
          simp only [beq_eq_false_iff_ne, ne_eq]
          intro he
          simp only [BitVec.ule, decide_eq_true_eq] at hle
          have := hok.keys kv hkv
          rw [he] at hle
          simp only [BitVec.toNat_ofNat] at hle
          have e1 : kv.1 % 2 ^ w = kv.1 := Nat.mod_eq_of_lt this
          have e2 : split d % 2 ^ w ≤ split d := Nat.mod_le _ _
          omega)
        rw [hL, hf]
        have hty := evalCases_sameTy env (linearCases i w d) dflt hok.dflt wt
        have htyH := evalCases_sameTy env _ dflt hok.dflt (linear_wellTyped (hok.filter fun kv => decide (¬ kv.1 ≤ split d)))
        rw [hle, valIte_of_sameTy true _ _ (sameTy_trans hty (sameTy_symm htyH))]
        simp
      · -- selector > split: the entries with key ≤ split cannot match
        have hle' : BitVec.ule x (BitVec.ofNat w (split d)) = false := by simpa using hle
        have hf := evalCases_filter env (linearCases i w d) dflt hok.dflt wt
            (liftPred fun kv => decide (¬ kv.1 ≤ split d)) (by
          intro cv hcv hk
          simp only [linearCases, List.mem_map] at hcv
          obtain ⟨kv, hkv, rfl⟩ := hcv
          rw [liftPred_linear] at hk
          simp only [decide_eq_false_iff_not, Decidable.not_not] at hk
          simp only [eval_app, evalList_cons, evalList_nil, applyOp, hx, eval_bvv env kv.1 w hw, valEq_ofBV _ _ hw]
          congr 1
          simp only [beq_eq_false_iff_ne, ne_eq]
          intro he
          simp only [BitVec.ule, decide_eq_false_iff_not, Nat.not_le] at hle'
          have := hok.keys kv hkv
          rw [he] at hle'
          simp only [BitVec.toNat_ofNat] at hle'
          have e1 : kv.1 % 2 ^ w = kv.1 := Nat.mod_eq_of_lt this
          have hs : split d < 2 ^ w := hsplit d hok.keys
          rw [Nat.mod_eq_of_lt hs] at hle'; omega)
        rw [hH, hf]
        have hty := evalCases_sameTy env (linearCases i w d) dflt hok.dflt wt
        have htyL := evalCases_sameTy env _ dflt hok.dflt (linear_wellTyped (hok.filter fun kv => decide (kv.1 ≤ split d)))
        rw [hle', valIte_of_sameTy false _ _ (sameTy_trans htyL (sameTy_symm hty))]
        simp

theorem mem_insertSorted (x y : Nat) (l : List Nat) : y ∈ insertSorted x l ↔ y = x ∨ y ∈ l := by
  induction l with
  | nil => simp [insertSorted]
  | cons a as ih =>
    simp only [insertSorted]
    split
    · simp
    · simp only [List.mem_cons, ih]; constructor <;> (intro h; rcases h with h | h | h <;> simp [h])

theorem mem_sortNat (y : Nat) (l : List Nat) : y ∈ sortNat l ↔ y ∈ l := by
  induction l with
  | nil => simp [sortNat]
  | cons a as ih => simp only [sortNat, List.foldr] at ih ⊢; rw [mem_insertSorted, ih]; simp

/-- the median key `ite_dict` really uses is one of the keys (or 0 for an empty table), hence in range -/
theorem medianKey_lt (w : Nat) (d : List (Nat × Expr)) (h : ∀ kv ∈ d, kv.1 < 2 ^ w) : medianKey d < 2 ^ w := by
  unfold medianKey
  simp only
  rw [List.getD_eq_getElem?_getD]
  cases hg : (sortNat (d.map (·.1)))[((sortNat (d.map (·.1))).length - 1) / 2]? with
  | none => simp
  | some k =>
    simp only [Option.getD_some]
    have hm : k ∈ sortNat (d.map (·.1)) := List.mem_of_getElem? hg
    rw [mem_sortNat, List.mem_map] at hm
    obtain ⟨kv, hkv, rfl⟩ := hm
    exact h kv hkv

/-- **C08 (ite_dict, as implemented)**: with the median split of the real code. -/
theorem C08_ite_dict_median (env : Env) (i : Expr) (w : Nat) (dflt : Expr) (fuel : Nat) (d : List (Nat × Expr))
    (hok : DictOK env i w d dflt) :
    eval env (iteDict medianKey i w dflt fuel d) = eval env (iteCases (linearCases i w d) dflt) :=
  C08_ite_dict env medianKey i w dflt (medianKey_lt w) fuel d hok

/-! ### excavate / burrow: one step -/

theorem evalList_congr_at (env : Env) (pre post : List Expr) (x y : Expr) (hxy : eval env x = eval env y) :
    evalList env (pre ++ x :: post) = evalList env (pre ++ y :: post) := by
  induction pre with
  | nil => simp [evalList, hxy]
  | cons p ps ih => simp [evalList, ih]

/-- **C08 (excavate step)**: an `If` in any argument position of any operator can be pulled to the top. -/
theorem C08_excavate_step (env : Env) (op : Op) (pre post : List Expr) (c a b : Expr) (cb : Bool)
    (hc : eval env c = .bool cb) (hty : sameTy (eval env a) (eval env b))
    (htop : sameTy (eval env (.app op (pre ++ a :: post))) (eval env (.app op (pre ++ b :: post)))) :
    eval env (.app op (pre ++ (.app .ite [c, a, b]) :: post)) =
      eval env (.app .ite [c, .app op (pre ++ a :: post), .app op (pre ++ b :: post)]) := by
  have hite : eval env (.app .ite [c, a, b]) = if cb then eval env a else eval env b := by
    simp only [eval_app, evalList_cons, evalList_nil, applyOp, hc]
    exact valIte_of_sameTy cb _ _ hty
  have hlist := evalList_congr_at env pre post
  rw [eval_app env .ite, evalList_cons, evalList_cons, evalList_cons, evalList_nil]
  simp only [applyOp, hc]
  rw [valIte_of_sameTy cb _ _ htop]
  cases cb
  · simp only [Bool.false_eq_true, if_false] at hite ⊢
    rw [eval_app, eval_app, hlist _ _ hite]
  · simp only [if_true] at hite ⊢
    rw [eval_app, eval_app, hlist _ _ hite]

/-! ### excavate_ite / burrow_ite: the whole algorithms -/

/-- **C08 (excavate_ite)**: the model of `_excavate_ite` (Claripy/AST/IteReloc.lean: bottom-up, pulling every `If` whose condition
is the first `If` argument's condition or its negation to the top of each node, giving up on other conditions) preserves the
value of EVERY well-typed expression under every assignment — for any node constructor and any negation constructor that
preserve values (`MkSound`, `NotSound`: what C01 establishes for the real simplifying constructors). -/
theorem C08_excavate_sound (mk : Op → List Expr → Expr) (notOf : Expr → Expr) (hmk : MkSound mk) (hnot : NotSound notOf)
    (env : Env) (e : Expr) (h : eval env e ≠ .err) : eval env (excavate mk notOf e) = eval env e :=
  excavate_sound mk notOf hmk hnot env e h

/-- the instance the driver runs: raw node constructor, `boolean_not_simplifier` for `~cond` -/
theorem C08_excavate_model_sound (env : Env) (e : Expr) (h : eval env e ≠ .err) :
    eval env (excavate (fun op args => .app op args) mkNot e) = eval env e :=
  excavate_sound _ _ mkSound_raw notSound_mkNot env e h

/-- with the constructor that rewrites every new node by the proven rule table (as `make_like(simplify=True)` / `claripy.If` do):
C01's rule soundness discharges the constructor hypothesis -/
theorem C08_excavate_rules_sound (env : Env) (e : Expr) (h : eval env e ≠ .err) :
    eval env (excavate mkRules mkNotR e) = eval env e :=
  excavate_sound _ _ mkSound_rules notSound_mkNotR env e h

/-- **C08 (burrow_ite)**: the model of `_burrow_ite` (with the guard of the repaired code: the inner `If` is built only over
operands of one sort and size) preserves the value of every well-typed expression, for every recursion budget. -/
theorem C08_burrow_sound (mk : Op → List Expr → Expr) (hmk : MkSound mk) (env : Env) (fuel : Nat) (e : Expr)
    (h : eval env e ≠ .err) : eval env (burrow mk fuel e) = eval env e :=
  burrow_sound mk hmk env fuel e h

/-- without the size guard the step is wrong: the inner `If` of `If(c, x[3:0], y[3:0])` with `x`, `y` of different sizes is
ill-typed although the outer expression is well-typed (the defect repaired in the real `_burrow_ite`) -/
theorem C08_burrow_unguarded_ill_typed :
    let env : Env := ⟨fun _ => 0, fun _ => true⟩
    eval env (.app .ite [.bools "c", .app (.extract 3 0) [.bvs "x" 8], .app (.extract 3 0) [.bvs "y" 16]]) ≠ .err ∧
    eval env (.app (.extract 3 0) [.app .ite [.bools "c", .bvs "x" 8, .bvs "y" 16]]) = .err := by
  decide

/-! ### identical -/

/-- The real `BV.identical` answers True for `x + 1` and `x + 2` (both abstract to TOP in the VSA backend), but no
renaming of variables maps one to the other. -/
theorem C08_identical_vsa_route_unsound (ρ : String → String) :
    rename ρ (.app .add [.bvs "x" 8, .bvv 1 8]) ≠ .app .add [.bvs "x" 8, .bvv 2 8] := by
  simp [rename, renameList]

/-- non-vacuity of the ite_dict hypotheses: an 8-bit selector and a four-entry table -/
example : DictOK ⟨fun _ => 255, fun _ => false⟩ (.bvs "i" 8) 8
    [(255, .bvv 1 8), (5, .bvv 2 8), (7, .bvv 3 8), (9, .bvv 4 8)] (.bvv 0 8) :=
  ⟨⟨255#8, by decide, by decide⟩, by decide,
   by intro kv hkv; simp at hkv; rcases hkv with rfl | rfl | rfl | rfl <;> simp [eval, sameTy],
   by simp [eval, sameTy]⟩

end Claripy.Props.C08
