import Claripy.AST.Fold
import Claripy.AST.Rules
/-!
# C04 — building and folding well-typed expressions never crashes

Model side of the property: eager folding (`Claripy.AST.foldOp`, the model of
`backends.concrete.call`) of a well-typed, well-sized constant node returns a value or one of the two
documented errors (division by zero, byte-reversal of a non-byte width) — never an unrelated exception
(`Err.crash`, `Err.sizeMismatch`).  All model functions are total Lean definitions (structural
recursion / folds over lists), so "never hangs" holds of the model by construction; the rewrite table
is a finite list of non-recursive pattern matches.  The correspondence check compares the model's
outcome (value / error kind) with the real exception kind on boundary inputs.
-/
namespace Claripy.Props.C04
open Claripy.AST Claripy.BV

/-- all bit-vector operands of one positive width `w` -/
def allBV (w : Nat) (vs : List CVal) : Prop := ∀ v ∈ vs, ∃ x, v = .bv x w

/-- well-typed, well-sized argument lists per operator (what `operations.op`'s type and length checks admit) -/
def WT : Op → List CVal → Prop
  | .add, vs | .mul, vs | .band, vs | .bor, vs | .bxor, vs => ∃ w, 0 < w ∧ 2 ≤ vs.length ∧ allBV w vs
  | .sub, vs | .udiv, vs | .umod, vs | .sdiv, vs | .smod, vs | .shl, vs | .ashr, vs | .lshr, vs | .rotl, vs | .rotr, vs
  | .ult, vs | .ule, vs | .ugt, vs | .uge, vs | .slt, vs | .sle, vs | .sgt, vs | .sge, vs =>
      ∃ w x y, 0 < w ∧ vs = [.bv x w, .bv y w]
  | .eq, vs | .ne, vs => (∃ w x y, 0 < w ∧ vs = [.bv x w, .bv y w]) ∨ (∃ a b, vs = [.bool a, .bool b])
  | .bnot, vs | .neg, vs | .reverse, vs => ∃ w x, 0 < w ∧ vs = [.bv x w]
  | .extract hi lo, vs => ∃ w x, lo ≤ hi ∧ hi < w ∧ vs = [.bv x w]
  | .zeroExt _, vs | .signExt _, vs => ∃ w x, 0 < w ∧ vs = [.bv x w]
  | .concat, vs => vs ≠ [] ∧ ∀ v ∈ vs, ∃ x w, v = .bv x w
  | .ite, vs => ∃ c t f, vs = [.bool c, t, f] ∧
      ((∃ x y w, t = .bv x w ∧ f = .bv y w) ∨ (∃ a b, t = .bool a ∧ f = .bool b))
  | .and, vs | .or, vs => vs ≠ [] ∧ ∀ v ∈ vs, ∃ b, v = .bool b
  | .not, vs => ∃ b, vs = [.bool b]

/-- the outcomes the property allows -/
def Documented : Except Err CVal → Prop
  | .ok _ => True
  | .error .divZero => True
  | .error .reverseNonByte => True
  | .error _ => False

theorem bin_documented (f : Nat → Nat → Nat → R) (w x y : Nat) (hw : 0 < w)
    (hf : Documented ((f w x y).map fun r => CVal.bv r w)) : Documented (bin f (.bv x w) (.bv y w)) := by
  simp only [bin, sized2, hw, and_self, if_true]
  cases h : f w x y with
  | ok r => simp [h, Documented, bind, Except.bind, pure, Except.pure]
  | error e => rw [h] at hf; simpa [h, Documented, bind, Except.bind, Except.map] using hf

theorem reduceL_bin_documented (f : Nat → Nat → Nat → R) (hf : ∀ w x y, ∃ r, f w x y = .ok r)
    (w : Nat) (hw : 0 < w) (vs : List CVal) (hvs : allBV w vs) (hne : vs ≠ []) :
    ∃ r, reduceL (bin f) vs = .ok (.bv r w) := by
  cases vs with
  | nil => exact absurd rfl hne
  | cons v vs =>
    obtain ⟨x, rfl⟩ := hvs v (List.mem_cons_self ..)
    simp only [reduceL]
    have hvs' : allBV w vs := fun u hu => hvs u (List.mem_cons_of_mem _ hu)
    clear hvs hne
    induction vs generalizing x with
    | nil => exact ⟨x, rfl⟩
    | cons u us ih =>
      obtain ⟨y, rfl⟩ := hvs' u (List.mem_cons_self ..)
      obtain ⟨r, hr⟩ := hf w x y
      simp only [List.foldlM, bin, sized2, hw, and_self, if_true, hr, bind, Except.bind, pure, Except.pure]
      exact ih r (fun v hv => hvs' v (List.mem_cons_of_mem _ hv))

theorem boolAll_ok (vs : List CVal) (h : ∀ v ∈ vs, ∃ b, v = .bool b) : ∃ r, boolAll vs = .ok (.bool r) := by
  induction vs with
  | nil => exact ⟨true, rfl⟩
  | cons v vs ih =>
    obtain ⟨b, rfl⟩ := h v (List.mem_cons_self ..)
    obtain ⟨r, hr⟩ := ih (fun u hu => h u (List.mem_cons_of_mem _ hu))
    exact ⟨b && r, by simp [boolAll, hr, bind, Except.bind, pure, Except.pure]⟩

theorem boolAny_ok (vs : List CVal) (h : ∀ v ∈ vs, ∃ b, v = .bool b) : ∃ r, boolAny vs = .ok (.bool r) := by
  induction vs with
  | nil => exact ⟨false, rfl⟩
  | cons v vs ih =>
    obtain ⟨b, rfl⟩ := h v (List.mem_cons_self ..)
    obtain ⟨r, hr⟩ := ih (fun u hu => h u (List.mem_cons_of_mem _ hu))
    exact ⟨b || r, by simp [boolAny, hr, bind, Except.bind, pure, Except.pure]⟩

/-- **C04 (model)**: folding a well-typed constant node yields a value or a documented error, for every
operator, width and constant. -/
theorem C04_fold_documented (op : Op) (vs : List CVal) (h : WT op vs) : Documented (foldOp op vs) := by
  cases op
  case add | mul | band | bor | bxor =>
    obtain ⟨w, hw, hl, hbv⟩ := h
    have hne : vs ≠ [] := by intro e; subst e; simp at hl
    first
      | (obtain ⟨r, hr⟩ := reduceL_bin_documented add (fun _ _ _ => ⟨_, rfl⟩) w hw vs hbv hne; simp [foldOp, hr, Documented]; done)
      | (obtain ⟨r, hr⟩ := reduceL_bin_documented mul (fun _ _ _ => ⟨_, rfl⟩) w hw vs hbv hne; simp [foldOp, hr, Documented]; done)
      | (obtain ⟨r, hr⟩ := reduceL_bin_documented and_ (fun _ _ _ => ⟨_, rfl⟩) w hw vs hbv hne; simp [foldOp, hr, Documented]; done)
      | (obtain ⟨r, hr⟩ := reduceL_bin_documented or_ (fun _ _ _ => ⟨_, rfl⟩) w hw vs hbv hne; simp [foldOp, hr, Documented]; done)
      | (obtain ⟨r, hr⟩ := reduceL_bin_documented xor_ (fun _ _ _ => ⟨_, rfl⟩) w hw vs hbv hne; simp [foldOp, hr, Documented]; done)
  case sub =>
    obtain ⟨w, x, y, hw, rfl⟩ := h
    simp [foldOp, reduceL, List.foldlM, bin, sized2, hw, sub, bind, Except.bind, pure, Except.pure, Documented]
  case udiv | umod | sdiv | smod =>
    obtain ⟨w, x, y, hw, rfl⟩ := h
    simp only [foldOp]
    apply bin_documented _ w x y hw
    first
      | (unfold udiv; split <;> simp [Documented, Except.map])
      | (unfold umod; split <;> simp [Documented, Except.map])
      | (unfold sdiv; simp only []; split <;> simp [Documented, Except.map])
      | (unfold smod; simp only []; split <;> simp [Documented, Except.map])
  case shl | ashr | lshr =>
    obtain ⟨w, x, y, hw, rfl⟩ := h
    simp only [foldOp]
    apply bin_documented _ w x y hw
    first
      | (unfold shl; split <;> simp [Documented, Except.map])
      | simp [ashr, lshr, Documented, Except.map]
  case rotl | rotr =>
    obtain ⟨w, x, y, hw, rfl⟩ := h
    simp only [foldOp]
    apply bin_documented _ w x y hw
    have hmw : mask w (w : Int) ≠ 0 := by
      unfold mask
      have h1 : (w : Int) % (2 ^ w : Int) = (w : Int) := by
        apply Int.emod_eq_of_lt (by omega)
        exact_mod_cast (Nat.lt_two_pow_self : w < 2 ^ w)
      rw [h1]; simp; omega
    have shl_ne : ∀ a b e, shl w a b ≠ .error e := by
      intro a b e; unfold shl; split <;> simp
    first
      | (simp only [rotl, umod, hmw, if_false, bind, Except.bind, sub, or_, lshr]
         split
         · rename_i heq
           first
             | exact absurd heq (shl_ne _ _ _)
             | (split at heq <;> first | exact absurd ‹_› (shl_ne _ _ _) | cases heq)
         · simp [Documented, Except.map]
         done)
      | (simp only [rotr, umod, hmw, if_false, bind, Except.bind, sub, or_, lshr]
         split
         · rename_i heq
           first
             | exact absurd heq (shl_ne _ _ _)
             | (split at heq <;> first | exact absurd ‹_› (shl_ne _ _ _) | cases heq)
         · simp [Documented, Except.map]
         done)
  case ult | ule | ugt | uge | slt | sle | sgt | sge =>
    obtain ⟨w, x, y, hw, rfl⟩ := h
    simp [foldOp, cmp, sized2, hw, bind, Except.bind, pure, Except.pure, Documented]
  case eq | ne =>
    rcases h with ⟨w, x, y, hw, rfl⟩ | ⟨a, b, rfl⟩ <;> simp [foldOp, Documented]
  case bnot | neg =>
    obtain ⟨w, x, hw, rfl⟩ := h
    simp [foldOp, not_, neg, bind, Except.bind, pure, Except.pure, Documented]
  case reverse =>
    obtain ⟨w, x, hw, rfl⟩ := h
    simp only [foldOp, reverse]
    split
    · simp [bind, Except.bind, pure, Except.pure, Documented]
    · split
      · simp [bind, Except.bind, Documented]
      · split
        · simp [bind, Except.bind, pure, Except.pure, Documented]
        · split
          · simp [bind, Except.bind, pure, Except.pure, Documented]
          · split <;> simp [bind, Except.bind, pure, Except.pure, Documented]
  case extract hi lo =>
    obtain ⟨w, x, _, _, rfl⟩ := h
    simp [foldOp, extract, bind, Except.bind, pure, Except.pure, Documented]
  case zeroExt n | signExt n =>
    obtain ⟨w, x, hw, rfl⟩ := h
    simp [foldOp, zeroExt, signExt, bind, Except.bind, pure, Except.pure, Documented]
  case concat =>
    replace h := h.2
    simp only [foldOp]
    have : (vs.filterMap pairOf).length = vs.length := by
      induction vs with
      | nil => rfl
      | cons v vs ih =>
        obtain ⟨x, w, rfl⟩ := h v (List.mem_cons_self ..)
        simp [List.filterMap, pairOf, ih (fun u hu => h u (List.mem_cons_of_mem _ hu))]
    split
    · simp [Documented]
    · contradiction
  case ite =>
    obtain ⟨c, t, f, rfl, _⟩ := h
    simp [foldOp, Documented]
  case and =>
    obtain ⟨r, hr⟩ := boolAll_ok vs h.2
    simp [foldOp, hr, Documented]
  case or =>
    obtain ⟨r, hr⟩ := boolAny_ok vs h.2
    simp [foldOp, hr, Documented]
  case not =>
    obtain ⟨b, rfl⟩ := h
    simp [foldOp, Documented]

/-- non-vacuity: a concrete well-typed node with an extreme shift amount folds to a value -/
example : foldOp .shl [.bv 1 64, .bv (2 ^ 62) 64] = .ok (.bv 0 64) := by rfl
example : WT .shl [.bv 1 64, .bv (2 ^ 62) 64] := ⟨64, 1, 2 ^ 62, by decide, rfl⟩
example : foldOp .udiv [.bv 7 8, .bv 0 8] = .error .divZero := by rfl

end Claripy.Props.C04
