import ClaripyProofs.Lemmas.Solver.Structure
/-!
# C15 — merge, combine and split have exactly their documented meaning

At the level of constraint lists (ConstrainedFrontend.merge / combine / split, which FullFrontend, the composite
children and — through them — the other frontends use).
-/
namespace Claripy.Props.C15
open Claripy.Solver

/-- `merge` without ancestor: the models of the merged constraint are exactly the assignments that satisfy some
condition_i together with the i-th solver's constraints -/
theorem C15_merge_models (opts : List (Con × List Con)) (a : Asg) :
    mergeSem opts a = true ↔ ∃ o ∈ opts, o.1.sem a = true ∧ Models o.2 a := mergeSem_iff opts a

/-- `merge` with a common ancestor: exactly the ancestor's models that satisfy some condition -/
theorem C15_merge_ancestor_models (anc : List Con) (conds : List Con) (orc : Con)
    (hor : ∀ a, orc.sem a = conds.any (·.sem a)) (a : Asg) :
    Models (anc ++ [orc]) a ↔ Models anc a ∧ ∃ c ∈ conds, c.sem a = true := ancestorMerge_iff anc conds orc hor a

/-- `combine`: exactly the models of all constraint sets together -/
theorem C15_combine_models (self : List Con) (others : List (List Con)) (a : Asg) :
    Models (combineCons self others) a ↔ Models self a ∧ ∀ o ∈ others, Models o a := combineCons_iff self others a

/-- `_split_constraints` (bounded test, the general theorem `C15_split_partition` below is not yet proved):
on these inputs the groups are variable-disjoint and every constraint index occurs exactly once -/
def splitOk (varss : List (List Var)) : Bool :=
  let (groups, concrete) := splitConstraints varss
  let idx := (groups.map (·.2)).flatten ++ concrete
  -- pairwise disjoint variable sets
  (groups.all fun g => groups.all fun h => g == h || g.1.all fun v => !h.1.contains v) &&
  -- every index exactly once
  (idx.length == varss.length && (List.range varss.length).all idx.contains) &&
  -- each constraint's variables lie in its group
  (groups.all fun g => g.2.all fun i => (varss.getD i []).all g.1.contains)

theorem test_split_examples :
    splitOk [[0, 1], [2], [1, 3], [], [4, 2], [5]] = true ∧ splitOk [[0], [1], [0, 1], [2, 3], [3]] = true ∧
    splitOk [[], []] = true ∧ splitOk [[3, 2, 1, 0], [0], [4], [4, 5], [6]] = true := by decide +kernel

/-- the full statement for split: for every list of constraints, the groups `_split_constraints` returns are
pairwise variable-disjoint, contain every conjunct exactly once, and each conjunct's variables lie in its group -/
def C15_split_partition : Prop := ∀ varss : List (List Var), splitOk varss = true

end Claripy.Props.C15
