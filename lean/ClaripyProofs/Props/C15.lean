import ClaripyProofs.Lemmas.Solver.Structure
import ClaripyProofs.Lemmas.Solver.SplitOk
/-!
# C15 — merge, combine and split have exactly their documented meaning

At the level of constraint lists (ConstrainedFrontend.merge / combine / split, which FullFrontend, the composite
children and — through them — the other frontends use).
-/
namespace Claripy.Props.C15
open Claripy.Solver

/-- `merge` without ancestor: the models of the merged constraint are exactly the assignments that satisfy some
condition_i together with the i-th solver's constraints -/
theorem C15_merge_models (opts : List (Con × List Con)) (a : Asg) :
    mergeSem opts a = true ↔ ∃ o ∈ opts, o.1.sem a = true ∧ Models o.2 a := mergeSem_iff opts a

/-- `merge` with a common ancestor: exactly the ancestor's models that satisfy some condition -/
theorem C15_merge_ancestor_models (anc : List Con) (conds : List Con) (orc : Con)
    (hor : ∀ a, orc.sem a = conds.any (·.sem a)) (a : Asg) :
    Models (anc ++ [orc]) a ↔ Models anc a ∧ ∃ c ∈ conds, c.sem a = true := ancestorMerge_iff anc conds orc hor a

/-- `combine`: exactly the models of all constraint sets together -/
theorem C15_combine_models (self : List Con) (others : List (List Con)) (a : Asg) :
    Models (combineCons self others) a ↔ Models self a ∧ ∀ o ∈ others, Models o a := combineCons_iff self others a

/-- what `_split_constraints` must deliver, as a decidable check of its result: the groups are variable-disjoint, every
constraint index occurs exactly once, each conjunct's variables lie in its group (`C15_split_partition`: it holds for every input) -/
def splitOk (varss : List (List Var)) : Bool :=
  let (groups, concrete) := splitConstraints varss
  let idx := (groups.map (·.2)).flatten ++ concrete
  -- pairwise disjoint variable sets
  (groups.all fun g => groups.all fun h => g == h || g.1.all fun v => !h.1.contains v) &&
  -- every index exactly once
  (idx.length == varss.length && (List.range varss.length).all idx.contains) &&
  -- each constraint's variables lie in its group
  (groups.all fun g => g.2.all fun i => (varss.getD i []).all g.1.contains)

theorem test_split_examples :
    splitOk [[0, 1], [2], [1, 3], [], [4, 2], [5]] = true ∧ splitOk [[0], [1], [0, 1], [2, 3], [3]] = true ∧
    splitOk [[], []] = true ∧ splitOk [[3, 2, 1, 0], [0], [4], [4, 5], [6]] = true := by decide +kernel

/-- **C15 (split)**: for EVERY list of conjuncts (any number, any variables, any sharing), the groups
`_split_constraints` returns are pairwise variable-disjoint, every conjunct occurs in exactly one of them (those without
variables in the CONCRETE group), and each conjunct's variables lie in its group.  Proved through the loop invariant
`SplitInv` (the two dicts describe a partition of the variables seen so far into classes, each class knows exactly the
conjuncts over its variables) and a counting argument on the de-duplicated result. -/
theorem C15_split_partition : ∀ varss : List (List Var), splitOk varss = true := by
  intro varss
  unfold splitOk
  rw [splitConstraints_eq]
  simp only [Bool.and_eq_true, List.all_eq_true, Bool.or_eq_true, beq_iff_eq, Bool.not_eq_eq_eq_not, Bool.not_true,
    decide_eq_true_eq]
  refine ⟨⟨?_, ?_, ?_⟩, ?_⟩
  · intro g hg h hh
    by_cases hgh : g = h
    · exact Or.inl hgh
    · right
      intro v hv
      have := groups_disjoint varss g h hg hh hgh v hv
      simpa using this
  · exact allIdx_length varss
  · intro i hi
    have : i ∈ allIdx varss := (mem_allIdx varss i).mpr (List.mem_range.mp hi)
    simpa [allIdx] using this
  · intro g hg i hi w hw
    have := groups_cover_vars varss g hg i hi w hw
    simpa using this

end Claripy.Props.C15
