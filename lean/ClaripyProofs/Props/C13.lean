import ClaripyProofs.Lemmas.Solver.Independent
/-!
# C13 — replacement and hybrid solvers are exact; approximate modes over-approximate

ReplacementFrontend keeps a map `old ↦ new` learnt from added constraints (`x == 5`, `Not(b)`), rewrites later
constraints and queries with it and hands them to an actual frontend.  What makes that exact:
  * `ReplInv`: every replacement is implied by the constraints held by the actual frontend;
  * the constraint a replacement was learnt from reaches the actual frontend UNREPLACED (it used to be rewritten
    into `5 == 5` and dropped — `C13_dropping_definition_unsound` is the witness of that defect, repaired in /repo).
-/
namespace Claripy.Props.C13
open Claripy.Solver

/-- two expressions agree on every model of the constraints (what a valid replacement `old ↦ new` means) -/
def AgreeOn (cs : List Con) (e e' : Exp) : Prop := ∀ a, Models cs a → e.val a = e'.val a

/-- two constraints agree on every model of `cs` -/
def AgreeOnC (cs : List Con) (c c' : Con) : Prop := ∀ a, Models cs a → c.sem a = c'.sem a

/-- querying the replaced expression gives the feasible values of the original one -/
theorem C13_replaced_query_exact (cs : List Con) (e e' : Exp) (h : AgreeOn cs e e') (v : Nat) :
    Feasible cs e v ↔ Feasible cs e' v := by
  constructor
  · rintro ⟨a, ha, hv⟩; exact ⟨a, ha, by rw [← h a ha]; exact hv⟩
  · rintro ⟨a, ha, hv⟩; exact ⟨a, ha, by rw [h a ha]; exact hv⟩

/-- … and the same optimum -/
theorem C13_replaced_optimum_exact (cs : List Con) (e e' : Exp) (h : AgreeOn cs e e') (hb : e.bits = e'.bits)
    (isMax signed : Bool) (i : Int) : IsOpt isMax signed cs e i ↔ IsOpt isMax signed cs e' i := by
  simp only [IsOpt, C13_replaced_query_exact cs e e' h, hb]

/-- adding the rewritten form of a constraint is adding the constraint, PROVIDED the constraints the rewriting
relies on (`defs`, those the replacements were learnt from) are kept -/
theorem C13_actual_equiv (defs rest rest' : List Con)
    (hlen : rest.length = rest'.length)
    (h : ∀ i (hi : i < rest.length), AgreeOnC defs rest[i] (rest'[i]'(hlen ▸ hi))) (a : Asg) :
    Models (defs ++ rest') a ↔ Models (defs ++ rest) a := by
  rw [models_append, models_append]
  refine and_congr_right fun hd => ?_
  constructor
  · intro hr c hc
    obtain ⟨i, hi, rfl⟩ := List.getElem_of_mem hc
    rw [h i hi a hd]
    exact hr _ (List.getElem_mem _)
  · intro hr c hc
    obtain ⟨i, hi, rfl⟩ := List.getElem_of_mem hc
    have hi' : i < rest.length := hlen ▸ hi
    rw [← h i hi' a hd]
    exact hr _ (List.getElem_mem _)

/-- the defect that was repaired: if the defining constraint itself is rewritten (into `true`) and dropped, the
actual frontend is NOT equivalent — witness `y == x + 1` then `x == 5` over 3-bit values -/
theorem C13_dropping_definition_unsound :
    ¬ (∀ (defs rest : List Con) (a : Asg), Models rest a → Models (defs ++ rest) a) := by
  intro h
  have := h [{ id := 2, vars := [0], sem := fun a => decide (a 0 = 5) }]
            [{ id := 1, vars := [0, 1], sem := fun a => decide (a 1 = (a 0 + 1) % 8) }]
            (fun v => if v = 1 then 1 else 0)
            (by intro c hc; simp at hc; subst hc; decide)
  have h2 := this { id := 2, vars := [0], sem := fun a => decide (a 0 = 5) } (by simp)
  revert h2; decide

/-- approximate mode: an answer set that contains the approximate frontend's over-approximation of the values
contains every value that exists -/
theorem C13_over_approx (cs : List Con) (e : Exp) (approx : List Nat)
    (hsound : ∀ v, Feasible cs e v → v ∈ approx) (answer : List Nat) (hall : ∀ v ∈ approx, v ∈ answer) :
    ∀ v, Feasible cs e v → v ∈ answer := fun v hv => hall v (hsound v hv)

/-- non-vacuity of `AgreeOn`: under `x == 5` the expression `x + 1` agrees with the constant 6 -/
example : AgreeOn [{ id := 1, vars := [0], sem := fun a => decide (a 0 = 5) }]
    { id := 1, bits := 3, vars := [0], val := fun a => (a 0 + 1) % 8 } { id := 2, bits := 3, vars := [], val := fun _ => 6 } := by
  intro a ha
  have := ha _ (List.mem_singleton.mpr rfl)
  simp at this ⊢
  simp [this]

end Claripy.Props.C13
