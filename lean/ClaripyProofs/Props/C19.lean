import Claripy.Gen.GcGuard
import ClaripyProofs.Lemmas.GcGuardStep
/-!
# C19 — garbage collection stays disabled exactly while Z3 calls are in progress

`Claripy.Gen.GcGuard.progs` is regenerated from `/repo/claripy/backends/backend_z3.py` on every
run.  `C19_gen_matches_model` ties it to the programs the invariant was proved for; the main
theorem is stated about the *generated* programs, for any number of threads, any schedule at line
granularity, any nesting depth, GC initially enabled or disabled.
-/
namespace Claripy.Props.C19
open Claripy.GcGuard

/-- Tie: what the source says now is the program the invariant is proved for. -/
theorem C19_gen_matches_model : Claripy.Gen.GcGuard.progs = stdProgs := by decide

/-- Every state reachable by the generated programs satisfies the invariant. -/
theorem C19_inv (n : Nat) (g : Bool) (s : State)
    (h : Reachable Claripy.Gen.GcGuard.progs n g s) : Inv s := by
  rw [C19_gen_matches_model] at h
  induction h with
  | init => exact inv_init n g
  | step _ hs ih => exact step_inv _ _ _ _ ih hs

/-- C19: for every number of threads `n`, initial collector state `g` and every interleaving
(line granularity, arbitrary nesting), in every reachable state
  * the collector is disabled whenever at least one call is in progress,
  * when no call is in progress and no thread is inside the guard functions the collector state is
    what it was before the first call started (`gc0`),
  * the in-progress counter is not negative. -/
theorem C19_gc_guard (n : Nat) (g : Bool) (s : State)
    (h : Reachable Claripy.Gen.GcGuard.progs n g s) : Safe s :=
  inv_safe s (C19_inv n g s h)

/-- The underflow branch of `_exit_z3` (pcs 2..5) is unreachable when exits are matched. -/
theorem C19_no_underflow (n : Nat) (g : Bool) (s : State)
    (h : Reachable Claripy.Gen.GcGuard.progs n g s) (i : Nat) (t : Thread)
    (ht : s.threads[i]? = some t) (hfn : t.fn = 2) : ¬ (2 ≤ t.pc ∧ t.pc ≤ 5) := by
  have := (C19_inv n g s h).loc i t ht
  simp [localOk, hfn] at this
  omega

/-- Non-vacuity: a concrete 2-thread schedule reaches a state with two calls in progress, the
collector off and a third call mid-way through `_enter_z3`. -/
def demoSched : List (Nat × Act) :=
  [(0, .callEnter), (0, .run), (0, .run), (0, .run), (0, .run), (0, .run), (0, .run), (0, .run), (0, .run),
   (1, .callEnter), (1, .run), (1, .run), (1, .run), (1, .run), (1, .run),
   (0, .callEnter), (0, .run)]

example : ((runSched Claripy.Gen.GcGuard.progs (initState 2 true) demoSched).getLast?.map
    fun s => (s.active, s.gc, inProgress s, s.lock)) = some (2, false, 2, some 0) := by decide

example : (runSched Claripy.Gen.GcGuard.progs (initState 2 true) demoSched).length = demoSched.length := by
  decide

end Claripy.Props.C19
