import Claripy.Solver.Stack
import Claripy.Gen.SolverPickle
/-!
# C18 — pickled solvers round-trip with identical meaning

`Claripy.Gen.SolverPickle.plan` is regenerated on every run from the `__getstate__` / `__setstate__` methods of
claripy/frontend/**.  The model's `pickleRestore` keeps / re-initialises exactly those fields
(`C18_plan_matches_model` is the tie); the theorems say what a round trip preserves.
-/
namespace Claripy.Props.C18
open Claripy.Solver Claripy.Gen.SolverMro LayerName

def planOf (name : String) : Option (List String × List String × List (String × String)) :=
  (Claripy.Gen.SolverPickle.plan.find? fun p => p.1 == name).map (·.2)

/-- Tie: what the source saves and re-initialises now is what `pickleLayer` models, layer by layer. -/
theorem C18_plan_matches_model :
    planOf "ConstrainedFrontend" =
      some (["self.constraints", "self.variables", "self._finalized", "super().__getstate__()"],
            ["self.constraints", "self.variables", "self._finalized", "base_state"],
            [("constraints_wo_annotations", "{con.clear_annotations().hash() for con in self.constraints}")]) ∧
    planOf "FullFrontend" =
      some (["self._solver_backend.__class__.__name__", "self.timeout", "self.max_memory", "self._track", "super().__getstate__()"],
            ["backend_name", "self.timeout", "self.max_memory", "self._track", "base_state"],
            [("_solver_backend", "backends.backends_by_type[backend_name]"), ("_tls", "threading.local()"), ("_to_add", "[]"),
             -- the stamp by which each thread knows whether its Z3 solver has seen all constraints; with one thread it is
             -- out of date exactly when `_to_add` is non-empty, which is what the model keeps
             ("_added", "0")]) ∧
    planOf "ConstraintDeduplicatorMixin" =
      some (["self._constraint_hashes", "super().__getstate__()"], ["self._constraint_hashes", "base_state"], []) ∧
    planOf "SimplifySkipperMixin" =
      some (["self._simplified", "super().__getstate__()"], ["self._simplified", "base_state"], []) ∧
    planOf "SatCacheMixin" =
      some (["self._cached_satness", "self._cached_unsat_core", "super().__getstate__()"],
            ["self._cached_satness", "self._cached_unsat_core", "base_state"], []) ∧
    planOf "ModelCacheMixin" =
      some ([], [], [("_models", "set()"), ("_exhausted", "False"), ("_eval_exhausted", "weakref.WeakValueDictionary()"),
                     ("_max_exhausted", "weakref.WeakValueDictionary()"), ("_min_exhausted", "weakref.WeakValueDictionary()"),
                     ("_max_signed_exhausted", "weakref.WeakValueDictionary()"),
                     ("_min_signed_exhausted", "weakref.WeakValueDictionary()")]) ∧
    planOf "ConcreteHandlerMixin" = none ∧ planOf "EagerResolutionMixin" = none ∧ planOf "ConstraintFilterMixin" = none ∧
    planOf "ConstraintExpansionMixin" = none ∧ planOf "SimplifyHelperMixin" = none ∧
    planOf "Frontend" = some (["True"], [], []) := by
  refine ⟨by decide, by decide, by decide, by decide, by decide, by decide, by decide, by decide, by decide, by decide,
          by decide, by decide⟩

theorem mro_solver : mro .Solver =
    [ConcreteHandlerMixin, EagerResolutionMixin, ConstraintFilterMixin, ConstraintDeduplicatorMixin,
     SimplifySkipperMixin, SatCacheMixin, ModelCacheMixin, ConstraintExpansionMixin, SimplifyHelperMixin,
     FullFrontend, ConstrainedFrontend, Frontend] := by decide

/-- a round trip of a `Solver` keeps the constraints, the variables, finalization, tracking, the deduplication
hashes, the simplified flag and the cached satisfiability verdict and core … -/
theorem C18_restore_keeps (fe : Frontend) :
    let fe' := pickleRestore (mro .Solver) fe
    fe'.constraints = fe.constraints ∧ fe'.variables = fe.variables ∧ fe'.finalized = fe.finalized ∧
    fe'.track = fe.track ∧ fe'.hashes = fe.hashes ∧ fe'.simplified = fe.simplified ∧
    fe'.cachedSat = fe.cachedSat ∧ fe'.cachedCore = fe.cachedCore := by
  simp [pickleRestore, mro_solver, pickleLayer]

/-- … and drops every cache whose validity depends on objects that are not pickled: no cached models, no
exhausted flags, no Z3 solver object, nothing pending — the trivially valid initial values -/
theorem C18_restore_resets (fe : Frontend) :
    let fe' := pickleRestore (mro .Solver) fe
    fe'.models = [] ∧ fe'.evalExh = [] ∧ fe'.maxExh = [] ∧ fe'.minExh = [] ∧ fe'.maxSExh = [] ∧ fe'.minSExh = [] ∧
    fe'.solver = none ∧ fe'.toAdd = [] := by
  simp [pickleRestore, mro_solver, pickleLayer]

/-- every constraint is known to the annotation-insensitive duplicate check after a round trip -/
theorem C18_restore_woAnnot (fe : Frontend) (c : Con) (hc : c ∈ fe.constraints) :
    c.id ∈ (pickleRestore (mro .Solver) fe).woAnnot := by
  simp only [pickleRestore, mro_solver, List.foldl, pickleLayer]
  have : ∀ (cs : List Con) (acc : List Nat), (c.id ∈ acc ∨ c ∈ cs) →
      c.id ∈ cs.foldl (fun acc c => listInsert acc c.id) acc := by
    intro cs
    induction cs with
    | nil => intro acc h; simpa using h
    | cons d ds ih =>
      intro acc h
      simp only [List.foldl_cons]
      apply ih
      rcases h with h | h
      · left; unfold listInsert; split <;> simp [h]
      · rcases List.mem_cons.mp h with rfl | h
        · left; unfold listInsert; split
          · rename_i hh; simpa using hh
          · simp
        · right; exact h
  exact this fe.constraints [] (Or.inr hc)

/-- a second round trip changes nothing -/
theorem C18_restore_idempotent (fe : Frontend) :
    pickleRestore (mro .Solver) (pickleRestore (mro .Solver) fe) = pickleRestore (mro .Solver) fe := by
  simp [pickleRestore, mro_solver, pickleLayer]

end Claripy.Props.C18
