import Claripy.Solver.Stack
import Claripy.Gen.SolverPickle
import ClaripyProofs.Lemmas.Solver.SolverPickle
/-!
# C18 — pickled solvers round-trip with identical meaning

`Claripy.Gen.SolverPickle.plan` is regenerated on every run from the `__getstate__` / `__setstate__` methods of
claripy/frontend/**.  The model's `pickleRestore` keeps / re-initialises exactly those fields
(`C18_plan_matches_model` is the tie); the theorems say what a round trip preserves.
-/
namespace Claripy.Props.C18
open Claripy.Solver Claripy.Gen.SolverMro LayerName

def planOf (name : String) : Option (List String × List String × List (String × String)) :=
  (Claripy.Gen.SolverPickle.plan.find? fun p => p.1 == name).map (·.2)

/-- Tie: what the source saves and re-initialises now is what `pickleLayer` models, layer by layer. -/
theorem C18_plan_matches_model :
    planOf "ConstrainedFrontend" =
      some (["self.constraints", "self.variables", "self._finalized", "super().__getstate__()"],
            ["self.constraints", "self.variables", "self._finalized", "base_state"],
            [("constraints_wo_annotations", "{con.clear_annotations().hash() for con in self.constraints}")]) ∧
    planOf "FullFrontend" =
      some (["self._solver_backend.__class__.__name__", "self.timeout", "self.max_memory", "self._track", "super().__getstate__()"],
            ["backend_name", "self.timeout", "self.max_memory", "self._track", "base_state"],
            [("_solver_backend", "backends.backends_by_type[backend_name]"), ("_tls", "threading.local()"), ("_to_add", "[]"),
             -- the stamp by which each thread knows whether its Z3 solver has seen all constraints; with one thread it is
             -- out of date exactly when `_to_add` is non-empty, which is what the model keeps
             ("_added", "0")]) ∧
    planOf "ConstraintDeduplicatorMixin" =
      some (["self._constraint_hashes", "super().__getstate__()"], ["self._constraint_hashes", "base_state"], []) ∧
    planOf "SimplifySkipperMixin" =
      some (["self._simplified", "super().__getstate__()"], ["self._simplified", "base_state"], []) ∧
    planOf "SatCacheMixin" =
      some (["self._cached_satness", "self._cached_unsat_core", "super().__getstate__()"],
            ["self._cached_satness", "self._cached_unsat_core", "base_state"], []) ∧
    planOf "ModelCacheMixin" =
      some ([], [], [("_models", "set()"), ("_exhausted", "False"), ("_eval_exhausted", "weakref.WeakValueDictionary()"),
                     ("_max_exhausted", "weakref.WeakValueDictionary()"), ("_min_exhausted", "weakref.WeakValueDictionary()"),
                     ("_max_signed_exhausted", "weakref.WeakValueDictionary()"),
                     ("_min_signed_exhausted", "weakref.WeakValueDictionary()")]) ∧
    planOf "ConcreteHandlerMixin" = none ∧ planOf "EagerResolutionMixin" = none ∧ planOf "ConstraintFilterMixin" = none ∧
    planOf "ConstraintExpansionMixin" = none ∧ planOf "SimplifyHelperMixin" = none ∧
    planOf "Frontend" = some (["True"], [], []) := by
  refine ⟨by decide, by decide, by decide, by decide, by decide, by decide, by decide, by decide, by decide, by decide,
          by decide, by decide⟩

theorem mro_solver : mro .Solver =
    [ConcreteHandlerMixin, EagerResolutionMixin, ConstraintFilterMixin, ConstraintDeduplicatorMixin,
     SimplifySkipperMixin, SatCacheMixin, ModelCacheMixin, ConstraintExpansionMixin, SimplifyHelperMixin,
     FullFrontend, ConstrainedFrontend, Frontend] := by decide

/-- a round trip of a `Solver` keeps the constraints, the variables, finalization, tracking, the deduplication
hashes, the simplified flag and the cached satisfiability verdict and core … -/
theorem C18_restore_keeps (fe : Frontend) :
    let fe' := pickleRestore (mro .Solver) fe
    fe'.constraints = fe.constraints ∧ fe'.variables = fe.variables ∧ fe'.finalized = fe.finalized ∧
    fe'.track = fe.track ∧ fe'.hashes = fe.hashes ∧ fe'.simplified = fe.simplified ∧
    fe'.cachedSat = fe.cachedSat ∧ fe'.cachedCore = fe.cachedCore := by
  simp [pickleRestore, mro_solver, pickleLayer]

/-- … and drops every cache whose validity depends on objects that are not pickled: no cached models, no
exhausted flags, no Z3 solver object, nothing pending — the trivially valid initial values -/
theorem C18_restore_resets (fe : Frontend) :
    let fe' := pickleRestore (mro .Solver) fe
    fe'.models = [] ∧ fe'.evalExh = [] ∧ fe'.maxExh = [] ∧ fe'.minExh = [] ∧ fe'.maxSExh = [] ∧ fe'.minSExh = [] ∧
    fe'.solver = none ∧ fe'.toAdd = [] := by
  simp [pickleRestore, mro_solver, pickleLayer]

/-- every constraint is known to the annotation-insensitive duplicate check after a round trip -/
theorem C18_restore_woAnnot (fe : Frontend) (c : Con) (hc : c ∈ fe.constraints) :
    c.id ∈ (pickleRestore (mro .Solver) fe).woAnnot := by
  simp only [pickleRestore, mro_solver, List.foldl, pickleLayer]
  have : ∀ (cs : List Con) (acc : List Nat), (c.id ∈ acc ∨ c ∈ cs) →
      c.id ∈ cs.foldl (fun acc c => listInsert acc c.id) acc := by
    intro cs
    induction cs with
    | nil => intro acc h; simpa using h
    | cons d ds ih =>
      intro acc h
      simp only [List.foldl_cons]
      apply ih
      rcases h with h | h
      · left; unfold listInsert; split <;> simp [h]
      · rcases List.mem_cons.mp h with rfl | h
        · left; unfold listInsert; split
          · rename_i hh; simpa using hh
          · simp
        · right; exact h
  exact this fe.constraints [] (Or.inr hc)

/-- a second round trip changes nothing -/
theorem C18_restore_idempotent (fe : Frontend) :
    pickleRestore (mro .Solver) (pickleRestore (mro .Solver) fe) = pickleRestore (mro .Solver) fe := by
  simp [pickleRestore, mro_solver, pickleLayer]

/-! ### the round trip keeps the invariant of C11, hence the meaning of the solver

`SI = BInv ∧ MCInv ∧ SCInv` is the invariant every answer of the caching class rests on (`C11_solver_refines`).  The restored
frontend satisfies it for the constraints the user gave the ORIGINAL: the constraints, hashes, variables and the cached
satisfiability verdict travel; the Z3 object, what was pending for it, the cached models and the exhausted tables start empty,
which is trivially valid; `constraints_wo_annotations` is recomputed from the constraints. -/

variable {E : Env} {R : Con → Prop} {RE : Exp → Prop}

/-- **the pickle round trip of a `Solver` preserves the full invariant** (for any heap, any ghost predicate `G`) -/
theorem C18_restore_keeps_invariant {G : St → Prop} {U : List Con} (hR : Reg R E) {s : St} (h : SI R RE E G U s) :
    SI R RE E G U { s with fe := pickleRestore (mro .Solver) s.fe } := si_restore hR h

/-- the same for SolverCompositeChild (what a SolverComposite pickles per group of variables) -/
theorem C18_child_restore_keeps_invariant {G : St → Prop} {U : List Con} (hR : Reg R E) {s : St} (h : SI R RE E G U s) :
    SI R RE E G U { s with fe := pickleRestore (mro .SolverCompositeChild) s.fe } := si_restore_child hR h

/-- in a tree of solvers: replacing solver `i` by its restored copy keeps the invariant of the world; nobody's constraints change -/
theorem C18_pickle_step_keeps_world (H : SolverHyps R RE E) (w : World) (Us : List (List Con)) (hw : TInvS R RE E Us w)
    (i : Nat) (hi : i < w.fes.length) :
    (step E .Solver w i .pickle).1 = .unit ∧ TInvS R RE E Us (step E .Solver w i .pickle).2 :=
  ⟨rfl, (sol_step H w Us hw i hi .pickle trivial).2⟩

/-- **a restored solver continues any history like the original.**  Take any world of the tree (reached by any history), and
any further history `rest` in scope (calls on the restored solver, its branches, anybody).  Run it (a) from the world as it
is and (b) from the world in which solver `i` went through `pickle.loads(pickle.dumps(·))`.  The two runs judge the same calls
by the same constraint lists, and every answer of either run is allowed for them (or is an honest give-up). -/
theorem C18_restored_continues (H : SolverHyps R RE E) (w : World) (Us : List (List Con)) (hw : TInvS R RE E Us w)
    (i : Nat) (hi : i < w.fes.length) (rest : List (Nat × Op)) (hok : HistOkS R RE w.fes.length rest) :
    (∀ x ∈ runHist E .Solver w Us rest, JudgeOrGiveUp E x.1 x.2.1 x.2.2) ∧
    (∀ x ∈ runHist E .Solver (step E .Solver w i .pickle).2 Us rest, JudgeOrGiveUp E x.1 x.2.1 x.2.2) ∧
    (runHist E .Solver (step E .Solver w i .pickle).2 Us rest).map (fun x => (x.1, x.2.1)) =
      (runHist E .Solver w Us rest).map (fun x => (x.1, x.2.1)) := by
  have hw' := (sol_step H w Us hw i hi .pickle trivial).2
  have hlen : (step E .Solver w i .pickle).2.fes.length = w.fes.length := sol_step_length H w Us hw i hi .pickle trivial
  refine ⟨sol_hist_giveup H rest w Us hw hok, sol_hist_giveup H rest _ _ hw' (by rw [hlen]; exact hok), ?_⟩
  generalize (step E .Solver w i .pickle).2 = w2
  clear hw hw' hlen hok hi
  induction rest generalizing w w2 Us with
  | nil => rfl
  | cons io rest ih =>
    obtain ⟨j, op⟩ := io
    rw [runHist_cons', runHist_cons', List.map_cons, List.map_cons, ih]

/-- … in particular the satisfiability verdict after the round trip is THE verdict of the original (when the backend answers
both; the cached verdict travels, a missing one is recomputed) -/
theorem C18_restored_same_verdict (H : SolverHyps R RE E) (w : World) (Us : List (List Con)) (hw : TInvS R RE E Us w)
    (i : Nat) (hi : i < w.fes.length) (ex : List Con) (hex : ∀ c ∈ ex, ConWf c)
    (h1 : (step E .Solver w i (.satisfiable ex)).1 ≠ .err .giveUp)
    (h2 : (step E .Solver (step E .Solver w i .pickle).2 i (.satisfiable ex)).1 ≠ .err .giveUp) :
    (step E .Solver (step E .Solver w i .pickle).2 i (.satisfiable ex)).1 = (step E .Solver w i (.satisfiable ex)).1 := by
  have hw' := (sol_step H w Us hw i hi .pickle trivial).2
  have hlen : (step E .Solver w i .pickle).2.fes.length = w.fes.length := sol_step_length H w Us hw i hi .pickle trivial
  have j1 := (sol_step H w Us hw i hi (.satisfiable ex) hex).1
  have j2 := (sol_step H _ Us hw' i (by rw [hlen]; exact hi) (.satisfiable ex) hex).1
  rcases j1 with j1 | g1
  · rcases j2 with j2 | g2
    · exact judge_satisfiable_unique j2 j1
    · exact (h2 g2.eq).elim
  · exact (h1 g1.eq).elim

/-- **the restored copy as a twin**: `t = pickle.loads(pickle.dumps(s))` while `s` lives on.  The twin joins the tree as solver
number `w.fes.length`; it refers to no Z3 object and shares nothing with anybody; whatever is done afterwards to the original,
the twin and all the others, every answer is allowed for the constraints of the solver asked — for the twin: the constraints
`s` had at the dump plus what was added to the twin since. -/
theorem C18_restored_twin (H : SolverHyps R RE E) (w : World) (Us : List (List Con)) (hw : TInvS R RE E Us w)
    (i : Nat) (hi : i < w.fes.length) :
    TInvS R RE E (Us ++ [Us.getD i []]) (twinWorld .Solver w i) ∧
    ∀ rest, HistOkS R RE (w.fes.length + 1) rest →
      ∀ x ∈ runHist E .Solver (twinWorld .Solver w i) (Us ++ [Us.getD i []]) rest, JudgeOrGiveUp E x.1 x.2.1 x.2.2 := by
  have hw' := tinvS_append_restored H.reg hw hi
  refine ⟨hw', fun rest hrest => sol_hist_giveup H rest _ _ hw' ?_⟩
  have : (twinWorld .Solver w i).fes.length = w.fes.length + 1 := by simp [twinWorld]
  rw [this]
  exact hrest

/-- non-vacuity: in the consistent environment of C11, after the first four calls of `cHist` (`add(x == 5)`, `eval`, `add(x <= 5)`,
`max`: models cached, `x` flagged exhausted), solver 0 is dumped and loaded; the original and the twin are asked the same
questions -/
example : ∀ x ∈ runHist cEnv .Solver (twinWorld .Solver (worldAfter cEnv .Solver (World.init false false) (cHist.take 4)) 0)
      (usersAfterHist [[]] (cHist.take 4) ++ [(usersAfterHist [[]] (cHist.take 4)).getD 0 []])
      [(0, .eval cExp 10 []), (1, .eval cExp 10 []), (1, .add [cCon]), (1, .min cExp [] true), (0, .min cExp [] true)],
    JudgeOrGiveUp cEnv x.1 x.2.1 x.2.2 := by
  have hok : HistOkS cR cRE 1 (cHist.take 4 ++ cHist.drop 4) := by rw [List.take_append_drop]; exact cHist_ok
  obtain ⟨hw, hlen⟩ := sol_reach cHyps (cHist.take 4) _ _ (tinvS_init cR cRE cEnv false) (histOkS_append.mp hok).1
  have h1 : (worldAfter cEnv .Solver (World.init false false) (cHist.take 4)).fes.length = 1 := hlen
  refine (C18_restored_twin cHyps _ _ hw 0 (by omega)).2 _ ?_
  rw [h1]
  have hc : cR cCon := Or.inr (Or.inl rfl)
  have he : cRE cExp := rfl
  simp only [HistOkS, InScopeS, List.mem_singleton, forall_eq, List.not_mem_nil, false_implies, implies_true, and_true]
  exact ⟨by omega, ⟨he, by omega⟩, by omega, ⟨he, by omega⟩, by omega, hc, by omega, he, by omega, he⟩

example : ∀ x ∈ runHist cEnv .Solver (World.init false false) [[]] cHist, JudgeOrGiveUp cEnv x.1 x.2.1 x.2.2 :=
  (C18_restored_continues cHyps _ _ (tinvS_init cR cRE cEnv false) 0 (by decide) cHist cHist_ok).1

end Claripy.Props.C18
