import Claripy.AST.Meta
import ClaripyProofs.Lemmas.AST.Eval
/-!
# C05 — width, variables, concreteness and depth are reported accurately

For the expression model (`Expr`, with `Expr.width` = claripy's `length` as the `calc_length` functions
compute it, `Expr.vars` = the `variables` union, `Expr.depth`, `Expr.symbolic`):

* `C05_width` — whenever an expression denotes a bit-vector of width `w`, its reported width is `w`;
* `C05_vars` — the denotation depends only on the reported variables (so every variable that matters is reported);
* `C05_concrete` — an expression reported concrete (no variables) denotes the same value under every assignment;
* `C05_depth_*` — depth is one more than the deepest argument.
The correspondence check compares these functions with the real `.length/.variables/.symbolic/.depth` on every
node of every built AST.
-/
namespace Claripy.Props.C05
open Claripy.AST

/-! ### variables -/
mutual
theorem eval_env_congr (env1 env2 : Env) : ∀ e : Expr,
    (∀ x ∈ e.vars, env1.bv x = env2.bv x ∧ env1.bool x = env2.bool x) → eval env1 e = eval env2 e
  | .bvv v w => by intro _; simp [eval]
  | .bvs name w => by
    intro h
    have := (h name (by simp [Expr.vars])).1
    simp [eval, this]
  | .boolv b => by intro _; simp [eval]
  | .bools name => by
    intro h
    have := (h name (by simp [Expr.vars])).2
    simp [eval, this]
  | .app op args => by
    intro h
    simp only [eval]
    rw [evalList_env_congr env1 env2 args (by simpa [Expr.vars] using h)]
theorem evalList_env_congr (env1 env2 : Env) : ∀ es : List Expr,
    (∀ x ∈ Expr.varsList es, env1.bv x = env2.bv x ∧ env1.bool x = env2.bool x) → evalList env1 es = evalList env2 es
  | [] => by intro _; simp [evalList]
  | e :: es => by
    intro h
    simp only [evalList]
    rw [eval_env_congr env1 env2 e (fun x hx => h x (by simp [Expr.varsList, hx])),
        evalList_env_congr env1 env2 es (fun x hx => h x (by simp [Expr.varsList, hx]))]
end

/-- the value depends only on the reported variables -/
theorem C05_vars (env1 env2 : Env) (e : Expr)
    (h : ∀ x ∈ e.vars, env1.bv x = env2.bv x ∧ env1.bool x = env2.bool x) : eval env1 e = eval env2 e :=
  eval_env_congr env1 env2 e h

/-- an expression reported concrete (`symbolic = false`) has one value -/
theorem C05_concrete (e : Expr) (h : e.symbolic = false) (env1 env2 : Env) : eval env1 e = eval env2 e := by
  apply C05_vars
  intro x hx
  simp [Expr.symbolic] at h
  simp [h] at hx

theorem C05_depth_leaf_bvv (v w : Nat) : (Expr.bvv v w).depth = 1 := by simp [Expr.depth]
theorem C05_depth_node (op : Op) (args : List Expr) : (Expr.app op args).depth = 1 + Expr.depthList args := by
  simp [Expr.depth]
theorem C05_depthList_max (e : Expr) (es : List Expr) (he : e ∈ es) : e.depth ≤ Expr.depthList es := by
  induction es with
  | nil => simp at he
  | cons a as ih =>
    simp only [Expr.depthList]
    rcases List.mem_cons.mp he with rfl | h
    · omega
    · have := ih h; omega

/-! ### width -/

theorem foldl_bvBin_width (f) (vs : List Val) (v : Val) {w n : Nat} (h : vs.foldl (bvBin f) v = .bv w n) :
    ∃ m, v = .bv w m := by
  induction vs generalizing v with
  | nil => exact ⟨n, h⟩
  | cons a vs ih =>
    obtain ⟨m, hm⟩ := ih _ h
    unfold bvBin at hm
    split at hm
    · split at hm
      · rename_i w1 a1 w2 b1 hc
        cases hm; exact ⟨a1, rfl⟩
      · cases hm
    · cases hm

theorem foldVals_bvBin_width (f) (v : Val) (vs : List Val) {w n : Nat} (h : foldVals (bvBin f) (v :: vs) = .bv w n) :
    ∃ m, v = .bv w m := foldl_bvBin_width f vs v h

theorem bvBin_width (f) (a b : Val) {w n : Nat} (h : bvBin f a b = .bv w n) : ∃ m, a = .bv w m := by
  unfold bvBin at h
  split at h
  · split at h
    · rename_i w1 a1 w2 b1 hc; cases h; exact ⟨a1, rfl⟩
    · cases h
  · cases h

theorem bvUn_width (f) (a : Val) {w n : Nat} (h : bvUn f a = .bv w n) : ∃ m, a = .bv w m := by
  unfold bvUn at h
  split at h
  · split at h
    · rename_i w1 a1 hc; cases h; exact ⟨a1, rfl⟩
    · cases h
  · cases h

theorem bvCmp_not_bv (f) (a b : Val) {w n : Nat} : bvCmp f a b ≠ .bv w n := by
  unfold bvCmp; split
  · split <;> simp
  · simp
theorem valEq_not_bv (a b : Val) {w n : Nat} : valEq a b ≠ .bv w n := by
  unfold valEq; split
  · split <;> simp
  · simp
  · simp
theorem valNot_not_bv (a : Val) {w n : Nat} : valNot a ≠ .bv w n := by
  unfold valNot; split <;> simp
theorem boolBin_not_bv (f) (a b : Val) {w n : Nat} : boolBin f a b ≠ .bv w n := by
  unfold boolBin; split <;> simp

theorem foldl_boolBin_not_bv (f) (vs : List Val) (v : Val) {w n : Nat} (hv : ∀ m, v ≠ .bv w m) :
    vs.foldl (boolBin f) v ≠ .bv w n := by
  induction vs generalizing v with
  | nil => exact hv n
  | cons a vs ih => exact ih _ (fun m => boolBin_not_bv f v a)

def valWidth : Val → Option Nat
  | .bv w _ => some w
  | _ => none

/-- the reported widths `ws` agree with the values `vs` wherever the value is a bit-vector -/
def Agree : List Val → List (Option Nat) → Prop
  | [], [] => True
  | v :: vs, ow :: ws => (∀ w n, v = .bv w n → ow = some w) ∧ Agree vs ws
  | _, _ => False

theorem foldl_valConcat_width (vs : List Val) (ws : List (Option Nat)) (hag : Agree vs ws) (v : Val) (k : Nat)
    {w n : Nat} (hv : ∀ w' m, v = .bv w' m → w' = k) (h : vs.foldl valConcat v = .bv w n) :
    sumWidths ws (some k) = some w := by
  induction vs generalizing ws v k with
  | nil =>
    cases ws with
    | nil => simp only [List.foldl] at h; simp [sumWidths, hv w n h]
    | cons _ _ => simp [Agree] at hag
  | cons a vs ih =>
    cases ws with
    | nil => simp [Agree] at hag
    | cons ow ws =>
      obtain ⟨ha, hag'⟩ := hag
      simp only [List.foldl] at h
      -- the accumulated value must be a bit-vector, hence v and a are
      have hacc : ∃ w1 m1 w2 m2, v = .bv w1 m1 ∧ a = .bv w2 m2 := by
        cases v with
        | bv w1 m1 =>
          cases a with
          | bv w2 m2 => exact ⟨w1, m1, w2, m2, rfl, rfl⟩
          | bool b => 
            have : vs.foldl valConcat .err ≠ .bv w n := by
              clear ih h hag' ha
              induction vs with
              | nil => simp
              | cons b vs ih2 => simpa [List.foldl, valConcat] using ih2
            simp [valConcat] at h; exact absurd h this
          | err =>
            have : vs.foldl valConcat .err ≠ .bv w n := by
              clear ih h hag' ha
              induction vs with
              | nil => simp
              | cons b vs ih2 => simpa [List.foldl, valConcat] using ih2
            simp [valConcat] at h; exact absurd h this
        | bool b =>
          have : vs.foldl valConcat .err ≠ .bv w n := by
            clear ih h hag' ha
            induction vs with
            | nil => simp
            | cons b vs ih2 => simpa [List.foldl, valConcat] using ih2
          simp [valConcat] at h; exact absurd h this
        | err =>
          have : vs.foldl valConcat .err ≠ .bv w n := by
            clear ih h hag' ha
            induction vs with
            | nil => simp
            | cons b vs ih2 => simpa [List.foldl, valConcat] using ih2
          simp [valConcat] at h; exact absurd h this
      obtain ⟨w1, m1, w2, m2, rfl, rfl⟩ := hacc
      have hk : w1 = k := hv w1 m1 rfl
      have how : ow = some w2 := ha w2 m2 rfl
      subst hk how
      simp only [valConcat] at h
      have := ih ws hag' _ (w1 + w2) (by intro w' m hh; cases hh; rfl) h
      simpa [sumWidths, List.foldl] using this

theorem valIte_width (c a b : Val) {w n : Nat} (h : valIte c a b = .bv w n) : ∃ m, a = .bv w m := by
  unfold valIte at h
  split at h
  · split at h
    · rename_i c' w1 a1 w2 b1 hw
      subst hw
      split at h <;> (cases h; exact ⟨_, rfl⟩)
    · cases h
  · cases h
  · cases h

theorem valReverse_width (a : Val) {w n : Nat} (h : valReverse a = .bv w n) : ∃ m, a = .bv w m := by
  unfold valReverse at h
  split at h
  · split at h
    · cases h; exact ⟨_, rfl⟩
    · cases h
  · cases h

/-- the width reported for a node agrees with the width of its value -/
theorem applyOp_width (op : Op) (vs : List Val) (ws : List (Option Nat)) (hag : Agree vs ws) {w n : Nat}
    (h : applyOp op vs = .bv w n) : widthOf op ws = some w := by
  unfold applyOp at h
  split at h
  -- n-ary bit-vector operators
  case h_1 | h_2 | h_3 | h_4 | h_5 =>
    rename_i a b rest
    obtain ⟨m, rfl⟩ := foldVals_bvBin_width _ _ _ h
    match ws, hag with
    | ow :: _, hag => simp [widthOf, hag.1 w m rfl]
  -- binary bit-vector operators
  case h_6 | h_7 | h_8 | h_9 | h_10 | h_11 | h_12 | h_13 | h_14 | h_15 =>
    rename_i a b
    obtain ⟨m, rfl⟩ := bvBin_width _ _ _ h
    match ws, hag with
    | ow :: _, hag => simp [widthOf, hag.1 w m rfl]
  case h_16 | h_17 =>
    rename_i a
    obtain ⟨m, rfl⟩ := bvUn_width _ _ h
    match ws, hag with
    | ow :: _, hag => simp [widthOf, hag.1 w m rfl]
  case h_18 => exact absurd h (valEq_not_bv _ _)
  case h_19 => exact absurd h (valNot_not_bv _)
  case h_20 | h_21 | h_22 | h_23 | h_24 | h_25 | h_26 | h_27 => exact absurd h (bvCmp_not_bv _ _ _)
  case h_28 =>
    rename_i v rest
    match ws, hag with
    | ow :: ws', hag =>
      simp only [foldVals] at h
      cases v with
      | bv w1 m1 =>
        have how := hag.1 w1 m1 rfl
        subst how
        have := foldl_valConcat_width rest ws' hag.2 (.bv w1 m1) w1 (by intro w' m hh; cases hh; rfl) h
        simpa [widthOf, sumWidths, List.foldl] using this
      | bool b =>
        have := foldl_valConcat_width rest ws' hag.2 (.bool b) 0 (by intro w' m hh; cases hh) h
        cases rest with
        | nil => simp at h
        | cons r rs => simp [List.foldl, valConcat] at h; exact absurd h (by
            have : ∀ l : List Val, l.foldl valConcat .err ≠ .bv w n := by
              intro l; induction l with
              | nil => simp
              | cons b vs ih2 => simpa [List.foldl, valConcat] using ih2
            exact this rs)
      | err =>
        exact absurd h (by
          have : ∀ l : List Val, l.foldl valConcat .err ≠ .bv w n := by
            intro l; induction l with
            | nil => simp
            | cons b vs ih2 => simpa [List.foldl, valConcat] using ih2
          exact this rest)
  case h_29 =>
    rename_i hi lo w' a
    split at h
    · rename_i hc; cases h; simp [widthOf]; omega
    · cases h
  case h_30 =>
    rename_i k w' a
    split at h
    · cases h
      match ws, hag with
      | [ow], hag => simp [widthOf, hag.1 w' a rfl]
    · cases h
  case h_31 =>
    rename_i k w' a
    split at h
    · cases h
      match ws, hag with
      | [ow], hag => simp [widthOf, hag.1 w' a rfl]
    · cases h
  case h_32 =>
    rename_i a
    obtain ⟨m, rfl⟩ := valReverse_width _ h
    match ws, hag with
    | ow :: _, hag => simp [widthOf, hag.1 w m rfl]
  case h_33 =>
    rename_i c a b
    obtain ⟨m, rfl⟩ := valIte_width _ _ _ h
    match ws, hag with
    | [oc, oa, ob], hag => simp [widthOf, hag.2.1 w m rfl]
  case h_34 | h_35 =>
    exact absurd h (foldl_boolBin_not_bv _ _ _ (fun m => by simp))
  case h_36 => exact absurd h (valNot_not_bv _)
  case h_37 => cases h

mutual
theorem eval_width (env : Env) : ∀ (e : Expr) (w n : Nat), eval env e = .bv w n → e.width = some w
  | .bvv v w', w, n, h => by
    simp only [eval] at h
    split at h
    · cases h; simp [Expr.width]
    · cases h
  | .bvs name w', w, n, h => by
    simp only [eval] at h
    split at h
    · cases h; simp [Expr.width]
    · cases h
  | .boolv b, w, n, h => by simp [eval] at h
  | .bools name, w, n, h => by simp [eval] at h
  | .app op args, w, n, h => by
    simp only [eval] at h
    simp only [Expr.width]
    exact applyOp_width op _ _ (evalList_agree env args) h
theorem evalList_agree (env : Env) : ∀ es : List Expr, Agree (evalList env es) (Expr.widthList es)
  | [] => by simp [evalList, Expr.widthList, Agree]
  | e :: es => by
    simp only [evalList, Expr.widthList, Agree]
    exact ⟨fun w n h => eval_width env e w n h, evalList_agree env es⟩
end

/-- **C05 (width)**: whenever an expression denotes a bit-vector of width `w` — under any assignment — the
width claripy reports for it (`length`, computed bottom-up by the `calc_length` functions) is `w`. -/
theorem C05_width (env : Env) (e : Expr) (w n : Nat) (h : eval env e = .bv w n) : e.width = some w :=
  eval_width env e w n h

/-- non-vacuity: a concrete width-changing expression -/
example : (Expr.app (.zeroExt 3) [.app .concat [.bvs "x" 4, .bvv 1 1]]).width = some 8 := by decide
example : eval ⟨fun _ => 5, fun _ => false⟩ (Expr.app (.zeroExt 3) [.app .concat [.bvs "x" 4, .bvv 1 1]]) = .bv 8 11 := by
  decide

end Claripy.Props.C05
