import Claripy.AST.Rules
import ClaripyProofs.Lemmas.AST.Eval
import ClaripyProofs.Lemmas.BV.Bridge
/-! Infrastructure for the rule-soundness proofs: the statement, value views, error propagation. -/
namespace Claripy.AST

/-- A rewrite schema is sound: for EVERY instantiation of its metavariables (arbitrary sub-expressions,
constants, widths) that meets the side condition, and every assignment, if the written node is
well-typed then the replacement denotes the same value. -/
def Sound (s : Schema) : Prop :=
  ∀ (p : P) (env : Env), s.side p = true → eval env (s.lhs p) ≠ .err → eval env (s.rhs p) = eval env (s.lhs p)

theorem val_view (v : Val) (h : v.WF) :
    v = .err ∨ (∃ b, v = .bool b) ∨ (∃ w, ∃ x : BitVec w, v = Val.ofBV x ∧ 0 < w) := by
  cases v with
  | err => exact Or.inl rfl
  | bool b => exact Or.inr (Or.inl ⟨b, rfl⟩)
  | bv w n => obtain ⟨x, hx, hw⟩ := h.exists_bv; exact Or.inr (Or.inr ⟨w, x, hx, hw⟩)

@[simp] theorem bvBin_err_l (f) (b : Val) : bvBin f .err b = .err := rfl
@[simp] theorem bvBin_err_r (f) (a : Val) : bvBin f a .err = .err := by cases a <;> rfl
@[simp] theorem bvBin_bool_l (f) (c : Bool) (b : Val) : bvBin f (.bool c) b = .err := rfl
@[simp] theorem bvBin_bool_r (f) (c : Bool) (a : Val) : bvBin f a (.bool c) = .err := by cases a <;> rfl
@[simp] theorem bvCmp_err_l (f) (b : Val) : bvCmp f .err b = .err := rfl
@[simp] theorem bvCmp_err_r (f) (a : Val) : bvCmp f a .err = .err := by cases a <;> rfl
@[simp] theorem bvCmp_bool_l (f) (c : Bool) (b : Val) : bvCmp f (.bool c) b = .err := rfl
@[simp] theorem bvCmp_bool_r (f) (c : Bool) (a : Val) : bvCmp f a (.bool c) = .err := by cases a <;> rfl
@[simp] theorem valEq_err_l (b : Val) : valEq .err b = .err := rfl
@[simp] theorem valEq_err_r (a : Val) : valEq a .err = .err := by cases a <;> rfl
@[simp] theorem valEq_bool (a b : Bool) : valEq (.bool a) (.bool b) = .bool (a == b) := rfl
@[simp] theorem valEq_bool_bv {w : Nat} (a : Bool) (x : BitVec w) : valEq (.bool a) (Val.ofBV x) = .err := rfl
@[simp] theorem valEq_bv_bool {w : Nat} (a : Bool) (x : BitVec w) : valEq (Val.ofBV x) (.bool a) = .err := rfl
@[simp] theorem valNot_err : valNot .err = .err := rfl
@[simp] theorem valNot_bool (b : Bool) : valNot (.bool b) = .bool (!b) := rfl
@[simp] theorem valNot_bv {w : Nat} (x : BitVec w) : valNot (Val.ofBV x) = .err := rfl
@[simp] theorem bvUn_err (f) : bvUn f .err = .err := rfl
@[simp] theorem bvUn_bool (f) (c : Bool) : bvUn f (.bool c) = .err := rfl
@[simp] theorem boolBin_bool (f) (a b : Bool) : boolBin f (.bool a) (.bool b) = .bool (f a b) := rfl
@[simp] theorem boolBin_err_l (f) (b : Val) : boolBin f .err b = .err := rfl
@[simp] theorem boolBin_err_r (f) (a : Val) : boolBin f a .err = .err := by cases a <;> rfl
@[simp] theorem boolBin_bv_l {w : Nat} (f) (x : BitVec w) (b : Val) : boolBin f (Val.ofBV x) b = .err := rfl
@[simp] theorem boolBin_bv_r {w : Nat} (f) (x : BitVec w) (a : Val) : boolBin f a (Val.ofBV x) = .err := by
  cases a <;> rfl
@[simp] theorem valIte_err_c (a b : Val) : valIte .err a b = .err := rfl
@[simp] theorem valIte_bv_c {w : Nat} (x : BitVec w) (a b : Val) : valIte (Val.ofBV x) a b = .err := rfl
@[simp] theorem valIte_bool (c a b : Bool) : valIte (.bool c) (.bool a) (.bool b) = .bool (if c then a else b) := rfl
@[simp] theorem valIte_err_t (c : Val) (b : Val) : valIte c .err b = .err := by cases c <;> rfl
@[simp] theorem valIte_err_e (c : Val) (a : Val) : valIte c a .err = .err := by cases c <;> cases a <;> rfl
@[simp] theorem valIte_bv {w : Nat} (c : Bool) (x y : BitVec w) :
    valIte (.bool c) (Val.ofBV x) (Val.ofBV y) = Val.ofBV (if c then x else y) := by
  cases c <;> simp [valIte, Val.ofBV]
@[simp] theorem valIte_bool_bv {w : Nat} (c a : Bool) (y : BitVec w) : valIte (.bool c) (.bool a) (Val.ofBV y) = .err := rfl
@[simp] theorem valIte_bv_bool {w : Nat} (c a : Bool) (y : BitVec w) : valIte (.bool c) (Val.ofBV y) (.bool a) = .err := rfl

theorem bvBin_ofBV_ne (f) {w w' : Nat} (x : BitVec w) (y : BitVec w') (h : w ≠ w') :
    bvBin f (Val.ofBV x) (Val.ofBV y) = .err := by simp [bvBin, Val.ofBV, h]
theorem bvCmp_ofBV_ne (f) {w w' : Nat} (x : BitVec w) (y : BitVec w') (h : w ≠ w') :
    bvCmp f (Val.ofBV x) (Val.ofBV y) = .err := by simp [bvCmp, Val.ofBV, h]
theorem valEq_ofBV_ne {w w' : Nat} (x : BitVec w) (y : BitVec w') (h : w ≠ w') :
    valEq (Val.ofBV x) (Val.ofBV y) = .err := by simp [valEq, Val.ofBV, h]
theorem valIte_ofBV_ne {w w' : Nat} (c : Bool) (x : BitVec w) (y : BitVec w') (h : w ≠ w') :
    valIte (.bool c) (Val.ofBV x) (Val.ofBV y) = .err := by simp [valIte, Val.ofBV, h]

theorem eval_app (env : Env) (op : Op) (args : List Expr) :
    eval env (.app op args) = applyOp op (evalList env args) := by simp [eval]
theorem evalList_cons (env : Env) (e : Expr) (es : List Expr) :
    evalList env (e :: es) = eval env e :: evalList env es := by simp [evalList]
theorem evalList_nil (env : Env) : evalList env [] = [] := by simp [evalList]
theorem eval_boolv (env : Env) (b : Bool) : eval env (.boolv b) = .bool b := by simp [eval]
theorem eval_bvv_err (env : Env) (v w : Nat) (hw : ¬ 0 < w) : eval env (.bvv v w) = .err := by simp [eval, hw]

theorem ofBV_inj {w : Nat} {x y : BitVec w} (h : x = y) : Val.ofBV x = Val.ofBV y := by rw [h]

end Claripy.AST
