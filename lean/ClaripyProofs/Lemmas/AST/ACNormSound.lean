import Claripy.AST.ACNorm
import ClaripyProofs.Lemmas.AST.RulesBase
import ClaripyProofs.Lemmas.AST.Beq
/-!
Soundness of the associative-commutative certificate check `acEquiv` (Claripy/AST/ACNorm.lean): a rewrite it accepts
preserves the SMT-LIB value of a well-typed node, for every width, assignment, number of operands and nesting depth.
-/
namespace Claripy.AST

/-! ### algebra of the five operators -/
theorem ACK.assoc (k : ACK) (w : Nat) (a b c : BitVec w) : k.g w (k.g w a b) c = k.g w a (k.g w b c) := by
  cases k <;> simp only [ACK.g]
  · exact BitVec.add_assoc a b c
  · exact BitVec.mul_assoc a b c
  · exact BitVec.and_assoc a b c
  · exact BitVec.or_assoc a b c
  · exact BitVec.xor_assoc a b c

theorem ACK.comm (k : ACK) (w : Nat) (a b : BitVec w) : k.g w a b = k.g w b a := by
  cases k <;> simp only [ACK.g]
  · exact BitVec.add_comm a b
  · exact BitVec.mul_comm a b
  · exact BitVec.and_comm a b
  · exact BitVec.or_comm a b
  · exact BitVec.xor_comm a b

theorem ACK.id_left (k : ACK) (w : Nat) (a : BitVec w) : k.g w (k.e w) a = a := by
  cases k <;> simp [ACK.g, ACK.e]

theorem ACK.id_right (k : ACK) (w : Nat) (a : BitVec w) : k.g w a (k.e w) = a := by
  rw [k.comm, k.id_left]

theorem ACK.left_comm (k : ACK) (w : Nat) (a b c : BitVec w) : k.g w a (k.g w b c) = k.g w b (k.g w a c) := by
  rw [← k.assoc, ← k.assoc, k.comm w a b]

/-! ### the denotation of an operand list -/
/-- a value as a `w`-bit vector -/
def toBV? (w : Nat) : Val → Option (BitVec w)
  | .bv w' n => if w' = w ∧ 0 < w then some (BitVec.ofNat w n) else none
  | _ => none

@[simp] theorem toBV?_ofBV {w : Nat} (x : BitVec w) (hw : 0 < w) : toBV? w (Val.ofBV x) = some x := by
  simp [toBV?, Val.ofBV, hw]

theorem toBV?_eq_some {w : Nat} {v : Val} {x : BitVec w} (hv : v.WF) (h : toBV? w v = some x) : v = Val.ofBV x := by
  cases v with
  | err => simp [toBV?] at h
  | bool b => simp [toBV?] at h
  | bv w' n =>
    simp only [toBV?] at h
    split at h
    · rename_i hc
      obtain ⟨rfl, _⟩ := hc
      simp only [Option.some.injEq] at h
      subst h
      simp only [Val.ofBV, BitVec.toNat_ofNat]
      rw [Nat.mod_eq_of_lt hv.1]
    · simp at h

def combine (k : ACK) (w : Nat) : Option (BitVec w) → Option (BitVec w) → Option (BitVec w)
  | some x, some p => some (k.g w x p)
  | _, _ => none

/-- the `k`-product of the operands, if all of them are `w`-bit vectors -/
def denProd (env : Env) (k : ACK) (w : Nat) : List Expr → Option (BitVec w)
  | [] => some (k.e w)
  | t :: ts => combine k w (toBV? w (eval env t)) (denProd env k w ts)

theorem combine_assoc (k : ACK) (w : Nat) (a b c : Option (BitVec w)) :
    combine k w (combine k w a b) c = combine k w a (combine k w b c) := by
  cases a <;> cases b <;> cases c <;> simp [combine, k.assoc]

theorem combine_left_comm (k : ACK) (w : Nat) (a b c : Option (BitVec w)) :
    combine k w a (combine k w b c) = combine k w b (combine k w a c) := by
  cases a <;> cases b <;> cases c <;> simp [combine, k.left_comm]

theorem combine_e_left (k : ACK) (w : Nat) (a : Option (BitVec w)) : combine k w (some (k.e w)) a = a := by
  cases a <;> simp [combine, k.id_left]

theorem combine_e_right (k : ACK) (w : Nat) (a : Option (BitVec w)) : combine k w a (some (k.e w)) = a := by
  cases a <;> simp [combine, k.id_right]

theorem denProd_append (env : Env) (k : ACK) (w : Nat) (l1 l2 : List Expr) :
    denProd env k w (l1 ++ l2) = combine k w (denProd env k w l1) (denProd env k w l2) := by
  induction l1 with
  | nil => simp [denProd, combine_e_left]
  | cons t ts ih => simp only [List.cons_append, denProd, ih, combine_assoc]

theorem denProd_perm (env : Env) (k : ACK) (w : Nat) {l1 l2 : List Expr} (h : l1.Perm l2) :
    denProd env k w l1 = denProd env k w l2 := by
  induction h with
  | nil => rfl
  | cons a _ ih => simp only [denProd, ih]
  | swap a b l => simp only [denProd]; exact combine_left_comm ..
  | trans _ _ ih1 ih2 => exact ih1.trans ih2

/-! ### an n-ary node denotes the product of its operands -/
theorem foldl_err (f) (vs : List Val) : vs.foldl (bvBin f) .err = .err := by
  induction vs with
  | nil => rfl
  | cons v vs ih => simpa [List.foldl] using ih

/-- fold of `g` from `a` over the operands -/
def denFold (env : Env) (k : ACK) (w : Nat) : List Expr → BitVec w → Option (BitVec w)
  | [], a => some a
  | t :: ts, a => match toBV? w (eval env t) with
    | some x => denFold env k w ts (k.g w a x)
    | none => none

theorem denFold_eq (env : Env) (k : ACK) (w : Nat) (ts : List Expr) (a : BitVec w) :
    denFold env k w ts a = combine k w (some a) (denProd env k w ts) := by
  induction ts generalizing a with
  | nil => simp [denFold, denProd, combine, k.id_right]
  | cons t ts ih =>
    simp only [denFold, denProd]
    cases hx : toBV? w (eval env t) with
    | none => simp [combine]
    | some x =>
      simp only [ih]
      cases hp : denProd env k w ts with
      | none => simp [combine]
      | some p => simp [combine, k.assoc]

theorem foldl_toBV (env : Env) (k : ACK) (w : Nat) (hw : 0 < w) (ts : List Expr) (a : BitVec w) :
    toBV? w ((evalList env ts).foldl (bvBin (k.g)) (Val.ofBV a)) = denFold env k w ts a := by
  induction ts generalizing a with
  | nil => simp [evalList, denFold, hw]
  | cons t ts ih =>
    simp only [evalList, List.foldl, denFold]
    cases hv : eval env t with
    | err => simp [toBV?, foldl_err]
    | bool b => simp [toBV?, foldl_err]
    | bv w' n =>
      by_cases hww : w' = w
      · subst hww
        have : bvBin k.g (Val.ofBV a) (.bv w' n) = Val.ofBV (k.g w' a (BitVec.ofNat w' n)) := by
          simp [bvBin, Val.ofBV, hw]
        rw [this, ih]
        simp [toBV?, hw]
      · have : bvBin k.g (Val.ofBV a) (.bv w' n) = .err := by
          simp only [bvBin, Val.ofBV]
          rw [if_neg]
          intro h; exact hww h.1.symm
        rw [this, foldl_err]
        simp [toBV?, hww]

theorem applyOp_ac (k : ACK) (vs : List Val) (h : 2 ≤ vs.length) : applyOp k.op vs = foldVals (bvBin k.g) vs := by
  match vs, h with
  | a :: b :: rest, _ =>
    cases k <;> simp only [ACK.op, applyOp] <;> rfl

/-- a `k` node with at least two operands denotes the product of its operands -/
theorem node_den (env : Env) (k : ACK) (w : Nat) (hw : 0 < w) (args : List Expr) (h : 2 ≤ args.length) :
    toBV? w (eval env (.app k.op args)) = denProd env k w args := by
  rw [eval_app, applyOp_ac k _ (by rw [evalList_eq_map]; simpa using h)]
  match args, h with
  | t :: u :: rest, _ =>
    simp only [evalList, foldVals]
    rw [show evalList env rest = evalList env rest from rfl]
    cases hv : eval env t with
    | err => simp [toBV?, denProd, combine, hv, foldl_err, List.foldl]
    | bool b => simp [toBV?, denProd, combine, hv, foldl_err, List.foldl]
    | bv w' n =>
      by_cases hww : w' = w
      · subst hww
        have hfold := foldl_toBV env k w' hw (u :: rest) (BitVec.ofNat w' n)
        simp only [evalList] at hfold
        have hwf : (Val.bv w' n).WF := hv ▸ eval_wf env t
        have hcanon : Val.bv w' n = Val.ofBV (BitVec.ofNat w' n) := by
          simp [Val.ofBV, Nat.mod_eq_of_lt hwf.1]
        rw [hcanon, hfold, denFold_eq]
        simp [denProd, hv, toBV?, hw]
      · -- the first operand has another width: the node is ill-typed or has that other width
        have h1 : toBV? w (Val.bv w' n) = none := by simp [toBV?, hww]
        have h2 : denProd env k w (t :: u :: rest) = none := by simp [denProd, hv, h1, combine]
        rw [h2]
        -- value of the fold is either err or a bv of width w'
        have : ∀ (vs : List Val) (m : Nat), toBV? w (vs.foldl (bvBin k.g) (.bv w' m)) = none := by
          intro vs
          induction vs with
          | nil => intro m; simp [toBV?, hww]
          | cons v vs ih =>
            intro m
            simp only [List.foldl]
            cases v with
            | err => simp [bvBin, foldl_err, toBV?]
            | bool b => simp [bvBin, foldl_err, toBV?]
            | bv w2 n2 =>
              simp only [bvBin]
              split
              · exact ih _
              · simp [foldl_err, toBV?]
        exact this _ _

/-! ### flattening -/
mutual
theorem flat_den (env : Env) (k : ACK) (w : Nat) (hw : 0 < w) :
    ∀ e : Expr, denProd env k w (flat k.op e) = toBV? w (eval env e)
  | .app op' args => by
    simp only [flat]
    split
    · rename_i hc
      obtain ⟨rfl, hlen⟩ := hc
      rw [flatList_den env k w hw args, node_den env k w hw args hlen]
    · simp [denProd, combine_e_right]
  | .bvv v w' => by simp [flat, denProd, combine_e_right]
  | .bvs n w' => by simp [flat, denProd, combine_e_right]
  | .boolv b => by simp [flat, denProd, combine_e_right]
  | .bools n => by simp [flat, denProd, combine_e_right]
theorem flatList_den (env : Env) (k : ACK) (w : Nat) (hw : 0 < w) :
    ∀ es : List Expr, denProd env k w (flatList k.op es) = denProd env k w es
  | [] => by simp [flatList]
  | e :: es => by
    simp only [flatList, denProd_append, flat_den env k w hw e, flatList_den env k w hw es, denProd]
end

/-! ### literals -/
theorem cprod_cons (k : ACK) (w : Nat) (x : BitVec w) (cs : List (BitVec w)) :
    cprod k w (x :: cs) = k.g w x (cprod k w cs) := by
  have hfrom : ∀ (l : List (BitVec w)) (a : BitVec w), l.foldl (k.g w) a = k.g w a (l.foldl (k.g w) (k.e w)) := by
    intro l
    induction l with
    | nil => intro a; simp [k.id_right]
    | cons y l ih =>
      intro a
      simp only [List.foldl]
      rw [ih (k.g w a y), ih (k.g w (k.e w) y), k.id_left, k.assoc]
  simp only [cprod, List.foldl, k.id_left]
  exact hfrom cs x

theorem splitC_den (env : Env) (k : ACK) (w : Nat) (hw : 0 < w) (ts : List Expr) :
    denProd env k w ts = combine k w (some (cprod k w (splitC w ts).1)) (denProd env k w (splitC w ts).2) := by
  induction ts with
  | nil => simp [splitC, denProd, cprod, combine, k.id_left]
  | cons t ts ih =>
    cases t with
    | bvv v w' =>
      simp only [splitC]
      split
      · rename_i hww
        subst hww
        have hv : toBV? w' (eval env (.bvv v w')) = some (BitVec.ofNat w' v) := by
          rw [eval_bvv env v w' hw, toBV?_ofBV _ hw]
        simp only [denProd, hv, cprod_cons]
        rw [ih]
        cases denProd env k w' (splitC w' ts).2 <;> simp [combine, k.assoc]
      · simp only [denProd]
        rw [ih, combine_left_comm]
    | bvs n w' => simp only [splitC, denProd]; rw [ih, combine_left_comm]
    | boolv b => simp only [splitC, denProd]; rw [ih, combine_left_comm]
    | bools n => simp only [splitC, denProd]; rw [ih, combine_left_comm]
    | app o as => simp only [splitC, denProd]; rw [ih, combine_left_comm]

/-! ### cancelling and dropping repeated operands -/
theorem denProd_cancel (env : Env) (w : Nat) (l : List Expr) (p : BitVec w)
    (h : denProd env .bxor w l = some p) : denProd env .bxor w (cancel l) = some p := by
  induction l generalizing p with
  | nil => simpa [cancel] using h
  | cons a l ih =>
    simp only [denProd] at h
    cases hx : toBV? w (eval env a) with
    | none => simp [hx, combine] at h
    | some x =>
      cases hp : denProd env .bxor w l with
      | none => simp [hx, hp, combine] at h
      | some pl =>
        simp only [hx, hp, combine, Option.some.injEq] at h
        have ihl := ih pl hp
        simp only [cancel]
        split
        · rename_i hmem
          have hmem' : a ∈ cancel l := List.elem_iff.mp hmem
          have hperm := List.perm_cons_erase hmem'
          have := denProd_perm env .bxor w hperm
          rw [ihl] at this
          simp only [denProd, hx] at this
          cases hq : denProd env .bxor w ((cancel l).erase a) with
          | none => simp [hq, combine] at this
          | some q =>
            simp only [hq, combine, Option.some.injEq] at this
            rw [← h, this]
            simp [ACK.g, ← BitVec.xor_assoc]
        · simp [denProd, hx, ihl, combine, h]

theorem denProd_dedupe (env : Env) (k : ACK) (hk : k = .band ∨ k = .bor) (w : Nat) (l : List Expr) (p : BitVec w)
    (h : denProd env k w l = some p) : denProd env k w (dedupe l) = some p := by
  induction l generalizing p with
  | nil => simpa [dedupe] using h
  | cons a l ih =>
    simp only [denProd] at h
    cases hx : toBV? w (eval env a) with
    | none => simp [hx, combine] at h
    | some x =>
      cases hp : denProd env k w l with
      | none => simp [hx, hp, combine] at h
      | some pl =>
        simp only [hx, hp, combine, Option.some.injEq] at h
        have ihl := ih pl hp
        simp only [dedupe]
        split
        · rename_i hmem
          have hmem' : a ∈ dedupe l := List.elem_iff.mp hmem
          have hperm := List.perm_cons_erase hmem'
          have := denProd_perm env k w hperm
          rw [ihl] at this
          simp only [denProd, hx] at this
          cases hq : denProd env k w ((dedupe l).erase a) with
          | none => simp [hq, combine] at this
          | some q =>
            simp only [hq, combine, Option.some.injEq] at this
            rw [ihl, ← h, this]
            rcases hk with rfl | rfl
            · simp [ACK.g, ← BitVec.and_assoc]
            · simp [ACK.g, ← BitVec.or_assoc]
        · simp [denProd, hx, ihl, combine, h]

theorem denProd_reduce (env : Env) (k : ACK) (w : Nat) (l : List Expr) (p : BitVec w)
    (h : denProd env k w l = some p) : denProd env k w (k.reduce l) = some p := by
  cases k with
  | add => simpa [ACK.reduce] using h
  | mul => simpa [ACK.reduce] using h
  | band => exact denProd_dedupe env .band (Or.inl rfl) w l p h
  | bor => exact denProd_dedupe env .bor (Or.inr rfl) w l p h
  | bxor => exact denProd_cancel env w l p h

/-! ### the certificate check is sound -/
/-- **AC rewrites preserve meaning.** If `acEquiv k w lhs rhs` accepts and `lhs` denotes a `w`-bit vector under `env`,
then `rhs` denotes the same vector.  No bound on widths, operand counts or nesting. -/
theorem acEquiv_sound (k : ACK) (w : Nat) (lhs rhs : Expr) (h : acEquiv k w lhs rhs = true) (env : Env) (n : Nat)
    (hl : eval env lhs = .bv w n) : eval env rhs = eval env lhs := by
  simp only [acEquiv, Bool.and_eq_true, decide_eq_true_eq] at h
  obtain ⟨⟨hw, hc⟩, hperm⟩ := h
  have hperm' := List.isPerm_iff.mp hperm
  have hwf : (Val.bv w n).WF := hl ▸ eval_wf env lhs
  obtain ⟨x, hx, _⟩ := hwf.exists_bv
  -- lhs: product of literals and of the reduced remaining operands
  have h1 : denProd env k w (flat k.op lhs) = some x := by
    rw [flat_den env k w hw lhs, hl, hx, toBV?_ofBV _ hw]
  rw [splitC_den env k w hw] at h1
  cases hrest : denProd env k w (splitC w (flat k.op lhs)).2 with
  | none => simp [hrest, combine] at h1
  | some p =>
    simp only [hrest, combine, Option.some.injEq] at h1
    have h2 := denProd_reduce env k w _ p hrest
    rw [denProd_perm env k w hperm'] at h2
    -- rhs
    have h3 : denProd env k w (flat k.op rhs) = some x := by
      rw [splitC_den env k w hw, h2, ← hc]
      simp [combine, h1]
    rw [flat_den env k w hw rhs] at h3
    rw [toBV?_eq_some (eval_wf env rhs) h3, hl, hx]

end Claripy.AST
