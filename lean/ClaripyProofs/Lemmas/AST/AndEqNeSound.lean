import ClaripyProofs.Lemmas.AST.ACNormSoundB
/-!
Soundness of `andEqNe` (Claripy/AST/ACNorm.lean): collapsing an `And` of (dis)equalities of one expression with literals.
-/
namespace Claripy.AST

theorem valEq_bv_lit (w n c : Nat) (hw : 0 < w) (hn : n < 2 ^ w) (hc : c < 2 ^ w) :
    valEq (.bv w n) (.bv w c) = .bool (n == c) := by
  simp only [valEq, hw, and_self, if_true, Val.bool.injEq]
  by_cases h : n = c
  · subst h; simp
  · have : BitVec.ofNat w n ≠ BitVec.ofNat w c := by
      intro hc'
      have := congrArg BitVec.toNat hc'
      simp only [BitVec.toNat_ofNat, Nat.mod_eq_of_lt hn, Nat.mod_eq_of_lt hc] at this
      exact h this
    have e1 : (BitVec.ofNat w n == BitVec.ofNat w c) = false := by simpa using this
    have e2 : (n == c) = false := by simpa using h
    rw [e1, e2]

theorem valEq_comm (a b : Val) : valEq a b = valEq b a := by
  cases a <;> cases b <;> simp only [valEq]
  · rename_i w n w' n'
    by_cases h : w = w' ∧ 0 < w
    · obtain ⟨rfl, hw⟩ := h
      simp only [and_self, hw, if_true, Val.bool.injEq]
      rw [Bool.eq_iff_iff]; simp only [beq_iff_eq]; exact ⟨fun h => h.symm, fun h => h.symm⟩
    · have h' : ¬ (w' = w ∧ 0 < w') := by
        intro hc; apply h; exact ⟨hc.1.symm, hc.1 ▸ hc.2⟩
      simp [h, h']
  · rename_i a b
    simp only [Val.bool.injEq]
    cases a <;> cases b <;> rfl

/-- a well-typed atom pins the sort and width of the target and has the expected truth value -/
theorem atom_eval (env : Env) (target t : Expr) (isEq : Bool) (c w : Nat) (h : eqNeAtom target t = some (isEq, c, w)) (x : Bool)
    (hx : eval env t = .bool x) :
    ∃ n, eval env target = .bv w n ∧ n < 2 ^ w ∧ 0 < w ∧ c < 2 ^ w ∧ x = (if isEq then n == c else n != c) := by
  have key : ∀ (a : Expr) (v w' : Nat) (y : Bool), valEq (eval env a) (eval env (.bvv v w')) = .bool y →
      ∃ n, eval env a = .bv w' n ∧ n < 2 ^ w' ∧ 0 < w' ∧ v % 2 ^ w' < 2 ^ w' ∧ y = (n == v % 2 ^ w') := by
    intro a v w' y hy
    by_cases hw : 0 < w'
    · have hwf := eval_wf env a
      simp only [eval, hw, if_true] at hy
      cases ha : eval env a with
      | err => simp [ha] at hy
      | bool b => simp [ha, valEq] at hy
      | bv wa na =>
        rw [ha] at hy hwf
        by_cases hww : wa = w'
        · subst hww
          rw [valEq_bv_lit wa na _ hw hwf.1 (Nat.mod_lt _ (Nat.two_pow_pos wa))] at hy
          simp only [Val.bool.injEq] at hy
          exact ⟨na, rfl, hwf.1, hw, Nat.mod_lt _ (Nat.two_pow_pos wa), hy.symm⟩
        · simp [valEq, hww] at hy
    · simp [eval, hw] at hy
  unfold eqNeAtom at h
  split at h
  · rename_i a v w'
    split at h
    · rename_i hat
      simp only [Option.some.injEq, Prod.mk.injEq] at h
      obtain ⟨rfl, rfl, rfl⟩ := h
      have : a = target := eq_of_beq hat
      subst this
      rw [eval_app] at hx
      simp only [evalList, applyOp] at hx
      obtain ⟨n, h1, h2, h3, h4, h5⟩ := key a v w' x hx
      exact ⟨n, h1, h2, h3, h4, by simpa using h5⟩
    · simp at h
  · rename_i v w' b _
    split at h
    · rename_i hbt
      simp only [Option.some.injEq, Prod.mk.injEq] at h
      obtain ⟨rfl, rfl, rfl⟩ := h
      have : b = target := eq_of_beq hbt
      subst this
      rw [eval_app] at hx
      simp only [evalList, applyOp] at hx
      rw [valEq_comm] at hx
      obtain ⟨n, h1, h2, h3, h4, h5⟩ := key b v w' x hx
      exact ⟨n, h1, h2, h3, h4, by simpa using h5⟩
    · simp at h
  · rename_i a v w'
    split at h
    · rename_i hat
      simp only [Option.some.injEq, Prod.mk.injEq] at h
      obtain ⟨rfl, rfl, rfl⟩ := h
      have : a = target := eq_of_beq hat
      subst this
      rw [eval_app] at hx
      simp only [evalList, applyOp] at hx
      cases hv : valEq (eval env a) (eval env (.bvv v w')) with
      | err => simp [hv] at hx
      | bv _ _ => simp [hv, valNot] at hx
      | bool y =>
        simp only [hv, valNot_bool, Val.bool.injEq] at hx
        obtain ⟨n, h1, h2, h3, h4, h5⟩ := key a v w' y hv
        refine ⟨n, h1, h2, h3, h4, ?_⟩
        subst hx h5
        simp [bne]
    · simp at h
  · rename_i v w' b _
    split at h
    · rename_i hbt
      simp only [Option.some.injEq, Prod.mk.injEq] at h
      obtain ⟨rfl, rfl, rfl⟩ := h
      have : b = target := eq_of_beq hbt
      subst this
      rw [eval_app] at hx
      simp only [evalList, applyOp] at hx
      rw [valEq_comm] at hx
      cases hv : valEq (eval env b) (eval env (.bvv v w')) with
      | err => simp [hv] at hx
      | bv _ _ => simp [hv, valNot] at hx
      | bool y =>
        simp only [hv, valNot_bool, Val.bool.injEq] at hx
        obtain ⟨n, h1, h2, h3, h4, h5⟩ := key b v w' y hv
        refine ⟨n, h1, h2, h3, h4, ?_⟩
        subst hx h5
        simp [bne]
    · simp at h
  · simp at h

theorem atoms_den (env : Env) (target : Expr) (w n : Nat) (ht : eval env target = .bv w n) :
    ∀ (ts : List Expr) (as : List (Bool × Nat × Nat)) (v : Bool), atomsAll target ts = some as →
      denB env .and ts = some v → v = atomsHold n as
  | [], as, v, h, hd => by
    simp only [atomsAll, Option.some.injEq] at h
    subst h
    simp only [denB, Option.some.injEq, BK.e] at hd
    subst hd; rfl
  | t :: ts, as, v, h, hd => by
    simp only [atomsAll] at h
    cases ha : eqNeAtom target t with
    | none => simp [ha] at h
    | some a =>
      cases hr : atomsAll target ts with
      | none => simp [ha, hr] at h
      | some as' =>
        simp only [ha, hr, Option.some.injEq] at h
        subst h
        simp only [denB] at hd
        cases hx : toB? (eval env t) with
        | none => simp [hx, combineB] at hd
        | some x =>
          cases hd' : denB env .and ts with
          | none => simp [hx, hd', combineB] at hd
          | some v' =>
            simp only [hx, hd', combineB, Option.some.injEq, BK.g] at hd
            subst hd
            have hxe : eval env t = .bool x := by
              cases he : eval env t <;> simp [he, toB?] at hx
              rw [hx]
            obtain ⟨isEq, c, w'⟩ := a
            obtain ⟨n', h1, _, _, _, h5⟩ := atom_eval env target t isEq c w' ha x hxe
            rw [ht] at h1
            cases h1
            rw [atoms_den env target w n ht ts as' v' hr hd', h5]
            rfl

theorem atomsHold_single (n e : Nat) : ∀ (as : List (Bool × Nat × Nat)), (∀ a ∈ as, a.1 = true → a.2.1 = e) →
    (∀ a ∈ as, a.1 = false → a.2.1 ≠ e) → (∃ a ∈ as, a.1 = true) → atomsHold n as = (n == e) := by
  intro as h1 h2 h3
  by_cases hne : n = e
  · subst hne
    have : ∀ (l : List (Bool × Nat × Nat)), (∀ a ∈ l, a.1 = true → a.2.1 = n) → (∀ a ∈ l, a.1 = false → a.2.1 ≠ n) →
        atomsHold n l = true := by
      intro l
      induction l with
      | nil => intros; rfl
      | cons a l ih =>
        intro g1 g2
        obtain ⟨isEq, c, w⟩ := a
        simp only [atomsHold]
        rw [ih (fun x hx => g1 x (List.mem_cons_of_mem _ hx)) (fun x hx => g2 x (List.mem_cons_of_mem _ hx))]
        cases isEq
        · have := g2 (false, c, w) (List.mem_cons_self ..) rfl
          simp at this
          simp [bne, Ne.symm this]
        · have := g1 (true, c, w) (List.mem_cons_self ..) rfl
          simp at this
          simp [this]
    rw [this as h1 h2]; simp
  · have : ∀ (l : List (Bool × Nat × Nat)), (∀ a ∈ l, a.1 = true → a.2.1 = e) → (∃ a ∈ l, a.1 = true) → atomsHold n l = false := by
      intro l
      induction l with
      | nil => intro _ ⟨a, ha, _⟩; simp at ha
      | cons a l ih =>
        intro g1 ⟨b, hb, hbe⟩
        obtain ⟨isEq, c, w⟩ := a
        simp only [atomsHold]
        cases isEq
        · simp only [List.mem_cons] at hb
          rcases hb with rfl | hb
          · simp at hbe
          · rw [ih (fun x hx => g1 x (List.mem_cons_of_mem _ hx)) ⟨b, hb, hbe⟩]; simp
        · have := g1 (true, c, w) (List.mem_cons_self ..) rfl
          simp at this
          subst this
          simp [hne]
    rw [this as h1 h3]
    simp [hne]

theorem atomsHold_mem_eq (n : Nat) (as : List (Bool × Nat × Nat)) (h : atomsHold n as = true) :
    (∀ a ∈ as, a.1 = true → n = a.2.1) ∧ (∀ a ∈ as, a.1 = false → n ≠ a.2.1) := by
  induction as with
  | nil => simp
  | cons a l ih =>
    obtain ⟨isEq, c, w⟩ := a
    simp only [atomsHold, Bool.and_eq_true] at h
    obtain ⟨i1, i2⟩ := ih h.2
    constructor
    · intro x hx hxe
      simp only [List.mem_cons] at hx
      rcases hx with rfl | hx
      · simp only at hxe; subst hxe; simpa using h.1
      · exact i1 x hx hxe
    · intro x hx hxe
      simp only [List.mem_cons] at hx
      rcases hx with rfl | hx
      · simp only at hxe; subst hxe; simpa [bne] using h.1
      · exact i2 x hx hxe

/-- what `collapse` computes is what the conjunction means -/
theorem collapse_sound (n : Nat) (as : List (Bool × Nat × Nat)) :
    (collapse as = some none → atomsHold n as = false) ∧ (∀ e, collapse as = some (some e) → atomsHold n as = (n == e)) := by
  unfold collapse
  split
  · simp
  · rename_i e es hE
    have hmemE : ∀ c, c ∈ e :: es ↔ ∃ a ∈ as, a.1 = true ∧ a.2.1 = c := by
      intro c
      rw [← hE]
      simp only [List.mem_map, List.mem_filter]
      constructor
      · rintro ⟨a, ⟨ha, hae⟩, rfl⟩; exact ⟨a, ha, hae, rfl⟩
      · rintro ⟨a, ha, hae, rfl⟩; exact ⟨a, ⟨ha, hae⟩, rfl⟩
    split
    · rename_i hc
      simp only [Bool.and_eq_true, List.all_eq_true, beq_iff_eq, Bool.not_eq_true', List.contains_eq_mem, decide_eq_false_iff_not,
        List.mem_map, List.mem_filter, not_exists, not_and] at hc
      obtain ⟨hall, hnot⟩ := hc
      refine ⟨by simp, ?_⟩
      intro e' he'
      simp only [Option.some.injEq] at he'
      subst he'
      apply atomsHold_single
      · intro a ha hae
        have := (hmemE a.2.1).mpr ⟨a, ha, hae, rfl⟩
        simp only [List.mem_cons] at this
        rcases this with h | h
        · exact h
        · exact hall _ h
      · intro a ha hae hce
        exact hnot a ⟨ha, by simpa using hae⟩ hce
      · obtain ⟨a, ha, hae, _⟩ := (hmemE e).mp (List.mem_cons_self ..)
        exact ⟨a, ha, hae⟩
    · rename_i hc
      refine ⟨?_, by simp⟩
      intro _
      cases hh' : atomsHold n as with
      | false => rfl
      | true =>
      exfalso
      obtain ⟨g1, g2⟩ := atomsHold_mem_eq n as hh'
      apply hc
      simp only [Bool.and_eq_true, List.all_eq_true, beq_iff_eq, Bool.not_eq_true', List.contains_eq_mem, decide_eq_false_iff_not,
        List.mem_map, List.mem_filter, not_exists, not_and]
      have he : n = e := by
        obtain ⟨a, ha, hae, hac⟩ := (hmemE e).mp (List.mem_cons_self ..)
        rw [← hac]; exact g1 a ha hae
      constructor
      · intro c hcmem
        obtain ⟨a, ha, hae, hac⟩ := (hmemE c).mp (List.mem_cons_of_mem _ hcmem)
        rw [← hac, ← he]; exact (g1 a ha hae).symm
      · intro a ⟨ha, hae⟩ hce
        exact g2 a ha (by simpa using hae) (by rw [hce, he])

/-- dropping literal `true` conjuncts does not change the value of a conjunction -/
theorem denB_conjuncts (env : Env) (l : List Expr) :
    denB env .and (l.filter fun t => !(t == .boolv true)) = denB env .and l := by
  induction l with
  | nil => rfl
  | cons t ts ih =>
    simp only [List.filter_cons]
    by_cases ht : t = .boolv true
    · subst ht
      have hb : (Expr.boolv true == Expr.boolv true) = true := by simp
      simp only [hb, Bool.not_true, Bool.false_eq_true, if_false, denB, ih]
      have : toB? (eval env (.boolv true)) = some true := by simp [eval, toB?]
      rw [this]
      exact (combineB_e_left .and _).symm
    · have hb : (t == Expr.boolv true) = false := by simpa using ht
      simp only [hb, Bool.not_false, if_true, denB, ih]

/-- **collapsing an `And` of (dis)equalities of one expression preserves its truth value** -/
theorem andEqNe_sound (target : Expr) (w : Nat) (lhs rhs : Expr) (h : andEqNe target w lhs rhs = true) (env : Env) (v : Bool)
    (hl : eval env lhs = .bool v) : eval env rhs = eval env lhs := by
  unfold andEqNe at h
  split at h
  · simp at h
  · rename_i as has
    simp only [Bool.and_eq_true, decide_eq_true_eq, List.all_eq_true, beq_iff_eq] at h
    obtain ⟨⟨hw, hws⟩, hm⟩ := h
    have hden : denB env .and (conjuncts lhs) = some v := by
      have := flatB_den env .and lhs
      simp only [BK.op] at this
      unfold conjuncts
      rw [denB_conjuncts, this, hl]; rfl
    -- the collapse needs at least one equality, hence at least one atom: the target is a w-bit vector
    have hne : as ≠ [] := by
      intro he; subst he
      simp [collapse] at hm
    -- value of the target from the first atom
    have htarget : ∃ n, eval env target = .bv w n := by
      cases hts : conjuncts lhs with
      | nil => rw [hts] at has; simp [atomsAll] at has; first | exact absurd has hne | exact absurd has.symm hne
      | cons t ts =>
        rw [hts] at has hden
        simp only [atomsAll] at has
        cases ha : eqNeAtom target t with
        | none => simp [ha] at has
        | some a =>
          cases hr : atomsAll target ts with
          | none => simp [ha, hr] at has
          | some as' =>
            simp only [ha, hr, Option.some.injEq] at has
            simp only [denB] at hden
            cases hx : toB? (eval env t) with
            | none => simp [hx, combineB] at hden
            | some x =>
              have hxe : eval env t = .bool x := by
                cases he : eval env t <;> simp [he, toB?] at hx
                rw [hx]
              obtain ⟨isEq, c, w'⟩ := a
              obtain ⟨n, h1, _⟩ := atom_eval env target t isEq c w' ha x hxe
              have : w' = w := by
                have := hws (isEq, c, w') (by rw [← has]; exact List.mem_cons_self ..)
                simpa using this
              subst this
              exact ⟨n, h1⟩
    obtain ⟨n, hn⟩ := htarget
    have hv := atoms_den env target w n hn _ as v has hden
    have hnlt : n < 2 ^ w := (hn ▸ eval_wf env target : (Val.bv w n).WF).1
    obtain ⟨c1, c2⟩ := collapse_sound n as
    rw [hl]
    split at hm
    · rename_i hcol
      rw [hv, c1 hcol]; simp [eval]
    · rename_i e t v' w' hcol
      simp only [Bool.and_eq_true, beq_iff_eq] at hm
      obtain ⟨⟨ht, hw'⟩, hve⟩ := hm
      subst ht hw'
      rw [hv, c2 e hcol, eval_app]
      simp only [evalList, applyOp, hn, eval, hw, if_true]
      rw [valEq_bv_lit w' n _ hw hnlt (Nat.mod_lt _ (Nat.two_pow_pos w')), hve]
    · simp at hm

/-- every conjunct of a conjunction with a Boolean value has a Boolean value -/
theorem denB_members (env : Env) : ∀ (l : List Expr) (v : Bool), denB env .and l = some v → ∀ t ∈ l, ∃ x, eval env t = .bool x
  | [], _, _, t, ht => by simp at ht
  | u :: us, v, hd, t, ht => by
    simp only [denB] at hd
    cases hx : toB? (eval env u) with
    | none => simp [hx, combineB] at hd
    | some x =>
      cases hd' : denB env .and us with
      | none => simp [hx, hd', combineB] at hd
      | some v' =>
        rcases List.mem_cons.mp ht with rfl | ht
        · cases he : eval env t <;> simp [he, toB?] at hx
          exact ⟨_, rfl⟩
        · exact denB_members env us v' hd' t ht

/-- if the atoms about the target are contradictory at the target's value, the conjunction is false whatever else it holds -/
theorem denB_atoms_false (env : Env) (target : Expr) (w n : Nat) (ht : eval env target = .bv w n) :
    ∀ (l : List Expr) (v : Bool), denB env .and l = some v → atomsHold n (atomsSome target l) = false → v = false
  | [], v, _, h => by simp [atomsSome, atomsHold] at h
  | t :: ts, v, hd, h => by
    simp only [denB] at hd
    cases hx : toB? (eval env t) with
    | none => simp [hx, combineB] at hd
    | some x =>
      cases hd' : denB env .and ts with
      | none => simp [hx, hd', combineB] at hd
      | some v' =>
        simp only [hx, hd', combineB, Option.some.injEq, BK.g] at hd
        subst hd
        have hxe : eval env t = .bool x := by
          cases he : eval env t <;> simp [he, toB?] at hx
          rw [hx]
        cases ha : eqNeAtom target t with
        | none =>
          have : atomsSome target (t :: ts) = atomsSome target ts := by simp [atomsSome, List.filterMap_cons, ha]
          rw [this] at h
          rw [denB_atoms_false env target w n ht ts v' hd' h]; simp
        | some a =>
          obtain ⟨isEq, c, w'⟩ := a
          have hcons : atomsSome target (t :: ts) = (isEq, c, w') :: atomsSome target ts := by
            simp [atomsSome, List.filterMap_cons, ha]
          rw [hcons] at h
          simp only [atomsHold, Bool.and_eq_false_iff] at h
          obtain ⟨n', h1, _, _, _, h5⟩ := atom_eval env target t isEq c w' ha x hxe
          rw [ht] at h1
          cases h1
          rcases h with h | h
          · rw [h5, h]; rfl
          · rw [denB_atoms_false env target w n ht ts v' hd' h]; simp

theorem andEqNeMixed_sound (target : Expr) (w : Nat) (lhs rhs : Expr) (h : andEqNeMixed target w lhs rhs = true) (env : Env) (v : Bool)
    (hl : eval env lhs = .bool v) : eval env rhs = eval env lhs := by
  unfold andEqNeMixed at h
  simp only [Bool.and_eq_true, decide_eq_true_eq, List.all_eq_true, beq_iff_eq] at h
  obtain ⟨⟨hw, hws⟩, hm⟩ := h
  have hden : denB env .and (conjuncts lhs) = some v := by
    have := flatB_den env .and lhs
    simp only [BK.op] at this
    unfold conjuncts
    rw [denB_conjuncts, this, hl]; rfl
  split at hm
  · rename_i hcol
    -- some atom exists (the collapse found an equality): it gives the target a value
    have hne : atomsSome target (conjuncts lhs) ≠ [] := by
      intro he; rw [he] at hcol; simp [collapse] at hcol
    obtain ⟨a, ha⟩ := List.exists_mem_of_ne_nil _ hne
    obtain ⟨t, htm, hta⟩ := List.mem_filterMap.mp ha
    obtain ⟨x, hx⟩ := denB_members env _ v hden t htm
    obtain ⟨isEq, c, w'⟩ := a
    obtain ⟨n, hn, _⟩ := atom_eval env target t isEq c w' hta x hx
    have hfalse := (collapse_sound n (atomsSome target (conjuncts lhs))).1 hcol
    have := denB_atoms_false env target w' n hn _ v hden hfalse
    rw [hl, this]; simp [eval]
  · simp at hm

theorem andEqNeAuto_sound (lhs rhs : Expr) (h : andEqNeAuto lhs rhs = true) (env : Env) (v : Bool)
    (hl : eval env lhs = .bool v) : eval env rhs = eval env lhs := by
  unfold andEqNeAuto at h
  split at h
  · rename_i target w _
    rcases Bool.or_eq_true_iff.mp h with h | h
    · exact andEqNe_sound target w lhs rhs h env v hl
    · exact andEqNeMixed_sound target w lhs rhs h env v hl
  · simp at h

end Claripy.AST
