import Claripy.AST.IteReloc
import ClaripyProofs.Lemmas.AST.Typing
import ClaripyProofs.Lemmas.AST.RulesSound3
import ClaripyProofs.Lemmas.AST.Beq
import ClaripyProofs.Lemmas.AST.BoolWidth
import ClaripyProofs.Props.C05
/-!
`excavate_ite` and `burrow_ite` (Claripy/AST/IteReloc.lean) preserve the value of every well-typed expression, for every
tree and every assignment, whatever value-preserving constructors they are run with.
-/
namespace Claripy.AST

/-- a constructor that may rewrite the node but keeps the value of well-typed nodes (what C01 establishes piecewise) -/
def MkSound (mk : Op → List Expr → Expr) : Prop :=
  ∀ (env : Env) (op : Op) (args : List Expr), eval env (.app op args) ≠ .err → eval env (mk op args) = eval env (.app op args)

def NotSound (notOf : Expr → Expr) : Prop :=
  ∀ (env : Env) (c : Expr) (b : Bool), eval env c = .bool b → eval env (notOf c) = .bool (!b)

theorem mkSound_raw : MkSound (fun op args => .app op args) := fun _ _ _ _ => rfl

theorem ty_ne_err {v : Val} (h : v.ty ≠ .err) : v ≠ .err := by
  intro hv; subst hv; exact h rfl
theorem ne_err_ty {v : Val} (h : v ≠ .err) : v.ty ≠ .err := by
  cases v <;> simp_all [Val.ty]

theorem sameTy_of_ty {a b : Val} (h : a.ty = b.ty) (ha : a ≠ .err) : sameTy a b := by
  cases a <;> cases b <;> simp_all [Val.ty, sameTy]

theorem args_ne_err (env : Env) (op : Op) (args : List Expr) (h : eval env (.app op args) ≠ .err) :
    ∀ a ∈ args, eval env a ≠ .err := by
  intro a ha hea
  apply h
  rw [eval_app]
  apply applyOp_strict
  rw [evalList_eq_map, ← hea]
  exact List.mem_map_of_mem ha

theorem iteParts_eq {a c t f : Expr} (h : iteParts a = some (c, t, f)) : a = .app .ite [c, t, f] := by
  unfold iteParts at h
  split at h
  · simp only [Option.some.injEq, Prod.mk.injEq] at h
    obtain ⟨rfl, rfl, rfl⟩ := h
    rfl
  · simp at h

theorem eval_ite_ne_err (env : Env) (c t f : Expr) (h : eval env (.app .ite [c, t, f]) ≠ .err) :
    ∃ cb, eval env c = .bool cb ∧ eval env (.app .ite [c, t, f]) = (if cb then eval env t else eval env f) ∧
      (eval env t).ty = (eval env f).ty := by
  rw [eval_app] at h ⊢
  simp only [evalList, applyOp] at h ⊢
  obtain ⟨cb, hcb⟩ := valIte_cond_bool _ _ _ h
  rw [hcb] at h ⊢
  obtain ⟨e1, e2⟩ := valIte_spec cb _ _ h
  refine ⟨cb, rfl, e1, ?_⟩
  revert e2
  cases eval env t <;> cases eval env f <;> simp [sameTy, Val.ty]

theorem firstIteCond_mem {args : List Expr} {cond : Expr} (h : firstIteCond args = some cond) :
    ∃ t f, Expr.app .ite [cond, t, f] ∈ args := by
  induction args with
  | nil => simp [firstIteCond] at h
  | cons a as ih =>
    simp only [firstIteCond] at h
    split at h
    · rename_i c t f hp
      simp only [Option.some.injEq] at h
      subst h
      exact ⟨t, f, by rw [iteParts_eq hp]; exact List.mem_cons_self ..⟩
    · obtain ⟨t, f, hm⟩ := ih h
      exact ⟨t, f, List.mem_cons_of_mem _ hm⟩

theorem split_sound (env : Env) (cond ncond : Expr) (cb : Bool) (hc : eval env cond = .bool cb)
    (hn : eval env ncond = .bool (!cb)) :
    ∀ (args ts fs : List Expr), splitArgs cond ncond args = some (ts, fs) → (∀ a ∈ args, eval env a ≠ .err) →
      evalList env (if cb then ts else fs) = evalList env args ∧ SameTys (evalList env ts) (evalList env fs) := by
  intro args
  induction args with
  | nil =>
    intro ts fs h _
    simp only [splitArgs, Option.some.injEq, Prod.mk.injEq] at h
    obtain ⟨rfl, rfl⟩ := h
    exact ⟨by cases cb <;> rfl, by simp [evalList]; exact .nil⟩
  | cons a as ih =>
    intro ts fs h hne
    simp only [splitArgs] at h
    split at h
    · simp at h
    · rename_i ts' fs' hrec
      obtain ⟨e1, e2⟩ := ih ts' fs' hrec (fun x hx => hne x (List.mem_cons_of_mem _ hx))
      have hea := hne a (List.mem_cons_self ..)
      split at h
      · -- not an If
        simp only [Option.some.injEq, Prod.mk.injEq] at h
        obtain ⟨rfl, rfl⟩ := h
        refine ⟨?_, ?_⟩
        · cases cb <;> simp only [Bool.false_eq_true, if_false, if_true, evalList] at e1 ⊢ <;> rw [e1]
        · simp only [evalList]; exact .cons rfl e2
      · rename_i c t f hp
        have ha := iteParts_eq hp
        subst ha
        obtain ⟨cb', hcb', hval, hty⟩ := eval_ite_ne_err env c t f hea
        split at h
        · rename_i hcc
          have : c = cond := eq_of_beq hcc
          subst this
          rw [hc] at hcb'
          cases hcb'
          simp only [Option.some.injEq, Prod.mk.injEq] at h
          obtain ⟨rfl, rfl⟩ := h
          refine ⟨?_, ?_⟩
          · cases cb <;> simp only [Bool.false_eq_true, if_false, if_true, evalList] at e1 hval ⊢ <;> rw [e1, hval]
          · simp only [evalList]; exact .cons hty e2
        · split at h
          · rename_i _ hcn
            have : c = ncond := eq_of_beq hcn
            subst this
            rw [hn] at hcb'
            cases hcb'
            simp only [Option.some.injEq, Prod.mk.injEq] at h
            obtain ⟨rfl, rfl⟩ := h
            refine ⟨?_, ?_⟩
            · cases cb <;> simp only [Bool.not_false, Bool.not_true, Bool.false_eq_true, if_false, if_true, evalList] at e1 hval ⊢ <;>
                rw [e1, hval]
            · simp only [evalList]; exact .cons hty.symm e2
          · simp at h

theorem valIte_ty {a b : Val} (cb : Bool) (h : a.ty = b.ty) (ha : a ≠ .err) : valIte (.bool cb) a b = if cb then a else b :=
  valIte_of_sameTy cb a b (sameTy_of_ty h ha)

theorem excavateNode_sound (mk : Op → List Expr → Expr) (notOf : Expr → Expr) (hmk : MkSound mk) (hnot : NotSound notOf)
    (env : Env) (op : Op) (args : List Expr) (h : eval env (.app op args) ≠ .err) :
    eval env (excavateNode mk notOf op args) = eval env (.app op args) := by
  unfold excavateNode
  split
  · rename_i hop; subst hop; exact hmk env _ _ h
  · split
    · exact hmk env _ _ h
    · rename_i cond hcond
      obtain ⟨t0, f0, hmem⟩ := firstIteCond_mem hcond
      have hargs := args_ne_err env op args h
      obtain ⟨cb, hcb, _, _⟩ := eval_ite_ne_err env cond t0 f0 (hargs _ hmem)
      have hncb := hnot env cond cb hcb
      split
      · exact hmk env _ _ h
      · rename_i ts fs hsplit
        obtain ⟨e1, e2⟩ := split_sound env cond (notOf cond) cb hcb hncb args ts fs hsplit hargs
        have hty : (eval env (.app op ts)).ty = (eval env (.app op fs)).ty := by
          rw [eval_app, eval_app]; exact applyOp_ty_congr op e2
        have hsel : eval env (.app op (if cb then ts else fs)) = eval env (.app op args) := by
          rw [eval_app, eval_app, e1]
        have hts : eval env (.app op ts) ≠ .err := by
          cases cb
          · simp only [Bool.false_eq_true, if_false] at hsel
            apply ty_ne_err; rw [hty]; apply ne_err_ty; rw [hsel]; exact h
          · simp only [if_true] at hsel
            rw [hsel]; exact h
        have hfs : eval env (.app op fs) ≠ .err := by
          apply ty_ne_err; rw [← hty]; exact ne_err_ty hts
        have hinner : eval env (.app .ite [cond, mk op ts, mk op fs]) = eval env (.app op args) := by
          rw [eval_app]
          simp only [evalList, applyOp, hcb, hmk env op ts hts, hmk env op fs hfs]
          rw [valIte_ty cb hty hts, ← hsel]
          cases cb <;> simp
        rw [hmk env .ite _ (by rw [hinner]; exact h), hinner]

mutual
theorem excavate_sound (mk : Op → List Expr → Expr) (notOf : Expr → Expr) (hmk : MkSound mk) (hnot : NotSound notOf) (env : Env) :
    ∀ (e : Expr), eval env e ≠ .err → eval env (excavate mk notOf e) = eval env e
  | .bvv _ _, _ => rfl
  | .bvs _ _, _ => rfl
  | .boolv _, _ => rfl
  | .bools _, _ => rfl
  | .app op args, h => by
    have hargs := args_ne_err env op args h
    have hl := excavateList_sound mk notOf hmk hnot env args hargs
    simp only [excavate]
    have heq : eval env (.app op (excavateList mk notOf args)) = eval env (.app op args) := by
      rw [eval_app, eval_app, hl]
    rw [excavateNode_sound mk notOf hmk hnot env op _ (by rw [heq]; exact h), heq]
theorem excavateList_sound (mk : Op → List Expr → Expr) (notOf : Expr → Expr) (hmk : MkSound mk) (hnot : NotSound notOf) (env : Env) :
    ∀ (es : List Expr), (∀ a ∈ es, eval env a ≠ .err) → evalList env (excavateList mk notOf es) = evalList env es
  | [], _ => rfl
  | e :: es, h => by
    simp only [excavateList, evalList]
    rw [excavate_sound mk notOf hmk hnot env e (h e (List.mem_cons_self ..)),
      excavateList_sound mk notOf hmk hnot env es (fun a ha => h a (List.mem_cons_of_mem _ ha))]
end

end Claripy.AST

namespace Claripy.AST

theorem not_via_schema (s : Schema) (hs : Sound s) (a b : Expr) (lhsIn rhsOut : Expr)
    (hl : s.lhs { x := a, y := b } = .app .not [lhsIn]) (hr : s.rhs { x := a, y := b } = rhsOut)
    (hside : s.side { x := a, y := b } = true) (env : Env) (v : Bool) (h : eval env lhsIn = .bool v) :
    eval env rhsOut = .bool (!v) := by
  have hnot : eval env (.app .not [lhsIn]) = .bool (!v) := by
    rw [eval_app]; simp [evalList, applyOp, h]
  have := hs { x := a, y := b } env hside (by rw [hl, hnot]; simp)
  rw [hr, hl, hnot] at this
  exact this

/-- the `Not` constructor used for `~cond` negates -/
theorem notSound_mkNot : NotSound mkNot := by
  intro env c v h
  unfold mkNot
  split
  · -- not x
    rename_i x
    rw [eval_app] at h
    simp only [evalList, applyOp] at h
    cases hx : eval env x with
    | err => simp [hx] at h
    | bv w n => simp [hx, valNot] at h
    | bool u => simp [hx] at h; subst h; simp
  · rename_i a b; exact not_via_schema R.not_eq not_eq_sound a b _ _ rfl rfl rfl env v h
  · rename_i a b; exact not_via_schema R.not_ne not_ne_sound a b _ _ rfl rfl rfl env v h
  · rename_i a b; exact not_via_schema R.not_slt not_slt_sound a b _ _ rfl rfl rfl env v h
  · rename_i a b; exact not_via_schema R.not_sle not_sle_sound a b _ _ rfl rfl rfl env v h
  · rename_i a b; exact not_via_schema R.not_sgt not_sgt_sound a b _ _ rfl rfl rfl env v h
  · rename_i a b; exact not_via_schema R.not_sge not_sge_sound a b _ _ rfl rfl rfl env v h
  · rename_i a b; exact not_via_schema R.not_ult not_ult_sound a b _ _ rfl rfl rfl env v h
  · rename_i a b; exact not_via_schema R.not_ule not_ule_sound a b _ _ rfl rfl rfl env v h
  · rename_i a b; exact not_via_schema R.not_ugt not_ugt_sound a b _ _ rfl rfl rfl env v h
  · rename_i a b; exact not_via_schema R.not_uge not_uge_sound a b _ _ rfl rfl rfl env v h
  · rename_i b
    simp only [eval] at h ⊢
    cases h; rfl
  · rw [eval_app]; simp [evalList, applyOp, h]

end Claripy.AST

namespace Claripy.AST

/-! ### burrow_ite -/
theorem diffIndex_spec {a b : List Expr} {idx : Nat} (h : diffIndex a b = some idx) (hlen : a.length = b.length) :
    ∀ j, j ≠ idx → a[j]? = b[j]? := by
  unfold diffIndex at h
  split at h
  · rename_i i hf
    simp only [Option.some.injEq] at h
    subst h
    intro j hj
    by_cases hjl : j < a.length
    · by_contra hne
      have : j ∈ (List.range a.length).filter (fun j => a[j]? != b[j]?) := by
        simp only [List.mem_filter, List.mem_range, bne_iff_ne, ne_eq]
        exact ⟨hjl, hne⟩
      rw [hf] at this
      simp only [List.mem_singleton] at this
      exact hj this
    · rw [List.getElem?_eq_none (by omega), List.getElem?_eq_none (by omega)]
  · simp at h

theorem ty_eq_of_width (env : Env) (a b : Expr) (hw : a.width = b.width) (ha : eval env a ≠ .err) (hb : eval env b ≠ .err) :
    (eval env a).ty = (eval env b).ty := by
  cases hva : eval env a with
  | err => exact absurd hva ha
  | bv w n =>
    have h1 := Claripy.Props.C05.eval_width env a w n hva
    cases hvb : eval env b with
    | err => exact absurd hvb hb
    | bv w' n' =>
      have h2 := Claripy.Props.C05.eval_width env b w' n' hvb
      rw [h1, h2] at hw
      cases hw; rfl
    | bool y =>
      have h2 := eval_bool_width env b y hvb
      rw [h1, h2] at hw
      cases hw
  | bool x =>
    have h1 := eval_bool_width env a x hva
    cases hvb : eval env b with
    | err => exact absurd hvb hb
    | bv w' n' =>
      have h2 := Claripy.Props.C05.eval_width env b w' n' hvb
      rw [h1, h2] at hw
      cases hw
    | bool y => rfl

theorem burrowIte_sound (mk : Op → List Expr → Expr) (hmk : MkSound mk) (env : Env) (rec : Expr → Expr)
    (hrec : ∀ e, eval env e ≠ .err → eval env (rec e) = eval env e) (c t f : Expr)
    (h : eval env (.app .ite [c, t, f]) ≠ .err) :
    eval env (burrowIte mk rec (.app .ite [c, t, f]) c t f) = eval env (.app .ite [c, t, f]) := by
  unfold burrowIte
  split
  · rename_i opt targs opf fargs
    split
    · rename_i hc
      obtain ⟨rfl, hlen, _, _⟩ := hc
      split
      · rename_i idx hidx
        split
        · rename_i ti fi hti hfi
          split
          · rename_i hw
            -- the interesting case
            obtain ⟨cb, hcb, hval, hty⟩ := eval_ite_ne_err env c _ _ h
            have hT : eval env (.app opt targs) ≠ .err := by
              intro hT
              rw [eval_app] at h
              simp only [evalList, applyOp, hcb, hT] at h
              simp at h
            have hF : eval env (.app opt fargs) ≠ .err := by
              apply ty_ne_err; rw [← hty]; exact ne_err_ty hT
            have htm : ti ∈ targs := List.mem_of_getElem? hti
            have hfm : fi ∈ fargs := List.mem_of_getElem? hfi
            have hti_ne := args_ne_err env opt targs hT ti htm
            have hfi_ne := args_ne_err env opt fargs hF fi hfm
            have htyi := ty_eq_of_width env ti fi hw hti_ne hfi_ne
            have hinner : eval env (.app .ite [c, ti, fi]) = if cb then eval env ti else eval env fi := by
              rw [eval_app]
              simp only [evalList, applyOp, hcb]
              exact valIte_ty cb htyi hti_ne
            have hinner_ne : eval env (.app .ite [c, ti, fi]) ≠ .err := by
              rw [hinner]; cases cb <;> simp [hti_ne, hfi_ne]
            have hR : eval env (rec (mk .ite [c, ti, fi])) = if cb then eval env ti else eval env fi := by
              rw [hrec _ (by rw [hmk env _ _ hinner_ne]; exact hinner_ne), hmk env _ _ hinner_ne, hinner]
            have hspec := diffIndex_spec hidx hlen
            rw [hval]
            have hlist : evalList env (targs.set idx (rec (mk .ite [c, ti, fi]))) =
                evalList env (if cb then targs else fargs) := by
              rw [evalList_eq_map, evalList_eq_map]
              apply List.ext_getElem?
              intro j
              rw [List.getElem?_map, List.getElem?_map, List.getElem?_set]
              by_cases hj : idx = j
              · subst hj
                have hlt : idx < targs.length := by
                  rcases Nat.lt_or_ge idx targs.length with h1 | h1
                  · exact h1
                  · rw [List.getElem?_eq_none h1] at hti; cases hti
                simp only [if_true, hlt, Option.map_some, hR]
                cases cb
                · simp only [Bool.false_eq_true, if_false, hfi, Option.map_some]
                · simp only [if_true, hti, Option.map_some]
              · simp only [hj, if_false]
                cases cb
                · simp only [Bool.false_eq_true, if_false]
                  rw [hspec j (fun e => hj e.symm)]
                · rfl
            rw [eval_app, hlist]
            cases cb <;> simp [eval_app]
          · rfl
        · rfl
      · rfl
    · rfl
  · rfl

mutual
theorem burrow_sound (mk : Op → List Expr → Expr) (hmk : MkSound mk) (env : Env) :
    ∀ (fuel : Nat) (e : Expr), eval env e ≠ .err → eval env (burrow mk fuel e) = eval env e
  | 0, e, _ => by simp [burrow]
  | fuel + 1, .bvv _ _, _ => by simp [burrow]
  | fuel + 1, .bvs _ _, _ => by simp [burrow]
  | fuel + 1, .boolv _, _ => by simp [burrow]
  | fuel + 1, .bools _, _ => by simp [burrow]
  | fuel + 1, .app op args, h => by
    by_cases hop : op = .ite
    · subst hop
      match args, h with
      | [c, t, f], h =>
        have : burrow mk (fuel + 1) (.app .ite [c, t, f]) = burrowIte mk (burrow mk fuel) (.app .ite [c, t, f]) c t f := by
          rw [burrow]; simp
        rw [this]
        exact burrowIte_sound mk hmk env (burrow mk fuel) (fun e he => burrow_sound mk hmk env fuel e he) c t f h
      | [], h => exact absurd (by simp [eval, evalList, applyOp]) h
      | [_], h => exact absurd (by simp [eval, evalList, applyOp]) h
      | [_, _], h => exact absurd (by simp [eval, evalList, applyOp]) h
      | _ :: _ :: _ :: _ :: _, h => exact absurd (by simp [eval, evalList, applyOp]) h
    · have hargs := args_ne_err env op args h
      have : burrow mk (fuel + 1) (.app op args) = .app op (burrowList mk fuel args) := by
        unfold burrow; simp [hop]
      rw [this, eval_app, eval_app, burrowList_sound mk hmk env fuel args hargs]
theorem burrowList_sound (mk : Op → List Expr → Expr) (hmk : MkSound mk) (env : Env) :
    ∀ (fuel : Nat) (es : List Expr), (∀ a ∈ es, eval env a ≠ .err) → evalList env (burrowList mk fuel es) = evalList env es
  | _, [], _ => by simp [burrowList]
  | fuel, e :: es, h => by
    simp only [burrowList, evalList]
    rw [burrow_sound mk hmk env fuel e (h e (List.mem_cons_self ..)),
      burrowList_sound mk hmk env fuel es (fun a ha => h a (List.mem_cons_of_mem _ ha))]
end

end Claripy.AST

namespace Claripy.AST

/-! ### a rewriting constructor: the rule table applied at the root -/
theorem firstRule_sound (t r : Expr) (h : firstRule t = some r) (env : Env) (hwt : eval env t ≠ .err) : eval env r = eval env t := by
  unfold firstRule at h
  obtain ⟨p, _, hp⟩ := List.exists_of_findSome?_eq_some h
  obtain ⟨s, hs, hsp⟩ := List.exists_of_findSome?_eq_some hp
  split at hsp
  · rename_i hc
    simp only [Bool.and_eq_true, beq_iff_eq] at hc
    simp only [Option.some.injEq] at hsp
    subst hsp
    have := all_sound s hs p env hc.2 (by rw [hc.1]; exact hwt)
    rw [this, hc.1]
  · simp at hsp

/-- the rule-table constructor preserves the value of every well-typed node: C08's theorems apply to it -/
theorem mkSound_rules : MkSound mkRules := by
  intro env op args h
  unfold mkRules
  cases hr : firstRule (.app op args) with
  | none => rfl
  | some r => exact firstRule_sound _ r hr env h

theorem notSound_mkNotR : NotSound mkNotR := by
  intro env c b h
  have h1 := notSound_mkNot env c b h
  unfold mkNotR
  split
  · rename_i op args heq
    rw [heq] at h1
    rw [mkSound_rules env op args (by rw [h1]; simp), h1]
  · rename_i x hx
    exact h1

end Claripy.AST