import ClaripyProofs.Lemmas.AST.FoldSound
import ClaripyProofs.Lemmas.AST.RulesSound3
import ClaripyProofs.Lemmas.AST.ACNormSoundB
import ClaripyProofs.Lemmas.AST.BitsSound
import ClaripyProofs.Lemmas.AST.CmpSound
import ClaripyProofs.Lemmas.AST.AndEqNeSound
import ClaripyProofs.Lemmas.AST.MinMaxSound
import ClaripyProofs.Lemmas.AST.Typing
import ClaripyProofs.Lemmas.AST.WtOfEval
/-!
The constructor as a whole: an expression is *built* from the written tree bottom-up; at every node the constructor may keep
the node, fold it (all operands literals), rewrite it by a schema of the rule table, or rewrite it in a way one of the
certificate checks accepts — and the tree a rewrite writes down is itself built by the constructors, re-entrantly, to any depth.
`Built_sound`: whatever is built this way denotes what was written.
-/
namespace Claripy.AST
open Claripy.Props.C04 (WT)

/-- one justified step at the root of an already built node `t`: the node the rewriting code writes down next -/
inductive Direct : Expr → Expr → Prop
  | keep (t : Expr) : Direct t t
  | fold (op : Op) (args : List Expr) (vs : List CVal) (c : CVal) :
      args.mapM Expr.toCVal? = some vs → foldOp op vs = .ok c → Direct (.app op args) c.toExpr
  | schema (s : Schema) (p : P) : s ∈ R.all → s.side p = true → Direct (s.lhs p) (s.rhs p)
  | ac (k : ACK) (w : Nat) (t r : Expr) : t.width = some w → acEquiv k w t r = true → Direct t r
  | bc (k : BK) (args : List Expr) (r : Expr) : bcEquiv k (.app k.op args) r = true → Direct (.app k.op args) r
  | bits (t r : Expr) : bitsEquiv t r = true → Direct t r
  | cmp (t r : Expr) : cmpEquiv t r = true → Direct t r
  | andEqNe (args : List Expr) (r : Expr) : andEqNeAuto (.app .and args) r = true → Direct (.app .and args) r
  | minmax (t r : Expr) : minmaxEquiv t r = true → Direct t r

mutual
inductive Built : Expr → Expr → Prop
  | refl (e : Expr) : Built e e
  | node (op : Op) (as bs : List Expr) (t' r : Expr) :
      BuiltList as bs → Direct (.app op bs) t' → Built t' r → Built (.app op as) r
inductive BuiltList : List Expr → List Expr → Prop
  | nil : BuiltList [] []
  | cons (a b : Expr) (as bs : List Expr) : Built a b → BuiltList as bs → BuiltList (a :: as) (b :: bs)
end

theorem mapM_toCVal (env : Env) : ∀ (args : List Expr) (vs : List CVal), args.mapM Expr.toCVal? = some vs →
    (∀ a ∈ args, eval env a ≠ .err) → evalList env args = vs.map CVal.toVal ∧ ∀ v ∈ vs, v.Canon := by
  intro args
  induction args with
  | nil =>
    intro vs h _
    simp only [List.mapM_nil, Option.pure_def, Option.some.injEq] at h
    subst h
    exact ⟨rfl, by simp⟩
  | cons a as ih =>
    intro vs h hne
    simp only [List.mapM_cons, Option.bind_eq_bind, Option.pure_def] at h
    cases ha : a.toCVal? with
    | none => simp [ha] at h
    | some v =>
      cases hr : as.mapM Expr.toCVal? with
      | none => simp [ha, hr] at h
      | some vs' =>
        simp only [ha, hr, Option.bind_some, Option.some.injEq] at h
        subst h
        obtain ⟨i1, i2⟩ := ih vs' hr (fun x hx => hne x (List.mem_cons_of_mem _ hx))
        have hea := hne a (List.mem_cons_self ..)
        have hv : eval env a = v.toVal ∧ v.Canon := by
          cases a with
          | bvv x w =>
            simp only [Expr.toCVal?, Option.some.injEq] at ha
            subst ha
            simp only [eval] at hea ⊢
            split
            · exact ⟨rfl, Nat.mod_lt _ (Nat.two_pow_pos w)⟩
            · rename_i hw; simp [hw] at hea
          | boolv b =>
            simp only [Expr.toCVal?, Option.some.injEq] at ha
            subst ha
            exact ⟨by simp [eval, CVal.toVal], trivial⟩
          | bvs _ _ => simp [Expr.toCVal?] at ha
          | bools _ => simp [Expr.toCVal?] at ha
          | app _ _ => simp [Expr.toCVal?] at ha
        refine ⟨by simp only [evalList, List.map_cons, hv.1, i1], ?_⟩
        intro u hu
        simp only [List.mem_cons] at hu
        rcases hu with rfl | hu
        · exact hv.2
        · exact i2 u hu

theorem boolNode_not_bv (env : Env) (k : BK) (args : List Expr) (w n : Nat) : eval env (.app k.op args) ≠ .bv w n := by
  rw [eval_app]
  cases hvs : evalList env args with
  | nil => cases k <;> simp [BK.op, applyOp]
  | cons v vs =>
    cases k <;> simp only [BK.op, applyOp] <;>
      exact Claripy.Props.C05.foldl_boolBin_not_bv _ _ _ (fun m => by simp)

theorem boolNF_not_bv (env : Env) (t : Expr) (x : BoolNF) (tl : List Expr) (h : boolNF t = some (x, tl)) (w n : Nat) :
    eval env t ≠ .bv w n := by
  unfold boolNF at h
  split at h
  · simp [eval]
  · rw [eval_app]; simp only [evalList, applyOp]; exact Claripy.Props.C05.valEq_not_bv _ _
  · rw [eval_app]; simp only [evalList, applyOp]; exact Claripy.Props.C05.valNot_not_bv _
  · simp at h

theorem minmax_not_bool (env : Env) (t r : Expr) (h : minmaxEquiv t r = true) (b : Bool) : eval env t ≠ .bool b := by
  unfold minmaxEquiv at h
  split at h
  · split at h
    · rename_i q r' a b' wq _
      simp only [Bool.or_eq_true, Bool.and_eq_true] at h
      rcases h with ⟨_, hc⟩ | ⟨_, hc⟩ <;>
      · rw [eqModComm_sound env t _ hc]
        simp only [maxCanon, minCanon, idiomTail, eval_app, evalList_cons, evalList_nil, applyOp, foldVals, List.foldl]
        exact bvBin_ne_bool _ _ _ _
    · simp at h
  · simp at h

/-- a justified step preserves the value of a well-typed node -/
theorem Direct_sound {t r : Expr} (h : Direct t r) (env : Env) (hwt : eval env t ≠ .err) : eval env r = eval env t := by
  cases h with
  | keep => rfl
  | fold op args vs c hm hf =>
    have hargs : ∀ a ∈ args, eval env a ≠ .err := by
      intro a ha hea
      apply hwt
      rw [eval_app]
      apply applyOp_strict
      rw [evalList_eq_map, ← hea]
      exact List.mem_map_of_mem ha
    obtain ⟨hev, hcanon⟩ := mapM_toCVal env args vs hm hargs
    have hwtv : WT op vs := wt_of_ne_err op vs (by rw [← hev, ← eval_app]; exact hwt) c hf
    have hs := foldOp_sound op (by cases op <;> rfl) vs hwtv hcanon c hf
    rw [eval_app, hev, hs] at hwt ⊢
    -- the folded constant evaluates to its value (its width is positive because the node is well-typed)
    cases c with
    | bool b => simp [CVal.toExpr, eval, CVal.toVal]
    | bv v w =>
      have hwf : (CVal.bv v w).toVal.WF := by rw [← hs]; exact applyOp_wf op _ (by
        intro u hu
        simp only [List.mem_map] at hu
        obtain ⟨cv, hcv, rfl⟩ := hu
        have := hcanon cv hcv
        cases cv with
        | bool b => trivial
        | bv x wx =>
          -- widths of literal operands are positive: the operand evaluated to a non-error value
          have hmem : Val.bv wx x ∈ evalList env args := by rw [hev]; exact List.mem_map_of_mem hcv
          rw [evalList_eq_map] at hmem
          obtain ⟨a, ha, hae⟩ := List.mem_map.mp hmem
          have := eval_wf env a
          rw [hae] at this
          exact this)
      simp only [CVal.toVal, Val.WF] at hwf
      simp [CVal.toExpr, eval, CVal.toVal, hwf.2, Nat.mod_eq_of_lt hwf.1]
  | schema s p hs hside => exact all_sound s hs p env hside hwt
  | ac k w t r hw hac =>
    cases hv : eval env t with
    | err => exact absurd hv hwt
    | bool b =>
      -- an AC node never denotes a Boolean when it reports a width
      have := eval_bool_width env t b hv
      rw [hw] at this; cases this
    | bv w' n =>
      have := Claripy.Props.C05.eval_width env t w' n hv
      rw [hw] at this
      cases this
      rw [← hv]; exact acEquiv_sound k w t r hac env n hv
  | bc k args r hbc =>
    cases hv : eval env (.app k.op args) with
    | err => exact absurd hv hwt
    | bv w n => exact absurd hv (boolNode_not_bv env k args w n)
    | bool b => rw [← hv]; exact bcEquiv_sound k _ r hbc env b hv
  | bits t r hb =>
    cases hv : eval env t with
    | err => exact absurd hv hwt
    | bool b =>
      exfalso
      unfold bitsEquiv at hb
      split at hb
      · rename_i a _ ha _
        exact bits_some_not_bool env t a ha b hv
      · simp at hb
    | bv w n => rw [← hv]; exact bitsEquiv_sound t r hb env w n hv
  | cmp t r hc =>
    cases hv : eval env t with
    | err => exact absurd hv hwt
    | bv w n =>
      exfalso
      unfold cmpEquiv at hc
      split at hc
      · rename_i x tl _ _ hx _
        exact boolNF_not_bv env t x tl hx w n hv
      · simp at hc
    | bool b => rw [← hv]; exact cmpEquiv_sound t r hc env b hv
  | andEqNe args r ha =>
    cases hv : eval env (.app .and args) with
    | err => exact absurd hv hwt
    | bv w n => exact absurd hv (boolNode_not_bv env .and args w n)
    | bool b => rw [← hv]; exact andEqNeAuto_sound _ r ha env b hv
  | minmax t r hm =>
    cases hv : eval env t with
    | err => exact absurd hv hwt
    | bool b => exact absurd hv (minmax_not_bool env t r hm b)
    | bv w n => rw [← hv]; exact minmaxEquiv_sound t r hm env w n hv

mutual
/-- **whatever the constructor builds denotes what was written** (any depth, any number of re-entrant rewrites) -/
theorem Built_sound (env : Env) : ∀ {t r : Expr}, Built t r → eval env t ≠ .err → eval env r = eval env t
  | _, _, .refl _, _ => rfl
  | _, _, .node op as bs t' r hl hd hb, hwt => by
    have hargs : ∀ a ∈ as, eval env a ≠ .err := by
      intro a ha hea
      apply hwt
      rw [eval_app]
      apply applyOp_strict
      rw [evalList_eq_map, ← hea]
      exact List.mem_map_of_mem ha
    have hlist := BuiltList_sound env hl hargs
    have h1 : eval env (.app op bs) = eval env (.app op as) := by rw [eval_app, eval_app, hlist]
    have h2 := Direct_sound hd env (by rw [h1]; exact hwt)
    have h3 := Built_sound env hb (by rw [h2, h1]; exact hwt)
    rw [h3, h2, h1]
theorem BuiltList_sound (env : Env) : ∀ {as bs : List Expr}, BuiltList as bs → (∀ a ∈ as, eval env a ≠ .err) →
    evalList env bs = evalList env as
  | _, _, .nil, _ => rfl
  | _, _, .cons a b as bs hb hl, h => by
    simp only [evalList]
    rw [Built_sound env hb (h a (List.mem_cons_self ..)), BuiltList_sound env hl (fun x hx => h x (List.mem_cons_of_mem _ hx))]
end

end Claripy.AST
