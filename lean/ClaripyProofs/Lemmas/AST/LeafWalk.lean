import Claripy.AST.Subst
import ClaripyProofs.Lemmas.AST.Beq
/-!
`leafAsts e` (the model of `leaf_asts()`: an explicit stack, de-duplication by a seen-list, a fuel bound) reaches every leaf
of `e`: the fuel `2 * nodes + 2` is never exhausted, and the walk is a complete traversal.
-/
namespace Claripy.AST

def Expr.isLeaf : Expr → Bool
  | .app _ _ => false
  | _ => true

mutual
/-- the expression and all its sub-expressions -/
def Expr.subs : Expr → List Expr
  | .app op args => .app op args :: Expr.subsList args
  | e => [e]
def Expr.subsList : List Expr → List Expr
  | [] => []
  | e :: es => e.subs ++ Expr.subsList es
end

theorem nodesList_append (a b : List Expr) : Expr.nodesList (a ++ b) = Expr.nodesList a + Expr.nodesList b := by
  induction a with
  | nil => simp [Expr.nodesList]
  | cons x xs ih => simp only [List.cons_append, Expr.nodesList, ih]; omega

theorem nodesList_reverse (a : List Expr) : Expr.nodesList a.reverse = Expr.nodesList a := by
  induction a with
  | nil => rfl
  | cons x xs ih => simp only [List.reverse_cons, nodesList_append, Expr.nodesList, ih]; omega

theorem nodes_pos (e : Expr) : 0 < e.nodes := by
  cases e <;> simp [Expr.nodes] <;> omega

/-- the traversal invariant -/
structure WalkInv (root : Expr) (stack seen acc : List Expr) : Prop where
  kids : ∀ op args, Expr.app op args ∈ seen → ∀ a ∈ args, a ∈ seen ∨ a ∈ stack
  leaves : ∀ s ∈ seen, s.isLeaf = true → s ∈ acc
  root : root ∈ seen ∨ root ∈ stack

theorem any_beq_iff (seen : List Expr) (e : Expr) : (seen.any (· == e)) = true ↔ e ∈ seen := by
  simp only [List.any_eq_true, beq_iff_eq]
  constructor
  · rintro ⟨x, hx, rfl⟩; exact hx
  · intro h; exact ⟨e, h, rfl⟩

mutual
/-- when nothing is left on the stack, everything below a seen node has been collected -/
theorem closed_leaves (seen acc : List Expr) (hk : ∀ op args, Expr.app op args ∈ seen → ∀ a ∈ args, a ∈ seen)
    (hl : ∀ s ∈ seen, s.isLeaf = true → s ∈ acc) :
    ∀ (e : Expr), e ∈ seen → ∀ l ∈ e.subs, l.isLeaf = true → l ∈ acc
  | .app op args, he, l, hlm, hleaf => by
    simp only [Expr.subs, List.mem_cons] at hlm
    rcases hlm with rfl | hlm
    · simp [Expr.isLeaf] at hleaf
    · exact closed_leavesList seen acc hk hl args (hk op args he) l hlm hleaf
  | .bvv v w, he, l, hlm, hleaf => by
    simp only [Expr.subs, List.mem_singleton] at hlm; subst hlm; exact hl _ he hleaf
  | .bvs n w, he, l, hlm, hleaf => by
    simp only [Expr.subs, List.mem_singleton] at hlm; subst hlm; exact hl _ he hleaf
  | .boolv b, he, l, hlm, hleaf => by
    simp only [Expr.subs, List.mem_singleton] at hlm; subst hlm; exact hl _ he hleaf
  | .bools n, he, l, hlm, hleaf => by
    simp only [Expr.subs, List.mem_singleton] at hlm; subst hlm; exact hl _ he hleaf
theorem closed_leavesList (seen acc : List Expr) (hk : ∀ op args, Expr.app op args ∈ seen → ∀ a ∈ args, a ∈ seen)
    (hl : ∀ s ∈ seen, s.isLeaf = true → s ∈ acc) :
    ∀ (es : List Expr), (∀ a ∈ es, a ∈ seen) → ∀ l ∈ Expr.subsList es, l.isLeaf = true → l ∈ acc
  | [], _, l, hlm, _ => by simp [Expr.subsList] at hlm
  | e :: es, hes, l, hlm, hleaf => by
    simp only [Expr.subsList, List.mem_append] at hlm
    rcases hlm with hlm | hlm
    · exact closed_leaves seen acc hk hl e (hes e (by simp)) l hlm hleaf
    · exact closed_leavesList seen acc hk hl es (fun a ha => hes a (List.mem_cons_of_mem _ ha)) l hlm hleaf
end

theorem leafWalk_complete (root : Expr) : ∀ (fuel : Nat) (stack seen acc : List Expr),
    Expr.nodesList stack < fuel → WalkInv root stack seen acc →
    ∀ l ∈ root.subs, l.isLeaf = true → l ∈ leafWalk fuel stack seen acc
  | 0, _, _, _, hf, _ => by omega
  | fuel + 1, [], seen, acc, _, inv => by
    intro l hl hleaf
    simp only [leafWalk, List.mem_reverse]
    have hroot : root ∈ seen := by
      rcases inv.root with h | h
      · exact h
      · simp at h
    exact closed_leaves seen acc (fun op args h a ha => by
      rcases inv.kids op args h a ha with h' | h'
      · exact h'
      · simp at h') inv.leaves root hroot l hl hleaf
  | fuel + 1, e :: stack, seen, acc, hf, inv => by
    intro l hl hleaf
    simp only [Expr.nodesList] at hf
    have hpos := nodes_pos e
    unfold leafWalk
    by_cases hs : (seen.any (· == e)) = true
    · simp only [hs, if_true]
      have hmem := (any_beq_iff seen e).mp hs
      refine leafWalk_complete root fuel stack seen acc (by omega) ⟨?_, inv.leaves, ?_⟩ l hl hleaf
      · intro op args h a ha
        rcases inv.kids op args h a ha with h' | h'
        · exact Or.inl h'
        · rcases List.mem_cons.mp h' with rfl | h''
          · exact Or.inl hmem
          · exact Or.inr h''
      · rcases inv.root with h | h
        · exact Or.inl h
        · rcases List.mem_cons.mp h with rfl | h''
          · exact Or.inl hmem
          · exact Or.inr h''
    · simp only [hs, Bool.false_eq_true, if_false]
      cases e with
      | app op args =>
        simp only
        refine leafWalk_complete root fuel (args.reverse ++ stack) (.app op args :: seen) acc ?_ ⟨?_, ?_, ?_⟩ l hl hleaf
        · rw [nodesList_append, nodesList_reverse]
          simp only [Expr.nodes] at hf
          omega
        · intro op' args' h a ha
          rcases List.mem_cons.mp h with heq | h
          · cases heq
            exact Or.inr (List.mem_append_left _ (List.mem_reverse.mpr ha))
          · rcases inv.kids op' args' h a ha with h' | h'
            · exact Or.inl (List.mem_cons_of_mem _ h')
            · rcases List.mem_cons.mp h' with rfl | h''
              · exact Or.inl (by simp)
              · exact Or.inr (List.mem_append_right _ h'')
        · intro s hs' hleaf'
          rcases List.mem_cons.mp hs' with rfl | hs'
          · simp [Expr.isLeaf] at hleaf'
          · exact inv.leaves s hs' hleaf'
        · rcases inv.root with h | h
          · exact Or.inl (List.mem_cons_of_mem _ h)
          · rcases List.mem_cons.mp h with rfl | h''
            · exact Or.inl (by simp)
            · exact Or.inr (List.mem_append_right _ h'')
      | bvv v w => exact leaf_step root fuel (.bvv v w) stack seen acc rfl (by omega) inv (leafWalk_complete root fuel) l hl hleaf
      | bvs n w => exact leaf_step root fuel (.bvs n w) stack seen acc rfl (by omega) inv (leafWalk_complete root fuel) l hl hleaf
      | boolv b => exact leaf_step root fuel (.boolv b) stack seen acc rfl (by omega) inv (leafWalk_complete root fuel) l hl hleaf
      | bools n => exact leaf_step root fuel (.bools n) stack seen acc rfl (by omega) inv (leafWalk_complete root fuel) l hl hleaf
where
  leaf_step (root : Expr) (fuel : Nat) (e : Expr) (stack seen acc : List Expr) (he : e.isLeaf = true)
      (hf : Expr.nodesList stack < fuel) (inv : WalkInv root (e :: stack) seen acc)
      (ih : ∀ (stack seen acc : List Expr), Expr.nodesList stack < fuel → WalkInv root stack seen acc →
        ∀ l ∈ root.subs, l.isLeaf = true → l ∈ leafWalk fuel stack seen acc)
      (l : Expr) (hl : l ∈ root.subs) (hleaf : l.isLeaf = true) :
      l ∈ leafWalk fuel stack (e :: seen) (e :: acc) := by
    refine ih stack (e :: seen) (e :: acc) hf ⟨?_, ?_, ?_⟩ l hl hleaf
    · intro op args h a ha
      rcases List.mem_cons.mp h with heq | h
      · rw [← heq] at he; simp [Expr.isLeaf] at he
      · rcases inv.kids op args h a ha with h' | h'
        · exact Or.inl (List.mem_cons_of_mem _ h')
        · rcases List.mem_cons.mp h' with rfl | h''
          · exact Or.inl (by simp)
          · exact Or.inr h''
    · intro s hs' hleaf'
      rcases List.mem_cons.mp hs' with rfl | hs'
      · simp
      · exact List.mem_cons_of_mem _ (inv.leaves s hs' hleaf')
    · rcases inv.root with h | h
      · exact Or.inl (List.mem_cons_of_mem _ h)
      · rcases List.mem_cons.mp h with rfl | h''
        · exact Or.inl (by simp)
        · exact Or.inr h''

/-- **every leaf of the expression is among `leafAsts`** -/
theorem leafAsts_complete (e : Expr) (l : Expr) (hl : l ∈ e.subs) (hleaf : l.isLeaf = true) : l ∈ leafAsts e := by
  unfold leafAsts
  refine leafWalk_complete e _ [e] [] [] ?_ ⟨?_, ?_, Or.inr (by simp)⟩ l hl hleaf
  · simp only [Expr.nodesList]; omega
  · intro op args h; simp at h
  · intro s h; simp at h

end Claripy.AST
