import ClaripyProofs.Lemmas.AST.FoldSound
/-!
A constant node whose denotation is not an error is well-typed in the sense of `Claripy.Props.C04.WT` (the shape premise of
the folding theorems): the premise of `foldOp_sound` follows from the well-typedness of the written tree.
-/
namespace Claripy.AST
open Claripy.Props.C04 (WT allBV)

theorem bvBin_ne_err_cv (f) (a b : CVal) (h : bvBin f a.toVal b.toVal ≠ .err) : ∃ w x y, 0 < w ∧ a = .bv x w ∧ b = .bv y w := by
  cases a with
  | bool _ => simp [CVal.toVal] at h
  | bv x w =>
    cases b with
    | bool _ => simp [CVal.toVal] at h
    | bv y w' =>
      simp only [CVal.toVal, bvBin] at h
      split at h
      · rename_i hc; obtain ⟨rfl, hw⟩ := hc; exact ⟨w, x, y, hw, rfl, rfl⟩
      · exact absurd rfl h

theorem bvCmp_ne_err_cv (f) (a b : CVal) (h : bvCmp f a.toVal b.toVal ≠ .err) : ∃ w x y, 0 < w ∧ a = .bv x w ∧ b = .bv y w := by
  cases a with
  | bool _ => simp [CVal.toVal] at h
  | bv x w =>
    cases b with
    | bool _ => simp [CVal.toVal] at h
    | bv y w' =>
      simp only [CVal.toVal, bvCmp] at h
      split at h
      · rename_i hc; obtain ⟨rfl, hw⟩ := hc; exact ⟨w, x, y, hw, rfl, rfl⟩
      · exact absurd rfl h

theorem bvUn_ne_err_cv (f) (a : CVal) (h : bvUn f a.toVal ≠ .err) : ∃ w x, 0 < w ∧ a = .bv x w := by
  cases a with
  | bool _ => simp [CVal.toVal] at h
  | bv x w =>
    simp only [CVal.toVal, bvUn] at h
    split at h
    · rename_i hw; exact ⟨w, x, hw, rfl⟩
    · exact absurd rfl h

theorem foldl_bvBin_err' (f) (l : List Val) : l.foldl (bvBin f) .err = .err := by
  induction l with
  | nil => rfl
  | cons b l ihl => simpa [List.foldl] using ihl

theorem foldl_bvBin_ne_err_cv (f) (w : Nat) (hw : 0 < w) : ∀ (vs : List CVal) (n : Nat),
    (vs.map CVal.toVal).foldl (bvBin f) (.bv w n) ≠ .err → allBV w vs := by
  intro vs
  induction vs with
  | nil => intro n _ v hv; simp at hv
  | cons v vs ih =>
    intro n h
    simp only [List.map_cons, List.foldl] at h
    have hne : bvBin f (CVal.bv n w).toVal v.toVal ≠ .err := by
      intro hc
      have hc' : bvBin f (.bv w n) v.toVal = .err := hc
      rw [hc', foldl_bvBin_err'] at h
      exact h rfl
    obtain ⟨w1, x, y, _, ha, hb⟩ := bvBin_ne_err_cv f (.bv n w) v hne
    simp only [CVal.bv.injEq] at ha
    obtain ⟨rfl, rfl⟩ := ha
    subst hb
    have hstep : bvBin f (.bv w n) (CVal.bv y w).toVal = .bv w (f w (BitVec.ofNat w n) (BitVec.ofNat w y)).toNat := by
      simp [bvBin, CVal.toVal, hw]
    rw [hstep] at h
    have := ih _ h
    intro u hu
    simp only [List.mem_cons] at hu
    rcases hu with rfl | hu
    · exact ⟨y, rfl⟩
    · exact this u hu

theorem nary_wt (f) (vs : List CVal) (h : foldVals (bvBin f) (vs.map CVal.toVal) ≠ .err) (hlen : 2 ≤ vs.length) :
    ∃ w, 0 < w ∧ 2 ≤ vs.length ∧ allBV w vs := by
  match vs, hlen with
  | a :: b :: rest, _ =>
    simp only [List.map_cons, foldVals, List.foldl] at h
    have hne : bvBin f a.toVal b.toVal ≠ .err := by
      intro hc; rw [hc, foldl_bvBin_err'] at h; exact h rfl
    obtain ⟨w, x, y, hw, rfl, rfl⟩ := bvBin_ne_err_cv f a b hne
    have hstep : bvBin f (CVal.bv x w).toVal (CVal.bv y w).toVal = .bv w (f w (BitVec.ofNat w x) (BitVec.ofNat w y)).toNat := by
      simp [bvBin, CVal.toVal, hw]
    rw [hstep] at h
    have := foldl_bvBin_ne_err_cv f w hw rest _ h
    refine ⟨w, hw, by simp, ?_⟩
    intro u hu
    simp only [List.mem_cons] at hu
    rcases hu with rfl | rfl | hu
    · exact ⟨x, rfl⟩
    · exact ⟨y, rfl⟩
    · exact this u hu

theorem foldl_valConcat_err' (l : List Val) : l.foldl valConcat .err = .err := by
  induction l with
  | nil => rfl
  | cons b l ihl => simpa [List.foldl, valConcat] using ihl

theorem concat_wt : ∀ (vs : List CVal) (acc : Val), (vs.map CVal.toVal).foldl valConcat acc ≠ .err →
    ∀ v ∈ vs, ∃ x w, v = .bv x w := by
  intro vs
  induction vs with
  | nil => intro _ _ v hv; simp at hv
  | cons v vs ih =>
    intro acc h u hu
    simp only [List.map_cons, List.foldl] at h
    cases v with
    | bool b =>
      exfalso
      have : valConcat acc (CVal.bool b).toVal = .err := by cases acc <;> rfl
      rw [this, foldl_valConcat_err'] at h
      exact h rfl
    | bv x w =>
      simp only [List.mem_cons] at hu
      rcases hu with rfl | hu
      · exact ⟨x, w, rfl⟩
      · exact ih _ h u hu

theorem foldl_boolBin_err' (f) (l : List Val) : l.foldl (boolBin f) .err = .err := by
  induction l with
  | nil => rfl
  | cons b l ihl => simpa [List.foldl] using ihl

theorem bools_wt (f) : ∀ (vs : List CVal) (acc : Val), (vs.map CVal.toVal).foldl (boolBin f) acc ≠ .err →
    ∀ v ∈ vs, ∃ b, v = .bool b := by
  intro vs
  induction vs with
  | nil => intro _ _ v hv; simp at hv
  | cons v vs ih =>
    intro acc h u hu
    simp only [List.map_cons, List.foldl] at h
    cases v with
    | bv x w =>
      exfalso
      have : boolBin f acc (CVal.bv x w).toVal = .err := by cases acc <;> rfl
      rw [this, foldl_boolBin_err'] at h
      exact h rfl
    | bool b =>
      simp only [List.mem_cons] at hu
      rcases hu with rfl | hu
      · exact ⟨b, rfl⟩
      · exact ih _ h u hu

end Claripy.AST

namespace Claripy.AST
open Claripy.Props.C04 (WT allBV)

theorem wt_nary (op : Op) (f) (hop : ∀ a b l, applyOp op (a :: b :: l) = foldVals (bvBin f) (a :: b :: l))
    (h0 : applyOp op [] = .err) (h1 : ∀ a, applyOp op [a] = .err) (vs : List CVal)
    (h : applyOp op (vs.map CVal.toVal) ≠ .err) : ∃ w, 0 < w ∧ 2 ≤ vs.length ∧ allBV w vs := by
  match vs, h with
  | [], h => exact absurd h0 h
  | [a], h => exact absurd (h1 _) h
  | a :: b :: rest, h =>
    rw [List.map_cons, List.map_cons, hop] at h
    exact nary_wt f (a :: b :: rest) (by simpa using h) (by simp)

theorem wt_bin (op : Op) (f) (hop : ∀ a b, applyOp op [a, b] = bvBin f a b)
    (h0 : applyOp op [] = .err) (h1 : ∀ a, applyOp op [a] = .err) (h3 : ∀ a b c l, applyOp op (a :: b :: c :: l) = .err)
    (vs : List CVal) (h : applyOp op (vs.map CVal.toVal) ≠ .err) : ∃ w x y, 0 < w ∧ vs = [.bv x w, .bv y w] := by
  match vs, h with
  | [], h => exact absurd h0 h
  | [a], h => exact absurd (h1 _) h
  | [a, b], h =>
    simp only [List.map_cons, List.map_nil, hop] at h
    obtain ⟨w, x, y, hw, rfl, rfl⟩ := bvBin_ne_err_cv f a b h
    exact ⟨w, x, y, hw, rfl⟩
  | a :: b :: c :: l, h => exact absurd (h3 _ _ _ _) h

theorem wt_cmp (op : Op) (f) (hop : ∀ a b, applyOp op [a, b] = bvCmp f a b)
    (h0 : applyOp op [] = .err) (h1 : ∀ a, applyOp op [a] = .err) (h3 : ∀ a b c l, applyOp op (a :: b :: c :: l) = .err)
    (vs : List CVal) (h : applyOp op (vs.map CVal.toVal) ≠ .err) : ∃ w x y, 0 < w ∧ vs = [.bv x w, .bv y w] := by
  match vs, h with
  | [], h => exact absurd h0 h
  | [a], h => exact absurd (h1 _) h
  | [a, b], h =>
    simp only [List.map_cons, List.map_nil, hop] at h
    obtain ⟨w, x, y, hw, rfl, rfl⟩ := bvCmp_ne_err_cv f a b h
    exact ⟨w, x, y, hw, rfl⟩
  | a :: b :: c :: l, h => exact absurd (h3 _ _ _ _) h

theorem wt_un (op : Op) (f) (hop : ∀ a, applyOp op [a] = bvUn f a)
    (h0 : applyOp op [] = .err) (h2 : ∀ a b l, applyOp op (a :: b :: l) = .err)
    (vs : List CVal) (h : applyOp op (vs.map CVal.toVal) ≠ .err) : ∃ w x, 0 < w ∧ vs = [.bv x w] := by
  match vs, h with
  | [], h => exact absurd h0 h
  | [a], h =>
    simp only [List.map_cons, List.map_nil, hop] at h
    obtain ⟨w, x, hw, rfl⟩ := bvUn_ne_err_cv f a h
    exact ⟨w, x, hw, rfl⟩
  | a :: b :: l, h => exact absurd (h2 _ _ _) h

theorem valEq_wt (a b : CVal) (h : valEq a.toVal b.toVal ≠ .err) :
    (∃ w x y, 0 < w ∧ [a, b] = [CVal.bv x w, .bv y w]) ∨ (∃ p q, [a, b] = [CVal.bool p, .bool q]) := by
  cases a with
  | bool p =>
    cases b with
    | bool q => exact Or.inr ⟨p, q, rfl⟩
    | bv y w => simp [CVal.toVal, valEq] at h
  | bv x w =>
    cases b with
    | bool q => simp [CVal.toVal, valEq] at h
    | bv y w' =>
      simp only [CVal.toVal, valEq] at h
      split at h
      · rename_i hc; obtain ⟨rfl, hw⟩ := hc; exact Or.inl ⟨w, x, y, hw, rfl⟩
      · exact absurd rfl h

/-- **a constant node that denotes a value (and that folding accepts) is well-typed** -/
theorem wt_of_ne_err (op : Op) (vs : List CVal) (h : applyOp op (vs.map CVal.toVal) ≠ .err) (c : CVal) (hf : foldOp op vs = .ok c) :
    WT op vs := by
  cases op with
  | add => exact wt_nary .add _ (fun _ _ _ => rfl) rfl (fun _ => rfl) vs h
  | mul => exact wt_nary .mul _ (fun _ _ _ => rfl) rfl (fun _ => rfl) vs h
  | band => exact wt_nary .band _ (fun _ _ _ => rfl) rfl (fun _ => rfl) vs h
  | bor => exact wt_nary .bor _ (fun _ _ _ => rfl) rfl (fun _ => rfl) vs h
  | bxor => exact wt_nary .bxor _ (fun _ _ _ => rfl) rfl (fun _ => rfl) vs h
  | sub => exact wt_bin .sub _ (fun _ _ => rfl) rfl (fun _ => rfl) (fun _ _ _ _ => rfl) vs h
  | udiv => exact wt_bin .udiv _ (fun _ _ => rfl) rfl (fun _ => rfl) (fun _ _ _ _ => rfl) vs h
  | umod => exact wt_bin .umod _ (fun _ _ => rfl) rfl (fun _ => rfl) (fun _ _ _ _ => rfl) vs h
  | sdiv => exact wt_bin .sdiv _ (fun _ _ => rfl) rfl (fun _ => rfl) (fun _ _ _ _ => rfl) vs h
  | smod => exact wt_bin .smod _ (fun _ _ => rfl) rfl (fun _ => rfl) (fun _ _ _ _ => rfl) vs h
  | shl => exact wt_bin .shl _ (fun _ _ => rfl) rfl (fun _ => rfl) (fun _ _ _ _ => rfl) vs h
  | ashr => exact wt_bin .ashr _ (fun _ _ => rfl) rfl (fun _ => rfl) (fun _ _ _ _ => rfl) vs h
  | lshr => exact wt_bin .lshr _ (fun _ _ => rfl) rfl (fun _ => rfl) (fun _ _ _ _ => rfl) vs h
  | rotl => exact wt_bin .rotl (fun _ x y => x.rotateLeft y.toNat) (fun _ _ => rfl) rfl (fun _ => rfl) (fun _ _ _ _ => rfl) vs h
  | rotr => exact wt_bin .rotr (fun _ x y => x.rotateRight y.toNat) (fun _ _ => rfl) rfl (fun _ => rfl) (fun _ _ _ _ => rfl) vs h
  | ult => exact wt_cmp .ult _ (fun _ _ => rfl) rfl (fun _ => rfl) (fun _ _ _ _ => rfl) vs h
  | ule => exact wt_cmp .ule _ (fun _ _ => rfl) rfl (fun _ => rfl) (fun _ _ _ _ => rfl) vs h
  | ugt => exact wt_cmp .ugt (fun _ x y => BitVec.ult y x) (fun _ _ => rfl) rfl (fun _ => rfl) (fun _ _ _ _ => rfl) vs h
  | uge => exact wt_cmp .uge (fun _ x y => BitVec.ule y x) (fun _ _ => rfl) rfl (fun _ => rfl) (fun _ _ _ _ => rfl) vs h
  | slt => exact wt_cmp .slt _ (fun _ _ => rfl) rfl (fun _ => rfl) (fun _ _ _ _ => rfl) vs h
  | sle => exact wt_cmp .sle _ (fun _ _ => rfl) rfl (fun _ => rfl) (fun _ _ _ _ => rfl) vs h
  | sgt => exact wt_cmp .sgt (fun _ x y => BitVec.slt y x) (fun _ _ => rfl) rfl (fun _ => rfl) (fun _ _ _ _ => rfl) vs h
  | sge => exact wt_cmp .sge (fun _ x y => BitVec.sle y x) (fun _ _ => rfl) rfl (fun _ => rfl) (fun _ _ _ _ => rfl) vs h
  | bnot => exact wt_un .bnot _ (fun _ => rfl) rfl (fun _ _ _ => rfl) vs h
  | neg => exact wt_un .neg _ (fun _ => rfl) rfl (fun _ _ _ => rfl) vs h
  | eq =>
    match vs, h with
    | [], h => exact absurd rfl h
    | [a], h => exact absurd rfl h
    | [a, b], h => exact valEq_wt a b (by simpa [applyOp] using h)
    | a :: b :: c :: l, h => exact absurd rfl h
  | ne =>
    match vs, h with
    | [], h => exact absurd rfl h
    | [a], h => exact absurd rfl h
    | [a, b], h =>
      refine valEq_wt a b ?_
      intro hc
      apply h
      simp [applyOp, hc]
    | a :: b :: c :: l, h => exact absurd rfl h
  | reverse =>
    match vs, h with
    | [], h => exact absurd rfl h
    | [a], h =>
      cases a with
      | bool b => simp [applyOp, CVal.toVal, valReverse] at h
      | bv x w =>
        simp only [List.map_cons, List.map_nil, applyOp, CVal.toVal, valReverse] at h
        split at h
        · rename_i hc; exact ⟨w, x, hc.2, rfl⟩
        · exact absurd rfl h
    | a :: b :: l, h => exact absurd rfl h
  | extract hi lo =>
    match vs, h with
    | [], h => exact absurd rfl h
    | [a], h =>
      cases a with
      | bool b => simp [applyOp, CVal.toVal] at h
      | bv x w =>
        simp only [List.map_cons, List.map_nil, applyOp, CVal.toVal] at h
        split at h
        · rename_i hc; exact ⟨w, x, hc.1, hc.2, rfl⟩
        · exact absurd rfl h
    | a :: b :: l, h => cases a <;> simp [applyOp, CVal.toVal] at h
  | zeroExt k =>
    match vs, h with
    | [], h => exact absurd rfl h
    | [a], h =>
      cases a with
      | bool b => simp [applyOp, CVal.toVal] at h
      | bv x w =>
        simp only [List.map_cons, List.map_nil, applyOp, CVal.toVal] at h
        split at h
        · rename_i hc; exact ⟨w, x, hc, rfl⟩
        · exact absurd rfl h
    | a :: b :: l, h => cases a <;> simp [applyOp, CVal.toVal] at h
  | signExt k =>
    match vs, h with
    | [], h => exact absurd rfl h
    | [a], h =>
      cases a with
      | bool b => simp [applyOp, CVal.toVal] at h
      | bv x w =>
        simp only [List.map_cons, List.map_nil, applyOp, CVal.toVal] at h
        split at h
        · rename_i hc; exact ⟨w, x, hc, rfl⟩
        · exact absurd rfl h
    | a :: b :: l, h => cases a <;> simp [applyOp, CVal.toVal] at h
  | concat =>
    match vs, h with
    | [], h => exact absurd rfl h
    | a :: rest, h =>
      refine ⟨by simp, ?_⟩
      simp only [List.map_cons, applyOp, foldVals] at h
      cases a with
      | bool b =>
        cases rest with
        | nil =>
          -- `Concat` of one Boolean: the denotation passes it through, but folding rejects it
          simp [foldOp, pairOf, List.filterMap] at hf
        | cons r rs =>
          exfalso
          simp only [List.map_cons, List.foldl] at h
          have : valConcat (CVal.bool b).toVal r.toVal = .err := rfl
          rw [this, foldl_valConcat_err'] at h
          exact h rfl
      | bv x w =>
        intro u hu
        simp only [List.mem_cons] at hu
        rcases hu with rfl | hu
        · exact ⟨x, w, rfl⟩
        · exact concat_wt rest _ h u hu
  | ite =>
    match vs, h with
    | [], h => exact absurd rfl h
    | [a], h => exact absurd rfl h
    | [a, b], h => exact absurd rfl h
    | [c, t, f], h =>
      simp only [List.map_cons, List.map_nil, applyOp] at h
      cases c with
      | bv x w => simp [CVal.toVal, valIte] at h
      | bool cb =>
        refine ⟨cb, t, f, rfl, ?_⟩
        cases t with
        | bv x w =>
          cases f with
          | bv y w' =>
            simp only [CVal.toVal, valIte] at h
            split at h
            · rename_i hw; subst hw; exact Or.inl ⟨x, y, w, rfl, rfl⟩
            · exact absurd rfl h
          | bool q => simp [CVal.toVal, valIte] at h
        | bool p =>
          cases f with
          | bv y w' => simp [CVal.toVal, valIte] at h
          | bool q => exact Or.inr ⟨p, q, rfl, rfl⟩
    | a :: b :: c :: d :: l, h => exact absurd rfl h
  | and =>
    match vs, h with
    | [], h => exact absurd rfl h
    | a :: rest, h =>
      exact ⟨by simp, bools_wt _ (a :: rest) _ (by simpa [applyOp] using h)⟩
  | or =>
    match vs, h with
    | [], h => exact absurd rfl h
    | a :: rest, h =>
      exact ⟨by simp, bools_wt _ (a :: rest) _ (by simpa [applyOp] using h)⟩
  | not =>
    match vs, h with
    | [], h => exact absurd rfl h
    | [a], h =>
      cases a with
      | bv x w => simp [applyOp, CVal.toVal, valNot] at h
      | bool b => exact ⟨b, rfl⟩
    | a :: b :: l, h => exact absurd rfl h

end Claripy.AST
