import ClaripyProofs.Lemmas.AST.Typing
import Claripy.AST.Meta
/-!
A Boolean-valued expression reports no width (`Expr.width = none`): the companion of `C05.eval_width`.
-/
namespace Claripy.AST

def IsBoolOp : Op → Prop
  | .eq | .ne | .ult | .ule | .ugt | .uge | .slt | .sle | .sgt | .sge | .and | .or | .not => True
  | _ => False

theorem bvBin_ne_bool (f) (a b : Val) (x : Bool) : bvBin f a b ≠ .bool x := by
  cases a <;> cases b <;> simp [bvBin]; split <;> simp
theorem bvUn_ne_bool (f) (a : Val) (x : Bool) : bvUn f a ≠ .bool x := by
  cases a <;> simp [bvUn]; split <;> simp
theorem valConcat_ne_bool (a b : Val) (x : Bool) : valConcat a b ≠ .bool x := by
  cases a <;> cases b <;> simp [valConcat]
theorem valReverse_ne_bool (a : Val) (x : Bool) : valReverse a ≠ .bool x := by
  cases a <;> simp [valReverse]; split <;> simp

theorem foldl_ne_bool (f : Val → Val → Val) (hf : ∀ a b x, f a b ≠ .bool x) (vs : List Val) (v : Val) (x : Bool)
    (h : vs.foldl f v = .bool x) : vs = [] ∧ v = .bool x := by
  induction vs generalizing v with
  | nil => exact ⟨rfl, h⟩
  | cons u vs ih =>
    simp only [List.foldl] at h
    exact absurd (ih _ h).2 (hf _ _ _)

theorem foldVals_bvBin_ne_bool (f) (a b : Val) (rest : List Val) (x : Bool) : foldVals (bvBin f) (a :: b :: rest) ≠ .bool x := by
  intro h
  simp only [foldVals, List.foldl] at h
  exact bvBin_ne_bool f a b x (foldl_ne_bool _ (bvBin_ne_bool f) _ _ _ h).2

theorem foldVals_concat_ne_bool (a b : Val) (rest : List Val) (x : Bool) : foldVals valConcat (a :: b :: rest) ≠ .bool x := by
  intro h
  simp only [foldVals, List.foldl] at h
  exact valConcat_ne_bool a b x (foldl_ne_bool _ valConcat_ne_bool _ _ _ h).2

theorem extract_ne_bool (hi lo : Nat) (a : Val) (x : Bool) : applyOp (.extract hi lo) [a] ≠ .bool x := by
  cases a <;> simp [applyOp]; split <;> simp
theorem zeroExt_ne_bool (n : Nat) (a : Val) (x : Bool) : applyOp (.zeroExt n) [a] ≠ .bool x := by
  cases a <;> simp [applyOp]; split <;> simp
theorem signExt_ne_bool (n : Nat) (a : Val) (x : Bool) : applyOp (.signExt n) [a] ≠ .bool x := by
  cases a <;> simp [applyOp]; split <;> simp

theorem valIte_eq_bool (c a b : Val) (x : Bool) (h : valIte c a b = .bool x) : ∃ y, a = .bool y := by
  cases c <;> cases a <;> cases b <;> simp [valIte] at h ⊢
  split at h <;> (try split at h) <;> simp at h

/-- which nodes can denote a Boolean -/
theorem applyOp_bool_cases (op : Op) (vs : List Val) (x : Bool) (h : applyOp op vs = .bool x) :
    IsBoolOp op ∨ (op = .ite ∧ ∃ c a b y, vs = [c, a, b] ∧ a = .bool y) ∨ (op = .concat ∧ vs = [.bool x]) := by
  match vs, h with
  | [], h => cases op <;> simp [applyOp] at h
  | [a], h =>
    cases op <;> first
      | (left; trivial)
      | exact absurd h (bvUn_ne_bool _ _ _)
      | exact absurd h (valReverse_ne_bool _ _)
      | exact absurd h (extract_ne_bool _ _ _ _)
      | exact absurd h (zeroExt_ne_bool _ _ _)
      | exact absurd h (signExt_ne_bool _ _ _)
      | (right; right; simp only [applyOp, foldVals, List.foldl] at h; exact ⟨rfl, by rw [h]⟩)
      | (simp [applyOp] at h)
  | [a, b], h =>
    cases op <;> first
      | (left; trivial)
      | exact absurd h (foldVals_bvBin_ne_bool _ _ _ _ _)
      | exact absurd h (bvBin_ne_bool _ _ _ _)
      | exact absurd h (bvBin_ne_bool (fun _ x y => x.rotateLeft y.toNat) _ _ _)
      | exact absurd h (bvBin_ne_bool (fun _ x y => x.rotateRight y.toNat) _ _ _)
      | exact absurd h (foldVals_concat_ne_bool _ _ _ _)
      | (rw [applyOp_extract_many] at h; cases h)
      | (rw [applyOp_zeroExt_many] at h; cases h)
      | (rw [applyOp_signExt_many] at h; cases h)
      | (simp [applyOp] at h)
  | [c, a, b], h =>
    cases op <;> first
      | (left; trivial)
      | exact absurd h (foldVals_bvBin_ne_bool _ _ _ _ _)
      | exact absurd h (foldVals_concat_ne_bool _ _ _ _)
      | (right; left; obtain ⟨y, hy⟩ := valIte_eq_bool _ _ _ _ h; exact ⟨rfl, c, a, b, y, rfl, hy⟩)
      | (rw [applyOp_extract_many] at h; cases h)
      | (rw [applyOp_zeroExt_many] at h; cases h)
      | (rw [applyOp_signExt_many] at h; cases h)
      | (simp [applyOp] at h)
  | a :: b :: c :: d :: rest, h =>
    cases op <;> first
      | (left; trivial)
      | exact absurd h (foldVals_bvBin_ne_bool _ _ _ _ _)
      | exact absurd h (foldVals_concat_ne_bool _ _ _ _)
      | (rw [applyOp_extract_many] at h; cases h)
      | (rw [applyOp_zeroExt_many] at h; cases h)
      | (rw [applyOp_signExt_many] at h; cases h)
      | (simp [applyOp] at h)

theorem widthOf_boolOp (op : Op) (h : IsBoolOp op) (ws : List (Option Nat)) : widthOf op ws = none := by
  cases op <;> simp [IsBoolOp] at h <;> simp [widthOf]

mutual
/-- **a Boolean-valued expression reports no width** -/
theorem eval_bool_width (env : Env) : ∀ (e : Expr) (x : Bool), eval env e = .bool x → e.width = none
  | .bvv v w, x, h => by simp only [eval] at h; split at h <;> cases h
  | .bvs n w, x, h => by simp only [eval] at h; split at h <;> cases h
  | .boolv b, _, _ => rfl
  | .bools n, _, _ => rfl
  | .app op args, x, h => by
    rw [eval_app] at h
    simp only [Expr.width]
    rcases applyOp_bool_cases op _ x h with hb | ⟨rfl, c, a, b, y, hvs, ha⟩ | ⟨rfl, hvs⟩
    · exact widthOf_boolOp op hb _
    · match args, hvs with
      | [ec, ea, eb], hvs =>
        simp only [evalList, List.cons.injEq, and_true] at hvs
        have := eval_bool_width env ea y (by rw [hvs.2.1, ha])
        simp [Expr.widthList, widthOf, this]
      | [], hvs => simp [evalList] at hvs
      | [_], hvs => simp [evalList] at hvs
      | [_, _], hvs => simp [evalList] at hvs
      | _ :: _ :: _ :: _ :: _, hvs => simp [evalList] at hvs
    · match args, hvs with
      | [ea], hvs =>
        simp only [evalList, List.cons.injEq, and_true] at hvs
        have := eval_bool_width env ea x hvs
        simp [Expr.widthList, widthOf, sumWidths, this]
      | [], hvs => simp [evalList] at hvs
      | _ :: _ :: _, hvs => simp [evalList] at hvs
end

end Claripy.AST
