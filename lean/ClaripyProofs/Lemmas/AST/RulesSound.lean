import ClaripyProofs.Lemmas.AST.RulesBase
import Mathlib.Data.BitVec
import Mathlib.Tactic.Ring
/-! Soundness of every schema in `Claripy.AST.R.all`, for all widths, constants and sub-expressions. -/
namespace Claripy.AST
open Claripy.BV (ofNat_allOnes)

set_option hygiene false in
/-- common prefix for schemas over one bit-vector metavariable `x` and constants of width `p.w`:
splits on `0 < p.w`, on the value of `x`, on width agreement; leaves the well-typed case. -/
macro "rule_xc " defs:term " => " fin:tacticSeq : tactic => `(tactic| (
  intro p env hs hwt
  simp only [$defs:term, bv0, ones, eval_app, evalList_cons, evalList_nil, applyOp] at hwt ⊢
  by_cases hw : 0 < p.w
  · simp only [fun v => eval_bvv env v p.w hw] at hwt ⊢
    rcases val_view (eval env p.x) (eval_wf env p.x) with hx | ⟨b, hx⟩ | ⟨wx, X, hx, hwx⟩ <;> simp only [hx] at hwt ⊢
    · simp [foldVals] at hwt
    · simp [foldVals] at hwt
    · by_cases hww : wx = p.w
      · subst hww
        simp only [foldVals, List.foldl, bvBin_ofBV, bvCmp_ofBV, valEq_ofBV, bvUn_ofBV, hw, valNot_bool] at hwt ⊢
        ($fin)
      · have hww' : p.w ≠ wx := fun h => hww h.symm
        simp [foldVals, bvBin_ofBV_ne _ _ _ hww, bvBin_ofBV_ne _ _ _ hww', bvCmp_ofBV_ne _ _ _ hww, bvCmp_ofBV_ne _ _ _ hww',
          valEq_ofBV_ne _ _ hww, valEq_ofBV_ne _ _ hww', bvBin_ofBV, hw] at hwt
  · simp [fun v => eval_bvv_err env v p.w hw, foldVals] at hwt))

theorem shl_zero_sound : Sound R.shl_zero := by
  rule_xc R.shl_zero => (apply ofBV_inj; simp [bvShl_eq, BitVec.shiftLeft_eq'])
theorem ashr_zero_sound : Sound R.ashr_zero := by
  rule_xc R.ashr_zero => (apply ofBV_inj; simp [BitVec.sshiftRight_eq'])
theorem lshr_zero_sound : Sound R.lshr_zero := by
  rule_xc R.lshr_zero => (apply ofBV_inj; simp [BitVec.ushiftRight_eq'])
theorem sub_zero_sound : Sound R.sub_zero := by
  rule_xc R.sub_zero => (apply ofBV_inj; simp)
theorem xor_zero_l_sound : Sound R.xor_zero_l := by
  rule_xc R.xor_zero_l => (apply ofBV_inj; simp)
theorem xor_zero_r_sound : Sound R.xor_zero_r := by
  rule_xc R.xor_zero_r => (apply ofBV_inj; simp)
theorem or_zero_l_sound : Sound R.or_zero_l := by
  rule_xc R.or_zero_l => (apply ofBV_inj; simp)
theorem or_zero_r_sound : Sound R.or_zero_r := by
  rule_xc R.or_zero_r => (apply ofBV_inj; simp)
theorem and_ones_l_sound : Sound R.and_ones_l := by
  rule_xc R.and_ones_l => (apply ofBV_inj; simp [ofNat_allOnes])
theorem and_ones_r_sound : Sound R.and_ones_r := by
  rule_xc R.and_ones_r => (apply ofBV_inj; simp [ofNat_allOnes])
theorem and_zero_l_sound : Sound R.and_zero_l := by
  rule_xc R.and_zero_l => (apply ofBV_inj; simp)
theorem and_zero_r_sound : Sound R.and_zero_r := by
  rule_xc R.and_zero_r => (apply ofBV_inj; simp)

theorem sub_sub_sound : Sound R.sub_sub := by
  rule_xc R.sub_sub => (apply ofBV_inj; ring)
theorem sub_add_sound : Sound R.sub_add := by
  rule_xc R.sub_add => (apply ofBV_inj; ring)
theorem add_sub_sound : Sound R.add_sub := by
  rule_xc R.add_sub => (apply ofBV_inj; ring)

theorem eq_swap_sound : Sound R.eq_swap := by
  rule_xc R.eq_swap => (congr 1; rw [Bool.eq_iff_iff]; simp only [beq_iff_eq]; exact ⟨fun h => h.symm, fun h => h.symm⟩)
theorem ne_swap_sound : Sound R.ne_swap := by
  rule_xc R.ne_swap => (congr 2; rw [Bool.eq_iff_iff]; simp only [beq_iff_eq]; exact ⟨fun h => h.symm, fun h => h.symm⟩)
theorem eq_sub_sound : Sound R.eq_sub := by
  rule_xc R.eq_sub => (
    congr 1; rw [Bool.eq_iff_iff]; simp only [beq_iff_eq]
    constructor
    · intro h; rw [h]; ring
    · intro h; rw [← h]; ring)

theorem xor_one_eq_zero {w : Nat} (x : BitVec w) : (x ^^^ 1#w = 0#w) ↔ x = 1#w := by
  constructor
  · intro h
    have := congrArg (· ^^^ 1#w) h
    simpa [BitVec.xor_assoc] using this
  · intro h; subst h; simp

theorem eq_xor1_r_sound : Sound R.eq_xor1_r := by
  rule_xc R.eq_xor1_r => (
    congr 1; rw [Bool.eq_iff_iff]; simp only [beq_iff_eq]
    exact (xor_one_eq_zero X).symm)
theorem eq_xor1_l_sound : Sound R.eq_xor1_l := by
  rule_xc R.eq_xor1_l => (
    congr 1; rw [Bool.eq_iff_iff]; simp only [beq_iff_eq]
    rw [BitVec.xor_comm]; exact (xor_one_eq_zero X).symm)
theorem ne_xor1_r_sound : Sound R.ne_xor1_r := by
  rule_xc R.ne_xor1_r => (
    congr 2; rw [Bool.eq_iff_iff]; simp only [beq_iff_eq]
    exact (xor_one_eq_zero X).symm)
theorem ne_xor1_l_sound : Sound R.ne_xor1_l := by
  rule_xc R.ne_xor1_l => (
    congr 2; rw [Bool.eq_iff_iff]; simp only [beq_iff_eq]
    rw [BitVec.xor_comm]; exact (xor_one_eq_zero X).symm)

theorem shl_shl_sound : Sound R.shl_shl := by
  intro p env hs hwt
  simp only [R.shl_shl, decide_eq_true_eq] at hs
  obtain ⟨h1, h2, h3⟩ := hs
  revert hwt
  have : True := trivial
  intro hwt
  simp only [R.shl_shl, eval_app, evalList_cons, evalList_nil, applyOp] at hwt ⊢
  by_cases hw : 0 < p.w
  · simp only [fun v => eval_bvv env v p.w hw] at hwt ⊢
    rcases val_view (eval env p.x) (eval_wf env p.x) with hx | ⟨b, hx⟩ | ⟨wx, X, hx, hwx⟩ <;> simp only [hx] at hwt ⊢
    · simp at hwt
    · simp at hwt
    · by_cases hww : wx = p.w
      · subst hww
        simp only [foldVals, List.foldl, bvBin_ofBV, hw]
        apply ofBV_inj
        simp only [bvShl_eq, BitVec.shiftLeft_eq', BitVec.toNat_add, BitVec.toNat_ofNat, Nat.mod_eq_of_lt h1,
          Nat.mod_eq_of_lt h2, Nat.mod_eq_of_lt h3]
        rw [BitVec.shiftLeft_add]
      · simp [bvBin_ofBV_ne _ _ _ hww] at hwt
  · simp [fun v => eval_bvv_err env v p.w hw] at hwt

/-! ### schemas over one metavariable and no constants -/
set_option hygiene false in
macro "rule_x " defs:term " => " fin:tacticSeq : tactic => `(tactic| (
  intro p env hs hwt
  simp only [$defs:term, tt, ff, eval_app, evalList_cons, evalList_nil, applyOp, eval_boolv] at hwt ⊢
  rcases val_view (eval env p.x) (eval_wf env p.x) with hx | ⟨b, hx⟩ | ⟨wx, X, hx, hwx⟩ <;> simp only [hx] at hwt ⊢
  · simp [foldVals] at hwt
  · first
    | (simp [foldVals] at hwt; done)
    | (simp [foldVals])
  · simp only [foldVals, List.foldl, bvBin_ofBV, bvCmp_ofBV, valEq_ofBV, bvUn_ofBV, hwx, valNot_bool] at hwt ⊢
    ($fin)))

theorem or_self_sound : Sound R.or_self := by
  rule_x R.or_self => (apply ofBV_inj; simp)
theorem and_self_sound : Sound R.and_self := by
  rule_x R.and_self => (apply ofBV_inj; simp)
theorem eq_self_sound : Sound R.eq_self := by
  rule_x R.eq_self => simp
theorem ne_self_sound : Sound R.ne_self := by
  rule_x R.ne_self => simp

theorem zext_zero_sound : Sound R.zext_zero := by
  intro p env hs hwt
  simp only [R.zext_zero, eval_app, evalList_cons, evalList_nil] at hwt ⊢
  rcases val_view (eval env p.x) (eval_wf env p.x) with hx | ⟨b, hx⟩ | ⟨wx, X, hx, hwx⟩ <;> simp only [hx] at hwt ⊢
  · simp [applyOp] at hwt
  · simp [applyOp] at hwt
  · simp [applyOp, Val.ofBV, hwx, BitVec.zeroExtend]

theorem sext_zero_sound : Sound R.sext_zero := by
  intro p env hs hwt
  simp only [R.sext_zero, eval_app, evalList_cons, evalList_nil] at hwt ⊢
  rcases val_view (eval env p.x) (eval_wf env p.x) with hx | ⟨b, hx⟩ | ⟨wx, X, hx, hwx⟩ <;> simp only [hx] at hwt ⊢
  · simp [applyOp] at hwt
  · simp [applyOp] at hwt
  · simp [applyOp, Val.ofBV, hwx]

/-! ### Boolean schemas over the condition metavariable `c` -/
set_option hygiene false in
macro "rule_c " defs:term : tactic => `(tactic| (
  intro p env hs hwt
  simp only [$defs:term, tt, ff, eval_app, evalList_cons, evalList_nil, applyOp, eval_boolv] at hwt ⊢
  rcases val_view (eval env p.c) (eval_wf env p.c) with hx | ⟨b, hx⟩ | ⟨wx, X, hx, hwx⟩ <;> simp only [hx] at hwt ⊢
  · simp [foldVals] at hwt
  · cases b <;> simp [foldVals]
  · simp [foldVals, Val.ofBV, valEq, valNot] at hwt))

theorem eq_true_r_sound : Sound R.eq_true_r := by rule_c R.eq_true_r
theorem eq_true_l_sound : Sound R.eq_true_l := by rule_c R.eq_true_l
theorem eq_false_r_sound : Sound R.eq_false_r := by rule_c R.eq_false_r
theorem eq_false_l_sound : Sound R.eq_false_l := by rule_c R.eq_false_l
theorem not_not_sound : Sound R.not_not := by rule_c R.not_not

/-! ### schemas over two bit-vector (or Boolean) metavariables -/
set_option hygiene false in
macro "rule_xy " defs:term " => " fin:tacticSeq : tactic => `(tactic| (
  intro p env hs hwt
  simp only [$defs:term, eval_app, evalList_cons, evalList_nil, applyOp] at hwt ⊢
  rcases val_view (eval env p.x) (eval_wf env p.x) with hx | ⟨b, hx⟩ | ⟨wx, X, hx, hwx⟩ <;> simp only [hx] at hwt ⊢ <;>
  rcases val_view (eval env p.y) (eval_wf env p.y) with hy | ⟨b', hy⟩ | ⟨wy, Y, hy, hwy⟩ <;> simp only [hy] at hwt ⊢
  all_goals try (simp [foldVals] at hwt; done)
  all_goals try (simp [foldVals]; done)
  all_goals (
    by_cases hww : wx = wy
    · subst hww
      simp only [foldVals, List.foldl, bvBin_ofBV, bvCmp_ofBV, valEq_ofBV, hwx, valNot_bool, boolBin_bool] at hwt ⊢
      ($fin)
    · simp [foldVals, bvBin_ofBV_ne _ _ _ hww, bvCmp_ofBV_ne _ _ _ hww, valEq_ofBV_ne _ _ hww] at hwt)))

theorem int_le_not_lt (a b : Int) : decide (b ≤ a) = !decide (a < b) := by
  by_cases h : a < b <;> simp [h] <;> omega
theorem int_lt_not_le (a b : Int) : decide (b < a) = !decide (a ≤ b) := by
  by_cases h : a ≤ b <;> simp [h] <;> omega
theorem nat_le_not_lt (a b : Nat) : decide (b ≤ a) = !decide (a < b) := by
  by_cases h : a < b <;> simp [h] <;> omega
theorem nat_lt_not_le (a b : Nat) : decide (b < a) = !decide (a ≤ b) := by
  by_cases h : a ≤ b <;> simp [h] <;> omega

theorem not_eq_sound : Sound R.not_eq := by
  intro p env _ _
  simp [R.not_eq, eval_app, evalList_cons, evalList_nil, applyOp]
theorem valEq_cases (a b : Val) : valEq a b = .err ∨ ∃ r, valEq a b = .bool r := by
  unfold valEq
  split
  · split
    · exact Or.inr ⟨_, rfl⟩
    · exact Or.inl rfl
  · exact Or.inr ⟨_, rfl⟩
  · exact Or.inl rfl

theorem not_ne_sound : Sound R.not_ne := by
  intro p env _ hwt
  simp only [R.not_ne, eval_app, evalList_cons, evalList_nil, applyOp] at hwt ⊢
  rcases valEq_cases (eval env p.x) (eval env p.y) with h | ⟨r, h⟩ <;> simp [h] at hwt ⊢
theorem not_slt_sound : Sound R.not_slt := by
  rule_xy R.not_slt => (congr 1; simp only [BitVec.slt, BitVec.sle]; exact int_le_not_lt _ _)
theorem not_sle_sound : Sound R.not_sle := by
  rule_xy R.not_sle => (congr 1; simp only [BitVec.slt, BitVec.sle]; exact int_lt_not_le _ _)
theorem not_sgt_sound : Sound R.not_sgt := by
  rule_xy R.not_sgt => (congr 1; simp only [BitVec.slt, BitVec.sle]; exact int_le_not_lt _ _)
theorem not_sge_sound : Sound R.not_sge := by
  rule_xy R.not_sge => (congr 1; simp only [BitVec.slt, BitVec.sle]; exact int_lt_not_le _ _)
theorem not_ult_sound : Sound R.not_ult := by
  rule_xy R.not_ult => (congr 1; simp only [BitVec.ult, BitVec.ule]; exact nat_le_not_lt _ _)
theorem not_ule_sound : Sound R.not_ule := by
  rule_xy R.not_ule => (congr 1; simp only [BitVec.ult, BitVec.ule]; exact nat_lt_not_le _ _)
theorem not_ugt_sound : Sound R.not_ugt := by
  rule_xy R.not_ugt => (congr 1; simp only [BitVec.ult, BitVec.ule]; exact nat_le_not_lt _ _)
theorem not_uge_sound : Sound R.not_uge := by
  rule_xy R.not_uge => (congr 1; simp only [BitVec.ult, BitVec.ule]; exact nat_lt_not_le _ _)
theorem and_uge_ne_sound : Sound R.and_uge_ne := by
  rule_xy R.and_uge_ne => (
    congr 1
    simp only [BitVec.ult, BitVec.ule]
    rw [Bool.eq_iff_iff]
    simp only [Bool.and_eq_true, decide_eq_true_eq, Bool.not_eq_true', beq_eq_false_iff_ne, ne_eq, Bool.true_and]
    constructor
    · intro h
      refine ⟨by omega, ?_⟩
      intro he; subst he; omega
    · intro ⟨h1, h2⟩
      have : X.toNat ≠ Y.toNat := fun h => h2 (BitVec.eq_of_toNat_eq h)
      omega)

def sameTy : Val → Val → Prop
  | .bv w _, .bv w' _ => w = w'
  | .bool _, .bool _ => True
  | _, _ => False

theorem sameTy_symm {a b : Val} (h : sameTy a b) : sameTy b a := by
  cases a <;> cases b <;> simp_all [sameTy]
theorem sameTy_trans {a b c : Val} (h : sameTy a b) (h' : sameTy b c) : sameTy a c := by
  cases a <;> cases b <;> cases c <;> simp_all [sameTy]

theorem valIte_spec (c : Bool) (a b : Val) (h : valIte (.bool c) a b ≠ .err) :
    valIte (.bool c) a b = (if c then a else b) ∧ sameTy a b := by
  cases a <;> cases b <;> simp [valIte, sameTy] at h ⊢
  · rename_i w n w' n'
    by_cases hw : w = w'
    · subst hw; simp
    · simp [hw] at h
  · cases c <;> simp

theorem valIte_of_sameTy (c : Bool) (a b : Val) (h : sameTy a b) :
    valIte (.bool c) a b = (if c then a else b) := by
  cases a <;> cases b <;> simp [valIte, sameTy] at h ⊢
  · subst h; simp
  · cases c <;> simp

theorem valIte_cond_bool (c a b : Val) (h : valIte c a b ≠ .err) : ∃ cb, c = .bool cb := by
  cases c with
  | bool cb => exact ⟨cb, rfl⟩
  | err => simp at h
  | bv w n => simp [valIte] at h

theorem valIte_true' (a b : Val) (h : valIte (.bool true) a b ≠ .err) : a = valIte (.bool true) a b := by
  simp [(valIte_spec true a b h).1]
theorem valIte_false' (a b : Val) (h : valIte (.bool false) a b ≠ .err) : b = valIte (.bool false) a b := by
  simp [(valIte_spec false a b h).1]
theorem valIte_same' (c a : Val) (h : valIte c a a ≠ .err) : a = valIte c a a := by
  obtain ⟨cb, rfl⟩ := valIte_cond_bool c a a h
  cases cb <;> simp [(valIte_spec _ a a h).1]
theorem valIte_tf' (c : Val) (h : valIte c (.bool true) (.bool false) ≠ .err) : c = valIte c (.bool true) (.bool false) := by
  obtain ⟨cb, rfl⟩ := valIte_cond_bool c _ _ h
  cases cb <;> simp
theorem valIte_ft' (c : Val) (h : valIte c (.bool false) (.bool true) ≠ .err) : valNot c = valIte c (.bool false) (.bool true) := by
  obtain ⟨cb, rfl⟩ := valIte_cond_bool c _ _ h
  cases cb <;> simp

theorem valIte_inner_ne_err_t (c : Bool) (i z : Val) (h : valIte (.bool c) i z ≠ .err) : i ≠ .err := by
  intro hi; subst hi; simp at h
theorem valIte_inner_ne_err_e (c : Bool) (i z : Val) (h : valIte (.bool c) z i ≠ .err) : i ≠ .err := by
  intro hi; subst hi; simp at h

theorem valIte_then_same' (c x y z : Val) (h : valIte c (valIte c x y) z ≠ .err) :
    valIte c x z = valIte c (valIte c x y) z := by
  obtain ⟨cb, rfl⟩ := valIte_cond_bool c _ _ h
  have hi := valIte_inner_ne_err_t cb _ z h
  obtain ⟨e1, t1⟩ := valIte_spec cb x y hi
  obtain ⟨e2, t2⟩ := valIte_spec cb _ z h
  rw [e2, e1]
  have t3 : sameTy x z := by
    rw [e1] at t2
    cases cb
    · exact sameTy_trans t1 (by simpa using t2)
    · simpa using t2
  rw [valIte_of_sameTy cb x z t3]
  cases cb <;> simp

theorem valIte_then_neg' (c x y z : Val) (h : valIte c (valIte (valNot c) x y) z ≠ .err) :
    valIte c y z = valIte c (valIte (valNot c) x y) z := by
  obtain ⟨cb, rfl⟩ := valIte_cond_bool c _ _ h
  have hi := valIte_inner_ne_err_t cb _ z h
  simp only [valNot_bool] at hi h ⊢
  obtain ⟨e1, t1⟩ := valIte_spec (!cb) x y hi
  obtain ⟨e2, t2⟩ := valIte_spec cb _ z h
  rw [e2, e1]
  have t3 : sameTy y z := by
    rw [e1] at t2
    cases cb
    · exact sameTy_trans (sameTy_symm t1) (by simpa using t2)
    · simpa using t2
  rw [valIte_of_sameTy cb y z t3]
  cases cb <;> simp

theorem valIte_else_same' (c x y z : Val) (h : valIte c z (valIte c x y) ≠ .err) :
    valIte c z y = valIte c z (valIte c x y) := by
  obtain ⟨cb, rfl⟩ := valIte_cond_bool c _ _ h
  have hi := valIte_inner_ne_err_e cb _ z h
  obtain ⟨e1, t1⟩ := valIte_spec cb x y hi
  obtain ⟨e2, t2⟩ := valIte_spec cb z _ h
  rw [e2, e1]
  have t3 : sameTy z y := by
    rw [e1] at t2
    cases cb
    · simpa using t2
    · exact sameTy_trans (by simpa using t2) t1
  rw [valIte_of_sameTy cb z y t3]
  cases cb <;> simp

theorem valIte_else_neg' (c x y z : Val) (h : valIte c z (valIte (valNot c) x y) ≠ .err) :
    valIte c z x = valIte c z (valIte (valNot c) x y) := by
  obtain ⟨cb, rfl⟩ := valIte_cond_bool c _ _ h
  have hi := valIte_inner_ne_err_e cb _ z h
  simp only [valNot_bool] at hi h ⊢
  obtain ⟨e1, t1⟩ := valIte_spec (!cb) x y hi
  obtain ⟨e2, t2⟩ := valIte_spec cb z _ h
  rw [e2, e1]
  have t3 : sameTy z x := by
    rw [e1] at t2
    cases cb
    · simpa using t2
    · exact sameTy_trans (by simpa using t2) (sameTy_symm t1)
  rw [valIte_of_sameTy cb z x t3]
  cases cb <;> simp

set_option hygiene false in
macro "rule_ite " defs:term " => " lem:term : tactic => `(tactic| (
  intro p env hs hwt
  simp only [$defs:term, tt, ff, eval_app, evalList_cons, evalList_nil, applyOp, eval_boolv] at hwt ⊢
  exact $lem hwt))

theorem ite_true_sound : Sound R.ite_true := by rule_ite R.ite_true => valIte_true' _ _
theorem ite_false_sound : Sound R.ite_false := by rule_ite R.ite_false => valIte_false' _ _
theorem ite_same_sound : Sound R.ite_same := by rule_ite R.ite_same => valIte_same' _ _
theorem ite_tf_sound : Sound R.ite_tf := by rule_ite R.ite_tf => valIte_tf' _
theorem ite_ft_sound : Sound R.ite_ft := by rule_ite R.ite_ft => valIte_ft' _
theorem ite_then_same_sound : Sound R.ite_then_same := by rule_ite R.ite_then_same => valIte_then_same' _ _ _ _
theorem ite_then_neg_sound : Sound R.ite_then_neg := by rule_ite R.ite_then_neg => valIte_then_neg' _ _ _ _
theorem ite_else_same_sound : Sound R.ite_else_same := by rule_ite R.ite_else_same => valIte_else_same' _ _ _ _
theorem ite_else_neg_sound : Sound R.ite_else_neg := by rule_ite R.ite_else_neg => valIte_else_neg' _ _ _ _


theorem invert_if_sound : Sound R.invert_if := by
  intro p env hs hwt
  simp only [R.invert_if, eval_app, evalList_cons, evalList_nil, applyOp] at hwt ⊢
  simp only [fun v => eval_bvv env v 1 (by decide : 0 < 1)] at hwt ⊢
  rcases val_view (eval env p.c) (eval_wf env p.c) with hx | ⟨b, hx⟩ | ⟨wx, X, hx, hwx⟩ <;> simp only [hx] at hwt ⊢
  · simp at hwt
  · cases b <;> simp [valIte_bv, bvUn_ofBV] <;> apply ofBV_inj <;> decide
  · simp at hwt

theorem and_if_sound : Sound R.and_if := by
  intro p env hs hwt
  simp only [R.and_if, bv0, eval_app, evalList_cons, evalList_nil, applyOp] at hwt ⊢
  by_cases hw : 0 < p.w
  · simp only [fun v => eval_bvv env v p.w hw] at hwt ⊢
    rcases val_view (eval env p.c) (eval_wf env p.c) with hx | ⟨b, hx⟩ | ⟨wx, X, hx, hwx⟩ <;> simp only [hx] at hwt ⊢ <;>
    rcases val_view (eval env p.z) (eval_wf env p.z) with hz | ⟨b', hz⟩ | ⟨wz, Z, hz, hwz⟩ <;> simp only [hz] at hwt ⊢
    all_goals try (simp [foldVals] at hwt; done)
    cases b <;> cases b' <;> simp [foldVals, valIte_bv, bvBin_ofBV, hw]
  · simp [fun v => eval_bvv_err env v p.w hw, foldVals] at hwt

/-- every schema of the table is sound -/
theorem base_sound : ∀ s ∈ R.base, Sound s := by
  intro s hs
  simp only [R.base, List.mem_cons, List.mem_nil_iff, or_false] at hs
  rcases hs with h | h | h | h | h | h | h | h | h | h | h | h | h | h | h | h | h | h | h | h | h | h | h | h | h | h | h | h |
    h | h | h | h | h | h | h | h | h | h | h | h | h | h | h | h | h | h | h | h | h | h | h | h | h | h | h | h <;> subst h
  · exact shl_zero_sound
  · exact ashr_zero_sound
  · exact lshr_zero_sound
  · exact shl_shl_sound
  · exact sub_zero_sound
  · exact sub_sub_sound
  · exact sub_add_sound
  · exact add_sub_sound
  · exact xor_zero_l_sound
  · exact xor_zero_r_sound
  · exact or_zero_l_sound
  · exact or_zero_r_sound
  · exact or_self_sound
  · exact and_ones_l_sound
  · exact and_ones_r_sound
  · exact and_self_sound
  · exact and_zero_l_sound
  · exact and_zero_r_sound
  · exact eq_self_sound
  · exact ne_self_sound
  · exact eq_true_r_sound
  · exact eq_true_l_sound
  · exact eq_false_r_sound
  · exact eq_false_l_sound
  · exact eq_swap_sound
  · exact ne_swap_sound
  · exact eq_sub_sound
  · exact eq_xor1_r_sound
  · exact eq_xor1_l_sound
  · exact ne_xor1_r_sound
  · exact ne_xor1_l_sound
  · exact not_not_sound
  · exact not_eq_sound
  · exact not_ne_sound
  · exact not_slt_sound
  · exact not_sle_sound
  · exact not_sgt_sound
  · exact not_sge_sound
  · exact not_ult_sound
  · exact not_ule_sound
  · exact not_ugt_sound
  · exact not_uge_sound
  · exact ite_true_sound
  · exact ite_false_sound
  · exact ite_same_sound
  · exact ite_tf_sound
  · exact ite_ft_sound
  · exact ite_then_same_sound
  · exact ite_then_neg_sound
  · exact ite_else_same_sound
  · exact ite_else_neg_sound
  · exact invert_if_sound
  · exact zext_zero_sound
  · exact sext_zero_sound
  · exact and_if_sound
  · exact and_uge_ne_sound

end Claripy.AST
