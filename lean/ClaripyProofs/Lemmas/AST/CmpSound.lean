import ClaripyProofs.Lemmas.AST.BitsSound
import ClaripyProofs.Lemmas.AST.BoolWidth
/-!
Soundness of `cmpEquiv` (Claripy/AST/Bits.lean): a rewrite of a bit-vector (dis)equality accepted by the per-bit normal form
preserves its truth value under every assignment, at every width.
-/
namespace Claripy.AST

/-! ### equality on atoms -/
theorem EqAtom.eq_of_beq {a b : EqAtom} (h : (a == b) = true) : a = b := by
  cases a; cases b
  simp only [BEq.beq, Bool.and_eq_true] at h
  obtain ⟨h1, h2⟩ := h
  rw [Bit.eq_of_beq _ _ h1, Bit.eq_of_beq _ _ h2]

instance : LawfulBEq EqAtom where
  eq_of_beq := EqAtom.eq_of_beq
  rfl {a} := by
    cases a
    simp only [BEq.beq, Bool.and_eq_true]
    exact ⟨Bit.beq_refl _, Bit.beq_refl _⟩

/-! ### denotations -/
def atomHolds (env : Env) (a : EqAtom) : Option Bool :=
  match bitDen env a.lhs, bitDen env a.rhs with
  | some x, some y => some (x == y)
  | _, _ => none

def pairDen (env : Env) : PairNF → Option Bool
  | .triv => some true
  | .absurd => some false
  | .atom a => atomHolds env a

def allDen {α : Type} (f : α → Option Bool) : List α → Option Bool
  | [] => some true
  | a :: l => match f a, allDen f l with
    | some x, some y => some (x && y)
    | _, _ => none

def nfDen (env : Env) : BoolNF → Option Bool
  | .const b => some b
  | .conj n as => (allDen (atomHolds env) as).map (n ^^ ·)

def dens (env : Env) : List Bit → Option (List Bool)
  | [] => some []
  | b :: bs => match bitDen env b, dens env bs with
    | some x, some xs => some (x :: xs)
    | _, _ => none

theorem xorNeg_den (env : Env) (x : Bit) (n : Bool) (p : Bool) (h : bitDen env x = some p) :
    bitDen env (x.xorNeg n) = some (p ^^ n) := by
  cases n <;> simp [Bit.xorNeg, bitDen_not, h]

theorem normPair_den (env : Env) (x y : Bit) (p q : Bool) (hx : bitDen env x = some p) (hy : bitDen env y = some q) :
    pairDen env (normPair x y) = some (p == q) := by
  have h1 := strip_den env x p hx
  have h2 := strip_den env y q hy
  unfold normPair
  generalize x.strip = sx at h1
  generalize y.strip = sy at h2
  obtain ⟨x', nx⟩ := sx
  obtain ⟨y', ny⟩ := sy
  simp only at h1 h2 ⊢
  split
  · rename_i hsame
    have : x' = y' := Bit.eq_of_beq _ _ hsame
    subst this
    rw [h1] at h2
    simp only [Option.some.injEq] at h2
    split <;> rename_i hng
    · have : nx = ny := by simpa using hng
      subst this
      have : p = q := by cases p <;> cases q <;> cases nx <;> simp_all
      simp [pairDen, this]
    · have : nx ≠ ny := by simpa using hng
      have : p ≠ q := by cases p <;> cases q <;> cases nx <;> cases ny <;> simp_all
      simp [pairDen, this]
  · split
    · rename_i b0
      simp only [bitDen, Option.some.injEq] at h1
      simp only [pairDen, atomHolds, h2, bitDen]
      subst h1
      cases p <;> cases q <;> cases nx <;> cases ny <;> rfl
    · simp only [pairDen, atomHolds, h1, xorNeg_den env y' (nx ^^ ny) _ h2]
      cases p <;> cases q <;> cases nx <;> cases ny <;> rfl

theorem zipPairs_den (env : Env) : ∀ (ba bb : List Bit) (ps : List PairNF) (xs ys : List Bool), zipPairs ba bb = some ps →
    dens env ba = some xs → dens env bb = some ys → allDen (pairDen env) ps = some (xs == ys)
  | [], [], ps, xs, ys, h, hx, hy => by
    simp only [zipPairs, Option.some.injEq] at h
    simp only [dens, Option.some.injEq] at hx hy
    subst h hx hy
    rfl
  | a :: as, b :: bs, ps, xs, ys, h, hx, hy => by
    simp only [zipPairs, Option.map_eq_some_iff] at h
    obtain ⟨ps', hps', rfl⟩ := h
    simp only [dens] at hx hy
    cases hxa : bitDen env a with
    | none => simp [hxa] at hx
    | some p =>
      cases hxs : dens env as with
      | none => simp [hxa, hxs] at hx
      | some xs' =>
        cases hyb : bitDen env b with
        | none => simp [hyb] at hy
        | some q =>
          cases hys : dens env bs with
          | none => simp [hyb, hys] at hy
          | some ys' =>
            simp only [hxa, hxs, hyb, hys, Option.some.injEq] at hx hy
            subst hx hy
            have ih := zipPairs_den env as bs ps' xs' ys' hps' hxs hys
            simp only [allDen, normPair_den env a b p q hxa hyb, ih]
            simp [List.cons_beq_cons]
  | [], _ :: _, _, _, _, h, _, _ => by simp [zipPairs] at h
  | _ :: _, [], _, _, _, h, _, _ => by simp [zipPairs] at h

theorem zipPairs_length : ∀ (ba bb : List Bit) (ps : List PairNF), zipPairs ba bb = some ps → ba.length = bb.length
  | [], [], _, _ => rfl
  | a :: as, b :: bs, ps, h => by
    simp only [zipPairs, Option.map_eq_some_iff] at h
    obtain ⟨ps', hps', _⟩ := h
    simp [zipPairs_length as bs ps' hps']
  | [], _ :: _, _, h => by simp [zipPairs] at h
  | _ :: _, [], _, h => by simp [zipPairs] at h

theorem dens_of_bits (env : Env) : ∀ (bs : List Bit) (g : Nat → Bool),
    (∀ i, i < bs.length → (bs[i]?).bind (bitDen env) = some (g i)) → dens env bs = some ((List.range bs.length).map g)
  | [], g, _ => rfl
  | b :: bs, g, h => by
    have h0 := h 0 (by simp)
    simp only [List.getElem?_cons_zero, Option.bind_some] at h0
    have ih := dens_of_bits env bs (fun i => g (i + 1)) (by
      intro i hi
      have := h (i + 1) (by simp; omega)
      simpa using this)
    simp only [dens, h0, ih, List.length_cons, List.range_succ_eq_map, List.map_cons, List.map_map]
    rfl

theorem describes_dens {env : Env} {bs : List Bit} {w n : Nat} (D : Describes env bs w n) :
    dens env bs = some ((List.range w).map n.testBit) := by
  have := dens_of_bits env bs n.testBit (by intro i hi; exact D.bit i (D.len ▸ hi))
  rw [D.len] at this
  exact this

theorem testBits_eq_iff (w na nb : Nat) (ha : na < 2 ^ w) (hb : nb < 2 ^ w) :
    ((List.range w).map na.testBit == (List.range w).map nb.testBit) = (na == nb) := by
  by_cases h : na = nb
  · subst h; simp
  · have hne : (na == nb) = false := by simpa using h
    rw [hne]
    apply Bool.eq_false_iff.mpr
    intro heq
    apply h
    have hl : (List.range w).map na.testBit = (List.range w).map nb.testBit := by simpa using heq
    apply Nat.eq_of_testBit_eq
    intro i
    by_cases hi : i < w
    · have := congrArg (fun l => l[i]?) hl
      simp only [List.getElem?_map, List.getElem?_range hi, Option.map_some, Option.some.injEq] at this
      exact this
    · have hle : 2 ^ w ≤ 2 ^ i := Nat.pow_le_pow_right (by omega) (by omega)
      rw [Nat.testBit_lt_two_pow (Nat.lt_of_lt_of_le ha hle), Nat.testBit_lt_two_pow (Nat.lt_of_lt_of_le hb hle)]

/-! ### atoms of a pair list -/
theorem allDen_absurd (env : Env) (ps : List PairNF) (v : Bool) (h : allDen (pairDen env) ps = some v)
    (ha : ps.any PairNF.isAbsurd = true) : v = false := by
  induction ps generalizing v with
  | nil => simp at ha
  | cons p ps ih =>
    simp only [allDen] at h
    cases hp : pairDen env p with
    | none => simp [hp] at h
    | some x =>
      cases hr : allDen (pairDen env) ps with
      | none => simp [hp, hr] at h
      | some y =>
        simp only [hp, hr, Option.some.injEq] at h
        subst h
        simp only [List.any_cons, Bool.or_eq_true] at ha
        rcases ha with ha | ha
        · cases p <;> simp [PairNF.isAbsurd] at ha
          simp only [pairDen, Option.some.injEq] at hp
          subst hp; rfl
        · rw [ih y hr ha]; simp

theorem allDen_atoms (env : Env) (ps : List PairNF) (v : Bool) (h : allDen (pairDen env) ps = some v)
    (ha : ps.any PairNF.isAbsurd = false) : allDen (atomHolds env) (atomsOf ps) = some v := by
  induction ps generalizing v with
  | nil => simpa [atomsOf, allDen] using h
  | cons p ps ih =>
    simp only [allDen] at h
    simp only [List.any_cons, Bool.or_eq_false_iff] at ha
    cases hp : pairDen env p with
    | none => simp [hp] at h
    | some x =>
      cases hr : allDen (pairDen env) ps with
      | none => simp [hp, hr] at h
      | some y =>
        simp only [hp, hr, Option.some.injEq] at h
        subst h
        have ih' := ih y hr ha.2
        cases p with
        | triv =>
          simp only [pairDen, Option.some.injEq] at hp
          subst hp
          simpa [atomsOf] using ih'
        | absurd => simp [PairNF.isAbsurd] at ha
        | atom a =>
          simp only [pairDen] at hp
          simp [atomsOf, allDen, hp, ih']

theorem allDen_perm {α : Type} (f : α → Option Bool) {l1 l2 : List α} (h : l1.Perm l2) : allDen f l1 = allDen f l2 := by
  induction h with
  | nil => rfl
  | cons a _ ih => simp only [allDen, ih]
  | swap a b l =>
    simp only [allDen]
    cases f a <;> cases f b <;> cases allDen f l <;> simp [Bool.and_left_comm]
  | trans _ _ ih1 ih2 => exact ih1.trans ih2

theorem allDen_dedupe (env : Env) (l : List EqAtom) (v : Bool) (h : allDen (atomHolds env) l = some v) :
    allDen (atomHolds env) (dedupeAtoms l) = some v := by
  induction l generalizing v with
  | nil => simpa [dedupeAtoms] using h
  | cons a l ih =>
    simp only [allDen] at h
    cases hx : atomHolds env a with
    | none => simp [hx] at h
    | some x =>
      cases hr : allDen (atomHolds env) l with
      | none => simp [hx, hr] at h
      | some y =>
        simp only [hx, hr, Option.some.injEq] at h
        subst h
        have ih' := ih y hr
        simp only [dedupeAtoms]
        split
        · rename_i hmem
          have hmem' : a ∈ dedupeAtoms l := List.elem_iff.mp hmem
          have := allDen_perm (atomHolds env) (List.perm_cons_erase hmem')
          rw [ih'] at this
          simp only [allDen, hx] at this
          cases hq : allDen (atomHolds env) ((dedupeAtoms l).erase a) with
          | none => simp [hq] at this
          | some q =>
            simp only [hq, Option.some.injEq] at this
            rw [ih', this]
            cases x <;> cases q <;> rfl
        · simp [allDen, hx, ih']

/-! ### polarity, canonical form, comparison of normal forms -/
theorem nfDen_negate (env : Env) (nf : BoolNF) (v : Bool) (h : nfDen env nf = some v) : nfDen env nf.negate = some (!v) := by
  cases nf with
  | const b => simp only [nfDen, Option.some.injEq] at h; subst h; rfl
  | conj n as =>
    simp only [nfDen, BoolNF.negate] at h ⊢
    cases hd : allDen (atomHolds env) as with
    | none => simp [hd] at h
    | some d =>
      simp only [hd, Option.map_some, Option.some.injEq] at h ⊢
      subst h
      cases n <;> cases d <;> rfl

theorem nfDen_canon (env : Env) (nf : BoolNF) (v : Bool) (h : nfDen env nf = some v) : nfDen env nf.canon = some v := by
  unfold BoolNF.canon
  split
  · rename_i n
    simp only [nfDen, allDen, Option.map_some, Option.some.injEq] at h ⊢
    subst h
    cases n <;> rfl
  · rename_i l b
    simp only [nfDen, allDen, atomHolds, bitDen] at h ⊢
    cases hv : bitDen env l with
    | none => simp [hv] at h
    | some x =>
      simp only [hv, Option.map_some, Option.some.injEq] at h ⊢
      subst h
      cases x <;> cases b <;> rfl
  · exact h

theorem nfDen_same (env : Env) (x y : BoolNF) (h : x.same y = true) : nfDen env x = nfDen env y := by
  cases x with
  | const a =>
    cases y with
    | const b => simp only [BoolNF.same, beq_iff_eq] at h; subst h; rfl
    | conj m bs => simp [BoolNF.same] at h
  | conj n as =>
    cases y with
    | const b => simp [BoolNF.same] at h
    | conj m bs =>
      simp only [BoolNF.same, Bool.and_eq_true, beq_iff_eq] at h
      obtain ⟨rfl, hp⟩ := h
      simp only [nfDen, allDen_perm (atomHolds env) (List.isPerm_iff.mp hp)]

/-! ### a bit-vector with bits does not denote a Boolean -/
theorem bits_ne_bool (env : Env) (e : Expr) (bs : List Bit) (h : (norm e).1 = some bs) (hg : Good env (norm e).2) (x : Bool) :
    eval env e ≠ .bool x := by
  obtain ⟨w, n, he, _⟩ := norm_sound env e bs h hg
  rw [he]; simp

theorem bitsOf_some_not_boolOp (op : Op) (self : Expr) (obs : List (Option (List Bit))) (r : List Bit)
    (h : bitsOf op self obs = some r) : ¬ IsBoolOp op := by
  unfold bitsOf at h
  split at h <;> first
    | (simp at h; done)
    | simp [IsBoolOp]

theorem opaqueBits_some_width (e : Expr) (bs : List Bit) (h : opaqueBits e = some bs) : ∃ w, e.width = some w := by
  unfold opaqueBits at h
  split at h
  · rename_i w hw; exact ⟨w, hw⟩
  · simp at h

mutual
/-- an expression that has bits never denotes a Boolean -/
theorem bits_some_not_bool (env : Env) : ∀ (e : Expr) (bs : List Bit), (norm e).1 = some bs → ∀ x, eval env e ≠ .bool x
  | .bvv v w, _, _, x => by simp only [eval]; split <;> simp
  | .bvs n w, _, _, x => by simp only [eval]; split <;> simp
  | .boolv b, bs, h, _ => by simp [norm] at h
  | .bools n, bs, h, _ => by simp [norm] at h
  | .app op args, bs, h, x => by
    have hall := bitsList_some_not_bool env args
    intro hev
    simp only [norm, normList_eq_map, normApp, List.map_map] at h
    split at h
    · rename_i r hr
      have hnb := bitsOf_some_not_boolOp _ _ _ _ hr
      rw [eval_app] at hev
      rcases applyOp_bool_cases op _ x hev with hb | ⟨rfl, c, va, vb, y, hvs, hva⟩ | ⟨rfl, hvs⟩
      · exact hnb hb
      · -- an `If` with bits has bit-vector branches
        match args, hvs with
        | [ec, ea, eb], hvs =>
          simp only [evalList, List.cons.injEq, and_true] at hvs
          simp only [List.map_cons, List.map_nil, Function.comp_apply] at hr
          cases hba : (norm ea).1 with
          | none => simp [hba, bitsOf] at hr
          | some ba => exact hall ea (by simp) ba hba y (by rw [hvs.2.1, hva])
        | [], hvs => simp [evalList] at hvs
        | [_], hvs => simp [evalList] at hvs
        | [_, _], hvs => simp [evalList] at hvs
        | _ :: _ :: _ :: _ :: _, hvs => simp [evalList] at hvs
      · -- Concat of a single Boolean-valued operand
        match args, hvs with
        | [a], hvs =>
          simp only [evalList, List.cons.injEq, and_true] at hvs
          simp only [List.map_cons, List.map_nil, Function.comp_apply, bitsOf, concatBits] at hr
          cases hba : (norm a).1 with
          | none => simp [hba, concatBits] at hr
          | some ba => exact hall a (List.mem_singleton.mpr rfl) ba hba x hvs
        | [], hvs => simp [evalList] at hvs
        | _ :: _ :: _, hvs => simp [evalList] at hvs
    · obtain ⟨w, hw⟩ := opaqueBits_some_width _ _ h
      have := eval_bool_width env _ x hev
      rw [hw] at this
      cases this
theorem bitsList_some_not_bool (env : Env) : ∀ (es : List Expr) (e : Expr), e ∈ es → ∀ (bs : List Bit), (norm e).1 = some bs →
    ∀ x, eval env e ≠ .bool x
  | [], e, he, _, _, _ => by simp at he
  | a :: as, e, he, bs, h, x => by
    simp only [List.mem_cons] at he
    rcases he with rfl | he
    · exact bits_some_not_bool env e bs h x
    · exact bitsList_some_not_bool env as e he bs h x
end

/-! ### the (dis)equality normal form describes the truth value -/
theorem eqNF_sound (env : Env) (a b : Expr) (ba bb : List Bit) (ha : (norm a).1 = some ba) (hb : (norm b).1 = some bb)
    (hga : Good env (norm a).2) (hgb : Good env (norm b).2) (nf : BoolNF) (hnf : eqNF ba bb = some nf) :
    ∃ v, eval env (.app .eq [a, b]) = .bool v ∧ nfDen env nf = some v := by
  obtain ⟨wa, na, hea, Da⟩ := norm_sound env a ba ha hga
  obtain ⟨wb, nb, heb, Db⟩ := norm_sound env b bb hb hgb
  simp only [eqNF, Option.map_eq_some_iff] at hnf
  obtain ⟨ps, hps, rfl⟩ := hnf
  have hlen := zipPairs_length ba bb ps hps
  have hw : wa = wb := by rw [← Da.len, ← Db.len, hlen]
  subst hw
  have hden := zipPairs_den env ba bb ps _ _ hps (describes_dens Da) (describes_dens Db)
  rw [testBits_eq_iff wa na nb Da.lt Db.lt] at hden
  refine ⟨na == nb, ?_, ?_⟩
  · rw [eval_app]
    simp only [evalList, applyOp, hea, heb, valEq, Da.pos, and_self, if_true]
    congr 1
    by_cases h : na = nb
    · subst h; simp
    · have : BitVec.ofNat wa na ≠ BitVec.ofNat wa nb := by
        intro hc
        have := congrArg BitVec.toNat hc
        simp only [BitVec.toNat_ofNat, Nat.mod_eq_of_lt Da.lt, Nat.mod_eq_of_lt Db.lt] at this
        exact h this
      have e1 : (BitVec.ofNat wa na == BitVec.ofNat wa nb) = false := by simpa using this
      have e2 : (na == nb) = false := by simpa using h
      rw [e1, e2]
  · split
    · rename_i habs
      have := allDen_absurd env ps _ hden habs
      simp [nfDen, this]
    · rename_i habs
      have habs' : ps.any PairNF.isAbsurd = false := by simpa using habs
      have h1 := allDen_atoms env ps _ hden habs'
      have h2 := allDen_dedupe env _ _ h1
      simp [nfDen, h2]

theorem good_left {env : Env} {a b : List Expr} (h : Good env (a ++ b)) : Good env a := fun t ht => h t (List.mem_append_left _ ht)
theorem good_right {env : Env} {a b : List Expr} (h : Good env (a ++ b)) : Good env b := fun t ht => h t (List.mem_append_right _ ht)

theorem boolNF_sound (env : Env) (e : Expr) (nf : BoolNF) (ts : List Expr) (h : boolNF e = some (nf, ts)) (hg : Good env ts) :
    ∃ v, eval env e = .bool v ∧ nfDen env nf = some v := by
  unfold boolNF at h
  split at h
  · rename_i b
    simp only [Option.some.injEq, Prod.mk.injEq] at h
    obtain ⟨rfl, rfl⟩ := h
    exact ⟨b, by simp [eval], rfl⟩
  · rename_i a b
    split at h
    · rename_i ba bb hba hbb
      simp only [Option.map_eq_some_iff, Prod.mk.injEq] at h
      obtain ⟨nf', hnf', rfl, rfl⟩ := h
      exact eqNF_sound env a b ba bb hba hbb (good_left hg) (good_right hg) nf' hnf'
    · simp at h
  · rename_i a b
    split at h
    · rename_i ba bb hba hbb
      simp only [Option.map_eq_some_iff, Prod.mk.injEq] at h
      obtain ⟨nf', hnf', rfl, rfl⟩ := h
      obtain ⟨v, hv, hd⟩ := eqNF_sound env a b ba bb hba hbb (good_left hg) (good_right hg) nf' hnf'
      refine ⟨!v, ?_, nfDen_negate env nf' v hd⟩
      rw [eval_app] at hv ⊢
      simp only [evalList, applyOp] at hv ⊢
      rw [hv]; rfl
    · simp at h
  · simp at h

/-- the opaque terms of a well-typed (dis)equality are well-typed -/
theorem boolNF_good (env : Env) (e : Expr) (nf : BoolNF) (ts : List Expr) (h : boolNF e = some (nf, ts)) (v : Bool)
    (he : eval env e = .bool v) : Good env ts := by
  have key : ∀ (a b : Expr) (ba bb : List Bit), (norm a).1 = some ba → (norm b).1 = some bb →
      valEq (eval env a) (eval env b) ≠ .err → Good env ((norm a).2 ++ (norm b).2) := by
    intro a b ba bb hba hbb hne
    have ha : eval env a ≠ .err := by intro hc; rw [hc] at hne; simp [valEq] at hne
    have hb : eval env b ≠ .err := by intro hc; rw [hc] at hne; cases eval env a <;> simp [valEq] at hne
    intro t ht
    rcases List.mem_append.mp ht with h1 | h1
    · exact norm_good env a ha t h1
    · exact norm_good env b hb t h1
  unfold boolNF at h
  split at h
  · simp only [Option.some.injEq, Prod.mk.injEq] at h
    obtain ⟨_, rfl⟩ := h
    intro t ht; simp at ht
  · rename_i a b
    split at h
    · rename_i ba bb hba hbb
      simp only [Option.map_eq_some_iff, Prod.mk.injEq] at h
      obtain ⟨_, _, _, rfl⟩ := h
      rw [eval_app] at he
      simp only [evalList, applyOp] at he
      exact key a b ba bb hba hbb (by rw [he]; simp)
    · simp at h
  · rename_i a b
    split at h
    · rename_i ba bb hba hbb
      simp only [Option.map_eq_some_iff, Prod.mk.injEq] at h
      obtain ⟨_, _, _, rfl⟩ := h
      rw [eval_app] at he
      simp only [evalList, applyOp] at he
      refine key a b ba bb hba hbb ?_
      intro hc
      rw [hc] at he
      simp at he
    · simp at h
  · simp at h

/-- the right-hand side form: a (dis)equality as before, or a bare Boolean term (possibly under `Not`) -/
theorem boolNFr_sound (env : Env) (e : Expr) (nf : BoolNF) (ts : List Expr) (h : boolNFr e = some (nf, ts)) (hg : Good env ts) :
    ∃ v, eval env e = .bool v ∧ nfDen env nf = some v := by
  unfold boolNFr at h
  split at h
  · rename_i r hr
    simp only [Option.some.injEq] at h
    subst h
    exact boolNF_sound env e nf ts hr hg
  · split at h
    · rename_i c _
      split at h
      · rename_i hw
        simp only [Option.some.injEq, Prod.mk.injEq] at h
        obtain ⟨rfl, rfl⟩ := h
        obtain ⟨v, hv⟩ := bool_of_no_width env c hw (hg c (by simp))
        refine ⟨!v, ?_, ?_⟩
        · rw [eval_app]; simp [evalList, applyOp, hv, valNot]
        · simp only [nfDen, allDen, atomHolds, bitDen, hv]
          cases v <;> rfl
      · simp at h
    · split at h
      · rename_i hw
        simp only [Option.some.injEq, Prod.mk.injEq] at h
        obtain ⟨rfl, rfl⟩ := h
        obtain ⟨v, hv⟩ := bool_of_no_width env e hw (hg e (by simp))
        refine ⟨v, hv, ?_⟩
        simp only [nfDen, allDen, atomHolds, bitDen, hv]
        cases v <;> rfl
      · simp at h

/-- **comparison rewrites preserve truth**: if `cmpEquiv lhs rhs` accepts and `lhs` denotes a Boolean under `env`, `rhs`
denotes the same Boolean. -/
theorem cmpEquiv_sound (lhs rhs : Expr) (h : cmpEquiv lhs rhs = true) (env : Env) (v : Bool) (hl : eval env lhs = .bool v) :
    eval env rhs = eval env lhs := by
  unfold cmpEquiv at h
  split at h
  · rename_i x tl y tr hx hy
    simp only [Bool.and_eq_true, List.all_eq_true, List.elem_eq_contains, List.contains_eq_mem, decide_eq_true_eq] at h
    obtain ⟨hsame, hsub⟩ := h
    have hgl := boolNF_good env lhs x tl hx v hl
    have hgr : Good env tr := fun t ht => hgl t (hsub t ht)
    obtain ⟨v1, h1, d1⟩ := boolNF_sound env lhs x tl hx hgl
    obtain ⟨v2, h2, d2⟩ := boolNFr_sound env rhs y tr hy hgr
    have e1 := nfDen_canon env x v1 d1
    have e2 := nfDen_canon env y v2 d2
    rw [nfDen_same env _ _ hsame, e2] at e1
    simp only [Option.some.injEq] at e1
    rw [h1, h2, e1]
  · simp at h

/-! non-vacuity: a comparison through an `If` between two literals collapses to the condition; atoms over a bitwise
operation on two symbolic bits -/
example : cmpEquiv (.app .ne [.app .concat [.bvv 0 8, .app .ite [.app .sge [.bvs "z" 2, .bvs "y" 2], .bvv 0 2, .bvv 3 2]], .bvv 3 10])
    (.app .sge [.bvs "z" 2, .bvs "y" 2]) = true := by decide
example : cmpEquiv (.app .eq [.app .concat [.bvv 0 8, .app .ite [.bools "c", .bvv 0 2, .bvv 3 2]], .bvv 3 10])
    (.app .not [.bools "c"]) = true := by decide
example : cmpEquiv (.app .ne [.app .band [.app .bor [.bvs "y" 4, .bvs "x" 4], .bvv 1 4], .bvv 0 4])
    (.app .ne [.app .bor [.app (.extract 0 0) [.bvs "y" 4], .app (.extract 0 0) [.bvs "x" 4]], .bvv 0 1]) = true := by decide
example : cmpEquiv (.app .eq [.app (.zeroExt 1) [.app .ite [.app .not [.bools "p"], .bvv 1 1, .bvv 0 1]], .bvv 1 2]) (.app .not [.bools "p"]) = true := by
  decide
example : cmpEquiv (.app .eq [.app (.zeroExt 1) [.app .ite [.app .not [.bools "p"], .bvv 1 1, .bvv 0 1]], .bvv 1 2]) (.bools "p") = false := by
  decide
example : cmpEquiv (.app .eq [.app .concat [.bvv 0 8, .app .ite [.bools "c", .bvv 0 2, .bvv 3 2]], .bvv 3 10]) (.bools "c") = false := by
  decide
example : cmpEquiv (.app .ne [.app .concat [.bvv 0 8, .app .ite [.bools "c", .bvv 0 2, .bvv 3 2]], .bvv 3 10]) (.bools "d") = false := by
  decide

end Claripy.AST
