import Claripy.AST.MinMax
import ClaripyProofs.Lemmas.AST.RulesBase
import ClaripyProofs.Lemmas.AST.Beq
import ClaripyProofs.Props.C05
import Mathlib.Data.BitVec
/-!
Soundness of `minmaxEquiv` (Claripy/AST/MinMax.lean): the branch-free signed min/max idiom equals `If(q <=s r, ·, ·)` at every
width, whatever the order of the operands of its `^` and `&` nodes.
-/
namespace Claripy.AST

theorem msb_sub_of_msb_eq {w : Nat} (x y : BitVec w) (h : x.msb = y.msb) : (x - y).msb = x.ult y := by
  by_cases hw : w = 0
  · subst hw; simp [BitVec.of_length_zero]
  have hx := x.isLt
  have hy := y.isLt
  have hp : 2 ^ w = 2 * 2 ^ (w - 1) := by
    obtain ⟨k, rfl⟩ : ∃ k, w = k + 1 := ⟨w - 1, by omega⟩
    simp [Nat.pow_succ, Nat.mul_comm]
  simp only [BitVec.msb_eq_decide, decide_eq_decide] at h
  rw [BitVec.msb_eq_decide, BitVec.ult, BitVec.toNat_sub]
  rw [decide_eq_decide]
  by_cases hlt : x.toNat < y.toNat
  · simp only [hlt, iff_true]
    have : (2 ^ w - y.toNat + x.toNat) % 2 ^ w = 2 ^ w - y.toNat + x.toNat := Nat.mod_eq_of_lt (by omega)
    rw [this]
    by_cases hxm : 2 ^ (w - 1) ≤ x.toNat
    · have := h.mp hxm; omega
    · have : ¬ 2 ^ (w - 1) ≤ y.toNat := fun hc => hxm (h.mpr hc)
      omega
  · simp only [hlt, iff_false, Nat.not_le]
    have e : 2 ^ w - y.toNat + x.toNat = 2 ^ w + (x.toNat - y.toNat) := by omega
    rw [e, Nat.add_mod_left, Nat.mod_eq_of_lt (by omega)]
    by_cases hxm : 2 ^ (w - 1) ≤ x.toNat
    · have := h.mp hxm; omega
    · omega

theorem key_msb {w : Nat} (x y : BitVec w) :
    ((((x - y) ^^^ x) &&& (x ^^^ y)) ^^^ (x - y)).msb = x.slt y := by
  simp only [BitVec.msb_xor, BitVec.msb_and]
  by_cases h : x.msb = y.msb
  · rw [BitVec.slt_eq_ult_of_msb_eq h, msb_sub_of_msb_eq x y h, h]
    cases y.msb <;> simp
  · rw [BitVec.slt_eq_not_ult_of_msb_neq h, BitVec.ult_eq_msb_of_msb_neq h]
    cases hx : x.msb <;> cases hy : y.msb <;> simp_all

theorem sshiftRight_top {w : Nat} (x : BitVec w) (hw : 0 < w) :
    x.sshiftRight (w - 1) = if x.msb then BitVec.allOnes w else 0#w := by
  apply BitVec.eq_of_getLsbD_eq
  intro i hi
  rw [BitVec.getLsbD_sshiftRight]
  have : (!decide (w ≤ i)) = true := by simp; omega
  rw [this, Bool.true_and]
  by_cases h0 : i = 0
  · subst h0
    rw [if_pos (by omega), Nat.add_zero, ← BitVec.msb_eq_getLsbD_last]
    cases x.msb <;> simp [hw]
  · rw [if_neg (by omega)]
    cases x.msb <;> simp [hi]

theorem max_idiom {w : Nat} (x y : BitVec w) (hw : 0 < w) :
    x ^^^ ((BitVec.sshiftRight' ((((x - y) ^^^ x) &&& (x ^^^ y)) ^^^ (x - y)) (BitVec.ofNat w (w - 1))) &&& (x ^^^ y)) =
      if x.sle y then y else x := by
  have hlt : w - 1 < 2 ^ w := Nat.lt_of_lt_of_le (by omega) (Nat.lt_two_pow_self).le
  rw [BitVec.sshiftRight_eq', BitVec.toNat_ofNat, Nat.mod_eq_of_lt hlt, sshiftRight_top _ hw, key_msb]
  by_cases hs : x.slt y
  · have : x.sle y = true := by rw [BitVec.sle_eq_slt_or_eq]; simp [hs]
    simp only [hs, this, if_true]
    rw [BitVec.allOnes_and, ← BitVec.xor_assoc, BitVec.xor_self, BitVec.zero_xor]
  · have hs' : x.slt y = false := by simpa using hs
    simp only [hs', Bool.false_eq_true, if_false, BitVec.zero_and, BitVec.xor_zero]
    by_cases he : x = y
    · subst he; simp
    · have : x.sle y = false := by rw [BitVec.sle_eq_slt_or_eq]; simp [hs', he]
      simp [this]

theorem min_idiom {w : Nat} (x y : BitVec w) (hw : 0 < w) :
    x ^^^ ((BitVec.sshiftRight' ((((y - x) ^^^ y) &&& (x ^^^ y)) ^^^ (y - x)) (BitVec.ofNat w (w - 1))) &&& (x ^^^ y)) =
      if x.sle y then x else y := by
  have hlt : w - 1 < 2 ^ w := Nat.lt_of_lt_of_le (by omega) (Nat.lt_two_pow_self).le
  have hk := key_msb y x
  rw [BitVec.xor_comm y x] at hk
  rw [BitVec.sshiftRight_eq', BitVec.toNat_ofNat, Nat.mod_eq_of_lt hlt, sshiftRight_top _ hw, hk, BitVec.sle_eq_not_slt]
  cases hs : y.slt x
  · simp
  · simp only [if_true, Bool.not_true, Bool.false_eq_true, if_false]
    rw [BitVec.allOnes_and, ← BitVec.xor_assoc, BitVec.xor_self, BitVec.zero_xor]


/-! ### equality modulo the order of commutative binary operands -/
theorem bvBin_comm (f : (w : Nat) → BitVec w → BitVec w → BitVec w) (hf : ∀ w (a b : BitVec w), f w a b = f w b a) (x y : Val) :
    bvBin f x y = bvBin f y x := by
  cases x <;> cases y <;> simp only [bvBin]
  rename_i w a w' b
  by_cases h : w = w' ∧ 0 < w
  · obtain ⟨rfl, hw⟩ := h
    simp [hw, hf]
  · have h' : ¬ (w' = w ∧ 0 < w') := fun hc => h ⟨hc.1.symm, hc.1 ▸ hc.2⟩
    simp [h, h']

theorem applyOp_comm2 (op : Op) (h : isCommBin op = true) (x y : Val) : applyOp op [x, y] = applyOp op [y, x] := by
  cases op <;> simp [isCommBin] at h <;> simp only [applyOp, foldVals, List.foldl]
  · exact bvBin_comm _ (fun _ a b => BitVec.add_comm a b) x y
  · exact bvBin_comm _ (fun _ a b => BitVec.mul_comm a b) x y
  · exact bvBin_comm _ (fun _ a b => BitVec.and_comm a b) x y
  · exact bvBin_comm _ (fun _ a b => BitVec.or_comm a b) x y
  · exact bvBin_comm _ (fun _ a b => BitVec.xor_comm a b) x y

mutual
theorem eqModComm_sound (env : Env) : ∀ (a b : Expr), eqModComm a b = true → eval env a = eval env b
  | .app op args, .app op' args', h => by
    rw [eqModComm] at h
    simp only [Bool.and_eq_true, decide_eq_true_eq, Bool.or_eq_true] at h
    obtain ⟨rfl, h⟩ := h
    rcases h with h | ⟨hc, h⟩
    · rw [eval_app, eval_app, eqModCommList_sound env args args' h]
    · obtain ⟨x, y, hx⟩ := eqModSwap_sound env args args' h
      rw [eval_app, eval_app, hx.1, hx.2]
      exact applyOp_comm2 op hc _ _
  | .bvv v w, .bvv v' w', h => by
    simp only [eqModComm, Bool.and_eq_true, beq_iff_eq] at h
    rw [h.1, h.2]
  | .bvs n w, .bvs n' w', h => by
    simp only [eqModComm, Bool.and_eq_true, beq_iff_eq] at h
    rw [h.1, h.2]
  | .boolv b, .boolv b', h => by
    simp only [eqModComm, beq_iff_eq] at h
    rw [h]
  | .bools n, .bools n', h => by
    simp only [eqModComm, beq_iff_eq] at h
    rw [h]
  | .app _ _, .bvv _ _, h | .app _ _, .bvs _ _, h | .app _ _, .boolv _, h | .app _ _, .bools _, h
  | .bvv _ _, .app _ _, h | .bvv _ _, .bvs _ _, h | .bvv _ _, .boolv _, h | .bvv _ _, .bools _, h
  | .bvs _ _, .app _ _, h | .bvs _ _, .bvv _ _, h | .bvs _ _, .boolv _, h | .bvs _ _, .bools _, h
  | .boolv _, .app _ _, h | .boolv _, .bvv _ _, h | .boolv _, .bvs _ _, h | .boolv _, .bools _, h
  | .bools _, .app _ _, h | .bools _, .bvv _ _, h | .bools _, .bvs _ _, h | .bools _, .boolv _, h => by
    simp [eqModComm] at h
theorem eqModCommList_sound (env : Env) : ∀ (as bs : List Expr), eqModCommList as bs = true → evalList env as = evalList env bs
  | [], [], _ => rfl
  | a :: as, b :: bs, h => by
    simp only [eqModCommList, Bool.and_eq_true] at h
    simp only [evalList, eqModComm_sound env a b h.1, eqModCommList_sound env as bs h.2]
  | [], _ :: _, h | _ :: _, [], h => by simp [eqModCommList] at h
theorem eqModSwap_sound (env : Env) : ∀ (as bs : List Expr), eqModSwap as bs = true →
    ∃ x y, evalList env as = [x, y] ∧ evalList env bs = [y, x]
  | [a, b], [a', b'], h => by
    rw [eqModSwap] at h
    simp only [Bool.and_eq_true] at h
    exact ⟨eval env a, eval env b, by simp [evalList], by simp [evalList, eqModComm_sound env a b' h.1, eqModComm_sound env b a' h.2]⟩
  | [], _, h => by simp [eqModSwap] at h
  | [_], _, h => by simp [eqModSwap] at h
  | _ :: _ :: _ :: _, _, h => by simp [eqModSwap] at h
  | [_, _], [], h => by simp [eqModSwap] at h
  | [_, _], [_], h => by simp [eqModSwap] at h
  | [_, _], _ :: _ :: _ :: _, h => by simp [eqModSwap] at h
end

/-! ### the canonical idiom -/
theorem canon_views (env : Env) (q r : Expr) (w : Nat) (e : Expr) (he : e = maxCanon q r w ∨ e = minCanon q r w) (w' n : Nat)
    (h : eval env e = .bv w' n) :
    ∃ (X Y : BitVec w), 0 < w ∧ eval env q = Val.ofBV X ∧ eval env r = Val.ofBV Y := by
  -- the outermost xor has q as an operand; the subtraction has q and r; the shift amount literal has width w
  have hq : ∃ wq nq, eval env q = .bv wq nq := by
    rcases he with rfl | rfl <;>
    · simp only [maxCanon, minCanon, idiomTail, eval_app, evalList_cons, evalList_nil, applyOp, foldVals, List.foldl] at h
      cases hq : eval env q with
      | err => simp [hq] at h
      | bool b => simp [hq] at h
      | bv wq nq => exact ⟨wq, nq, rfl⟩
  obtain ⟨wq, nq, hq⟩ := hq
  have hqwf : (Val.bv wq nq).WF := hq ▸ eval_wf env q
  obtain ⟨X, hX, hwq⟩ := hqwf.exists_bv
  rw [hX] at hq
  -- r and the literal
  cases hr : eval env r with
  | err =>
    exfalso
    rcases he with rfl | rfl <;>
      simp [maxCanon, minCanon, idiomTail, eval_app, evalList_cons, evalList_nil, applyOp, foldVals, List.foldl, hq, hr] at h
  | bool b =>
    exfalso
    rcases he with rfl | rfl <;>
      simp [maxCanon, minCanon, idiomTail, eval_app, evalList_cons, evalList_nil, applyOp, foldVals, List.foldl, hq, hr] at h
  | bv wr nr =>
    have hrwf : (Val.bv wr nr).WF := hr ▸ eval_wf env r
    obtain ⟨Y, hY, hwr⟩ := hrwf.exists_bv
    by_cases hww : wq = wr
    · subst hww
      by_cases hw : wq = w ∧ 0 < w
      · obtain ⟨rfl, hw0⟩ := hw
        exact ⟨X, Y, hw0, hq, by rw [hY]⟩
      · exfalso
        rw [hY] at hr
        by_cases hw0 : 0 < w
        · have hne : wq ≠ w := fun hc => hw ⟨hc, hw0⟩
          rcases he with rfl | rfl <;>
            simp [maxCanon, minCanon, idiomTail, eval_app, evalList_cons, evalList_nil, applyOp, foldVals, List.foldl, hq, hr,
              bvBin_ofBV _ _ _ hwq, eval_bvv env _ w hw0, bvBin_ofBV_ne _ _ _ hne] at h
        · rcases he with rfl | rfl <;>
            simp [maxCanon, minCanon, idiomTail, eval_app, evalList_cons, evalList_nil, applyOp, foldVals, List.foldl, hq, hr,
              bvBin_ofBV _ _ _ hwq, eval_bvv_err env _ w hw0] at h
    · exfalso
      rw [hY] at hr
      rcases he with rfl | rfl <;>
        simp [maxCanon, minCanon, idiomTail, eval_app, evalList_cons, evalList_nil, applyOp, foldVals, List.foldl, hq, hr,
          bvBin_ofBV_ne _ _ _ hww, bvBin_ofBV_ne _ _ _ (Ne.symm hww)] at h

theorem maxCanon_sound (env : Env) (q r : Expr) (w w' n : Nat) (h : eval env (maxCanon q r w) = .bv w' n) :
    eval env (.app .ite [.app .sle [q, r], r, q]) = eval env (maxCanon q r w) := by
  obtain ⟨X, Y, hw, hq, hr⟩ := canon_views env q r w _ (Or.inl rfl) w' n h
  simp only [maxCanon, idiomTail, eval_app, evalList_cons, evalList_nil, applyOp, foldVals, List.foldl, hq, hr,
    bvBin_ofBV _ _ _ hw, bvCmp_ofBV _ _ _ hw, eval_bvv env _ w hw]
  rw [max_idiom X Y hw]
  cases BitVec.sle X Y <;> simp

theorem minCanon_sound (env : Env) (q r : Expr) (w w' n : Nat) (h : eval env (minCanon q r w) = .bv w' n) :
    eval env (.app .ite [.app .sle [q, r], q, r]) = eval env (minCanon q r w) := by
  obtain ⟨X, Y, hw, hq, hr⟩ := canon_views env q r w _ (Or.inr rfl) w' n h
  simp only [minCanon, idiomTail, eval_app, evalList_cons, evalList_nil, applyOp, foldVals, List.foldl, hq, hr,
    bvBin_ofBV _ _ _ hw, bvCmp_ofBV _ _ _ hw, eval_bvv env _ w hw]
  rw [min_idiom X Y hw]
  cases BitVec.sle X Y <;> simp

/-- **the min/max idiom**: a rewrite accepted by `minmaxEquiv` preserves the value of a well-typed idiom -/
theorem minmaxEquiv_sound (lhs rhs : Expr) (h : minmaxEquiv lhs rhs = true) (env : Env) (w n : Nat)
    (hl : eval env lhs = .bv w n) : eval env rhs = eval env lhs := by
  unfold minmaxEquiv at h
  split at h
  · rename_i q r a b
    split at h
    · rename_i wq _
      simp only [Bool.or_eq_true, Bool.and_eq_true, beq_iff_eq] at h
      rcases h with ⟨⟨ha, hb⟩, hc⟩ | ⟨⟨ha, hb⟩, hc⟩
      · have e := eqModComm_sound env lhs _ hc
        rw [e] at hl ⊢
        rw [ha, hb]
        exact maxCanon_sound env q r wq w n hl
      · have e := eqModComm_sound env lhs _ hc
        rw [e] at hl ⊢
        rw [ha, hb]
        exact minCanon_sound env q r wq w n hl
    · simp at h
  · simp at h

end Claripy.AST
