import ClaripyProofs.Lemmas.AST.RulesSound2
/-! Soundness of `R.extractRules` (`Extract` distributes over the bitwise operations with any number of operands and over
`If`), and the master theorem over `R.all`. -/
namespace Claripy.AST

/-- `Extract(hi, lo, ·)` on values -/
def extrV (hi lo : Nat) (v : Val) : Val := applyOp (.extract hi lo) [v]

@[simp] theorem extrV_err (hi lo : Nat) : extrV hi lo .err = .err := rfl
@[simp] theorem extrV_bool (hi lo : Nat) (b : Bool) : extrV hi lo (.bool b) = .err := rfl
theorem extrV_bv (hi lo w n : Nat) :
    extrV hi lo (.bv w n) = if lo ≤ hi ∧ hi < w then .bv (hi - lo + 1) (BitVec.extractLsb hi lo (BitVec.ofNat w n)).toNat else .err := rfl

/-- a bitwise operation: it commutes with taking a slice -/
structure Slicing (g : (w : Nat) → BitVec w → BitVec w → BitVec w) : Prop where
  comm : ∀ (w : Nat) (x y : BitVec w) (hi lo : Nat),
    BitVec.extractLsb hi lo (g w x y) = g (hi - lo + 1) (BitVec.extractLsb hi lo x) (BitVec.extractLsb hi lo y)

theorem slicing_and : Slicing (fun _ x y => x &&& y) := ⟨fun _ _ _ _ _ => BitVec.extractLsb_and⟩
theorem slicing_or : Slicing (fun _ x y => x ||| y) := ⟨fun _ _ _ _ _ => BitVec.extractLsb_or⟩
theorem slicing_xor : Slicing (fun _ x y => x ^^^ y) := ⟨fun _ _ _ _ _ => BitVec.extractLsb_xor⟩

theorem extrV_bvBin {g} (sg : Slicing g) (hi lo : Nat) (a b : Val) (h : extrV hi lo (bvBin g a b) ≠ .err) :
    bvBin g (extrV hi lo a) (extrV hi lo b) = extrV hi lo (bvBin g a b) := by
  cases a with
  | err => simp [bvBin] at h
  | bool _ => simp [bvBin] at h
  | bv w x =>
    cases b with
    | err => simp [bvBin] at h
    | bool _ => simp [bvBin] at h
    | bv w' y =>
      by_cases hw : w = w' ∧ 0 < w
      · obtain ⟨rfl, hw0⟩ := hw
        simp only [bvBin, true_and, hw0, if_true] at h ⊢
        simp only [extrV_bv] at h ⊢
        by_cases hc : lo ≤ hi ∧ hi < w
        · simp only [hc, and_self, if_true, true_and] at h ⊢
          have hpos : 0 < hi - lo + 1 := by omega
          simp only [hpos, if_true, BitVec.ofNat_toNat, BitVec.setWidth_eq, sg.comm]
        · simp [hc] at h
      · simp [bvBin, hw] at h

theorem extrV_bvBin_err {g} (hi lo : Nat) (a b : Val) (h : extrV hi lo a = .err) : extrV hi lo (bvBin g a b) = .err := by
  cases a with
  | err => simp [bvBin]
  | bool _ => simp [bvBin]
  | bv w x =>
    cases b with
    | err => simp [bvBin]
    | bool _ => simp [bvBin]
    | bv w' y =>
      simp only [bvBin]
      split
      · simp only [extrV_bv] at h ⊢
        split at h
        · cases h
        · rename_i hc; simp [hc]
      · rfl

theorem extrV_foldl_err {g} (hi lo : Nat) (vs : List Val) (acc : Val) (h : extrV hi lo acc = .err) :
    extrV hi lo (vs.foldl (bvBin g) acc) = .err := by
  induction vs generalizing acc with
  | nil => exact h
  | cons v rest ih => exact ih _ (extrV_bvBin_err hi lo acc v h)

theorem extrV_foldl {g} (sg : Slicing g) (hi lo : Nat) (vs : List Val) (acc : Val)
    (h : extrV hi lo (vs.foldl (bvBin g) acc) ≠ .err) :
    (vs.map (extrV hi lo)).foldl (bvBin g) (extrV hi lo acc) = extrV hi lo (vs.foldl (bvBin g) acc) := by
  induction vs generalizing acc with
  | nil => rfl
  | cons v rest ih =>
    simp only [List.map_cons, List.foldl_cons] at h ⊢
    have hne : extrV hi lo (bvBin g acc v) ≠ .err := fun he => h (extrV_foldl_err hi lo rest _ he)
    rw [extrV_bvBin sg hi lo acc v hne]
    exact ih _ h

theorem eval_extr (env : Env) (p : P) (e : Expr) : eval env (R.extr p e) = extrV p.c1 p.c2 (eval env e) := by
  simp [R.extr, eval_app, evalList_cons, evalList_nil, extrV]

theorem extract_nary_sound (op : Op) (g) (sg : Slicing g)
    (hop : ∀ a b l, applyOp op (a :: b :: l) = foldVals (bvBin g) (a :: b :: l))
    (p : P) (env : Env) (hs : R.twoPlus p = true)
    (hwt : eval env (R.extr p (.app op p.xs)) ≠ .err) :
    eval env (.app op (p.xs.map (R.extr p))) = eval env (R.extr p (.app op p.xs)) := by
  simp only [R.twoPlus, decide_eq_true_eq] at hs
  obtain ⟨a, b, l, hxs⟩ : ∃ a b l, p.xs = a :: b :: l := by
    cases h : p.xs with
    | nil => simp [h] at hs
    | cons a r =>
      cases r with
      | nil => simp [h] at hs
      | cons b l => exact ⟨a, b, l, rfl⟩
  rw [eval_extr] at hwt ⊢
  rw [hxs] at hwt ⊢
  simp only [eval_app, evalList_eq_map, List.map_cons, hop, foldVals, List.foldl_cons] at hwt ⊢
  simp only [List.map_map, eval_extr] at hwt ⊢
  have key := extrV_foldl sg p.c1 p.c2 (eval env b :: l.map (eval env)) (eval env a) (by simpa [List.foldl_cons] using hwt)
  simp only [List.map_cons, List.foldl_cons, List.map_map] at key
  have hfun : (fun x => eval env (R.extr p x)) = (extrV p.c1 p.c2 ∘ eval env) := by
    funext x; exact eval_extr env p x
  simpa [Function.comp_def, eval_extr] using key

theorem extract_and_sound : Sound R.extract_and := fun p env hs hwt =>
  extract_nary_sound .band _ slicing_and (fun _ _ _ => rfl) p env hs hwt
theorem extract_or_sound : Sound R.extract_or := fun p env hs hwt =>
  extract_nary_sound .bor _ slicing_or (fun _ _ _ => rfl) p env hs hwt
theorem extract_xor_sound : Sound R.extract_xor := fun p env hs hwt =>
  extract_nary_sound .bxor _ slicing_xor (fun _ _ _ => rfl) p env hs hwt

theorem extrV_valIte (hi lo : Nat) (c a b : Val) (h : extrV hi lo (valIte c a b) ≠ .err) :
    valIte c (extrV hi lo a) (extrV hi lo b) = extrV hi lo (valIte c a b) := by
  cases c with
  | err => simp [valIte] at h
  | bv _ _ => simp [valIte] at h
  | bool c =>
    cases a with
    | err => simp [valIte] at h
    | bool _ => cases b <;> simp [valIte] at h
    | bv w x =>
      cases b with
      | err => simp [valIte] at h
      | bool _ => simp [valIte] at h
      | bv w' y =>
        by_cases hw : w = w'
        · subst hw
          by_cases hcnd : lo ≤ hi ∧ hi < w
          · cases c <;> simp [valIte, extrV_bv, hcnd]
          · cases c <;> simp [valIte, extrV_bv, hcnd] at h
        · simp [valIte, hw] at h

theorem extract_ite_sound : Sound R.extract_ite := by
  intro p env _ hwt
  simp only [R.extract_ite] at hwt ⊢
  rw [eval_extr] at hwt ⊢
  simp only [eval_app, evalList_cons, evalList_nil, applyOp, eval_extr] at hwt ⊢
  exact extrV_valIte _ _ _ _ _ hwt

theorem extractRules_sound : ∀ s ∈ R.extractRules, Sound s := by
  intro s hs
  simp only [R.extractRules, List.mem_cons, List.mem_nil_iff, or_false] at hs
  rcases hs with h | h | h | h <;> subst h
  · exact extract_and_sound
  · exact extract_or_sound
  · exact extract_xor_sound
  · exact extract_ite_sound

theorem all_sound : ∀ s ∈ R.all, Sound s := by
  intro s hs
  rcases List.mem_append.mp hs with h | h
  · exact pre_sound s h
  · exact extractRules_sound s h

end Claripy.AST
