import ClaripyProofs.Lemmas.AST.RulesSound
import ClaripyProofs.Props.C05
import Mathlib.Data.BitVec
import Mathlib.Tactic.Ring
import ClaripyProofs.Lemmas.BV.Reverse
/-! Soundness of the schemas of `Claripy.AST.R.widthy` (their side conditions use the width `Expr.width` reports, which
`Claripy.Props.C05.eval_width` ties to evaluation), and the master theorem over `R.all`. -/
namespace Claripy.AST
open Claripy.Props.C05 (eval_width)

theorem self_rule_aux (env : Env) (x : Expr) (w : Nat) (hw : x.width = some w)
    (g : (w : Nat) → BitVec w → BitVec w → BitVec w) (hg : ∀ w (a : BitVec w), g w a a = 0#w)
    (hwt : bvBin g (eval env x) (eval env x) ≠ .err) :
    eval env (bv0 w) = bvBin g (eval env x) (eval env x) := by
  rcases val_view (eval env x) (eval_wf env x) with hx | ⟨b, hx⟩ | ⟨wx, X, hx, hwx⟩
  · simp [hx] at hwt
  · simp [hx] at hwt
  · have hwid := eval_width env x wx X.toNat (by rw [hx]; rfl)
    rw [hw] at hwid
    cases hwid
    rw [hx, bvBin_ofBV _ _ _ hwx, hg, eval_bvv env 0 w hwx]

theorem sub_self_sound : Sound R.sub_self := by
  intro p env hs hwt
  simp only [R.sub_self, beq_iff_eq] at hs
  simp only [R.sub_self, eval_app, evalList_cons, evalList_nil, applyOp] at hwt ⊢
  exact self_rule_aux env p.x p.w hs _ (fun w a => by simp) hwt

theorem xor_self_sound : Sound R.xor_self := by
  intro p env hs hwt
  simp only [R.xor_self, beq_iff_eq] at hs
  simp only [R.xor_self, eval_app, evalList_cons, evalList_nil, applyOp, foldVals, List.foldl] at hwt ⊢
  exact self_rule_aux env p.x p.w hs _ (fun w a => by simp) hwt

theorem sub_addN_sound : Sound R.sub_addN := by
  intro p env hs hwt
  simp only [R.sub_addN, decide_eq_true_eq] at hs
  simp only [R.sub_addN, eval_app, evalList_cons, evalList_nil, applyOp, evalList_eq_map, List.map_append, List.map_cons,
    List.map_nil] at hwt ⊢
  -- shape of the argument list: at least two values in both sums
  obtain ⟨x0, rest, hxs⟩ : ∃ x0 rest, p.xs = x0 :: rest := by
    cases h : p.xs with
    | nil => simp [h] at hs
    | cons a l => exact ⟨a, l, rfl⟩
  rw [hxs] at hwt ⊢
  simp only [List.map_cons, List.cons_append] at hwt ⊢
  have hshape : ∀ (c : Val), ∃ a b l, (eval env x0 :: (rest.map (eval env) ++ [c])) = a :: b :: l := by
    intro c
    cases rest with
    | nil => exact ⟨_, _, [], rfl⟩
    | cons r rs => exact ⟨_, _, _, rfl⟩
  by_cases hw : 0 < p.w
  · simp only [eval_bvv env _ p.w hw] at hwt ⊢
    obtain ⟨a1, b1, l1, e1⟩ := hshape (Val.ofBV (BitVec.ofNat p.w p.c1))
    obtain ⟨a2, b2, l2, e2⟩ := hshape (bvBin (fun _ x y => x - y) (Val.ofBV (BitVec.ofNat p.w p.c1)) (Val.ofBV (BitVec.ofNat p.w p.c2)))
    rw [e1] at hwt; rw [e1, e2]
    simp only [applyOp] at hwt ⊢
    rw [← e1] at hwt; rw [← e1, ← e2]
    simp only [foldVals, List.foldl_append, List.foldl_cons, List.foldl_nil, bvBin_ofBV _ _ _ hw] at hwt ⊢
    -- S := the partial sum over the symbolic arguments
    generalize hS : List.foldl (bvBin fun _ x y => x + y) (eval env x0) (rest.map (eval env)) = S at hwt ⊢
    cases S with
    | err => simp at hwt
    | bool b => simp at hwt
    | bv ws ns =>
      have hSwf : (Val.bv ws ns).WF := by
        rw [← hS]
        exact foldl_wf _ (fun a b _ => bvBin_wf _ a b) _ _ (eval_wf env x0)
      obtain ⟨X, hX, hws⟩ := hSwf.exists_bv
      rw [hX] at hwt ⊢
      by_cases hww : ws = p.w
      · subst hww
        simp only [bvBin_ofBV _ _ _ hw]
        apply ofBV_inj
        ring
      · simp [bvBin_ofBV_ne _ _ _ hww] at hwt
  · simp [fun v => eval_bvv_err env v p.w hw] at hwt

theorem zext_shift_aux (env : Env) (y : Expr) (n c w wy : Nat) (hy : y.width = some wy) (hw : w = wy + n) (hc : wy < c) (hc2 : c < 2 ^ w)
    (g : (w : Nat) → BitVec w → BitVec w → BitVec w)
    (hg : ∀ (Y : BitVec wy), g (wy + n) (BitVec.zeroExtend (wy + n) Y) (BitVec.ofNat (wy + n) c) = 0#(wy + n))
    (hwt : bvBin g (applyOp (.zeroExt n) [eval env y]) (eval env (.bvv c w)) ≠ .err) :
    eval env (bv0 w) = bvBin g (applyOp (.zeroExt n) [eval env y]) (eval env (.bvv c w)) := by
  subst hw
  rcases val_view (eval env y) (eval_wf env y) with hx | ⟨b, hx⟩ | ⟨wx, X, hx, hwx⟩
  · simp [hx, applyOp] at hwt
  · simp [hx, applyOp] at hwt
  · have hwid := eval_width env y wx X.toNat (by rw [hx]; rfl)
    rw [hy] at hwid
    cases hwid
    have hpos : 0 < wy + n := by omega
    have hz : applyOp (.zeroExt n) [Val.ofBV X] = Val.ofBV (BitVec.zeroExtend (wy + n) X) := by
      simp [applyOp, Val.ofBV, hwx]
    rw [hx, hz, eval_bvv env c _ hpos, bvBin_ofBV _ _ _ hpos, hg, eval_bvv env 0 _ hpos]

theorem lshr_zext_sound : Sound R.lshr_zext := by
  intro p env hs hwt
  simp only [R.lshr_zext] at hs
  split at hs
  · rename_i wy hy
    simp only [decide_eq_true_eq] at hs
    obtain ⟨hw, hc, hc2⟩ := hs
    simp only [R.lshr_zext, eval_app, evalList_cons, evalList_nil] at hwt ⊢
    rw [show applyOp .lshr [applyOp (.zeroExt p.n) [eval env p.y], eval env (.bvv p.c1 p.w)] =
      bvBin (fun _ x y => x >>> y) (applyOp (.zeroExt p.n) [eval env p.y]) (eval env (.bvv p.c1 p.w)) from rfl] at hwt ⊢
    refine zext_shift_aux env p.y p.n p.c1 p.w wy hy hw hc hc2 _ ?_ hwt
    intro Y
    apply BitVec.eq_of_toNat_eq
    have h2 : p.c1 % 2 ^ (wy + p.n) = p.c1 := Nat.mod_eq_of_lt (hw ▸ hc2)
    simp only [BitVec.ushiftRight_eq', BitVec.toNat_ushiftRight, BitVec.toNat_ofNat, BitVec.toNat_setWidth, h2, Nat.shiftRight_eq_div_pow]
    have hY : Y.toNat < 2 ^ wy := Y.isLt
    have : Y.toNat % 2 ^ (wy + p.n) < 2 ^ p.c1 :=
      lt_of_le_of_lt (Nat.mod_le _ _) (lt_trans hY (Nat.pow_lt_pow_right (by omega) hc))
    simp [Nat.div_eq_of_lt this]
  · simp at hs

theorem ashr_zext_sound : Sound R.ashr_zext := by
  intro p env hs hwt
  simp only [R.ashr_zext] at hs
  split at hs
  · rename_i wy hy
    simp only [decide_eq_true_eq] at hs
    obtain ⟨hw, hc, hc2, hn⟩ := hs
    simp only [R.ashr_zext, eval_app, evalList_cons, evalList_nil] at hwt ⊢
    rw [show applyOp .ashr [applyOp (.zeroExt p.n) [eval env p.y], eval env (.bvv p.c1 p.w)] =
      bvBin (fun _ x y => BitVec.sshiftRight' x y) (applyOp (.zeroExt p.n) [eval env p.y]) (eval env (.bvv p.c1 p.w)) from rfl] at hwt ⊢
    refine zext_shift_aux env p.y p.n p.c1 p.w wy hy hw hc hc2 _ ?_ hwt
    intro Y
    have h2 : p.c1 % 2 ^ (wy + p.n) = p.c1 := Nat.mod_eq_of_lt (hw ▸ hc2)
    have hY : Y.toNat < 2 ^ wy := Y.isLt
    have hmsb : (BitVec.zeroExtend (wy + p.n) Y).msb = false := by
      rw [BitVec.msb_eq_false_iff_two_mul_lt]
      simp only [BitVec.toNat_setWidth]
      have h1 : Y.toNat % 2 ^ (wy + p.n) ≤ Y.toNat := Nat.mod_le _ _
      have h3 : 2 * 2 ^ wy ≤ 2 ^ (wy + p.n) := by
        rw [← Nat.pow_succ']
        exact Nat.pow_le_pow_right (by omega) (by omega)
      omega
    rw [BitVec.sshiftRight_eq', BitVec.sshiftRight_eq_of_msb_false hmsb]
    apply BitVec.eq_of_toNat_eq
    simp only [BitVec.toNat_ushiftRight, BitVec.toNat_ofNat, BitVec.toNat_setWidth, h2, Nat.shiftRight_eq_div_pow]
    have : Y.toNat % 2 ^ (wy + p.n) < 2 ^ p.c1 :=
      lt_of_le_of_lt (Nat.mod_le _ _) (lt_trans hY (Nat.pow_lt_pow_right (by omega) hc))
    simp [Nat.div_eq_of_lt this]
  · simp at hs

theorem widthy_sound : ∀ s ∈ R.widthy, Sound s := by
  intro s hs
  simp only [R.widthy, List.mem_cons, List.mem_nil_iff, or_false] at hs
  rcases hs with h | h | h | h | h <;> subst h
  · exact sub_self_sound
  · exact xor_self_sound
  · exact lshr_zext_sound
  · exact ashr_zext_sound
  · exact sub_addN_sound

theorem iteLits_eval (env : Env) (p : P) (b : Bool) (hw : 0 < p.w) (hc : eval env p.c = .bool b) :
    eval env (R.iteLits p) = Val.ofBV (BitVec.ofNat p.w (if b then p.c1 else p.c2)) := by
  simp only [R.iteLits, eval_app, evalList_cons, evalList_nil, applyOp, hc, eval_bvv env _ p.w hw]
  cases b <;> simp

theorem ofNat_ne_of_mod_ne {w a b : Nat} (h : a % 2 ^ w ≠ b % 2 ^ w) : (BitVec.ofNat w a == BitVec.ofNat w b) = false := by
  apply beq_eq_false_iff_ne.mpr
  intro hc
  have := congrArg BitVec.toNat hc
  simp only [BitVec.toNat_ofNat] at this
  exact h this

theorem iteCmp_aux (env : Env) (p : P) (hs : R.litsDiffer p = true) (k : Nat) (hk : k = p.c1 ∨ k = p.c2)
    (hwt : valEq (eval env (R.iteLits p)) (eval env (.bvv k p.w)) ≠ .err) :
    ∃ b, eval env p.c = .bool b ∧ 0 < p.w ∧
      valEq (eval env (R.iteLits p)) (eval env (.bvv k p.w)) = .bool (if k = p.c1 then b else if k = p.c2 then !b else false) := by
  by_cases hw : 0 < p.w
  · rcases val_view (eval env p.c) (eval_wf env p.c) with hx | ⟨b, hx⟩ | ⟨wx, X, hx, hwx⟩
    · simp [R.iteLits, eval_app, evalList_cons, evalList_nil, applyOp, hx] at hwt
    · refine ⟨b, hx, hw, ?_⟩
      simp only [R.litsDiffer, decide_eq_true_eq] at hs
      rw [iteLits_eval env p b hw hx, eval_bvv env k p.w hw, valEq_ofBV _ _ hw]
      rcases hk with rfl | rfl
      · cases b
        · simp [ofNat_ne_of_mod_ne (Ne.symm hs)]
        · simp
      · cases b
        · by_cases h12 : p.c2 = p.c1
          · rw [h12] at hs; exact absurd rfl hs
          · simp [h12]
        · by_cases h12 : p.c2 = p.c1
          · rw [h12] at hs; exact absurd rfl hs
          · simp [h12, ofNat_ne_of_mod_ne hs]
    · simp [R.iteLits, eval_app, evalList_cons, evalList_nil, applyOp, hx] at hwt
  · simp [eval_bvv_err env k p.w hw] at hwt

theorem eq_ite_then_sound : Sound R.eq_ite_then := by
  intro p env hs hwt
  simp only [R.eq_ite_then, eval_app, evalList_cons, evalList_nil, applyOp] at hwt ⊢
  obtain ⟨b, hc, _, hv⟩ := iteCmp_aux env p hs p.c1 (Or.inl rfl) hwt
  rw [hv, hc]; simp

theorem eq_ite_else_sound : Sound R.eq_ite_else := by
  intro p env hs hwt
  simp only [R.eq_ite_else, eval_app, evalList_cons, evalList_nil, applyOp] at hwt ⊢
  obtain ⟨b, hc, _, hv⟩ := iteCmp_aux env p hs p.c2 (Or.inr rfl) hwt
  rw [hv, hc]
  by_cases h12 : p.c2 = p.c1
  · simp only [R.eq_ite_else, R.ne_ite_else, R.litsDiffer, decide_eq_true_eq] at hs; rw [h12] at hs; exact absurd rfl hs
  · simp [h12]

theorem ne_ite_else_sound : Sound R.ne_ite_else := by
  intro p env hs hwt
  simp only [R.ne_ite_else, eval_app, evalList_cons, evalList_nil, applyOp] at hwt ⊢
  have hwt' : valEq (eval env (R.iteLits p)) (eval env (.bvv p.c2 p.w)) ≠ .err := by
    intro h; rw [h] at hwt; simp at hwt
  obtain ⟨b, hc, _, hv⟩ := iteCmp_aux env p hs p.c2 (Or.inr rfl) hwt'
  rw [hv, hc]
  by_cases h12 : p.c2 = p.c1
  · simp only [R.eq_ite_else, R.ne_ite_else, R.litsDiffer, decide_eq_true_eq] at hs; rw [h12] at hs; exact absurd rfl hs
  · simp [h12]

theorem ne_ite_then_sound : Sound R.ne_ite_then := by
  intro p env hs hwt
  simp only [R.ne_ite_then, eval_app, evalList_cons, evalList_nil, applyOp] at hwt ⊢
  have hwt' : valEq (eval env (R.iteLits p)) (eval env (.bvv p.c1 p.w)) ≠ .err := by
    intro h; rw [h] at hwt; simp at hwt
  obtain ⟨b, hc, _, hv⟩ := iteCmp_aux env p hs p.c1 (Or.inl rfl) hwt'
  rw [hv, hc]; simp

theorem iteCmp_sound : ∀ s ∈ R.iteCmp, Sound s := by
  intro s hs
  simp only [R.iteCmp, List.mem_cons, List.mem_nil_iff, or_false] at hs
  rcases hs with h | h | h | h <;> subst h
  · exact eq_ite_then_sound
  · exact eq_ite_else_sound
  · exact ne_ite_else_sound
  · exact ne_ite_then_sound

/-! ### byte reversal -/
theorem bytesRev_bytesRev (k n : Nat) (hn : n < 2 ^ (8 * k)) : bytesRev k (bytesRev k n) = n := by
  have e : (256 : Nat) ^ k = 2 ^ (8 * k) := by
    have : (256 : Nat) = 2 ^ 8 := by decide
    rw [this, ← Nat.pow_mul]
  have hlt : bytesRev k n < 2 ^ (8 * k) := e ▸ bytesRev_lt k n
  apply Nat.eq_of_testBit_eq
  intro i
  rw [Claripy.BV.testBit_bytesRev' k _ i hlt]
  by_cases hi : i < 8 * k
  · have hj : 8 * (k - 1 - i / 8) + i % 8 < 8 * k := by
      have : i / 8 < k := by omega
      omega
    rw [Claripy.BV.testBit_bytesRev' k n _ hn]
    simp only [hi, hj, decide_true, Bool.true_and]
    congr 1
    have : i / 8 < k := by omega
    omega
  · have hle : 2 ^ (8 * k) ≤ 2 ^ i := Nat.pow_le_pow_right (by omega) (by omega)
    simp [hi, Nat.testBit_lt_two_pow (Nat.lt_of_lt_of_le hn hle)]

theorem valReverse_valReverse (v : Val) (hv : v.WF) (h : valReverse (valReverse v) ≠ .err) : valReverse (valReverse v) = v := by
  cases v with
  | err => simp [valReverse] at h
  | bool b => simp [valReverse] at h
  | bv w n =>
    by_cases hc : w % 8 = 0 ∧ 0 < w
    · have hw8 : 8 * (w / 8) = w := by omega
      have hn : n < 2 ^ (8 * (w / 8)) := hw8.symm ▸ hv.1
      have e : (256 : Nat) ^ (w / 8) = 2 ^ w := by
        have : (256 : Nat) = 2 ^ 8 := by decide
        rw [this, ← Nat.pow_mul, hw8]
      have hlt : bytesRev (w / 8) n < 2 ^ w := e ▸ bytesRev_lt (w / 8) n
      simp only [valReverse, hc, and_self, if_true, Nat.mod_eq_of_lt hv.1, Nat.mod_eq_of_lt hlt, bytesRev_bytesRev _ _ hn]
    · simp [valReverse, hc] at h

theorem rev_rev_sound : Sound R.rev_rev := by
  intro p env _ hwt
  simp only [R.rev_rev, eval_app, evalList_cons, evalList_nil, applyOp] at hwt ⊢
  exact (valReverse_valReverse _ (eval_wf env p.x) hwt).symm

theorem valReverse_inj (a b : Val) (ha : a.WF) (hb : b.WF) (hra : valReverse a ≠ .err) (hrb : valReverse b ≠ .err)
    (h : valReverse a = valReverse b) : a = b := by
  have h1 : valReverse (valReverse a) ≠ .err := by
    cases a with
    | err => simp [valReverse] at hra
    | bool x => simp [valReverse] at hra
    | bv w n =>
      by_cases hc : w % 8 = 0 ∧ 0 < w
      · simp [valReverse, hc]
      · simp [valReverse, hc] at hra
  have h2 : valReverse (valReverse b) ≠ .err := by rw [← h]; exact h1
  rw [← valReverse_valReverse a ha h1, ← valReverse_valReverse b hb h2, h]

theorem eq_rev_sound : Sound R.eq_rev := by
  intro p env _ hwt
  simp only [R.eq_rev, eval_app, evalList_cons, evalList_nil, applyOp] at hwt ⊢
  have hwa := eval_wf env p.x
  have hwb := eval_wf env p.y
  -- both reversals are well-typed bit-vectors of the same width
  cases hra : valReverse (eval env p.x) with
  | err => simp [hra] at hwt
  | bool x => cases hx : eval env p.x <;> simp [hx, valReverse] at hra; split at hra <;> simp at hra
  | bv w n =>
    cases hrb : valReverse (eval env p.y) with
    | err => simp [hra, hrb] at hwt
    | bool y => cases hy : eval env p.y <;> simp [hy, valReverse] at hrb; split at hrb <;> simp at hrb
    | bv w' n' =>
      -- the operands themselves
      cases hx : eval env p.x with
      | err => simp [hx, valReverse] at hra
      | bool c => simp [hx, valReverse] at hra
      | bv wx nx =>
        cases hy : eval env p.y with
        | err => simp [hy, valReverse] at hrb
        | bool c => simp [hy, valReverse] at hrb
        | bv wy ny =>
          rw [hx] at hra hwa; rw [hy] at hrb hwb
          have hcx : wx % 8 = 0 ∧ 0 < wx := by
            by_contra hc; simp [valReverse, hc] at hra
          have hcy : wy % 8 = 0 ∧ 0 < wy := by
            by_contra hc; simp [valReverse, hc] at hrb
          simp only [valReverse, hcx, hcy, and_self, if_true, Val.bv.injEq] at hra hrb
          obtain ⟨rfl, hn⟩ := hra
          obtain ⟨rfl, hn'⟩ := hrb
          simp only [valEq]
          by_cases hww : wx = wy
          · subst hww
            simp only [and_self, hcx.2, if_true, Val.bool.injEq]
            -- reversed values are equal iff the values are
            have e : (256 : Nat) ^ (wx / 8) = 2 ^ wx := by
              have : (256 : Nat) = 2 ^ 8 := by decide
              rw [this, ← Nat.pow_mul]; congr 1; omega
            have hw8 : 8 * (wx / 8) = wx := by omega
            have l1 : n < 2 ^ wx := by rw [← hn, ← e]; exact bytesRev_lt _ _
            have l2 : n' < 2 ^ wx := by rw [← hn', ← e]; exact bytesRev_lt _ _
            have hiff : (n = n') ↔ (nx = ny) := by
              constructor
              · intro hnn
                have := congrArg (bytesRev (wx / 8)) (hn.trans (hnn.trans hn'.symm))
                rwa [Nat.mod_eq_of_lt hwa.1, Nat.mod_eq_of_lt hwb.1, bytesRev_bytesRev _ _ (hw8.symm ▸ hwa.1),
                  bytesRev_bytesRev _ _ (hw8.symm ▸ hwb.1)] at this
              · intro hxy; rw [← hn, ← hn', hxy]
            have b1 : (BitVec.ofNat wx n == BitVec.ofNat wx n') = decide (n = n') := by
              by_cases hq : n = n'
              · subst hq; simp
              · have : BitVec.ofNat wx n ≠ BitVec.ofNat wx n' := by
                  intro hc
                  have := congrArg BitVec.toNat hc
                  simp only [BitVec.toNat_ofNat, Nat.mod_eq_of_lt l1, Nat.mod_eq_of_lt l2] at this
                  exact hq this
                simp [hq, this]
            have b2 : (BitVec.ofNat wx nx == BitVec.ofNat wx ny) = decide (nx = ny) := by
              by_cases hq : nx = ny
              · subst hq; simp
              · have : BitVec.ofNat wx nx ≠ BitVec.ofNat wx ny := by
                  intro hc
                  have := congrArg BitVec.toNat hc
                  simp only [BitVec.toNat_ofNat, Nat.mod_eq_of_lt hwa.1, Nat.mod_eq_of_lt hwb.1] at this
                  exact hq this
                simp [hq, this]
            rw [b1, b2]
            exact (decide_eq_decide.mpr hiff).symm
          · simp [hww] at hwt ⊢

theorem revRules_sound : ∀ s ∈ R.revRules, Sound s := by
  intro s hs
  simp only [R.revRules, List.mem_cons, List.mem_nil_iff, or_false] at hs
  rcases hs with h | h <;> subst h
  · exact rev_rev_sound
  · exact eq_rev_sound

/-! ### `ZeroExt(n, y) >= c`, `Concat(0, y) >= c` -/
theorem uge_val (w a b : Nat) (hw : 0 < w) :
    bvCmp (fun _ x y => BitVec.ule y x) (.bv w a) (.bv w b) = .bool (decide (b % 2 ^ w ≤ a % 2 ^ w)) := by
  simp [bvCmp, hw, BitVec.ule]

theorem uge_aux (env : Env) (p : P) (wy : Nat) (hy : p.y.width = some wy) (hw : p.w = wy + p.n) (hn : 0 < p.n) (L : Expr)
    (hL : L = R.zextY p ∨ L = R.cat0Y p)
    (hwt : bvCmp (fun _ x y => BitVec.ule y x) (eval env L) (eval env (.bvv p.c1 p.w)) ≠ .err) :
    ∃ Y : BitVec wy, 0 < wy ∧ eval env p.y = Val.ofBV Y ∧
      bvCmp (fun _ x y => BitVec.ule y x) (eval env L) (eval env (.bvv p.c1 p.w)) = .bool (decide (p.c1 % 2 ^ p.w ≤ Y.toNat)) := by
  have hwpos : 0 < p.w := by omega
  rcases val_view (eval env p.y) (eval_wf env p.y) with hx | ⟨b, hx⟩ | ⟨wx, X, hx, hwx⟩
  · rcases hL with rfl | rfl <;>
      simp [R.zextY, R.cat0Y, eval_app, evalList_cons, evalList_nil, applyOp, foldVals, hx, valConcat] at hwt
  · rcases hL with rfl | rfl <;>
      simp [R.zextY, R.cat0Y, eval_app, evalList_cons, evalList_nil, applyOp, foldVals, hx, valConcat] at hwt
    all_goals (simp [eval, hn, valConcat] at hwt)
  · have hwid := eval_width env p.y wx X.toNat (by rw [hx]; rfl)
    rw [hy] at hwid
    cases hwid
    refine ⟨X, hwx, hx, ?_⟩
    have hlit : eval env (.bvv p.c1 p.w) = .bv p.w (p.c1 % 2 ^ p.w) := by simp [eval, hwpos]
    have hXlt : X.toNat < 2 ^ wy := X.isLt
    have hpow : 2 ^ wy ≤ 2 ^ p.w := Nat.pow_le_pow_right (by omega) (by omega)
    rcases hL with rfl | rfl
    · have hLv : eval env (R.zextY p) = .bv p.w X.toNat := by
        simp only [R.zextY, eval_app, evalList_cons, evalList_nil, hx, applyOp, Val.ofBV, hwx, if_true, ← hw]
        congr 1
        simp [BitVec.zeroExtend, Nat.mod_eq_of_lt hXlt, Nat.mod_eq_of_lt (Nat.lt_of_lt_of_le hXlt (hw ▸ hpow))]
      rw [hLv, hlit, uge_val _ _ _ hwpos, Nat.mod_mod, Nat.mod_eq_of_lt (Nat.lt_of_lt_of_le hXlt hpow)]
    · have hLv : eval env (R.cat0Y p) = .bv p.w X.toNat := by
        simp only [R.cat0Y, eval_app, evalList_cons, evalList_nil, hx, applyOp, foldVals, List.foldl, eval, hn, if_true,
          Val.ofBV, valConcat]
        have e1 : (BitVec.ofNat p.n (0 % 2 ^ p.n) ++ BitVec.ofNat wy X.toNat).toNat = X.toNat := by
          simp [BitVec.toNat_append, Nat.mod_eq_of_lt hXlt]
        rw [e1, show p.n + wy = p.w by omega]
      rw [hLv, hlit, uge_val _ _ _ hwpos, Nat.mod_mod, Nat.mod_eq_of_lt (Nat.lt_of_lt_of_le hXlt hpow)]

theorem uge_low_aux (env : Env) (p : P) (L : Expr) (hL : L = R.zextY p ∨ L = R.cat0Y p) (hs : R.ugeLowSide p = true)
    (hwt : eval env (.app .uge [L, .bvv p.c1 p.w]) ≠ .err) :
    eval env (.app .uge [p.y, .bvv (p.c1 % 2 ^ p.w) p.c2]) = eval env (.app .uge [L, .bvv p.c1 p.w]) := by
  simp only [R.ugeLowSide] at hs
  split at hs
  · rename_i wy hy
    simp only [decide_eq_true_eq] at hs
    obtain ⟨hw, hn, hc, hc2⟩ := hs
    simp only [eval_app, evalList_cons, evalList_nil, applyOp] at hwt ⊢
    obtain ⟨Y, hwy, hye, hv⟩ := uge_aux env p wy hy hw hn L hL hwt
    rw [hv, hye, hc2, show eval env (.bvv (p.c1 % 2 ^ p.w) wy) = .bv wy ((p.c1 % 2 ^ p.w) % 2 ^ wy) by simp [eval, hwy]]
    simp only [Val.ofBV]
    rw [uge_val _ _ _ hwy, Nat.mod_mod, Nat.mod_eq_of_lt hc, Nat.mod_eq_of_lt Y.isLt]
  · simp at hs

theorem uge_high_aux (env : Env) (p : P) (L : Expr) (hL : L = R.zextY p ∨ L = R.cat0Y p) (hs : R.ugeHighSide p = true)
    (hwt : eval env (.app .uge [L, .bvv p.c1 p.w]) ≠ .err) :
    eval env (.boolv false) = eval env (.app .uge [L, .bvv p.c1 p.w]) := by
  simp only [R.ugeHighSide] at hs
  split at hs
  · rename_i wy hy
    simp only [decide_eq_true_eq] at hs
    obtain ⟨hw, hn, hc⟩ := hs
    simp only [eval_app, evalList_cons, evalList_nil, applyOp] at hwt ⊢
    obtain ⟨Y, hwy, hye, hv⟩ := uge_aux env p wy hy hw hn L hL hwt
    rw [hv]
    have : ¬ p.c1 % 2 ^ p.w ≤ Y.toNat := by have := Y.isLt; omega
    simp [eval, this]
  · simp at hs

theorem uge_zext_low_sound : Sound R.uge_zext_low := fun p env hs hwt => uge_low_aux env p _ (Or.inl rfl) hs hwt
theorem uge_zext_high_sound : Sound R.uge_zext_high := fun p env hs hwt => uge_high_aux env p _ (Or.inl rfl) hs hwt
theorem uge_cat0_low_sound : Sound R.uge_cat0_low := fun p env hs hwt => uge_low_aux env p _ (Or.inr rfl) hs hwt
theorem uge_cat0_high_sound : Sound R.uge_cat0_high := fun p env hs hwt => uge_high_aux env p _ (Or.inr rfl) hs hwt

theorem ugeZext_sound : ∀ s ∈ R.ugeZext, Sound s := by
  intro s hs
  simp only [R.ugeZext, List.mem_cons, List.mem_nil_iff, or_false] at hs
  rcases hs with h | h | h | h <;> subst h
  · exact uge_zext_low_sound
  · exact uge_zext_high_sound
  · exact uge_cat0_low_sound
  · exact uge_cat0_high_sound

theorem pre_sound : ∀ s ∈ R.base ++ R.widthy ++ R.iteCmp ++ R.revRules ++ R.ugeZext, Sound s := by
  intro s hs
  rcases List.mem_append.mp hs with h | h
  · rcases List.mem_append.mp h with h | h
    · rcases List.mem_append.mp h with h | h
      · rcases List.mem_append.mp h with h | h
        · exact base_sound s h
        · exact widthy_sound s h
      · exact iteCmp_sound s h
    · exact revRules_sound s h
  · exact ugeZext_sound s h

end Claripy.AST
