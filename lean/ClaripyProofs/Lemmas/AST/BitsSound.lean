import Claripy.AST.Bits
import ClaripyProofs.Lemmas.AST.RulesBase
import ClaripyProofs.Lemmas.AST.Beq
import ClaripyProofs.Props.C05
import ClaripyProofs.Lemmas.AST.BoolWidth
/-!
Soundness of the bit-level normal form (Claripy/AST/Bits.lean): a rewrite accepted by `bitsEquiv` preserves the SMT-LIB
value of a well-typed expression, for every width and assignment.
-/
namespace Claripy.AST
open Claripy.Props.C05 (eval_width)

/-! ### `Bit` equality -/
theorem Bit.eq_of_beq : ∀ (a b : Bit), Bit.beq a b = true → a = b := by
  intro a
  induction a with
  | c x => intro b h; cases b <;> simp_all [Bit.beq]
  | of t i ng => intro b h; cases b <;> simp_all [Bit.beq]
  | p t ng => intro b h; cases b <;> simp_all [Bit.beq]
  | bin k x y ng ihx ihy =>
    intro b h
    cases b with
    | bin k' x' y' ng' =>
      simp only [Bit.beq, Bool.and_eq_true, decide_eq_true_eq, beq_iff_eq] at h
      obtain ⟨⟨⟨rfl, hx⟩, hy⟩, rfl⟩ := h
      rw [ihx _ hx, ihy _ hy]
    | _ => simp [Bit.beq] at h
  | mux e x y ng ihx ihy =>
    intro b h
    cases b with
    | mux e' x' y' ng' =>
      simp only [Bit.beq, Bool.and_eq_true, beq_iff_eq] at h
      obtain ⟨⟨⟨rfl, hx⟩, hy⟩, rfl⟩ := h
      rw [ihx _ hx, ihy _ hy]
    | _ => simp [Bit.beq] at h

theorem Bit.beq_refl : ∀ (a : Bit), Bit.beq a a = true
  | .c a => by simp [Bit.beq]
  | .of t i ng => by simp [Bit.beq]
  | .p t ng => by simp [Bit.beq]
  | .bin k x y ng => by simp [Bit.beq, Bit.beq_refl x, Bit.beq_refl y]
  | .mux e x y ng => by simp [Bit.beq, Bit.beq_refl x, Bit.beq_refl y]

instance : LawfulBEq Bit where
  eq_of_beq {a b} h := Bit.eq_of_beq a b h
  rfl {a} := Bit.beq_refl a

/-! ### what a list of bits denotes -/
def bitDen (env : Env) : Bit → Option Bool
  | .c b => some b
  | .of t i ng => match eval env t with
    | .bv _ n => some (n.testBit i ^^ ng)
    | _ => none
  | .p t ng => match eval env t with
    | .bool v => some (v ^^ ng)
    | _ => none
  | .bin k a b ng => match bitDen env a, bitDen env b with
    | some x, some y => some (k.g x y ^^ ng)
    | _, _ => none
  | .mux e a b ng => match eval env e with
    | .bool true => (bitDen env a).map (· ^^ ng)
    | .bool false => (bitDen env b).map (· ^^ ng)
    | _ => none

/-- none of these terms is ill-typed (each denotes a bit-vector or a Boolean) -/
def Good (env : Env) (ts : List Expr) : Prop := ∀ t ∈ ts, eval env t ≠ .err

structure Describes (env : Env) (bs : List Bit) (w n : Nat) : Prop where
  len : bs.length = w
  pos : 0 < w
  lt : n < 2 ^ w
  bit : ∀ i, i < w → (bs[i]?).bind (bitDen env) = some (n.testBit i)

theorem Describes.unique {env : Env} {bs : List Bit} {w n w' n' : Nat} (h : Describes env bs w n) (h' : Describes env bs w' n') :
    w = w' ∧ n = n' := by
  have hw : w = w' := h.len.symm.trans h'.len
  subst hw
  refine ⟨rfl, Nat.eq_of_testBit_eq fun i => ?_⟩
  by_cases hi : i < w
  · have := (h.bit i hi).symm.trans (h'.bit i hi)
    simpa using this
  · have hle : 2 ^ w ≤ 2 ^ i := Nat.pow_le_pow_right (by omega) (by omega)
    rw [Nat.testBit_lt_two_pow (Nat.lt_of_lt_of_le h.lt hle), Nat.testBit_lt_two_pow (Nat.lt_of_lt_of_le h'.lt hle)]

theorem describes_const (env : Env) (v w : Nat) (hw : 0 < w) :
    Describes env ((List.range w).map fun i => Bit.c (v.testBit i)) w (v % 2 ^ w) where
  len := by simp
  pos := hw
  lt := Nat.mod_lt _ (Nat.two_pow_pos w)
  bit := by
    intro i hi
    simp [List.getElem?_map, List.getElem?_range hi, bitDen, Nat.testBit_mod_two_pow, hi]

theorem describes_opaque (env : Env) (e : Expr) (w : Nat) (hwd : e.width = some w) (hw : 0 < w) (w' n' : Nat)
    (he : eval env e = .bv w' n') : Describes env ((List.range w).map fun i => Bit.of e i false) w' n' := by
  have := eval_width env e w' n' he
  rw [hwd] at this
  cases this
  have hwf : (Val.bv w n').WF := he ▸ eval_wf env e
  exact {
    len := by simp
    pos := hw
    lt := hwf.1
    bit := by
      intro i hi
      simp [List.getElem?_map, List.getElem?_range hi, bitDen, he] }

theorem describes_extract {env : Env} {b : List Bit} {wa na : Nat} (D : Describes env b wa na) (hi lo : Nat) (h1 : lo ≤ hi)
    (h2 : hi < wa) :
    Describes env ((b.drop lo).take (hi - lo + 1)) (hi - lo + 1) (BitVec.extractLsb hi lo (BitVec.ofNat wa na)).toNat where
  len := by simp [List.length_take, List.length_drop, D.len]; omega
  pos := by omega
  lt := (BitVec.extractLsb hi lo (BitVec.ofNat wa na)).isLt
  bit := by
    intro i hi'
    rw [List.getElem?_take, if_pos hi', List.getElem?_drop, D.bit (lo + i) (by omega), BitVec.testBit_toNat,
      BitVec.getLsbD_extractLsb, BitVec.getLsbD_ofNat]
    simp [hi', show lo + i < wa by omega]

theorem describes_zext {env : Env} {b : List Bit} {wa na : Nat} (D : Describes env b wa na) (k : Nat) :
    Describes env (b ++ List.replicate k (Bit.c false)) (wa + k) (BitVec.zeroExtend (wa + k) (BitVec.ofNat wa na)).toNat where
  len := by simp [D.len]
  pos := by have := D.pos; omega
  lt := (BitVec.zeroExtend (wa + k) (BitVec.ofNat wa na)).isLt
  bit := by
    intro i hi'
    rw [List.getElem?_append, D.len, BitVec.testBit_toNat]
    simp only [BitVec.zeroExtend, BitVec.getLsbD_setWidth, BitVec.getLsbD_ofNat]
    by_cases hlt : i < wa
    · rw [if_pos hlt, D.bit i hlt]; simp [hi', hlt]
    · rw [if_neg hlt, List.getElem?_replicate, if_pos (by omega)]
      simp [bitDen, hlt]

theorem describes_sext {env : Env} {b : List Bit} {wa na : Nat} (D : Describes env b wa na) (k : Nat) (m : Bit)
    (hm : b.getLast? = some m) :
    Describes env (b ++ List.replicate k m) (wa + k) (BitVec.signExtend (wa + k) (BitVec.ofNat wa na)).toNat where
  len := by simp [D.len]
  pos := by have := D.pos; omega
  lt := (BitVec.signExtend (wa + k) (BitVec.ofNat wa na)).isLt
  bit := by
    intro i hi'
    have hpos := D.pos
    have hmd : bitDen env m = some (na.testBit (wa - 1)) := by
      have h1 := D.bit (wa - 1) (by omega)
      rw [List.getLast?_eq_getElem?, D.len] at hm
      rw [hm] at h1
      simpa using h1
    rw [List.getElem?_append, D.len, BitVec.testBit_toNat, BitVec.getLsbD_signExtend, BitVec.msb_eq_getLsbD_last]
    simp only [BitVec.getLsbD_ofNat]
    by_cases hlt : i < wa
    · rw [if_pos hlt, D.bit i hlt]; simp [hi', hlt]
    · rw [if_neg hlt, List.getElem?_replicate, if_pos (by omega)]
      simp [hmd, hlt, hi', show wa - 1 < wa by omega]

theorem describes_append {env : Env} {lo hi : List Bit} {wl nl wh nh : Nat} (Dl : Describes env lo wl nl)
    (Dh : Describes env hi wh nh) :
    Describes env (lo ++ hi) (wh + wl) (BitVec.ofNat wh nh ++ BitVec.ofNat wl nl).toNat where
  len := by simp [Dl.len, Dh.len]; omega
  pos := by have := Dl.pos; omega
  lt := (BitVec.ofNat wh nh ++ BitVec.ofNat wl nl).isLt
  bit := by
    intro i hi'
    rw [List.getElem?_append, Dl.len, BitVec.testBit_toNat, BitVec.getLsbD_append]
    simp only [BitVec.getLsbD_ofNat]
    by_cases hlt : i < wl
    · rw [if_pos hlt, if_pos hlt, Dl.bit i hlt]; simp [hlt]
    · rw [if_neg hlt, if_neg hlt, Dh.bit (i - wl) (by omega)]
      simp [show i - wl < wh by omega]

theorem bitDen_not (env : Env) : ∀ (b : Bit), bitDen env b.not = (bitDen env b).map (!·)
  | .c x => by simp [Bit.not, bitDen]
  | .of t i ng => by
    simp only [Bit.not, bitDen]
    cases eval env t <;> simp
  | .p t ng => by
    simp only [Bit.not, bitDen]
    cases eval env t <;> simp
  | .bin k x y ng => by
    simp only [Bit.not, bitDen]
    cases bitDen env x <;> cases bitDen env y <;> simp
  | .mux e x y ng => by
    simp only [Bit.not, bitDen]
    cases eval env e with
    | bool v => cases v <;> simp <;> (first | cases bitDen env x <;> simp | cases bitDen env y <;> simp)
    | _ => simp

/-- a bit is its stripped form, complemented or not -/
theorem strip_den (env : Env) : ∀ (x : Bit) (p : Bool), bitDen env x = some p → bitDen env x.strip.1 = some (p ^^ x.strip.2)
  | .c b, p, h => by
    simp only [bitDen, Option.some.injEq] at h
    subst h
    simp [Bit.strip, bitDen]
  | .of t i ng, p, h => by
    simp only [Bit.strip, bitDen] at h ⊢
    cases hv : eval env t with
    | err => simp [hv] at h
    | bool b => simp [hv] at h
    | bv w n =>
      simp only [hv, Option.some.injEq] at h ⊢
      subst h
      cases n.testBit i <;> cases ng <;> rfl
  | .p t ng, p, h => by
    simp only [Bit.strip, bitDen] at h ⊢
    cases hv : eval env t with
    | err => simp [hv] at h
    | bv w n => simp [hv] at h
    | bool b =>
      simp only [hv, Option.some.injEq] at h ⊢
      subst h
      cases b <;> cases ng <;> rfl
  | .bin k a b ng, p, h => by
    simp only [Bit.strip, bitDen] at h ⊢
    cases ha : bitDen env a with
    | none => simp [ha] at h
    | some x =>
      cases hb : bitDen env b with
      | none => simp [ha, hb] at h
      | some y =>
        simp only [ha, hb, Option.some.injEq] at h ⊢
        subst h
        cases k.g x y <;> cases ng <;> rfl
  | .mux e a b ng, p, h => by
    simp only [Bit.strip, bitDen] at h ⊢
    cases hv : eval env e with
    | err => simp [hv] at h
    | bv w n => simp [hv] at h
    | bool v =>
      cases v
      · cases hb : bitDen env b with
        | none => simp [hv, hb] at h
        | some y =>
          simp only [hv, hb, Option.map_some, Option.some.injEq] at h ⊢
          subst h
          cases y <;> cases ng <;> rfl
      · cases ha : bitDen env a with
        | none => simp [hv, ha] at h
        | some x =>
          simp only [hv, ha, Option.map_some, Option.some.injEq] at h ⊢
          subst h
          cases x <;> cases ng <;> rfl

theorem describes_not {env : Env} {b : List Bit} {wa na : Nat} (D : Describes env b wa na) :
    Describes env (b.map Bit.not) wa (~~~ (BitVec.ofNat wa na)).toNat where
  len := by simp [D.len]
  pos := D.pos
  lt := (~~~ (BitVec.ofNat wa na)).isLt
  bit := by
    intro i hi'
    have h1 := D.bit i hi'
    rw [List.getElem?_map, BitVec.testBit_toNat, BitVec.getLsbD_not, BitVec.getLsbD_ofNat]
    cases hb : b[i]? with
    | none => simp [hb] at h1
    | some x =>
      simp only [hb, Option.bind_some] at h1
      simp [bitDen_not, h1, hi']

theorem mk_den (env : Env) (k : BitK) (a b : Bit) (x y : Bool) (ha : bitDen env a = some x) (hb : bitDen env b = some y) :
    bitDen env (.mk k a b) = some (k.g x y) := by
  unfold Bit.mk
  split
  · rename_i hsame
    have h1 := strip_den env a x ha
    have h2 := strip_den env b y hb
    rw [Bit.eq_of_beq _ _ hsame, h2] at h1
    simp only [Option.some.injEq] at h1
    clear h2 hsame
    generalize a.strip.2 = na at h1 ⊢
    generalize b.strip.2 = nb at h1 ⊢
    cases k <;> cases x <;> cases y <;> cases na <;> cases nb <;> simp_all [BitK.g, bitDen]
  · simp [bitDen, ha, hb]

theorem and_den (env : Env) (a b : Bit) (x y : Bool) (ha : bitDen env a = some x) (hb : bitDen env b = some y) :
    bitDen env (a.and b) = some (x && y) := by
  unfold Bit.and
  split
  · simp only [bitDen, Option.some.injEq] at ha; subst ha; rfl
  · simp only [bitDen, Option.some.injEq] at ha; subst ha; simpa using hb
  · simp only [bitDen, Option.some.injEq] at hb; subst hb; simp [bitDen]
  · simp only [bitDen, Option.some.injEq] at hb; subst hb; simpa using ha
  · exact mk_den env .and _ _ x y ha hb

theorem or_den (env : Env) (a b : Bit) (x y : Bool) (ha : bitDen env a = some x) (hb : bitDen env b = some y) :
    bitDen env (a.or b) = some (x || y) := by
  unfold Bit.or
  split
  · simp only [bitDen, Option.some.injEq] at ha; subst ha; rfl
  · simp only [bitDen, Option.some.injEq] at ha; subst ha; simpa using hb
  · simp only [bitDen, Option.some.injEq] at hb; subst hb; simp [bitDen]
  · simp only [bitDen, Option.some.injEq] at hb; subst hb; simpa using ha
  · exact mk_den env .or _ _ x y ha hb

theorem xor_den (env : Env) (a b : Bit) (x y : Bool) (ha : bitDen env a = some x) (hb : bitDen env b = some y) :
    bitDen env (a.xor b) = some (x ^^ y) := by
  unfold Bit.xor
  split
  · simp only [bitDen, Option.some.injEq] at ha; subst ha; simpa using hb
  · simp only [bitDen, Option.some.injEq] at ha; subst ha; simp [bitDen_not, hb]
  · simp only [bitDen, Option.some.injEq] at hb; subst hb; simpa using ha
  · simp only [bitDen, Option.some.injEq] at hb; subst hb; simp [bitDen_not, ha]
  · exact mk_den env .xor _ _ x y ha hb

theorem ite_den (env : Env) (e : Expr) (v : Bool) (he : eval env e = .bool v) (a b : Bit) (x y : Bool)
    (ha : bitDen env a = some x) (hb : bitDen env b = some y) : bitDen env (Bit.ite e a b) = some (if v then x else y) := by
  unfold Bit.ite
  split
  · rename_i hab
    have : a = b := Bit.eq_of_beq a b hab
    subst this
    rw [ha] at hb
    simp only [Option.some.injEq] at hb
    subst hb
    simp [ha]
  · split
    · simp only [bitDen, Option.some.injEq] at ha hb; subst ha hb; cases v <;> simp [bitDen, he]
    · simp only [bitDen, Option.some.injEq] at ha hb; subst ha hb; cases v <;> simp [bitDen, he]
    · cases v <;> simp [bitDen, he, ha, hb]

theorem map_eq_one {β : Type} (f : Expr → β) {args : List Expr} {b : β} (h : args.map f = [b]) : ∃ a, args = [a] ∧ f a = b := by
  cases args with
  | nil => simp at h
  | cons a rest =>
    cases rest with
    | nil => exact ⟨a, rfl, by simpa using h⟩
    | cons _ _ => simp at h

theorem map_eq_two {β : Type} (f : Expr → β) {args : List Expr} {b c : β} (h : args.map f = [b, c]) :
    ∃ a s, args = [a, s] ∧ f a = b ∧ f s = c := by
  cases args with
  | nil => simp at h
  | cons a rest =>
    cases rest with
    | nil => simp at h
    | cons s rest2 =>
      cases rest2 with
      | nil => exact ⟨a, s, rfl, by simpa using h⟩
      | cons _ _ => simp at h

theorem map_eq_two_plus {β : Type} (f : Expr → β) {args : List Expr} {b c : β} {l : List β} (h : args.map f = b :: c :: l) :
    ∃ a s more, args = a :: s :: more ∧ f a = b ∧ f s = c ∧ more.map f = l := by
  cases args with
  | nil => simp at h
  | cons a rest =>
    cases rest with
    | nil => simp at h
    | cons s rest2 => exact ⟨a, s, rest2, rfl, by simpa using h⟩

theorem map_eq_three {β : Type} (f : Expr → β) {args : List Expr} {b c d : β} (h : args.map f = [b, c, d]) :
    ∃ x y z, args = [x, y, z] ∧ f x = b ∧ f y = c ∧ f z = d := by
  match args, h with
  | [x, y, z], h => exact ⟨x, y, z, rfl, by simpa using h⟩

/-- a bitwise operator followed bit by bit (under one assignment) -/
structure BitOp (env : Env) where
  f : Bit → Bit → Bit
  g : (w : Nat) → BitVec w → BitVec w → BitVec w
  gb : Bool → Bool → Bool
  hf : ∀ a b x y, bitDen env a = some x → bitDen env b = some y → bitDen env (f a b) = some (gb x y)
  hg : ∀ w (x y : BitVec w) i, (g w x y).getLsbD i = gb (x.getLsbD i) (y.getLsbD i)

def opAnd (env : Env) : BitOp env where
  f := Bit.and
  g := fun _ x y => x &&& y
  gb := (· && ·)
  hf := and_den env
  hg := by intro w x y i; exact BitVec.getLsbD_and

def opOr (env : Env) : BitOp env where
  f := Bit.or
  g := fun _ x y => x ||| y
  gb := (· || ·)
  hf := or_den env
  hg := by intro w x y i; exact BitVec.getLsbD_or

def opXor (env : Env) : BitOp env where
  f := Bit.xor
  g := fun _ x y => x ^^^ y
  gb := (· ^^ ·)
  hf := xor_den env
  hg := by intro w x y i; exact BitVec.getLsbD_xor

/-- `If` under an assignment that gives its condition the value `v` -/
def opIte (env : Env) (e : Expr) (v : Bool) (he : eval env e = .bool v) : BitOp env where
  f := Bit.ite e
  g := fun _ x y => if v then x else y
  gb := fun x y => if v then x else y
  hf := ite_den env e v he
  hg := by intro w x y i; cases v <;> rfl

theorem zipBits_length (f) : ∀ (a b r : List Bit), zipBits f a b = some r → a.length = b.length ∧ r.length = a.length
  | [], [], r, h => by simp [zipBits] at h; subst h; simp
  | x :: a, y :: b, r, h => by
    simp only [zipBits, Option.map_eq_some_iff] at h
    obtain ⟨rs, hz, rfl⟩ := h
    have := zipBits_length f a b rs hz
    simp [this.1, this.2]
  | [], _ :: _, r, h => by simp [zipBits] at h
  | _ :: _, [], r, h => by simp [zipBits] at h

theorem zipBits_get (f) : ∀ (a b r : List Bit), zipBits f a b = some r → ∀ (i : Nat) (x y : Bit), a[i]? = some x → b[i]? = some y →
    r[i]? = some (f x y)
  | [], [], r, h, i, x, y, hx, _ => by simp at hx
  | u :: a, v :: b, r, h, i, x, y, hx, hy => by
    simp only [zipBits, Option.map_eq_some_iff] at h
    obtain ⟨rs, hz, rfl⟩ := h
    cases i with
    | zero =>
      simp only [List.getElem?_cons_zero, Option.some.injEq] at hx hy
      subst hx hy
      simp
    | succ j =>
      simp only [List.getElem?_cons_succ] at hx hy ⊢
      exact zipBits_get f a b rs hz j x y hx hy
  | [], _ :: _, r, h, _, _, _, _, _ => by simp [zipBits] at h
  | _ :: _, [], r, h, _, _, _, _, _ => by simp [zipBits] at h

theorem describes_zip {env : Env} (o : BitOp env) {a b r : List Bit} {w na nb : Nat} (Da : Describes env a w na)
    (Db : Describes env b w nb) (h : zipBits o.f a b = some r) :
    Describes env r w (o.g w (BitVec.ofNat w na) (BitVec.ofNat w nb)).toNat where
  len := by rw [(zipBits_length _ _ _ _ h).2, Da.len]
  pos := Da.pos
  lt := (o.g w (BitVec.ofNat w na) (BitVec.ofNat w nb)).isLt
  bit := by
    intro i hi'
    have ha := Da.bit i hi'
    have hb := Db.bit i hi'
    cases hxa : a[i]? with
    | none => simp [hxa] at ha
    | some x =>
      cases hxb : b[i]? with
      | none => simp [hxb] at hb
      | some y =>
        simp only [hxa, hxb, Option.bind_some] at ha hb
        have hz := zipBits_get _ _ _ _ h i x y hxa hxb
        rw [hz, Option.bind_some, o.hf x y _ _ ha hb, BitVec.testBit_toNat, o.hg, BitVec.getLsbD_ofNat,
          BitVec.getLsbD_ofNat]
        simp [hi']

theorem testBit_bytesRev (k : Nat) : ∀ (n i : Nat), i < 8 * k →
    (bytesRev k n).testBit i = n.testBit (8 * (k - 1 - i / 8) + i % 8) := by
  induction k with
  | zero => intro n i hi; omega
  | succ k ih =>
    intro n i hi
    simp only [bytesRev]
    have e : (256 : Nat) ^ k = 2 ^ (8 * k) := by
      have : (256 : Nat) = 2 ^ 8 := by decide
      rw [this, ← Nat.pow_mul]
    have hlt : bytesRev k (n / 256) < 2 ^ (8 * k) := e ▸ bytesRev_lt k (n / 256)
    rw [e, Nat.mul_comm, Nat.testBit_two_pow_mul_add _ hlt]
    by_cases h : i < 8 * k
    · rw [if_pos h, ih _ _ h, show (256 : Nat) = 2 ^ 8 by decide, Nat.testBit_div_two_pow]
      congr 1
      have : i / 8 < k := by omega
      omega
    · rw [if_neg h, show (256 : Nat) = 2 ^ 8 by decide, Nat.testBit_mod_two_pow]
      have h1 : i / 8 = k := by omega
      have h2 : i - 8 * k < 8 := by omega
      simp only [h2, decide_true, Bool.true_and]
      congr 1
      rw [h1]
      omega

theorem describes_reverse {env : Env} {b : List Bit} {wa na : Nat} (D : Describes env b wa na) (h8 : wa % 8 = 0) :
    Describes env (revBytes b) wa (bytesRev (wa / 8) (na % 2 ^ wa)) where
  len := by simp [revBytes, D.len]
  pos := D.pos
  lt := by
    have := bytesRev_lt (wa / 8) (na % 2 ^ wa)
    have e : 256 ^ (wa / 8) = 2 ^ wa := by
      have : (256 : Nat) = 2 ^ 8 := by decide
      rw [this, ← Nat.pow_mul]
      congr 1; omega
    omega
  bit := by
    intro i hi'
    have hidx : 8 * (wa / 8 - 1 - i / 8) + i % 8 < wa := by
      have : i / 8 < wa / 8 := by omega
      omega
    simp only [revBytes, List.getElem?_map, D.len, List.getElem?_range hi', Option.map_some, Option.bind_some]
    rw [List.getD_eq_getElem?_getD]
    have h1 := D.bit _ hidx
    cases hb : b[8 * (wa / 8 - 1 - i / 8) + i % 8]? with
    | none => simp [hb] at h1
    | some x =>
      simp only [hb, Option.bind_some] at h1
      simp only [Option.getD_some, h1]
      rw [testBit_bytesRev _ _ _ (by omega), Nat.testBit_mod_two_pow]
      simp [hidx]

theorem describes_lshr {env : Env} {a : List Bit} {wa na : Nat} (D : Describes env a wa na) (k : Nat) :
    Describes env (a.drop k ++ List.replicate (min k a.length) (Bit.c false)) wa (BitVec.ofNat wa na >>> k).toNat where
  len := by simp [D.len]; omega
  pos := D.pos
  lt := (BitVec.ofNat wa na >>> k).isLt
  bit := by
    intro i hi'
    rw [List.getElem?_append, BitVec.testBit_toNat, BitVec.getLsbD_ushiftRight, BitVec.getLsbD_ofNat]
    simp only [List.length_drop, D.len]
    by_cases hlt : i < wa - k
    · rw [if_pos hlt, List.getElem?_drop, D.bit (k + i) (by omega)]; simp [show k + i < wa by omega]
    · rw [if_neg hlt, List.getElem?_replicate, if_pos (by omega)]
      simp [bitDen, show ¬ k + i < wa by omega]

theorem describes_ashr {env : Env} {a : List Bit} {wa na : Nat} (D : Describes env a wa na) (k : Nat) (m : Bit)
    (hm : a.getLast? = some m) :
    Describes env (a.drop k ++ List.replicate (min k a.length) m) wa ((BitVec.ofNat wa na).sshiftRight k).toNat where
  len := by simp [D.len]; omega
  pos := D.pos
  lt := ((BitVec.ofNat wa na).sshiftRight k).isLt
  bit := by
    intro i hi'
    have hpos := D.pos
    have hmd : bitDen env m = some (na.testBit (wa - 1)) := by
      have h1 := D.bit (wa - 1) (by omega)
      rw [List.getLast?_eq_getElem?, D.len] at hm
      rw [hm] at h1
      simpa using h1
    rw [List.getElem?_append, BitVec.testBit_toNat, BitVec.getLsbD_sshiftRight, BitVec.msb_eq_getLsbD_last]
    simp only [List.length_drop, D.len, BitVec.getLsbD_ofNat]
    by_cases hlt : i < wa - k
    · rw [if_pos hlt, List.getElem?_drop, D.bit (k + i) (by omega)]
      simp [show k + i < wa by omega, show ¬ wa ≤ i by omega]
    · rw [if_neg hlt, List.getElem?_replicate, if_pos (by omega)]
      simp [hmd, show ¬ k + i < wa by omega, show ¬ wa ≤ i by omega, show wa - 1 < wa by omega]

theorem describes_shl {env : Env} {a : List Bit} {wa na : Nat} (D : Describes env a wa na) (k : Nat) :
    Describes env (List.replicate (min k a.length) (Bit.c false) ++ a.take (a.length - k)) wa (BitVec.ofNat wa na <<< k).toNat where
  len := by simp [D.len]; omega
  pos := D.pos
  lt := (BitVec.ofNat wa na <<< k).isLt
  bit := by
    intro i hi'
    rw [List.getElem?_append, BitVec.testBit_toNat, BitVec.getLsbD_shiftLeft, BitVec.getLsbD_ofNat]
    simp only [List.length_replicate, D.len]
    by_cases hlt : i < min k wa
    · rw [if_pos hlt, List.getElem?_replicate, if_pos hlt]
      simp [bitDen, show i < k by omega]
    · rw [if_neg hlt, List.getElem?_take, if_pos (by omega), D.bit (i - min k wa) (by omega)]
      have : min k wa = k := by omega
      simp [this, hi', show ¬ i < k by omega, show i - k < wa by omega]

theorem normList_eq_map (es : List Expr) : normList es = es.map norm := by
  induction es with
  | nil => simp [normList]
  | cons e es ih => simp [normList, ih]

/-- the operands of a well-typed node are well-typed -/
theorem args_ne_err (env : Env) (op : Op) (args : List Expr) (h : eval env (.app op args) ≠ .err) :
    ∀ a ∈ args, eval env a ≠ .err := by
  intro a ha hea
  apply h
  rw [eval_app]
  apply applyOp_strict
  rw [evalList_eq_map, ← hea]
  exact List.mem_map_of_mem ha

theorem iteCond_mem (op : Op) (args : List Expr) (e : Expr) (h : iteCond (.app op args) = some e) : e ∈ args := by
  unfold iteCond at h
  split at h
  · rename_i heq
    simp only [Option.some.injEq] at h
    cases heq
    subst h
    simp
  · simp at h

/-- a well-typed term that reports no width denotes a Boolean -/
theorem bool_of_no_width (env : Env) (e : Expr) (hw : e.width.isNone = true) (he : eval env e ≠ .err) :
    ∃ v, eval env e = .bool v := by
  cases hv : eval env e with
  | err => exact absurd hv he
  | bool v => exact ⟨v, rfl⟩
  | bv w n =>
    have := eval_width env e w n hv
    rw [this] at hw
    simp at hw

/-- the terms an `If` node adds to the opaque terms are well-typed when the node is -/
theorem condTerms_good (env : Env) (op : Op) (args : List Expr) (h : eval env (.app op args) ≠ .err) :
    Good env (condTerms (.app op args)) := by
  have hargs := args_ne_err env op args h
  intro t ht
  unfold condTerms at ht
  split at ht
  · rename_i c hc
    have hmem := iteCond_mem op args _ hc
    simp only [List.mem_cons, List.mem_nil_iff, or_false] at ht
    rcases ht with rfl | rfl
    · exact hargs _ hmem
    · exact args_ne_err env .not [t] (hargs _ hmem) t (by simp)
  · rename_i e _ hc
    simp only [List.mem_singleton] at ht
    subst ht
    exact hargs _ (iteCond_mem op args _ hc)
  · simp at ht

/-! ### the bits of an expression describe its value -/
def Sound1 (env : Env) (e : Expr) : Prop :=
  ∀ bs, (norm e).1 = some bs → Good env (norm e).2 → ∃ w n, eval env e = .bv w n ∧ Describes env bs w n

theorem sound_opaque (env : Env) (e : Expr) (bs : List Bit) (hb : opaqueBits e = some bs) (hg : Good env [e]) :
    ∃ w n, eval env e = .bv w n ∧ Describes env bs w n := by
  have hne := hg e (List.mem_singleton.mpr rfl)
  unfold opaqueBits at hb
  split at hb
  · rename_i w hwd
    split at hb
    · rename_i hw
      simp only [Option.some.injEq] at hb
      subst hb
      cases he : eval env e with
      | err => exact absurd he hne
      | bool v =>
        -- a Boolean-valued term reports no width
        have := eval_bool_width env e v he
        rw [hwd] at this
        cases this
      | bv w' n' => exact ⟨w', n', rfl, describes_opaque env e w hwd hw w' n' he⟩
    · simp at hb
  · simp at hb

theorem concat_fold (env : Env) (es : List Expr) (hs : ∀ e ∈ es, Sound1 env e) (hg : Good env (es.flatMap fun e => (norm e).2))
    (accb : List Bit) (wacc nacc : Nat) (r : List Bit)
    (hr : concatBits (es.map fun e => (norm e).1) = some r) (D : Describes env accb wacc nacc) :
    ∃ w n, (evalList env es).foldl valConcat (.bv wacc nacc) = .bv w n ∧ Describes env (r ++ accb) w n := by
  induction es generalizing accb wacc nacc r with
  | nil =>
    simp only [List.map_nil, concatBits, Option.some.injEq] at hr
    subst hr
    exact ⟨wacc, nacc, by simp [evalList], by simpa using D⟩
  | cons e es ih =>
    simp only [List.map_cons] at hr
    cases hb : (norm e).1 with
    | none => simp [hb, concatBits] at hr
    | some b =>
      simp only [hb, concatBits, Option.map_eq_some_iff] at hr
      obtain ⟨r', hr', rfl⟩ := hr
      have hge : Good env (norm e).2 := fun t ht => hg t (by simp only [List.flatMap_cons]; exact List.mem_append_left _ ht)
      have hgs : Good env (es.flatMap fun e => (norm e).2) :=
        fun t ht => hg t (by simp only [List.flatMap_cons]; exact List.mem_append_right _ ht)
      obtain ⟨we, ne, hee, De⟩ := hs e (List.mem_cons_self ..) b hb hge
      have Dacc := describes_append De D
      obtain ⟨w, n, hf, Df⟩ := ih (fun x hx => hs x (List.mem_cons_of_mem _ hx)) hgs (b ++ accb) _ _ r' hr' Dacc
      refine ⟨w, n, ?_, by simpa [List.append_assoc] using Df⟩
      simp only [evalList, List.foldl, hee, valConcat]
      exact hf

theorem foldBits_none (f) (l : List (Option (List Bit))) : foldBits f l none = none := by
  cases l with
  | nil => rfl
  | cons a l => cases a <;> rfl

theorem bitwise_fold (env : Env) (o : BitOp env) (es : List Expr) (hs : ∀ e ∈ es, Sound1 env e)
    (hg : Good env (es.flatMap fun e => (norm e).2)) (accb : List Bit) (wacc nacc : Nat) (r : List Bit)
    (hr : foldBits o.f (es.map fun e => (norm e).1) (some accb) = some r) (D : Describes env accb wacc nacc) :
    ∃ n, (evalList env es).foldl (bvBin o.g) (.bv wacc nacc) = .bv wacc n ∧ Describes env r wacc n := by
  induction es generalizing accb nacc with
  | nil =>
    simp only [List.map_nil, foldBits, Option.some.injEq] at hr
    subst hr
    exact ⟨nacc, by simp [evalList], D⟩
  | cons e es ih =>
    simp only [List.map_cons] at hr
    cases hb : (norm e).1 with
    | none => simp [hb, foldBits] at hr
    | some b =>
      simp only [hb, foldBits] at hr
      cases hz : zipBits o.f accb b with
      | none => simp [hz, foldBits_none] at hr
      | some acc' =>
        rw [hz] at hr
        have hge : Good env (norm e).2 := fun t ht => hg t (by simp only [List.flatMap_cons]; exact List.mem_append_left _ ht)
        have hgs : Good env (es.flatMap fun e => (norm e).2) :=
          fun t ht => hg t (by simp only [List.flatMap_cons]; exact List.mem_append_right _ ht)
        obtain ⟨we, ne, hee, De⟩ := hs e (List.mem_cons_self ..) b hb hge
        have hlen := (zipBits_length _ _ _ _ hz).1
        have hww : we = wacc := by rw [← De.len, ← D.len, hlen]
        subst hww
        have Dacc := describes_zip o D De hz
        obtain ⟨n, hf, Df⟩ := ih (fun x hx => hs x (List.mem_cons_of_mem _ hx)) hgs acc' _ hr Dacc
        refine ⟨n, ?_, Df⟩
        simp only [evalList, List.foldl, hee]
        rw [show bvBin o.g (.bv we nacc) (.bv we ne) = .bv we (o.g we (BitVec.ofNat we nacc) (BitVec.ofNat we ne)).toNat by
          simp [bvBin, D.pos]]
        exact hf

theorem nary_sound (env : Env) (o : BitOp env) (op : Op) (hop : ∀ a b l, applyOp op (a :: b :: l) = foldVals (bvBin o.g) (a :: b :: l))
    (args : List Expr) (hall : ∀ a ∈ args, Sound1 env a) (hg : Good env (args.flatMap fun e => (norm e).2))
    (b0 : List Bit) (r1 : Option (List Bit)) (rest : List (Option (List Bit)))
    (heq : (args.map fun e => (norm e).1) = some b0 :: r1 :: rest) (r : List Bit)
    (h : foldBits o.f (r1 :: rest) (some b0) = some r) :
    ∃ w n, eval env (.app op args) = .bv w n ∧ Describes env r w n := by
  obtain ⟨a0, a1, more, rfl, h0, h1, hrest⟩ := map_eq_two_plus _ heq
  · have hg0 : Good env (norm a0).2 := fun t ht => hg t (by simp only [List.flatMap_cons]; exact List.mem_append_left _ ht)
    have hgr : Good env ((a1 :: more).flatMap fun e => (norm e).2) :=
      fun t ht => hg t (by rw [List.flatMap_cons]; exact List.mem_append_right _ ht)
    obtain ⟨w0, n0, he0, D0⟩ := hall a0 (List.mem_cons_self ..) b0 h0 hg0
    obtain ⟨n, hf, Df⟩ := bitwise_fold env o (a1 :: more) (fun x hx => hall x (List.mem_cons_of_mem _ hx)) hgr b0 w0 n0 r
      (by simp only [List.map_cons, h1, hrest]; exact h) D0
    refine ⟨w0, n, ?_, Df⟩
    rw [eval_app]
    simp only [evalList, hop, foldVals, he0]
    simpa [evalList] using hf

theorem shift_operands (env : Env) (op : Op) (args : List Expr) (hall : ∀ a ∈ args, Sound1 env a)
    (hg : Good env (args.flatMap fun e => (norm e).2)) (a : List Bit) (sb : List Bit)
    (heq : (args.map fun e => (norm e).1) = [some a, some sb]) (k ws : Nat)
    (hs : shiftAmt (.app op args) = some (k, ws)) (hws : ws = a.length) :
    ∃ (e : Expr) (v na : Nat), args = [e, .bvv v ws] ∧ k = v % 2 ^ ws ∧ eval env e = .bv ws na ∧ Describes env a ws na ∧
      eval env (.bvv v ws) = .bv ws (v % 2 ^ ws) := by
  obtain ⟨e, s, rfl, heq1, heq2⟩ := map_eq_two _ heq
  · have heq : (norm e).1 = some a ∧ (norm s).1 = some sb := ⟨heq1, heq2⟩
    cases s with
    | bvv v w' =>
      simp only [shiftAmt, Option.some.injEq, Prod.mk.injEq] at hs
      obtain ⟨hk, rfl⟩ := hs
      have hg0 : Good env (norm e).2 := fun t ht => hg t (by simp only [List.flatMap_cons]; exact List.mem_append_left _ ht)
      obtain ⟨we, ne, hee, De⟩ := hall e (List.mem_cons_self ..) a heq.1 hg0
      have : we = w' := by rw [← De.len, ← hws]
      subst this
      refine ⟨e, v, ne, rfl, hk.symm, hee, De, ?_⟩
      simp [eval, De.pos]
    | bvs _ _ => simp [shiftAmt] at hs
    | boolv _ => simp [shiftAmt] at hs
    | bools _ => simp [shiftAmt] at hs
    | app _ _ => simp [shiftAmt] at hs

theorem bitsOf_sound (env : Env) (op : Op) (args : List Expr) (r : List Bit)
    (h : bitsOf op (.app op args) (args.map fun e => (norm e).1) = some r) (hall : ∀ a ∈ args, Sound1 env a)
    (hg : Good env (args.flatMap fun e => (norm e).2)) (hc : Good env (condTerms (.app op args))) :
    ∃ w n, eval env (.app op args) = .bv w n ∧ Describes env r w n := by
  have one : ∀ (b : List Bit), (args.map fun e => (norm e).1) = [some b] →
      ∃ a wa na, args = [a] ∧ eval env a = .bv wa na ∧ Describes env b wa na := by
    intro b heq
    obtain ⟨a, rfl, heq'⟩ := map_eq_one _ heq
    · have heq := heq'
      have hg1 : Good env (norm a).2 := fun t ht => hg t (by simp [List.flatMap_cons, ht])
      obtain ⟨wa, na, hea, Da⟩ := hall a (List.mem_cons_self ..) b heq hg1
      exact ⟨a, wa, na, rfl, hea, Da⟩
  unfold bitsOf at h
  split at h
  · -- concat
    rename_i hd tl heq
    cases args with
    | nil => simp at heq
    | cons a0 rest =>
      simp only [List.map_cons] at h
      cases hb0 : (norm a0).1 with
      | none => simp [hb0, concatBits] at h
      | some b0 =>
        simp only [hb0, concatBits, Option.map_eq_some_iff] at h
        obtain ⟨r', hr', rfl⟩ := h
        have hg0 : Good env (norm a0).2 := fun t ht => hg t (by simp only [List.flatMap_cons]; exact List.mem_append_left _ ht)
        have hgr : Good env (rest.flatMap fun e => (norm e).2) :=
          fun t ht => hg t (by simp only [List.flatMap_cons]; exact List.mem_append_right _ ht)
        obtain ⟨w0, n0, he0, D0⟩ := hall a0 (List.mem_cons_self ..) b0 hb0 hg0
        obtain ⟨w, n, hf, Df⟩ := concat_fold env rest (fun x hx => hall x (List.mem_cons_of_mem _ hx)) hgr b0 w0 n0 r' hr' D0
        refine ⟨w, n, ?_, Df⟩
        rw [eval_app]
        simp only [evalList, applyOp, foldVals, he0]
        exact hf
  · -- extract
    rename_i hi lo b heq
    obtain ⟨a, wa, na, rfl, hea, Da⟩ := one b heq
    split at h
    · rename_i hc
      simp only [Option.some.injEq] at h
      subst h
      rw [Da.len] at hc
      refine ⟨hi - lo + 1, _, ?_, describes_extract Da hi lo hc.1 hc.2⟩
      rw [eval_app]
      simp [evalList, hea, applyOp, hc]
    · simp at h
  · -- zeroExt
    rename_i k b heq
    obtain ⟨a, wa, na, rfl, hea, Da⟩ := one b heq
    simp only [Option.some.injEq] at h
    subst h
    refine ⟨wa + k, _, ?_, describes_zext Da k⟩
    rw [eval_app]
    simp [evalList, hea, applyOp, Da.pos]
  · -- signExt
    rename_i k b heq
    obtain ⟨a, wa, na, rfl, hea, Da⟩ := one b heq
    split at h
    · rename_i m hm
      simp only [Option.some.injEq] at h
      subst h
      refine ⟨wa + k, _, ?_, describes_sext Da k m hm⟩
      rw [eval_app]
      simp [evalList, hea, applyOp, Da.pos]
    · simp at h
  · -- bnot
    rename_i b heq
    obtain ⟨a, wa, na, rfl, hea, Da⟩ := one b heq
    simp only [Option.some.injEq] at h
    subst h
    refine ⟨wa, _, ?_, describes_not Da⟩
    rw [eval_app]
    simp [evalList, hea, applyOp, bvUn, Da.pos]
  · -- reverse
    rename_i b heq
    obtain ⟨a, wa, na, rfl, hea, Da⟩ := one b heq
    split at h
    · rename_i h8
      simp only [Option.some.injEq] at h
      subst h
      rw [Da.len] at h8
      refine ⟨wa, _, ?_, describes_reverse Da h8⟩
      rw [eval_app]
      simp [evalList, hea, applyOp, valReverse, h8, Da.pos]
    · simp at h
  · rename_i b0 r1 rest heq
    exact nary_sound env (opAnd env) .band (fun _ _ _ => rfl) args hall hg b0 r1 rest heq r h
  · rename_i b0 r1 rest heq
    exact nary_sound env (opOr env) .bor (fun _ _ _ => rfl) args hall hg b0 r1 rest heq r h
  · rename_i b0 r1 rest heq
    exact nary_sound env (opXor env) .bxor (fun _ _ _ => rfl) args hall hg b0 r1 rest heq r h
  · -- ite
    rename_i c0 ba bb heq
    obtain ⟨ec, ea, eb, rfl, _, hea, heb⟩ := map_eq_three _ heq
    have hga : Good env (norm ea).2 := fun t ht => hg t (by simp [List.flatMap_cons, ht])
    have hgb : Good env (norm eb).2 := fun t ht => hg t (by simp [List.flatMap_cons, ht])
    obtain ⟨wa, na, heva, Da⟩ := hall ea (by simp) ba hea hga
    obtain ⟨wb, nb, hevb, Db⟩ := hall eb (by simp) bb heb hgb
    -- both shapes of the condition: the bits are those of `If(e, x, y)` for a Boolean `e` with value `v`
    have key : ∀ (e : Expr) (v : Bool) (x y : List Bit) (nx ny wx wy : Nat), eval env e = .bool v → Describes env x wx nx →
        Describes env y wy ny → zipBits (Bit.ite e) x y = some r → wx = wy ∧ Describes env r wx (if v then nx else ny) := by
      intro e v x y nx ny wx wy hv Dx Dy hz
      have hlen := (zipBits_length _ _ _ _ hz).1
      have hww : wy = wx := by rw [← Dx.len, ← Dy.len, hlen]
      subst hww
      have D := describes_zip (opIte env e v hv) Dx Dy hz
      simp only [opIte] at D
      refine ⟨rfl, ?_⟩
      cases v
      · simpa [Nat.mod_eq_of_lt Dy.lt] using D
      · simpa [Nat.mod_eq_of_lt Dx.lt] using D
    simp only [iteCond] at h
    split at h
    · -- `If(Not(c), a, b)`
      rename_i c hcond
      simp only [Option.some.injEq] at hcond
      subst hcond
      split at h
      · rename_i hw
        obtain ⟨v, hv⟩ := bool_of_no_width env c hw (hc c (by simp [condTerms, iteCond]))
        obtain ⟨hww, D⟩ := key c v bb ba nb na wb wa hv Db Da h
        subst hww
        have hnot : eval env (.app .not [c]) = .bool (!v) := by rw [eval_app]; simp [evalList, applyOp, hv, valNot]
        cases v with
        | true =>
          refine ⟨wb, nb, ?_, by simpa using D⟩
          rw [eval_app]; simp [evalList, hnot, applyOp, heva, hevb, valIte]
        | false =>
          refine ⟨wb, na, ?_, by simpa using D⟩
          rw [eval_app]; simp [evalList, hnot, applyOp, heva, hevb, valIte]
      · simp at h
    · rename_i hnn c hcond
      simp only [Option.some.injEq] at hcond
      subst hcond
      split at h
      · rename_i hw
        have hmem : ec ∈ condTerms (.app .ite [ec, ea, eb]) := by
          unfold condTerms
          split
          · rename_i c' hc'
            simp only [iteCond, Option.some.injEq] at hc'
            simp [hc']
          · rename_i _ e' hc'
            simp only [iteCond, Option.some.injEq] at hc'
            simp [hc']
          · rename_i hc'
            simp [iteCond] at hc'
        obtain ⟨v, hv⟩ := bool_of_no_width env ec hw (hc ec hmem)
        obtain ⟨hww, D⟩ := key ec v ba bb na nb wa wb hv Da Db h
        subst hww
        cases v with
        | true =>
          refine ⟨wa, na, ?_, by simpa using D⟩
          rw [eval_app]; simp [evalList, applyOp, hv, heva, hevb, valIte]
        | false =>
          refine ⟨wa, nb, ?_, by simpa using D⟩
          rw [eval_app]; simp [evalList, applyOp, hv, heva, hevb, valIte]
      · simp at h
    · simp at h
  · -- lshr
    rename_i a sb heq
    split at h
    · rename_i k ws hs
      split at h
      · rename_i hws
        simp only [Option.some.injEq] at h
        subst h
        obtain ⟨e, v, na, rfl, hk, hee, De, hev⟩ := shift_operands env .lshr args hall hg a sb heq k ws hs hws
        refine ⟨ws, _, ?_, describes_lshr De k⟩
        rw [eval_app]
        simp only [evalList, hee, hev, applyOp, bvBin, De.pos, and_self, if_true, BitVec.ushiftRight_eq', BitVec.toNat_ofNat]
        rw [Nat.mod_mod, ← hk]
      · simp at h
    · simp at h
  · -- ashr
    rename_i a sb heq
    split at h
    · rename_i k ws m hs hm
      split at h
      · rename_i hws
        simp only [Option.some.injEq] at h
        subst h
        obtain ⟨e, v, na, rfl, hk, hee, De, hev⟩ := shift_operands env .ashr args hall hg a sb heq k ws hs hws
        refine ⟨ws, _, ?_, describes_ashr De k m hm⟩
        rw [eval_app]
        simp only [evalList, hee, hev, applyOp, bvBin, De.pos, and_self, if_true, BitVec.sshiftRight_eq', BitVec.toNat_ofNat]
        rw [Nat.mod_mod, ← hk]
      · simp at h
    · simp at h
  · -- shl
    rename_i a sb heq
    split at h
    · rename_i k ws hs
      split at h
      · rename_i hws
        simp only [Option.some.injEq] at h
        subst h
        obtain ⟨e, v, na, rfl, hk, hee, De, hev⟩ := shift_operands env .shl args hall hg a sb heq k ws hs hws
        refine ⟨ws, _, ?_, describes_shl De k⟩
        rw [eval_app]
        simp only [evalList, hee, hev, applyOp, bvBin, De.pos, and_self, if_true, bvShl_eq, BitVec.shiftLeft_eq', BitVec.toNat_ofNat]
        rw [Nat.mod_mod, ← hk]
      · simp at h
    · simp at h
  · simp at h

mutual
/-- the terms the normal form of a well-typed expression treats as opaque are well-typed (they are sub-terms) -/
theorem norm_good (env : Env) : ∀ (e : Expr), eval env e ≠ .err → Good env (norm e).2
  | .bvv v w', _ => by simp [norm, Good]
  | .bvs nm w', h => by
    intro t ht
    simp only [norm, List.mem_singleton] at ht
    subst ht
    exact h
  | .boolv b, h => by
    intro t ht
    simp only [norm, List.mem_singleton] at ht
    subst ht
    exact h
  | .bools nm, h => by
    intro t ht
    simp only [norm, List.mem_singleton] at ht
    subst ht
    exact h
  | .app op args, h => by
    have hall := normList_good env args
    have hargs := args_ne_err env op args h
    simp only [norm, normList_eq_map, normApp, List.map_map]
    split
    · intro t ht
      simp only [List.mem_append, List.flatMap_map, List.mem_flatMap] at ht
      rcases ht with ht | ⟨a, ha, hta⟩
      · exact condTerms_good env op args h t ht
      · exact hall a ha (hargs a ha) t hta
    · intro t ht
      simp only [List.mem_singleton] at ht
      subst ht
      exact h
theorem normList_good (env : Env) : ∀ (es : List Expr), ∀ e ∈ es, eval env e ≠ .err → Good env (norm e).2
  | [], e, he => by simp at he
  | a :: as, e, he => by
    simp only [List.mem_cons] at he
    rcases he with rfl | he
    · exact norm_good env e
    · exact normList_good env as e he
end

mutual
theorem norm_sound (env : Env) : ∀ (e : Expr), Sound1 env e
  | .bvv v w => by
    intro bs hb _
    simp only [norm] at hb
    split at hb
    · rename_i hw
      simp only [Option.some.injEq] at hb
      subst hb
      exact ⟨w, v % 2 ^ w, by simp [eval, hw], describes_const env v w hw⟩
    · simp at hb
  | .bvs nm w => by
    intro bs hb hg
    exact sound_opaque env _ bs hb hg
  | .boolv b => by intro bs hb _; simp [norm] at hb
  | .bools nm => by intro bs hb _; simp [norm] at hb
  | .app op args => by
    have hall := normList_sound env args
    intro bs hb hg
    simp only [norm, normList_eq_map, normApp, List.map_map] at hb hg
    generalize hN : bitsOf op (.app op args) (args.map ((fun x => x.1) ∘ norm)) = N at hb hg
    cases N with
    | some r =>
      simp only [Option.some.injEq] at hb
      subst hb
      refine bitsOf_sound env op args _ (by simpa [Function.comp_def] using hN) hall ?_ ?_
      · intro t ht
        exact hg t (List.mem_append_right _ (by simpa [List.flatMap_map] using ht))
      · intro e he
        exact hg e (List.mem_append_left _ he)
    | none => exact sound_opaque env _ bs hb hg
theorem normList_sound (env : Env) : ∀ (es : List Expr), ∀ e ∈ es, Sound1 env e
  | [], e, he => by simp at he
  | a :: as, e, he => by
    simp only [List.mem_cons] at he
    rcases he with rfl | he
    · exact norm_sound env e
    · exact normList_sound env as e he
end

/-- **Bit-rearranging rewrites preserve meaning.** If `bitsEquiv lhs rhs` accepts and `lhs` denotes a bit-vector under
`env`, then `rhs` denotes the same bit-vector. -/
theorem bitsEquiv_sound (lhs rhs : Expr) (h : bitsEquiv lhs rhs = true) (env : Env) (w n : Nat)
    (hl : eval env lhs = .bv w n) : eval env rhs = eval env lhs := by
  unfold bitsEquiv at h
  split at h
  · rename_i a b ha hb
    simp only [Bool.and_eq_true, beq_iff_eq, List.all_eq_true, List.elem_eq_contains, List.contains_eq_mem,
      decide_eq_true_eq] at h
    obtain ⟨hab, hsub⟩ := h
    subst hab
    have hgl : Good env (opq lhs) := norm_good env lhs (by rw [hl]; simp)
    have hgr : Good env (opq rhs) := fun t ht => hgl t (hsub t ht)
    obtain ⟨w1, n1, h1, D1⟩ := norm_sound env lhs a ha hgl
    obtain ⟨w2, n2, h2, D2⟩ := norm_sound env rhs a hb hgr
    obtain ⟨e1, e2⟩ := D1.unique D2
    rw [h1, h2, e1, e2]
  · simp at h

/-! non-vacuity: bit-moving combined with a bitwise operation on two symbolic operands, and with an `If` -/
example : bitsEquiv (.app (.extract 3 1) [.app .concat [.app .bor [.bvs "z" 2, .bvs "y" 2], .bvs "u" 3]])
    (.app .concat [.app .bor [.app (.extract 0 0) [.bvs "z" 2], .app (.extract 0 0) [.bvs "y" 2]], .app (.extract 2 1) [.bvs "u" 3]]) = true := by
  decide
example : bitsEquiv (.app (.extract 4 1) [.app (.zeroExt 2) [.app .band [.bvs "x" 4, .bvs "y" 4]]])
    (.app .concat [.bvv 0 1, .app .band [.app (.extract 3 1) [.bvs "x" 4], .app (.extract 3 1) [.bvs "y" 4]]]) = true := by decide
example : bitsEquiv (.app (.extract 1 0) [.app .ite [.bools "c", .bvs "x" 4, .bvs "y" 4]])
    (.app .ite [.bools "c", .app (.extract 1 0) [.bvs "x" 4], .app (.extract 1 0) [.bvs "y" 4]]) = true := by decide
example : bitsEquiv (.app (.extract 1 0) [.app .bxor [.bvs "y" 4, .app .band [.bvs "y" 4, .bvv 3 4]]]) (.bvv 0 2) = true := by decide
example : bitsEquiv (.app (.extract 1 0) [.app .band [.bvs "y" 4, .app .bnot [.bvs "y" 4]]]) (.bvv 1 2) = false := by decide
example : bitsEquiv (.app (.extract 1 0) [.app .ite [.app .not [.bools "c"], .bvs "x" 4, .bvs "y" 4]])
    (.app .ite [.bools "c", .app (.extract 1 0) [.bvs "y" 4], .app (.extract 1 0) [.bvs "x" 4]]) = true := by decide
-- another operation, another operand order, another condition: rejected
example : bitsEquiv (.app (.extract 0 0) [.app .bor [.bvs "z" 2, .bvs "y" 2]])
    (.app .band [.app (.extract 0 0) [.bvs "z" 2], .app (.extract 0 0) [.bvs "y" 2]]) = false := by decide
example : bitsEquiv (.app (.extract 1 0) [.app .ite [.bools "c", .bvs "x" 4, .bvs "y" 4]])
    (.app .ite [.bools "d", .app (.extract 1 0) [.bvs "x" 4], .app (.extract 1 0) [.bvs "y" 4]]) = false := by decide
example : bitsEquiv (.app (.extract 1 0) [.app .ite [.bools "c", .bvs "x" 4, .bvs "y" 4]])
    (.app .ite [.bools "c", .app (.extract 1 0) [.bvs "y" 4], .app (.extract 1 0) [.bvs "x" 4]]) = false := by decide

end Claripy.AST
