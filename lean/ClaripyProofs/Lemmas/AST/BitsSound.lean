import Claripy.AST.Bits
import ClaripyProofs.Lemmas.AST.RulesBase
import ClaripyProofs.Lemmas.AST.Beq
import ClaripyProofs.Props.C05
/-!
Soundness of the bit-level normal form (Claripy/AST/Bits.lean): a rewrite accepted by `bitsEquiv` preserves the SMT-LIB
value of a well-typed expression, for every width and assignment.
-/
namespace Claripy.AST
open Claripy.Props.C05 (eval_width)

/-! ### `Bit` equality -/
theorem Bit.eq_of_beq : ∀ (a b : Bit), Bit.beq a b = true → a = b
  | .c a, .c b, h => by simp [Bit.beq] at h; rw [h]
  | .of t i, .of u j, h => by
    simp only [Bit.beq, Bool.and_eq_true, beq_iff_eq] at h
    rw [h.1, h.2]
  | .c _, .of _ _, h | .of _ _, .c _, h => by simp [Bit.beq] at h

theorem Bit.beq_refl : ∀ (a : Bit), Bit.beq a a = true
  | .c a => by simp [Bit.beq]
  | .of t i => by simp [Bit.beq]

instance : LawfulBEq Bit where
  eq_of_beq {a b} h := Bit.eq_of_beq a b h
  rfl {a} := Bit.beq_refl a

/-! ### what a list of bits denotes -/
def bitDen (env : Env) : Bit → Option Bool
  | .c b => some b
  | .of t i => match eval env t with
    | .bv _ n => some (n.testBit i)
    | _ => none

/-- all these terms denote bit-vectors -/
def Good (env : Env) (ts : List Expr) : Prop := ∀ t ∈ ts, ∃ w n, eval env t = .bv w n

structure Describes (env : Env) (bs : List Bit) (w n : Nat) : Prop where
  len : bs.length = w
  pos : 0 < w
  lt : n < 2 ^ w
  bit : ∀ i, i < w → (bs[i]?).bind (bitDen env) = some (n.testBit i)

theorem Describes.unique {env : Env} {bs : List Bit} {w n w' n' : Nat} (h : Describes env bs w n) (h' : Describes env bs w' n') :
    w = w' ∧ n = n' := by
  have hw : w = w' := h.len.symm.trans h'.len
  subst hw
  refine ⟨rfl, Nat.eq_of_testBit_eq fun i => ?_⟩
  by_cases hi : i < w
  · have := (h.bit i hi).symm.trans (h'.bit i hi)
    simpa using this
  · have hle : 2 ^ w ≤ 2 ^ i := Nat.pow_le_pow_right (by omega) (by omega)
    rw [Nat.testBit_lt_two_pow (Nat.lt_of_lt_of_le h.lt hle), Nat.testBit_lt_two_pow (Nat.lt_of_lt_of_le h'.lt hle)]

theorem describes_const (env : Env) (v w : Nat) (hw : 0 < w) :
    Describes env ((List.range w).map fun i => Bit.c (v.testBit i)) w (v % 2 ^ w) where
  len := by simp
  pos := hw
  lt := Nat.mod_lt _ (Nat.two_pow_pos w)
  bit := by
    intro i hi
    simp [List.getElem?_map, List.getElem?_range hi, bitDen, Nat.testBit_mod_two_pow, hi]

theorem describes_opaque (env : Env) (e : Expr) (w : Nat) (hwd : e.width = some w) (hw : 0 < w) (w' n' : Nat)
    (he : eval env e = .bv w' n') : Describes env ((List.range w).map fun i => Bit.of e i) w' n' := by
  have := eval_width env e w' n' he
  rw [hwd] at this
  cases this
  have hwf : (Val.bv w n').WF := he ▸ eval_wf env e
  exact {
    len := by simp
    pos := hw
    lt := hwf.1
    bit := by
      intro i hi
      simp [List.getElem?_map, List.getElem?_range hi, bitDen, he] }

theorem describes_extract {env : Env} {b : List Bit} {wa na : Nat} (D : Describes env b wa na) (hi lo : Nat) (h1 : lo ≤ hi)
    (h2 : hi < wa) :
    Describes env ((b.drop lo).take (hi - lo + 1)) (hi - lo + 1) (BitVec.extractLsb hi lo (BitVec.ofNat wa na)).toNat where
  len := by simp [List.length_take, List.length_drop, D.len]; omega
  pos := by omega
  lt := (BitVec.extractLsb hi lo (BitVec.ofNat wa na)).isLt
  bit := by
    intro i hi'
    rw [List.getElem?_take, if_pos hi', List.getElem?_drop, D.bit (lo + i) (by omega), BitVec.testBit_toNat,
      BitVec.getLsbD_extractLsb, BitVec.getLsbD_ofNat]
    simp [hi', show lo + i < wa by omega]

theorem describes_zext {env : Env} {b : List Bit} {wa na : Nat} (D : Describes env b wa na) (k : Nat) :
    Describes env (b ++ List.replicate k (Bit.c false)) (wa + k) (BitVec.zeroExtend (wa + k) (BitVec.ofNat wa na)).toNat where
  len := by simp [D.len]
  pos := by have := D.pos; omega
  lt := (BitVec.zeroExtend (wa + k) (BitVec.ofNat wa na)).isLt
  bit := by
    intro i hi'
    rw [List.getElem?_append, D.len, BitVec.testBit_toNat]
    simp only [BitVec.zeroExtend, BitVec.getLsbD_setWidth, BitVec.getLsbD_ofNat]
    by_cases hlt : i < wa
    · rw [if_pos hlt, D.bit i hlt]; simp [hi', hlt]
    · rw [if_neg hlt, List.getElem?_replicate, if_pos (by omega)]
      simp [bitDen, hlt]

theorem describes_sext {env : Env} {b : List Bit} {wa na : Nat} (D : Describes env b wa na) (k : Nat) (m : Bit)
    (hm : b.getLast? = some m) :
    Describes env (b ++ List.replicate k m) (wa + k) (BitVec.signExtend (wa + k) (BitVec.ofNat wa na)).toNat where
  len := by simp [D.len]
  pos := by have := D.pos; omega
  lt := (BitVec.signExtend (wa + k) (BitVec.ofNat wa na)).isLt
  bit := by
    intro i hi'
    have hpos := D.pos
    have hmd : bitDen env m = some (na.testBit (wa - 1)) := by
      have h1 := D.bit (wa - 1) (by omega)
      rw [List.getLast?_eq_getElem?, D.len] at hm
      rw [hm] at h1
      simpa using h1
    rw [List.getElem?_append, D.len, BitVec.testBit_toNat, BitVec.getLsbD_signExtend, BitVec.msb_eq_getLsbD_last]
    simp only [BitVec.getLsbD_ofNat]
    by_cases hlt : i < wa
    · rw [if_pos hlt, D.bit i hlt]; simp [hi', hlt]
    · rw [if_neg hlt, List.getElem?_replicate, if_pos (by omega)]
      simp [hmd, hlt, hi', show wa - 1 < wa by omega]

theorem describes_append {env : Env} {lo hi : List Bit} {wl nl wh nh : Nat} (Dl : Describes env lo wl nl)
    (Dh : Describes env hi wh nh) :
    Describes env (lo ++ hi) (wh + wl) (BitVec.ofNat wh nh ++ BitVec.ofNat wl nl).toNat where
  len := by simp [Dl.len, Dh.len]; omega
  pos := by have := Dl.pos; omega
  lt := (BitVec.ofNat wh nh ++ BitVec.ofNat wl nl).isLt
  bit := by
    intro i hi'
    rw [List.getElem?_append, Dl.len, BitVec.testBit_toNat, BitVec.getLsbD_append]
    simp only [BitVec.getLsbD_ofNat]
    by_cases hlt : i < wl
    · rw [if_pos hlt, if_pos hlt, Dl.bit i hlt]; simp [hlt]
    · rw [if_neg hlt, if_neg hlt, Dh.bit (i - wl) (by omega)]
      simp [show i - wl < wh by omega]

/-! ### the terms of a well-typed expression denote bit-vectors -/
theorem normList_eq_map (es : List Expr) : normList es = es.map norm := by
  induction es with
  | nil => simp [normList]
  | cons e es ih => simp [normList, ih]

theorem foldl_valConcat_err (vs : List Val) : vs.foldl valConcat .err = .err := by
  induction vs with
  | nil => rfl
  | cons v vs ih => simpa [List.foldl, valConcat] using ih

theorem foldl_valConcat_bool (vs : List Val) (b : Bool) : vs.foldl valConcat (.bool b) = .err ∨ vs = [] := by
  cases vs with
  | nil => right; rfl
  | cons v vs => left; simp [List.foldl, valConcat, foldl_valConcat_err]

theorem foldl_valConcat_bv (vs : List Val) (v : Val) (w n : Nat) (h : vs.foldl valConcat v = .bv w n) :
    (∃ w0 n0, v = .bv w0 n0) ∧ ∀ u ∈ vs, ∃ wu nu, u = .bv wu nu := by
  induction vs generalizing v with
  | nil => simp only [List.foldl] at h; exact ⟨⟨w, n, h⟩, by simp⟩
  | cons u vs ih =>
    simp only [List.foldl] at h
    obtain ⟨⟨w1, n1, h1⟩, h2⟩ := ih _ h
    cases v with
    | err => simp [valConcat] at h1
    | bool b => simp [valConcat] at h1
    | bv w0 n0 =>
      cases u with
      | err => simp [valConcat] at h1
      | bool b => simp [valConcat] at h1
      | bv wu nu =>
        refine ⟨⟨w0, n0, rfl⟩, ?_⟩
        intro x hx
        simp only [List.mem_cons] at hx
        rcases hx with rfl | hx
        · exact ⟨wu, nu, rfl⟩
        · exact h2 x hx

theorem good_append {env : Env} {a b : List Expr} (ha : Good env a) (hb : Good env b) : Good env (a ++ b) := by
  intro t ht
  rcases List.mem_append.mp ht with h | h
  · exact ha t h
  · exact hb t h

mutual
theorem norm_good (env : Env) : ∀ (e : Expr) (w n : Nat), eval env e = .bv w n → Good env (norm e).2
  | .bvv v w', w, n, _ => by simp [norm, Good]
  | .bvs nm w', w, n, h => by
    intro t ht
    simp only [norm, List.mem_singleton] at ht
    subst ht
    exact ⟨w, n, h⟩
  | .boolv b, w, n, h => by simp [eval] at h
  | .bools nm, w, n, h => by simp [eval] at h
  | .app op args, w, n, h => by
    have hall := normList_good env args
    simp only [norm, normList_eq_map]
    have hself : Good env [Expr.app op args] := by
      intro t ht
      simp only [List.mem_singleton] at ht
      subst ht
      exact ⟨w, n, h⟩
    unfold normApp
    split
    · -- concat
      rename_i hd tl heq
      split
      · -- all operands have bits: every operand denotes a bit-vector
        rw [eval_app] at h
        cases args with
        | nil => simp at heq
        | cons a0 rest =>
          simp only [evalList, applyOp, foldVals] at h
          obtain ⟨⟨w0, n0, h0⟩, hrest⟩ := foldl_valConcat_bv _ _ _ _ h
          intro t ht
          simp only [List.flatMap_map, List.mem_flatMap] at ht
          obtain ⟨a, ha, hta⟩ := ht
          have : ∃ wa na, eval env a = .bv wa na := by
            simp only [List.mem_cons] at ha
            rcases ha with rfl | ha
            · exact ⟨w0, n0, h0⟩
            · apply hrest
              rw [evalList_eq_map]
              exact List.mem_map_of_mem ha
          obtain ⟨wa, na, hea⟩ := this
          exact hall a ha wa na hea t hta
      · exact hself
    · -- extract
      rename_i hi lo b ts heq
      cases args with
      | nil => simp at heq
      | cons a rest =>
        cases rest with
        | cons _ _ => simp at heq
        | nil =>
          simp only [List.map_cons, List.map_nil, List.cons.injEq, and_true] at heq
          rw [eval_app] at h
          simp only [evalList] at h
          cases hv : eval env a with
          | err => simp [hv, applyOp] at h
          | bool c => simp [hv, applyOp] at h
          | bv wa na =>
            have := hall a (List.mem_cons_self ..) wa na hv
            rw [heq] at this
            exact this
    · -- zeroExt
      rename_i k b ts heq
      cases args with
      | nil => simp at heq
      | cons a rest =>
        cases rest with
        | cons _ _ => simp at heq
        | nil =>
          simp only [List.map_cons, List.map_nil, List.cons.injEq, and_true] at heq
          rw [eval_app] at h
          simp only [evalList] at h
          cases hv : eval env a with
          | err => simp [hv, applyOp] at h
          | bool c => simp [hv, applyOp] at h
          | bv wa na =>
            have := hall a (List.mem_cons_self ..) wa na hv
            rw [heq] at this
            exact this
    · -- signExt
      rename_i k b ts heq
      cases args with
      | nil => simp at heq
      | cons a rest =>
        cases rest with
        | cons _ _ => simp at heq
        | nil =>
          simp only [List.map_cons, List.map_nil, List.cons.injEq, and_true] at heq
          rw [eval_app] at h
          simp only [evalList] at h
          cases hv : eval env a with
          | err => simp [hv, applyOp] at h
          | bool c => simp [hv, applyOp] at h
          | bv wa na =>
            have := hall a (List.mem_cons_self ..) wa na hv
            rw [heq] at this
            exact this
    · exact hself
theorem normList_good (env : Env) : ∀ (es : List Expr), ∀ e ∈ es, ∀ (w n : Nat), eval env e = .bv w n → Good env (norm e).2
  | [], e, he => by simp at he
  | a :: as, e, he => by
    simp only [List.mem_cons] at he
    rcases he with rfl | he
    · exact norm_good env e
    · exact normList_good env as e he
end

/-! ### the bits of an expression describe its value -/
def Sound1 (env : Env) (e : Expr) : Prop :=
  ∀ bs, (norm e).1 = some bs → Good env (norm e).2 → ∃ w n, eval env e = .bv w n ∧ Describes env bs w n

theorem sound_opaque (env : Env) (e : Expr) (bs : List Bit) (hb : opaqueBits e = some bs) (hg : Good env [e]) :
    ∃ w n, eval env e = .bv w n ∧ Describes env bs w n := by
  obtain ⟨w', n', he⟩ := hg e (List.mem_singleton.mpr rfl)
  unfold opaqueBits at hb
  split at hb
  · rename_i w hwd
    split at hb
    · rename_i hw
      simp only [Option.some.injEq] at hb
      subst hb
      exact ⟨w', n', he, describes_opaque env e w hwd hw w' n' he⟩
    · simp at hb
  · simp at hb

theorem concat_fold (env : Env) (es : List Expr) (hs : ∀ e ∈ es, Sound1 env e) (hg : Good env (es.flatMap fun e => (norm e).2))
    (accb : List Bit) (wacc nacc : Nat) (r : List Bit)
    (hr : concatBits (es.map fun e => (norm e).1) = some r) (D : Describes env accb wacc nacc) :
    ∃ w n, (evalList env es).foldl valConcat (.bv wacc nacc) = .bv w n ∧ Describes env (r ++ accb) w n := by
  induction es generalizing accb wacc nacc r with
  | nil =>
    simp only [List.map_nil, concatBits, Option.some.injEq] at hr
    subst hr
    exact ⟨wacc, nacc, by simp [evalList], by simpa using D⟩
  | cons e es ih =>
    simp only [List.map_cons] at hr
    cases hb : (norm e).1 with
    | none => simp [hb, concatBits] at hr
    | some b =>
      simp only [hb, concatBits, Option.map_eq_some_iff] at hr
      obtain ⟨r', hr', rfl⟩ := hr
      have hge : Good env (norm e).2 := fun t ht => hg t (by simp only [List.flatMap_cons]; exact List.mem_append_left _ ht)
      have hgs : Good env (es.flatMap fun e => (norm e).2) :=
        fun t ht => hg t (by simp only [List.flatMap_cons]; exact List.mem_append_right _ ht)
      obtain ⟨we, ne, hee, De⟩ := hs e (List.mem_cons_self ..) b hb hge
      have Dacc := describes_append De D
      obtain ⟨w, n, hf, Df⟩ := ih (fun x hx => hs x (List.mem_cons_of_mem _ hx)) hgs (b ++ accb) _ _ r' hr' Dacc
      refine ⟨w, n, ?_, by simpa [List.append_assoc] using Df⟩
      simp only [evalList, List.foldl, hee, valConcat]
      exact hf

mutual
theorem norm_sound (env : Env) : ∀ (e : Expr), Sound1 env e
  | .bvv v w => by
    intro bs hb _
    simp only [norm] at hb
    split at hb
    · rename_i hw
      simp only [Option.some.injEq] at hb
      subst hb
      exact ⟨w, v % 2 ^ w, by simp [eval, hw], describes_const env v w hw⟩
    · simp at hb
  | .bvs nm w => by
    intro bs hb hg
    exact sound_opaque env _ bs hb hg
  | .boolv b => by intro bs hb _; simp [norm] at hb
  | .bools nm => by intro bs hb _; simp [norm] at hb
  | .app op args => by
    have hall := normList_sound env args
    intro bs hb hg
    simp only [norm, normList_eq_map] at hb hg
    generalize hN : normApp op (.app op args) (args.map norm) = N at hb hg
    unfold normApp at hN
    split at hN
    · -- concat
      rename_i hd tl heq
      split at hN
      · rename_i r hr
        subst hN
        simp only [Option.some.injEq] at hb
        subst hb
        cases args with
        | nil => simp at heq
        | cons a0 rest =>
          simp only [List.map_cons, List.map_map] at hr
          cases hb0 : (norm a0).1 with
          | none => simp [hb0, concatBits] at hr
          | some b0 =>
            simp only [hb0, concatBits, Option.map_eq_some_iff] at hr
            obtain ⟨r', hr', rfl⟩ := hr
            have hg0 : Good env (norm a0).2 := fun t ht => hg t (by simp only [List.map_cons, List.flatMap_cons]; exact List.mem_append_left _ ht)
            have hgr : Good env (rest.flatMap fun e => (norm e).2) := by
              intro t ht
              apply hg t
              simp only [List.map_cons, List.flatMap_cons, List.flatMap_map]
              exact List.mem_append_right _ ht
            obtain ⟨w0, n0, he0, D0⟩ := hall a0 (List.mem_cons_self ..) b0 hb0 hg0
            obtain ⟨w, n, hf, Df⟩ := concat_fold env rest (fun x hx => hall x (List.mem_cons_of_mem _ hx)) hgr b0 w0 n0 r'
              (by simpa [Function.comp_def] using hr') D0
            refine ⟨w, n, ?_, Df⟩
            rw [eval_app]
            simp only [evalList, applyOp, foldVals, he0]
            exact hf
      · subst hN
        exact sound_opaque env _ bs hb hg
    · -- extract
      rename_i hi lo b ts heq
      subst hN
      cases args with
      | nil => simp at heq
      | cons a rest =>
        cases rest with
        | cons _ _ => simp at heq
        | nil =>
          simp only [List.map_cons, List.map_nil, List.cons.injEq, and_true] at heq
          have hb1 : (norm a).1 = some b := by rw [heq]
          have hg1 : Good env (norm a).2 := by rw [heq]; exact hg
          obtain ⟨wa, na, hea, Da⟩ := hall a (List.mem_cons_self ..) b hb1 hg1
          simp only at hb
          split at hb
          · rename_i hc
            simp only [Option.some.injEq] at hb
            subst hb
            rw [Da.len] at hc
            refine ⟨hi - lo + 1, _, ?_, describes_extract Da hi lo hc.1 hc.2⟩
            rw [eval_app]
            simp [evalList, hea, applyOp, hc]
          · simp at hb
    · -- zeroExt
      rename_i k b ts heq
      subst hN
      cases args with
      | nil => simp at heq
      | cons a rest =>
        cases rest with
        | cons _ _ => simp at heq
        | nil =>
          simp only [List.map_cons, List.map_nil, List.cons.injEq, and_true] at heq
          have hb1 : (norm a).1 = some b := by rw [heq]
          have hg1 : Good env (norm a).2 := by rw [heq]; exact hg
          obtain ⟨wa, na, hea, Da⟩ := hall a (List.mem_cons_self ..) b hb1 hg1
          simp only [Option.some.injEq] at hb
          subst hb
          refine ⟨wa + k, _, ?_, describes_zext Da k⟩
          rw [eval_app]
          simp [evalList, hea, applyOp, Da.pos]
    · -- signExt
      rename_i k b ts heq
      subst hN
      cases args with
      | nil => simp at heq
      | cons a rest =>
        cases rest with
        | cons _ _ => simp at heq
        | nil =>
          simp only [List.map_cons, List.map_nil, List.cons.injEq, and_true] at heq
          have hb1 : (norm a).1 = some b := by rw [heq]
          have hg1 : Good env (norm a).2 := by rw [heq]; exact hg
          obtain ⟨wa, na, hea, Da⟩ := hall a (List.mem_cons_self ..) b hb1 hg1
          simp only at hb
          split at hb
          · rename_i m hm
            simp only [Option.some.injEq] at hb
            subst hb
            refine ⟨wa + k, _, ?_, describes_sext Da k m hm⟩
            rw [eval_app]
            simp [evalList, hea, applyOp, Da.pos]
          · simp at hb
    · subst hN
      exact sound_opaque env _ bs hb hg
theorem normList_sound (env : Env) : ∀ (es : List Expr), ∀ e ∈ es, Sound1 env e
  | [], e, he => by simp at he
  | a :: as, e, he => by
    simp only [List.mem_cons] at he
    rcases he with rfl | he
    · exact norm_sound env e
    · exact normList_sound env as e he
end

/-- **Bit-rearranging rewrites preserve meaning.** If `bitsEquiv lhs rhs` accepts and `lhs` denotes a bit-vector under
`env`, then `rhs` denotes the same bit-vector. -/
theorem bitsEquiv_sound (lhs rhs : Expr) (h : bitsEquiv lhs rhs = true) (env : Env) (w n : Nat)
    (hl : eval env lhs = .bv w n) : eval env rhs = eval env lhs := by
  unfold bitsEquiv at h
  split at h
  · rename_i a b ha hb
    simp only [Bool.and_eq_true, beq_iff_eq, List.all_eq_true, List.elem_eq_contains, List.contains_eq_mem,
      decide_eq_true_eq] at h
    obtain ⟨hab, hsub⟩ := h
    subst hab
    have hgl : Good env (opq lhs) := norm_good env lhs w n hl
    have hgr : Good env (opq rhs) := fun t ht => hgl t (hsub t ht)
    obtain ⟨w1, n1, h1, D1⟩ := norm_sound env lhs a ha hgl
    obtain ⟨w2, n2, h2, D2⟩ := norm_sound env rhs a hb hgr
    obtain ⟨e1, e2⟩ := D1.unique D2
    rw [h1, h2, e1, e2]
  · simp at h

end Claripy.AST
