import Claripy.AST.Bits
import ClaripyProofs.Lemmas.AST.RulesBase
import ClaripyProofs.Lemmas.AST.Beq
import ClaripyProofs.Props.C05
/-!
Soundness of the bit-level normal form (Claripy/AST/Bits.lean): a rewrite accepted by `bitsEquiv` preserves the SMT-LIB
value of a well-typed expression, for every width and assignment.
-/
namespace Claripy.AST
open Claripy.Props.C05 (eval_width)

/-! ### `Bit` equality -/
theorem Bit.eq_of_beq : ∀ (a b : Bit), Bit.beq a b = true → a = b
  | .c a, .c b, h => by simp [Bit.beq] at h; rw [h]
  | .of t i ng, .of u j ng', h => by
    simp only [Bit.beq, Bool.and_eq_true, beq_iff_eq] at h
    rw [h.1.1, h.1.2, h.2]
  | .c _, .of _ _ _, h | .of _ _ _, .c _, h => by simp [Bit.beq] at h

theorem Bit.beq_refl : ∀ (a : Bit), Bit.beq a a = true
  | .c a => by simp [Bit.beq]
  | .of t i ng => by simp [Bit.beq]

instance : LawfulBEq Bit where
  eq_of_beq {a b} h := Bit.eq_of_beq a b h
  rfl {a} := Bit.beq_refl a

/-! ### what a list of bits denotes -/
def bitDen (env : Env) : Bit → Option Bool
  | .c b => some b
  | .of t i ng => match eval env t with
    | .bv _ n => some (n.testBit i ^^ ng)
    | _ => none

/-- all these terms denote bit-vectors -/
def Good (env : Env) (ts : List Expr) : Prop := ∀ t ∈ ts, ∃ w n, eval env t = .bv w n

structure Describes (env : Env) (bs : List Bit) (w n : Nat) : Prop where
  len : bs.length = w
  pos : 0 < w
  lt : n < 2 ^ w
  bit : ∀ i, i < w → (bs[i]?).bind (bitDen env) = some (n.testBit i)

theorem Describes.unique {env : Env} {bs : List Bit} {w n w' n' : Nat} (h : Describes env bs w n) (h' : Describes env bs w' n') :
    w = w' ∧ n = n' := by
  have hw : w = w' := h.len.symm.trans h'.len
  subst hw
  refine ⟨rfl, Nat.eq_of_testBit_eq fun i => ?_⟩
  by_cases hi : i < w
  · have := (h.bit i hi).symm.trans (h'.bit i hi)
    simpa using this
  · have hle : 2 ^ w ≤ 2 ^ i := Nat.pow_le_pow_right (by omega) (by omega)
    rw [Nat.testBit_lt_two_pow (Nat.lt_of_lt_of_le h.lt hle), Nat.testBit_lt_two_pow (Nat.lt_of_lt_of_le h'.lt hle)]

theorem describes_const (env : Env) (v w : Nat) (hw : 0 < w) :
    Describes env ((List.range w).map fun i => Bit.c (v.testBit i)) w (v % 2 ^ w) where
  len := by simp
  pos := hw
  lt := Nat.mod_lt _ (Nat.two_pow_pos w)
  bit := by
    intro i hi
    simp [List.getElem?_map, List.getElem?_range hi, bitDen, Nat.testBit_mod_two_pow, hi]

theorem describes_opaque (env : Env) (e : Expr) (w : Nat) (hwd : e.width = some w) (hw : 0 < w) (w' n' : Nat)
    (he : eval env e = .bv w' n') : Describes env ((List.range w).map fun i => Bit.of e i false) w' n' := by
  have := eval_width env e w' n' he
  rw [hwd] at this
  cases this
  have hwf : (Val.bv w n').WF := he ▸ eval_wf env e
  exact {
    len := by simp
    pos := hw
    lt := hwf.1
    bit := by
      intro i hi
      simp [List.getElem?_map, List.getElem?_range hi, bitDen, he] }

theorem describes_extract {env : Env} {b : List Bit} {wa na : Nat} (D : Describes env b wa na) (hi lo : Nat) (h1 : lo ≤ hi)
    (h2 : hi < wa) :
    Describes env ((b.drop lo).take (hi - lo + 1)) (hi - lo + 1) (BitVec.extractLsb hi lo (BitVec.ofNat wa na)).toNat where
  len := by simp [List.length_take, List.length_drop, D.len]; omega
  pos := by omega
  lt := (BitVec.extractLsb hi lo (BitVec.ofNat wa na)).isLt
  bit := by
    intro i hi'
    rw [List.getElem?_take, if_pos hi', List.getElem?_drop, D.bit (lo + i) (by omega), BitVec.testBit_toNat,
      BitVec.getLsbD_extractLsb, BitVec.getLsbD_ofNat]
    simp [hi', show lo + i < wa by omega]

theorem describes_zext {env : Env} {b : List Bit} {wa na : Nat} (D : Describes env b wa na) (k : Nat) :
    Describes env (b ++ List.replicate k (Bit.c false)) (wa + k) (BitVec.zeroExtend (wa + k) (BitVec.ofNat wa na)).toNat where
  len := by simp [D.len]
  pos := by have := D.pos; omega
  lt := (BitVec.zeroExtend (wa + k) (BitVec.ofNat wa na)).isLt
  bit := by
    intro i hi'
    rw [List.getElem?_append, D.len, BitVec.testBit_toNat]
    simp only [BitVec.zeroExtend, BitVec.getLsbD_setWidth, BitVec.getLsbD_ofNat]
    by_cases hlt : i < wa
    · rw [if_pos hlt, D.bit i hlt]; simp [hi', hlt]
    · rw [if_neg hlt, List.getElem?_replicate, if_pos (by omega)]
      simp [bitDen, hlt]

theorem describes_sext {env : Env} {b : List Bit} {wa na : Nat} (D : Describes env b wa na) (k : Nat) (m : Bit)
    (hm : b.getLast? = some m) :
    Describes env (b ++ List.replicate k m) (wa + k) (BitVec.signExtend (wa + k) (BitVec.ofNat wa na)).toNat where
  len := by simp [D.len]
  pos := by have := D.pos; omega
  lt := (BitVec.signExtend (wa + k) (BitVec.ofNat wa na)).isLt
  bit := by
    intro i hi'
    have hpos := D.pos
    have hmd : bitDen env m = some (na.testBit (wa - 1)) := by
      have h1 := D.bit (wa - 1) (by omega)
      rw [List.getLast?_eq_getElem?, D.len] at hm
      rw [hm] at h1
      simpa using h1
    rw [List.getElem?_append, D.len, BitVec.testBit_toNat, BitVec.getLsbD_signExtend, BitVec.msb_eq_getLsbD_last]
    simp only [BitVec.getLsbD_ofNat]
    by_cases hlt : i < wa
    · rw [if_pos hlt, D.bit i hlt]; simp [hi', hlt]
    · rw [if_neg hlt, List.getElem?_replicate, if_pos (by omega)]
      simp [hmd, hlt, hi', show wa - 1 < wa by omega]

theorem describes_append {env : Env} {lo hi : List Bit} {wl nl wh nh : Nat} (Dl : Describes env lo wl nl)
    (Dh : Describes env hi wh nh) :
    Describes env (lo ++ hi) (wh + wl) (BitVec.ofNat wh nh ++ BitVec.ofNat wl nl).toNat where
  len := by simp [Dl.len, Dh.len]; omega
  pos := by have := Dl.pos; omega
  lt := (BitVec.ofNat wh nh ++ BitVec.ofNat wl nl).isLt
  bit := by
    intro i hi'
    rw [List.getElem?_append, Dl.len, BitVec.testBit_toNat, BitVec.getLsbD_append]
    simp only [BitVec.getLsbD_ofNat]
    by_cases hlt : i < wl
    · rw [if_pos hlt, if_pos hlt, Dl.bit i hlt]; simp [hlt]
    · rw [if_neg hlt, if_neg hlt, Dh.bit (i - wl) (by omega)]
      simp [show i - wl < wh by omega]

theorem bitDen_not (env : Env) (b : Bit) : bitDen env b.not = (bitDen env b).map (!·) := by
  cases b with
  | c x => simp [Bit.not, bitDen]
  | of t i ng =>
    simp only [Bit.not, bitDen]
    cases eval env t <;> simp

theorem describes_not {env : Env} {b : List Bit} {wa na : Nat} (D : Describes env b wa na) :
    Describes env (b.map Bit.not) wa (~~~ (BitVec.ofNat wa na)).toNat where
  len := by simp [D.len]
  pos := D.pos
  lt := (~~~ (BitVec.ofNat wa na)).isLt
  bit := by
    intro i hi'
    have h1 := D.bit i hi'
    rw [List.getElem?_map, BitVec.testBit_toNat, BitVec.getLsbD_not, BitVec.getLsbD_ofNat]
    cases hb : b[i]? with
    | none => simp [hb] at h1
    | some x =>
      simp only [hb, Option.bind_some] at h1
      simp [bitDen_not, h1, hi']

theorem and?_den (env : Env) : ∀ (a b r : Bit), Bit.and? a b = some r → ∀ x y, bitDen env a = some x → bitDen env b = some y →
    bitDen env r = some (x && y)
  | .c false, b, r, h, x, y, ha, hb => by
    simp only [Bit.and?, Option.some.injEq] at h; subst h
    simp only [bitDen, Option.some.injEq] at ha; subst ha; rfl
  | .c true, b, r, h, x, y, ha, hb => by
    simp only [Bit.and?, Option.some.injEq] at h; subst h
    simp only [bitDen, Option.some.injEq] at ha; subst ha; simpa using hb
  | .of t i ng, .c false, r, h, x, y, ha, hb => by
    simp only [Bit.and?, Option.some.injEq] at h; subst h
    simp only [bitDen, Option.some.injEq] at hb; subst hb; simp [bitDen]
  | .of t i ng, .c true, r, h, x, y, ha, hb => by
    simp only [Bit.and?, Option.some.injEq] at h; subst h
    simp only [bitDen, Option.some.injEq] at hb; subst hb; simpa using ha
  | .of _ _ _, .of _ _ _, r, h, _, _, _, _ => by simp [Bit.and?] at h

theorem or?_den (env : Env) : ∀ (a b r : Bit), Bit.or? a b = some r → ∀ x y, bitDen env a = some x → bitDen env b = some y →
    bitDen env r = some (x || y)
  | .c true, b, r, h, x, y, ha, hb => by
    simp only [Bit.or?, Option.some.injEq] at h; subst h
    simp only [bitDen, Option.some.injEq] at ha; subst ha; rfl
  | .c false, b, r, h, x, y, ha, hb => by
    simp only [Bit.or?, Option.some.injEq] at h; subst h
    simp only [bitDen, Option.some.injEq] at ha; subst ha; simpa using hb
  | .of t i ng, .c true, r, h, x, y, ha, hb => by
    simp only [Bit.or?, Option.some.injEq] at h; subst h
    simp only [bitDen, Option.some.injEq] at hb; subst hb; simp [bitDen]
  | .of t i ng, .c false, r, h, x, y, ha, hb => by
    simp only [Bit.or?, Option.some.injEq] at h; subst h
    simp only [bitDen, Option.some.injEq] at hb; subst hb; simpa using ha
  | .of _ _ _, .of _ _ _, r, h, _, _, _, _ => by simp [Bit.or?] at h

theorem xor?_den (env : Env) : ∀ (a b r : Bit), Bit.xor? a b = some r → ∀ x y, bitDen env a = some x → bitDen env b = some y →
    bitDen env r = some (x ^^ y)
  | .c false, b, r, h, x, y, ha, hb => by
    simp only [Bit.xor?, Option.some.injEq] at h; subst h
    simp only [bitDen, Option.some.injEq] at ha; subst ha; simpa using hb
  | .c true, b, r, h, x, y, ha, hb => by
    simp only [Bit.xor?, Option.some.injEq] at h; subst h
    simp only [bitDen, Option.some.injEq] at ha; subst ha; simp [bitDen_not, hb]
  | .of t i ng, .c false, r, h, x, y, ha, hb => by
    simp only [Bit.xor?, Option.some.injEq] at h; subst h
    simp only [bitDen, Option.some.injEq] at hb; subst hb; simpa using ha
  | .of t i ng, .c true, r, h, x, y, ha, hb => by
    simp only [Bit.xor?, Option.some.injEq] at h; subst h
    simp only [bitDen, Option.some.injEq] at hb; subst hb; simp [bitDen_not, ha]
  | .of _ _ _, .of _ _ _, r, h, _, _, _, _ => by simp [Bit.xor?] at h

theorem map_eq_one {β : Type} (f : Expr → β) {args : List Expr} {b : β} (h : args.map f = [b]) : ∃ a, args = [a] ∧ f a = b := by
  cases args with
  | nil => simp at h
  | cons a rest =>
    cases rest with
    | nil => exact ⟨a, rfl, by simpa using h⟩
    | cons _ _ => simp at h

theorem map_eq_two {β : Type} (f : Expr → β) {args : List Expr} {b c : β} (h : args.map f = [b, c]) :
    ∃ a s, args = [a, s] ∧ f a = b ∧ f s = c := by
  cases args with
  | nil => simp at h
  | cons a rest =>
    cases rest with
    | nil => simp at h
    | cons s rest2 =>
      cases rest2 with
      | nil => exact ⟨a, s, rfl, by simpa using h⟩
      | cons _ _ => simp at h

theorem map_eq_two_plus {β : Type} (f : Expr → β) {args : List Expr} {b c : β} {l : List β} (h : args.map f = b :: c :: l) :
    ∃ a s more, args = a :: s :: more ∧ f a = b ∧ f s = c ∧ more.map f = l := by
  cases args with
  | nil => simp at h
  | cons a rest =>
    cases rest with
    | nil => simp at h
    | cons s rest2 => exact ⟨a, s, rest2, rfl, by simpa using h⟩

/-- a bitwise operator followed bit by bit -/
structure BitOp where
  f : Bit → Bit → Option Bit
  g : (w : Nat) → BitVec w → BitVec w → BitVec w
  gb : Bool → Bool → Bool
  hf : ∀ (env : Env) a b r, f a b = some r → ∀ x y, bitDen env a = some x → bitDen env b = some y → bitDen env r = some (gb x y)
  hg : ∀ w (x y : BitVec w) i, (g w x y).getLsbD i = gb (x.getLsbD i) (y.getLsbD i)

def opAnd : BitOp where
  f := Bit.and?
  g := fun _ x y => x &&& y
  gb := (· && ·)
  hf := and?_den
  hg := by intro w x y i; exact BitVec.getLsbD_and

def opOr : BitOp where
  f := Bit.or?
  g := fun _ x y => x ||| y
  gb := (· || ·)
  hf := or?_den
  hg := by intro w x y i; exact BitVec.getLsbD_or

def opXor : BitOp where
  f := Bit.xor?
  g := fun _ x y => x ^^^ y
  gb := (· ^^ ·)
  hf := xor?_den
  hg := by intro w x y i; exact BitVec.getLsbD_xor

theorem zipBits_length (f) : ∀ (a b r : List Bit), zipBits f a b = some r → a.length = b.length ∧ r.length = a.length
  | [], [], r, h => by simp [zipBits] at h; subst h; simp
  | x :: a, y :: b, r, h => by
    simp only [zipBits] at h
    cases hf : f x y with
    | none => simp [hf] at h
    | some z =>
      cases hz : zipBits f a b with
      | none => simp [hf, hz] at h
      | some rs =>
        simp only [hf, hz, Option.some.injEq] at h
        subst h
        have := zipBits_length f a b rs hz
        simp [this.1, this.2]
  | [], _ :: _, r, h => by simp [zipBits] at h
  | _ :: _, [], r, h => by simp [zipBits] at h

theorem zipBits_get (f) : ∀ (a b r : List Bit), zipBits f a b = some r → ∀ (i : Nat) (x y : Bit), a[i]? = some x → b[i]? = some y →
    ∃ z, r[i]? = some z ∧ f x y = some z
  | [], [], r, h, i, x, y, hx, _ => by simp at hx
  | u :: a, v :: b, r, h, i, x, y, hx, hy => by
    simp only [zipBits] at h
    cases hf : f u v with
    | none => simp [hf] at h
    | some z =>
      cases hz : zipBits f a b with
      | none => simp [hf, hz] at h
      | some rs =>
        simp only [hf, hz, Option.some.injEq] at h
        subst h
        cases i with
        | zero =>
          simp only [List.getElem?_cons_zero, Option.some.injEq] at hx hy
          subst hx hy
          exact ⟨z, by simp, hf⟩
        | succ j =>
          simp only [List.getElem?_cons_succ] at hx hy ⊢
          exact zipBits_get f a b rs hz j x y hx hy
  | [], _ :: _, r, h, _, _, _, _, _ => by simp [zipBits] at h
  | _ :: _, [], r, h, _, _, _, _, _ => by simp [zipBits] at h

theorem describes_zip (o : BitOp) {env : Env} {a b r : List Bit} {w na nb : Nat} (Da : Describes env a w na)
    (Db : Describes env b w nb) (h : zipBits o.f a b = some r) :
    Describes env r w (o.g w (BitVec.ofNat w na) (BitVec.ofNat w nb)).toNat where
  len := by rw [(zipBits_length _ _ _ _ h).2, Da.len]
  pos := Da.pos
  lt := (o.g w (BitVec.ofNat w na) (BitVec.ofNat w nb)).isLt
  bit := by
    intro i hi'
    have ha := Da.bit i hi'
    have hb := Db.bit i hi'
    cases hxa : a[i]? with
    | none => simp [hxa] at ha
    | some x =>
      cases hxb : b[i]? with
      | none => simp [hxb] at hb
      | some y =>
        simp only [hxa, hxb, Option.bind_some] at ha hb
        obtain ⟨z, hz, hfz⟩ := zipBits_get _ _ _ _ h i x y hxa hxb
        rw [hz, Option.bind_some, o.hf env x y z hfz _ _ ha hb, BitVec.testBit_toNat, o.hg, BitVec.getLsbD_ofNat,
          BitVec.getLsbD_ofNat]
        simp [hi']

theorem testBit_bytesRev (k : Nat) : ∀ (n i : Nat), i < 8 * k →
    (bytesRev k n).testBit i = n.testBit (8 * (k - 1 - i / 8) + i % 8) := by
  induction k with
  | zero => intro n i hi; omega
  | succ k ih =>
    intro n i hi
    simp only [bytesRev]
    have e : (256 : Nat) ^ k = 2 ^ (8 * k) := by
      have : (256 : Nat) = 2 ^ 8 := by decide
      rw [this, ← Nat.pow_mul]
    have hlt : bytesRev k (n / 256) < 2 ^ (8 * k) := e ▸ bytesRev_lt k (n / 256)
    rw [e, Nat.mul_comm, Nat.testBit_two_pow_mul_add _ hlt]
    by_cases h : i < 8 * k
    · rw [if_pos h, ih _ _ h, show (256 : Nat) = 2 ^ 8 by decide, Nat.testBit_div_two_pow]
      congr 1
      have : i / 8 < k := by omega
      omega
    · rw [if_neg h, show (256 : Nat) = 2 ^ 8 by decide, Nat.testBit_mod_two_pow]
      have h1 : i / 8 = k := by omega
      have h2 : i - 8 * k < 8 := by omega
      simp only [h2, decide_true, Bool.true_and]
      congr 1
      rw [h1]
      omega

theorem describes_reverse {env : Env} {b : List Bit} {wa na : Nat} (D : Describes env b wa na) (h8 : wa % 8 = 0) :
    Describes env (revBytes b) wa (bytesRev (wa / 8) (na % 2 ^ wa)) where
  len := by simp [revBytes, D.len]
  pos := D.pos
  lt := by
    have := bytesRev_lt (wa / 8) (na % 2 ^ wa)
    have e : 256 ^ (wa / 8) = 2 ^ wa := by
      have : (256 : Nat) = 2 ^ 8 := by decide
      rw [this, ← Nat.pow_mul]
      congr 1; omega
    omega
  bit := by
    intro i hi'
    have hidx : 8 * (wa / 8 - 1 - i / 8) + i % 8 < wa := by
      have : i / 8 < wa / 8 := by omega
      omega
    simp only [revBytes, List.getElem?_map, D.len, List.getElem?_range hi', Option.map_some, Option.bind_some]
    rw [List.getD_eq_getElem?_getD]
    have h1 := D.bit _ hidx
    cases hb : b[8 * (wa / 8 - 1 - i / 8) + i % 8]? with
    | none => simp [hb] at h1
    | some x =>
      simp only [hb, Option.bind_some] at h1
      simp only [Option.getD_some, h1]
      rw [testBit_bytesRev _ _ _ (by omega), Nat.testBit_mod_two_pow]
      simp [hidx]

theorem describes_lshr {env : Env} {a : List Bit} {wa na : Nat} (D : Describes env a wa na) (k : Nat) :
    Describes env (a.drop k ++ List.replicate (min k a.length) (Bit.c false)) wa (BitVec.ofNat wa na >>> k).toNat where
  len := by simp [D.len]; omega
  pos := D.pos
  lt := (BitVec.ofNat wa na >>> k).isLt
  bit := by
    intro i hi'
    rw [List.getElem?_append, BitVec.testBit_toNat, BitVec.getLsbD_ushiftRight, BitVec.getLsbD_ofNat]
    simp only [List.length_drop, D.len]
    by_cases hlt : i < wa - k
    · rw [if_pos hlt, List.getElem?_drop, D.bit (k + i) (by omega)]; simp [show k + i < wa by omega]
    · rw [if_neg hlt, List.getElem?_replicate, if_pos (by omega)]
      simp [bitDen, show ¬ k + i < wa by omega]

theorem describes_ashr {env : Env} {a : List Bit} {wa na : Nat} (D : Describes env a wa na) (k : Nat) (m : Bit)
    (hm : a.getLast? = some m) :
    Describes env (a.drop k ++ List.replicate (min k a.length) m) wa ((BitVec.ofNat wa na).sshiftRight k).toNat where
  len := by simp [D.len]; omega
  pos := D.pos
  lt := ((BitVec.ofNat wa na).sshiftRight k).isLt
  bit := by
    intro i hi'
    have hpos := D.pos
    have hmd : bitDen env m = some (na.testBit (wa - 1)) := by
      have h1 := D.bit (wa - 1) (by omega)
      rw [List.getLast?_eq_getElem?, D.len] at hm
      rw [hm] at h1
      simpa using h1
    rw [List.getElem?_append, BitVec.testBit_toNat, BitVec.getLsbD_sshiftRight, BitVec.msb_eq_getLsbD_last]
    simp only [List.length_drop, D.len, BitVec.getLsbD_ofNat]
    by_cases hlt : i < wa - k
    · rw [if_pos hlt, List.getElem?_drop, D.bit (k + i) (by omega)]
      simp [show k + i < wa by omega, show ¬ wa ≤ i by omega]
    · rw [if_neg hlt, List.getElem?_replicate, if_pos (by omega)]
      simp [hmd, show ¬ k + i < wa by omega, show ¬ wa ≤ i by omega, show wa - 1 < wa by omega]

theorem describes_shl {env : Env} {a : List Bit} {wa na : Nat} (D : Describes env a wa na) (k : Nat) :
    Describes env (List.replicate (min k a.length) (Bit.c false) ++ a.take (a.length - k)) wa (BitVec.ofNat wa na <<< k).toNat where
  len := by simp [D.len]; omega
  pos := D.pos
  lt := (BitVec.ofNat wa na <<< k).isLt
  bit := by
    intro i hi'
    rw [List.getElem?_append, BitVec.testBit_toNat, BitVec.getLsbD_shiftLeft, BitVec.getLsbD_ofNat]
    simp only [List.length_replicate, D.len]
    by_cases hlt : i < min k wa
    · rw [if_pos hlt, List.getElem?_replicate, if_pos hlt]
      simp [bitDen, show i < k by omega]
    · rw [if_neg hlt, List.getElem?_take, if_pos (by omega), D.bit (i - min k wa) (by omega)]
      have : min k wa = k := by omega
      simp [this, hi', show ¬ i < k by omega, show i - k < wa by omega]

/-! ### the terms of a well-typed expression denote bit-vectors -/
theorem normList_eq_map (es : List Expr) : normList es = es.map norm := by
  induction es with
  | nil => simp [normList]
  | cons e es ih => simp [normList, ih]

theorem foldl_valConcat_err (vs : List Val) : vs.foldl valConcat .err = .err := by
  induction vs with
  | nil => rfl
  | cons v vs ih => simpa [List.foldl, valConcat] using ih

theorem foldl_valConcat_bv (vs : List Val) (v : Val) (w n : Nat) (h : vs.foldl valConcat v = .bv w n) :
    (∃ w0 n0, v = .bv w0 n0) ∧ ∀ u ∈ vs, ∃ wu nu, u = .bv wu nu := by
  induction vs generalizing v with
  | nil => simp only [List.foldl] at h; exact ⟨⟨w, n, h⟩, by simp⟩
  | cons u vs ih =>
    simp only [List.foldl] at h
    obtain ⟨⟨w1, n1, h1⟩, h2⟩ := ih _ h
    cases v with
    | err => simp [valConcat] at h1
    | bool b => simp [valConcat] at h1
    | bv w0 n0 =>
      cases u with
      | err => simp [valConcat] at h1
      | bool b => simp [valConcat] at h1
      | bv wu nu =>
        refine ⟨⟨w0, n0, rfl⟩, ?_⟩
        intro x hx
        simp only [List.mem_cons] at hx
        rcases hx with rfl | hx
        · exact ⟨wu, nu, rfl⟩
        · exact h2 x hx

theorem foldl_bvBin_bv (f) (vs : List Val) (v : Val) (w n : Nat) (h : vs.foldl (bvBin f) v = .bv w n) :
    (∃ w0 n0, v = .bv w0 n0) ∧ ∀ u ∈ vs, ∃ wu nu, u = .bv wu nu := by
  induction vs generalizing v with
  | nil => simp only [List.foldl] at h; exact ⟨⟨w, n, h⟩, by simp⟩
  | cons u vs ih =>
    simp only [List.foldl] at h
    obtain ⟨⟨w1, n1, h1⟩, h2⟩ := ih _ h
    cases v with
    | err => simp at h1
    | bool b => simp at h1
    | bv w0 n0 =>
      cases u with
      | err => simp at h1
      | bool b => simp at h1
      | bv wu nu =>
        refine ⟨⟨w0, n0, rfl⟩, ?_⟩
        intro x hx
        simp only [List.mem_cons] at hx
        rcases hx with rfl | hx
        · exact ⟨wu, nu, rfl⟩
        · exact h2 x hx

/-- in a node the normal form looks into, every operand of a well-typed node denotes a bit-vector -/
theorem bitsOf_args_bv (env : Env) (op : Op) (args : List Expr) (r : List Bit)
    (h : bitsOf op (.app op args) (args.map fun e => (norm e).1) = some r) (w n : Nat)
    (he : eval env (.app op args) = .bv w n) : ∀ a ∈ args, ∃ wa na, eval env a = .bv wa na := by
  rw [eval_app, evalList_eq_map] at he
  have unary : ∀ (a : Expr), args = [a] → (∀ v, applyOp op [v] = .bv w n → ∃ wa na, v = .bv wa na) →
      ∀ x ∈ args, ∃ wa na, eval env x = .bv wa na := by
    intro a ha hop x hx
    subst ha
    simp only [List.mem_singleton] at hx
    subst hx
    exact hop _ (by simpa using he)
  have nary : ∀ (f), (∀ vs : List Val, 2 ≤ vs.length → applyOp op vs = foldVals (bvBin f) vs) → 2 ≤ args.length →
      ∀ x ∈ args, ∃ wa na, eval env x = .bv wa na := by
    intro f hop hlen x hx
    rw [hop _ (by simpa using hlen)] at he
    match args, hlen with
    | a0 :: a1 :: rest, _ =>
      simp only [List.map_cons, foldVals] at he
      obtain ⟨h0, hr⟩ := foldl_bvBin_bv f _ _ _ _ he
      simp only [List.mem_cons] at hx
      rcases hx with rfl | hx
      · exact h0
      · apply hr
        rcases hx with rfl | hx
        · simp
        · exact List.mem_cons_of_mem _ (List.mem_map_of_mem hx)
  have binary : ∀ (a s : Expr) (f), args = [a, s] → (∀ u v, applyOp op [u, v] = bvBin f u v) →
      ∀ x ∈ args, ∃ wa na, eval env x = .bv wa na := by
    intro a s f ha hop x hx
    subst ha
    simp only [List.map_cons, List.map_nil, hop] at he
    cases hu : eval env a with
    | err => simp [hu] at he
    | bool b => simp [hu] at he
    | bv wa na =>
      cases hv : eval env s with
      | err => simp [hu, hv] at he
      | bool b => simp [hu, hv] at he
      | bv ws ns =>
        simp only [List.mem_cons, List.mem_nil_iff, or_false] at hx
        rcases hx with rfl | rfl
        · exact ⟨wa, na, hu⟩
        · exact ⟨ws, ns, hv⟩
  unfold bitsOf at h
  split at h
  · -- concat
    rename_i hd tl heq
    cases args with
    | nil => simp at heq
    | cons a0 rest =>
      simp only [List.map_cons, applyOp, foldVals] at he
      obtain ⟨h0, hr⟩ := foldl_valConcat_bv _ _ _ _ he
      intro x hx
      simp only [List.mem_cons] at hx
      rcases hx with rfl | hx
      · exact h0
      · exact hr _ (List.mem_map_of_mem hx)
  · rename_i hi lo b heq
    cases args with
    | nil => simp at heq
    | cons a rest =>
      cases rest with
      | cons _ _ => simp at heq
      | nil =>
        refine unary a rfl ?_
        intro v hv
        cases v with
        | err => simp [applyOp] at hv
        | bool c => simp [applyOp] at hv
        | bv wa na => exact ⟨wa, na, rfl⟩
  · rename_i k b heq
    cases args with
    | nil => simp at heq
    | cons a rest =>
      cases rest with
      | cons _ _ => simp at heq
      | nil =>
        refine unary a rfl ?_
        intro v hv
        cases v with
        | err => simp [applyOp] at hv
        | bool c => simp [applyOp] at hv
        | bv wa na => exact ⟨wa, na, rfl⟩
  · rename_i k b heq
    cases args with
    | nil => simp at heq
    | cons a rest =>
      cases rest with
      | cons _ _ => simp at heq
      | nil =>
        refine unary a rfl ?_
        intro v hv
        cases v with
        | err => simp [applyOp] at hv
        | bool c => simp [applyOp] at hv
        | bv wa na => exact ⟨wa, na, rfl⟩
  · rename_i b heq
    cases args with
    | nil => simp at heq
    | cons a rest =>
      cases rest with
      | cons _ _ => simp at heq
      | nil =>
        refine unary a rfl ?_
        intro v hv
        cases v with
        | err => simp [applyOp] at hv
        | bool c => simp [applyOp] at hv
        | bv wa na => exact ⟨wa, na, rfl⟩
  · rename_i b heq
    cases args with
    | nil => simp at heq
    | cons a rest =>
      cases rest with
      | cons _ _ => simp at heq
      | nil =>
        refine unary a rfl ?_
        intro v hv
        cases v with
        | err => simp [applyOp, valReverse] at hv
        | bool c => simp [applyOp, valReverse] at hv
        | bv wa na => exact ⟨wa, na, rfl⟩
  · rename_i b0 r1 rest heq
    refine nary (fun _ x y => x &&& y) ?_ ?_
    · intro vs hvs
      match vs, hvs with
      | a :: b :: l, _ => rfl
    · have := congrArg List.length heq
      simp at this
      omega
  · rename_i b0 r1 rest heq
    refine nary (fun _ x y => x ||| y) ?_ ?_
    · intro vs hvs
      match vs, hvs with
      | a :: b :: l, _ => rfl
    · have := congrArg List.length heq
      simp at this
      omega
  · rename_i b0 r1 rest heq
    refine nary (fun _ x y => x ^^^ y) ?_ ?_
    · intro vs hvs
      match vs, hvs with
      | a :: b :: l, _ => rfl
    · have := congrArg List.length heq
      simp at this
      omega
  · rename_i a sb heq
    obtain ⟨a', s', rfl, _, _⟩ := map_eq_two _ heq
    exact binary a' s' (fun _ x y => x >>> y) rfl (fun _ _ => rfl)
  · rename_i a sb heq
    obtain ⟨a', s', rfl, _, _⟩ := map_eq_two _ heq
    exact binary a' s' (fun _ x y => BitVec.sshiftRight' x y) rfl (fun _ _ => rfl)
  · rename_i a sb heq
    obtain ⟨a', s', rfl, _, _⟩ := map_eq_two _ heq
    exact binary a' s' (fun _ x y => bvShl x y) rfl (fun _ _ => rfl)
  · simp at h

/-! ### the bits of an expression describe its value -/
def Sound1 (env : Env) (e : Expr) : Prop :=
  ∀ bs, (norm e).1 = some bs → Good env (norm e).2 → ∃ w n, eval env e = .bv w n ∧ Describes env bs w n

theorem sound_opaque (env : Env) (e : Expr) (bs : List Bit) (hb : opaqueBits e = some bs) (hg : Good env [e]) :
    ∃ w n, eval env e = .bv w n ∧ Describes env bs w n := by
  obtain ⟨w', n', he⟩ := hg e (List.mem_singleton.mpr rfl)
  unfold opaqueBits at hb
  split at hb
  · rename_i w hwd
    split at hb
    · rename_i hw
      simp only [Option.some.injEq] at hb
      subst hb
      exact ⟨w', n', he, describes_opaque env e w hwd hw w' n' he⟩
    · simp at hb
  · simp at hb

theorem concat_fold (env : Env) (es : List Expr) (hs : ∀ e ∈ es, Sound1 env e) (hg : Good env (es.flatMap fun e => (norm e).2))
    (accb : List Bit) (wacc nacc : Nat) (r : List Bit)
    (hr : concatBits (es.map fun e => (norm e).1) = some r) (D : Describes env accb wacc nacc) :
    ∃ w n, (evalList env es).foldl valConcat (.bv wacc nacc) = .bv w n ∧ Describes env (r ++ accb) w n := by
  induction es generalizing accb wacc nacc r with
  | nil =>
    simp only [List.map_nil, concatBits, Option.some.injEq] at hr
    subst hr
    exact ⟨wacc, nacc, by simp [evalList], by simpa using D⟩
  | cons e es ih =>
    simp only [List.map_cons] at hr
    cases hb : (norm e).1 with
    | none => simp [hb, concatBits] at hr
    | some b =>
      simp only [hb, concatBits, Option.map_eq_some_iff] at hr
      obtain ⟨r', hr', rfl⟩ := hr
      have hge : Good env (norm e).2 := fun t ht => hg t (by simp only [List.flatMap_cons]; exact List.mem_append_left _ ht)
      have hgs : Good env (es.flatMap fun e => (norm e).2) :=
        fun t ht => hg t (by simp only [List.flatMap_cons]; exact List.mem_append_right _ ht)
      obtain ⟨we, ne, hee, De⟩ := hs e (List.mem_cons_self ..) b hb hge
      have Dacc := describes_append De D
      obtain ⟨w, n, hf, Df⟩ := ih (fun x hx => hs x (List.mem_cons_of_mem _ hx)) hgs (b ++ accb) _ _ r' hr' Dacc
      refine ⟨w, n, ?_, by simpa [List.append_assoc] using Df⟩
      simp only [evalList, List.foldl, hee, valConcat]
      exact hf

theorem foldBits_none (f) (l : List (Option (List Bit))) : foldBits f l none = none := by
  cases l with
  | nil => rfl
  | cons a l => cases a <;> rfl

theorem bitwise_fold (o : BitOp) (env : Env) (es : List Expr) (hs : ∀ e ∈ es, Sound1 env e)
    (hg : Good env (es.flatMap fun e => (norm e).2)) (accb : List Bit) (wacc nacc : Nat) (r : List Bit)
    (hr : foldBits o.f (es.map fun e => (norm e).1) (some accb) = some r) (D : Describes env accb wacc nacc) :
    ∃ n, (evalList env es).foldl (bvBin o.g) (.bv wacc nacc) = .bv wacc n ∧ Describes env r wacc n := by
  induction es generalizing accb nacc with
  | nil =>
    simp only [List.map_nil, foldBits, Option.some.injEq] at hr
    subst hr
    exact ⟨nacc, by simp [evalList], D⟩
  | cons e es ih =>
    simp only [List.map_cons] at hr
    cases hb : (norm e).1 with
    | none => simp [hb, foldBits] at hr
    | some b =>
      simp only [hb, foldBits] at hr
      cases hz : zipBits o.f accb b with
      | none => simp [hz, foldBits_none] at hr
      | some acc' =>
        rw [hz] at hr
        have hge : Good env (norm e).2 := fun t ht => hg t (by simp only [List.flatMap_cons]; exact List.mem_append_left _ ht)
        have hgs : Good env (es.flatMap fun e => (norm e).2) :=
          fun t ht => hg t (by simp only [List.flatMap_cons]; exact List.mem_append_right _ ht)
        obtain ⟨we, ne, hee, De⟩ := hs e (List.mem_cons_self ..) b hb hge
        have hlen := (zipBits_length _ _ _ _ hz).1
        have hww : we = wacc := by rw [← De.len, ← D.len, hlen]
        subst hww
        have Dacc := describes_zip o D De hz
        obtain ⟨n, hf, Df⟩ := ih (fun x hx => hs x (List.mem_cons_of_mem _ hx)) hgs acc' _ hr Dacc
        refine ⟨n, ?_, Df⟩
        simp only [evalList, List.foldl, hee]
        rw [show bvBin o.g (.bv we nacc) (.bv we ne) = .bv we (o.g we (BitVec.ofNat we nacc) (BitVec.ofNat we ne)).toNat by
          simp [bvBin, D.pos]]
        exact hf

theorem nary_sound (o : BitOp) (env : Env) (op : Op) (hop : ∀ a b l, applyOp op (a :: b :: l) = foldVals (bvBin o.g) (a :: b :: l))
    (args : List Expr) (hall : ∀ a ∈ args, Sound1 env a) (hg : Good env (args.flatMap fun e => (norm e).2))
    (b0 : List Bit) (r1 : Option (List Bit)) (rest : List (Option (List Bit)))
    (heq : (args.map fun e => (norm e).1) = some b0 :: r1 :: rest) (r : List Bit)
    (h : foldBits o.f (r1 :: rest) (some b0) = some r) :
    ∃ w n, eval env (.app op args) = .bv w n ∧ Describes env r w n := by
  obtain ⟨a0, a1, more, rfl, h0, h1, hrest⟩ := map_eq_two_plus _ heq
  · have hg0 : Good env (norm a0).2 := fun t ht => hg t (by simp only [List.flatMap_cons]; exact List.mem_append_left _ ht)
    have hgr : Good env ((a1 :: more).flatMap fun e => (norm e).2) :=
      fun t ht => hg t (by rw [List.flatMap_cons]; exact List.mem_append_right _ ht)
    obtain ⟨w0, n0, he0, D0⟩ := hall a0 (List.mem_cons_self ..) b0 h0 hg0
    obtain ⟨n, hf, Df⟩ := bitwise_fold o env (a1 :: more) (fun x hx => hall x (List.mem_cons_of_mem _ hx)) hgr b0 w0 n0 r
      (by simp only [List.map_cons, h1, hrest]; exact h) D0
    refine ⟨w0, n, ?_, Df⟩
    rw [eval_app]
    simp only [evalList, hop, foldVals, he0]
    simpa [evalList] using hf

theorem shift_operands (env : Env) (op : Op) (args : List Expr) (hall : ∀ a ∈ args, Sound1 env a)
    (hg : Good env (args.flatMap fun e => (norm e).2)) (a : List Bit) (sb : List Bit)
    (heq : (args.map fun e => (norm e).1) = [some a, some sb]) (k ws : Nat)
    (hs : shiftAmt (.app op args) = some (k, ws)) (hws : ws = a.length) :
    ∃ (e : Expr) (v na : Nat), args = [e, .bvv v ws] ∧ k = v % 2 ^ ws ∧ eval env e = .bv ws na ∧ Describes env a ws na ∧
      eval env (.bvv v ws) = .bv ws (v % 2 ^ ws) := by
  obtain ⟨e, s, rfl, heq1, heq2⟩ := map_eq_two _ heq
  · have heq : (norm e).1 = some a ∧ (norm s).1 = some sb := ⟨heq1, heq2⟩
    cases s with
    | bvv v w' =>
      simp only [shiftAmt, Option.some.injEq, Prod.mk.injEq] at hs
      obtain ⟨hk, rfl⟩ := hs
      have hg0 : Good env (norm e).2 := fun t ht => hg t (by simp only [List.flatMap_cons]; exact List.mem_append_left _ ht)
      obtain ⟨we, ne, hee, De⟩ := hall e (List.mem_cons_self ..) a heq.1 hg0
      have : we = w' := by rw [← De.len, ← hws]
      subst this
      refine ⟨e, v, ne, rfl, hk.symm, hee, De, ?_⟩
      simp [eval, De.pos]
    | bvs _ _ => simp [shiftAmt] at hs
    | boolv _ => simp [shiftAmt] at hs
    | bools _ => simp [shiftAmt] at hs
    | app _ _ => simp [shiftAmt] at hs

theorem bitsOf_sound (env : Env) (op : Op) (args : List Expr) (r : List Bit)
    (h : bitsOf op (.app op args) (args.map fun e => (norm e).1) = some r) (hall : ∀ a ∈ args, Sound1 env a)
    (hg : Good env (args.flatMap fun e => (norm e).2)) : ∃ w n, eval env (.app op args) = .bv w n ∧ Describes env r w n := by
  have one : ∀ (b : List Bit), (args.map fun e => (norm e).1) = [some b] →
      ∃ a wa na, args = [a] ∧ eval env a = .bv wa na ∧ Describes env b wa na := by
    intro b heq
    obtain ⟨a, rfl, heq'⟩ := map_eq_one _ heq
    · have heq := heq'
      have hg1 : Good env (norm a).2 := fun t ht => hg t (by simp [List.flatMap_cons, ht])
      obtain ⟨wa, na, hea, Da⟩ := hall a (List.mem_cons_self ..) b heq hg1
      exact ⟨a, wa, na, rfl, hea, Da⟩
  unfold bitsOf at h
  split at h
  · -- concat
    rename_i hd tl heq
    cases args with
    | nil => simp at heq
    | cons a0 rest =>
      simp only [List.map_cons] at h
      cases hb0 : (norm a0).1 with
      | none => simp [hb0, concatBits] at h
      | some b0 =>
        simp only [hb0, concatBits, Option.map_eq_some_iff] at h
        obtain ⟨r', hr', rfl⟩ := h
        have hg0 : Good env (norm a0).2 := fun t ht => hg t (by simp only [List.flatMap_cons]; exact List.mem_append_left _ ht)
        have hgr : Good env (rest.flatMap fun e => (norm e).2) :=
          fun t ht => hg t (by simp only [List.flatMap_cons]; exact List.mem_append_right _ ht)
        obtain ⟨w0, n0, he0, D0⟩ := hall a0 (List.mem_cons_self ..) b0 hb0 hg0
        obtain ⟨w, n, hf, Df⟩ := concat_fold env rest (fun x hx => hall x (List.mem_cons_of_mem _ hx)) hgr b0 w0 n0 r' hr' D0
        refine ⟨w, n, ?_, Df⟩
        rw [eval_app]
        simp only [evalList, applyOp, foldVals, he0]
        exact hf
  · -- extract
    rename_i hi lo b heq
    obtain ⟨a, wa, na, rfl, hea, Da⟩ := one b heq
    split at h
    · rename_i hc
      simp only [Option.some.injEq] at h
      subst h
      rw [Da.len] at hc
      refine ⟨hi - lo + 1, _, ?_, describes_extract Da hi lo hc.1 hc.2⟩
      rw [eval_app]
      simp [evalList, hea, applyOp, hc]
    · simp at h
  · -- zeroExt
    rename_i k b heq
    obtain ⟨a, wa, na, rfl, hea, Da⟩ := one b heq
    simp only [Option.some.injEq] at h
    subst h
    refine ⟨wa + k, _, ?_, describes_zext Da k⟩
    rw [eval_app]
    simp [evalList, hea, applyOp, Da.pos]
  · -- signExt
    rename_i k b heq
    obtain ⟨a, wa, na, rfl, hea, Da⟩ := one b heq
    split at h
    · rename_i m hm
      simp only [Option.some.injEq] at h
      subst h
      refine ⟨wa + k, _, ?_, describes_sext Da k m hm⟩
      rw [eval_app]
      simp [evalList, hea, applyOp, Da.pos]
    · simp at h
  · -- bnot
    rename_i b heq
    obtain ⟨a, wa, na, rfl, hea, Da⟩ := one b heq
    simp only [Option.some.injEq] at h
    subst h
    refine ⟨wa, _, ?_, describes_not Da⟩
    rw [eval_app]
    simp [evalList, hea, applyOp, bvUn, Da.pos]
  · -- reverse
    rename_i b heq
    obtain ⟨a, wa, na, rfl, hea, Da⟩ := one b heq
    split at h
    · rename_i h8
      simp only [Option.some.injEq] at h
      subst h
      rw [Da.len] at h8
      refine ⟨wa, _, ?_, describes_reverse Da h8⟩
      rw [eval_app]
      simp [evalList, hea, applyOp, valReverse, h8, Da.pos]
    · simp at h
  · rename_i b0 r1 rest heq
    exact nary_sound opAnd env .band (fun _ _ _ => rfl) args hall hg b0 r1 rest heq r h
  · rename_i b0 r1 rest heq
    exact nary_sound opOr env .bor (fun _ _ _ => rfl) args hall hg b0 r1 rest heq r h
  · rename_i b0 r1 rest heq
    exact nary_sound opXor env .bxor (fun _ _ _ => rfl) args hall hg b0 r1 rest heq r h
  · -- lshr
    rename_i a sb heq
    split at h
    · rename_i k ws hs
      split at h
      · rename_i hws
        simp only [Option.some.injEq] at h
        subst h
        obtain ⟨e, v, na, rfl, hk, hee, De, hev⟩ := shift_operands env .lshr args hall hg a sb heq k ws hs hws
        refine ⟨ws, _, ?_, describes_lshr De k⟩
        rw [eval_app]
        simp only [evalList, hee, hev, applyOp, bvBin, De.pos, and_self, if_true, BitVec.ushiftRight_eq', BitVec.toNat_ofNat]
        rw [Nat.mod_mod, ← hk]
      · simp at h
    · simp at h
  · -- ashr
    rename_i a sb heq
    split at h
    · rename_i k ws m hs hm
      split at h
      · rename_i hws
        simp only [Option.some.injEq] at h
        subst h
        obtain ⟨e, v, na, rfl, hk, hee, De, hev⟩ := shift_operands env .ashr args hall hg a sb heq k ws hs hws
        refine ⟨ws, _, ?_, describes_ashr De k m hm⟩
        rw [eval_app]
        simp only [evalList, hee, hev, applyOp, bvBin, De.pos, and_self, if_true, BitVec.sshiftRight_eq', BitVec.toNat_ofNat]
        rw [Nat.mod_mod, ← hk]
      · simp at h
    · simp at h
  · -- shl
    rename_i a sb heq
    split at h
    · rename_i k ws hs
      split at h
      · rename_i hws
        simp only [Option.some.injEq] at h
        subst h
        obtain ⟨e, v, na, rfl, hk, hee, De, hev⟩ := shift_operands env .shl args hall hg a sb heq k ws hs hws
        refine ⟨ws, _, ?_, describes_shl De k⟩
        rw [eval_app]
        simp only [evalList, hee, hev, applyOp, bvBin, De.pos, and_self, if_true, bvShl_eq, BitVec.shiftLeft_eq', BitVec.toNat_ofNat]
        rw [Nat.mod_mod, ← hk]
      · simp at h
    · simp at h
  · simp at h

mutual
theorem norm_good (env : Env) : ∀ (e : Expr) (w n : Nat), eval env e = .bv w n → Good env (norm e).2
  | .bvv v w', w, n, _ => by simp [norm, Good]
  | .bvs nm w', w, n, h => by
    intro t ht
    simp only [norm, List.mem_singleton] at ht
    subst ht
    exact ⟨w, n, h⟩
  | .boolv b, w, n, h => by simp [eval] at h
  | .bools nm, w, n, h => by simp [eval] at h
  | .app op args, w, n, h => by
    have hall := normList_good env args
    simp only [norm, normList_eq_map, normApp, List.map_map]
    split
    · rename_i r hr
      have hbv := bitsOf_args_bv env op args r (by simpa [Function.comp_def] using hr) w n h
      intro t ht
      simp only [List.flatMap_map, List.mem_flatMap] at ht
      obtain ⟨a, ha, hta⟩ := ht
      obtain ⟨wa, na, hea⟩ := hbv a ha
      exact hall a ha wa na hea t hta
    · intro t ht
      simp only [List.mem_singleton] at ht
      subst ht
      exact ⟨w, n, h⟩
theorem normList_good (env : Env) : ∀ (es : List Expr), ∀ e ∈ es, ∀ (w n : Nat), eval env e = .bv w n → Good env (norm e).2
  | [], e, he => by simp at he
  | a :: as, e, he => by
    simp only [List.mem_cons] at he
    rcases he with rfl | he
    · exact norm_good env e
    · exact normList_good env as e he
end

mutual
theorem norm_sound (env : Env) : ∀ (e : Expr), Sound1 env e
  | .bvv v w => by
    intro bs hb _
    simp only [norm] at hb
    split at hb
    · rename_i hw
      simp only [Option.some.injEq] at hb
      subst hb
      exact ⟨w, v % 2 ^ w, by simp [eval, hw], describes_const env v w hw⟩
    · simp at hb
  | .bvs nm w => by
    intro bs hb hg
    exact sound_opaque env _ bs hb hg
  | .boolv b => by intro bs hb _; simp [norm] at hb
  | .bools nm => by intro bs hb _; simp [norm] at hb
  | .app op args => by
    have hall := normList_sound env args
    intro bs hb hg
    simp only [norm, normList_eq_map, normApp, List.map_map] at hb hg
    generalize hN : bitsOf op (.app op args) (args.map ((fun x => x.1) ∘ norm)) = N at hb hg
    cases N with
    | some r =>
      simp only [Option.some.injEq] at hb
      subst hb
      exact bitsOf_sound env op args r (by simpa [Function.comp_def] using hN) hall
        (by simpa [List.flatMap_map] using hg)
    | none => exact sound_opaque env _ bs hb hg
theorem normList_sound (env : Env) : ∀ (es : List Expr), ∀ e ∈ es, Sound1 env e
  | [], e, he => by simp at he
  | a :: as, e, he => by
    simp only [List.mem_cons] at he
    rcases he with rfl | he
    · exact norm_sound env e
    · exact normList_sound env as e he
end

/-- **Bit-rearranging rewrites preserve meaning.** If `bitsEquiv lhs rhs` accepts and `lhs` denotes a bit-vector under
`env`, then `rhs` denotes the same bit-vector. -/
theorem bitsEquiv_sound (lhs rhs : Expr) (h : bitsEquiv lhs rhs = true) (env : Env) (w n : Nat)
    (hl : eval env lhs = .bv w n) : eval env rhs = eval env lhs := by
  unfold bitsEquiv at h
  split at h
  · rename_i a b ha hb
    simp only [Bool.and_eq_true, beq_iff_eq, List.all_eq_true, List.elem_eq_contains, List.contains_eq_mem,
      decide_eq_true_eq] at h
    obtain ⟨hab, hsub⟩ := h
    subst hab
    have hgl : Good env (opq lhs) := norm_good env lhs w n hl
    have hgr : Good env (opq rhs) := fun t ht => hgl t (hsub t ht)
    obtain ⟨w1, n1, h1, D1⟩ := norm_sound env lhs a ha hgl
    obtain ⟨w2, n2, h2, D2⟩ := norm_sound env rhs a hb hgr
    obtain ⟨e1, e2⟩ := D1.unique D2
    rw [h1, h2, e1, e2]
  · simp at h

end Claripy.AST
