import Claripy.AST.Expr
/-!
Basic facts about `eval`: every value it produces is canonical (`n < 2^w`, `0 < w`), and the
value-level operators compute on `BitVec`s (`Val.ofBV`).
-/
namespace Claripy.AST

theorem bvShl_eq {w : Nat} (x y : BitVec w) : bvShl x y = x <<< y := by
  unfold bvShl
  split
  · rename_i h
    rw [BitVec.shiftLeft_eq']
    exact (BitVec.shiftLeft_eq_zero h).symm
  · rfl

def Val.ofBV {w : Nat} (x : BitVec w) : Val := .bv w x.toNat

def Val.WF : Val → Prop
  | .bv w n => n < 2 ^ w ∧ 0 < w
  | _ => True

theorem Val.WF_ofBV {w : Nat} (x : BitVec w) (hw : 0 < w) : (Val.ofBV x).WF := ⟨x.isLt, hw⟩

theorem Val.WF.exists_bv {w n : Nat} (h : (Val.bv w n).WF) : ∃ x : BitVec w, Val.bv w n = Val.ofBV x ∧ 0 < w :=
  ⟨BitVec.ofNat w n, by simp [Val.ofBV, Nat.mod_eq_of_lt h.1], h.2⟩

@[simp] theorem ofNat_toNat' {w : Nat} (x : BitVec w) : BitVec.ofNat w x.toNat = x := by
  apply BitVec.eq_of_toNat_eq; simp

@[simp] theorem bvBin_ofBV (f : (w : Nat) → BitVec w → BitVec w → BitVec w) {w : Nat} (x y : BitVec w) (hw : 0 < w) :
    bvBin f (Val.ofBV x) (Val.ofBV y) = Val.ofBV (f w x y) := by
  simp [bvBin, Val.ofBV, hw]

@[simp] theorem bvUn_ofBV (f : (w : Nat) → BitVec w → BitVec w) {w : Nat} (x : BitVec w) (hw : 0 < w) :
    bvUn f (Val.ofBV x) = Val.ofBV (f w x) := by
  simp [bvUn, Val.ofBV, hw]

@[simp] theorem bvCmp_ofBV (f : (w : Nat) → BitVec w → BitVec w → Bool) {w : Nat} (x y : BitVec w) (hw : 0 < w) :
    bvCmp f (Val.ofBV x) (Val.ofBV y) = .bool (f w x y) := by
  simp [bvCmp, Val.ofBV, hw]

@[simp] theorem valEq_ofBV {w : Nat} (x y : BitVec w) (hw : 0 < w) :
    valEq (Val.ofBV x) (Val.ofBV y) = .bool (x == y) := by
  simp [valEq, Val.ofBV, hw]

theorem bvBin_wf (f) (a b : Val) : (bvBin f a b).WF := by
  unfold bvBin
  split
  · split
    · rename_i h; exact ⟨BitVec.isLt _, h.2⟩
    · trivial
  · trivial

theorem bvUn_wf (f) (a : Val) : (bvUn f a).WF := by
  unfold bvUn
  split
  · split
    · rename_i h; exact ⟨BitVec.isLt _, h⟩
    · trivial
  · trivial

theorem bvCmp_wf (f) (a b : Val) : (bvCmp f a b).WF := by
  unfold bvCmp; split
  · split <;> trivial
  · trivial

theorem valEq_wf (a b : Val) : (valEq a b).WF := by
  unfold valEq; split
  · split <;> trivial
  · trivial
  · trivial

theorem valNot_wf (a : Val) : (valNot a).WF := by
  unfold valNot; split <;> trivial

theorem boolBin_wf (f) (a b : Val) : (boolBin f a b).WF := by
  unfold boolBin; split <;> trivial

theorem valConcat_wf (a b : Val) (ha : a.WF) : (valConcat a b).WF := by
  unfold valConcat
  split
  · rename_i w x w' y
    exact ⟨BitVec.isLt _, by have := ha.2; omega⟩
  · trivial

theorem valIte_wf (c a b : Val) (ha : a.WF) (hb : b.WF) : (valIte c a b).WF := by
  unfold valIte
  split
  · split
    · split <;> assumption
    · trivial
  · trivial
  · trivial

theorem bytesRev_lt (k n : Nat) : bytesRev k n < 256 ^ k := by
  induction k generalizing n with
  | zero => simp [bytesRev]
  | succ k ih =>
    simp only [bytesRev]
    have h1 : n % 256 < 256 := Nat.mod_lt _ (by omega)
    have h2 := ih (n / 256)
    calc n % 256 * 256 ^ k + bytesRev k (n / 256)
        < n % 256 * 256 ^ k + 256 ^ k := by omega
      _ = (n % 256 + 1) * 256 ^ k := by rw [Nat.add_mul]; omega
      _ ≤ 256 * 256 ^ k := Nat.mul_le_mul_right _ (by omega)
      _ = 256 ^ (k + 1) := by rw [Nat.pow_succ]; omega

theorem valReverse_wf (a : Val) : (valReverse a).WF := by
  unfold valReverse
  split
  · split
    · rename_i w n h
      refine ⟨?_, h.2⟩
      have := bytesRev_lt (w / 8) (n % 2 ^ w)
      have e : 256 ^ (w / 8) = 2 ^ w := by
        have : (256 : Nat) = 2 ^ 8 := by decide
        rw [this, ← Nat.pow_mul]
        congr 1; omega
      omega
    · trivial
  · trivial

theorem foldl_wf (f : Val → Val → Val) (hf : ∀ a b, a.WF → (f a b).WF) (vs : List Val) (v : Val) (hv : v.WF) :
    (vs.foldl f v).WF := by
  induction vs generalizing v with
  | nil => exact hv
  | cons a vs ih => exact ih _ (hf _ _ hv)

theorem foldVals_wf (f : Val → Val → Val) (hf : ∀ a b, a.WF → (f a b).WF) (vs : List Val)
    (hvs : ∀ v ∈ vs, v.WF) : (foldVals f vs).WF := by
  cases vs with
  | nil => trivial
  | cons v vs => exact foldl_wf f hf vs v (hvs v (List.mem_cons_self ..))

theorem applyOp_wf (op : Op) (vs : List Val) (hvs : ∀ v ∈ vs, v.WF) : (applyOp op vs).WF := by
  unfold applyOp
  split
  all_goals first
    | exact foldVals_wf _ (fun a b _ => bvBin_wf _ a b) _ hvs
    | exact foldl_wf _ (fun a b _ => boolBin_wf _ a b) _ _ trivial
    | exact foldVals_wf _ (fun a b ha => valConcat_wf a b ha) _ hvs
    | exact bvBin_wf _ _ _
    | exact bvUn_wf _ _
    | exact bvCmp_wf _ _ _
    | exact valEq_wf _ _
    | exact valNot_wf _
    | exact valReverse_wf _
    | (apply valIte_wf <;> (apply hvs; simp))
    | trivial
    | (split
       · exact ⟨BitVec.isLt _, by omega⟩
       · trivial)

mutual
theorem eval_wf (env : Env) : ∀ e : Expr, (eval env e).WF
  | .bvv v w => by
    simp only [eval]; split
    · rename_i h; exact ⟨Nat.mod_lt _ (Nat.two_pow_pos w), h⟩
    · trivial
  | .bvs name w => by
    simp only [eval]; split
    · rename_i h; exact ⟨Nat.mod_lt _ (Nat.two_pow_pos w), h⟩
    · trivial
  | .boolv _ => by simp [eval, Val.WF]
  | .bools _ => by simp [eval, Val.WF]
  | .app op args => by
    simp only [eval]
    exact applyOp_wf op _ (evalList_wf env args)
theorem evalList_wf (env : Env) : ∀ es : List Expr, ∀ v ∈ evalList env es, v.WF
  | [] => by simp [evalList]
  | e :: es => by
    intro v hv
    simp only [evalList, List.mem_cons] at hv
    rcases hv with rfl | hv
    · exact eval_wf env e
    · exact evalList_wf env es v hv
end

/-- the canonical-form lemma used by every rule proof: a bit-vector value produced by `eval` is `ofBV x` -/
theorem eval_bv_cases (env : Env) (e : Expr) {w n : Nat} (h : eval env e = .bv w n) :
    ∃ x : BitVec w, eval env e = Val.ofBV x ∧ 0 < w := by
  have hw := eval_wf env e
  rw [h] at hw ⊢
  exact hw.exists_bv

theorem eval_bvv (env : Env) (v w : Nat) (hw : 0 < w) : eval env (.bvv v w) = Val.ofBV (BitVec.ofNat w v) := by
  simp [eval, hw, Val.ofBV]

end Claripy.AST
