import ClaripyProofs.Lemmas.AST.ACNormSound
/-!
Soundness of the Boolean certificate check `bcEquiv` (flattening / dropped identity literals / absorbing literal /
repeated operands / order of `And` and `Or` nodes), for every number of operands and nesting depth.
-/
namespace Claripy.AST

theorem BK.assoc (k : BK) (a b c : Bool) : k.g (k.g a b) c = k.g a (k.g b c) := by
  cases k <;> cases a <;> cases b <;> cases c <;> rfl
theorem BK.comm (k : BK) (a b : Bool) : k.g a b = k.g b a := by
  cases k <;> cases a <;> cases b <;> rfl
theorem BK.id_left (k : BK) (a : Bool) : k.g k.e a = a := by
  cases k <;> cases a <;> rfl
theorem BK.id_right (k : BK) (a : Bool) : k.g a k.e = a := by
  cases k <;> cases a <;> rfl
theorem BK.idem (k : BK) (a q : Bool) : k.g a (k.g a q) = k.g a q := by
  cases k <;> cases a <;> cases q <;> rfl
theorem BK.absorb (k : BK) (p : Bool) : k.g (!k.e) p = !k.e := by
  cases k <;> cases p <;> rfl
theorem BK.left_comm (k : BK) (a b c : Bool) : k.g a (k.g b c) = k.g b (k.g a c) := by
  cases k <;> cases a <;> cases b <;> cases c <;> rfl

def toB? : Val → Option Bool
  | .bool b => some b
  | _ => none

def combineB (k : BK) : Option Bool → Option Bool → Option Bool
  | some x, some p => some (k.g x p)
  | _, _ => none

def denB (env : Env) (k : BK) : List Expr → Option Bool
  | [] => some k.e
  | t :: ts => combineB k (toB? (eval env t)) (denB env k ts)

theorem combineB_assoc (k : BK) (a b c : Option Bool) : combineB k (combineB k a b) c = combineB k a (combineB k b c) := by
  cases a <;> cases b <;> cases c <;> simp [combineB, k.assoc]
theorem combineB_left_comm (k : BK) (a b c : Option Bool) : combineB k a (combineB k b c) = combineB k b (combineB k a c) := by
  cases a <;> cases b <;> cases c <;> simp [combineB, k.left_comm]
theorem combineB_e_left (k : BK) (a : Option Bool) : combineB k (some k.e) a = a := by
  cases a <;> simp [combineB, k.id_left]
theorem combineB_e_right (k : BK) (a : Option Bool) : combineB k a (some k.e) = a := by
  cases a <;> simp [combineB, k.id_right]

theorem denB_append (env : Env) (k : BK) (l1 l2 : List Expr) :
    denB env k (l1 ++ l2) = combineB k (denB env k l1) (denB env k l2) := by
  induction l1 with
  | nil => simp [denB, combineB_e_left]
  | cons t ts ih => simp only [List.cons_append, denB, ih, combineB_assoc]

theorem denB_perm (env : Env) (k : BK) {l1 l2 : List Expr} (h : l1.Perm l2) : denB env k l1 = denB env k l2 := by
  induction h with
  | nil => rfl
  | cons a _ ih => simp only [denB, ih]
  | swap a b l => simp only [denB]; exact combineB_left_comm ..
  | trans _ _ ih1 ih2 => exact ih1.trans ih2

theorem foldlB_err (f) (vs : List Val) : vs.foldl (boolBin f) .err = .err := by
  induction vs with
  | nil => rfl
  | cons v vs ih => simpa [List.foldl] using ih

theorem foldl_toB (env : Env) (k : BK) (ts : List Expr) (a : Bool) :
    toB? ((evalList env ts).foldl (boolBin k.g) (.bool a)) = combineB k (some a) (denB env k ts) := by
  induction ts generalizing a with
  | nil => simp [evalList, denB, combineB, toB?, k.id_right]
  | cons t ts ih =>
    simp only [evalList, List.foldl, denB]
    cases hv : eval env t with
    | err => simp [toB?, foldlB_err, combineB]
    | bv w n => simp [boolBin, toB?, foldlB_err, combineB]
    | bool b =>
      simp only [boolBin_bool]
      rw [ih]
      cases denB env k ts <;> simp [combineB, toB?, k.assoc]

theorem applyOp_bk (k : BK) (vs : List Val) (h : 1 ≤ vs.length) : applyOp k.op vs = vs.foldl (boolBin k.g) (.bool k.e) := by
  match vs, h with
  | a :: rest, _ => cases k <;> rfl

theorem node_denB (env : Env) (k : BK) (args : List Expr) (h : 1 ≤ args.length) :
    toB? (eval env (.app k.op args)) = denB env k args := by
  rw [eval_app, applyOp_bk k _ (by rw [evalList_eq_map]; simpa using h), foldl_toB, combineB_e_left]

mutual
theorem flatB_den (env : Env) (k : BK) : ∀ e : Expr, denB env k (flatB k.op e) = toB? (eval env e)
  | .app op' args => by
    simp only [flatB]
    split
    · rename_i hc
      obtain ⟨rfl, hlen⟩ := hc
      rw [flatBList_den env k args, node_denB env k args hlen]
    · simp [denB, combineB_e_right]
  | .bvv v w' => by simp [flatB, denB, combineB_e_right]
  | .bvs n w' => by simp [flatB, denB, combineB_e_right]
  | .boolv b => by simp [flatB, denB, combineB_e_right]
  | .bools n => by simp [flatB, denB, combineB_e_right]
theorem flatBList_den (env : Env) (k : BK) : ∀ es : List Expr, denB env k (flatBList k.op es) = denB env k es
  | [] => by simp [flatBList]
  | e :: es => by simp only [flatBList, denB_append, flatB_den env k e, flatBList_den env k es, denB]
end

theorem bprod_cons (k : BK) (x : Bool) (bs : List Bool) : bprod k (x :: bs) = k.g x (bprod k bs) := by
  have hfrom : ∀ (l : List Bool) (a : Bool), l.foldl k.g a = k.g a (l.foldl k.g k.e) := by
    intro l
    induction l with
    | nil => intro a; simp [k.id_right]
    | cons y l ih =>
      intro a
      simp only [List.foldl]
      rw [ih (k.g a y), ih (k.g k.e y), k.id_left, k.assoc]
  simp only [bprod, List.foldl, k.id_left]
  exact hfrom bs x

theorem splitB_den (env : Env) (k : BK) (ts : List Expr) :
    denB env k ts = combineB k (some (bprod k (splitB ts).1)) (denB env k (splitB ts).2) := by
  induction ts with
  | nil => simp [splitB, denB, bprod, combineB, k.id_left]
  | cons t ts ih =>
    cases t with
    | boolv b =>
      simp only [splitB, denB, eval_boolv, toB?, bprod_cons]
      rw [ih]
      cases denB env k (splitB ts).2 <;> simp [combineB, k.assoc]
    | bvv v w' => simp only [splitB, denB]; rw [ih, combineB_left_comm]
    | bvs n w' => simp only [splitB, denB]; rw [ih, combineB_left_comm]
    | bools n => simp only [splitB, denB]; rw [ih, combineB_left_comm]
    | app o as => simp only [splitB, denB]; rw [ih, combineB_left_comm]

theorem denB_dedupe (env : Env) (k : BK) (l : List Expr) (p : Bool) (h : denB env k l = some p) :
    denB env k (dedupe l) = some p := by
  induction l generalizing p with
  | nil => simpa [dedupe] using h
  | cons a l ih =>
    simp only [denB] at h
    cases hx : toB? (eval env a) with
    | none => simp [hx, combineB] at h
    | some x =>
      cases hp : denB env k l with
      | none => simp [hx, hp, combineB] at h
      | some pl =>
        simp only [hx, hp, combineB, Option.some.injEq] at h
        have ihl := ih pl hp
        simp only [dedupe]
        split
        · rename_i hmem
          have hmem' : a ∈ dedupe l := List.elem_iff.mp hmem
          have := denB_perm env k (List.perm_cons_erase hmem')
          rw [ihl] at this
          simp only [denB, hx] at this
          cases hq : denB env k ((dedupe l).erase a) with
          | none => simp [hq, combineB] at this
          | some q =>
            simp only [hq, combineB, Option.some.injEq] at this
            rw [ihl, ← h, this, k.idem]
        · simp [denB, hx, ihl, combineB, h]

/-- **Boolean AC rewrites preserve meaning**: if `bcEquiv k lhs rhs` accepts and `lhs` denotes a Boolean under `env`,
`rhs` denotes the same Boolean. -/
theorem bcEquiv_sound (k : BK) (lhs rhs : Expr) (h : bcEquiv k lhs rhs = true) (env : Env) (b : Bool)
    (hl : eval env lhs = .bool b) : eval env rhs = eval env lhs := by
  have h1 : denB env k (flatB k.op lhs) = some b := by rw [flatB_den, hl]; rfl
  rw [splitB_den] at h1
  have hrhs : toB? (eval env rhs) = some b → eval env rhs = eval env lhs := by
    intro ht
    rw [hl]
    cases hv : eval env rhs with
    | err => simp [hv, toB?] at ht
    | bv w n => simp [hv, toB?] at ht
    | bool c => simp [hv, toB?] at ht; rw [ht]
  apply hrhs
  rw [← flatB_den env k rhs, splitB_den]
  cases hrest : denB env k (splitB (flatB k.op lhs)).2 with
  | none => simp [hrest, combineB] at h1
  | some p =>
    simp only [hrest, combineB, Option.some.injEq] at h1
    simp only [bcEquiv] at h
    split at h
    · rename_i hle
      simp only [Bool.and_eq_true, decide_eq_true_eq] at h
      obtain ⟨hre, hperm⟩ := h
      have h2 := denB_dedupe env k _ p hrest
      rw [denB_perm env k (List.isPerm_iff.mp hperm)] at h2
      rw [h2, hre]
      rw [hle] at h1
      simp [combineB, h1]
    · rename_i hle
      simp only [Bool.and_eq_true, decide_eq_true_eq, List.isEmpty_iff] at h
      obtain ⟨hre, hemp⟩ := h
      have hz : ∀ x : Bool, x ≠ k.e → x = !k.e := by intro x hx; cases x <;> cases k <;> simp_all [BK.e]
      rw [hemp]
      simp only [denB, combineB, k.id_right]
      have e1 : bprod k (splitB (flatB k.op rhs)).1 = !k.e := hz _ (by simpa using hre)
      have e2 : bprod k (splitB (flatB k.op lhs)).1 = !k.e := hz _ hle
      rw [e1, ← h1, e2, k.absorb]

end Claripy.AST
