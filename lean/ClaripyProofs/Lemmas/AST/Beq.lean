import Claripy.AST.Expr
/-! `Expr.beq` decides equality: `LawfulBEq Expr`. -/
namespace Claripy.AST

mutual
theorem Expr.eq_of_beq : ∀ (a b : Expr), Expr.beq a b = true → a = b
  | .bvv v w, .bvv v' w', h => by simp [Expr.beq] at h; simp [h]
  | .bvs n w, .bvs n' w', h => by simp [Expr.beq] at h; simp [h]
  | .boolv b, .boolv b', h => by simp [Expr.beq] at h; simp [h]
  | .bools n, .bools n', h => by simp [Expr.beq] at h; simp [h]
  | .app op args, .app op' args', h => by
    simp [Expr.beq] at h
    rw [h.1, Expr.eq_of_beqList args args' h.2]
  | .bvv _ _, .bvs _ _, h | .bvv _ _, .boolv _, h | .bvv _ _, .bools _, h | .bvv _ _, .app _ _, h
  | .bvs _ _, .bvv _ _, h | .bvs _ _, .boolv _, h | .bvs _ _, .bools _, h | .bvs _ _, .app _ _, h
  | .boolv _, .bvv _ _, h | .boolv _, .bvs _ _, h | .boolv _, .bools _, h | .boolv _, .app _ _, h
  | .bools _, .bvv _ _, h | .bools _, .bvs _ _, h | .bools _, .boolv _, h | .bools _, .app _ _, h
  | .app _ _, .bvv _ _, h | .app _ _, .bvs _ _, h | .app _ _, .boolv _, h | .app _ _, .bools _, h => by
    simp [Expr.beq] at h
theorem Expr.eq_of_beqList : ∀ (as bs : List Expr), Expr.beqList as bs = true → as = bs
  | [], [], _ => rfl
  | a :: as, b :: bs, h => by
    simp [Expr.beqList] at h
    rw [Expr.eq_of_beq a b h.1, Expr.eq_of_beqList as bs h.2]
  | [], _ :: _, h | _ :: _, [], h => by simp [Expr.beqList] at h
end

mutual
theorem Expr.beq_refl : ∀ (a : Expr), Expr.beq a a = true
  | .bvv _ _ => by simp [Expr.beq]
  | .bvs _ _ => by simp [Expr.beq]
  | .boolv _ => by simp [Expr.beq]
  | .bools _ => by simp [Expr.beq]
  | .app op args => by simp [Expr.beq, Expr.beqList_refl args]
theorem Expr.beqList_refl : ∀ (as : List Expr), Expr.beqList as as = true
  | [] => by simp [Expr.beqList]
  | a :: as => by simp [Expr.beqList, Expr.beq_refl a, Expr.beqList_refl as]
end

instance : LawfulBEq Expr where
  eq_of_beq {a b} h := Expr.eq_of_beq a b h
  rfl {a} := Expr.beq_refl a

end Claripy.AST
