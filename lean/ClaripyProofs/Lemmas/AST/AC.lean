import ClaripyProofs.Lemmas.AST.RulesBase
import Mathlib.Data.List.Perm.Basic
/-!
Associative-commutative n-ary nodes (`__add__ __mul__ __and__ __or__ __xor__`): a well-typed node denotes the fold
of its operator over the `BitVec w` values of its arguments, and that fold is invariant under permutation and
re-association.  This is the algebra behind claripy's `_flatten_simplifier`.
-/
namespace Claripy.AST

/-- an associative-commutative operator with identity on `BitVec w`, uniformly in `w` -/
structure ACOp where
  g : (w : Nat) → BitVec w → BitVec w → BitVec w
  e : (w : Nat) → BitVec w
  assoc : ∀ w (a b c : BitVec w), g w (g w a b) c = g w a (g w b c)
  comm : ∀ w (a b : BitVec w), g w a b = g w b a
  id_left : ∀ w (a : BitVec w), g w (e w) a = a

def acAdd : ACOp := ⟨fun _ a b => a + b, fun _ => 0, fun _ a b c => BitVec.add_assoc a b c, fun _ a b => BitVec.add_comm a b, fun _ a => BitVec.zero_add a⟩
def acMul : ACOp := ⟨fun _ a b => a * b, fun w => 1#w, fun _ a b c => BitVec.mul_assoc a b c, fun _ a b => BitVec.mul_comm a b, fun _ a => BitVec.one_mul a⟩
def acAnd : ACOp := ⟨fun _ a b => a &&& b, fun w => BitVec.allOnes w, fun _ a b c => BitVec.and_assoc a b c, fun _ a b => BitVec.and_comm a b,
  fun _ a => by simp⟩
def acOr : ACOp := ⟨fun _ a b => a ||| b, fun _ => 0, fun _ a b c => BitVec.or_assoc a b c, fun _ a b => BitVec.or_comm a b, fun _ a => by simp⟩
def acXor : ACOp := ⟨fun _ a b => a ^^^ b, fun _ => 0, fun _ a b c => BitVec.xor_assoc a b c, fun _ a b => BitVec.xor_comm a b, fun _ a => by simp⟩

def acOf : Op → Option ACOp
  | .add => some acAdd | .mul => some acMul | .band => some acAnd | .bor => some acOr | .bxor => some acXor
  | _ => none

/-- the fold of an AC operator over a list of values, from the identity -/
def ACOp.prod (o : ACOp) {w : Nat} (xs : List (BitVec w)) : BitVec w := xs.foldl (o.g w) (o.e w)

theorem ACOp.foldl_from (o : ACOp) {w : Nat} (a : BitVec w) (xs : List (BitVec w)) :
    xs.foldl (o.g w) a = o.g w a (o.prod xs) := by
  unfold ACOp.prod
  induction xs generalizing a with
  | nil => simp only [List.foldl]; rw [o.comm, o.id_left]
  | cons x xs ih =>
    simp only [List.foldl]
    rw [ih (o.g w a x), ih (o.g w (o.e w) x), o.id_left, o.assoc]

theorem ACOp.prod_cons (o : ACOp) {w : Nat} (a : BitVec w) (xs : List (BitVec w)) :
    o.prod (a :: xs) = o.g w a (o.prod xs) := by
  show (a :: xs).foldl (o.g w) (o.e w) = _
  simp only [List.foldl, o.id_left]
  exact o.foldl_from a xs

theorem ACOp.prod_append (o : ACOp) {w : Nat} (xs ys : List (BitVec w)) :
    o.prod (xs ++ ys) = o.g w (o.prod xs) (o.prod ys) := by
  induction xs with
  | nil => simp only [List.nil_append]; rw [show o.prod ([] : List (BitVec w)) = o.e w from rfl, o.id_left]
  | cons x xs ih => simp only [List.cons_append, o.prod_cons, ih, o.assoc]

theorem ACOp.prod_perm (o : ACOp) {w : Nat} {xs ys : List (BitVec w)} (h : xs.Perm ys) : o.prod xs = o.prod ys := by
  induction h with
  | nil => rfl
  | cons a _ ih => simp only [o.prod_cons, ih]
  | swap a b l => simp only [o.prod_cons]; rw [← o.assoc, ← o.assoc, o.comm w b a]
  | trans _ _ ih1 ih2 => exact ih1.trans ih2

/-- all values are `w`-bit vectors: the list of their `BitVec` forms -/
def allBV (w : Nat) : List Val → Option (List (BitVec w))
  | [] => some []
  | .bv w' n :: vs => if h : w' = w then (allBV w vs).map (fun xs => BitVec.ofNat w n :: xs) else none
  | _ :: _ => none

theorem foldl_bvBin_ac (o : ACOp) (w : Nat) (hw : 0 < w) (vs : List Val) (a : BitVec w) (n : Nat) (w' : Nat)
    (hwf : ∀ v ∈ vs, v.WF) (h : vs.foldl (bvBin o.g) (Val.ofBV a) = .bv w' n) :
    w' = w ∧ ∃ xs, allBV w vs = some xs ∧ Val.bv w' n = Val.ofBV (xs.foldl (o.g w) a) := by
  induction vs generalizing a with
  | nil =>
    simp only [List.foldl, Val.ofBV] at h
    cases h
    exact ⟨rfl, [], rfl, rfl⟩
  | cons v vs ih =>
    simp only [List.foldl] at h
    cases v with
    | err =>
      exfalso
      have : ∀ l : List Val, l.foldl (bvBin o.g) .err ≠ .bv w' n := by
        intro l; induction l with
        | nil => simp
        | cons b l ihl => simpa [List.foldl] using ihl
      simp at h; exact this vs h
    | bool b =>
      exfalso
      have : ∀ l : List Val, l.foldl (bvBin o.g) .err ≠ .bv w' n := by
        intro l; induction l with
        | nil => simp
        | cons b l ihl => simpa [List.foldl] using ihl
      simp at h; exact this vs h
    | bv wv nv =>
      by_cases hww : w = wv
      · subst hww
        have hwfv := hwf (.bv w nv) (List.mem_cons_self ..)
        obtain ⟨x, hx, _⟩ := hwfv.exists_bv
        rw [hx, bvBin_ofBV _ _ _ hw] at h
        obtain ⟨e1, xs, hxs, e2⟩ := ih (o.g w a x) (fun u hu => hwf u (List.mem_cons_of_mem _ hu)) h
        refine ⟨e1, x :: xs, ?_, ?_⟩
        · simp only [allBV, dif_pos rfl, hxs, Option.map_some]
          congr 2
          simp only [Val.ofBV] at hx
          cases hx
          simp
        · simpa [List.foldl] using e2
      · exfalso
        have : ∀ l : List Val, l.foldl (bvBin o.g) .err ≠ .bv w' n := by
          intro l; induction l with
          | nil => simp
          | cons b l ihl => simpa [List.foldl] using ihl
        rw [show bvBin o.g (Val.ofBV a) (.bv wv nv) = .err by simp [bvBin, Val.ofBV, hww]] at h
        exact this vs h

/-- **AC nodes denote the product of their arguments**: if the value list of an n-ary AC node evaluates to a bit-vector,
all arguments are `w`-bit vectors and the value is the AC product of their `BitVec` forms. -/
theorem foldVals_ac (o : ACOp) (vs : List Val) (hwf : ∀ v ∈ vs, v.WF) (w n : Nat) (h : foldVals (bvBin o.g) vs = .bv w n)
    (hlen : 2 ≤ vs.length) : ∃ xs, allBV w vs = some xs ∧ Val.bv w n = Val.ofBV (o.prod xs) ∧ 0 < w := by
  match vs, hlen with
  | v :: u :: rest, _ =>
    simp only [foldVals] at h
    cases v with
    | err =>
      exfalso
      have : ∀ l : List Val, l.foldl (bvBin o.g) .err ≠ .bv w n := by
        intro l; induction l with
        | nil => simp
        | cons b l ihl => simpa [List.foldl] using ihl
      exact this _ h
    | bool b =>
      exfalso
      have : ∀ l : List Val, l.foldl (bvBin o.g) .err ≠ .bv w n := by
        intro l; induction l with
        | nil => simp
        | cons b l ihl => simpa [List.foldl] using ihl
      simp only [List.foldl, bvBin_bool_l] at h
      exact this _ h
    | bv wv nv =>
      have hwfv := hwf (.bv wv nv) (List.mem_cons_self ..)
      obtain ⟨x, hx, hw0⟩ := hwfv.exists_bv
      rw [hx] at h
      obtain ⟨e1, xs, hxs, e2⟩ := foldl_bvBin_ac o wv hw0 (u :: rest) x n w
        (fun z hz => hwf z (List.mem_cons_of_mem _ hz)) h
      subst e1
      refine ⟨x :: xs, ?_, ?_, hw0⟩
      · simp only [allBV, dif_pos rfl, hxs, Option.map_some]
        congr 2
        simp only [Val.ofBV] at hx
        cases hx
        simp
      · rw [e2, o.prod_cons, ← o.foldl_from]

end Claripy.AST
