import Claripy.AST.Subst
import Std.Data.String.ToNat
/-!
The renaming `canonicalize` applies is injective on the variables it renames: two variables with different names never get
the same canonical name (the counter only moves forward, and a name is determined by the position of the first leaf that
carries it).
-/
namespace Claripy.AST

theorem str_append_cancel (s a b : String) (h : s ++ a = s ++ b) : a = b := by
  have := congrArg String.toList h
  simp only [String.toList_append] at this
  exact String.toList_inj.mp (List.append_cancel_left this)

theorem canon_name_inj (i j : Nat) (h : "canonical_" ++ toString i = "canonical_" ++ toString j) : i = j :=
  Nat.repr_injective (str_append_cancel _ _ _ h)

/-- the variable name of a leaf -/
def leafName : Expr → Option String
  | .bvs n _ => some n
  | .bools n => some n
  | _ => none

theorem canonMap_eq (e : Expr) :
    canonMap e = ((leafAsts e).zip (List.range (leafAsts e).length)).filterMap
      (fun li => (leafName li.1).map fun n => (n, "canonical_" ++ toString li.2)) := by
  unfold canonMap
  simp only
  congr 1
  funext li
  obtain ⟨l, i⟩ := li
  cases l <;> simp [leafName]

/-- an entry of the map comes from a leaf at the position its name shows -/
theorem canonMap_mem (e : Expr) (k v : String) (h : (k, v) ∈ canonMap e) :
    ∃ (i : Nat) (l : Expr), (leafAsts e)[i]? = some l ∧ leafName l = some k ∧ v = "canonical_" ++ toString i := by
  rw [canonMap_eq, List.mem_filterMap] at h
  obtain ⟨⟨l, i⟩, hmem, hf⟩ := h
  have hz : (l, i) ∈ (leafAsts e).zipIdx := by
    rw [List.zipIdx_eq_zip_range', List.range_eq_range'] at *
    exact hmem
  have := List.mem_zipIdx_iff_getElem?.mp hz
  simp only at this
  cases hn : leafName l with
  | none => simp [hn] at hf
  | some n =>
    simp only [hn, Option.map_some, Option.some.injEq, Prod.mk.injEq] at hf
    exact ⟨i, l, this, by rw [hn, hf.1], hf.2.symm⟩

theorem canonMap_lookup (e : Expr) (k v : String) (h : (canonMap e).lookup k = some v) : (k, v) ∈ canonMap e := by
  obtain ⟨l1, l2, hl, _⟩ := List.lookup_eq_some_iff.mp h
  rw [hl]
  simp

/-- every variable among the leaves is renamed -/
theorem canonMap_covers (e : Expr) (l : Expr) (hl : l ∈ leafAsts e) (k : String) (hk : leafName l = some k) :
    ∃ v, (canonMap e).lookup k = some v := by
  have : ((canonMap e).lookup k).isSome := by
    rw [List.lookup_isSome_iff]
    obtain ⟨i, hi, hget⟩ := List.getElem_of_mem hl
    refine ⟨(k, "canonical_" ++ toString i), ?_, by simp⟩
    rw [canonMap_eq, List.mem_filterMap]
    refine ⟨(l, i), ?_, by simp [hk]⟩
    have hz : (l, i) ∈ (leafAsts e).zipIdx := List.mem_zipIdx_iff_getElem?.mpr (by simp [← hget, hi])
    rw [List.zipIdx_eq_zip_range', ← List.range_eq_range'] at hz
    exact hz
  exact Option.isSome_iff_exists.mp this

/-- the renaming function of `canonicalize` -/
def canonRho (e : Expr) : String → String := fun v => ((canonMap e).lookup v).getD v

theorem canonicalize_eq (e : Expr) : canonicalize e = rename (canonRho e) e := rfl

/-- **injective on the renamed variables**: leaves with different names get different canonical names -/
theorem canonRho_injective (e : Expr) (l1 l2 : Expr) (h1 : l1 ∈ leafAsts e) (h2 : l2 ∈ leafAsts e)
    (n1 n2 : String) (hn1 : leafName l1 = some n1) (hn2 : leafName l2 = some n2) (hne : n1 ≠ n2) :
    canonRho e n1 ≠ canonRho e n2 := by
  obtain ⟨v1, hv1⟩ := canonMap_covers e l1 h1 n1 hn1
  obtain ⟨v2, hv2⟩ := canonMap_covers e l2 h2 n2 hn2
  simp only [canonRho, hv1, hv2, Option.getD_some]
  obtain ⟨i1, a1, ha1, hna1, e1⟩ := canonMap_mem e n1 v1 (canonMap_lookup e n1 v1 hv1)
  obtain ⟨i2, a2, ha2, hna2, e2⟩ := canonMap_mem e n2 v2 (canonMap_lookup e n2 v2 hv2)
  intro heq
  rw [e1, e2] at heq
  have hi := canon_name_inj i1 i2 heq
  subst hi
  rw [ha1] at ha2
  cases ha2
  rw [hna1] at hna2
  exact hne (Option.some.inj hna2)

end Claripy.AST
