import ClaripyProofs.Lemmas.AST.RulesBase
/-!
The denotation is *type-directed* and *strict*: whether a node is well-typed, and the sort/width of its value, depend only
on the sorts/widths of its operands (`applyOp_ty_congr`); an ill-typed operand makes the node ill-typed (`applyOp_strict`).
These are what lets an `If` be moved across any operator (Props/C08).
-/
namespace Claripy.AST

inductive Ty where
  | bv (w : Nat)
  | bool
  | err
  deriving DecidableEq, Repr

def Val.ty : Val → Ty
  | .bv w _ => .bv w
  | .bool _ => .bool
  | .err => .err

def tyBin : Ty → Ty → Ty
  | .bv w, .bv w' => if w = w' ∧ 0 < w then .bv w else .err
  | _, _ => .err
def tyUn : Ty → Ty
  | .bv w => if 0 < w then .bv w else .err
  | _ => .err
def tyCmp : Ty → Ty → Ty
  | .bv w, .bv w' => if w = w' ∧ 0 < w then .bool else .err
  | _, _ => .err
def tyEq : Ty → Ty → Ty
  | .bv w, .bv w' => if w = w' ∧ 0 < w then .bool else .err
  | .bool, .bool => .bool
  | _, _ => .err
def tyNot : Ty → Ty
  | .bool => .bool
  | _ => .err
def tyConcat : Ty → Ty → Ty
  | .bv w, .bv w' => .bv (w + w')
  | _, _ => .err
def tyBoolBin : Ty → Ty → Ty
  | .bool, .bool => .bool
  | _, _ => .err
def tyReverse : Ty → Ty
  | .bv w => if w % 8 = 0 ∧ 0 < w then .bv w else .err
  | _ => .err
def tyIte : Ty → Ty → Ty → Ty
  | .bool, .bv w, .bv w' => if w = w' then .bv w else .err
  | .bool, .bool, .bool => .bool
  | _, _, _ => .err

theorem ty_bvBin_eq (f) (a b : Val) : (bvBin f a b).ty = tyBin a.ty b.ty := by
  cases a <;> cases b <;> simp only [bvBin, apply_ite Val.ty] <;> simp [Val.ty, tyBin]
theorem ty_bvUn_eq (f) (a : Val) : (bvUn f a).ty = tyUn a.ty := by
  cases a <;> simp only [bvUn, apply_ite Val.ty] <;> simp [Val.ty, tyUn]
theorem ty_bvCmp_eq (f) (a b : Val) : (bvCmp f a b).ty = tyCmp a.ty b.ty := by
  cases a <;> cases b <;> simp only [bvCmp, apply_ite Val.ty] <;> simp [Val.ty, tyCmp]
theorem ty_valEq_eq (a b : Val) : (valEq a b).ty = tyEq a.ty b.ty := by
  cases a <;> cases b <;> simp only [valEq, apply_ite Val.ty] <;> simp [Val.ty, tyEq]
theorem ty_valNot_eq (a : Val) : (valNot a).ty = tyNot a.ty := by
  cases a <;> rfl
theorem ty_valConcat_eq (a b : Val) : (valConcat a b).ty = tyConcat a.ty b.ty := by
  cases a <;> cases b <;> rfl
theorem ty_boolBin_eq (f) (a b : Val) : (boolBin f a b).ty = tyBoolBin a.ty b.ty := by
  cases a <;> cases b <;> rfl
theorem ty_valReverse_eq (a : Val) : (valReverse a).ty = tyReverse a.ty := by
  cases a <;> simp only [valReverse, apply_ite Val.ty] <;> simp [Val.ty, tyReverse]
theorem ty_valIte_eq (c a b : Val) : (valIte c a b).ty = tyIte c.ty a.ty b.ty := by
  cases c <;> cases a <;> cases b <;> simp only [valIte, apply_ite Val.ty] <;> simp [Val.ty, tyIte] <;> (split <;> simp_all)

theorem ty_bvBin (f) {a a' b b' : Val} (ha : a.ty = a'.ty) (hb : b.ty = b'.ty) : (bvBin f a b).ty = (bvBin f a' b').ty := by
  rw [ty_bvBin_eq, ty_bvBin_eq, ha, hb]
theorem ty_bvUn (f) {a a' : Val} (ha : a.ty = a'.ty) : (bvUn f a).ty = (bvUn f a').ty := by
  rw [ty_bvUn_eq, ty_bvUn_eq, ha]
theorem ty_bvCmp (f) {a a' b b' : Val} (ha : a.ty = a'.ty) (hb : b.ty = b'.ty) : (bvCmp f a b).ty = (bvCmp f a' b').ty := by
  rw [ty_bvCmp_eq, ty_bvCmp_eq, ha, hb]
theorem ty_valEq {a a' b b' : Val} (ha : a.ty = a'.ty) (hb : b.ty = b'.ty) : (valEq a b).ty = (valEq a' b').ty := by
  rw [ty_valEq_eq, ty_valEq_eq, ha, hb]
theorem ty_valNot {a a' : Val} (ha : a.ty = a'.ty) : (valNot a).ty = (valNot a').ty := by
  rw [ty_valNot_eq, ty_valNot_eq, ha]
theorem ty_valConcat {a a' b b' : Val} (ha : a.ty = a'.ty) (hb : b.ty = b'.ty) : (valConcat a b).ty = (valConcat a' b').ty := by
  rw [ty_valConcat_eq, ty_valConcat_eq, ha, hb]
theorem ty_boolBin (f) {a a' b b' : Val} (ha : a.ty = a'.ty) (hb : b.ty = b'.ty) : (boolBin f a b).ty = (boolBin f a' b').ty := by
  rw [ty_boolBin_eq, ty_boolBin_eq, ha, hb]
theorem ty_valReverse {a a' : Val} (ha : a.ty = a'.ty) : (valReverse a).ty = (valReverse a').ty := by
  rw [ty_valReverse_eq, ty_valReverse_eq, ha]
theorem ty_valIte {c c' a a' b b' : Val} (hc : c.ty = c'.ty) (ha : a.ty = a'.ty) (hb : b.ty = b'.ty) :
    (valIte c a b).ty = (valIte c' a' b').ty := by
  rw [ty_valIte_eq, ty_valIte_eq, hc, ha, hb]

/-- pointwise equal types -/
inductive SameTys : List Val → List Val → Prop
  | nil : SameTys [] []
  | cons {a b : Val} {as bs : List Val} : a.ty = b.ty → SameTys as bs → SameTys (a :: as) (b :: bs)

theorem foldl_ty_congr (f : Val → Val → Val) (hf : ∀ {a a' b b' : Val}, a.ty = a'.ty → b.ty = b'.ty → (f a b).ty = (f a' b').ty)
    {vs vs' : List Val} (h : SameTys vs vs') {acc acc' : Val} (hacc : acc.ty = acc'.ty) :
    (vs.foldl f acc).ty = (vs'.foldl f acc').ty := by
  induction h generalizing acc acc' with
  | nil => simpa using hacc
  | cons hab _ ih => simp only [List.foldl]; exact ih (hf hacc hab)

theorem foldVals_ty_congr (f : Val → Val → Val) (hf : ∀ {a a' b b' : Val}, a.ty = a'.ty → b.ty = b'.ty → (f a b).ty = (f a' b').ty)
    {vs vs' : List Val} (h : SameTys vs vs') : (foldVals f vs).ty = (foldVals f vs').ty := by
  cases h with
  | nil => rfl
  | cons hab hrest => simp only [foldVals]; exact foldl_ty_congr f hf hrest hab

def tyExtract (hi lo : Nat) : Ty → Ty
  | .bv w => if lo ≤ hi ∧ hi < w then .bv (hi - lo + 1) else .err
  | _ => .err
def tyExt (n : Nat) : Ty → Ty
  | .bv w => if 0 < w then .bv (w + n) else .err
  | _ => .err
theorem ty_extract_eq (hi lo : Nat) (a : Val) : (applyOp (.extract hi lo) [a]).ty = tyExtract hi lo a.ty := by
  cases a <;> simp only [applyOp, apply_ite Val.ty] <;> simp [Val.ty, tyExtract]
theorem ty_zeroExt_eq (n : Nat) (a : Val) : (applyOp (.zeroExt n) [a]).ty = tyExt n a.ty := by
  cases a <;> simp only [applyOp, apply_ite Val.ty] <;> simp [Val.ty, tyExt]
theorem ty_signExt_eq (n : Nat) (a : Val) : (applyOp (.signExt n) [a]).ty = tyExt n a.ty := by
  cases a <;> simp only [applyOp, apply_ite Val.ty] <;> simp [Val.ty, tyExt]
theorem ty_extract (hi lo : Nat) {a a' : Val} (ha : a.ty = a'.ty) :
    (applyOp (.extract hi lo) [a]).ty = (applyOp (.extract hi lo) [a']).ty := by rw [ty_extract_eq, ty_extract_eq, ha]
theorem ty_zeroExt (n : Nat) {a a' : Val} (ha : a.ty = a'.ty) :
    (applyOp (.zeroExt n) [a]).ty = (applyOp (.zeroExt n) [a']).ty := by rw [ty_zeroExt_eq, ty_zeroExt_eq, ha]
theorem ty_signExt (n : Nat) {a a' : Val} (ha : a.ty = a'.ty) :
    (applyOp (.signExt n) [a]).ty = (applyOp (.signExt n) [a']).ty := by rw [ty_signExt_eq, ty_signExt_eq, ha]

theorem applyOp_extract_many (hi lo : Nat) (a b : Val) (rest : List Val) : applyOp (.extract hi lo) (a :: b :: rest) = .err := by
  cases a <;> rfl
theorem applyOp_zeroExt_many (n : Nat) (a b : Val) (rest : List Val) : applyOp (.zeroExt n) (a :: b :: rest) = .err := by
  cases a <;> rfl
theorem applyOp_signExt_many (n : Nat) (a b : Val) (rest : List Val) : applyOp (.signExt n) (a :: b :: rest) = .err := by
  cases a <;> rfl

/-- **type-directedness**: the sort/width (or ill-typedness) of a node depends only on those of its operands -/
theorem applyOp_ty_congr (op : Op) {vs vs' : List Val} (h : SameTys vs vs') : (applyOp op vs).ty = (applyOp op vs').ty := by
  cases h with
  | nil => cases op <;> rfl
  | cons h1 hr1 =>
    cases hr1 with
    | nil =>
      -- one operand
      cases op <;> first
        | rfl
        | exact ty_bvUn _ h1
        | exact ty_valNot h1
        | exact ty_valReverse h1
        | exact ty_extract _ _ h1
        | exact ty_zeroExt _ h1
        | exact ty_signExt _ h1
        | exact foldVals_ty_congr valConcat ty_valConcat (.cons h1 .nil)
        | exact foldl_ty_congr (boolBin _) (ty_boolBin _) (.cons h1 .nil) rfl
    | cons h2 hr2 =>
      cases hr2 with
      | nil =>
        -- two operands
        cases op <;> first
          | rfl
          | exact foldVals_ty_congr (bvBin _) (ty_bvBin _) (.cons h1 (.cons h2 .nil))
          | exact ty_bvBin _ h1 h2
          | exact ty_bvCmp _ h1 h2
          | exact ty_bvBin (fun _ x y => x.rotateLeft y.toNat) h1 h2
          | exact ty_bvBin (fun _ x y => x.rotateRight y.toNat) h1 h2
          | exact ty_bvCmp (fun _ x y => BitVec.ult y x) h1 h2
          | exact ty_bvCmp (fun _ x y => BitVec.ule y x) h1 h2
          | exact ty_bvCmp (fun _ x y => BitVec.slt y x) h1 h2
          | exact ty_bvCmp (fun _ x y => BitVec.sle y x) h1 h2
          | (rw [applyOp_extract_many, applyOp_extract_many])
          | (rw [applyOp_zeroExt_many, applyOp_zeroExt_many])
          | (rw [applyOp_signExt_many, applyOp_signExt_many])
          | exact ty_valEq h1 h2
          | exact ty_valNot (ty_valEq h1 h2)
          | exact foldVals_ty_congr valConcat ty_valConcat (.cons h1 (.cons h2 .nil))
          | exact foldl_ty_congr (boolBin _) (ty_boolBin _) (.cons h1 (.cons h2 .nil)) rfl
      | cons h3 hr3 =>
        cases hr3 with
        | nil =>
          cases op <;> first
            | rfl
            | exact foldVals_ty_congr (bvBin _) (ty_bvBin _) (.cons h1 (.cons h2 (.cons h3 .nil)))
            | exact ty_valIte h1 h2 h3
            | (rw [applyOp_extract_many, applyOp_extract_many])
            | (rw [applyOp_zeroExt_many, applyOp_zeroExt_many])
            | (rw [applyOp_signExt_many, applyOp_signExt_many])
            | exact foldVals_ty_congr valConcat ty_valConcat (.cons h1 (.cons h2 (.cons h3 .nil)))
            | exact foldl_ty_congr (boolBin _) (ty_boolBin _) (.cons h1 (.cons h2 (.cons h3 .nil))) rfl
        | cons h4 hr4 =>
          cases op <;> first
            | rfl
            | exact foldVals_ty_congr (bvBin _) (ty_bvBin _) (.cons h1 (.cons h2 (.cons h3 (.cons h4 hr4))))
            | (rw [applyOp_extract_many, applyOp_extract_many])
            | (rw [applyOp_zeroExt_many, applyOp_zeroExt_many])
            | (rw [applyOp_signExt_many, applyOp_signExt_many])
            | exact foldVals_ty_congr valConcat ty_valConcat (.cons h1 (.cons h2 (.cons h3 (.cons h4 hr4))))
            | exact foldl_ty_congr (boolBin _) (ty_boolBin _) (.cons h1 (.cons h2 (.cons h3 (.cons h4 hr4)))) rfl

end Claripy.AST

namespace Claripy.AST

theorem foldl_strict (f : Val → Val → Val) (hl : ∀ b, f .err b = .err) (hr : ∀ a, f a .err = .err) :
    ∀ (vs : List Val) (acc : Val), (acc = .err ∨ .err ∈ vs) → vs.foldl f acc = .err := by
  intro vs
  induction vs with
  | nil => intro acc h; rcases h with h | h; exact h; simp at h
  | cons v vs ih =>
    intro acc h
    simp only [List.foldl]
    apply ih
    rcases h with h | h
    · left; rw [h, hl]
    · simp only [List.mem_cons] at h
      rcases h with h | h
      · left; rw [← h, hr]
      · right; exact h

theorem foldVals_strict (f : Val → Val → Val) (hl : ∀ b, f .err b = .err) (hr : ∀ a, f a .err = .err)
    (vs : List Val) (h : .err ∈ vs) : foldVals f vs = .err := by
  cases vs with
  | nil => simp at h
  | cons v vs =>
    simp only [foldVals]
    apply foldl_strict f hl hr
    simp only [List.mem_cons] at h
    rcases h with h | h
    · left; exact h.symm
    · right; exact h

theorem valConcat_err_l (b : Val) : valConcat .err b = .err := rfl
theorem valConcat_err_r (a : Val) : valConcat a .err = .err := by cases a <;> rfl
theorem valReverse_err : valReverse .err = .err := rfl

/-- **strictness**: a node with an ill-typed operand is ill-typed -/
theorem applyOp_strict (op : Op) (vs : List Val) (h : Val.err ∈ vs) : applyOp op vs = .err := by
  have hb := fun (f : (w : Nat) → BitVec w → BitVec w → BitVec w) =>
    foldVals_strict (bvBin f) (bvBin_err_l f) (bvBin_err_r f) vs h
  have hc := foldVals_strict valConcat valConcat_err_l valConcat_err_r vs h
  have hbo := fun (f : Bool → Bool → Bool) (acc : Val) =>
    foldl_strict (boolBin f) (boolBin_err_l f) (boolBin_err_r f) vs acc (Or.inr h)
  match vs, h with
  | [a], h =>
    simp only [List.mem_singleton] at h
    subst h
    cases op <;> first | rfl | exact hc | exact hbo _ _
  | [a, b], h =>
    simp only [List.mem_cons, List.mem_nil_iff, or_false] at h
    cases op <;> first
      | exact hb _
      | exact hc
      | exact hbo _ _
      | (rcases h with h | h <;> subst h <;> simp [applyOp])
      | (rw [applyOp_extract_many])
      | (rw [applyOp_zeroExt_many])
      | (rw [applyOp_signExt_many])
      | rfl
  | [c, a, b], h =>
    simp only [List.mem_cons, List.mem_nil_iff, or_false] at h
    cases op <;> first
      | exact hb _
      | exact hc
      | exact hbo _ _
      | (rcases h with h | h | h <;> subst h <;> simp [applyOp])
      | (rw [applyOp_extract_many])
      | (rw [applyOp_zeroExt_many])
      | (rw [applyOp_signExt_many])
      | rfl
  | a :: b :: c :: d :: rest, h =>
    cases op <;> first
      | exact hb _
      | exact hc
      | exact hbo _ _
      | (rw [applyOp_extract_many])
      | (rw [applyOp_zeroExt_many])
      | (rw [applyOp_signExt_many])
      | rfl

end Claripy.AST
