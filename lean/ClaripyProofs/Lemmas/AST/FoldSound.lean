import Claripy.AST.Fold
import ClaripyProofs.Lemmas.AST.RulesBase
import ClaripyProofs.Props.C04
import ClaripyProofs.Lemmas.BV.Reverse
/-!
Eager folding computes the denotation: if the folding model (`foldOp`, the model of
`backends.concrete.call` = bv.py arithmetic on Python ints) returns a value for a constant node, that value
is the SMT-LIB value `applyOp` assigns to the node.  Proved from the bridge lemmas, for every width.
Every operator of the fragment is covered (`Proven` is constantly true; `reverse` through `Claripy.BV.reverse_spec`).
-/
namespace Claripy.AST
open Claripy.BV

def CVal.toVal : CVal → Val
  | .bv v w => .bv w v
  | .bool b => .bool b

/-- a constant as `Expr.toCVal?` produces it: reduced modulo its width -/
def CVal.Canon : CVal → Prop
  | .bv v w => v < 2 ^ w
  | .bool _ => True

/-- every operator of the fragment has a proved bridge lemma now (kept so that statements name the proved set) -/
def Proven : Op → Bool
  | _ => true

theorem bin_sound (f : Nat → Nat → Nat → R) (g : (w : Nat) → BitVec w → BitVec w → BitVec w)
    (hspec : ∀ w x y r, 0 < w → x < 2 ^ w → y < 2 ^ w → f w x y = .ok r → r = (g w (BitVec.ofNat w x) (BitVec.ofNat w y)).toNat)
    (a b c : CVal) (ha : a.Canon) (hb : b.Canon) (h : bin f a b = .ok c) :
    bvBin g a.toVal b.toVal = c.toVal ∧ c.Canon := by
  cases a with
  | bool _ => simp [bin, sized2] at h
  | bv x w =>
    cases b with
    | bool _ => simp [bin, sized2] at h
    | bv y w' =>
      simp only [bin, sized2] at h
      by_cases hw : w = w' ∧ 0 < w
      · obtain ⟨rfl, hw0⟩ := hw
        simp only [hw0, and_self, if_true] at h
        cases hf : f w x y with
        | error e => simp [hf] at h
        | ok r =>
          simp only [hf] at h
          cases h
          have := hspec w x y r hw0 ha hb hf
          subst this
          exact ⟨by simp [CVal.toVal, bvBin, hw0], BitVec.isLt _⟩
      · simp [hw] at h

theorem cmp_sound (f : Nat → Nat → Nat → Bool) (g : (w : Nat) → BitVec w → BitVec w → Bool)
    (hspec : ∀ w x y, 0 < w → x < 2 ^ w → y < 2 ^ w → f w x y = g w (BitVec.ofNat w x) (BitVec.ofNat w y))
    (a b c : CVal) (ha : a.Canon) (hb : b.Canon) (h : cmp f a b = .ok c) :
    bvCmp g a.toVal b.toVal = c.toVal := by
  cases a with
  | bool _ => simp [cmp, sized2] at h
  | bv x w =>
    cases b with
    | bool _ => simp [cmp, sized2] at h
    | bv y w' =>
      simp only [cmp, sized2] at h
      by_cases hw : w = w' ∧ 0 < w
      · obtain ⟨rfl, hw0⟩ := hw
        simp only [hw0, and_self, if_true] at h
        cases h
        simp [CVal.toVal, bvCmp, hw0, hspec w x y hw0 ha hb]
      · simp [hw] at h

theorem foldlM_bin_sound (f : Nat → Nat → Nat → R) (g : (w : Nat) → BitVec w → BitVec w → BitVec w)
    (hspec : ∀ w x y r, 0 < w → x < 2 ^ w → y < 2 ^ w → f w x y = .ok r → r = (g w (BitVec.ofNat w x) (BitVec.ofNat w y)).toNat)
    (vs : List CVal) (hvs : ∀ v ∈ vs, v.Canon) (a c : CVal) (ha : a.Canon) (h : vs.foldlM (bin f) a = .ok c) :
    (vs.map CVal.toVal).foldl (bvBin g) a.toVal = c.toVal ∧ c.Canon := by
  induction vs generalizing a with
  | nil => simp [List.foldlM, pure, Except.pure] at h; subst h; exact ⟨rfl, ha⟩
  | cons v vs ih =>
    simp only [List.foldlM, bind, Except.bind] at h
    cases hb : bin f a v with
    | error e => simp [hb] at h
    | ok m =>
      simp only [hb] at h
      obtain ⟨e1, cm⟩ := bin_sound f g hspec a v m ha (hvs v (List.mem_cons_self ..)) hb
      obtain ⟨e2, cc⟩ := ih (fun u hu => hvs u (List.mem_cons_of_mem _ hu)) m cm h
      exact ⟨by simp [List.foldl, e1, e2], cc⟩

theorem reduceL_bin_sound (f : Nat → Nat → Nat → R) (g : (w : Nat) → BitVec w → BitVec w → BitVec w)
    (hspec : ∀ w x y r, 0 < w → x < 2 ^ w → y < 2 ^ w → f w x y = .ok r → r = (g w (BitVec.ofNat w x) (BitVec.ofNat w y)).toNat)
    (vs : List CVal) (hvs : ∀ v ∈ vs, v.Canon) (c : CVal) (h : reduceL (bin f) vs = .ok c) :
    foldVals (bvBin g) (vs.map CVal.toVal) = c.toVal := by
  cases vs with
  | nil => simp [reduceL] at h
  | cons a vs =>
    simp only [reduceL] at h
    exact (foldlM_bin_sound f g hspec vs (fun u hu => hvs u (List.mem_cons_of_mem _ hu)) a c
      (hvs a (List.mem_cons_self ..)) h).1

theorem ok_inj {α ε : Type} {a b : α} (h : (Except.ok a : Except ε α) = .ok b) : a = b := by cases h; rfl

/-! specs in the shape `bin_sound` wants, from the bridge lemmas -/
theorem add_h : ∀ w x y r, 0 < w → x < 2 ^ w → y < 2 ^ w → add w x y = .ok r → r = ((fun (w : Nat) (a b : BitVec w) => a + b) w (BitVec.ofNat w x) (BitVec.ofNat w y)).toNat := by
  intro w x y r _ _ _ h; rw [add_spec] at h; exact (ok_inj h).symm
theorem mul_h : ∀ w x y r, 0 < w → x < 2 ^ w → y < 2 ^ w → mul w x y = .ok r → r = ((fun (w : Nat) (a b : BitVec w) => a * b) w (BitVec.ofNat w x) (BitVec.ofNat w y)).toNat := by
  intro w x y r _ _ _ h; rw [mul_spec] at h; exact (ok_inj h).symm
theorem and_h : ∀ w x y r, 0 < w → x < 2 ^ w → y < 2 ^ w → and_ w x y = .ok r → r = ((fun (w : Nat) (a b : BitVec w) => a &&& b) w (BitVec.ofNat w x) (BitVec.ofNat w y)).toNat := by
  intro w x y r _ _ _ h; rw [and_spec] at h; exact (ok_inj h).symm
theorem or_h : ∀ w x y r, 0 < w → x < 2 ^ w → y < 2 ^ w → or_ w x y = .ok r → r = ((fun (w : Nat) (a b : BitVec w) => a ||| b) w (BitVec.ofNat w x) (BitVec.ofNat w y)).toNat := by
  intro w x y r _ _ _ h; rw [or_spec] at h; exact (ok_inj h).symm
theorem xor_h : ∀ w x y r, 0 < w → x < 2 ^ w → y < 2 ^ w → xor_ w x y = .ok r → r = ((fun (w : Nat) (a b : BitVec w) => a ^^^ b) w (BitVec.ofNat w x) (BitVec.ofNat w y)).toNat := by
  intro w x y r _ _ _ h; rw [xor_spec] at h; exact (ok_inj h).symm
theorem sub_h : ∀ w x y r, 0 < w → x < 2 ^ w → y < 2 ^ w → sub w x y = .ok r → r = ((fun (w : Nat) (a b : BitVec w) => a - b) w (BitVec.ofNat w x) (BitVec.ofNat w y)).toNat := by
  intro w x y r _ _ _ h; rw [sub_spec] at h; exact (ok_inj h).symm
theorem shl_h : ∀ w x y r, 0 < w → x < 2 ^ w → y < 2 ^ w → shl w x y = .ok r → r = ((fun (w : Nat) (a b : BitVec w) => bvShl a b) w (BitVec.ofNat w x) (BitVec.ofNat w y)).toNat := by
  intro w x y r _ _ hy h; rw [shl_spec w x y hy] at h; simp only [bvShl_eq]; exact (ok_inj h).symm
theorem lshr_h : ∀ w x y r, 0 < w → x < 2 ^ w → y < 2 ^ w → lshr w x y = .ok r → r = ((fun (w : Nat) (a b : BitVec w) => a >>> b) w (BitVec.ofNat w x) (BitVec.ofNat w y)).toNat := by
  intro w x y r _ hx hy h; rw [lshr_spec w x y hx hy] at h; exact (ok_inj h).symm
theorem ashr_h : ∀ w x y r, 0 < w → x < 2 ^ w → y < 2 ^ w → ashr w x y = .ok r → r = ((fun (w : Nat) (a b : BitVec w) => BitVec.sshiftRight' a b) w (BitVec.ofNat w x) (BitVec.ofNat w y)).toNat := by
  intro w x y r hw hx hy h; rw [ashr_spec w x y hw hx hy] at h; exact (ok_inj h).symm
theorem udiv_h : ∀ w x y r, 0 < w → x < 2 ^ w → y < 2 ^ w → udiv w x y = .ok r → r = ((fun (w : Nat) (a b : BitVec w) => BitVec.smtUDiv a b) w (BitVec.ofNat w x) (BitVec.ofNat w y)).toNat := by
  intro w x y r _ hx hy h
  by_cases h0 : y = 0
  · subst h0; simp [udiv] at h
  · rw [udiv_spec w x y hx hy h0] at h
    have hne : BitVec.ofNat w y ≠ 0#w := by
      intro hc
      have := congrArg BitVec.toNat hc
      simp [BitVec.toNat_ofNat, Nat.mod_eq_of_lt hy] at this
      exact h0 this
    simp only [BitVec.smtUDiv_eq, hne, if_false]
    exact (ok_inj h).symm
theorem sdiv_h : ∀ w x y r, 0 < w → x < 2 ^ w → y < 2 ^ w → sdiv w x y = .ok r → r = ((fun (w : Nat) (a b : BitVec w) => BitVec.smtSDiv a b) w (BitVec.ofNat w x) (BitVec.ofNat w y)).toNat := by
  intro w x y r hw hx hy h
  by_cases h0 : y = 0
  · subst h0
    have : signed w 0 = 0 := by
      unfold signed
      have : (0 : Nat) < 2 ^ w / 2 := by
        obtain ⟨k, rfl⟩ : ∃ k, w = k + 1 := ⟨w - 1, by omega⟩
        rw [Nat.pow_succ]; have := Nat.two_pow_pos k; omega
      simp [this]
    simp [sdiv, this] at h
  · rw [sdiv_spec w x y hw hx hy h0] at h; exact (ok_inj h).symm
theorem smod_h : ∀ w x y r, 0 < w → x < 2 ^ w → y < 2 ^ w → smod w x y = .ok r → r = ((fun (w : Nat) (a b : BitVec w) => BitVec.srem a b) w (BitVec.ofNat w x) (BitVec.ofNat w y)).toNat := by
  intro w x y r hw hx hy h
  by_cases h0 : y = 0
  · subst h0
    have : signed w 0 = 0 := by
      unfold signed
      have : (0 : Nat) < 2 ^ w / 2 := by
        obtain ⟨k, rfl⟩ : ∃ k, w = k + 1 := ⟨w - 1, by omega⟩
        rw [Nat.pow_succ]; have := Nat.two_pow_pos k; omega
      simp [this]
    simp [smod, this] at h
  · rw [smod_spec w x y hw hx hy h0] at h; exact (ok_inj h).symm
theorem rotl_h : ∀ w x y r, 0 < w → x < 2 ^ w → y < 2 ^ w → rotl w x y = .ok r → r = ((fun (w : Nat) (a b : BitVec w) => a.rotateLeft b.toNat) w (BitVec.ofNat w x) (BitVec.ofNat w y)).toNat := by
  intro w x y r hw hx hy h; rw [rotl_spec w x y hw hx hy] at h; exact (ok_inj h).symm
theorem rotr_h : ∀ w x y r, 0 < w → x < 2 ^ w → y < 2 ^ w → rotr w x y = .ok r → r = ((fun (w : Nat) (a b : BitVec w) => a.rotateRight b.toNat) w (BitVec.ofNat w x) (BitVec.ofNat w y)).toNat := by
  intro w x y r hw hx hy h; rw [rotr_spec w x y hw hx hy] at h; exact (ok_inj h).symm
theorem umod_h : ∀ w x y r, 0 < w → x < 2 ^ w → y < 2 ^ w → umod w x y = .ok r → r = ((fun (w : Nat) (a b : BitVec w) => a % b) w (BitVec.ofNat w x) (BitVec.ofNat w y)).toNat := by
  intro w x y r _ hx hy h
  by_cases h0 : y = 0
  · subst h0; simp [umod] at h
  · rw [umod_spec w x y hx hy h0] at h; exact (ok_inj h).symm

open Claripy.Props.C04 (WT allBV)

theorem allBV_canon_map (w : Nat) (vs : List CVal) (h : allBV w vs) : ∀ v ∈ vs, ∃ x, v = .bv x w := h

def cvTrue : CVal → Bool | .bool b => b | _ => false

theorem boolAll_val (vs : List CVal) (h : ∀ v ∈ vs, ∃ b, v = .bool b) :
    ∃ r, foldOp .and vs = .ok (.bool r) ∧ r = vs.all cvTrue := by
  simp only [foldOp]
  induction vs with
  | nil => exact ⟨true, rfl, rfl⟩
  | cons v vs ih =>
    obtain ⟨b, rfl⟩ := h v (List.mem_cons_self ..)
    obtain ⟨r, hr, hv⟩ := ih (fun u hu => h u (List.mem_cons_of_mem _ hu))
    exact ⟨b && r, by simp [boolAll, hr, bind, Except.bind, pure, Except.pure], by simp [List.all_cons, cvTrue, hv]⟩

theorem boolAny_val (vs : List CVal) (h : ∀ v ∈ vs, ∃ b, v = .bool b) :
    ∃ r, foldOp .or vs = .ok (.bool r) ∧ r = vs.any cvTrue := by
  simp only [foldOp]
  induction vs with
  | nil => exact ⟨false, rfl, rfl⟩
  | cons v vs ih =>
    obtain ⟨b, rfl⟩ := h v (List.mem_cons_self ..)
    obtain ⟨r, hr, hv⟩ := ih (fun u hu => h u (List.mem_cons_of_mem _ hu))
    exact ⟨b || r, by simp [boolAny, hr, bind, Except.bind, pure, Except.pure], by simp [List.any_cons, cvTrue, hv]⟩

theorem foldl_and_bools (vs : List CVal) (h : ∀ v ∈ vs, ∃ b, v = .bool b) (acc : Bool) :
    (vs.map CVal.toVal).foldl (boolBin (· && ·)) (.bool acc) = .bool (acc && vs.all cvTrue) := by
  induction vs generalizing acc with
  | nil => simp
  | cons v vs ih =>
    obtain ⟨b, rfl⟩ := h v (List.mem_cons_self ..)
    simp only [List.map, List.foldl, CVal.toVal, boolBin_bool]
    rw [ih (fun u hu => h u (List.mem_cons_of_mem _ hu))]
    simp [List.all_cons, cvTrue, Bool.and_assoc]

theorem foldl_or_bools (vs : List CVal) (h : ∀ v ∈ vs, ∃ b, v = .bool b) (acc : Bool) :
    (vs.map CVal.toVal).foldl (boolBin (· || ·)) (.bool acc) = .bool (acc || vs.any cvTrue) := by
  induction vs generalizing acc with
  | nil => simp
  | cons v vs ih =>
    obtain ⟨b, rfl⟩ := h v (List.mem_cons_self ..)
    simp only [List.map, List.foldl, CVal.toVal, boolBin_bool]
    rw [ih (fun u hu => h u (List.mem_cons_of_mem _ hu))]
    simp [List.any_cons, cvTrue, Bool.or_assoc]

theorem concat_foldl_sound (ps : List (Nat × Nat)) (hps : ∀ p ∈ ps, p.1 < 2 ^ p.2) (n w : Nat) (hn : n < 2 ^ w) :
    (ps.map fun p => Val.bv p.2 p.1).foldl valConcat (.bv w n) =
      .bv (ps.foldl (fun (acc : Nat × Nat) (vb : Nat × Nat) => (concat2 vb.2 acc.1 vb.1, acc.2 + vb.2)) (n, w)).2
          (ps.foldl (fun (acc : Nat × Nat) (vb : Nat × Nat) => (concat2 vb.2 acc.1 vb.1, acc.2 + vb.2)) (n, w)).1 ∧
    (ps.foldl (fun (acc : Nat × Nat) (vb : Nat × Nat) => (concat2 vb.2 acc.1 vb.1, acc.2 + vb.2)) (n, w)).1 <
      2 ^ (ps.foldl (fun (acc : Nat × Nat) (vb : Nat × Nat) => (concat2 vb.2 acc.1 vb.1, acc.2 + vb.2)) (n, w)).2 := by
  induction ps generalizing n w with
  | nil => exact ⟨rfl, hn⟩
  | cons p ps ih =>
    simp only [List.map_cons, List.foldl_cons]
    have hp := hps p (List.mem_cons_self ..)
    have hspec := concat2_spec w p.2 n p.1 hn hp
    have hlt : concat2 p.2 n p.1 < 2 ^ (w + p.2) := by rw [hspec]; exact (BitVec.ofNat w n ++ BitVec.ofNat p.2 p.1).isLt
    have := ih (fun q hq => hps q (List.mem_cons_of_mem _ hq)) (concat2 p.2 n p.1) (w + p.2) hlt
    rw [show valConcat (.bv w n) (.bv p.2 p.1) = .bv (w + p.2) (concat2 p.2 n p.1) by simp [valConcat, hspec]]
    exact this

/-- **Folding computes the denotation**: for every proven operator, every width and all constants, if folding a
well-typed constant node returns a value, it is the SMT-LIB value of the node. -/
theorem foldOp_sound (op : Op) (hp : Proven op = true) (vs : List CVal) (hwt : WT op vs) (hvs : ∀ v ∈ vs, v.Canon) (c : CVal)
    (h : foldOp op vs = .ok c) : applyOp op (vs.map CVal.toVal) = c.toVal := by
  cases op <;> simp only [Proven] at hp <;> try (exact absurd hp (by decide))
  case add | mul | band | bor | bxor =>
    obtain ⟨w, hw, hl, hbv⟩ := hwt
    match vs, hvs, h, hl with
    | a :: b :: rest, hvs, h, _ =>
      simp only [foldOp] at h
      simp only [List.map, applyOp]
      first
        | exact reduceL_bin_sound add _ add_h _ hvs c h
        | exact reduceL_bin_sound mul _ mul_h _ hvs c h
        | exact reduceL_bin_sound and_ _ and_h _ hvs c h
        | exact reduceL_bin_sound or_ _ or_h _ hvs c h
        | exact reduceL_bin_sound xor_ _ xor_h _ hvs c h
  case concat =>
    obtain ⟨hne, hbv⟩ := hwt
    -- the (value, bits) pairs of the operands
    have hpairs : ∀ (l : List CVal), (∀ v ∈ l, ∃ x w, v = .bv x w) →
        (l.filterMap pairOf).length = l.length ∧
        l.map CVal.toVal = (l.filterMap pairOf).map (fun p => Val.bv p.2 p.1) := by
      intro l hl
      induction l with
      | nil => exact ⟨rfl, rfl⟩
      | cons v l ih =>
        obtain ⟨x, w, rfl⟩ := hl v (List.mem_cons_self ..)
        obtain ⟨i1, i2⟩ := ih (fun u hu => hl u (List.mem_cons_of_mem _ hu))
        exact ⟨by simp [List.filterMap, pairOf, i1], by simp [List.filterMap, pairOf, CVal.toVal, i2]⟩
    obtain ⟨hlen, hmap⟩ := hpairs vs hbv
    simp only [foldOp] at h
    rw [if_pos hlen] at h
    cases h
    cases vs with
    | nil => exact absurd rfl hne
    | cons v0 rest =>
      obtain ⟨x0, w0, rfl⟩ := hbv _ (List.mem_cons_self ..)
      have hx0 : x0 < 2 ^ w0 := hvs (.bv x0 w0) (List.mem_cons_self ..)
      obtain ⟨_, hmapr⟩ := hpairs rest (fun u hu => hbv u (List.mem_cons_of_mem _ hu))
      have hcanon : ∀ p ∈ (rest.filterMap pairOf), p.1 < 2 ^ p.2 := by
        intro p hp
        simp only [List.mem_filterMap] at hp
        obtain ⟨v, hv, hvp⟩ := hp
        obtain ⟨x, w, rfl⟩ := hbv v (List.mem_cons_of_mem _ hv)
        simp only [pairOf, Option.some.injEq] at hvp
        subst hvp
        exact hvs (.bv x w) (List.mem_cons_of_mem _ hv)
      obtain ⟨e1, e2⟩ := concat_foldl_sound _ hcanon x0 w0 hx0
      simp only [List.map_cons, applyOp, foldVals, CVal.toVal, hmapr]
      simp only [List.filterMap_cons, pairOf, Claripy.BV.concat, List.foldl_cons]
      have hz : concat2 w0 0 x0 = x0 := by simp [concat2]
      simp only [hz, Nat.zero_add]
      rw [e1, mask_of_lt e2]
  case reverse =>
    obtain ⟨w, x, hw, rfl⟩ := hwt
    have hx : x < 2 ^ w := hvs (.bv x w) (by simp)
    simp only [foldOp, bind, Except.bind, pure, Except.pure] at h
    cases hr : reverse w x with
    | error e => simp [hr] at h
    | ok r =>
      simp only [hr, Except.ok.injEq] at h
      subst h
      obtain ⟨h8, rfl⟩ := reverse_spec w x r hx hr
      simp [applyOp, valReverse, CVal.toVal, h8, hw, Nat.mod_eq_of_lt hx]
  case sub =>
    obtain ⟨w, x, y, hw, rfl⟩ := hwt
    simp only [foldOp] at h
    simp only [List.map, applyOp]
    have := reduceL_bin_sound sub _ sub_h _ hvs c h
    simpa [foldVals] using this
  case udiv | umod | sdiv | smod | shl | ashr | lshr | rotl | rotr =>
    obtain ⟨w, x, y, hw, rfl⟩ := hwt
    simp only [foldOp] at h
    simp only [List.map, applyOp]
    have ha := hvs (.bv x w) (by simp)
    have hb := hvs (.bv y w) (by simp)
    first
      | exact (bin_sound udiv _ udiv_h _ _ c ha hb h).1
      | exact (bin_sound umod _ umod_h _ _ c ha hb h).1
      | exact (bin_sound sdiv _ sdiv_h _ _ c ha hb h).1
      | exact (bin_sound smod _ smod_h _ _ c ha hb h).1
      | exact (bin_sound rotl _ rotl_h _ _ c ha hb h).1
      | exact (bin_sound rotr _ rotr_h _ _ c ha hb h).1
      | exact (bin_sound shl _ shl_h _ _ c ha hb h).1
      | exact (bin_sound ashr _ ashr_h _ _ c ha hb h).1
      | exact (bin_sound lshr _ lshr_h _ _ c ha hb h).1
  case ult | ule | ugt | uge | slt | sle | sgt | sge =>
    obtain ⟨w, x, y, hw, rfl⟩ := hwt
    simp only [foldOp] at h
    simp only [List.map, applyOp]
    have ha := hvs (.bv x w) (by simp)
    have hb := hvs (.bv y w) (by simp)
    first
      | exact cmp_sound (fun _ x y => ult x y) _ (fun w x y _ hx hy => ult_spec w x y hx hy) _ _ c ha hb h
      | exact cmp_sound (fun _ x y => ule x y) _ (fun w x y _ hx hy => ule_spec w x y hx hy) _ _ c ha hb h
      | exact cmp_sound (fun _ x y => ugt x y) _ (fun w x y _ hx hy => ugt_spec w x y hx hy) _ _ c ha hb h
      | exact cmp_sound (fun _ x y => uge x y) _ (fun w x y _ hx hy => uge_spec w x y hx hy) _ _ c ha hb h
      | exact cmp_sound slt _ (fun w x y hw hx hy => slt_spec w x y hw hx hy) _ _ c ha hb h
      | exact cmp_sound sle _ (fun w x y hw hx hy => sle_spec w x y hw hx hy) _ _ c ha hb h
      | exact cmp_sound sgt _ (fun w x y hw hx hy => sgt_spec w x y hw hx hy) _ _ c ha hb h
      | exact cmp_sound sge _ (fun w x y hw hx hy => sge_spec w x y hw hx hy) _ _ c ha hb h
  case eq | ne =>
    rcases hwt with ⟨w, x, y, hw, rfl⟩ | ⟨a, b, rfl⟩
    · have ha : x < 2 ^ w := hvs (.bv x w) (by simp)
      have hb : y < 2 ^ w := hvs (.bv y w) (by simp)
      have hspec := eq_spec w x y ha hb
      simp only [Claripy.BV.eq] at hspec
      simp only [foldOp, if_true] at h
      cases h
      have hne : (x != y) = !(x == y) := rfl
      simp only [List.map, applyOp, CVal.toVal, valEq, valNot, hw, and_self, if_true, ← hspec, ne, eq, hne]
    · simp only [foldOp] at h
      cases h
      simp [applyOp, CVal.toVal, valEq, valNot] <;> cases a <;> cases b <;> rfl
  case bnot | neg =>
    obtain ⟨w, x, hw, rfl⟩ := hwt
    simp only [foldOp, not_spec, neg_spec, bind, Except.bind, pure, Except.pure] at h
    cases h
    simp [applyOp, CVal.toVal, bvUn, hw]
  case extract hi lo =>
    obtain ⟨w, x, hlo, hhi, rfl⟩ := hwt
    have hx : x < 2 ^ w := hvs (.bv x w) (by simp)
    simp only [foldOp, extract_spec_lt w hi lo x hlo hx, bind, Except.bind, pure, Except.pure] at h
    cases h
    have : hi + 1 - lo = hi - lo + 1 := by omega
    simp [applyOp, CVal.toVal, hlo, hhi, this]
  case zeroExt n =>
    obtain ⟨w, x, hw, rfl⟩ := hwt
    have hx : x < 2 ^ w := hvs (.bv x w) (by simp)
    simp only [foldOp, zeroExt_spec n w x hx, bind, Except.bind, pure, Except.pure] at h
    cases h
    simp [applyOp, CVal.toVal, hw]
  case signExt n =>
    obtain ⟨w, x, hw, rfl⟩ := hwt
    have hx : x < 2 ^ w := hvs (.bv x w) (by simp)
    simp only [foldOp, signExt_spec n w x hw hx, bind, Except.bind, pure, Except.pure] at h
    cases h
    simp [applyOp, CVal.toVal, hw]
  case ite =>
    obtain ⟨cb, t, f, rfl, hty⟩ := hwt
    simp only [foldOp] at h
    cases h
    rcases hty with ⟨x, y, w, rfl, rfl⟩ | ⟨a, b, rfl, rfl⟩
    · cases cb <;> simp [applyOp, CVal.toVal, valIte]
    · cases cb <;> simp [applyOp, CVal.toVal, valIte]
  case and =>
    obtain ⟨hne, hb⟩ := hwt
    obtain ⟨r, hr⟩ := boolAll_val vs hb
    rw [hr.1] at h; cases h
    cases vs with
    | nil => exact absurd rfl hne
    | cons v rest =>
      simp only [List.map, applyOp]
      have := foldl_and_bools (v :: rest) hb true
      simpa [hr.2, CVal.toVal] using this
  case or =>
    obtain ⟨hne, hb⟩ := hwt
    obtain ⟨r, hr⟩ := boolAny_val vs hb
    rw [hr.1] at h; cases h
    cases vs with
    | nil => exact absurd rfl hne
    | cons v rest =>
      simp only [List.map, applyOp]
      have := foldl_or_bools (v :: rest) hb false
      simpa [hr.2, CVal.toVal] using this
  case not =>
    obtain ⟨b, rfl⟩ := hwt
    simp only [foldOp] at h
    cases h
    simp [applyOp, CVal.toVal, valNot]

end Claripy.AST
