import Claripy.Conc.GcGuard
/-! Inductive invariant of the GC guard for any number of threads (helper lemmas for C19). -/
namespace Claripy.GcGuard

def heldSum (l : List Thread) : Nat := (l.map (·.held)).sum
def depthSum (l : List Thread) : Nat := (l.map (·.depth)).sum

theorem heldSum_set (l : List Thread) (i : Nat) (t t' : Thread) (h : l[i]? = some t) :
    heldSum (l.set i t') + t.held = heldSum l + t'.held := by
  induction l generalizing i with
  | nil => simp at h
  | cons a l ih =>
    cases i with
    | zero => simp at h; subst h; simp [heldSum]; omega
    | succ n =>
      simp at h
      have := ih n h
      simp [heldSum] at this ⊢; omega

theorem depthSum_set (l : List Thread) (i : Nat) (t t' : Thread) (h : l[i]? = some t) :
    depthSum (l.set i t') + t.depth = depthSum l + t'.depth := by
  induction l generalizing i with
  | nil => simp at h
  | cons a l ih =>
    cases i with
    | zero => simp at h; subst h; simp [depthSum]; omega
    | succ n =>
      simp at h
      have := ih n h
      simp [depthSum] at this ⊢; omega

/-- relation between `held` and `depth` by program counter; unreachable pcs are `False`. -/
def localOk (t : Thread) : Prop :=
  (t.fn = 0 ∧ t.pc = 0 ∧ t.held = t.depth) ∨
  (t.fn = 1 ∧ t.pc ≤ 5 ∧ t.held = t.depth) ∨
  (t.fn = 1 ∧ (t.pc = 6 ∨ t.pc = 7) ∧ t.held = t.depth + 1) ∨
  (t.fn = 2 ∧ (t.pc ≤ 1 ∨ t.pc = 6) ∧ t.held = t.depth + 1) ∨
  (t.fn = 2 ∧ 7 ≤ t.pc ∧ t.pc ≤ 12 ∧ t.held = t.depth)

/-- the thread holds the lock exactly at these pcs -/
def inCrit (t : Thread) : Prop :=
  (t.fn = 1 ∧ 1 ≤ t.pc ∧ t.pc ≤ 6) ∨ (t.fn = 2 ∧ 1 ≤ t.pc ∧ t.pc ≤ 11)

instance (t : Thread) : Decidable (inCrit t) := by unfold inCrit; infer_instance

/-- shared state is consistent (what holds whenever nobody is inside a critical section) -/
def Cons (s : State) : Prop :=
  (s.active = 0 → s.gc = s.gc0) ∧ (s.active ≠ 0 → s.gc = false ∧ s.saved = s.gc0)

/-- assertion on the shared state while thread `t` holds the lock at its current pc -/
def Assert (t : Thread) (s : State) : Prop :=
  (t.fn = 1 ∧ t.pc = 1 ∧ Cons s) ∨
  (t.fn = 1 ∧ t.pc = 2 ∧ s.active = 0 ∧ s.gc = s.gc0) ∨
  (t.fn = 1 ∧ t.pc = 3 ∧ s.active = 0 ∧ s.gc = s.gc0 ∧ s.saved = s.gc0) ∨
  (t.fn = 1 ∧ t.pc = 4 ∧ s.active = 0 ∧ s.gc = s.gc0 ∧ s.saved = s.gc0 ∧ s.saved = true) ∨
  (t.fn = 1 ∧ (t.pc = 5 ∨ t.pc = 6) ∧ s.gc = false ∧ s.saved = s.gc0) ∨
  (t.fn = 2 ∧ t.pc = 1 ∧ Cons s) ∨
  (t.fn = 2 ∧ (t.pc = 6 ∨ t.pc = 7) ∧ s.gc = false ∧ s.saved = s.gc0) ∨
  (t.fn = 2 ∧ t.pc = 8 ∧ s.active = 0 ∧ s.gc = false ∧ s.saved = s.gc0) ∨
  (t.fn = 2 ∧ t.pc = 9 ∧ s.active = 0 ∧ s.gc = false ∧ s.saved = s.gc0 ∧ s.saved = true) ∨
  (t.fn = 2 ∧ t.pc = 10 ∧ s.active = 0 ∧ s.gc = s.gc0) ∨
  (t.fn = 2 ∧ t.pc = 11 ∧ Cons s)

structure Inv (s : State) : Prop where
  sum : s.active = (heldSum s.threads : Int)
  loc : ∀ (i : Nat) (t : Thread), s.threads[i]? = some t → localOk t
  crit : ∀ (i : Nat) (t : Thread), s.threads[i]? = some t → (inCrit t ↔ s.lock = some i)
  shared : match s.lock with
    | none => Cons s
    | some i => ∃ t, s.threads[i]? = some t ∧ Assert t s

theorem inv_init (n : Nat) (g : Bool) : Inv (initState n g) := by
  refine ⟨?_, ?_, ?_, ?_⟩
  · simp [initState, heldSum]
  · intro i t h
    simp [initState, List.getElem?_replicate] at h
    obtain ⟨_, rfl⟩ := h
    simp [localOk]
  · intro i t h
    simp [initState, List.getElem?_replicate] at h
    obtain ⟨_, rfl⟩ := h
    simp [inCrit, initState]
  · simp [initState, Cons]

end Claripy.GcGuard

namespace Claripy.GcGuard

theorem Assert_congr (u : Thread) (s s' : State) (h1 : s'.active = s.active) (h2 : s'.saved = s.saved)
    (h3 : s'.gc = s.gc) (h4 : s'.gc0 = s.gc0) (h : Assert u s) : Assert u s' := by
  simpa [Assert, Cons, h1, h2, h3, h4] using h

theorem Cons_congr (s s' : State) (h1 : s'.active = s.active) (h2 : s'.saved = s.saved)
    (h3 : s'.gc = s.gc) (h4 : s'.gc0 = s.gc0) (h : Cons s) : Cons s' := by
  simpa [Cons, h1, h2, h3, h4] using h

/-- One thread moves from `t` to `t'`; everything else about the thread list is unchanged. -/
theorem inv_update (s s' : State) (i : Nat) (t t' : Thread)
    (hI : Inv s) (ht : s.threads[i]? = some t)
    (hth : s'.threads = s.threads.set i t')
    (hact : s'.active + (t.held : Int) = s.active + (t'.held : Int))
    (hloc : localOk t')
    (hlock : s'.lock = if inCrit t' then some i else if inCrit t then none else s.lock)
    (hacq : inCrit t' → ¬ inCrit t → s.lock = none)
    (hmine : inCrit t' → Assert t' s')
    (hrel : ¬ inCrit t' → inCrit t → Cons s')
    (hother : ¬ inCrit t' → ¬ inCrit t →
      s'.active = s.active ∧ s'.saved = s.saved ∧ s'.gc = s.gc ∧ s'.gc0 = s.gc0) : Inv s' := by
  have hi : i < s.threads.length := by
    rcases Nat.lt_or_ge i s.threads.length with h | h
    · exact h
    · simp [List.getElem?_eq_none h] at ht
  have hcrit_t := hI.crit i t ht
  refine ⟨?_, ?_, ?_, ?_⟩
  · have := heldSum_set s.threads i t t' ht
    rw [hth, hI.sum] at *
    omega
  · intro j u hu
    rw [hth] at hu
    by_cases hji : i = j
    · subst hji; simp [List.getElem?_set_self hi] at hu; subst hu; exact hloc
    · rw [List.getElem?_set_ne hji] at hu; exact hI.loc j u hu
  · intro j u hu
    rw [hth] at hu
    by_cases hji : i = j
    · subst hji; simp [List.getElem?_set_self hi] at hu; subst hu
      rw [hlock]
      by_cases h1 : inCrit t'
      · simp [h1]
      · by_cases h2 : inCrit t
        · simp [h1, h2]
        · simp only [h1, h2, if_false, false_iff]
          intro h; exact h2 (hcrit_t.mpr h)
    · rw [List.getElem?_set_ne hji] at hu
      have hcu := hI.crit j u hu
      rw [hlock]
      by_cases h1 : inCrit t'
      · simp only [h1, if_true]
        have : ¬ inCrit u := by
          intro hu'
          have hl := hcu.mp hu'
          by_cases h2 : inCrit t
          · have := hcrit_t.mp h2; rw [hl] at this; simp at this; exact hji this.symm
          · have := hacq h1 h2; rw [hl] at this; simp at this
        simp only [this, false_iff]
        intro h; simp at h; exact hji h
      · by_cases h2 : inCrit t
        · simp only [h1, h2, if_false, if_true]
          have hl := hcrit_t.mp h2
          constructor
          · intro hu'; have := hcu.mp hu'; rw [hl] at this; simp at this; exact absurd this hji
          · intro h; simp at h
        · simp only [h1, h2, if_false]; exact hcu
  · rw [hlock]
    by_cases h1 : inCrit t'
    · simp only [h1, if_true]
      refine ⟨t', ?_, hmine h1⟩
      rw [hth]; simp [List.getElem?_set_self hi]
    · by_cases h2 : inCrit t
      · simp only [h1, h2, if_false, if_true]; exact hrel h1 h2
      · simp only [h1, h2, if_false]
        obtain ⟨e1, e2, e3, e4⟩ := hother h1 h2
        have hsh := hI.shared
        cases hl : s.lock with
        | none => rw [hl] at hsh; exact Cons_congr s s' e1 e2 e3 e4 hsh
        | some j =>
          rw [hl] at hsh
          obtain ⟨u, hu, ha⟩ := hsh
          have hji : i ≠ j := by
            intro h; subst h
            rw [ht] at hu; cases hu
            exact h2 (hcrit_t.mpr hl)
          refine ⟨u, ?_, Assert_congr u s s' e1 e2 e3 e4 ha⟩
          rw [hth, List.getElem?_set_ne hji]; exact hu

end Claripy.GcGuard
