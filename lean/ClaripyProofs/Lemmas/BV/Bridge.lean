import Claripy.BV.Concrete
/-!
Bridge lemmas: every function of the concrete backend model (`Claripy.BV`, Python-int formulas as
written) computes the SMT-LIB operation, i.e. Lean core's `BitVec` operation, at EVERY width.
Operands are the stored values of `BVV` objects, hence `< 2^w` (a hypothesis only where needed).
-/
namespace Claripy.BV

theorem mask_eq (w : Nat) (v : Int) : mask w v = (BitVec.ofInt w v).toNat := by
  simp [mask, BitVec.toNat_ofInt]

theorem mask_nat (w n : Nat) : mask w (n : Int) = (BitVec.ofNat w n).toNat := by
  rw [mask_eq, BitVec.ofInt_natCast]

theorem mask_lt (w : Nat) (v : Int) : mask w v < 2 ^ w := by
  rw [mask_eq]; exact (BitVec.ofInt w v).isLt

theorem mod_mul_mod (a b m : Nat) : (a % m) * b % m = a * b % m := by
  rw [Nat.mul_mod, Nat.mod_mod, ← Nat.mul_mod]

theorem ofNat_toNat_lt {w a : Nat} (h : a < 2 ^ w) : (BitVec.ofNat w a).toNat = a := by
  simp [BitVec.toNat_ofNat, Nat.mod_eq_of_lt h]

theorem add_spec (w a b : Nat) :
    add w a b = .ok (BitVec.ofNat w a + BitVec.ofNat w b).toNat := by
  simp only [add, mask_eq]
  congr 2
  rw [← BitVec.ofInt_natCast, ← BitVec.ofInt_natCast, ← BitVec.ofInt_add]
  congr 1

theorem sub_spec (w a b : Nat) :
    sub w a b = .ok (BitVec.ofNat w a - BitVec.ofNat w b).toNat := by
  simp only [sub, mask_eq]
  congr 2
  rw [Int.sub_eq_add_neg, BitVec.ofInt_add, BitVec.ofInt_neg, BitVec.ofInt_natCast, BitVec.ofInt_natCast,
    BitVec.sub_eq_add_neg]

theorem mul_spec (w a b : Nat) :
    mul w a b = .ok (BitVec.ofNat w a * BitVec.ofNat w b).toNat := by
  simp only [mul, mask_eq]
  congr 2
  rw [← BitVec.ofInt_natCast, ← BitVec.ofInt_natCast, ← BitVec.ofInt_mul]
  congr 1

theorem neg_spec (w a : Nat) : neg w a = .ok (-(BitVec.ofNat w a)).toNat := by
  simp only [neg, mask_eq]
  congr 2
  rw [← BitVec.ofInt_natCast, ← BitVec.ofInt_neg]
  apply BitVec.eq_of_toNat_eq
  simp only [BitVec.toNat_ofInt]
  have : ((2 ^ w : Nat) : Int) = (2 : Int) ^ w := by simp
  rw [this, Int.emod_emod]

theorem and_spec (w a b : Nat) :
    and_ w a b = .ok (BitVec.ofNat w a &&& BitVec.ofNat w b).toNat := by
  simp only [and_, mask_nat]
  congr 2
  apply BitVec.eq_of_toNat_eq
  simp

theorem or_spec (w a b : Nat) :
    or_ w a b = .ok (BitVec.ofNat w a ||| BitVec.ofNat w b).toNat := by
  simp only [or_, mask_nat]
  congr 2
  apply BitVec.eq_of_toNat_eq
  simp

theorem xor_spec (w a b : Nat) :
    xor_ w a b = .ok (BitVec.ofNat w a ^^^ BitVec.ofNat w b).toNat := by
  simp only [xor_, mask_nat]
  congr 2
  apply BitVec.eq_of_toNat_eq
  simp

theorem ofNat_allOnes (w : Nat) : BitVec.ofNat w (2 ^ w - 1) = BitVec.allOnes w := by
  apply BitVec.eq_of_toNat_eq
  simp only [BitVec.toNat_ofNat, BitVec.toNat_allOnes]
  exact Nat.mod_eq_of_lt (by have := Nat.two_pow_pos w; omega)

theorem not_spec (w a : Nat) : not_ w a = .ok (~~~(BitVec.ofNat w a)).toNat := by
  simp only [not_, mask_nat]
  congr 2
  rw [← BitVec.xor_allOnes, ← ofNat_allOnes]
  apply BitVec.eq_of_toNat_eq
  simp

/-- SMT-LIB `bvshl` takes a bit-vector shift amount; `x <<< y` for `y : BitVec` is `x <<< y.toNat`. -/
theorem shl_spec (w a b : Nat) (hb : b < 2 ^ w) :
    shl w a b = .ok (BitVec.ofNat w a <<< BitVec.ofNat w b).toNat := by
  rw [BitVec.shiftLeft_eq', ofNat_toNat_lt hb]
  unfold shl
  split
  · rename_i h
    congr 1
    simp only [BitVec.toNat_shiftLeft, Nat.shiftLeft_eq]
    have : 2 ^ w ∣ (BitVec.ofNat w a).toNat * 2 ^ b :=
      Nat.dvd_trans (Nat.pow_dvd_pow 2 h) (Nat.dvd_mul_left _ _)
    exact (Nat.mod_eq_zero_of_dvd this).symm
  · congr 1
    rw [mask_nat]
    simp only [BitVec.toNat_shiftLeft, Nat.shiftLeft_eq, BitVec.toNat_ofNat]
    exact (mod_mul_mod a (2 ^ b) (2 ^ w)).symm

theorem lshr_spec (w a b : Nat) (ha : a < 2 ^ w) (hb : b < 2 ^ w) :
    lshr w a b = .ok (BitVec.ofNat w a >>> BitVec.ofNat w b).toNat := by
  rw [BitVec.ushiftRight_eq', ofNat_toNat_lt hb]
  simp only [lshr, mask_nat, BitVec.toNat_ushiftRight, BitVec.toNat_ofNat, Nat.mod_eq_of_lt ha]
  congr 1
  apply Nat.mod_eq_of_lt
  exact Nat.lt_of_le_of_lt (Nat.shiftRight_le a b) ha

theorem signed_eq_toInt (w a : Nat) (hw : 0 < w) (ha : a < 2 ^ w) :
    signed w a = (BitVec.ofNat w a).toInt := by
  rw [BitVec.toInt_eq_toNat_cond, ofNat_toNat_lt ha]
  unfold signed
  obtain ⟨k, rfl⟩ : ∃ k, w = k + 1 := ⟨w - 1, by omega⟩
  have h2 : 2 ^ (k + 1) = 2 * 2 ^ k := by rw [Nat.pow_succ]; omega
  rw [h2] at ha ⊢
  have hpos : 0 < 2 ^ k := Nat.two_pow_pos k
  generalize 2 ^ k = h at *
  have hh : 2 * h / 2 = h := by omega
  rw [hh]
  by_cases hlt : a < h
  · have : 2 * a < 2 * h := by omega
    simp [hlt, this]
  · have h' : ¬ 2 * a < 2 * h := by omega
    have hm : a % h = a - h := by
      rw [Nat.mod_eq_sub_mod (by omega), Nat.mod_eq_of_lt (by omega)]
    simp only [hlt, h', if_false, hm]
    omega

/-- SMT-LIB `bvashr`. -/
theorem ashr_spec (w a b : Nat) (hw : 0 < w) (ha : a < 2 ^ w) (hb : b < 2 ^ w) :
    ashr w a b = .ok (BitVec.sshiftRight' (BitVec.ofNat w a) (BitVec.ofNat w b)).toNat := by
  rw [BitVec.sshiftRight_eq', ofNat_toNat_lt hb]
  simp only [ashr, mask_eq, signed_eq_toInt w a hw ha]
  rfl

theorem udiv_spec (w a b : Nat) (ha : a < 2 ^ w) (hb : b < 2 ^ w) (h0 : b ≠ 0) :
    udiv w a b = .ok (BitVec.ofNat w a / BitVec.ofNat w b).toNat := by
  simp only [udiv, h0, if_false, mask_nat, BitVec.toNat_udiv, BitVec.toNat_ofNat, Nat.mod_eq_of_lt ha,
    Nat.mod_eq_of_lt hb]
  congr 1
  exact Nat.mod_eq_of_lt (Nat.lt_of_le_of_lt (Nat.div_le_self a b) ha)

theorem umod_spec (w a b : Nat) (ha : a < 2 ^ w) (hb : b < 2 ^ w) (h0 : b ≠ 0) :
    umod w a b = .ok (BitVec.ofNat w a % BitVec.ofNat w b).toNat := by
  simp only [umod, h0, if_false, mask_nat, BitVec.toNat_umod, BitVec.toNat_ofNat, Nat.mod_eq_of_lt ha,
    Nat.mod_eq_of_lt hb]
  congr 1
  exact Nat.mod_eq_of_lt (Nat.lt_of_le_of_lt (Nat.mod_le a b) ha)

theorem udiv_zero (w a : Nat) : udiv w a 0 = .error .divZero := by simp [udiv]
theorem umod_zero (w a : Nat) : umod w a 0 = .error .divZero := by simp [umod]

theorem zeroExt_spec (n w a : Nat) (ha : a < 2 ^ w) :
    zeroExt n w a = .ok (BitVec.zeroExtend (w + n) (BitVec.ofNat w a)).toNat := by
  simp only [zeroExt, mask_nat, BitVec.zeroExtend, BitVec.toNat_setWidth, BitVec.toNat_ofNat,
    Nat.mod_eq_of_lt ha]

theorem signExt_spec (n w a : Nat) (hw : 0 < w) (ha : a < 2 ^ w) :
    signExt n w a = .ok (BitVec.signExtend (w + n) (BitVec.ofNat w a)).toNat := by
  simp only [signExt, mask_eq, signed_eq_toInt w a hw ha, BitVec.signExtend]

/-- `Extract(f, t, o)`: the source masks with one bit too many (`f + 2 - t`) and relies on the `BVV`
constructor to cut to `f + 1 - t` bits; the result is SMT-LIB `extract`. -/
theorem extract_spec (w f t a : Nat) (ht : t ≤ f) :
    extract f t a = .ok (BitVec.extractLsb f t (BitVec.ofNat w a)).toNat ∨ ¬ a < 2 ^ w := by
  by_cases ha : a < 2 ^ w
  · left
    simp only [extract, mask_nat, BitVec.extractLsb_toNat, BitVec.toNat_ofNat, Nat.mod_eq_of_lt ha]
    congr 1
    have e1 : f + 2 - t = (f + 1 - t) + 1 := by omega
    have e2 : f - t + 1 = f + 1 - t := by omega
    rw [e1, e2, Nat.and_two_pow_sub_one_eq_mod]
    exact Nat.mod_mod_of_dvd _ (Nat.pow_dvd_pow 2 (Nat.le_succ _))
  · right; exact ha

theorem extract_spec_lt (w f t a : Nat) (ht : t ≤ f) (ha : a < 2 ^ w) :
    extract f t a = .ok (BitVec.extractLsb f t (BitVec.ofNat w a)).toNat := by
  rcases extract_spec w f t a ht with h | h
  · exact h
  · exact absurd ha h

theorem concat2_spec (wa wb a b : Nat) (ha : a < 2 ^ wa) (hb : b < 2 ^ wb) :
    concat2 wb a b = (BitVec.ofNat wa a ++ BitVec.ofNat wb b).toNat := by
  simp only [concat2, BitVec.toNat_append, BitVec.toNat_ofNat, Nat.mod_eq_of_lt ha, Nat.mod_eq_of_lt hb,
    Nat.shiftLeft_eq]

theorem eq_spec (w a b : Nat) (ha : a < 2 ^ w) (hb : b < 2 ^ w) :
    eq a b = (BitVec.ofNat w a == BitVec.ofNat w b) := by
  simp only [eq]
  by_cases h : a = b
  · subst h; simp
  · have : BitVec.ofNat w a ≠ BitVec.ofNat w b := by
      intro hc
      have := congrArg BitVec.toNat hc
      rw [ofNat_toNat_lt ha, ofNat_toNat_lt hb] at this
      exact h this
    have e1 : (a == b) = false := by simpa using h
    have e2 : (BitVec.ofNat w a == BitVec.ofNat w b) = false := by simpa using this
    rw [e1, e2]

theorem ult_spec (w a b : Nat) (ha : a < 2 ^ w) (hb : b < 2 ^ w) :
    ult a b = BitVec.ult (BitVec.ofNat w a) (BitVec.ofNat w b) := by
  simp [ult, BitVec.ult, ofNat_toNat_lt ha, ofNat_toNat_lt hb]

theorem ule_spec (w a b : Nat) (ha : a < 2 ^ w) (hb : b < 2 ^ w) :
    ule a b = BitVec.ule (BitVec.ofNat w a) (BitVec.ofNat w b) := by
  simp [ule, BitVec.ule, ofNat_toNat_lt ha, ofNat_toNat_lt hb]

theorem ugt_spec (w a b : Nat) (ha : a < 2 ^ w) (hb : b < 2 ^ w) :
    ugt a b = BitVec.ult (BitVec.ofNat w b) (BitVec.ofNat w a) := by
  simp [ugt, BitVec.ult, ofNat_toNat_lt ha, ofNat_toNat_lt hb]

theorem uge_spec (w a b : Nat) (ha : a < 2 ^ w) (hb : b < 2 ^ w) :
    uge a b = BitVec.ule (BitVec.ofNat w b) (BitVec.ofNat w a) := by
  simp [uge, BitVec.ule, ofNat_toNat_lt ha, ofNat_toNat_lt hb]

theorem slt_spec (w a b : Nat) (hw : 0 < w) (ha : a < 2 ^ w) (hb : b < 2 ^ w) :
    slt w a b = BitVec.slt (BitVec.ofNat w a) (BitVec.ofNat w b) := by
  simp [slt, BitVec.slt, signed_eq_toInt w _ hw ha, signed_eq_toInt w _ hw hb]

theorem sle_spec (w a b : Nat) (hw : 0 < w) (ha : a < 2 ^ w) (hb : b < 2 ^ w) :
    sle w a b = BitVec.sle (BitVec.ofNat w a) (BitVec.ofNat w b) := by
  simp [sle, BitVec.sle, signed_eq_toInt w _ hw ha, signed_eq_toInt w _ hw hb]

theorem sgt_spec (w a b : Nat) (hw : 0 < w) (ha : a < 2 ^ w) (hb : b < 2 ^ w) :
    sgt w a b = BitVec.slt (BitVec.ofNat w b) (BitVec.ofNat w a) := by
  simp [sgt, BitVec.slt, signed_eq_toInt w _ hw ha, signed_eq_toInt w _ hw hb]

theorem sge_spec (w a b : Nat) (hw : 0 < w) (ha : a < 2 ^ w) (hb : b < 2 ^ w) :
    sge w a b = BitVec.sle (BitVec.ofNat w b) (BitVec.ofNat w a) := by
  simp [sge, BitVec.sle, signed_eq_toInt w _ hw ha, signed_eq_toInt w _ hw hb]

/-- floor and truncating division agree when the quotient is non-negative -/
theorem fdiv_eq_tdiv_of_mul_nonneg (x b : Int) (h : 0 ≤ x * b) (hb : b ≠ 0) : Int.fdiv x b = Int.tdiv x b := by
  by_cases hb0 : 0 < b
  · have hx : 0 ≤ x := by
      rcases (by omega : x < 0 ∨ 0 ≤ x) with hx | hx
      · have : x * b < 0 := Int.mul_neg_of_neg_of_pos hx hb0
        omega
      · exact hx
    exact Int.fdiv_eq_tdiv_of_nonneg hx (by omega)
  · have hbneg : b < 0 := by omega
    have hx : x ≤ 0 := by
      rcases (by omega : 0 < x ∨ x ≤ 0) with hx | hx
      · have : x * b < 0 := Int.mul_neg_of_pos_of_neg hx hbneg
        omega
      · exact hx
    have := Int.fdiv_eq_tdiv_of_nonneg (a := -x) (b := -b) (by omega) (by omega)
    rwa [Int.neg_fdiv_neg, Int.neg_tdiv_neg] at this

/-- the case split of bv.py's SDiv computes truncating division -/
theorem sdivCore_eq_tdiv (a b : Int) (hb : b ≠ 0) : sdivCore a b = Int.tdiv a b := by
  unfold sdivCore pyDiv pyMod
  split
  · rename_i h
    exact fdiv_eq_tdiv_of_mul_nonneg a b (by omega) hb
  · rename_i h
    -- -a = r + q * b  with  r = fmod (-a) b, q = fdiv (-a) b
    have hdecomp := Int.fmod_add_fdiv_mul (-a) b
    have e : a + Int.fmod (-a) b = (-(Int.fdiv (-a) b)) * b := by
      have : Int.fmod (-a) b = -a - Int.fdiv (-a) b * b := by omega
      rw [this, Int.neg_mul]; omega
    rw [e, Int.mul_fdiv_cancel _ hb]
    have hq : Int.fdiv (-a) b = Int.tdiv (-a) b :=
      fdiv_eq_tdiv_of_mul_nonneg (-a) b (by rw [Int.neg_mul]; omega) hb
    rw [hq, Int.neg_tdiv]; omega

theorem smtSDiv_eq_sdiv_of_ne {w : Nat} (x y : BitVec w) (hy : y ≠ 0#w) : BitVec.smtSDiv x y = x.sdiv y := by
  have hny : -y ≠ 0#w := by
    intro h
    apply hy
    have := congrArg (fun z => -z) h
    simpa using this
  unfold BitVec.smtSDiv BitVec.sdiv
  have e1 : ∀ a : BitVec w, BitVec.smtUDiv a y = BitVec.udiv a y := by intro a; simp [BitVec.smtUDiv, hy]
  have e2 : ∀ a : BitVec w, BitVec.smtUDiv a (BitVec.neg y) = BitVec.udiv a (BitVec.neg y) := by
    intro a; simp only [BitVec.smtUDiv]; rw [if_neg]; exact hny
  cases x.msb <;> cases y.msb <;> simp only [e1, e2]

theorem ofNat_ne_zero {w b : Nat} (hb : b < 2 ^ w) (h0 : b ≠ 0) : BitVec.ofNat w b ≠ 0#w := by
  intro hc
  have := congrArg BitVec.toNat hc
  simp [BitVec.toNat_ofNat, Nat.mod_eq_of_lt hb] at this
  exact h0 this

theorem signed_ne_zero {w b : Nat} (hw : 0 < w) (hb : b < 2 ^ w) (h0 : b ≠ 0) : signed w b ≠ 0 := by
  rw [signed_eq_toInt w b hw hb]
  intro h
  have : BitVec.ofNat w b = 0#w := BitVec.eq_of_toInt_eq (by simpa using h)
  exact ofNat_ne_zero hb h0 this

/-- SMT-LIB `bvsdiv` (for a non-zero divisor; claripy raises on zero) -/
theorem sdiv_spec (w a b : Nat) (hw : 0 < w) (ha : a < 2 ^ w) (hb : b < 2 ^ w) (h0 : b ≠ 0) :
    sdiv w a b = .ok (BitVec.smtSDiv (BitVec.ofNat w a) (BitVec.ofNat w b)).toNat := by
  have hs := signed_ne_zero hw hb h0
  simp only [sdiv, hs, if_false, mask_eq]
  congr 2
  rw [smtSDiv_eq_sdiv_of_ne _ _ (ofNat_ne_zero hb h0), sdivCore_eq_tdiv _ _ hs,
    signed_eq_toInt w a hw ha, signed_eq_toInt w b hw hb]
  apply BitVec.eq_of_toInt_eq
  rw [BitVec.toInt_ofInt, BitVec.toInt_sdiv]

/-- claripy `SMod` is SMT-LIB `bvsrem` (sign follows the dividend) -/
theorem smod_spec (w a b : Nat) (hw : 0 < w) (ha : a < 2 ^ w) (hb : b < 2 ^ w) (h0 : b ≠ 0) :
    smod w a b = .ok (BitVec.srem (BitVec.ofNat w a) (BitVec.ofNat w b)).toNat := by
  have hs := signed_ne_zero hw hb h0
  simp only [smod, hs, if_false, mask_eq]
  congr 2
  rw [sdivCore_eq_tdiv _ _ hs, signed_eq_toInt w a hw ha, signed_eq_toInt w b hw hb]
  apply BitVec.eq_of_toInt_eq
  rw [BitVec.toInt_ofInt, BitVec.toInt_srem, Int.tmod_def, Int.mul_comm]
  rw [← Int.tmod_def, ← BitVec.toInt_srem, BitVec.toInt_bmod_cancel]


theorem ofNat_toNat_self {w : Nat} (x : BitVec w) : BitVec.ofNat w x.toNat = x := by
  apply BitVec.eq_of_toNat_eq; simp

theorem mask_self (w : Nat) : mask w (w : Int) = w := by
  rw [mask_nat, ofNat_toNat_lt Nat.lt_two_pow_self]

theorem mask_of_lt {w n : Nat} (h : n < 2 ^ w) : mask w (n : Int) = n := by
  rw [mask_nat, ofNat_toNat_lt h]

/-- SMT-LIB `ext_rotate_left` (rotation amount taken modulo the width) -/
theorem rotl_spec (w a b : Nat) (hw : 0 < w) (ha : a < 2 ^ w) (hb : b < 2 ^ w) :
    rotl w a b = .ok ((BitVec.ofNat w a).rotateLeft (BitVec.ofNat w b).toNat).toNat := by
  have hww : w < 2 ^ w := Nat.lt_two_pow_self
  have hbs : b % w < w := Nat.mod_lt _ hw
  have hbs2 : b % w < 2 ^ w := by omega
  have hk : w - b % w < 2 ^ w := by omega
  have hw0 : w ≠ 0 := by omega
  simp only [rotl, mask_self, umod, hw0, if_false, bind, Except.bind, mask_of_lt hbs2]
  rw [shl_spec w a (b % w) hbs2]
  simp only [sub]
  have hsub : mask w ((w : Int) - ((b % w : Nat) : Int)) = w - b % w := by
    have : ((w : Int) - ((b % w : Nat) : Int)) = ((w - b % w : Nat) : Int) := by omega
    rw [this, mask_of_lt hk]
  rw [hsub, lshr_spec w a (w - b % w) ha hk]
  simp only []
  rw [or_spec]
  congr 2
  simp only [ofNat_toNat_self, BitVec.shiftLeft_eq', BitVec.ushiftRight_eq', ofNat_toNat_lt hbs2, ofNat_toNat_lt hk,
    ofNat_toNat_lt hb]
  rfl

theorem rotr_spec (w a b : Nat) (hw : 0 < w) (ha : a < 2 ^ w) (hb : b < 2 ^ w) :
    rotr w a b = .ok ((BitVec.ofNat w a).rotateRight (BitVec.ofNat w b).toNat).toNat := by
  have hww : w < 2 ^ w := Nat.lt_two_pow_self
  have hbs : b % w < w := Nat.mod_lt _ hw
  have hbs2 : b % w < 2 ^ w := by omega
  have hk : w - b % w < 2 ^ w := by omega
  have hw0 : w ≠ 0 := by omega
  simp only [rotr, mask_self, umod, hw0, if_false, bind, Except.bind, mask_of_lt hbs2]
  rw [lshr_spec w a (b % w) ha hbs2]
  simp only [sub]
  have hsub : mask w ((w : Int) - ((b % w : Nat) : Int)) = w - b % w := by
    have : ((w : Int) - ((b % w : Nat) : Int)) = ((w - b % w : Nat) : Int) := by omega
    rw [this, mask_of_lt hk]
  rw [hsub, shl_spec w a (w - b % w) hk]
  simp only []
  rw [or_spec]
  congr 2
  simp only [ofNat_toNat_self, BitVec.shiftLeft_eq', BitVec.ushiftRight_eq', ofNat_toNat_lt hbs2, ofNat_toNat_lt hk,
    ofNat_toNat_lt hb]
  rfl

end Claripy.BV
