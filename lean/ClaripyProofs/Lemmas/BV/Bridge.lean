import Claripy.BV.Concrete
/-!
Bridge lemmas: every function of the concrete backend model (`Claripy.BV`, Python-int formulas as
written) computes the SMT-LIB operation, i.e. Lean core's `BitVec` operation, at EVERY width.
Operands are the stored values of `BVV` objects, hence `< 2^w` (a hypothesis only where needed).
-/
namespace Claripy.BV

theorem mask_eq (w : Nat) (v : Int) : mask w v = (BitVec.ofInt w v).toNat := by
  simp [mask, BitVec.toNat_ofInt]

theorem mask_nat (w n : Nat) : mask w (n : Int) = (BitVec.ofNat w n).toNat := by
  rw [mask_eq, BitVec.ofInt_natCast]

theorem mask_lt (w : Nat) (v : Int) : mask w v < 2 ^ w := by
  rw [mask_eq]; exact (BitVec.ofInt w v).isLt

theorem mod_mul_mod (a b m : Nat) : (a % m) * b % m = a * b % m := by
  rw [Nat.mul_mod, Nat.mod_mod, ← Nat.mul_mod]

theorem ofNat_toNat_lt {w a : Nat} (h : a < 2 ^ w) : (BitVec.ofNat w a).toNat = a := by
  simp [BitVec.toNat_ofNat, Nat.mod_eq_of_lt h]

theorem add_spec (w a b : Nat) :
    add w a b = .ok (BitVec.ofNat w a + BitVec.ofNat w b).toNat := by
  simp only [add, mask_eq]
  congr 2
  rw [← BitVec.ofInt_natCast, ← BitVec.ofInt_natCast, ← BitVec.ofInt_add]
  congr 1

theorem sub_spec (w a b : Nat) :
    sub w a b = .ok (BitVec.ofNat w a - BitVec.ofNat w b).toNat := by
  simp only [sub, mask_eq]
  congr 2
  rw [Int.sub_eq_add_neg, BitVec.ofInt_add, BitVec.ofInt_neg, BitVec.ofInt_natCast, BitVec.ofInt_natCast,
    BitVec.sub_eq_add_neg]

theorem mul_spec (w a b : Nat) :
    mul w a b = .ok (BitVec.ofNat w a * BitVec.ofNat w b).toNat := by
  simp only [mul, mask_eq]
  congr 2
  rw [← BitVec.ofInt_natCast, ← BitVec.ofInt_natCast, ← BitVec.ofInt_mul]
  congr 1

theorem neg_spec (w a : Nat) : neg w a = .ok (-(BitVec.ofNat w a)).toNat := by
  simp only [neg, mask_eq]
  congr 2
  rw [← BitVec.ofInt_natCast, ← BitVec.ofInt_neg]
  apply BitVec.eq_of_toNat_eq
  simp only [BitVec.toNat_ofInt]
  have : ((2 ^ w : Nat) : Int) = (2 : Int) ^ w := by simp
  rw [this, Int.emod_emod]

theorem and_spec (w a b : Nat) :
    and_ w a b = .ok (BitVec.ofNat w a &&& BitVec.ofNat w b).toNat := by
  simp only [and_, mask_nat]
  congr 2
  apply BitVec.eq_of_toNat_eq
  simp

theorem or_spec (w a b : Nat) :
    or_ w a b = .ok (BitVec.ofNat w a ||| BitVec.ofNat w b).toNat := by
  simp only [or_, mask_nat]
  congr 2
  apply BitVec.eq_of_toNat_eq
  simp

theorem xor_spec (w a b : Nat) :
    xor_ w a b = .ok (BitVec.ofNat w a ^^^ BitVec.ofNat w b).toNat := by
  simp only [xor_, mask_nat]
  congr 2
  apply BitVec.eq_of_toNat_eq
  simp

theorem ofNat_allOnes (w : Nat) : BitVec.ofNat w (2 ^ w - 1) = BitVec.allOnes w := by
  apply BitVec.eq_of_toNat_eq
  simp only [BitVec.toNat_ofNat, BitVec.toNat_allOnes]
  exact Nat.mod_eq_of_lt (by have := Nat.two_pow_pos w; omega)

theorem not_spec (w a : Nat) : not_ w a = .ok (~~~(BitVec.ofNat w a)).toNat := by
  simp only [not_, mask_nat]
  congr 2
  rw [← BitVec.xor_allOnes, ← ofNat_allOnes]
  apply BitVec.eq_of_toNat_eq
  simp

/-- SMT-LIB `bvshl` takes a bit-vector shift amount; `x <<< y` for `y : BitVec` is `x <<< y.toNat`. -/
theorem shl_spec (w a b : Nat) (hb : b < 2 ^ w) :
    shl w a b = .ok (BitVec.ofNat w a <<< BitVec.ofNat w b).toNat := by
  rw [BitVec.shiftLeft_eq', ofNat_toNat_lt hb]
  unfold shl
  split
  · rename_i h
    congr 1
    simp only [BitVec.toNat_shiftLeft, Nat.shiftLeft_eq]
    have : 2 ^ w ∣ (BitVec.ofNat w a).toNat * 2 ^ b :=
      Nat.dvd_trans (Nat.pow_dvd_pow 2 h) (Nat.dvd_mul_left _ _)
    exact (Nat.mod_eq_zero_of_dvd this).symm
  · congr 1
    rw [mask_nat]
    simp only [BitVec.toNat_shiftLeft, Nat.shiftLeft_eq, BitVec.toNat_ofNat]
    exact (mod_mul_mod a (2 ^ b) (2 ^ w)).symm

theorem lshr_spec (w a b : Nat) (ha : a < 2 ^ w) (hb : b < 2 ^ w) :
    lshr w a b = .ok (BitVec.ofNat w a >>> BitVec.ofNat w b).toNat := by
  rw [BitVec.ushiftRight_eq', ofNat_toNat_lt hb]
  simp only [lshr, mask_nat, BitVec.toNat_ushiftRight, BitVec.toNat_ofNat, Nat.mod_eq_of_lt ha]
  congr 1
  apply Nat.mod_eq_of_lt
  exact Nat.lt_of_le_of_lt (Nat.shiftRight_le a b) ha

theorem signed_eq_toInt (w a : Nat) (hw : 0 < w) (ha : a < 2 ^ w) :
    signed w a = (BitVec.ofNat w a).toInt := by
  rw [BitVec.toInt_eq_toNat_cond, ofNat_toNat_lt ha]
  unfold signed
  obtain ⟨k, rfl⟩ : ∃ k, w = k + 1 := ⟨w - 1, by omega⟩
  have h2 : 2 ^ (k + 1) = 2 * 2 ^ k := by rw [Nat.pow_succ]; omega
  rw [h2] at ha ⊢
  have hpos : 0 < 2 ^ k := Nat.two_pow_pos k
  generalize 2 ^ k = h at *
  have hh : 2 * h / 2 = h := by omega
  rw [hh]
  by_cases hlt : a < h
  · have : 2 * a < 2 * h := by omega
    simp [hlt, this]
  · have h' : ¬ 2 * a < 2 * h := by omega
    have hm : a % h = a - h := by
      rw [Nat.mod_eq_sub_mod (by omega), Nat.mod_eq_of_lt (by omega)]
    simp only [hlt, h', if_false, hm]
    omega

/-- SMT-LIB `bvashr`. -/
theorem ashr_spec (w a b : Nat) (hw : 0 < w) (ha : a < 2 ^ w) (hb : b < 2 ^ w) :
    ashr w a b = .ok (BitVec.sshiftRight' (BitVec.ofNat w a) (BitVec.ofNat w b)).toNat := by
  rw [BitVec.sshiftRight_eq', ofNat_toNat_lt hb]
  simp only [ashr, mask_eq, signed_eq_toInt w a hw ha]
  rfl

theorem udiv_spec (w a b : Nat) (ha : a < 2 ^ w) (hb : b < 2 ^ w) (h0 : b ≠ 0) :
    udiv w a b = .ok (BitVec.ofNat w a / BitVec.ofNat w b).toNat := by
  simp only [udiv, h0, if_false, mask_nat, BitVec.toNat_udiv, BitVec.toNat_ofNat, Nat.mod_eq_of_lt ha,
    Nat.mod_eq_of_lt hb]
  congr 1
  exact Nat.mod_eq_of_lt (Nat.lt_of_le_of_lt (Nat.div_le_self a b) ha)

theorem umod_spec (w a b : Nat) (ha : a < 2 ^ w) (hb : b < 2 ^ w) (h0 : b ≠ 0) :
    umod w a b = .ok (BitVec.ofNat w a % BitVec.ofNat w b).toNat := by
  simp only [umod, h0, if_false, mask_nat, BitVec.toNat_umod, BitVec.toNat_ofNat, Nat.mod_eq_of_lt ha,
    Nat.mod_eq_of_lt hb]
  congr 1
  exact Nat.mod_eq_of_lt (Nat.lt_of_le_of_lt (Nat.mod_le a b) ha)

theorem udiv_zero (w a : Nat) : udiv w a 0 = .error .divZero := by simp [udiv]
theorem umod_zero (w a : Nat) : umod w a 0 = .error .divZero := by simp [umod]

theorem zeroExt_spec (n w a : Nat) (ha : a < 2 ^ w) :
    zeroExt n w a = .ok (BitVec.zeroExtend (w + n) (BitVec.ofNat w a)).toNat := by
  simp only [zeroExt, mask_nat, BitVec.zeroExtend, BitVec.toNat_setWidth, BitVec.toNat_ofNat,
    Nat.mod_eq_of_lt ha]

theorem signExt_spec (n w a : Nat) (hw : 0 < w) (ha : a < 2 ^ w) :
    signExt n w a = .ok (BitVec.signExtend (w + n) (BitVec.ofNat w a)).toNat := by
  simp only [signExt, mask_eq, signed_eq_toInt w a hw ha, BitVec.signExtend]

/-- `Extract(f, t, o)`: the source masks with one bit too many (`f + 2 - t`) and relies on the `BVV`
constructor to cut to `f + 1 - t` bits; the result is SMT-LIB `extract`. -/
theorem extract_spec (w f t a : Nat) (ht : t ≤ f) :
    extract f t a = .ok (BitVec.extractLsb f t (BitVec.ofNat w a)).toNat ∨ ¬ a < 2 ^ w := by
  by_cases ha : a < 2 ^ w
  · left
    simp only [extract, mask_nat, BitVec.extractLsb_toNat, BitVec.toNat_ofNat, Nat.mod_eq_of_lt ha]
    congr 1
    have e1 : f + 2 - t = (f + 1 - t) + 1 := by omega
    have e2 : f - t + 1 = f + 1 - t := by omega
    rw [e1, e2, Nat.and_two_pow_sub_one_eq_mod]
    exact Nat.mod_mod_of_dvd _ (Nat.pow_dvd_pow 2 (Nat.le_succ _))
  · right; exact ha

theorem extract_spec_lt (w f t a : Nat) (ht : t ≤ f) (ha : a < 2 ^ w) :
    extract f t a = .ok (BitVec.extractLsb f t (BitVec.ofNat w a)).toNat := by
  rcases extract_spec w f t a ht with h | h
  · exact h
  · exact absurd ha h

theorem concat2_spec (wa wb a b : Nat) (ha : a < 2 ^ wa) (hb : b < 2 ^ wb) :
    concat2 wb a b = (BitVec.ofNat wa a ++ BitVec.ofNat wb b).toNat := by
  simp only [concat2, BitVec.toNat_append, BitVec.toNat_ofNat, Nat.mod_eq_of_lt ha, Nat.mod_eq_of_lt hb,
    Nat.shiftLeft_eq]

theorem eq_spec (w a b : Nat) (ha : a < 2 ^ w) (hb : b < 2 ^ w) :
    eq a b = (BitVec.ofNat w a == BitVec.ofNat w b) := by
  simp only [eq]
  by_cases h : a = b
  · subst h; simp
  · have : BitVec.ofNat w a ≠ BitVec.ofNat w b := by
      intro hc
      have := congrArg BitVec.toNat hc
      rw [ofNat_toNat_lt ha, ofNat_toNat_lt hb] at this
      exact h this
    have e1 : (a == b) = false := by simpa using h
    have e2 : (BitVec.ofNat w a == BitVec.ofNat w b) = false := by simpa using this
    rw [e1, e2]

theorem ult_spec (w a b : Nat) (ha : a < 2 ^ w) (hb : b < 2 ^ w) :
    ult a b = BitVec.ult (BitVec.ofNat w a) (BitVec.ofNat w b) := by
  simp [ult, BitVec.ult, ofNat_toNat_lt ha, ofNat_toNat_lt hb]

theorem ule_spec (w a b : Nat) (ha : a < 2 ^ w) (hb : b < 2 ^ w) :
    ule a b = BitVec.ule (BitVec.ofNat w a) (BitVec.ofNat w b) := by
  simp [ule, BitVec.ule, ofNat_toNat_lt ha, ofNat_toNat_lt hb]

theorem ugt_spec (w a b : Nat) (ha : a < 2 ^ w) (hb : b < 2 ^ w) :
    ugt a b = BitVec.ult (BitVec.ofNat w b) (BitVec.ofNat w a) := by
  simp [ugt, BitVec.ult, ofNat_toNat_lt ha, ofNat_toNat_lt hb]

theorem uge_spec (w a b : Nat) (ha : a < 2 ^ w) (hb : b < 2 ^ w) :
    uge a b = BitVec.ule (BitVec.ofNat w b) (BitVec.ofNat w a) := by
  simp [uge, BitVec.ule, ofNat_toNat_lt ha, ofNat_toNat_lt hb]

theorem slt_spec (w a b : Nat) (hw : 0 < w) (ha : a < 2 ^ w) (hb : b < 2 ^ w) :
    slt w a b = BitVec.slt (BitVec.ofNat w a) (BitVec.ofNat w b) := by
  simp [slt, BitVec.slt, signed_eq_toInt w _ hw ha, signed_eq_toInt w _ hw hb]

theorem sle_spec (w a b : Nat) (hw : 0 < w) (ha : a < 2 ^ w) (hb : b < 2 ^ w) :
    sle w a b = BitVec.sle (BitVec.ofNat w a) (BitVec.ofNat w b) := by
  simp [sle, BitVec.sle, signed_eq_toInt w _ hw ha, signed_eq_toInt w _ hw hb]

theorem sgt_spec (w a b : Nat) (hw : 0 < w) (ha : a < 2 ^ w) (hb : b < 2 ^ w) :
    sgt w a b = BitVec.slt (BitVec.ofNat w b) (BitVec.ofNat w a) := by
  simp [sgt, BitVec.slt, signed_eq_toInt w _ hw ha, signed_eq_toInt w _ hw hb]

theorem sge_spec (w a b : Nat) (hw : 0 < w) (ha : a < 2 ^ w) (hb : b < 2 ^ w) :
    sge w a b = BitVec.sle (BitVec.ofNat w b) (BitVec.ofNat w a) := by
  simp [sge, BitVec.sle, signed_eq_toInt w _ hw ha, signed_eq_toInt w _ hw hb]

end Claripy.BV
