import Claripy.BV.Concrete
import ClaripyProofs.Lemmas.BV.Bridge
import ClaripyProofs.Lemmas.AST.Eval
/-!
Bridge lemma for `Reverse`: the byte-swap formulas of backend_concrete/bv.py (the generic loop and the unrolled 16/32/64-bit
versions) compute `bytesRev`, the byte reversal the denotation `valReverse` uses — for every width that is a multiple of 8.
-/
namespace Claripy.BV
open Claripy.AST (bytesRev bytesRev_lt)

theorem testBit_ff_shift (p m : Nat) : ((0xFF : Nat) <<< p).testBit m = (decide (p ≤ m) && decide (m - p < 8)) := by
  rw [Nat.testBit_shiftLeft, show (0xFF : Nat) = 2 ^ 8 - 1 by decide, Nat.testBit_two_pow_sub_one]

/-- byte `k` (from the least significant end) moved to bit position `s` -/
def byteAt (a k s : Nat) : Nat := ((a &&& (0xFF <<< (8 * k))) >>> (8 * k)) <<< s

theorem testBit_byteAt (a k s j : Nat) :
    (byteAt a k s).testBit j = (decide (s ≤ j) && decide (j - s < 8) && a.testBit (8 * k + (j - s))) := by
  unfold byteAt
  rw [Nat.testBit_shiftLeft, Nat.testBit_shiftRight, Nat.testBit_and, testBit_ff_shift]
  have : 8 * k + (j - s) - 8 * k = j - s := by omega
  rw [this]
  by_cases h1 : s ≤ j <;> by_cases h2 : j - s < 8 <;> cases a.testBit (8 * k + (j - s)) <;> simp [h1, h2]

theorem shl_form (a k s : Nat) : (a &&& (0xFF <<< (8 * k))) <<< s = byteAt a k (8 * k + s) := by
  apply Nat.eq_of_testBit_eq
  intro j
  rw [testBit_byteAt, Nat.testBit_shiftLeft, Nat.testBit_and, testBit_ff_shift]
  by_cases h1 : 8 * k + s ≤ j
  · have e : 8 * k + (j - (8 * k + s)) = j - s := by omega
    have e2 : j - s - 8 * k = j - (8 * k + s) := by omega
    simp [h1, e, e2, show s ≤ j by omega, show 8 * k ≤ j - s by omega, Bool.and_comm]
  · by_cases h2 : s ≤ j
    · simp [h1, h2, show ¬ 8 * k ≤ j - s by omega]
    · simp [h1, h2]

theorem shr_form (a k s : Nat) (hs : s ≤ 8 * k) : (a &&& (0xFF <<< (8 * k))) >>> s = byteAt a k (8 * k - s) := by
  apply Nat.eq_of_testBit_eq
  intro j
  rw [testBit_byteAt, Nat.testBit_shiftRight, Nat.testBit_and, testBit_ff_shift]
  by_cases h1 : 8 * k - s ≤ j
  · have e : 8 * k + (j - (8 * k - s)) = s + j := by omega
    have e2 : s + j - 8 * k = j - (8 * k - s) := by omega
    simp [h1, e, e2, show 8 * k ≤ s + j by omega, Bool.and_comm]
  · simp [h1, show ¬ 8 * k ≤ s + j by omega]

theorem testBit_foldl_or (f : Nat → Nat) (l : List Nat) (init j : Nat) :
    (l.foldl (fun out k => out ||| f k) init).testBit j = (init.testBit j || l.any fun k => (f k).testBit j) := by
  induction l generalizing init with
  | nil => simp
  | cons k l ih => simp [List.foldl, ih, Nat.testBit_or, Bool.or_assoc]

theorem reverseLoop_eq_byteAt (w a : Nat) :
    reverseLoop w a = (List.range (w / 8)).foldl (fun out k => out ||| byteAt a k (w - 8 - 8 * k)) 0 := rfl

theorem testBit_bytesRev' (k n i : Nat) (hn : n < 2 ^ (8 * k)) :
    (bytesRev k n).testBit i = (decide (i < 8 * k) && n.testBit (8 * (k - 1 - i / 8) + i % 8)) := by
  by_cases hi : i < 8 * k
  · simp only [hi, decide_true, Bool.true_and]
    -- the inductive lemma
    have key : ∀ (k n i : Nat), i < 8 * k → (bytesRev k n).testBit i = n.testBit (8 * (k - 1 - i / 8) + i % 8) := by
      intro k
      induction k with
      | zero => intro n i hi; omega
      | succ k ih =>
        intro n i hi
        simp only [bytesRev]
        have e : (256 : Nat) ^ k = 2 ^ (8 * k) := by
          have : (256 : Nat) = 2 ^ 8 := by decide
          rw [this, ← Nat.pow_mul]
        have hlt : bytesRev k (n / 256) < 2 ^ (8 * k) := e ▸ bytesRev_lt k (n / 256)
        rw [e, Nat.mul_comm, Nat.testBit_two_pow_mul_add _ hlt]
        by_cases h : i < 8 * k
        · rw [if_pos h, ih _ _ h, show (256 : Nat) = 2 ^ 8 by decide, Nat.testBit_div_two_pow]
          congr 1
          have : i / 8 < k := by omega
          omega
        · rw [if_neg h, show (256 : Nat) = 2 ^ 8 by decide, Nat.testBit_mod_two_pow]
          have h1 : i / 8 = k := by omega
          have h2 : i - 8 * k < 8 := by omega
          simp only [h2, decide_true, Bool.true_and]
          congr 1
          rw [h1]
          omega
    exact key k n i hi
  · have e : (256 : Nat) ^ k = 2 ^ (8 * k) := by
      have : (256 : Nat) = 2 ^ 8 := by decide
      rw [this, ← Nat.pow_mul]
    have hlt : bytesRev k n < 2 ^ (8 * k) := e ▸ bytesRev_lt k n
    have hle : 2 ^ (8 * k) ≤ 2 ^ i := Nat.pow_le_pow_right (by omega) (by omega)
    simp [hi, Nat.testBit_lt_two_pow (Nat.lt_of_lt_of_le hlt hle)]

/-- the generic loop computes the byte reversal -/
theorem reverseLoop_eq (w a : Nat) (h8 : w % 8 = 0) (ha : a < 2 ^ w) : reverseLoop w a = bytesRev (w / 8) a := by
  apply Nat.eq_of_testBit_eq
  intro j
  have hw : 8 * (w / 8) = w := by omega
  rw [reverseLoop_eq_byteAt, testBit_foldl_or, testBit_bytesRev' _ _ _ (hw.symm ▸ ha), hw]
  simp only [Nat.zero_testBit, Bool.false_or]
  rw [Bool.eq_iff_iff]
  simp only [List.any_eq_true, List.mem_range, testBit_byteAt, Bool.and_eq_true, decide_eq_true_eq]
  constructor
  · rintro ⟨k, hk, ⟨h1, h2⟩, h3⟩
    have hjw : j < w := by omega
    refine ⟨hjw, ?_⟩
    have hk0 : w / 8 - 1 - j / 8 = k := by omega
    have hm : j - (w - 8 - 8 * k) = j % 8 := by omega
    rw [hk0, ← hm]
    exact h3
  · rintro ⟨hjw, h3⟩
    refine ⟨w / 8 - 1 - j / 8, by omega, ⟨by omega, by omega⟩, ?_⟩
    have hm : j - (w - 8 - 8 * (w / 8 - 1 - j / 8)) = j % 8 := by omega
    rw [hm]
    exact h3

theorem reverse16_eq (a : Nat) : reverse16 a = reverseLoop 16 a := by
  have r : List.range (16 / 8) = [0, 1] := by decide
  rw [reverseLoop_eq_byteAt, r]
  simp only [List.foldl, reverse16]
  have c1 : (0xFF00 : Nat) = 0xFF <<< (8 * 1) := by decide
  have c0 : (0xFF : Nat) = 0xFF <<< (8 * 0) := by decide
  rw [c1]
  conv => lhs; arg 1; rw [c0]
  rw [shl_form, shr_form _ _ _ (by omega)]
  simp

theorem reverse32_eq (a : Nat) : reverse32 a = reverseLoop 32 a := by
  have r : List.range (32 / 8) = [0, 1, 2, 3] := by decide
  rw [reverseLoop_eq_byteAt, r]
  simp only [List.foldl, reverse32]
  have c0 : (0xFF : Nat) = 0xFF <<< (8 * 0) := by decide
  have c1 : (0xFF00 : Nat) = 0xFF <<< (8 * 1) := by decide
  have c2 : (0xFF0000 : Nat) = 0xFF <<< (8 * 2) := by decide
  have c3 : (0xFF000000 : Nat) = 0xFF <<< (8 * 3) := by decide
  rw [c1, c2, c3]
  conv => lhs; arg 1; arg 1; arg 1; rw [c0]
  rw [shl_form, shl_form, shr_form _ _ _ (by omega), shr_form _ _ _ (by omega)]
  simp

theorem reverse64_eq (a : Nat) : reverse64 a = reverseLoop 64 a := by
  have r : List.range (64 / 8) = [0, 1, 2, 3, 4, 5, 6, 7] := by decide
  rw [reverseLoop_eq_byteAt, r]
  simp only [List.foldl, reverse64]
  have c0 : (0xFF : Nat) = 0xFF <<< (8 * 0) := by decide
  have c1 : (0xFF00 : Nat) = 0xFF <<< (8 * 1) := by decide
  have c2 : (0xFF0000 : Nat) = 0xFF <<< (8 * 2) := by decide
  have c3 : (0xFF000000 : Nat) = 0xFF <<< (8 * 3) := by decide
  have c4 : (0xFF00000000 : Nat) = 0xFF <<< (8 * 4) := by decide
  have c5 : (0xFF0000000000 : Nat) = 0xFF <<< (8 * 5) := by decide
  have c6 : (0xFF000000000000 : Nat) = 0xFF <<< (8 * 6) := by decide
  have c7 : (0xFF00000000000000 : Nat) = 0xFF <<< (8 * 7) := by decide
  rw [c1, c2, c3, c4, c5, c6, c7]
  conv => lhs; arg 1; arg 1; arg 1; arg 1; arg 1; arg 1; arg 1; rw [c0]
  rw [shl_form, shl_form, shl_form, shl_form, shr_form _ _ _ (by omega), shr_form _ _ _ (by omega), shr_form _ _ _ (by omega),
    shr_form _ _ _ (by omega)]
  simp

/-- **`Reverse` bridge lemma**: whenever the concrete backend returns a value for a `w`-bit constant, it is the byte reversal. -/
theorem reverse_spec (w a r : Nat) (ha : a < 2 ^ w) (h : reverse w a = .ok r) : w % 8 = 0 ∧ r = bytesRev (w / 8) a := by
  unfold reverse at h
  have hb : ∀ w', w' % 8 = 0 → a < 2 ^ w' → mask w' ((bytesRev (w' / 8) a : Nat) : Int) = bytesRev (w' / 8) a := by
    intro w' h8 _
    apply mask_of_lt
    have e : (256 : Nat) ^ (w' / 8) = 2 ^ w' := by
      have : (256 : Nat) = 2 ^ 8 := by decide
      rw [this, ← Nat.pow_mul]; congr 1; omega
    exact e ▸ bytesRev_lt _ _
  split at h
  · rename_i h8
    subst h8
    cases h
    refine ⟨by decide, ?_⟩
    simp only [bytesRev, show (8 / 8 : Nat) = 1 by decide, Nat.pow_zero, Nat.mul_one, Nat.add_zero]
    exact (Nat.mod_eq_of_lt (by simpa using ha)).symm
  · split at h
    · cases h
    · rename_i hne h8
      have h8' : w % 8 = 0 := by omega
      refine ⟨h8', ?_⟩
      split at h
      · rename_i h64; subst h64
        cases h
        rw [reverse64_eq, reverseLoop_eq 64 a (by decide) ha, hb 64 (by decide) ha]
      · split at h
        · rename_i h32; subst h32
          cases h
          rw [reverse32_eq, reverseLoop_eq 32 a (by decide) ha, hb 32 (by decide) ha]
        · split at h
          · rename_i h16; subst h16
            cases h
            rw [reverse16_eq, reverseLoop_eq 16 a (by decide) ha, hb 16 (by decide) ha]
          · cases h
            rw [reverseLoop_eq w a h8' ha, hb w h8' ha]

end Claripy.BV
