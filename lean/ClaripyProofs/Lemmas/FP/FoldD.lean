import ClaripyProofs.Lemmas.FP.Table
/-! For DOUBLE the model of claripy's folding is the specification at round-to-nearest-even. -/
namespace Claripy.FP.Fold
open Claripy.FP

theorem lower_D (d : Nat) : lower D d = d := by
  unfold lower; rw [if_neg (by decide)]

theorem lift_D_notnan (a : Nat) (h : a < 2 ^ 64) (hn : isNaN D a = false) : lift D a = a := by
  unfold lift
  rw [if_neg (by decide), hn]
  simp only [Bool.false_eq_true, if_false]
  exact Nat.mod_eq_of_lt h

theorem lift_D_nan (a : Nat) (hn : isNaN D a = true) : lift D a = D.nanBits := by
  unfold lift; rw [if_neg (by decide), hn]; rfl

theorem isNaN_nanBits_D : isNaN D D.nanBits = true := by decide

/-- the float inside an FPV: the operand itself, or the canonical NaN -/
theorem lift_D_cases (a : Nat) (h : a < 2 ^ 64) :
    (isNaN D a = false ∧ lift D a = a) ∨ (isNaN D a = true ∧ lift D a = D.nanBits) := by
  cases hn : isNaN D a
  · exact Or.inl ⟨rfl, lift_D_notnan a h hn⟩
  · exact Or.inr ⟨rfl, lift_D_nan a hn⟩

theorem add_nan_left (rm : RM) (a b : Nat) (h : isNaN D a = true) : add D rm a b = D.nanBits := by
  unfold add; simp [h]
theorem add_nan_right (rm : RM) (a b : Nat) (h : isNaN D b = true) : add D rm a b = D.nanBits := by
  unfold add; simp [h]

theorem fpAdd_D (rm : RM) (a b : Nat) (ha : a < 2 ^ 64) (hb : b < 2 ^ 64) : fpAdd D rm a b = add D .RNE a b := by
  unfold fpAdd pyAdd; rw [lower_D]
  rcases lift_D_cases a ha with ⟨na, la⟩ | ⟨na, la⟩ <;> rcases lift_D_cases b hb with ⟨nb, lb⟩ | ⟨nb, lb⟩ <;> rw [la, lb]
  · rw [add_nan_right _ _ _ isNaN_nanBits_D, add_nan_right _ _ _ nb]
  · rw [add_nan_left _ _ _ isNaN_nanBits_D, add_nan_left _ _ _ na]
  · rw [add_nan_left _ _ _ isNaN_nanBits_D, add_nan_left _ _ _ na]

theorem neg_nan (a : Nat) (h : isNaN D a = true) : isNaN D (neg D a) = true := by
  unfold neg isNaN magOf at *
  have hm : a % D.signBit < D.signBit := Nat.mod_lt _ (by decide)
  split
  · rw [Nat.mod_eq_of_lt hm]; exact h
  · have : (D.signBit + a % D.signBit) % D.signBit = a % D.signBit := by
      rw [Nat.add_mod_left, Nat.mod_eq_of_lt hm]
    rw [this]; exact h

theorem sub_nan_left (rm : RM) (a b : Nat) (h : isNaN D a = true) : sub D rm a b = D.nanBits := by
  unfold sub; split
  · rfl
  · exact add_nan_left _ _ _ h
theorem sub_nan_right (rm : RM) (a b : Nat) (h : isNaN D b = true) : sub D rm a b = D.nanBits := by
  unfold sub; simp [h]

theorem fpSub_D (rm : RM) (a b : Nat) (ha : a < 2 ^ 64) (hb : b < 2 ^ 64) : fpSub D rm a b = sub D .RNE a b := by
  unfold fpSub pySub; rw [lower_D]
  rcases lift_D_cases a ha with ⟨na, la⟩ | ⟨na, la⟩ <;> rcases lift_D_cases b hb with ⟨nb, lb⟩ | ⟨nb, lb⟩ <;> rw [la, lb]
  · rw [sub_nan_right _ _ _ isNaN_nanBits_D, sub_nan_right _ _ _ nb]
  · rw [sub_nan_left _ _ _ isNaN_nanBits_D, sub_nan_left _ _ _ na]
  · rw [sub_nan_left _ _ _ isNaN_nanBits_D, sub_nan_left _ _ _ na]

theorem mul_nan_left (rm : RM) (a b : Nat) (h : isNaN D a = true) : mul D rm a b = D.nanBits := by
  unfold mul; simp [h]
theorem mul_nan_right (rm : RM) (a b : Nat) (h : isNaN D b = true) : mul D rm a b = D.nanBits := by
  unfold mul; simp [h]

theorem fpMul_D (rm : RM) (a b : Nat) (ha : a < 2 ^ 64) (hb : b < 2 ^ 64) : fpMul D rm a b = mul D .RNE a b := by
  unfold fpMul pyMul; rw [lower_D]
  rcases lift_D_cases a ha with ⟨na, la⟩ | ⟨na, la⟩ <;> rcases lift_D_cases b hb with ⟨nb, lb⟩ | ⟨nb, lb⟩ <;> rw [la, lb]
  · rw [mul_nan_right _ _ _ isNaN_nanBits_D, mul_nan_right _ _ _ nb]
  · rw [mul_nan_left _ _ _ isNaN_nanBits_D, mul_nan_left _ _ _ na]
  · rw [mul_nan_left _ _ _ isNaN_nanBits_D, mul_nan_left _ _ _ na]

theorem div_nan_left (rm : RM) (a b : Nat) (h : isNaN D a = true) : div D rm a b = D.nanBits := by
  unfold div; simp [h]
theorem div_nan_right (rm : RM) (a b : Nat) (h : isNaN D b = true) : div D rm a b = D.nanBits := by
  unfold div; simp [h]

theorem isZero_not_nan (a : Nat) (h : isZero D a = true) : isNaN D a = false := by
  unfold isZero isNaN at *
  simp only [decide_eq_true_eq] at h
  simp [h]
theorem isZero_not_inf (a : Nat) (h : isZero D a = true) : isInf D a = false := by
  unfold isZero isInf at *
  simp only [decide_eq_true_eq] at h
  rw [h]; decide
theorem isInf_not_zero (a : Nat) (h : isInf D a = true) : isZero D a = false := by
  cases hz : isZero D a
  · rfl
  · rw [isZero_not_inf a hz] at h; exact absurd h (by decide)

/-- the `ZeroDivisionError` branch computes what IEEE-754 says for a zero divisor -/
theorem divByZero_spec (rm : RM) (a b : Nat) (hb : isZero D b = true) (ha : isNaN D a = false) :
    divByZero a b = div D rm a b := by
  have hbn := isZero_not_nan b hb
  have hbi := isZero_not_inf b hb
  unfold divByZero div
  simp only [ha, hbn, hbi, hb, Bool.or_false, Bool.false_eq_true, if_false, if_true]
  cases hai : isInf D a
  · cases haz : isZero D a <;> simp
    · cases signOf D a <;> cases signOf D b <;> rfl
  · have haz := isInf_not_zero a hai
    simp [haz]
    cases signOf D a <;> cases signOf D b <;> rfl

theorem fpDiv_D (rm : RM) (a b : Nat) (ha : a < 2 ^ 64) (hb : b < 2 ^ 64) : fpDiv D rm a b = div D .RNE a b := by
  unfold fpDiv pyDiv
  rcases lift_D_cases a ha with ⟨na, la⟩ | ⟨na, la⟩ <;> rcases lift_D_cases b hb with ⟨nb, lb⟩ | ⟨nb, lb⟩ <;> rw [la, lb]
  · cases hz : isZero D b
    · simp [lower_D]
    · simp only [if_true, lower_D]; exact divByZero_spec .RNE a b hz na
  · have : isZero D D.nanBits = false := by decide
    simp only [this, Bool.false_eq_true, if_false, lower_D]
    rw [div_nan_right _ _ _ isNaN_nanBits_D, div_nan_right _ _ _ nb]
  · cases hz : isZero D b
    · simp only [Bool.false_eq_true, if_false, lower_D]
      rw [div_nan_left _ _ _ isNaN_nanBits_D, div_nan_left _ _ _ na]
    · simp only [if_true, lower_D]
      rw [div_nan_left _ _ _ na]
      unfold divByZero; simp [isNaN_nanBits_D]
  · have : isZero D D.nanBits = false := by decide
    simp only [this, Bool.false_eq_true, if_false, lower_D]
    rw [div_nan_left _ _ _ isNaN_nanBits_D, div_nan_left _ _ _ na]

end Claripy.FP.Fold
