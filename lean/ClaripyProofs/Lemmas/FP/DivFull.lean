import ClaripyProofs.Lemmas.FP.DivDR
/-! FLOAT division, every pair of operands (NaN, infinities, zeros of both signs, division by zero, subnormals, overflow, underflow). -/
namespace Claripy.FP.Fold
open Claripy.FP Claripy.FP.Extract

theorem isZero_iff_sval (f : Fmt) (a : Nat) : isZero f a = false ↔ 0 < sval f (magOf f a) := by
  unfold isZero
  constructor
  · intro h
    have hm : magOf f a ≠ 0 := by simpa using h
    apply Nat.pos_of_ne_zero; intro h0
    exact hm (sval_injective f (by rw [h0, sval_zero]))
  · intro h
    have : magOf f a ≠ 0 := by intro h0; rw [h0, sval_zero] at h; omega
    simpa using this

theorem narrow_div_widen (a b : Nat) : narrow (div D .RNE (widen a) (widen b)) = div F .RNE a b := by
  by_cases hna : isNaN F a = true
  · rw [widen_nan a hna, div_nan_left _ _ _ isNaN_nanBits_D, narrow_nan]; unfold div; simp [hna]
  by_cases hnb : isNaN F b = true
  · rw [widen_nan b hnb, div_nan_right _ _ _ isNaN_nanBits_D, narrow_nan]; unfold div; simp [hnb]
  have hna' : isNaN F a = false := by simpa using hna
  have hnb' : isNaN F b = false := by simpa using hnb
  obtain ⟨na, ia, sa, _⟩ := widen_props a hna'
  obtain ⟨nb, ib, sb, _⟩ := widen_props b hnb'
  have za := isZero_widen a hna'
  have zb := isZero_widen b hnb'
  by_cases hspecial : (isInf F a || isInf F b || isZero F b) = true
  · -- decided by the classification of the operands alone
    have hD : div D .RNE (widen a) (widen b) =
        if isInf F a = true then (if isInf F b = true then D.nanBits else mkBits D (signOf F a != signOf F b) D.infMag)
        else if isInf F b = true then mkBits D (signOf F a != signOf F b) 0
        else (if isZero F a = true then D.nanBits else mkBits D (signOf F a != signOf F b) D.infMag) := by
      unfold div
      simp only [na, nb, ia, ib, sa, sb, za, zb, Bool.or_self, Bool.false_eq_true, if_false]
      cases h1 : isInf F a <;> cases h2 : isInf F b <;> cases h3 : isZero F b <;> simp [h1, h2, h3] at hspecial ⊢
    have hF : div F .RNE a b =
        if isInf F a = true then (if isInf F b = true then F.nanBits else mkBits F (signOf F a != signOf F b) F.infMag)
        else if isInf F b = true then mkBits F (signOf F a != signOf F b) 0
        else (if isZero F a = true then F.nanBits else mkBits F (signOf F a != signOf F b) F.infMag) := by
      unfold div
      simp only [hna', hnb', Bool.or_self, Bool.false_eq_true, if_false]
      cases h1 : isInf F a <;> cases h2 : isInf F b <;> cases h3 : isZero F b <;> simp [h1, h2, h3] at hspecial ⊢
    rw [hD, hF]
    split
    · split
      · exact narrow_nan
      · exact narrow_inf _
    · split
      · exact narrow_zero _
      · split
        · exact narrow_nan
        · exact narrow_inf _
  · -- finite operands, non-zero divisor
    have hia : isInf F a = false := by cases h : isInf F a <;> simp [h] at hspecial ⊢
    have hib : isInf F b = false := by cases h : isInf F b <;> simp [h] at hspecial ⊢
    have hzb : isZero F b = false := by cases h : isZero F b <;> simp [h] at hspecial ⊢
    have hfa : magOf F a < F.infMag := by
      unfold isNaN at hna'; unfold isInf at hia; simp at hna' hia; omega
    have hfb : magOf F b < F.infMag := by
      unfold isNaN at hnb'; unfold isInf at hib; simp at hnb' hib; omega
    obtain ⟨g1, hg1f, hg1v, hc1⟩ := cvt_widen_finite .RNE a hfa
    obtain ⟨g2, hg2f, hg2v, hc2⟩ := cvt_widen_finite .RNE b hfb
    have hwa : widen a = mkBits D (signOf F a) g1 := hc1
    have hwb : widen b = mkBits D (signOf F b) g2 := hc2
    have hb0 : 0 < sval F (magOf F b) := (isZero_iff_sval F b).1 hzb
    have hD : div D .RNE (widen a) (widen b) =
        roundS D .RNE (signOf F a != signOf F b) (sval D g1 * 2 ^ 1074) (sval D g2) := by
      unfold div
      simp only [na, nb, ia, ib, sa, sb, za, zb, hia, hib, hzb, Bool.or_self, Bool.false_eq_true, if_false, Dq]
      rw [hwa, hwb, magOf_mkBits _ g1 hg1f, magOf_mkBits _ g2 hg2f]
    have hF : div F .RNE a b =
        roundS F .RNE (signOf F a != signOf F b) (sval F (magOf F a) * 2 ^ 149) (sval F (magOf F b)) := by
      unfold div
      simp only [hna', hnb', hia, hib, hzb, Bool.or_self, Bool.false_eq_true, if_false, Fq]
    rw [hD, hF, hg1v, hg2v]
    have e : sval F (magOf F a) * 2 ^ 925 * 2 ^ 1074 = sval F (magOf F a) * 2 ^ 149 * 2 ^ 925 * 2 ^ 925 := by
      rw [Nat.mul_assoc, Nat.mul_assoc, Nat.mul_assoc, ← Nat.pow_add, ← Nat.pow_add, ← Nat.pow_add]
    rw [e, roundS_scale D .RNE _ _ _ (2 ^ 925) hb0 (Nat.two_pow_pos _)]
    exact narrow_round_quot _ _ hfa hfb hb0 _

/-- the fold of a FLOAT division (Python's `/`, or `_div_by_zero` after the ZeroDivisionError) is the binary64 quotient of the
widened operands packed as binary32 -/
theorem fpDiv_F_narrow (rm : RM) (a b : Nat) : fpDiv F rm a b = narrow (div D .RNE (widen a) (widen b)) := by
  have hl : ∀ x, lift F x = widen x := fun x => by unfold lift; rw [if_pos rfl]
  have hlow : ∀ d, lower F d = narrow d := fun d => by unfold lower; rw [if_pos rfl]
  unfold fpDiv pyDiv; rw [hl, hl]
  cases hz : isZero D (widen b)
  · simp only [Bool.false_eq_true, if_false, hlow]
  · simp only [if_true, hlow]
    cases hn : isNaN D (widen a)
    · rw [divByZero_spec .RNE _ _ hz hn]
    · rw [div_nan_left _ _ _ hn]; unfold divByZero; simp [hn]

/-- … which is the binary32 quotient -/
theorem fpDiv_F (rm : RM) (a b : Nat) : fpDiv F rm a b = div F .RNE a b := by
  rw [fpDiv_F_narrow, narrow_div_widen]

end Claripy.FP.Fold
