import ClaripyProofs.Lemmas.FP.ExtractF
import ClaripyProofs.Lemmas.FP.FoldD2
/-! FLOAT: a binary32 value lives in claripy as a Python float.  Widening is exact (in every mode), so comparisons,
sign operations, classification, `fpToIEEEBV` and the float → integer conversions of a FLOAT are the specification's. -/
namespace Claripy.FP.Fold
open Claripy.FP Claripy.FP.Extract

theorem FinfMag_lt : F.infMag < 2 ^ 31 := by decide

theorem magOf_mkBits_F (s : Bool) (g : Nat) (hg : g ≤ F.infMag) : magOf F (mkBits F s g) = g := by
  have := FinfMag_lt
  unfold magOf mkBits; rw [FsignBit]
  cases s <;> simp <;> omega

theorem signOf_mkBits_F (s : Bool) (g : Nat) (hg : g ≤ F.infMag) : signOf F (mkBits F s g) = s := by
  have := FinfMag_lt
  unfold signOf mkBits; rw [FsignBit]
  have hw : F.width = 32 := by decide
  rw [hw]
  cases s <;> simp <;> omega

/-- the value of a finite binary32 magnitude, in binary64 units, is a finite binary64 magnitude -/
theorem widen_mag (mag : Nat) (hfin : mag < F.infMag) :
    ∃ g, g < D.infMag ∧ sval D g = sval F mag * 2 ^ 925 := by
  obtain ⟨sh, sig, hg, hsh, hsig, hshE, hsigE⟩ := mag_decomp F mag
  rw [Fmbits] at hg hsh hsig hshE
  have hE : mag / 2 ^ 23 ≤ 254 := by
    have : F.infMag = 255 * 2 ^ 23 := by decide
    rw [this] at hfin
    have := (Nat.div_lt_iff_lt_mul (Nat.two_pow_pos 23)).2 hfin
    omega
  have hs : sval F mag = sig * 2 ^ (mag / 2 ^ 23 - 1) := by unfold sval; rw [Fmbits, ← hsigE]
  obtain ⟨g, hgv⟩ := representable_of_dyadic D sig (mag / 2 ^ 23 - 1 + 925) (by rw [Dmbits]; omega)
  refine ⟨g, ?_, by rw [hgv, hs, Nat.mul_assoc, ← Nat.pow_add]⟩
  apply finite_of_lt_pow g 1203 (by decide)
  rw [hgv]
  calc sig * 2 ^ (mag / 2 ^ 23 - 1 + 925) < (2 * 2 ^ 23) * 2 ^ (mag / 2 ^ 23 - 1 + 925) :=
        Nat.mul_lt_mul_of_pos_right hsig (Nat.two_pow_pos _)
    _ = 2 ^ (24 + (mag / 2 ^ 23 - 1 + 925)) := by rw [show (2 * 2 ^ 23 : Nat) = 2 ^ 24 by decide, ← Nat.pow_add]
    _ ≤ 2 ^ 1203 := Nat.pow_le_pow_right (by decide) (by omega)

/-- WIDENING IS EXACT in every rounding mode: a finite binary32 value converts to the binary64 pattern with the same value -/
theorem cvt_widen_finite (rm : RM) (a : Nat) (hfin : magOf F a < F.infMag) :
    ∃ g, g < D.infMag ∧ sval D g = sval F (magOf F a) * 2 ^ 925 ∧ cvt F D rm a = mkBits D (signOf F a) g := by
  obtain ⟨g, hgf, hgv⟩ := widen_mag (magOf F a) hfin
  refine ⟨g, hgf, hgv, ?_⟩
  have hn : isNaN F a = false := by unfold isNaN; simp; omega
  have hi : isInf F a = false := by unfold isInf; simp; omega
  unfold cvt
  simp only [hn, hi, Bool.false_eq_true, if_false, Dq, Fq]
  apply roundS_exact' D wf64 rm _ g _ _ (Nat.two_pow_pos _) hgf
  rw [hgv, Nat.mul_assoc, ← Nat.pow_add]

/-- … hence the rounding mode of a FLOAT → DOUBLE conversion is irrelevant, and the fold (which ignores it) is right in all five -/
theorem cvt_widen_rm_indep (rm : RM) (a : Nat) : cvt F D rm a = cvt F D .RNE a := by
  by_cases hn : isNaN F a = true
  · unfold cvt; simp [hn]
  · by_cases hi : isInf F a = true
    · unfold cvt; simp [hn, hi]
    · have hfin : magOf F a < F.infMag := by
        unfold isNaN at hn; unfold isInf at hi; simp at hn hi; omega
      obtain ⟨g1, _, hv1, h1⟩ := cvt_widen_finite rm a hfin
      obtain ⟨g2, _, hv2, h2⟩ := cvt_widen_finite .RNE a hfin
      have : g1 = g2 := sval_injective D (by rw [hv1, hv2])
      rw [h1, h2, this]

theorem fpToFP_widen (rm : RM) (a : Nat) : fpToFP_fp F D rm a = cvt F D rm a := by
  unfold fpToFP_fp lift widen
  rw [lower_D, if_pos rfl, cvt_widen_rm_indep rm a]

/-- round trip: widening then packing as binary32 gives the pattern back (`fpToIEEEBV` of a FLOAT) -/
theorem narrow_widen (a : Nat) (ha : a < 2 ^ 32) (hn : isNaN F a = false) : narrow (widen a) = a := by
  have hdec := bits_decomp_F a ha
  by_cases hi : isInf F a = true
  · unfold widen cvt; simp only [hn, hi, Bool.false_eq_true, if_false, if_true]
    unfold isInf at hi; simp only [decide_eq_true_eq] at hi
    rw [hi] at hdec
    conv => rhs; rw [hdec]
    cases signOf F a <;> decide +kernel
  · have hfin : magOf F a < F.infMag := by
      unfold isNaN at hn; unfold isInf at hi; simp at hn hi; omega
    obtain ⟨g, hgf, hgv, hc⟩ := cvt_widen_finite .RNE a hfin
    unfold widen; rw [hc, narrow_exact (signOf F a) g (magOf F a) hgf hfin hgv]
    exact hdec.symm

end Claripy.FP.Fold

namespace Claripy.FP.Fold
open Claripy.FP Claripy.FP.Extract

theorem compare_mul_pos (x y k : Int) (hk : 0 < k) : compare (x * k) (y * k) = compare x y := by
  rcases Int.lt_trichotomy x y with h | h | h
  · rw [Int.compare_eq_lt.2 h, Int.compare_eq_lt.2 (Int.mul_lt_mul_of_pos_right h hk)]
  · rw [h, Int.compare_eq_eq.2 rfl, Int.compare_eq_eq.2 rfl]
  · rw [Int.compare_eq_gt.2 h, Int.compare_eq_gt.2 (Int.mul_lt_mul_of_pos_right h hk)]

/-- what the Python float of a non-NaN FLOAT looks like -/
theorem widen_props (a : Nat) (hn : isNaN F a = false) :
    isNaN D (widen a) = false ∧ isInf D (widen a) = isInf F a ∧ signOf D (widen a) = signOf F a ∧
    (isInf F a = false → sintOf D (widen a) = sintOf F a * 2 ^ 925) := by
  by_cases hi : isInf F a = true
  · have hw : widen a = mkBits D (signOf F a) D.infMag := by unfold widen cvt; simp [hn, hi]
    rw [hw, hi]
    refine ⟨?_, ?_, ?_, fun h => absurd h (by simp)⟩ <;> cases signOf F a <;> decide +kernel
  · have hi' : isInf F a = false := by simpa using hi
    have hfin : magOf F a < F.infMag := by
      unfold isNaN at hn; unfold isInf at hi'; simp at hn hi'; omega
    obtain ⟨g, hgf, hgv, hc⟩ := cvt_widen_finite .RNE a hfin
    have hw : widen a = mkBits D (signOf F a) g := hc
    rw [hw, hi']
    refine ⟨notNaN_mkBits _ g hgf, notInf_mkBits _ g hgf, signOf_mkBits _ g hgf, fun _ => ?_⟩
    unfold sintOf
    rw [signOf_mkBits _ g hgf, magOf_mkBits _ g hgf, hgv]
    cases signOf F a <;> simp [Int.neg_mul]

theorem widen_nan (a : Nat) (hn : isNaN F a = true) : widen a = D.nanBits := by
  unfold widen cvt; simp [hn]

theorem cmp_widen (a b : Nat) (ha : isNaN F a = false) (hb : isNaN F b = false) :
    cmp D (widen a) (widen b) = cmp F a b := by
  obtain ⟨_, ia, sa, va⟩ := widen_props a ha
  obtain ⟨_, ib, sb, vb⟩ := widen_props b hb
  unfold cmp
  rw [ia, ib, sa, sb]
  cases hia : isInf F a <;> cases hib : isInf F b <;> simp only [Bool.false_eq_true, if_false, if_true]
  rw [va hia, vb hib]
  exact compare_mul_pos _ _ _ (Int.pow_pos (by decide))

theorem unordered_widen (a b : Nat) : unordered D (lift F a) (lift F b) = unordered F a b := by
  have hl : ∀ x, lift F x = widen x := fun x => by unfold lift; rw [if_pos rfl]
  rw [hl, hl]
  unfold unordered
  have h : ∀ x, isNaN D (widen x) = isNaN F x := by
    intro x
    cases hx : isNaN F x
    · exact (widen_props x hx).1
    · rw [widen_nan x hx]; decide
  rw [h a, h b]

/-- comparisons and classification of FLOATs: fold = specification, every operand -/
theorem cmp_F (a b : Nat) :
    fpEQ F a b = feq F a b ∧ fpNEQ F a b = fneq F a b ∧ fpLT F a b = flt F a b ∧ fpLEQ F a b = fleq F a b ∧
    fpGT F a b = fgt F a b ∧ fpGEQ F a b = fgeq F a b ∧ fpIsNaN F a = isNaN F a ∧ fpIsInf F a = isInf F a := by
  have hl : ∀ x, lift F x = widen x := fun x => by unfold lift; rw [if_pos rfl]
  have hu := unordered_widen a b
  have hu' := unordered_widen b a
  have hnan : isNaN D (widen a) = isNaN F a := by
    cases hx : isNaN F a
    · exact (widen_props a hx).1
    · rw [widen_nan a hx]; decide
  have hinf : isInf D (widen a) = isInf F a := by
    cases hx : isNaN F a
    · exact (widen_props a hx).2.1
    · rw [widen_nan a hx]
      have : isInf D D.nanBits = false := by decide
      rw [this]; unfold isNaN at hx; unfold isInf; simp at hx ⊢; omega
  unfold fpEQ fpNEQ fpLT fpLEQ fpGT fpGEQ fpIsNaN fpIsInf feq fneq flt fleq fgt fgeq feq flt fleq
  rw [hu, hu']
  refine ⟨?_, ?_, ?_, ?_, ?_, ?_, by rw [hl, hnan], by rw [hl, hinf]⟩ <;>
  · cases hua : unordered F a b
    · have hna : isNaN F a = false := by unfold unordered at hua; simp at hua; exact hua.1
      have hnb : isNaN F b = false := by unfold unordered at hua; simp at hua; exact hua.2
      have hub : unordered F b a = false := by unfold unordered; simp [hna, hnb]
      simp only [hub, hl, cmp_widen a b hna hnb, cmp_widen b a hnb hna]
    · have hub : unordered F b a = true := by unfold unordered at hua ⊢; simp at hua ⊢; exact hua.symm
      simp [hub]

end Claripy.FP.Fold

namespace Claripy.FP.Fold
open Claripy.FP Claripy.FP.Extract

theorem neg_mkBits_D (s : Bool) (g : Nat) (hg : g < D.infMag) : neg D (mkBits D s g) = mkBits D (!s) g := by
  unfold neg
  rw [signOf_mkBits s g hg, magOf_mkBits s g hg]
  cases s <;> simp [mkBits]

theorem neg_eq_mkBits_F (a : Nat) : neg F a = mkBits F (!signOf F a) (magOf F a) := by
  unfold neg mkBits; cases signOf F a <;> simp

/-- sign operations on a FLOAT: fold = specification (NaN excepted: payload) -/
theorem fpNeg_F (a : Nat) (hn : isNaN F a = false) : fpNeg F a = neg F a := by
  have hl : lift F a = widen a := by unfold lift; rw [if_pos rfl]
  have hlow : ∀ d, lower F d = narrow d := fun d => by unfold lower; rw [if_pos rfl]
  unfold fpNeg; rw [hl, hlow, neg_eq_mkBits_F]
  by_cases hi : isInf F a = true
  · have hw : widen a = mkBits D (signOf F a) D.infMag := by unfold widen cvt; simp [hn, hi]
    unfold isInf at hi; simp only [decide_eq_true_eq] at hi
    rw [hw, hi]
    cases signOf F a <;> decide +kernel
  · have hfin : magOf F a < F.infMag := by
      unfold isNaN at hn; unfold isInf at hi; simp at hn hi; omega
    obtain ⟨g, hgf, hgv, hc⟩ := cvt_widen_finite .RNE a hfin
    have hw : widen a = mkBits D (signOf F a) g := hc
    rw [hw, neg_mkBits_D _ g hgf, narrow_exact _ g (magOf F a) hgf hfin hgv]

theorem abs_eq_mkBits_F (a : Nat) : abs F a = mkBits F false (magOf F a) := by
  unfold abs mkBits; simp

theorem abs_mkBits_D (s : Bool) (g : Nat) (hg : g < D.infMag) : abs D (mkBits D s g) = mkBits D false g := by
  unfold abs; rw [magOf_mkBits s g hg]; simp [mkBits]

theorem fpAbs_F (a : Nat) (hn : isNaN F a = false) : fpAbs F a = abs F a := by
  have hl : lift F a = widen a := by unfold lift; rw [if_pos rfl]
  have hlow : ∀ d, lower F d = narrow d := fun d => by unfold lower; rw [if_pos rfl]
  unfold fpAbs; rw [hl, hlow, abs_eq_mkBits_F]
  by_cases hi : isInf F a = true
  · have hw : widen a = mkBits D (signOf F a) D.infMag := by unfold widen cvt; simp [hn, hi]
    unfold isInf at hi; simp only [decide_eq_true_eq] at hi
    rw [hw, hi]
    cases signOf F a <;> decide +kernel
  · have hfin : magOf F a < F.infMag := by
      unfold isNaN at hn; unfold isInf at hi; simp at hn hi; omega
    obtain ⟨g, hgf, hgv, hc⟩ := cvt_widen_finite .RNE a hfin
    have hw : widen a = mkBits D (signOf F a) g := hc
    rw [hw, abs_mkBits_D _ g hgf, narrow_exact _ g (magOf F a) hgf hfin hgv]

/-- `fpToIEEEBV`: the bit pattern comes back (both sorts) -/
theorem fpToIEEEBV_ok (a : Nat) :
    (a < 2 ^ 64 → isNaN D a = false → fpToIEEEBV D a = a) ∧ (a < 2 ^ 32 → isNaN F a = false → fpToIEEEBV F a = a) := by
  constructor
  · intro ha hn; unfold fpToIEEEBV; rw [lower_D, lift_D_notnan a ha hn]
  · intro ha hn
    unfold fpToIEEEBV lift lower; rw [if_pos rfl, if_pos rfl]; exact narrow_widen a ha hn

/-- rounding decisions do not depend on the unit in which the discarded part is measured -/
theorem roundUp_scale (rm : RM) (neg odd : Bool) (rem dd k : Nat) (hk : 0 < k) :
    roundUp rm neg odd (rem * k) (dd * k) = roundUp rm neg odd rem dd := by
  unfold roundUp
  have h0 : (rem * k = 0) ↔ (rem = 0) := by
    constructor
    · intro h; rcases Nat.mul_eq_zero.1 h with h | h <;> omega
    · intro h; rw [h, Nat.zero_mul]
  have e1 : (2 * (rem * k) > dd * k) ↔ (2 * rem > dd) := by
    rw [← Nat.mul_assoc]; exact Nat.mul_lt_mul_right hk
  have e2 : (2 * (rem * k) = dd * k) ↔ (2 * rem = dd) := by
    rw [← Nat.mul_assoc]; exact Nat.mul_right_cancel_iff hk
  have e3 : (2 * (rem * k) ≥ dd * k) ↔ (2 * rem ≥ dd) := by
    rw [← Nat.mul_assoc]; exact Nat.mul_le_mul_right_iff hk
  by_cases hr : rem = 0
  · simp [hr]
  · have hr' : ¬ rem * k = 0 := fun h => hr (h0.1 h)
    simp only [hr, hr', if_false]
    cases rm <;> simp only [e1, e2, e3]

/-- float → integer of a FLOAT: rounding the widened Python float is rounding the binary32 value -/
theorem toIntegral_widen (rm : RM) (a : Nat) (hfin : magOf F a < F.infMag) :
    toIntegral D rm (widen a) = toIntegral F rm a := by
  obtain ⟨g, hgf, hgv, hc⟩ := cvt_widen_finite .RNE a hfin
  have hw : widen a = mkBits D (signOf F a) g := hc
  unfold toIntegral toIntegralMag
  rw [hw, signOf_mkBits _ g hgf, magOf_mkBits _ g hgf, hgv, Dq, Fq]
  have hp : (2 : Nat) ^ 1074 = 2 ^ 149 * 2 ^ 925 := by rw [← Nat.pow_add]
  have hk : 0 < 2 ^ 925 := Nat.two_pow_pos _
  rw [hp]
  dsimp only
  rw [Nat.mul_div_mul_right _ _ hk, Nat.mul_mod_mul_right, roundUp_scale _ _ _ _ _ _ hk]

end Claripy.FP.Fold

namespace Claripy.FP.Fold
open Claripy.FP Claripy.FP.Extract

theorem isFinite_widen (a : Nat) (hfin : magOf F a < F.infMag) : isFinite D (widen a) = true := by
  obtain ⟨g, hgf, _, hc⟩ := cvt_widen_finite .RNE a hfin
  have hw : widen a = mkBits D (signOf F a) g := hc
  unfold isFinite; rw [hw, magOf_mkBits _ g hgf]; simpa using hgf

/-- `fpToSBV` / `fpToUBV` of a FLOAT, all five modes: the SMT-LIB value wherever it is specified -/
theorem fpToBV_F (rm : RM) (a w v : Nat) (htab : Claripy.Gen.rmToDecimal = smtlibDecimal) :
    (toSBV F rm a w = some v → fpToBV F rm a w = v) ∧ (toUBV F rm a w = some v → fpToBV F rm a w = v) := by
  have hl : lift F a = widen a := by unfold lift; rw [if_pos rfl]
  constructor
  · intro h
    unfold toSBV at h
    cases hf : isFinite F a
    · simp [hf] at h
    · have hfin : magOf F a < F.infMag := by unfold isFinite at hf; simpa using hf
      simp only [hf, Bool.not_true, Bool.false_eq_true, if_false] at h
      split at h
      · unfold fpToBV; dsimp only
        rw [hl, isFinite_widen a hfin, htab, decToIntegral_smtlib, toIntegral_widen rm a hfin]
        simp only [Bool.not_true, Bool.false_eq_true, if_false]
        injection h
      · exact absurd h (by simp)
  · intro h
    unfold toUBV at h
    cases hf : isFinite F a
    · simp [hf] at h
    · have hfin : magOf F a < F.infMag := by unfold isFinite at hf; simpa using hf
      simp only [hf, Bool.not_true, Bool.false_eq_true, if_false] at h
      split at h
      · rename_i hr
        unfold fpToBV; dsimp only
        rw [hl, isFinite_widen a hfin, htab, decToIntegral_smtlib, toIntegral_widen rm a hfin]
        simp only [Bool.not_true, Bool.false_eq_true, if_false]
        injection h with h
        rw [← h]
        have h0 := hr.1
        have h1 := hr.2
        have hlt : toIntegral F rm a < 2 ^ w := by omega
        rw [Int.emod_eq_of_lt h0 hlt]
      · exact absurd h (by simp)

end Claripy.FP.Fold
