import ClaripyProofs.Lemmas.FP.AddF
import ClaripyProofs.Lemmas.FP.Mono
/-!
# Rounding to binary64 and then to binary32 (both to nearest even)

`double_round`: let `x = sc/den` (in binary32 units `2^-149`) be below the binary32 overflow threshold, `lo` the binary32 floor of `x`
and `y` the binary64 rounding of `x`.  If `y` is the midpoint of `lo` and its successor ONLY WHEN `x` itself is that midpoint,
then rounding `y` to binary32 gives the binary32 rounding of `x`.  The proof needs nothing about the first rounding except that
it is monotone and the identity on binary64 values (`Mono.lean`), and that binary32 values and the midpoints of adjacent binary32
values are binary64 values.
-/
namespace Claripy.FP.Fold
open Claripy.FP Claripy.FP.Extract

theorem sval_mono (f : Fmt) {a b : Nat} (h : a ≤ b) : sval f a ≤ sval f b := by
  by_cases he : a = b
  · rw [he]; exact Nat.le_refl _
  · exact Nat.le_of_lt (sval_strictMono f (by omega))

theorem sval_le_iff (f : Fmt) {a b : Nat} : sval f a ≤ sval f b ↔ a ≤ b := by
  constructor
  · intro h; apply Classical.byContradiction; intro hc
    have := sval_strictMono f (show b < a by omega); omega
  · exact sval_mono f

theorem sval_infMag_F : sval F F.infMag = 2 ^ 277 := by rw [sval_infMag F wf32]; rfl

/-- decomposition of a binary32 magnitude (infinity included): value `m * 2^sh`, successor `(m+1) * 2^sh` -/
theorem F_mag_form (g : Nat) (hg : g ≤ F.infMag) :
    ∃ sh m, sval F g = m * 2 ^ sh ∧ sval F (g + 1) = (m + 1) * 2 ^ sh ∧ m < 2 ^ 24 ∧ sh ≤ 254 := by
  obtain ⟨sh, m, hgd, hsh, hm, hshE, _⟩ := mag_decomp F g
  rw [Fmbits] at hgd hsh hm hshE
  have hE : g / 2 ^ 23 ≤ 255 := by
    have : F.infMag = 255 * 2 ^ 23 := by decide
    rw [this] at hg
    have : g < 256 * 2 ^ 23 := by omega
    have := (Nat.div_lt_iff_lt_mul (Nat.two_pow_pos 23)).2 this
    omega
  have h1 := sval_encode F sh m (by rw [Fmbits]; exact hsh) (by rw [Fmbits]; omega)
  have h2 := sval_encode F sh (m + 1) (by rw [Fmbits]; rcases hsh with h | h; exact Or.inl h; exact Or.inr (by omega))
    (by rw [Fmbits]; omega)
  rw [Fmbits] at h1 h2
  refine ⟨sh, m, by rw [hgd, h1], by rw [hgd, Nat.add_assoc, h2], by
    rw [show (2 : Nat) ^ 24 = 2 * 2 ^ 23 by decide]; exact hm, by omega⟩

/-- every binary32 value up to infinity is a finite binary64 value -/
theorem F_val_repr (g : Nat) (hg : g ≤ F.infMag) : ∃ gD, gD < D.infMag ∧ sval D gD = sval F g * 2 ^ 925 := by
  obtain ⟨sh, m, hv, _, hm, hsh⟩ := F_mag_form g hg
  obtain ⟨gD, hgD⟩ := representable_of_dyadic D m (sh + 925) (by rw [Dmbits]; omega)
  refine ⟨gD, ?_, by rw [hgD, hv, Nat.mul_assoc, ← Nat.pow_add]⟩
  apply finite_of_lt_pow gD 1203 (by decide)
  rw [hgD]
  calc m * 2 ^ (sh + 925) < 2 ^ 24 * 2 ^ (sh + 925) := Nat.mul_lt_mul_of_pos_right hm (Nat.two_pow_pos _)
    _ = 2 ^ (24 + (sh + 925)) := by rw [← Nat.pow_add]
    _ ≤ 2 ^ 1203 := Nat.pow_le_pow_right (by decide) (by omega)

/-- the midpoint of two adjacent binary32 values is a finite binary64 value -/
theorem F_mid_repr (g : Nat) (hg : g ≤ F.infMag) :
    ∃ gD, gD < D.infMag ∧ 2 * sval D gD = (sval F g + sval F (g + 1)) * 2 ^ 925 := by
  obtain ⟨sh, m, hv, hv1, hm, hsh⟩ := F_mag_form g hg
  obtain ⟨gD, hgD⟩ := representable_of_dyadic D (2 * m + 1) (sh + 924) (by rw [Dmbits]; omega)
  refine ⟨gD, ?_, ?_⟩
  · apply finite_of_lt_pow gD 1203 (by decide)
    rw [hgD]
    calc (2 * m + 1) * 2 ^ (sh + 924) < 2 ^ 25 * 2 ^ (sh + 924) := Nat.mul_lt_mul_of_pos_right (by omega) (Nat.two_pow_pos _)
      _ = 2 ^ (25 + (sh + 924)) := by rw [← Nat.pow_add]
      _ ≤ 2 ^ 1203 := Nat.pow_le_pow_right (by decide) (by omega)
  · rw [hgD, hv, hv1]
    have e : (2 : Nat) ^ 925 = 2 * 2 ^ 924 := by rw [show (925 : Nat) = 924 + 1 by rfl, Nat.pow_succ, Nat.mul_comm]
    rw [Nat.pow_add, e]
    generalize 2 ^ sh = X; generalize 2 ^ 924 = Y
    rw [← Nat.add_mul, show m + (m + 1) = 2 * m + 1 by omega]
    simp only [Nat.mul_assoc, Nat.mul_comm, Nat.mul_left_comm]

/-- a value below the binary32 overflow threshold is far below the binary64 one -/
theorem D_inRange_of_F (sc den : Nat) (hR : sc < sval F F.infMag * den) :
    sc * 2 ^ 925 < sval D D.infMag * den := by
  rw [sval_infMag_F] at hR; rw [sval_infMag_D]
  calc sc * 2 ^ 925 < 2 ^ 277 * den * 2 ^ 925 := Nat.mul_lt_mul_of_pos_right hR (Nat.two_pow_pos _)
    _ = 2 ^ 1202 * den := by
        rw [Nat.mul_assoc, Nat.mul_comm den, ← Nat.mul_assoc, ← Nat.pow_add]
    _ ≤ 2 ^ 2098 * den := Nat.mul_le_mul_right _ (Nat.pow_le_pow_right (by decide) (by decide))

/-- DOUBLE ROUNDING: if the binary64 rounding `y` of `x = sc/den` is a binary32 midpoint only when `x` is that midpoint,
the binary32 rounding of `y` is the binary32 rounding of `x` (round to nearest even, twice) -/
theorem double_round (neg neg' : Bool) (sc den : Nat) (hden : 0 < den) (hR : sc < sval F F.infMag * den)
    (H : 2 * sval D (roundScaled D .RNE neg' (sc * 2 ^ 925) den) =
           (sval F (floorMag F sc den) + sval F (floorMag F sc den + 1)) * 2 ^ 925 →
         2 * sc = (sval F (floorMag F sc den) + sval F (floorMag F sc den + 1)) * den) :
    roundScaled F .RNE neg (sval D (roundScaled D .RNE neg' (sc * 2 ^ 925) den)) (2 ^ 925) =
      roundScaled F .RNE neg sc den := by
  have hu : 0 < 2 ^ 925 := Nat.two_pow_pos _
  have hIn := (inRange_iff F wf32 sc den hden).2 hR
  have hRD := D_inRange_of_F sc den hR
  have hlof := floorMag_finite F sc den hden hR
  obtain ⟨fl1, fl2⟩ := floor_law F sc den hden
  generalize hlo : floorMag F sc den = lo at *
  generalize hy : roundScaled D .RNE neg' (sc * 2 ^ 925) den = y at *
  obtain ⟨gl, _, hgl⟩ := F_val_repr lo (by omega)
  obtain ⟨gh, _, hgh⟩ := F_val_repr (lo + 1) (by omega)
  obtain ⟨gm, hgmf, hgm⟩ := F_mid_repr lo (by omega)
  have hlt : sval F lo < sval F (lo + 1) := sval_succ_lt F lo
  have hhi_le : sval F (lo + 1) ≤ sval F F.infMag := sval_mono F (by omega)
  generalize hvlo : sval F lo = vlo at *
  generalize hvhi : sval F (lo + 1) = vhi at *
  -- the binary64 rounding stays between the two binary32 neighbours
  have hyl : vlo * 2 ^ 925 ≤ sval D y := by
    rw [← hgl]; apply sval_mono; rw [← hy]
    apply round_ge_of_le D wf64 .RNE neg' _ den gl hden hRD
    rw [hgl, Nat.mul_right_comm]; exact Nat.mul_le_mul_right _ fl1
  have hyh : sval D y ≤ vhi * 2 ^ 925 := by
    rw [← hgh]; apply sval_mono; rw [← hy]
    apply round_le_of_ge D wf64 .RNE neg' _ den gh hden hRD
    rw [hgh, Nat.mul_right_comm]; exact Nat.mul_le_mul_right _ (Nat.le_of_lt fl2)
  have hmid_eq : 2 * (sval D gm * den) = (vlo + vhi) * den * 2 ^ 925 := by
    rw [← Nat.mul_assoc, hgm, Nat.mul_right_comm]
  generalize hv : sval D y = v at *
  -- the binary32 rounding of x
  rw [round_rne F wf32 neg sc den hden hIn]; dsimp only; rw [hlo, hvlo, hvhi]
  -- the floor of v is lo whenever v is below the upper neighbour
  have hfloor : v < vhi * 2 ^ 925 → floorMag F v (2 ^ 925) = lo := fun h =>
    floor_unique F v (2 ^ 925) lo hu (by rw [hvlo]; exact hyl) (by rw [hvhi]; exact h)
  have hInv : v < vhi * 2 ^ 925 → InRange F v (2 ^ 925) := fun h =>
    (inRange_iff F wf32 v _ hu).2 (Nat.lt_of_lt_of_le h (Nat.mul_le_mul_right _ hhi_le))
  by_cases hc1 : 2 * sc < (vlo + vhi) * den
  · -- below the midpoint
    rw [if_pos hc1]
    have h1 : y ≤ gm := by
      rw [← hy]; apply round_le_of_ge D wf64 .RNE neg' _ den gm hden hRD
      have : 2 * (sc * 2 ^ 925) < (vlo + vhi) * den * 2 ^ 925 := by
        rw [← Nat.mul_assoc]; exact Nat.mul_lt_mul_of_pos_right hc1 hu
      omega
    have h2 : v ≤ sval D gm := by rw [← hv]; exact sval_mono D h1
    have h3 : 2 * v ≠ (vlo + vhi) * 2 ^ 925 := fun h => by have := H h; omega
    have h4 : 2 * v < (vlo + vhi) * 2 ^ 925 := by omega
    have h5 : v < vhi * 2 ^ 925 := by
      have : (vlo + vhi) * 2 ^ 925 < (vhi + vhi) * 2 ^ 925 := Nat.mul_lt_mul_of_pos_right (by omega) hu
      rw [Nat.add_mul] at this; omega
    rw [round_rne F wf32 neg v _ hu (hInv h5)]; dsimp only
    rw [hfloor h5, hvlo, hvhi, if_pos h4]
  · rw [if_neg hc1]
    by_cases hc2 : 2 * sc > (vlo + vhi) * den
    · -- above the midpoint
      rw [if_pos hc2]
      have h1 : gm ≤ y := by
        rw [← hy]; apply round_ge_of_le D wf64 .RNE neg' _ den gm hden hRD
        have : (vlo + vhi) * den * 2 ^ 925 < 2 * (sc * 2 ^ 925) := by
          rw [← Nat.mul_assoc]; exact Nat.mul_lt_mul_of_pos_right hc2 hu
        omega
      have h2 : sval D gm ≤ v := by rw [← hv]; exact sval_mono D h1
      have h3 : 2 * v ≠ (vlo + vhi) * 2 ^ 925 := fun h => by have := H h; omega
      have h4 : 2 * v > (vlo + vhi) * 2 ^ 925 := by omega
      by_cases h5 : v < vhi * 2 ^ 925
      · rw [round_rne F wf32 neg v _ hu (hInv h5)]; dsimp only
        rw [hfloor h5, hvlo, hvhi, if_neg (by omega), if_pos h4]
      · have h6 : v = vhi * 2 ^ 925 := by omega
        by_cases hinf : lo + 1 < F.infMag
        · exact round_exact' F wf32 .RNE neg (lo + 1) v _ hu hinf (by rw [hvhi]; exact h6)
        · have hlo1 : lo + 1 = F.infMag := by omega
          rw [roundScaled_overflow F .RNE neg v _ (fun hI => by
            have := (inRange_iff F wf32 v _ hu).1 hI
            rw [← hlo1, hvhi] at this; omega)]
          rw [hlo1]; rfl
    · -- exactly the midpoint: the binary64 rounding is exact and the tie is broken in binary32
      rw [if_neg hc2]
      have hc3 : 2 * sc = (vlo + vhi) * den := by omega
      have h1 : y = gm := by
        rw [← hy]; apply round_exact' D wf64 .RNE neg' gm _ den hden hgmf
        have : 2 * (sc * 2 ^ 925) = (vlo + vhi) * den * 2 ^ 925 := by rw [← Nat.mul_assoc, hc3]
        omega
      have h4 : 2 * v = (vlo + vhi) * 2 ^ 925 := by rw [← hv, h1, hgm]
      have h5 : v < vhi * 2 ^ 925 := by
        have : (vlo + vhi) * 2 ^ 925 < (vhi + vhi) * 2 ^ 925 := Nat.mul_lt_mul_of_pos_right (by omega) hu
        rw [Nat.add_mul] at this; omega
      rw [round_rne F wf32 neg v _ hu (hInv h5)]; dsimp only
      rw [hfloor h5, hvlo, hvhi, if_neg (by omega), if_neg (by omega)]

end Claripy.FP.Fold
