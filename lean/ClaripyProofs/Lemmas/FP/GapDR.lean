import ClaripyProofs.Lemmas.FP.NarrowRound
/-!
# No false tie from a relative gap

If the exact value `x = sc/den` is not the midpoint `mid` of its two binary32 neighbours (quantum `2^sh`), and its distance from `mid`
is at least `2^(sh-28)` — `2^-28` binary32 ulp —, then the binary64 values `mid ± 2^(sh-28)` (`(2m+1) * 2^27 ± 1` is a 52-bit
significand) separate the binary64 rounding of `x` from `mid`.
-/
namespace Claripy.FP.Fold
open Claripy.FP Claripy.FP.Extract

theorem no_false_tie_of_gap (sc den : Nat) (hden : 0 < den) (hR : sc < sval F F.infMag * den)
    (hgap : ∀ sh m Δ, m < 2 ^ 24 → sh ≤ 254 → 0 < Δ → sc < (m + 1) * (den * 2 ^ sh) →
      (2 * sc + Δ = (2 * m + 1) * (den * 2 ^ sh) ∨ 2 * sc = (2 * m + 1) * (den * 2 ^ sh) + Δ) →
      den * 2 ^ sh ≤ Δ * 2 ^ 27) : NoFalseTie sc den := by
  intro h
  have hRD := D_inRange_of_F sc den hR
  have hlof := floorMag_finite F sc den hden hR
  have hfl2 := (floor_law F sc den hden).2
  generalize floorMag F sc den = lo at *
  obtain ⟨sh, m, hv, hv1, hm, hsh⟩ := F_mag_form lo (by omega)
  rw [hv1, Nat.mul_assoc, Nat.mul_comm (2 ^ sh) den] at hfl2
  rw [hv, hv1] at h ⊢
  have hsum : m * 2 ^ sh + (m + 1) * 2 ^ sh = (2 * m + 1) * 2 ^ sh := by
    rw [← Nat.add_mul]; congr 1; omega
  rw [hsum] at h ⊢
  have hgap' := fun Δ h1 h2 h3 => hgap sh m Δ h1 h2 h3 hfl2
  generalize hM : 2 * m + 1 = M at *
  have hM1 : 1 ≤ M := by omega
  have hM25 : M < 2 ^ 25 := by omega
  -- units: 2^sh * 2^925 = 2^28 * Z with Z = 2^(sh+897)
  have hZ : 2 ^ sh * 2 ^ 925 = 2 ^ 28 * 2 ^ (sh + 897) := by
    calc 2 ^ sh * 2 ^ 925 = 2 ^ (sh + 925) := (Nat.pow_add 2 sh 925).symm
      _ = 2 ^ (28 + (sh + 897)) := by rw [show sh + 925 = 28 + (sh + 897) by omega]
      _ = 2 ^ 28 * 2 ^ (sh + 897) := Nat.pow_add 2 28 (sh + 897)
  have hZpos : 0 < 2 ^ (sh + 897) := Nat.two_pow_pos _
  have hY : 2 ^ (sh + 897) = 2 ^ sh * 2 ^ 897 := Nat.pow_add _ _ _
  have hu : (2 : Nat) ^ 925 = 2 ^ 28 * 2 ^ 897 := by rw [← Nat.pow_add]
  rw [Nat.mul_assoc, hZ] at h
  generalize hy : roundScaled D .RNE false (sc * 2 ^ 925) den = y at *
  have hdd : M * 2 ^ sh * den = M * (den * 2 ^ sh) := by rw [Nat.mul_assoc, Nat.mul_comm (2 ^ sh) den]
  rw [hdd]
  apply Classical.byContradiction; intro hne
  by_cases hgt : M * (den * 2 ^ sh) < 2 * sc
  · -- x above the midpoint by at least 2^(sh-28): the binary64 value mid + 2^(sh-28) is ≤ x
    obtain ⟨Δ, hΔ⟩ : ∃ Δ, 2 * sc = M * (den * 2 ^ sh) + Δ := ⟨2 * sc - M * (den * 2 ^ sh), by omega⟩
    have hg := hgap' Δ hm hsh (by omega) (Or.inr hΔ)
    obtain ⟨gP, hgP⟩ := representable_of_dyadic D (M * 2 ^ 27 + 1) (sh + 897) (by rw [Dmbits]; omega)
    have hle : gP ≤ y := by
      rw [← hy]; apply round_ge_of_le D wf64 .RNE false _ den gP hden hRD
      rw [hgP, hY, hu]
      generalize 2 ^ 897 = Y at *
      generalize hdd' : den * 2 ^ sh = dd at *
      have e1 : (M * 2 ^ 27 + 1) * (2 ^ sh * Y) * den = (2 ^ 27 * (M * dd) + dd) * Y := by
        rw [← hdd']; grind
      have e2 : sc * (2 ^ 28 * Y) = (2 ^ 28 * sc) * Y := by grind
      rw [e1, e2]
      exact Nat.mul_le_mul_right _ (by omega)
    have := sval_mono D hle
    rw [hgP] at this
    generalize 2 ^ (sh + 897) = Z at *
    have e3 : (M * 2 ^ 27 + 1) * Z = 2 ^ 27 * (M * Z) + Z := by grind
    have e4 : M * (2 ^ 28 * Z) = 2 ^ 28 * (M * Z) := by grind
    rw [e3] at this; rw [e4] at h
    omega
  · -- x below the midpoint
    obtain ⟨Δ, hΔ⟩ : ∃ Δ, 2 * sc + Δ = M * (den * 2 ^ sh) := ⟨M * (den * 2 ^ sh) - 2 * sc, by omega⟩
    have hg := hgap' Δ hm hsh (by omega) (Or.inl hΔ)
    obtain ⟨gP, hgP⟩ := representable_of_dyadic D (M * 2 ^ 27 - 1) (sh + 897) (by rw [Dmbits]; omega)
    have hle : y ≤ gP := by
      rw [← hy]; apply round_le_of_ge D wf64 .RNE false _ den gP hden hRD
      rw [hgP, hY, hu]
      generalize 2 ^ 897 = Y at *
      generalize hdd' : den * 2 ^ sh = dd at *
      have hMdd : dd ≤ M * dd := Nat.le_mul_of_pos_left _ hM1
      have e1 : (M * 2 ^ 27 - 1) * (2 ^ sh * Y) * den = (2 ^ 27 * (M * dd) - dd) * Y := by
        have a1 : M * 2 ^ 27 * (2 ^ sh * Y) * den = 2 ^ 27 * (M * (den * 2 ^ sh)) * Y := by grind
        have a2 : 1 * (2 ^ sh * Y) * den = den * 2 ^ sh * Y := by grind
        rw [← hdd', Nat.sub_mul, Nat.sub_mul, Nat.sub_mul, a1, a2]
      have e2 : sc * (2 ^ 28 * Y) = (2 ^ 28 * sc) * Y := by grind
      rw [e1, e2]
      exact Nat.mul_le_mul_right _ (by omega)
    have := sval_mono D hle
    rw [hgP] at this
    generalize 2 ^ (sh + 897) = Z at *
    have hMZ : Z ≤ M * Z := Nat.le_mul_of_pos_left _ hM1
    have e3 : (M * 2 ^ 27 - 1) * Z = 2 ^ 27 * (M * Z) - Z := by
      have a3 : M * 2 ^ 27 * Z = 2 ^ 27 * (M * Z) := by grind
      rw [Nat.sub_mul, Nat.one_mul, a3]
    have e4 : M * (2 ^ 28 * Z) = 2 ^ 28 * (M * Z) := by grind
    rw [e3] at this; rw [e4] at h
    omega

end Claripy.FP.Fold
