import Claripy.FP.Extract
import ClaripyProofs.Lemmas.Str.Numeral
/-! `_abstract_fp_encoded_val` reassembles the bit pattern. -/
namespace Claripy.FP.Extract
open Claripy.FP

theorem or_eq_add (res size x : Nat) (hx : x < 2 ^ size) : (res <<< size) ||| x = res * 2 ^ size + x :=
  Claripy.Str.Numeral.concat_step res size x hx

theorem encoded_eq (f : Fmt) (hsb : 0 < f.sb) (b : Nat) (hn : isNaN f b = false) :
    abstractFpEncodedVal f b = b % 2 ^ f.width := by
  have hw : f.width - 1 = f.eb + f.mbits := by unfold Fmt.width Fmt.mbits; omega
  have hw' : f.width = (f.eb + f.mbits) + 1 := by unfold Fmt.width Fmt.mbits; omega
  unfold abstractFpEncodedVal
  simp only [hn, Bool.false_eq_true, if_false]
  have hmag : magOf f b < 2 ^ (f.eb + f.mbits) := by
    unfold magOf Fmt.signBit; rw [hw]; exact Nat.mod_lt _ (Nat.two_pow_pos _)
  have hlow : magOf f b % 2 ^ f.mbits < 2 ^ f.mbits := Nat.mod_lt _ (Nat.two_pow_pos _)
  rw [Nat.or_assoc, or_eq_add _ _ _ hlow, Nat.div_add_mod' (magOf f b) (2 ^ f.mbits), or_eq_add _ _ _ hmag]
  unfold signOf magOf Fmt.signBit
  rw [hw]
  have hp : 2 ^ f.width = 2 * 2 ^ (f.eb + f.mbits) := by rw [hw', Nat.pow_succ, Nat.mul_comm]
  rw [hp]
  generalize 2 ^ (f.eb + f.mbits) = P at *
  have hP : 0 < P := by omega
  have hmm : b % (2 * P) % P = b % P := by rw [Nat.mul_comm]; exact Nat.mod_mul_right_mod b P 2
  have hr := Nat.mod_lt b (by omega : 0 < 2 * P)
  by_cases hs : b % (2 * P) ≥ P
  · simp only [hs, decide_true, if_true]
    have : b % P = b % (2 * P) - P := by
      rw [← hmm, Nat.mod_eq_sub_mod hs, Nat.mod_eq_of_lt (by omega)]
    omega
  · simp only [hs, decide_false, Bool.false_eq_true, if_false]
    have : b % P = b % (2 * P) := by
      rw [← hmm, Nat.mod_eq_of_lt (by omega)]
    omega

end Claripy.FP.Extract
