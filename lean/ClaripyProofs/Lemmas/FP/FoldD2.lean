import ClaripyProofs.Lemmas.FP.FoldD
/-! sqrt, sign operations and comparisons for DOUBLE. -/
namespace Claripy.FP.Fold
open Claripy.FP

def zeroD : Nat := mkBits D false 0

theorem zeroD_eq : zeroD = 0 := by decide

theorem sintOf_zero : sintOf D 0 = 0 := by decide

theorem flt_zero_imp (a : Nat) (h : flt D a zeroD = true) : isZero D a = false ∧ signOf D a = true := by
  rw [zeroD_eq] at h
  unfold flt at h
  simp only [Bool.and_eq_true, Bool.not_eq_true', beq_iff_eq] at h
  obtain ⟨_, hc⟩ := h
  unfold cmp at hc
  have hi0 : isInf D 0 = false := by decide
  rw [hi0] at hc
  by_cases hai : isInf D a = true
  · simp only [hai, if_true, Bool.false_eq_true, if_false] at hc
    refine ⟨isInf_not_zero a hai, ?_⟩
    cases hs : signOf D a
    · rw [hs] at hc; simp at hc
    · rfl
  · simp only [hai, Bool.false_eq_true, if_false] at hc
    rw [sintOf_zero, Int.compare_eq_lt] at hc
    have hneg : sintOf D a < 0 := hc
    unfold sintOf at hneg
    cases hs : signOf D a
    · rw [hs] at hneg; simp at hneg; omega
    · refine ⟨?_, rfl⟩
      rw [hs] at hneg
      simp only [if_true] at hneg
      cases hz : isZero D a
      · rfl
      · unfold isZero at hz
        simp only [decide_eq_true_eq] at hz
        rw [hz] at hneg
        revert hneg; decide

theorem sqrt_nan (rm : RM) (a : Nat) (h : isNaN D a = true) : sqrt D rm a = D.nanBits := by
  unfold sqrt; simp [h]

theorem fpSqrt_D (rm : RM) (a : Nat) (ha : a < 2 ^ 64) : fpSqrt D rm a = sqrt D .RNE a := by
  unfold fpSqrt pySqrt
  simp only [lower_D]
  rcases lift_D_cases a ha with ⟨na, la⟩ | ⟨na, la⟩ <;> rw [la]
  · cases hf : flt D a (mkBits D false 0)
    · simp
    · simp only [if_true]
      have ⟨hz, hs⟩ := flt_zero_imp a hf
      unfold sqrt; simp [na, hz, hs]
  · have : flt D D.nanBits (mkBits D false 0) = false := by decide
    rw [this]; simp only [Bool.false_eq_true, if_false]
    rw [sqrt_nan _ _ isNaN_nanBits_D, sqrt_nan _ _ na]

/-- negation and absolute value act on the sign bit only (NaN stays NaN; its payload is unspecified) -/
theorem fpNeg_D (a : Nat) (ha : a < 2 ^ 64) (hn : isNaN D a = false) : fpNeg D a = neg D a := by
  unfold fpNeg; rw [lower_D, lift_D_notnan a ha hn]
theorem fpAbs_D (a : Nat) (ha : a < 2 ^ 64) (hn : isNaN D a = false) : fpAbs D a = abs D a := by
  unfold fpAbs; rw [lower_D, lift_D_notnan a ha hn]

theorem unordered_nan_left (a b : Nat) (h : isNaN D a = true) : unordered D a b = true := by
  unfold unordered; simp [h]
theorem unordered_nan_right (a b : Nat) (h : isNaN D b = true) : unordered D a b = true := by
  unfold unordered; simp [h]

/-- every comparison and classification predicate of a folded DOUBLE is the specification's -/
theorem cmp_D (a b : Nat) (ha : a < 2 ^ 64) (hb : b < 2 ^ 64) :
    fpEQ D a b = feq D a b ∧ fpNEQ D a b = fneq D a b ∧ fpLT D a b = flt D a b ∧ fpLEQ D a b = fleq D a b ∧
    fpGT D a b = fgt D a b ∧ fpGEQ D a b = fgeq D a b := by
  unfold fpEQ fpNEQ fpLT fpLEQ fpGT fpGEQ
  rcases lift_D_cases a ha with ⟨na, la⟩ | ⟨na, la⟩ <;> rcases lift_D_cases b hb with ⟨nb, lb⟩ | ⟨nb, lb⟩ <;> rw [la, lb]
  · simp
  · have h1 := unordered_nan_right a D.nanBits isNaN_nanBits_D
    have h2 := unordered_nan_right a b nb
    have h3 := unordered_nan_left D.nanBits a isNaN_nanBits_D
    have h4 := unordered_nan_left b a nb
    simp [feq, fneq, flt, fleq, fgt, fgeq, h1, h2, h3, h4]
  · have h1 := unordered_nan_left D.nanBits b isNaN_nanBits_D
    have h2 := unordered_nan_left a b na
    have h3 := unordered_nan_right b D.nanBits isNaN_nanBits_D
    have h4 := unordered_nan_right b a na
    simp [feq, fneq, flt, fleq, fgt, fgeq, h1, h2, h3, h4]
  · have h1 := unordered_nan_left D.nanBits D.nanBits isNaN_nanBits_D
    have h2 := unordered_nan_left a b na
    have h4 := unordered_nan_right b a na
    simp [feq, fneq, flt, fleq, fgt, fgeq, h1, h2, h4]

theorem class_D (a : Nat) (ha : a < 2 ^ 64) : fpIsNaN D a = isNaN D a ∧ fpIsInf D a = isInf D a := by
  unfold fpIsNaN fpIsInf
  rcases lift_D_cases a ha with ⟨na, la⟩ | ⟨na, la⟩ <;> rw [la]
  · simp
  · refine ⟨by rw [isNaN_nanBits_D, na], ?_⟩
    have : isInf D D.nanBits = false := by decide
    rw [this]
    unfold isNaN at na; unfold isInf
    simp only [decide_eq_true_eq] at na
    simp; omega

/-- `fpToSBV`/`fpToUBV` of a DOUBLE: wherever SMT-LIB specifies the value, the fold computes it — for whatever table the
translator generated, as long as it is the SMT-LIB one -/
theorem fpToBV_sbv_D (rm : RM) (a w v : Nat) (ha : a < 2 ^ 64) (htab : Claripy.Gen.rmToDecimal = smtlibDecimal)
    (h : toSBV D rm a w = some v) : fpToBV D rm a w = v := by
  unfold toSBV at h
  cases hfin : isFinite D a
  · simp [hfin] at h
  · have hn : isNaN D a = false := by
      unfold isFinite at hfin; unfold isNaN
      simp only [decide_eq_true_eq] at hfin; simp; omega
    simp only [hfin, Bool.not_true, Bool.false_eq_true, if_false] at h
    split at h
    · unfold fpToBV
      dsimp only
      rw [lift_D_notnan a ha hn, hfin, htab, decToIntegral_smtlib]
      simp only [Bool.not_true, Bool.false_eq_true, if_false]
      injection h
    · exact absurd h (by simp)

theorem fpToBV_ubv_D (rm : RM) (a w v : Nat) (ha : a < 2 ^ 64) (htab : Claripy.Gen.rmToDecimal = smtlibDecimal)
    (h : toUBV D rm a w = some v) : fpToBV D rm a w = v := by
  unfold toUBV at h
  cases hfin : isFinite D a
  · simp [hfin] at h
  · have hn : isNaN D a = false := by
      unfold isFinite at hfin; unfold isNaN
      simp only [decide_eq_true_eq] at hfin; simp; omega
    simp only [hfin, Bool.not_true, Bool.false_eq_true, if_false] at h
    split at h
    · rename_i hr
      unfold fpToBV
      dsimp only
      rw [lift_D_notnan a ha hn, hfin, htab, decToIntegral_smtlib]
      simp only [Bool.not_true, Bool.false_eq_true, if_false]
      injection h with h
      rw [← h]
      have h0 := hr.1
      have h1 := hr.2
      have hlt : toIntegral D rm a < 2 ^ w := by omega
      rw [Int.emod_eq_of_lt h0 hlt]
    · exact absurd h (by simp)

end Claripy.FP.Fold
