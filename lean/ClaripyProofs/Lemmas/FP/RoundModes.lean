import ClaripyProofs.Lemmas.FP.Round
/-! The five rounding modes of `roundScaled`, stated against the value of the input; exactness on representable inputs. -/
namespace Claripy.FP

theorem roundUp_rem0 (rm : RM) (neg odd : Bool) (dd : Nat) : roundUp rm neg odd 0 dd = false := by
  unfold roundUp; simp

/-- the result is the floor or its successor -/
theorem round_floor_or_succ (f : Fmt) (rm : RM) (neg : Bool) (sc den : Nat) (hR : InRange f sc den) :
    roundScaled f rm neg sc den = floorMag f sc den ∨ roundScaled f rm neg sc den = floorMag f sc den + 1 := by
  rw [roundScaled_inRange f rm neg sc den hR]
  unfold floorMag; dsimp only
  split
  · right; omega
  · left; rfl

/-- RTZ: toward zero = the floor of the magnitude -/
theorem round_rtz (f : Fmt) (neg : Bool) (sc den : Nat) (hR : InRange f sc den) :
    roundScaled f .RTZ neg sc den = floorMag f sc den := by
  rw [roundScaled_inRange f .RTZ neg sc den hR]
  unfold floorMag roundUp; dsimp only
  split <;> simp

/-- directed rounding away from zero (RTP of a positive, RTN of a negative value): exact values stay, others go up -/
theorem round_away (f : Fmt) (rm : RM) (neg : Bool) (sc den : Nat) (hden : 0 < den) (hR : InRange f sc den)
    (hrm : (rm = .RTP ∧ neg = false) ∨ (rm = .RTN ∧ neg = true)) :
    roundScaled f rm neg sc den =
      if sc = sval f (floorMag f sc den) * den then floorMag f sc den else floorMag f sc den + 1 := by
  have hex := exact_iff f sc den hden
  rw [roundScaled_inRange f rm neg sc den hR]
  by_cases h0 : (scaled f sc den).rem = 0
  · rw [if_pos (hex.1 h0)]
    unfold floorMag roundUp; simp [h0]
  · rw [if_neg (fun h => h0 (hex.2 h))]
    unfold floorMag roundUp
    rcases hrm with ⟨h1, h2⟩ | ⟨h1, h2⟩ <;> subst h1 <;> subst h2 <;> simp [h0] <;> omega

/-- directed rounding toward zero (RTP of a negative, RTN of a positive value) = the floor of the magnitude -/
theorem round_toward (f : Fmt) (rm : RM) (neg : Bool) (sc den : Nat) (hR : InRange f sc den)
    (hrm : (rm = .RTP ∧ neg = true) ∨ (rm = .RTN ∧ neg = false)) :
    roundScaled f rm neg sc den = floorMag f sc den := by
  rw [roundScaled_inRange f rm neg sc den hR]
  unfold floorMag roundUp
  rcases hrm with ⟨h1, h2⟩ | ⟨h1, h2⟩ <;> subst h1 <;> subst h2 <;> simp

/-- RNA: nearest, ties away from zero -/
theorem round_rna (f : Fmt) (neg : Bool) (sc den : Nat) (hden : 0 < den) (hR : InRange f sc den) :
    roundScaled f .RNA neg sc den =
      if 2 * sc < (sval f (floorMag f sc den) + sval f (floorMag f sc den + 1)) * den then floorMag f sc den
      else floorMag f sc den + 1 := by
  have hmid := (mid_iff f sc den hden).1
  have ⟨_, h2, _, _⟩ := scaled_props f sc den hden
  rw [roundScaled_inRange f .RNA neg sc den hR]
  by_cases hlt : 2 * (scaled f sc den).rem < den * 2 ^ (scaled f sc den).sh
  · rw [if_pos (hmid.1 hlt)]
    have : ¬ (den * 2 ^ (scaled f sc den).sh ≤ 2 * (scaled f sc den).rem) := by omega
    unfold floorMag roundUp
    by_cases h0 : (scaled f sc den).rem = 0 <;> simp [h0, this]
  · rw [if_neg (fun h => hlt (hmid.2 h))]
    have : den * 2 ^ (scaled f sc den).sh ≤ 2 * (scaled f sc den).rem := by omega
    have h0 : (scaled f sc den).rem ≠ 0 := by
      intro h; rw [h] at this
      have := Nat.mul_pos hden (Nat.two_pow_pos (scaled f sc den).sh); omega
    unfold floorMag roundUp
    simp [h0, this]; omega

/-- RNE: nearest, ties to the even magnitude (= even significand) -/
theorem round_rne (f : Fmt) (wf : WF f) (neg : Bool) (sc den : Nat) (hden : 0 < den) (hR : InRange f sc den) :
    roundScaled f .RNE neg sc den =
      let lo := floorMag f sc den
      let mid := (sval f lo + sval f (lo + 1)) * den
      if 2 * sc < mid then lo else if 2 * sc > mid then lo + 1 else if lo % 2 = 0 then lo else lo + 1 := by
  have ⟨hlt, heq⟩ := mid_iff f sc den hden
  have ⟨_, h2, _, _⟩ := scaled_props f sc den hden
  have hpar := floorMag_parity f wf sc den
  dsimp only at hlt heq h2 ⊢
  have hddpos := Nat.mul_pos hden (Nat.two_pow_pos (scaled f sc den).sh)
  rw [roundScaled_inRange f .RNE neg sc den hR, hpar]
  by_cases h1 : 2 * (scaled f sc den).rem < den * 2 ^ (scaled f sc den).sh
  · rw [if_pos (hlt.1 h1)]
    have h3 : ¬ (den * 2 ^ (scaled f sc den).sh < 2 * (scaled f sc den).rem) := by omega
    have h4 : ¬ (2 * (scaled f sc den).rem = den * 2 ^ (scaled f sc den).sh) := by omega
    unfold floorMag roundUp
    by_cases h0 : (scaled f sc den).rem = 0 <;> simp [h0, h3, h4]
  · rw [if_neg (fun h => h1 (hlt.2 h))]
    have h0 : (scaled f sc den).rem ≠ 0 := by intro h; rw [h] at h1; omega
    by_cases h2' : 2 * (scaled f sc den).rem = den * 2 ^ (scaled f sc den).sh
    · have hm := heq.1 h2'
      rw [if_neg (by omega)]
      have h3 : ¬ (den * 2 ^ (scaled f sc den).sh < 2 * (scaled f sc den).rem) := by omega
      unfold floorMag roundUp
      by_cases hp : (scaled f sc den).m % 2 = 0
      · have : ¬ ((scaled f sc den).m % 2 = 1) := by omega
        simp [h0, h3, h2', hp]
      · have : (scaled f sc den).m % 2 = 1 := by omega
        simp [h0, h3, h2', this]; omega
    · have h3 : den * 2 ^ (scaled f sc den).sh < 2 * (scaled f sc den).rem := by omega
      have hg : 2 * sc > (sval f (floorMag f sc den) + sval f (floorMag f sc den + 1)) * den := by
        have a := hlt; have b := heq
        by_cases hc : 2 * sc < (sval f (floorMag f sc den) + sval f (floorMag f sc den + 1)) * den
        · exact absurd (hlt.2 hc) h1
        · by_cases hd : 2 * sc = (sval f (floorMag f sc den) + sval f (floorMag f sc den + 1)) * den
          · exact absurd (heq.2 hd) h2'
          · omega
      rw [if_pos hg]
      unfold floorMag roundUp
      simp [h0, h3]; omega

/-- uniqueness of the floor -/
theorem floor_unique (f : Fmt) (sc den g : Nat) (hden : 0 < den)
    (h1 : sval f g * den ≤ sc) (h2 : sc < sval f (g + 1) * den) : floorMag f sc den = g := by
  have ⟨f1, f2⟩ := floor_law f sc den hden
  by_cases hlt : g < floorMag f sc den
  · have : sval f (g + 1) ≤ sval f (floorMag f sc den) := by
      by_cases he : g + 1 = floorMag f sc den
      · rw [he]; exact Nat.le_refl _
      · exact Nat.le_of_lt (sval_strictMono f (by omega))
    have := Nat.mul_le_mul_right den this
    omega
  · by_cases hgt : floorMag f sc den < g
    · have : sval f (floorMag f sc den + 1) ≤ sval f g := by
        by_cases he : floorMag f sc den + 1 = g
        · rw [he]; exact Nat.le_refl _
        · exact Nat.le_of_lt (sval_strictMono f (by omega))
      have := Nat.mul_le_mul_right den this
      omega
    · omega

theorem two_bias (f : Fmt) (wf : WF f) : 2 * f.bias + 2 = 2 ^ f.eb := by
  unfold Fmt.bias
  have h := wf.eb2
  have e : f.eb = (f.eb - 1) + 1 := by omega
  have hp : 0 < 2 ^ (f.eb - 1) := Nat.two_pow_pos _
  rw [e, Nat.pow_succ]; simp; omega

theorem sval_infMag (f : Fmt) (wf : WF f) : sval f f.infMag = 2 ^ (f.lgMax + 1) := by
  have hb := two_bias f wf
  have hP := pow_mbits_pos f
  have h4 : 4 ≤ 2 ^ f.eb := by
    calc 4 = 2 ^ 2 := rfl
      _ ≤ 2 ^ f.eb := Nat.pow_le_pow_right (by decide) wf.eb2
  have hpos : 1 ≤ 2 * f.bias := by omega
  have h2 : 2 ^ f.eb - 1 = (2 * f.bias - 1) + 2 := by omega
  have := sval_encode f (2 * f.bias - 1) (2 * 2 ^ f.mbits) (Or.inr (by omega)) (Nat.le_refl _)
  have e : f.infMag = (2 * f.bias - 1) * 2 ^ f.mbits + 2 * 2 ^ f.mbits := by
    unfold Fmt.infMag; rw [h2, Nat.add_mul]
  rw [e, this]
  unfold Fmt.lgMax
  have : 2 * f.bias + f.mbits - 1 + 1 = (f.mbits + 1) + (2 * f.bias - 1) := by omega
  rw [this, Nat.pow_add, Nat.pow_succ, Nat.mul_comm (2 ^ f.mbits) 2]

/-- finite magnitudes are in range -/
theorem inRange_of_finite (f : Fmt) (wf : WF f) (g den : Nat) (hden : 0 < den) (hg : g < f.infMag) :
    InRange f (sval f g * den) den := by
  unfold InRange
  rw [Nat.mul_div_cancel _ hden]
  have hinf := sval_infMag f wf
  have hlt : sval f g < 2 ^ (f.lgMax + 1) := by rw [← hinf]; exact sval_strictMono f hg
  have hm : f.mbits ≤ f.lgMax := by
    unfold Fmt.lgMax; have := two_bias f wf; have := wf.eb2
    have : 4 ≤ 2 ^ f.eb := by
      calc 4 = 2 ^ 2 := rfl
        _ ≤ 2 ^ f.eb := Nat.pow_le_pow_right (by decide) wf.eb2
    omega
  by_cases h0 : sval f g = 0
  · rw [h0]; simp [Nat.log2_zero]; exact hm
  · have := (Nat.log2_lt h0).2 hlt
    omega

/-- EXACTNESS: a representable input is returned unchanged, in every rounding mode -/
theorem round_exact (f : Fmt) (wf : WF f) (rm : RM) (neg : Bool) (g den : Nat) (hden : 0 < den) (hg : g < f.infMag) :
    roundScaled f rm neg (sval f g * den) den = g := by
  have hR := inRange_of_finite f wf g den hden hg
  have hfl : floorMag f (sval f g * den) den = g :=
    floor_unique f _ den g hden (Nat.le_refl _) (Nat.mul_lt_mul_of_pos_right (sval_succ_lt f g) hden)
  have hrem : (scaled f (sval f g * den) den).rem = 0 := (exact_iff f _ den hden).2 (by rw [hfl])
  rw [roundScaled_inRange f rm neg _ den hR]
  dsimp only
  rw [hrem, roundUp_rem0]
  simp only [Bool.false_eq_true, if_false]
  exact hfl

end Claripy.FP

namespace Claripy.FP

theorem mbits_le_lgMax (f : Fmt) (wf : WF f) : f.mbits ≤ f.lgMax := by
  unfold Fmt.lgMax; have := two_bias f wf
  have : 4 ≤ 2 ^ f.eb := by
    calc 4 = 2 ^ 2 := rfl
      _ ≤ 2 ^ f.eb := Nat.pow_le_pow_right (by decide) wf.eb2
  omega

/-- OVERFLOW is exactly "the value reaches `2^(emax+1)`" (the value of `infMag`) -/
theorem inRange_iff (f : Fmt) (wf : WF f) (sc den : Nat) (hden : 0 < den) :
    InRange f sc den ↔ sc < sval f f.infMag * den := by
  rw [sval_infMag f wf]
  unfold InRange
  have hm := mbits_le_lgMax f wf
  have hx := Nat.div_add_mod sc den
  have hmod := Nat.mod_lt sc hden
  constructor
  · intro h
    have h1 : (sc / den).log2 ≤ f.lgMax := by omega
    have h2 : sc / den < 2 ^ (f.lgMax + 1) :=
      Nat.lt_of_lt_of_le (log2_lt_pow _) (Nat.pow_le_pow_right (by decide) (by omega))
    have h3 : sc / den + 1 ≤ 2 ^ (f.lgMax + 1) := h2
    have h4 := Nat.mul_le_mul_right den h3
    rw [Nat.add_mul, Nat.one_mul, Nat.mul_comm (sc / den) den] at h4
    omega
  · intro h
    have h2 : sc / den < 2 ^ (f.lgMax + 1) := (Nat.div_lt_iff_lt_mul hden).2 h
    by_cases h0 : sc / den = 0
    · rw [h0]; simp [Nat.log2_zero]; exact hm
    · have := (Nat.log2_lt h0).2 h2
      omega

end Claripy.FP
