import ClaripyProofs.Lemmas.FP.FoldF
/-! Integer → DOUBLE: `float(int)` never overflows for integers below 2^1023, so the fold is the specification under RNE. -/
namespace Claripy.FP.Fold
open Claripy.FP Claripy.FP.Extract

/-- rounding an integer below 2^1023 to binary64 stays finite (in every mode) -/
theorem roundRat_int_finite (rm : RM) (neg : Bool) (n : Nat) (hn : n < 2 ^ 1023) :
    isInf D (roundRat D rm neg n 1) = false := by
  unfold roundRat roundS
  rw [Dq]
  by_cases h0 : n * 2 ^ 1074 = 0
  · rw [if_pos h0]; cases neg <;> decide +kernel
  · rw [if_neg h0]
    obtain ⟨g0, hg0⟩ := representable_of_dyadic D 1 2097 (by rw [Dmbits]; decide)
    rw [Nat.one_mul] at hg0
    have hg0f : g0 < D.infMag := finite_of_lt_pow g0 2098 (by decide) (by rw [hg0]; exact Nat.pow_lt_pow_right (by decide) (by decide))
    have hsc : n * 2 ^ 1074 < sval D g0 * 1 := by
      rw [hg0, Nat.mul_one, show (2097 : Nat) = 1023 + 1074 by rfl, Nat.pow_add]
      exact Nat.mul_lt_mul_of_pos_right hn (Nat.two_pow_pos _)
    have hR : InRange D (n * 2 ^ 1074) 1 := by
      rw [inRange_iff D wf64 _ 1 (by decide)]
      exact Nat.lt_trans hsc (Nat.mul_lt_mul_of_pos_right (sval_strictMono D hg0f) (by decide))
    have hfl := (floor_law D (n * 2 ^ 1074) 1 (by decide)).1
    have hlt : floorMag D (n * 2 ^ 1074) 1 < g0 := by
      apply Classical.byContradiction; intro hc
      have : sval D g0 ≤ sval D (floorMag D (n * 2 ^ 1074) 1) := by
        by_cases he : g0 = floorMag D (n * 2 ^ 1074) 1
        · rw [← he]; exact Nat.le_refl _
        · exact Nat.le_of_lt (sval_strictMono D (by omega))
      omega
    have hres : roundScaled D rm neg (n * 2 ^ 1074) 1 < D.infMag := by
      rcases round_floor_or_succ D rm neg _ 1 hR with h | h <;> rw [h] <;> omega
    exact notInf_mkBits neg _ hres

theorem pyFloatOfInt_some (neg : Bool) (n : Nat) (hn : n < 2 ^ 1023) :
    pyFloatOfInt neg n = some (roundRat D .RNE neg n 1) := by
  unfold pyFloatOfInt; dsimp only; rw [roundRat_int_finite .RNE neg n hn]; rfl

/-- `float(n)` of an unsigned / signed integer of at most 1023 bits is the specification's `to_fp_unsigned` / `to_fp` under
RNE and never raises OverflowError (`fpToFPUnsigned` / `fpToFP` of a DOUBLE wrap exactly this value in an FPV) -/
theorem int_to_double_rne (w v : Nat) (hw : w ≤ 1023) :
    pyFloatOfInt false (v % 2 ^ w) = some (ofUBV D .RNE w v) ∧
    (if v % 2 ^ w ≥ 2 ^ (w - 1) then pyFloatOfInt true (2 ^ w - v % 2 ^ w) else pyFloatOfInt false (v % 2 ^ w))
      = some (ofSBV D .RNE w v) := by
  have hp : 2 ^ w ≤ 2 ^ 1023 := Nat.pow_le_pow_right (by decide) hw
  have hv : v % 2 ^ w < 2 ^ w := Nat.mod_lt _ (Nat.two_pow_pos _)
  constructor
  · unfold ofUBV
    exact pyFloatOfInt_some false _ (Nat.lt_of_lt_of_le hv hp)
  · unfold ofSBV; dsimp only
    by_cases h : v % 2 ^ w ≥ 2 ^ (w - 1)
    · have hpos : 0 < v % 2 ^ w := Nat.lt_of_lt_of_le (Nat.two_pow_pos _) h
      have hlt : 2 ^ w - v % 2 ^ w < 2 ^ 1023 :=
        Nat.lt_of_lt_of_le (Nat.sub_lt (Nat.two_pow_pos w) hpos) hp
      rw [if_pos h, if_pos h]; exact pyFloatOfInt_some true _ hlt
    · rw [if_neg h, if_neg h]; exact pyFloatOfInt_some false _ (Nat.lt_of_lt_of_le hv hp)

end Claripy.FP.Fold
