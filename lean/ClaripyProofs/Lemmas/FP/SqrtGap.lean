/-!
# The square root of a 24-bit number is not within `2^-28` ulp of a 25-bit midpoint (pure arithmetic)

`n = pv * 2^T` (`pv < 2^24`), `r = isqrt n`, `s` the sticky bit, `sc = 2r + s` the proxy of `2 * sqrt n`.  A midpoint is `A = M * L`
(`M = 2m+1 < 2^25`, `L = 2^ℓ`), compared in the form `2 * sc` against `4 * A`; `x` lies below the upper neighbour
(`sc < (m+1) * 4L`).  If `2 * sc ≠ 4 * A` then `|2 * sc - 4 * A| * 2^27 ≥ 4 * L`.
Reason: `E = |A² - n| ≠ 0` is divisible by `2^min(T, 2ℓ)`, and `|sqrt n - A| ≈ E / 2A`.
-/
namespace Claripy.FP

theorem sqrt_gap_bound_lo (pv T l M E n A L : Nat) (hpv : pv < 2 ^ 24) (hn : n = pv * 2 ^ T)
    (hL : L = 2 ^ l) (hA : A = M * L) (hE : 0 < E) (h : n + E = A * A ∨ n = A * A + E) :
    (2 ^ (2 * l) ≤ E ∧ 2 * l ≤ T) ∨ (2 ^ T ≤ E ∧ n < 2 ^ 24 * E) := by
  have hAA : A * A = M * M * 2 ^ (2 * l) := by rw [hA, hL, Nat.two_mul, Nat.pow_add]; grind
  have hdvd : ∀ c, 2 ^ c ∣ n → 2 ^ c ∣ A * A → 2 ^ c ≤ E := by
    intro c d1 d2
    apply Nat.le_of_dvd hE
    rcases h with h | h
    · exact (Nat.dvd_add_right d1).1 (h ▸ d2)
    · exact (Nat.dvd_add_right d2).1 (h ▸ d1)
  by_cases hc : 2 * l ≤ T
  · left
    refine ⟨hdvd _ ?_ ?_, hc⟩
    · rw [hn]; exact Nat.dvd_mul_left_of_dvd (Nat.pow_dvd_pow 2 hc) pv
    · rw [hAA]; exact Nat.dvd_mul_left _ _
  · right
    have h1 : 2 ^ T ≤ E := by
      apply hdvd
      · rw [hn]; exact Nat.dvd_mul_left _ _
      · rw [hAA]; exact Nat.dvd_mul_left_of_dvd (Nat.pow_dvd_pow 2 (by omega)) _
    refine ⟨h1, ?_⟩
    rw [hn]
    calc pv * 2 ^ T < 2 ^ 24 * 2 ^ T := Nat.mul_lt_mul_of_pos_right hpv (Nat.two_pow_pos _)
      _ ≤ 2 ^ 24 * E := Nat.mul_le_mul_left _ h1

theorem sq_lo (r d : Nat) : (r + d) * (r + d) ≤ r * r + 2 * (r + d) * d :=
  Nat.le.intro (show (r + d) * (r + d) + d * d = r * r + 2 * (r + d) * d by grind)

theorem sq_hi (A d : Nat) : (A + d) * (A + d) = A * A + 2 * A * d + d * d := by grind

theorem sqrt_gap (pv T l m Δ n r s : Nat) (hpv : pv < 2 ^ 24) (hn : n = pv * 2 ^ T) (hr1 : r * r ≤ n)
    (hr2 : n < (r + 1) * (r + 1)) (hs1 : s ≤ 1) (hs0 : s = 0 ↔ r * r = n) (hm : m < 2 ^ 24) (hΔ : 0 < Δ)
    (hfl : 2 * r + s < (m + 1) * (4 * 2 ^ l))
    (h : 2 * (2 * r + s) + Δ = (2 * m + 1) * (4 * 2 ^ l) ∨ 2 * (2 * r + s) = (2 * m + 1) * (4 * 2 ^ l) + Δ) :
    4 * 2 ^ l ≤ Δ * 2 ^ 27 := by
  generalize hL : 2 ^ l = L at *
  have hLpos : 0 < L := by rw [← hL]; exact Nat.two_pow_pos _
  have hQ : 2 ^ (2 * l) = L * L := by rw [← hL, Nat.two_mul, Nat.pow_add]
  generalize hM : 2 * m + 1 = M at *
  have hM25 : M < 2 ^ 25 := by omega
  have hM1 : 1 ≤ M := by omega
  generalize hA : M * L = A at *
  have hApos : 0 < A := by rw [← hA]; exact Nat.mul_pos hM1 hLpos
  have e1 : M * (4 * L) = 4 * A := by rw [← hA]; grind
  have e2 : (m + 1) * (4 * L) = 2 * A + 2 * L := by rw [← hA, ← hM]; grind
  rw [e1] at h; rw [e2] at hfl
  have hAA : A * A = M * M * (L * L) := by rw [← hA]; grind
  have hMQ : M * (L * L) ≤ A * A := by
    rw [hAA]; exact Nat.mul_le_mul_right _ (Nat.le_mul_of_pos_left M hM1)
  suffices hgoal : L ≤ Δ * 2 ^ 25 by omega
  apply Classical.byContradiction; intro hcon
  have hcon : Δ * 2 ^ 25 < L := by omega
  rcases h with h | h
  · -- below the midpoint
    have hrA : r + 1 ≤ A := by omega
    have hnA : n < A * A := Nat.lt_of_lt_of_le hr2 (Nat.mul_self_le_mul_self hrA)
    obtain ⟨E, hE⟩ : ∃ E, n + E = A * A := ⟨A * A - n, by omega⟩
    have hEpos : 0 < E := by omega
    obtain ⟨d, hd⟩ : ∃ d, r + d = A := ⟨A - r, by omega⟩
    have hd1 : 1 ≤ d := by omega
    have hΔd : 2 * d ≤ Δ := by omega
    have hEd : E ≤ A * Δ := by
      have h1 : A * A ≤ r * r + 2 * A * d := by rw [← hd]; exact sq_lo r d
      have h2 : 2 * A * d ≤ A * Δ := by
        rw [Nat.mul_assoc, Nat.mul_comm 2, Nat.mul_assoc]; exact Nat.mul_le_mul_left _ (by omega)
      omega
    have hbound : M * (L * L) ≤ E * 2 ^ 25 := by
      rcases sqrt_gap_bound_lo pv T l M E n A L hpv hn hL.symm hA.symm hEpos (Or.inl hE) with ⟨hq, _⟩ | ⟨_, hq⟩
      · rw [hQ] at hq
        calc M * (L * L) ≤ 2 ^ 25 * (L * L) := Nat.mul_le_mul_right _ (by omega)
          _ ≤ 2 ^ 25 * E := Nat.mul_le_mul_left _ hq
          _ = E * 2 ^ 25 := Nat.mul_comm _ _
      · omega
    have h3 : A * (Δ * 2 ^ 25) < A * L := Nat.mul_lt_mul_of_pos_left hcon hApos
    have h4 : A * L = M * (L * L) := by rw [← hA]; grind
    have h5 : E * 2 ^ 25 ≤ A * (Δ * 2 ^ 25) := by
      rw [← Nat.mul_assoc]; exact Nat.mul_le_mul_right _ hEd
    omega
  · -- above the midpoint
    have hrA : A ≤ r := by omega
    have hnA : A * A < n := by
      by_cases hlt : A < r
      · exact Nat.lt_of_lt_of_le (Nat.mul_self_lt_mul_self hlt) hr1
      · have hre : r = A := by omega
        have : s = 1 := by omega
        have : r * r ≠ n := fun hh => by have := hs0.2 hh; omega
        rw [← hre]; omega
    obtain ⟨E, hE⟩ : ∃ E, n = A * A + E := ⟨n - A * A, by omega⟩
    have hEpos : 0 < E := by omega
    obtain ⟨d, hd⟩ : ∃ d, r + 1 = A + d := ⟨r + 1 - A, by omega⟩
    have hd1 : 1 ≤ d := by omega
    have hdL : d ≤ L := by omega
    have hΔd : 2 * d ≤ Δ := by
      by_cases hd2 : 2 ≤ d
      · omega
      · have : r = A := by omega
        have : s = 1 := by omega
        omega
    have hEd : 2 * E < Δ * (2 * A + L) := by
      have h1 : n < A * A + 2 * A * d + d * d := by rw [hd, sq_hi] at hr2; exact hr2
      have h2 : d * d ≤ d * L := Nat.mul_le_mul_left _ hdL
      have h3 : 2 * (2 * A * d + d * L) = 2 * d * (2 * A + L) := by grind
      have h4 : 2 * d * (2 * A + L) ≤ Δ * (2 * A + L) := Nat.mul_le_mul_right _ hΔd
      omega
    have hbound : (2 * M + 1) * (L * L) ≤ E * 2 ^ 26 := by
      rcases sqrt_gap_bound_lo pv T l M E n A L hpv hn hL.symm hA.symm hEpos (Or.inr hE) with ⟨hq, _⟩ | ⟨_, hq⟩
      · rw [hQ] at hq
        calc (2 * M + 1) * (L * L) ≤ 2 ^ 26 * (L * L) := Nat.mul_le_mul_right _ (by omega)
          _ ≤ 2 ^ 26 * E := Nat.mul_le_mul_left _ hq
          _ = E * 2 ^ 26 := Nat.mul_comm _ _
      · have : (2 * M + 1) * (L * L) ≤ 3 * (M * (L * L)) := by
          have : 2 * M + 1 ≤ 3 * M := by omega
          calc (2 * M + 1) * (L * L) ≤ 3 * M * (L * L) := Nat.mul_le_mul_right _ this
            _ = 3 * (M * (L * L)) := Nat.mul_assoc _ _ _
        omega
    have h3 : (Δ * 2 ^ 25) * (2 * A + L) < L * (2 * A + L) := Nat.mul_lt_mul_of_pos_right hcon (by omega)
    have h4 : L * (2 * A + L) = (2 * M + 1) * (L * L) := by rw [← hA]; grind
    have h5 : (Δ * 2 ^ 25) * (2 * A + L) = (Δ * (2 * A + L)) * 2 ^ 25 := by grind
    have h6 : 2 * E * 2 ^ 25 < (Δ * (2 * A + L)) * 2 ^ 25 := Nat.mul_lt_mul_of_pos_right hEd (by decide)
    omega

end Claripy.FP
