import ClaripyProofs.Lemmas.FP.GapDR
import ClaripyProofs.Lemmas.FP.SubDR
/-!
# FLOAT division: the binary64 quotient of two binary32 values is never a false binary32 tie

`x = (pa * 2^ka) / (pb * 2^eb)` with 24-bit `pa`, `pb`; a binary32 midpoint is `M * 2^(sh-1)`.  `2x - M * 2^sh = Δ / den` where
`Δ = pa * 2^(ka+1) - M * pb * 2^(eb+sh)` is divisible by `2^min(ka+1, eb+sh)`; if it is not zero, `|Δ| * 2^27 ≥ den * 2^sh`: the
quotient is at least `2^-28` binary32 ulp away from the midpoint (`div_gap`), which `no_false_tie_of_gap` turns into the statement.
-/
namespace Claripy.FP.Fold
open Claripy.FP Claripy.FP.Extract

theorem div_gap (pa pb ka eb sh M Δ : Nat) (hpa : pa < 2 ^ 24) (hpb : pb < 2 ^ 24) (hM : 1 ≤ M) (hΔ : 0 < Δ)
    (h : 2 * (pa * 2 ^ ka) + Δ = M * (pb * 2 ^ eb * 2 ^ sh) ∨ 2 * (pa * 2 ^ ka) = M * (pb * 2 ^ eb * 2 ^ sh) + Δ) :
    pb * 2 ^ eb * 2 ^ sh ≤ Δ * 2 ^ 27 := by
  have hsc : 2 * (pa * 2 ^ ka) = pa * 2 ^ (ka + 1) := by rw [Nat.pow_succ]; ring
  have hdd : pb * 2 ^ eb * 2 ^ sh = pb * 2 ^ (eb + sh) := by rw [Nat.pow_add]; ring
  rw [hsc, hdd] at h; rw [hdd]
  have hMdd : pb * 2 ^ (eb + sh) ≤ M * (pb * 2 ^ (eb + sh)) := Nat.le_mul_of_pos_left _ hM
  -- a power of two dividing both terms divides Δ
  have hdvd : ∀ c, 2 ^ c ∣ pa * 2 ^ (ka + 1) → 2 ^ c ∣ M * (pb * 2 ^ (eb + sh)) → 2 ^ c ≤ Δ := by
    intro c d1 d2
    apply Nat.le_of_dvd hΔ
    rcases h with h | h
    · exact (Nat.dvd_add_right d1).1 (h ▸ d2)
    · exact (Nat.dvd_add_right d2).1 (h ▸ d1)
  by_cases hc : eb + sh ≤ ka + 1
  · have hQ := hdvd (eb + sh) (Nat.dvd_mul_left_of_dvd (Nat.pow_dvd_pow 2 hc) pa)
      (Nat.dvd_mul_left_of_dvd (Nat.dvd_mul_left _ pb) M)
    generalize 2 ^ (eb + sh) = Q at *
    have : pb * Q ≤ 2 ^ 24 * Q := Nat.mul_le_mul_right _ (Nat.le_of_lt hpb)
    omega
  · have hR := hdvd (ka + 1) (Nat.dvd_mul_left _ pa)
      (Nat.dvd_mul_left_of_dvd (Nat.dvd_mul_left_of_dvd (Nat.pow_dvd_pow 2 (by omega)) pb) M)
    have hRpos : 0 < 2 ^ (ka + 1) := Nat.two_pow_pos _
    generalize 2 ^ (ka + 1) = R at *
    generalize pb * 2 ^ (eb + sh) = dd at *
    have : pa * R < 2 ^ 24 * R := Nat.mul_lt_mul_of_pos_right hpa hRpos
    generalize pa * R = S2 at *
    generalize M * dd = Mdd at *
    by_cases hsmall : dd ≤ 2 ^ 27 * R
    · omega
    · rcases h with h | h <;> omega

end Claripy.FP.Fold
