import ClaripyProofs.Lemmas.FP.GapDR
import ClaripyProofs.Lemmas.FP.SubDR
/-!
# FLOAT division: the binary64 quotient of two binary32 values is never a false binary32 tie

`x = (pa * 2^ka) / (pb * 2^eb)` with 24-bit `pa`, `pb`; a binary32 midpoint is `M * 2^(sh-1)`.  `2x - M * 2^sh = Δ / den` where
`Δ = pa * 2^(ka+1) - M * pb * 2^(eb+sh)` is divisible by `2^min(ka+1, eb+sh)`; if it is not zero, `|Δ| * 2^27 ≥ den * 2^sh`: the
quotient is at least `2^-28` binary32 ulp away from the midpoint (`div_gap`), which `no_false_tie_of_gap` turns into the statement.
-/
namespace Claripy.FP.Fold
open Claripy.FP Claripy.FP.Extract

theorem div_gap (pa pb ka eb sh M Δ : Nat) (hpa : pa < 2 ^ 24) (hpb : pb < 2 ^ 24) (hM : 1 ≤ M) (hΔ : 0 < Δ)
    (h : 2 * (pa * 2 ^ ka) + Δ = M * (pb * 2 ^ eb * 2 ^ sh) ∨ 2 * (pa * 2 ^ ka) = M * (pb * 2 ^ eb * 2 ^ sh) + Δ) :
    pb * 2 ^ eb * 2 ^ sh ≤ Δ * 2 ^ 27 := by
  have hsc : 2 * (pa * 2 ^ ka) = pa * 2 ^ (ka + 1) := by rw [Nat.pow_succ]; grind
  have hdd : pb * 2 ^ eb * 2 ^ sh = pb * 2 ^ (eb + sh) := by rw [Nat.pow_add]; grind
  rw [hsc, hdd] at h; rw [hdd]
  have hMdd : pb * 2 ^ (eb + sh) ≤ M * (pb * 2 ^ (eb + sh)) := Nat.le_mul_of_pos_left _ hM
  -- a power of two dividing both terms divides Δ
  have hdvd : ∀ c, 2 ^ c ∣ pa * 2 ^ (ka + 1) → 2 ^ c ∣ M * (pb * 2 ^ (eb + sh)) → 2 ^ c ≤ Δ := by
    intro c d1 d2
    apply Nat.le_of_dvd hΔ
    rcases h with h | h
    · exact (Nat.dvd_add_right d1).1 (h ▸ d2)
    · exact (Nat.dvd_add_right d2).1 (h ▸ d1)
  by_cases hc : eb + sh ≤ ka + 1
  · have hQ := hdvd (eb + sh) (Nat.dvd_mul_left_of_dvd (Nat.pow_dvd_pow 2 hc) pa)
      (Nat.dvd_mul_left_of_dvd (Nat.dvd_mul_left _ pb) M)
    generalize 2 ^ (eb + sh) = Q at *
    have : pb * Q ≤ 2 ^ 24 * Q := Nat.mul_le_mul_right _ (Nat.le_of_lt hpb)
    omega
  · have hR := hdvd (ka + 1) (Nat.dvd_mul_left _ pa)
      (Nat.dvd_mul_left_of_dvd (Nat.dvd_mul_left_of_dvd (Nat.pow_dvd_pow 2 (by omega)) pb) M)
    have hRpos : 0 < 2 ^ (ka + 1) := Nat.two_pow_pos _
    generalize 2 ^ (ka + 1) = R at *
    generalize pb * 2 ^ (eb + sh) = dd at *
    have : pa * R < 2 ^ 24 * R := Nat.mul_lt_mul_of_pos_right hpa hRpos
    generalize pa * R = S2 at *
    generalize M * dd = Mdd at *
    by_cases hsmall : dd ≤ 2 ^ 27 * R
    · omega
    · rcases h with h | h <;> omega

/-- the quotient of two finite non-zero binary32 values never rounds (in binary64) to a false binary32 tie -/
theorem quot_no_false_tie (ma mb : Nat) (hfa : ma < F.infMag) (hfb : mb < F.infMag) (hb0 : 0 < sval F mb)
    (hR : sval F ma * 2 ^ 149 < sval F F.infMag * sval F mb) : NoFalseTie (sval F ma * 2 ^ 149) (sval F mb) := by
  obtain ⟨pa, ea, hva, hpa, _⟩ := sval_F_form ma hfa
  obtain ⟨pb, eb, hvb, hpb, _⟩ := sval_F_form mb hfb
  apply no_false_tie_of_gap _ _ hb0 hR
  intro sh m Δ _ _ hΔ _ h
  have e : sval F ma * 2 ^ 149 = pa * 2 ^ (ea + 149) := by rw [hva, Nat.mul_assoc, ← Nat.pow_add]
  rw [e, hvb] at h; rw [hvb]
  exact div_gap pa pb (ea + 149) eb sh (2 * m + 1) Δ hpa hpb (by omega) hΔ h

/-- binary64 quotient of two widened finite binary32 values (divisor not zero), packed as binary32 -/
theorem narrow_round_quot (ma mb : Nat) (hfa : ma < F.infMag) (hfb : mb < F.infMag) (hb0 : 0 < sval F mb) (neg : Bool) :
    narrow (roundS D .RNE neg (sval F ma * 2 ^ 149 * 2 ^ 925) (sval F mb)) =
      roundS F .RNE neg (sval F ma * 2 ^ 149) (sval F mb) := by
  by_cases ha0 : sval F ma = 0
  · rw [ha0]; unfold roundS; simp only [Nat.zero_mul, if_true]; exact narrow_zero _
  have hla := sval_F_lt ma hfa
  have hlb := sval_F_lt mb hfb
  apply narrow_roundS neg _ _ hb0
  · have h1 : 2 ^ 277 ≤ 1 * 2 ^ 149 * 2 ^ 925 := by
      rw [Nat.one_mul, ← Nat.pow_add]; exact Nat.pow_le_pow_right (by decide) (by decide)
    have h2 : 1 * 2 ^ 149 * 2 ^ 925 ≤ sval F ma * 2 ^ 149 * 2 ^ 925 :=
      Nat.mul_le_mul_right _ (Nat.mul_le_mul_right _ (by omega))
    omega
  · calc sval F ma * 2 ^ 149 < 2 ^ 277 * 2 ^ 149 := Nat.mul_lt_mul_of_pos_right hla (Nat.two_pow_pos _)
      _ = 2 ^ 426 := by rw [← Nat.pow_add]
      _ ≤ 2 ^ 1000 := Nat.pow_le_pow_right (by decide) (by decide)
      _ ≤ 2 ^ 1000 * sval F mb := Nat.le_mul_of_pos_right _ hb0
  · exact quot_no_false_tie ma mb hfa hfb hb0

end Claripy.FP.Fold
