import ClaripyProofs.Lemmas.FP.RoundModes
/-! Representable values: dyadic numbers with a short significand are floats; rounding them is exact. -/
namespace Claripy.FP

/-- small values are their own magnitude: `sval g = g` for `g < 2^sb` (subnormals and the first binade) -/
theorem sval_small (f : Fmt) (g : Nat) (h : g < 2 * 2 ^ f.mbits) : sval f g = g := by
  have := sval_encode f 0 g (Or.inl rfl) (by omega)
  simpa using this

/-- `M * 2^k` with `M < 2^sb` is the value of some magnitude -/
theorem representable_of_dyadic (f : Fmt) (M k : Nat) (hM : M < 2 * 2 ^ f.mbits) : ∃ g, sval f g = M * 2 ^ k := by
  have hP := pow_mbits_pos f
  by_cases h0 : M = 0
  · exact ⟨0, by rw [h0, sval_zero]; simp⟩
  · by_cases hs : M * 2 ^ k < 2 * 2 ^ f.mbits
    · exact ⟨M * 2 ^ k, sval_small f _ hs⟩
    · -- normalise: sh = log2 (M * 2^k) - mbits ≤ k, m = M * 2^(k - sh)
      have hk : M.log2 ≤ f.mbits := by
        have : M.log2 < f.mbits + 1 := (Nat.log2_lt h0).2 (by rw [Nat.pow_succ]; omega)
        omega
      have hlo : 2 ^ M.log2 ≤ M := Nat.log2_self_le h0
      have hhi : M < 2 ^ (M.log2 + 1) := log2_lt_pow M
      -- M.log2 + k ≥ mbits + 1 because M * 2^k ≥ 2^(mbits+1)
      have hge : f.mbits + 1 ≤ M.log2 + k := by
        apply Classical.byContradiction; intro hc
        have h1 : M.log2 + 1 + k ≤ f.mbits + 1 := by omega
        have : M * 2 ^ k < 2 ^ (M.log2 + 1) * 2 ^ k := Nat.mul_lt_mul_of_pos_right hhi (Nat.two_pow_pos _)
        rw [← Nat.pow_add] at this
        have h2 : 2 ^ (M.log2 + 1 + k) ≤ 2 ^ (f.mbits + 1) := Nat.pow_le_pow_right (by decide) h1
        rw [Nat.pow_succ] at h2; omega
      let sh := M.log2 + k - f.mbits
      have hshk : sh ≤ k := by omega
      let m := M * 2 ^ (k - sh)
      have hm_lo : 2 ^ f.mbits ≤ m := by
        have : 2 ^ f.mbits = 2 ^ M.log2 * 2 ^ (k - sh) := by rw [← Nat.pow_add]; congr 1; omega
        rw [this]; exact Nat.mul_le_mul_right _ hlo
      have hm_hi : m < 2 * 2 ^ f.mbits := by
        have : 2 * 2 ^ f.mbits = 2 ^ (M.log2 + 1) * 2 ^ (k - sh) := by
          rw [← Nat.pow_add, ← Nat.pow_succ']; congr 1; omega
        rw [this]; exact Nat.mul_lt_mul_of_pos_right hhi (Nat.two_pow_pos _)
      refine ⟨sh * 2 ^ f.mbits + m, ?_⟩
      rw [sval_encode f sh m (Or.inr hm_lo) (by omega)]
      show M * 2 ^ (k - sh) * 2 ^ sh = M * 2 ^ k
      rw [Nat.mul_assoc, ← Nat.pow_add]; congr 2; omega

theorem finite_of_sval_lt (f : Fmt) (g : Nat) (h : sval f g < sval f f.infMag) : g < f.infMag := by
  apply Classical.byContradiction; intro hc
  by_cases he : g = f.infMag
  · rw [he] at h; omega
  · have := sval_strictMono f (show f.infMag < g by omega); omega

/-- rounding a representable value with its sign: exact in every mode -/
theorem roundS_exact (f : Fmt) (wf : WF f) (rm : RM) (neg : Bool) (g den : Nat) (hden : 0 < den) (hg : g < f.infMag) :
    roundS f rm neg (sval f g * den) den = mkBits f neg g := by
  unfold roundS
  by_cases h0 : sval f g * den = 0
  · have : sval f g = 0 := by
      rcases Nat.mul_eq_zero.1 h0 with h | h
      · exact h
      · omega
    have hg0 : g = 0 := sval_injective f (by rw [this, sval_zero])
    rw [if_pos h0, hg0]
  · rw [if_neg h0, round_exact f wf rm neg g den hden hg]

/-- the same, for any way of writing the input: `sc/den = V` with `V` the value of a finite `g` -/
theorem roundS_exact' (f : Fmt) (wf : WF f) (rm : RM) (neg : Bool) (g sc den : Nat) (hden : 0 < den) (hg : g < f.infMag)
    (h : sc = sval f g * den) : roundS f rm neg sc den = mkBits f neg g := by
  rw [h]; exact roundS_exact f wf rm neg g den hden hg

end Claripy.FP
