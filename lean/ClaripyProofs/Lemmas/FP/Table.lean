import Claripy.FP.Fold
/-! The generated rounding-mode table, and `decimal`'s rounding against SMT-LIB's `roundToIntegral`. -/
namespace Claripy.FP

/-- the decimal constant that implements each SMT-LIB rounding mode -/
def smtlibDecimal : RM → DecRounding
  | .RNE => .halfEven | .RNA => .halfUp | .RTP => .ceiling | .RTN => .floor | .RTZ => .down

theorem decRoundUp_smtlib (rm : RM) (neg odd : Bool) (rem dd : Nat) :
    decRoundUp (smtlibDecimal rm) neg odd rem dd = roundUp rm neg odd rem dd := by
  cases rm <;> rfl

theorem decToIntegral_smtlib (f : Fmt) (rm : RM) (a : Nat) :
    decToIntegral f (smtlibDecimal rm) a = toIntegral f rm a := by
  unfold decToIntegral toIntegral toIntegralMag
  simp only [decRoundUp_smtlib]

/-- `ROUND_UP` (the table entry for RNA before the fix) is not round-to-nearest-away -/
theorem roundUp_up_ne_rna : decRoundUp .up false false 1 5 ≠ roundUp .RNA false false 1 5 := by decide

end Claripy.FP
