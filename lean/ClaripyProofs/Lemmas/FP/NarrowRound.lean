import ClaripyProofs.Lemmas.FP.DoubleRound
/-!
# `narrow ∘ (binary64 rounding)` against the binary32 rounding, signs, zero and overflow included

`narrow_roundS`: for a positive rational `x = sc/den` (binary32 units) that is at least the smallest binary64 subnormal and far below
the binary64 overflow threshold, packing the binary64 rounding of `±x` as binary32 gives the binary32 rounding of `±x`, PROVIDED
the binary64 rounding is a binary32 midpoint only when `x` is (`NoFalseTie`).  Overflow of binary32 (to infinity) is covered.
-/
namespace Claripy.FP.Fold
open Claripy.FP Claripy.FP.Extract

/-- the first rounding does not create a binary32 tie that was not there -/
def NoFalseTie (sc den : Nat) : Prop :=
  2 * sval D (roundScaled D .RNE false (sc * 2 ^ 925) den) =
      (sval F (floorMag F sc den) + sval F (floorMag F sc den + 1)) * 2 ^ 925 →
    2 * sc = (sval F (floorMag F sc den) + sval F (floorMag F sc den + 1)) * den

/-- RNE does not look at the sign -/
theorem roundScaled_rne_sign (f : Fmt) (n1 n2 : Bool) (sc den : Nat) :
    roundScaled f .RNE n1 sc den = roundScaled f .RNE n2 sc den := by
  unfold roundScaled roundUp; rfl

theorem pow_dyadic_D (k : Nat) (hk : k ≤ 2097) : ∃ g, g < D.infMag ∧ sval D g = 2 ^ k := by
  obtain ⟨g, hg⟩ := representable_of_dyadic D 1 k (by rw [Dmbits]; decide)
  rw [Nat.one_mul] at hg
  exact ⟨g, finite_of_lt_pow g 2098 (by decide) (by rw [hg]; exact Nat.pow_lt_pow_right (by decide) (by omega)), hg⟩

theorem round_overflow_F (neg : Bool) (sc den : Nat) (hden : 0 < den) (h : sval F F.infMag * den ≤ sc) :
    roundScaled F .RNE neg sc den = F.infMag := by
  rw [roundScaled_overflow F .RNE neg sc den (fun hI => by have := (inRange_iff F wf32 sc den hden).1 hI; omega)]
  rfl

theorem narrow_roundS (neg : Bool) (sc den : Nat) (hden : 0 < den) (hlo : den ≤ sc * 2 ^ 925) (hhi : sc < 2 ^ 1000 * den)
    (H : sc < sval F F.infMag * den → NoFalseTie sc den) :
    narrow (roundS D .RNE neg (sc * 2 ^ 925) den) = roundS F .RNE neg sc den := by
  have hu : 0 < 2 ^ 925 := Nat.two_pow_pos _
  have hsc : sc ≠ 0 := by
    intro h; rw [h, Nat.zero_mul] at hlo; omega
  have hscD : sc * 2 ^ 925 ≠ 0 := fun h => by rcases Nat.mul_eq_zero.1 h with h | h <;> omega
  have hRD : sc * 2 ^ 925 < sval D D.infMag * den := by
    rw [sval_infMag_D]
    calc sc * 2 ^ 925 < 2 ^ 1000 * den * 2 ^ 925 := Nat.mul_lt_mul_of_pos_right hhi hu
      _ = 2 ^ 1925 * den := by rw [Nat.mul_assoc, Nat.mul_comm den, ← Nat.mul_assoc, ← Nat.pow_add]
      _ ≤ 2 ^ 2098 * den := Nat.mul_le_mul_right _ (Nat.pow_le_pow_right (by decide) (by decide))
  unfold roundS; rw [if_neg hsc, if_neg hscD]
  rw [roundScaled_rne_sign D neg false]
  -- the binary64 result: finite and not zero
  have hy1 : 1 ≤ roundScaled D .RNE false (sc * 2 ^ 925) den := by
    apply round_ge_of_le D wf64 .RNE false _ den 1 hden hRD
    rw [sval_small D 1 (by rw [Dmbits]; decide), Nat.one_mul]; exact hlo
  have hyf : roundScaled D .RNE false (sc * 2 ^ 925) den < D.infMag := by
    obtain ⟨gt, hgtf, hgt⟩ := pow_dyadic_D 1925 (by decide)
    have : roundScaled D .RNE false (sc * 2 ^ 925) den ≤ gt := by
      apply round_le_of_ge D wf64 .RNE false _ den gt hden hRD
      rw [hgt]
      calc sc * 2 ^ 925 ≤ 2 ^ 1000 * den * 2 ^ 925 := Nat.mul_le_mul_right _ (Nat.le_of_lt hhi)
        _ = 2 ^ 1925 * den := by rw [Nat.mul_assoc, Nat.mul_comm den, ← Nat.mul_assoc, ← Nat.pow_add]
    omega
  by_cases hR : sc < sval F F.infMag * den
  · -- no binary32 overflow
    have hdr := double_round neg false sc den hden hR (H hR)
    generalize roundScaled D .RNE false (sc * 2 ^ 925) den = y at *
    have hv : sval D y ≠ 0 := by
      have := sval_mono D hy1; rw [sval_small D 1 (by rw [Dmbits]; decide)] at this; omega
    unfold narrow cvt
    simp only [notNaN_mkBits _ y hyf, notInf_mkBits _ y hyf, signOf_mkBits _ y hyf, magOf_mkBits _ y hyf,
      Bool.false_eq_true, if_false, Fq, Dq]
    have e : (2 : Nat) ^ 1074 = 2 ^ 925 * 2 ^ 149 := by rw [← Nat.pow_add]
    rw [e, roundS_scale F .RNE neg (sval D y) (2 ^ 925) (2 ^ 149) hu (Nat.two_pow_pos _)]
    unfold roundS; rw [if_neg hv, hdr]
  · -- binary32 overflow: both roundings of binary32 give infinity
    have hge : sval F F.infMag * den ≤ sc := by omega
    rw [round_overflow_F neg sc den hden hge]
    obtain ⟨gi, _, hgi⟩ := F_val_repr F.infMag (Nat.le_refl _)
    have hyi : gi ≤ roundScaled D .RNE false (sc * 2 ^ 925) den := by
      apply round_ge_of_le D wf64 .RNE false _ den gi hden hRD
      rw [hgi, Nat.mul_right_comm]; exact Nat.mul_le_mul_right _ hge
    generalize roundScaled D .RNE false (sc * 2 ^ 925) den = y at *
    have hv : sval F F.infMag * 2 ^ 925 ≤ sval D y := by rw [← hgi]; exact sval_mono D hyi
    have hv0 : sval D y ≠ 0 := by
      have := sval_mono D hy1; rw [sval_small D 1 (by rw [Dmbits]; decide)] at this; omega
    unfold narrow cvt
    simp only [notNaN_mkBits _ y hyf, notInf_mkBits _ y hyf, signOf_mkBits _ y hyf, magOf_mkBits _ y hyf,
      Bool.false_eq_true, if_false, Fq, Dq]
    have e : (2 : Nat) ^ 1074 = 2 ^ 925 * 2 ^ 149 := by rw [← Nat.pow_add]
    rw [e, roundS_scale F .RNE neg (sval D y) (2 ^ 925) (2 ^ 149) hu (Nat.two_pow_pos _)]
    unfold roundS; rw [if_neg hv0, round_overflow_F neg (sval D y) _ hu hv]

end Claripy.FP.Fold
