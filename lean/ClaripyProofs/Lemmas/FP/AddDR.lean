import ClaripyProofs.Lemmas.FP.NarrowRound
/-!
# The binary64 sum of two binary32 values is never a false binary32 tie

Let `N = |±A ± B|` for two binary32 values `A`, `B`, `B = sb * 2^t` the one with the smaller quantum (`2^t` divides `N`).
Either `N / 2^t < 2^53` — then `N` is a binary64 value and the first rounding is exact — or `N ≥ 2^(53+t)`, so the quantum `2^sh` of
`N` in binary32 satisfies `sh ≥ t + 30` and `B < 2^(sh-6)`: `N` is within `2^(sh-6)` of the binary32 value `A`, hence at least
`2^(sh-1) - 2^(sh-6)` away from the midpoint of its binary32 neighbours, and the binary64 values `lo + 2^(sh-6)`, `hi - 2^(sh-6)`
separate the binary64 rounding of `N` from that midpoint (monotonicity of rounding).
-/
namespace Claripy.FP.Fold
open Claripy.FP Claripy.FP.Extract

theorem sum_no_false_tie (magA A B N t sb : Nat) (hA : A = sval F magA) (hB : B = sb * 2 ^ t) (hsb : sb < 2 ^ 24)
    (hdvd : 2 ^ t ∣ N) (hNle : N ≤ A + B) (hNge : A ≤ N + B) (hR : N < sval F F.infMag * 1) : NoFalseTie N 1 := by
  intro h
  have hu : 0 < 2 ^ 925 := Nat.two_pow_pos _
  have hRD := D_inRange_of_F N 1 hR
  obtain ⟨n, hn⟩ := hdvd
  by_cases hsmall : n < 2 ^ 53
  · -- the sum is a binary64 value: the first rounding is exact
    obtain ⟨g3, hg3⟩ := representable_of_dyadic D n (t + 925) (by rw [Dmbits]; omega)
    have hval : sval D g3 = N * 2 ^ 925 := by
      rw [hg3, hn, Nat.pow_add, Nat.mul_comm (2 ^ t) n, Nat.mul_assoc]
    have hfin : g3 < D.infMag := by
      apply finite_of_sval_lt; rw [hval]; simpa using hRD
    rw [round_exact' D wf64 .RNE false g3 _ 1 Nat.zero_lt_one hfin (by rw [hval, Nat.mul_one]), hval] at h
    rw [Nat.mul_one]
    rw [← Nat.mul_assoc] at h
    exact Nat.eq_of_mul_eq_mul_right hu h
  · -- a long sum: the small operand is far below the binary32 quantum of the sum
    exfalso
    have hlof := floorMag_finite F N 1 Nat.zero_lt_one hR
    obtain ⟨fl1, fl2⟩ := floor_law F N 1 Nat.zero_lt_one
    generalize floorMag F N 1 = lo at *
    obtain ⟨sh, m, hv, hv1, hm, hsh⟩ := F_mag_form lo (by omega)
    rw [hv, hv1] at h; rw [hv] at fl1; rw [hv1] at fl2
    rw [Nat.mul_one] at fl1 fl2
    -- sh ≥ t + 30
    have hNlow : 2 ^ (53 + t) ≤ N := by
      rw [hn, Nat.pow_add, Nat.mul_comm]; exact Nat.mul_le_mul_left _ (by omega)
    have hNhigh : N < 2 ^ (24 + sh) := by
      rw [Nat.pow_add]
      exact Nat.lt_of_lt_of_le fl2 (Nat.mul_le_mul_right _ (by omega))
    have hexp : 53 + t < 24 + sh := by
      apply Classical.byContradiction; intro hc
      have := Nat.pow_le_pow_right (show 0 < 2 by decide) (show 24 + sh ≤ 53 + t by omega)
      omega
    obtain ⟨k, hk⟩ : ∃ k, sh = k + 6 := ⟨sh - 6, by omega⟩
    have hX : 2 ^ sh = 64 * 2 ^ k := by rw [hk, Nat.pow_add]; omega
    have hBX : B < 2 ^ k := by
      rw [hB]
      calc sb * 2 ^ t < 2 ^ 24 * 2 ^ t := Nat.mul_lt_mul_of_pos_right hsb (Nat.two_pow_pos _)
        _ = 2 ^ (24 + t) := by rw [← Nat.pow_add]
        _ ≤ 2 ^ k := Nat.pow_le_pow_right (by decide) (by omega)
    rw [hX] at h fl1 fl2
    generalize hXk : 2 ^ k = X at *
    have hXpos : 0 < X := by rw [← hXk]; exact Nat.two_pow_pos _
    generalize hyv : sval D (roundScaled D .RNE false (N * 2 ^ 925) 1) = v at *
    -- V = m * X
    have e1 : m * (64 * X) = 64 * (m * X) := by rw [Nat.mul_left_comm]
    have e2 : (m + 1) * (64 * X) = 64 * (m * X) + 64 * X := by rw [Nat.add_mul, e1, Nat.one_mul]
    rw [e1] at fl1; rw [e2] at fl2; rw [e1, e2] at h
    by_cases hcase : magA ≤ lo
    · -- A ≤ lo: N ≤ lo + B < lo + X, a binary64 value below the midpoint
      have hAle : A ≤ 64 * (m * X) := by
        rw [hA, ← e1, ← hX, ← hv]; exact sval_mono F hcase
      obtain ⟨gP, hgP⟩ := representable_of_dyadic D (64 * m + 1) (k + 925) (by rw [Dmbits]; omega)
      have hPv : sval D gP = (64 * (m * X) + X) * 2 ^ 925 := by
        rw [hgP, Nat.pow_add, hXk]; generalize 2 ^ 925 = U
        rw [← Nat.mul_assoc, Nat.add_mul, Nat.one_mul, Nat.mul_assoc 64]
      have hle : roundScaled D .RNE false (N * 2 ^ 925) 1 ≤ gP := by
        apply round_le_of_ge D wf64 .RNE false _ 1 gP Nat.zero_lt_one hRD
        rw [Nat.mul_one, hPv]; exact Nat.mul_le_mul_right _ (by omega)
      have hv2 : v ≤ (64 * (m * X) + X) * 2 ^ 925 := by rw [← hyv, ← hPv]; exact sval_mono D hle
      have : (64 * (m * X) + (64 * (m * X) + 64 * X)) * 2 ^ 925 ≤ (2 * (64 * (m * X) + X)) * 2 ^ 925 := by omega
      have := Nat.le_of_mul_le_mul_right this hu
      omega
    · -- A ≥ hi: N ≥ hi - B > hi - X, a binary64 value above the midpoint
      have hAge : 64 * (m * X) + 64 * X ≤ A := by
        rw [hA, ← e2, ← hX, ← hv1]; exact sval_mono F (by omega)
      obtain ⟨gQ, hgQ⟩ := representable_of_dyadic D (64 * m + 63) (k + 925) (by rw [Dmbits]; omega)
      have hQv : sval D gQ = (64 * (m * X) + 63 * X) * 2 ^ 925 := by
        rw [hgQ, Nat.pow_add, hXk]; generalize 2 ^ 925 = U
        rw [← Nat.mul_assoc, Nat.add_mul, Nat.mul_assoc 64]
      have hge : gQ ≤ roundScaled D .RNE false (N * 2 ^ 925) 1 := by
        apply round_ge_of_le D wf64 .RNE false _ 1 gQ Nat.zero_lt_one hRD
        rw [Nat.mul_one, hQv]; exact Nat.mul_le_mul_right _ (by omega)
      have hv2 : (64 * (m * X) + 63 * X) * 2 ^ 925 ≤ v := by rw [← hyv, ← hQv]; exact sval_mono D hge
      have : (2 * (64 * (m * X) + 63 * X)) * 2 ^ 925 ≤ (64 * (m * X) + (64 * (m * X) + 64 * X)) * 2 ^ 925 := by omega
      have := Nat.le_of_mul_le_mul_right this hu
      omega

theorem sintOf_natAbs (a : Nat) : (sintOf F a).natAbs = sval F (magOf F a) := by
  unfold sintOf; split <;> simp

/-- the exact sum of two finite binary32 values never rounds (in binary64) to a false binary32 tie -/
theorem sum_no_false_tie_F (a b : Nat) (hfa : magOf F a < F.infMag) (hfb : magOf F b < F.infMag)
    (hR : (sintOf F a + sintOf F b).natAbs < sval F F.infMag * 1) : NoFalseTie (sintOf F a + sintOf F b).natAbs 1 := by
  obtain ⟨sa, ea, hva, hsa, _⟩ := sval_F_form (magOf F a) hfa
  obtain ⟨sb, eb, hvb, hsb, _⟩ := sval_F_form (magOf F b) hfb
  have hna := sintOf_natAbs a
  have hnb := sintOf_natAbs b
  have h1 : (sintOf F a + sintOf F b).natAbs ≤ (sintOf F a).natAbs + (sintOf F b).natAbs := Int.natAbs_add_le _ _
  have h2 : (sintOf F a).natAbs ≤ (sintOf F a + sintOf F b).natAbs + (sintOf F b).natAbs := by omega
  have h3 : (sintOf F b).natAbs ≤ (sintOf F a + sintOf F b).natAbs + (sintOf F a).natAbs := by omega
  rw [hna, hnb] at h1 h2 h3
  have hdvd : ∀ t, 2 ^ t ∣ sval F (magOf F a) → 2 ^ t ∣ sval F (magOf F b) →
      2 ^ t ∣ (sintOf F a + sintOf F b).natAbs := by
    intro t da db
    rw [← hna] at da; rw [← hnb] at db
    exact Int.ofNat_dvd_left.1 (Int.dvd_add (Int.ofNat_dvd_left.2 da) (Int.ofNat_dvd_left.2 db))
  by_cases hle : eb ≤ ea
  · -- b has the smaller quantum
    apply sum_no_false_tie (magOf F a) _ _ _ eb sb rfl hvb hsb _ h1 h2 hR
    apply hdvd
    · rw [hva]; exact Nat.dvd_mul_left_of_dvd (Nat.pow_dvd_pow 2 hle) sa
    · rw [hvb]; exact Nat.dvd_mul_left _ _
  · -- a has the smaller quantum
    apply sum_no_false_tie (magOf F b) _ _ _ ea sa rfl hva hsa _ (by omega) h3 hR
    apply hdvd
    · rw [hva]; exact Nat.dvd_mul_left _ _
    · rw [hvb]; exact Nat.dvd_mul_left_of_dvd (Nat.pow_dvd_pow 2 (by omega)) sb

/-- binary64 addition of two widened finite binary32 values with a non-zero sum, packed as binary32 -/
theorem narrow_round_sum (a b : Nat) (hfa : magOf F a < F.infMag) (hfb : magOf F b < F.infMag) (neg : Bool)
    (h0 : sintOf F a + sintOf F b ≠ 0) :
    narrow (roundS D .RNE neg ((sintOf F a + sintOf F b).natAbs * 2 ^ 925) 1) =
      roundS F .RNE neg (sintOf F a + sintOf F b).natAbs 1 := by
  have hpos : 0 < (sintOf F a + sintOf F b).natAbs := Int.natAbs_pos.2 h0
  have h1 : (sintOf F a + sintOf F b).natAbs ≤ (sintOf F a).natAbs + (sintOf F b).natAbs := Int.natAbs_add_le _ _
  have ha := sintOf_F_natAbs_lt a hfa
  have hb := sintOf_F_natAbs_lt b hfb
  apply narrow_roundS neg _ 1 Nat.zero_lt_one
  · exact Nat.mul_pos hpos (Nat.two_pow_pos _)
  · rw [Nat.mul_one]
    have e : (2 : Nat) ^ 278 = 2 ^ 277 + 2 ^ 277 := by rw [show (278 : Nat) = 277 + 1 by rfl, Nat.pow_succ]; omega
    have : (2 : Nat) ^ 278 ≤ 2 ^ 1000 := Nat.pow_le_pow_right (by decide) (by decide)
    omega
  · exact sum_no_false_tie_F a b hfa hfb

/-- FLOAT ADDITION, every pair of operands: the binary64 sum of the two widened operands, packed as binary32, is the binary32 sum
(NaN, infinities of both signs, zeros of both signs, exact zero sums, subnormals, overflow to infinity included) -/
theorem narrow_add_widen (a b : Nat) : narrow (add D .RNE (widen a) (widen b)) = add F .RNE a b := by
  by_cases hna : isNaN F a = true
  · rw [widen_nan a hna, add_nan_left _ _ _ isNaN_nanBits_D, narrow_nan]; unfold add; simp [hna]
  by_cases hnb : isNaN F b = true
  · rw [widen_nan b hnb, add_nan_right _ _ _ isNaN_nanBits_D, narrow_nan]; unfold add; simp [hnb]
  have hna' : isNaN F a = false := by simpa using hna
  have hnb' : isNaN F b = false := by simpa using hnb
  obtain ⟨na, ia, sa, va⟩ := widen_props a hna'
  obtain ⟨nb, ib, sb, vb⟩ := widen_props b hnb'
  cases hia : isInf F a
  case true =>
    have hD : add D .RNE (widen a) (widen b) =
        if (isInf F b && signOf F a != signOf F b) = true then D.nanBits else mkBits D (signOf F a) D.infMag := by
      unfold add; simp only [na, nb, ia, ib, sa, sb, hia, Bool.or_self, Bool.false_eq_true, if_false, if_true]
    have hF : add F .RNE a b =
        if (isInf F b && signOf F a != signOf F b) = true then F.nanBits else mkBits F (signOf F a) F.infMag := by
      unfold add; simp only [hna', hnb', hia, Bool.or_self, Bool.false_eq_true, if_false, if_true]
    rw [hD, hF]; split
    · exact narrow_nan
    · exact narrow_inf _
  case false =>
    cases hib : isInf F b
    case true =>
      have hD : add D .RNE (widen a) (widen b) = mkBits D (signOf F b) D.infMag := by
        unfold add; simp only [na, nb, ia, ib, sb, hia, hib, Bool.or_self, Bool.false_eq_true, if_false, if_true]
      have hF : add F .RNE a b = mkBits F (signOf F b) F.infMag := by
        unfold add; simp only [hna', hnb', hia, hib, Bool.or_self, Bool.false_eq_true, if_false, if_true]
      rw [hD, hF]; exact narrow_inf _
    case false =>
      have hfa : magOf F a < F.infMag := by
        unfold isNaN at hna'; unfold isInf at hia; simp at hna' hia; omega
      have hfb : magOf F b < F.infMag := by
        unfold isNaN at hnb'; unfold isInf at hib; simp at hnb' hib; omega
      have hround := narrow_round_sum a b hfa hfb
      have hS : sintOf D (widen a) + sintOf D (widen b) = (sintOf F a + sintOf F b) * 2 ^ 925 := by
        rw [va hia, vb hib, Int.add_mul]
      have hpos : (0 : Int) < 2 ^ 925 := Int.pow_pos (by decide)
      generalize hSF : sintOf F a + sintOf F b = SF at *
      have hD : add D .RNE (widen a) (widen b) =
          if SF = 0 then (if (signOf F a == signOf F b) = true then mkBits D (signOf F a) 0 else mkBits D false 0)
          else roundS D .RNE (decide (SF < 0)) (SF.natAbs * 2 ^ 925) 1 := by
        unfold add
        simp only [na, nb, ia, ib, sa, sb, hia, hib, Bool.or_self, Bool.false_eq_true, if_false, hS]
        by_cases h0 : SF = 0
        · simp [h0]
        · have hne : SF * 2 ^ 925 ≠ 0 := Int.mul_ne_zero h0 (by omega)
          have hlt : (SF * 2 ^ 925 < 0) ↔ (SF < 0) := by
            constructor
            · intro h; apply Classical.byContradiction; intro hc
              have : 0 ≤ SF * 2 ^ 925 := Int.mul_nonneg (by omega) (by omega)
              omega
            · intro h; exact Int.mul_neg_of_neg_of_pos h hpos
          have hab : (SF * 2 ^ 925).natAbs = SF.natAbs * 2 ^ 925 := by
            rw [Int.natAbs_mul]; congr 1
          simp only [hne, if_false, hab, hlt]
          rw [if_neg h0]
      have hF : add F .RNE a b =
          if SF = 0 then (if (signOf F a == signOf F b) = true then mkBits F (signOf F a) 0 else mkBits F false 0)
          else roundS F .RNE (decide (SF < 0)) SF.natAbs 1 := by
        unfold add
        simp only [hna', hnb', hia, hib, Bool.or_self, Bool.false_eq_true, if_false, hSF]
        by_cases h0 : SF = 0 <;> simp [h0]
      rw [hD, hF]
      by_cases h0 : SF = 0
      · simp only [h0, if_true]; split <;> exact narrow_zero _
      · simp only [h0, if_false]
        exact hround _ h0

theorem fpAdd_F (rm : RM) (a b : Nat) : fpAdd F rm a b = add F .RNE a b := by
  have hl : ∀ x, lift F x = widen x := fun x => by unfold lift; rw [if_pos rfl]
  have hlow : ∀ d, lower F d = narrow d := fun d => by unfold lower; rw [if_pos rfl]
  unfold fpAdd pyAdd; rw [hl, hl, hlow]; exact narrow_add_widen a b

end Claripy.FP.Fold
