import ClaripyProofs.Lemmas.FP.SqrtCmp
import ClaripyProofs.Lemmas.FP.SqrtGap
import ClaripyProofs.Lemmas.FP.DivFull
/-!
# FLOAT square root: `math.sqrt` on the widened operand, packed as binary32, is the binary32 square root

Both formats round the proxy `(2 * isqrt n + sticky) / 2^(k+1)` of `sqrt w` (`n = w * 4^k`; `k = 26` for binary32, and the binary64
computation on the widened operand is the same with `k = 980` when read in binary32 units).  The proxy compares with every
half-integer `c/2` exactly as `sqrt w` does (`c² ≤ 4w`), so the binary32 rounding does not depend on `k` (`round_congr`); and the
`k = 980` proxy is never within `2^-28` ulp of a binary32 midpoint (`sqrt_gap`), so the binary64 rounding in between is harmless.
-/
namespace Claripy.FP.Fold
open Claripy.FP Claripy.FP.Extract

/-- `2 * isqrt n + sticky` -/
def sqrtProxy (n : Nat) : Nat := 2 * Nat.sqrt n + (if Nat.sqrt n * Nat.sqrt n = n then 0 else 1)

theorem sqrtProxy_pos (n : Nat) (hn : 0 < n) : sqrtProxy n ≠ 0 := by
  unfold sqrtProxy; intro h
  by_cases hs : Nat.sqrt n * Nat.sqrt n = n
  · rw [if_pos hs] at h
    have : Nat.sqrt n = 0 := by omega
    rw [this] at hs; omega
  · rw [if_neg hs] at h; omega

/-- the proxy of `sqrt (w * 4^(j+1))` against `c * 2^j`: as `2 * sqrt w` against `c` -/
theorem sqrt_scaled_cmp (w j c : Nat) :
    (c * 2 ^ (j + 2) ≤ 2 * sqrtProxy (w * 4 ^ (j + 1)) ↔ c * c ≤ 4 * w) ∧
    (2 * sqrtProxy (w * 4 ^ (j + 1)) ≤ c * 2 ^ (j + 2) ↔ 4 * w ≤ c * c) := by
  obtain ⟨h1, h2⟩ := sqrt_proxy_cmp (w * 4 ^ (j + 1)) (c * 2 ^ j)
  have e1 : c * 2 ^ (j + 2) = 2 * (2 * (c * 2 ^ j)) := by rw [Nat.pow_add]; grind
  have e4 : (4 : Nat) ^ j = 2 ^ j * 2 ^ j := by rw [show (4 : Nat) = 2 * 2 by rfl, Nat.mul_pow]
  have e2 : c * 2 ^ j * (c * 2 ^ j) = c * c * 4 ^ j := by rw [e4]; grind
  have e3 : w * 4 ^ (j + 1) = 4 * w * 4 ^ j := by rw [Nat.pow_succ]; grind
  have hpos : 0 < 4 ^ j := Nat.pow_pos (by decide)
  unfold sqrtProxy
  rw [e1]
  rw [e2, e3] at h1 h2
  rw [e3]
  constructor
  · have h3 : c * c * 4 ^ j ≤ 4 * w * 4 ^ j ↔ c * c ≤ 4 * w := Nat.mul_le_mul_right_iff hpos
    rw [← h3, ← h1]; omega
  · have h3 : 4 * w * 4 ^ j ≤ c * c * 4 ^ j ↔ 4 * w ≤ c * c := Nat.mul_le_mul_right_iff hpos
    rw [← h3, ← h2]; omega

/-- the binary32 rounding of the proxy does not depend on the number of guard bits -/
theorem sqrt_round_congr (w : Nat) (hw : 0 < w) :
    roundS F .RNE false (sqrtProxy (w * 4 ^ 26)) (2 ^ 27) = roundS F .RNE false (sqrtProxy (w * 4 ^ 980)) (2 ^ 981) := by
  have h1 := sqrtProxy_pos (w * 4 ^ 26) (Nat.mul_pos hw (Nat.pow_pos (by decide)))
  have h2 := sqrtProxy_pos (w * 4 ^ 980) (Nat.mul_pos hw (Nat.pow_pos (by decide)))
  have hc := round_congr F wf32 false (sqrtProxy (w * 4 ^ 26)) (2 ^ 27) (sqrtProxy (w * 4 ^ 980)) (2 ^ 981)
    (Nat.two_pow_pos _) (Nat.two_pow_pos _)
    (fun c => by rw [(sqrt_scaled_cmp w 25 c).1, (sqrt_scaled_cmp w 979 c).1])
    (fun c => by rw [(sqrt_scaled_cmp w 25 c).2, (sqrt_scaled_cmp w 979 c).2])
  unfold roundS; rw [if_neg h1, if_neg h2, hc]

theorem four_pow (k : Nat) : (4 : Nat) ^ k = 2 ^ (2 * k) := by
  rw [show (4 : Nat) = 2 ^ 2 by rfl, ← Nat.pow_mul]

/-- the binary64 square root of a widened binary32 value never rounds to a false binary32 tie -/
theorem sqrt_no_false_tie (mag : Nat) (hf : mag < F.infMag)
    (hR : sqrtProxy (sval F mag * 2 ^ 149 * 4 ^ 980) < sval F F.infMag * 2 ^ 981) :
    NoFalseTie (sqrtProxy (sval F mag * 2 ^ 149 * 4 ^ 980)) (2 ^ 981) := by
  obtain ⟨pv, ev, hv, hpv, _⟩ := sval_F_form mag hf
  apply no_false_tie_of_gap (sqrtProxy (sval F mag * 2 ^ 149 * 4 ^ 980)) (2 ^ 981) (Nat.two_pow_pos 981) hR
  intro sh m Δ hm _ hΔ hfl h
  have e : 2 ^ 981 * 2 ^ sh = 4 * 2 ^ (979 + sh) := by
    calc 2 ^ 981 * 2 ^ sh = 2 ^ (981 + sh) := (Nat.pow_add 2 981 sh).symm
      _ = 2 ^ (2 + (979 + sh)) := by rw [show 981 + sh = 2 + (979 + sh) by omega]
      _ = 2 ^ 2 * 2 ^ (979 + sh) := Nat.pow_add 2 2 (979 + sh)
  rw [e] at hfl h ⊢
  have hn : sval F mag * 2 ^ 149 * 4 ^ 980 = pv * 2 ^ (ev + (149 + 2 * 980)) := by
    rw [hv, four_pow, Nat.mul_assoc, Nat.mul_assoc, ← Nat.pow_add, ← Nat.pow_add]
  generalize sval F mag * 2 ^ 149 * 4 ^ 980 = n at *
  unfold sqrtProxy at hfl h
  have hs1 : (if Nat.sqrt n * Nat.sqrt n = n then 0 else 1) ≤ 1 := by split <;> omega
  have hs0 : (if Nat.sqrt n * Nat.sqrt n = n then 0 else 1) = 0 ↔ Nat.sqrt n * Nat.sqrt n = n := by
    split <;> simp_all
  exact sqrt_gap pv (ev + (149 + 2 * 980)) (979 + sh) m Δ n (Nat.sqrt n) _ hpv hn (Nat.sqrt_le n) (Nat.lt_succ_sqrt n)
    hs1 hs0 hm hΔ hfl h

/-- binary64 square root of a widened positive finite binary32 value, packed as binary32 -/
theorem narrow_round_sqrt (mag : Nat) (hf : mag < F.infMag) (hpos : 0 < sval F mag) :
    narrow (roundS D .RNE false (sqrtProxy (sval F mag * 2 ^ 925 * 2 ^ 1074 * 4 ^ 55)) (2 ^ 56)) =
      roundS F .RNE false (sqrtProxy (sval F mag * 2 ^ 149 * 4 ^ 26)) (2 ^ 27) := by
  have ep : 2 ^ 925 * (2 ^ 1074 * 4 ^ 55) = 2 ^ 149 * 4 ^ 980 := by
    rw [four_pow, four_pow, ← Nat.pow_add, ← Nat.pow_add, ← Nat.pow_add]
  have en : sval F mag * 2 ^ 925 * 2 ^ 1074 * 4 ^ 55 = sval F mag * 2 ^ 149 * 4 ^ 980 := by
    rw [Nat.mul_assoc, Nat.mul_assoc, ep, ← Nat.mul_assoc]
  have hw : 0 < sval F mag * 2 ^ 149 := Nat.mul_pos hpos (Nat.two_pow_pos _)
  rw [en, sqrt_round_congr _ hw]
  have hvlt := sval_F_lt mag hf
  -- size of the proxy
  have hlow : 2 ^ 56 ≤ sqrtProxy (sval F mag * 2 ^ 149 * 4 ^ 980) := by
    have h := (sqrt_proxy_cmp (sval F mag * 2 ^ 149 * 4 ^ 980) (2 ^ 55)).1
    have h1 : 2 ^ 55 * 2 ^ 55 ≤ sval F mag * 2 ^ 149 * 4 ^ 980 := by
      rw [four_pow, ← Nat.pow_add]
      calc 2 ^ (55 + 55) ≤ 2 ^ (2 * 980) := Nat.pow_le_pow_right (by decide) (by decide)
        _ ≤ sval F mag * 2 ^ 149 * 2 ^ (2 * 980) := Nat.le_mul_of_pos_left _ hw
    have := h.2 h1
    unfold sqrtProxy
    rw [show (2 : Nat) ^ 56 = 2 * 2 ^ 55 by rw [show (56 : Nat) = 55 + 1 by rfl, Nat.pow_succ, Nat.mul_comm]]
    exact this
  have hhigh : sqrtProxy (sval F mag * 2 ^ 149 * 4 ^ 980) ≤ 2 ^ 1194 := by
    have h := (sqrt_proxy_cmp (sval F mag * 2 ^ 149 * 4 ^ 980) (2 ^ 1193)).2
    have h1 : sval F mag * 2 ^ 149 * 4 ^ 980 ≤ 2 ^ 1193 * 2 ^ 1193 := by
      rw [four_pow, ← Nat.pow_add, Nat.mul_assoc, ← Nat.pow_add]
      calc sval F mag * 2 ^ (149 + 2 * 980) ≤ 2 ^ 277 * 2 ^ (149 + 2 * 980) := Nat.mul_le_mul_right _ (Nat.le_of_lt hvlt)
        _ = 2 ^ (277 + (149 + 2 * 980)) := by rw [← Nat.pow_add]
        _ ≤ 2 ^ (1193 + 1193) := Nat.pow_le_pow_right (by decide) (by decide)
    have := h.2 h1
    unfold sqrtProxy
    rw [show (2 : Nat) ^ 1194 = 2 * 2 ^ 1193 by rw [show (1194 : Nat) = 1193 + 1 by rfl, Nat.pow_succ, Nat.mul_comm]]
    exact this
  generalize hP : sqrtProxy (sval F mag * 2 ^ 149 * 4 ^ 980) = P at *
  have e56 : (2 : Nat) ^ 981 = 2 ^ 56 * 2 ^ 925 := by rw [← Nat.pow_add]
  have hsc := roundS_scale D .RNE false P (2 ^ 56) (2 ^ 925) (Nat.two_pow_pos 56) (Nat.two_pow_pos 925)
  rw [← hsc, ← e56]
  apply narrow_roundS false P (2 ^ 981) (Nat.two_pow_pos _)
  · rw [e56]; exact Nat.mul_le_mul_right _ hlow
  · calc P ≤ 2 ^ 1194 := hhigh
      _ < 2 ^ (1000 + 981) := Nat.pow_lt_pow_right (by decide) (by decide)
      _ = 2 ^ 1000 * 2 ^ 981 := Nat.pow_add _ _ _
  · intro hR
    have h := sqrt_no_false_tie mag hf
    rw [hP] at h
    exact h hR

end Claripy.FP.Fold
