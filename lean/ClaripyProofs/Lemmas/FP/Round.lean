import ClaripyProofs.Lemmas.FP.Encode
/-!
# `roundScaled` is correct rounding

Reading: a finite magnitude `g` has the real value `sval f g / 2^q`; the input denotes `x = (sc/den) / 2^q`.  So
`sval f g * den ≤ sc` says `value g ≤ x`, and `2 * sc < (sval f g + sval f (g+1)) * den` says that `x` is below the
midpoint of `g` and its successor.  `infMag` (infinity) has `sval = 2^(lgMax+1)`, i.e. the value `2^(emax+1)`.
-/
namespace Claripy.FP

/-- the outputs of the scaling step of `roundScaled` -/
structure Scaled (f : Fmt) (sc den : Nat) where
  sh : Nat
  m : Nat
  rem : Nat

def scaled (f : Fmt) (sc den : Nat) : Scaled f sc den :=
  let lg := max (Nat.log2 (sc / den)) f.mbits
  let sh := lg - f.mbits
  ⟨sh, sc / (den * 2 ^ sh), sc % (den * 2 ^ sh)⟩

/-- no overflow: the exact value is below `2^(emax+1)` -/
def InRange (f : Fmt) (sc den : Nat) : Prop := max (Nat.log2 (sc / den)) f.mbits ≤ f.lgMax

instance (f : Fmt) (sc den : Nat) : Decidable (InRange f sc den) := by unfold InRange; exact inferInstance

theorem roundScaled_inRange (f : Fmt) (rm : RM) (neg : Bool) (sc den : Nat) (h : InRange f sc den) :
    roundScaled f rm neg sc den =
      let s := scaled f sc den
      s.sh * 2 ^ f.mbits +
        (if roundUp rm neg (s.m % 2 == 1) s.rem (den * 2 ^ s.sh) then s.m + 1 else s.m) := by
  unfold roundScaled scaled InRange at *
  simp only [show ¬ (max (sc / den).log2 f.mbits > f.lgMax) by omega, if_false]

theorem roundScaled_overflow (f : Fmt) (rm : RM) (neg : Bool) (sc den : Nat) (h : ¬ InRange f sc den) :
    roundScaled f rm neg sc den = overflowMag f rm neg := by
  unfold roundScaled InRange at *
  simp only [show (max (sc / den).log2 f.mbits > f.lgMax) by omega, if_true]

theorem log2_lt_pow (x : Nat) : x < 2 ^ (x.log2 + 1) := Nat.lt_log2_self

theorem scaled_props (f : Fmt) (sc den : Nat) (hden : 0 < den) :
    let s := scaled f sc den
    sc = s.m * (den * 2 ^ s.sh) + s.rem ∧ s.rem < den * 2 ^ s.sh ∧
    (s.sh = 0 ∨ 2 ^ f.mbits ≤ s.m) ∧ s.m < 2 * 2 ^ f.mbits := by
  unfold scaled
  dsimp only
  generalize hx : sc / den = x
  generalize hsh : max x.log2 f.mbits - f.mbits = sh
  have hdd : 0 < den * 2 ^ sh := Nat.mul_pos hden (Nat.two_pow_pos _)
  have hm : sc / (den * 2 ^ sh) = x / 2 ^ sh := by rw [← hx, Nat.div_div_eq_div_mul]
  refine ⟨?_, Nat.mod_lt _ hdd, ?_, ?_⟩
  · have := Nat.div_add_mod sc (den * 2 ^ sh)
    rw [Nat.mul_comm] at this; exact this.symm
  · by_cases h0 : sh = 0
    · exact Or.inl h0
    · right
      have hlg : max x.log2 f.mbits = x.log2 := by omega
      have hxl : x.log2 = sh + f.mbits := by omega
      have hx0 : x ≠ 0 := by
        intro h; rw [h] at hxl; simp [Nat.log2_zero] at hxl; omega
      have hle : 2 ^ x.log2 ≤ x := Nat.log2_self_le hx0
      rw [hm, Nat.le_div_iff_mul_le (Nat.two_pow_pos _), ← Nat.pow_add, Nat.add_comm, ← hxl]
      exact hle
  · rw [hm]
    have hlt : x < 2 ^ (x.log2 + 1) := log2_lt_pow x
    have hle : x.log2 + 1 ≤ sh + (f.mbits + 1) := by omega
    have : x < 2 ^ sh * (2 * 2 ^ f.mbits) := by
      calc x < 2 ^ (x.log2 + 1) := hlt
        _ ≤ 2 ^ (sh + (f.mbits + 1)) := Nat.pow_le_pow_right (by decide) hle
        _ = 2 ^ sh * (2 * 2 ^ f.mbits) := by rw [Nat.pow_add, Nat.pow_succ, Nat.mul_comm (2 ^ f.mbits) 2]
    exact Nat.div_lt_of_lt_mul this

/-- the floor: the largest magnitude whose value does not exceed the input -/
def floorMag (f : Fmt) (sc den : Nat) : Nat := (scaled f sc den).sh * 2 ^ f.mbits + (scaled f sc den).m

theorem sval_floorMag (f : Fmt) (sc den : Nat) (hden : 0 < den) :
    sval f (floorMag f sc den) * den = (scaled f sc den).m * (den * 2 ^ (scaled f sc den).sh) ∧
    sval f (floorMag f sc den + 1) * den = ((scaled f sc den).m + 1) * (den * 2 ^ (scaled f sc den).sh) := by
  have ⟨_, _, h3, h4⟩ := scaled_props f sc den hden
  unfold floorMag
  constructor
  · rw [sval_encode f _ _ h3 (by omega), Nat.mul_assoc, Nat.mul_comm (2 ^ _) den]
  · rw [Nat.add_assoc, sval_encode f _ _ (by rcases h3 with h | h; exact Or.inl h; exact Or.inr (by omega)) (by omega),
      Nat.mul_assoc, Nat.mul_comm (2 ^ _) den]

/-- FLOOR LAW: `value (floorMag) ≤ x < value (floorMag + 1)` -/
theorem floor_law (f : Fmt) (sc den : Nat) (hden : 0 < den) :
    sval f (floorMag f sc den) * den ≤ sc ∧ sc < sval f (floorMag f sc den + 1) * den := by
  have ⟨h1, h2, _, _⟩ := scaled_props f sc den hden
  have ⟨e1, e2⟩ := sval_floorMag f sc den hden
  rw [e1, e2, Nat.add_mul, Nat.one_mul]
  omega

/-- the input is exactly the floor iff nothing is discarded -/
theorem exact_iff (f : Fmt) (sc den : Nat) (hden : 0 < den) :
    (scaled f sc den).rem = 0 ↔ sc = sval f (floorMag f sc den) * den := by
  have ⟨h1, _, _, _⟩ := scaled_props f sc den hden
  have ⟨e1, _⟩ := sval_floorMag f sc den hden
  rw [e1]; omega

/-- comparison with the midpoint of the floor and its successor -/
theorem mid_iff (f : Fmt) (sc den : Nat) (hden : 0 < den) :
    let s := scaled f sc den
    let mid := (sval f (floorMag f sc den) + sval f (floorMag f sc den + 1)) * den
    (2 * s.rem < den * 2 ^ s.sh ↔ 2 * sc < mid) ∧ (2 * s.rem = den * 2 ^ s.sh ↔ 2 * sc = mid) := by
  have ⟨h1, _, _, _⟩ := scaled_props f sc den hden
  have ⟨e1, e2⟩ := sval_floorMag f sc den hden
  dsimp only
  rw [Nat.add_mul, e1, e2, Nat.add_mul, Nat.one_mul]
  generalize (scaled f sc den).m * (den * 2 ^ (scaled f sc den).sh) = A at *
  constructor <;> omega

/-- parity of the floor magnitude is the parity of its significand -/
theorem floorMag_parity (f : Fmt) (wf : WF f) (sc den : Nat) :
    floorMag f sc den % 2 = (scaled f sc den).m % 2 := by
  unfold floorMag
  have : 2 ^ f.mbits = 2 * 2 ^ (f.mbits - 1) := by
    have h := wf.sb2
    have : f.mbits = (f.mbits - 1) + 1 := by unfold Fmt.mbits; omega
    rw [this, Nat.pow_succ, Nat.mul_comm]; simp
  rw [this, ← Nat.mul_assoc, Nat.mul_comm _ 2, Nat.mul_assoc, Nat.mul_add_mod]

end Claripy.FP
