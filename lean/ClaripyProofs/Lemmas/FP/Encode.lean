import Claripy.FP.Spec
/-! Magnitudes and their scaled values: `sval (sh * 2^mbits + m) = m * 2^sh`; `sval` is strictly increasing. -/
namespace Claripy.FP

/-- well-formed format: at least 2 exponent bits and 2 significand bits (hidden bit + 1) -/
structure WF (f : Fmt) : Prop where
  eb2 : 2 ≤ f.eb
  sb2 : 2 ≤ f.sb

theorem wf32 : WF binary32 := ⟨by decide, by decide⟩
theorem wf64 : WF binary64 := ⟨by decide, by decide⟩

theorem pow_mbits_pos (f : Fmt) : 0 < 2 ^ f.mbits := Nat.two_pow_pos _

theorem div_of_lt (k r P : Nat) (hP : 0 < P) (hr : r < P) : (k * P + r) / P = k := by
  rw [Nat.add_comm, Nat.add_mul_div_right _ _ hP, Nat.div_eq_of_lt hr, Nat.zero_add]

theorem mod_of_lt (k r P : Nat) (hr : r < P) : (k * P + r) % P = r := by
  rw [Nat.add_comm, Nat.add_mul_mod_self_right, Nat.mod_eq_of_lt hr]

/-- the magnitude `sh * 2^mbits + m` (quantum exponent `sh`, integer significand `m`, a carry to `2^sb` allowed)
has scaled value `m * 2^sh` -/
theorem sval_encode (f : Fmt) (sh m : Nat) (h : sh = 0 ∨ 2 ^ f.mbits ≤ m) (hm : m ≤ 2 * 2 ^ f.mbits) :
    sval f (sh * 2 ^ f.mbits + m) = m * 2 ^ sh := by
  have hP := pow_mbits_pos f
  unfold sval sigOf
  generalize 2 ^ f.mbits = P at *
  by_cases h1 : m < P
  · have hsh : sh = 0 := by rcases h with h | h <;> omega
    subst hsh
    simp only [Nat.zero_mul, Nat.zero_add, Nat.div_eq_of_lt h1, Nat.mod_eq_of_lt h1]
    simp
  · by_cases h2 : m < 2 * P
    · have e : sh * P + m = (sh + 1) * P + (m - P) := by rw [Nat.add_mul]; omega
      rw [e, div_of_lt _ _ _ hP (by omega), mod_of_lt _ _ _ (by omega)]
      have : sh + 1 ≠ 0 := by omega
      simp only [this, if_false, Nat.add_sub_cancel]
      congr 1; omega
    · have hm2 : m = 2 * P := by omega
      have e : sh * P + m = (sh + 2) * P + 0 := by rw [Nat.add_mul, hm2]; omega
      rw [e, div_of_lt _ _ _ hP hP, mod_of_lt _ _ _ hP]
      have : sh + 2 ≠ 0 := by omega
      simp only [this, if_false, Nat.add_zero]
      rw [hm2, show sh + 2 - 1 = sh + 1 by omega, Nat.pow_succ]
      rw [Nat.mul_comm 2 P, Nat.mul_assoc, Nat.mul_comm 2]

/-- canonical decomposition of a magnitude: `g = sh * 2^mbits + m` with `sh = E - 1`, `m = sigOf g` -/
theorem mag_decomp (f : Fmt) (g : Nat) :
    ∃ sh m, g = sh * 2 ^ f.mbits + m ∧ (sh = 0 ∨ 2 ^ f.mbits ≤ m) ∧ m < 2 * 2 ^ f.mbits ∧
      sh = g / 2 ^ f.mbits - 1 ∧ m = sigOf f g := by
  have hP := pow_mbits_pos f
  unfold sigOf
  generalize hPd : 2 ^ f.mbits = P at *
  have hdm := Nat.div_add_mod g P
  have hmod := Nat.mod_lt g hP
  by_cases hE : g / P = 0
  · refine ⟨0, g % P, ?_, Or.inl rfl, by omega, by rw [hE], by simp [hE]⟩
    rw [hE, Nat.mul_zero, Nat.zero_add] at hdm
    rw [Nat.zero_mul, Nat.zero_add]; exact hdm.symm
  · refine ⟨g / P - 1, P + g % P, ?_, Or.inr (by omega), by omega, rfl, by simp [hE]⟩
    have : g / P = (g / P - 1) + 1 := (Nat.sub_add_cancel (Nat.pos_of_ne_zero hE)).symm
    calc g = P * (g / P) + g % P := hdm.symm
      _ = P * ((g / P - 1) + 1) + g % P := by rw [← this]
      _ = (g / P - 1) * P + (P + g % P) := by rw [Nat.mul_add, Nat.mul_one, Nat.mul_comm]; omega

/-- the next magnitude has a strictly larger value: `sval` is strictly increasing -/
theorem sval_succ_lt (f : Fmt) (g : Nat) : sval f g < sval f (g + 1) := by
  obtain ⟨sh, m, hg, hsh, hm, _, _⟩ := mag_decomp f g
  have h1 := sval_encode f sh m hsh (by omega)
  have h2 := sval_encode f sh (m + 1) (by rcases hsh with h | h; exact Or.inl h; exact Or.inr (by omega)) (by omega)
  rw [hg, Nat.add_assoc, h1, h2]
  exact Nat.mul_lt_mul_of_pos_right (by omega) (Nat.two_pow_pos _)

theorem sval_strictMono (f : Fmt) : ∀ {a b : Nat}, a < b → sval f a < sval f b := by
  intro a b h
  induction b with
  | zero => omega
  | succ b ih =>
    by_cases hab : a = b
    · subst hab; exact sval_succ_lt f a
    · exact Nat.lt_trans (ih (by omega)) (sval_succ_lt f b)

theorem sval_injective (f : Fmt) {a b : Nat} (h : sval f a = sval f b) : a = b := by
  by_cases hlt : a < b
  · have := sval_strictMono f hlt; omega
  · by_cases hgt : b < a
    · have := sval_strictMono f hgt; omega
    · omega

theorem sval_zero (f : Fmt) : sval f 0 = 0 := by
  have := sval_encode f 0 0 (Or.inl rfl) (by omega)
  simpa using this

end Claripy.FP
