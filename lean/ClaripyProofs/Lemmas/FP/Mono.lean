import ClaripyProofs.Lemmas.FP.Repr
/-! Rounding is monotone with respect to representable values: a float below (above) the exact value stays below (above) the
rounded result, in every mode and every format.  This is all the double-rounding argument needs to know about the FIRST rounding. -/
namespace Claripy.FP

theorem floorMag_finite (f : Fmt) (sc den : Nat) (hden : 0 < den) (hR : sc < sval f f.infMag * den) :
    floorMag f sc den < f.infMag := by
  apply finite_of_sval_lt
  have h1 := (floor_law f sc den hden).1
  exact Nat.lt_of_mul_lt_mul_right (Nat.lt_of_le_of_lt h1 hR)

/-- a float whose value does not exceed `x` does not exceed the rounding of `x` -/
theorem round_ge_of_le (f : Fmt) (wf : WF f) (rm : RM) (neg : Bool) (sc den g : Nat) (hden : 0 < den)
    (hR : sc < sval f f.infMag * den) (h : sval f g * den ≤ sc) : g ≤ roundScaled f rm neg sc den := by
  have hIn := (inRange_iff f wf sc den hden).2 hR
  have ⟨_, f2⟩ := floor_law f sc den hden
  have hgl : g ≤ floorMag f sc den := by
    apply Classical.byContradiction; intro hc
    have h1 : sval f (floorMag f sc den + 1) ≤ sval f g := by
      by_cases he : floorMag f sc den + 1 = g
      · rw [he]; exact Nat.le_refl _
      · exact Nat.le_of_lt (sval_strictMono f (by omega))
    have := Nat.mul_le_mul_right den h1
    omega
  rcases round_floor_or_succ f rm neg sc den hIn with h | h <;> omega

/-- a float whose value is at least `x` is at least the rounding of `x` -/
theorem round_le_of_ge (f : Fmt) (wf : WF f) (rm : RM) (neg : Bool) (sc den g : Nat) (hden : 0 < den)
    (hR : sc < sval f f.infMag * den) (h : sc ≤ sval f g * den) : roundScaled f rm neg sc den ≤ g := by
  have hIn := (inRange_iff f wf sc den hden).2 hR
  have ⟨f1, _⟩ := floor_law f sc den hden
  by_cases hex : sc = sval f (floorMag f sc den) * den
  · have hfin := floorMag_finite f sc den hden hR
    have hr : roundScaled f rm neg sc den = floorMag f sc den := by
      conv => lhs; rw [hex]
      exact round_exact f wf rm neg _ den hden hfin
    rw [hr]
    apply Classical.byContradiction; intro hc
    have := sval_strictMono f (show g < floorMag f sc den by omega)
    have := Nat.mul_lt_mul_of_pos_right this hden
    omega
  · have hlt : floorMag f sc den < g := by
      apply Classical.byContradiction; intro hc
      have h1 : sval f g ≤ sval f (floorMag f sc den) := by
        by_cases he : g = floorMag f sc den
        · rw [he]; exact Nat.le_refl _
        · exact Nat.le_of_lt (sval_strictMono f (by omega))
      have := Nat.mul_le_mul_right den h1
      omega
    rcases round_floor_or_succ f rm neg sc den hIn with h | h <;> omega

/-- rounding a representable value, however the input is written -/
theorem round_exact' (f : Fmt) (wf : WF f) (rm : RM) (neg : Bool) (g sc den : Nat) (hden : 0 < den) (hg : g < f.infMag)
    (h : sc = sval f g * den) : roundScaled f rm neg sc den = g := by
  rw [h]; exact round_exact f wf rm neg g den hden hg

end Claripy.FP
