import ClaripyProofs.Lemmas.FP.FoldF
/-! FLOAT multiplication: the binary64 product of two binary32 values is EXACT (48 significant bits, exponent well inside the
binary64 range), so the fold performs a single rounding (`struct.pack('f')`) — the specification's, for every operand. -/
namespace Claripy.FP.Fold
open Claripy.FP Claripy.FP.Extract

/-- rounding depends only on the rational `sc/den`: a common factor cancels -/
theorem roundScaled_scale (f : Fmt) (rm : RM) (neg : Bool) (sc den k : Nat) (_hden : 0 < den) (hk : 0 < k) :
    roundScaled f rm neg (sc * k) (den * k) = roundScaled f rm neg sc den := by
  unfold roundScaled
  rw [Nat.mul_div_mul_right _ _ hk]
  dsimp only
  split
  · rfl
  · generalize max (sc / den).log2 f.mbits - f.mbits = sh
    have e : den * k * 2 ^ sh = den * 2 ^ sh * k := by rw [Nat.mul_assoc, Nat.mul_comm k, ← Nat.mul_assoc]
    rw [e, Nat.mul_div_mul_right _ _ hk, Nat.mul_mod_mul_right, roundUp_scale _ _ _ _ _ _ hk]

theorem roundS_scale (f : Fmt) (rm : RM) (neg : Bool) (sc den k : Nat) (hden : 0 < den) (hk : 0 < k) :
    roundS f rm neg (sc * k) (den * k) = roundS f rm neg sc den := by
  unfold roundS
  by_cases h0 : sc = 0
  · simp [h0]
  · have : sc * k ≠ 0 := fun h => by rcases Nat.mul_eq_zero.1 h with h | h <;> omega
    rw [if_neg h0, if_neg this, roundScaled_scale f rm neg sc den k hden hk]

theorem isZero_widen (a : Nat) (hn : isNaN F a = false) : isZero D (widen a) = isZero F a := by
  by_cases hi : isInf F a = true
  · have hw : widen a = mkBits D (signOf F a) D.infMag := by unfold widen cvt; simp [hn, hi]
    unfold isInf at hi; simp only [decide_eq_true_eq] at hi
    rw [hw]; unfold isZero; rw [hi]
    cases signOf F a <;> decide +kernel
  · have hfin : magOf F a < F.infMag := by
      unfold isNaN at hn; unfold isInf at hi; simp at hn hi; omega
    obtain ⟨g, hgf, hgv, hc⟩ := cvt_widen_finite .RNE a hfin
    have hw : widen a = mkBits D (signOf F a) g := hc
    unfold isZero
    rw [hw, magOf_mkBits _ g hgf]
    by_cases hm : magOf F a = 0
    · have : g = 0 := sval_injective D (by rw [hgv, hm, sval_zero, sval_zero, Nat.zero_mul])
      simp [hm, this]
    · have : g ≠ 0 := by
        intro hg0; rw [hg0, sval_zero] at hgv
        rcases Nat.mul_eq_zero.1 hgv.symm with h | h
        · exact hm (sval_injective F (by rw [h, sval_zero]))
        · have := Nat.two_pow_pos 925; omega
      simp [hm, this]

theorem narrow_nan : narrow D.nanBits = F.nanBits := by decide +kernel
theorem narrow_inf (s : Bool) : narrow (mkBits D s D.infMag) = mkBits F s F.infMag := by cases s <;> decide +kernel

/-- the scaled value of a finite binary32 magnitude is `sig * 2^(E-1)` with `sig < 2^24`, `E ≤ 254` -/
theorem sval_F_form (mag : Nat) (hfin : mag < F.infMag) :
    ∃ sig e, sval F mag = sig * 2 ^ e ∧ sig < 2 ^ 24 ∧ e ≤ 253 := by
  obtain ⟨sh, sig, _, _, hsig, hshE, hsigE⟩ := mag_decomp F mag
  rw [Fmbits] at hsig hshE
  have hE : mag / 2 ^ 23 ≤ 254 := by
    have : F.infMag = 255 * 2 ^ 23 := by decide
    rw [this] at hfin
    have := (Nat.div_lt_iff_lt_mul (Nat.two_pow_pos 23)).2 hfin
    omega
  refine ⟨sig, mag / 2 ^ 23 - 1, by unfold sval; rw [Fmbits, ← hsigE], by
    rw [show (2 : Nat) ^ 24 = 2 * 2 ^ 23 by decide]; exact hsig, by omega⟩

/-- FLOAT multiplication under RNE: fold = specification, every pair of operands -/
theorem fpMul_F (rm : RM) (a b : Nat) : fpMul F rm a b = mul F .RNE a b := by
  have hl : ∀ x, lift F x = widen x := fun x => by unfold lift; rw [if_pos rfl]
  have hlow : ∀ d, lower F d = narrow d := fun d => by unfold lower; rw [if_pos rfl]
  unfold fpMul pyMul; rw [hl, hl, hlow]
  by_cases hna : isNaN F a = true
  · rw [widen_nan a hna, mul_nan_left _ _ _ isNaN_nanBits_D, narrow_nan]; unfold mul; simp [hna]
  by_cases hnb : isNaN F b = true
  · rw [widen_nan b hnb, mul_nan_right _ _ _ isNaN_nanBits_D, narrow_nan]; unfold mul; simp [hnb]
  have hna' : isNaN F a = false := by simpa using hna
  have hnb' : isNaN F b = false := by simpa using hnb
  obtain ⟨na, ia, sa, _⟩ := widen_props a hna'
  obtain ⟨nb, ib, sb, _⟩ := widen_props b hnb'
  have za := isZero_widen a hna'
  have zb := isZero_widen b hnb'
  by_cases hinf : (isInf F a || isInf F b) = true
  · -- an infinity is involved: decided by the predicates alone
    have hD : mul D .RNE (widen a) (widen b) =
        if (isZero F a || isZero F b) = true then D.nanBits else mkBits D (signOf F a != signOf F b) D.infMag := by
      unfold mul; simp only [na, nb, ia, ib, sa, sb, za, zb, hinf, Bool.or_self, Bool.false_eq_true, if_false, if_true]
    have hF : mul F .RNE a b =
        if (isZero F a || isZero F b) = true then F.nanBits else mkBits F (signOf F a != signOf F b) F.infMag := by
      unfold mul; simp only [hna', hnb', hinf, Bool.or_self, Bool.false_eq_true, if_false, if_true]
    rw [hD, hF]
    split
    · exact narrow_nan
    · exact narrow_inf _
  · -- both finite: the binary64 product is exact
    have hia : isInf F a = false := by cases h : isInf F a <;> simp [h] at hinf ⊢
    have hib : isInf F b = false := by cases h : isInf F b <;> simp [h] at hinf ⊢
    have hfa : magOf F a < F.infMag := by
      unfold isNaN at hna'; unfold isInf at hia; simp at hna' hia; omega
    have hfb : magOf F b < F.infMag := by
      unfold isNaN at hnb'; unfold isInf at hib; simp at hnb' hib; omega
    obtain ⟨g1, hg1f, hg1v, hc1⟩ := cvt_widen_finite .RNE a hfa
    obtain ⟨g2, hg2f, hg2v, hc2⟩ := cvt_widen_finite .RNE b hfb
    have hwa : widen a = mkBits D (signOf F a) g1 := hc1
    have hwb : widen b = mkBits D (signOf F b) g2 := hc2
    obtain ⟨siga, ea, hva, hsa, hea⟩ := sval_F_form (magOf F a) hfa
    obtain ⟨sigb, eb, hvb, hsb, heb⟩ := sval_F_form (magOf F b) hfb
    -- the exact product, in binary64 units
    have hM : siga * sigb < 2 * 2 ^ D.mbits := by
      rw [Dmbits]
      calc siga * sigb < 2 ^ 24 * 2 ^ 24 := Nat.mul_lt_mul'' hsa hsb
        _ ≤ 2 * 2 ^ 52 := by decide
    obtain ⟨g3, hg3v⟩ := representable_of_dyadic D (siga * sigb) (ea + eb + 776) hM
    have hprod : sval F (magOf F a) * sval F (magOf F b) * 2 ^ 776 = sval D g3 := by
      rw [hg3v, hva, hvb, Nat.mul_mul_mul_comm, Nat.mul_assoc, ← Nat.pow_add, ← Nat.pow_add]
    have hg3f : g3 < D.infMag := by
      apply finite_of_lt_pow g3 1330 (by decide)
      rw [hg3v]
      calc siga * sigb * 2 ^ (ea + eb + 776) < 2 ^ 48 * 2 ^ (ea + eb + 776) :=
            Nat.mul_lt_mul_of_pos_right (by
              calc siga * sigb < 2 ^ 24 * 2 ^ 24 := Nat.mul_lt_mul'' hsa hsb
                _ = 2 ^ 48 := by decide) (Nat.two_pow_pos _)
        _ = 2 ^ (48 + (ea + eb + 776)) := by rw [← Nat.pow_add]
        _ ≤ 2 ^ 1330 := Nat.pow_le_pow_right (by decide) (by omega)
    have hv : sval D g1 * sval D g2 = sval D g3 * 2 ^ 1074 := by
      rw [hg1v, hg2v, ← hprod]
      have : (2 : Nat) ^ 1074 = 2 ^ 298 * 2 ^ 776 := by rw [← Nat.pow_add]
      have e2 : (2 : Nat) ^ 925 * 2 ^ 925 = 2 ^ 776 * 2 ^ 1074 := by rw [← Nat.pow_add, ← Nat.pow_add]
      calc sval F (magOf F a) * 2 ^ 925 * (sval F (magOf F b) * 2 ^ 925)
          = sval F (magOf F a) * sval F (magOf F b) * (2 ^ 925 * 2 ^ 925) := Nat.mul_mul_mul_comm _ _ _ _
        _ = sval F (magOf F a) * sval F (magOf F b) * 2 ^ 776 * 2 ^ 1074 := by rw [e2, ← Nat.mul_assoc]
    rw [hwa, hwb, mul_exact .RNE _ _ g1 g2 g3 hg1f hg2f hg3f hv]
    -- one rounding to binary32, of the same rational as in the specification
    unfold narrow cvt
    simp only [notNaN_mkBits _ g3 hg3f, notInf_mkBits _ g3 hg3f, signOf_mkBits _ g3 hg3f, magOf_mkBits _ g3 hg3f,
      Bool.false_eq_true, if_false, Fq, Dq]
    unfold mul
    simp only [hna', hnb', hia, hib, Bool.or_self, Bool.false_eq_true, if_false, Fq]
    rw [← hprod]
    have e3 : sval F (magOf F a) * sval F (magOf F b) * 2 ^ 776 * 2 ^ 149 =
        sval F (magOf F a) * sval F (magOf F b) * 2 ^ 925 := by rw [Nat.mul_assoc, ← Nat.pow_add]
    have e4 : (2 : Nat) ^ 1074 = 2 ^ 149 * 2 ^ 925 := by rw [← Nat.pow_add]
    rw [e3, e4]
    exact roundS_scale F .RNE _ _ _ _ (Nat.two_pow_pos _) (Nat.two_pow_pos _)

end Claripy.FP.Fold
