import ClaripyProofs.Lemmas.FP.MulF
/-! FLOAT addition: whenever the exact sum of the two binary32 values is a binary64 value (always the case when the operands'
exponents differ by at most 29), the Python float addition is exact and the fold rounds once — the specification's rounding. -/
namespace Claripy.FP.Fold
open Claripy.FP Claripy.FP.Extract

theorem narrow_zero (s : Bool) : narrow (mkBits D s 0) = mkBits F s 0 := by cases s <;> decide +kernel

/-- the exact sum of two binary32 values, in binary64 units, is a finite binary64 magnitude -/
def SumRepresentable (a b : Nat) : Prop :=
  ∃ g3, g3 < D.infMag ∧ sval D g3 = (sintOf F a + sintOf F b).natAbs * 2 ^ 925

theorem fpAdd_F_of_representable (rm : RM) (a b : Nat) (hrep : SumRepresentable a b) :
    fpAdd F rm a b = add F .RNE a b := by
  have hl : ∀ x, lift F x = widen x := fun x => by unfold lift; rw [if_pos rfl]
  have hlow : ∀ d, lower F d = narrow d := fun d => by unfold lower; rw [if_pos rfl]
  unfold SumRepresentable at hrep
  unfold fpAdd pyAdd; rw [hl, hl, hlow]
  by_cases hna : isNaN F a = true
  · rw [widen_nan a hna, add_nan_left _ _ _ isNaN_nanBits_D, narrow_nan]; unfold add; simp [hna]
  by_cases hnb : isNaN F b = true
  · rw [widen_nan b hnb, add_nan_right _ _ _ isNaN_nanBits_D, narrow_nan]; unfold add; simp [hnb]
  have hna' : isNaN F a = false := by simpa using hna
  have hnb' : isNaN F b = false := by simpa using hnb
  obtain ⟨na, ia, sa, va⟩ := widen_props a hna'
  obtain ⟨nb, ib, sb, vb⟩ := widen_props b hnb'
  cases hia : isInf F a
  case true =>
    have hD : add D .RNE (widen a) (widen b) =
        if (isInf F b && signOf F a != signOf F b) = true then D.nanBits else mkBits D (signOf F a) D.infMag := by
      unfold add; simp only [na, nb, ia, ib, sa, sb, hia, Bool.or_self, Bool.false_eq_true, if_false, if_true]
    have hF : add F .RNE a b =
        if (isInf F b && signOf F a != signOf F b) = true then F.nanBits else mkBits F (signOf F a) F.infMag := by
      unfold add; simp only [hna', hnb', hia, Bool.or_self, Bool.false_eq_true, if_false, if_true]
    rw [hD, hF]; split
    · exact narrow_nan
    · exact narrow_inf _
  case false =>
    cases hib : isInf F b
    case true =>
      have hD : add D .RNE (widen a) (widen b) = mkBits D (signOf F b) D.infMag := by
        unfold add; simp only [na, nb, ia, ib, sb, hia, hib, Bool.or_self, Bool.false_eq_true, if_false, if_true]
      have hF : add F .RNE a b = mkBits F (signOf F b) F.infMag := by
        unfold add; simp only [hna', hnb', hia, hib, Bool.or_self, Bool.false_eq_true, if_false, if_true]
      rw [hD, hF]; exact narrow_inf _
    case false =>
      have hS : sintOf D (widen a) + sintOf D (widen b) = (sintOf F a + sintOf F b) * 2 ^ 925 := by
        rw [va hia, vb hib, Int.add_mul]
      have hpos : (0 : Int) < 2 ^ 925 := Int.pow_pos (by decide)
      generalize hSF : sintOf F a + sintOf F b = SF at *
      have hD : add D .RNE (widen a) (widen b) =
          if SF = 0 then (if (signOf F a == signOf F b) = true then mkBits D (signOf F a) 0 else mkBits D false 0)
          else roundS D .RNE (decide (SF < 0)) (SF.natAbs * 2 ^ 925) 1 := by
        unfold add
        simp only [na, nb, ia, ib, sa, sb, hia, hib, Bool.or_self, Bool.false_eq_true, if_false, hS]
        by_cases h0 : SF = 0
        · simp [h0]
        · have hne : SF * 2 ^ 925 ≠ 0 := Int.mul_ne_zero h0 (by omega)
          have hlt : (SF * 2 ^ 925 < 0) ↔ (SF < 0) := by
            constructor
            · intro h; apply Classical.byContradiction; intro hc
              have : 0 ≤ SF * 2 ^ 925 := Int.mul_nonneg (by omega) (by omega)
              omega
            · intro h; exact Int.mul_neg_of_neg_of_pos h hpos
          have hab : (SF * 2 ^ 925).natAbs = SF.natAbs * 2 ^ 925 := by
            rw [Int.natAbs_mul]; congr 1
          simp only [hne, if_false, hab, hlt]
          rw [if_neg h0]
      have hF : add F .RNE a b =
          if SF = 0 then (if (signOf F a == signOf F b) = true then mkBits F (signOf F a) 0 else mkBits F false 0)
          else roundS F .RNE (decide (SF < 0)) SF.natAbs 1 := by
        unfold add
        simp only [hna', hnb', hia, hib, Bool.or_self, Bool.false_eq_true, if_false, hSF]
        by_cases h0 : SF = 0 <;> simp [h0]
      rw [hD, hF]
      by_cases h0 : SF = 0
      · simp only [h0, if_true]; split <;> exact narrow_zero _
      · simp only [h0, if_false]
        obtain ⟨g3, hg3f, hg3v⟩ := hrep
        rw [roundS_exact' D wf64 .RNE _ g3 _ 1 Nat.zero_lt_one hg3f (by rw [hg3v, Nat.mul_one])]
        unfold narrow cvt
        simp only [notNaN_mkBits _ g3 hg3f, notInf_mkBits _ g3 hg3f, signOf_mkBits _ g3 hg3f, magOf_mkBits _ g3 hg3f,
          Bool.false_eq_true, if_false, Fq, Dq]
        rw [hg3v, Nat.mul_assoc, ← Nat.pow_add]
        have := roundS_scale F .RNE (decide (SF < 0)) SF.natAbs 1 (2 ^ 1074) Nat.zero_lt_one (Nat.two_pow_pos _)
        rw [Nat.one_mul] at this
        exact this

end Claripy.FP.Fold

namespace Claripy.FP.Fold
open Claripy.FP Claripy.FP.Extract

theorem sval_F_lt (mag : Nat) (hfin : mag < F.infMag) : sval F mag < 2 ^ 277 := by
  obtain ⟨sig, e, hv, hs, he⟩ := sval_F_form mag hfin
  rw [hv]
  calc sig * 2 ^ e < 2 ^ 24 * 2 ^ e := Nat.mul_lt_mul_of_pos_right hs (Nat.two_pow_pos _)
    _ = 2 ^ (24 + e) := by rw [← Nat.pow_add]
    _ ≤ 2 ^ 277 := Nat.pow_le_pow_right (by decide) (by omega)

theorem sintOf_F_natAbs_lt (a : Nat) (hfin : magOf F a < F.infMag) : (sintOf F a).natAbs < 2 ^ 277 := by
  have := sval_F_lt (magOf F a) hfin
  unfold sintOf; split <;> simpa using this

/-- a concrete sufficient condition: the exact sum has at most 53 significant bits -/
theorem sumRepresentable_of_53_bits (a b M k : Nat) (hfa : magOf F a < F.infMag) (hfb : magOf F b < F.infMag)
    (hS : (sintOf F a + sintOf F b).natAbs = M * 2 ^ k) (hM : M < 2 ^ 53) : SumRepresentable a b := by
  obtain ⟨g, hg⟩ := representable_of_dyadic D M (k + 925) (by rw [Dmbits]; exact Nat.lt_of_lt_of_le hM (by decide))
  refine ⟨g, ?_, by rw [hg, hS, Nat.mul_assoc, ← Nat.pow_add]⟩
  apply finite_of_lt_pow g 1203 (by decide)
  rw [hg, Nat.pow_add, ← Nat.mul_assoc, ← hS]
  have h1 := sintOf_F_natAbs_lt a hfa
  have h2 := sintOf_F_natAbs_lt b hfb
  have h3 : (sintOf F a + sintOf F b).natAbs < 2 ^ 278 := by
    have := Int.natAbs_add_le (sintOf F a) (sintOf F b)
    have e : (2 : Nat) ^ 278 = 2 ^ 277 + 2 ^ 277 := by rw [show (278 : Nat) = 277 + 1 by rfl, Nat.pow_succ]; omega
    omega
  calc (sintOf F a + sintOf F b).natAbs * 2 ^ 925 < 2 ^ 278 * 2 ^ 925 := Nat.mul_lt_mul_of_pos_right h3 (Nat.two_pow_pos _)
    _ = 2 ^ 1203 := by rw [← Nat.pow_add]

end Claripy.FP.Fold
