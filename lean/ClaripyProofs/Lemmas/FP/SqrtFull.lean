import ClaripyProofs.Lemmas.FP.SqrtDR
/-! FLOAT square root, every operand (NaN, zeros of both signs, negative values, +infinity, subnormals). -/
namespace Claripy.FP.Fold
open Claripy.FP Claripy.FP.Extract

theorem sqrt_finite_F (a : Nat) (hn : isNaN F a = false) (hz : isZero F a = false) (hs : signOf F a = false)
    (hi : isInf F a = false) :
    sqrt F .RNE a = roundS F .RNE false (sqrtProxy (sval F (magOf F a) * 2 ^ 149 * 4 ^ 26)) (2 ^ 27) := by
  unfold sqrt sqrtProxy
  simp only [hn, hz, hs, hi, Bool.false_eq_true, if_false, Fq]
  rfl

theorem sqrt_finite_D (a : Nat) (hn : isNaN D a = false) (hz : isZero D a = false) (hs : signOf D a = false)
    (hi : isInf D a = false) :
    sqrt D .RNE a = roundS D .RNE false (sqrtProxy (sval D (magOf D a) * 2 ^ 1074 * 4 ^ 55)) (2 ^ 56) := by
  unfold sqrt sqrtProxy
  simp only [hn, hz, hs, hi, Bool.false_eq_true, if_false, Dq]
  rfl

theorem mod_width_F (a : Nat) : a % 2 ^ F.width = mkBits F (signOf F a) (magOf F a) := by
  have hw : F.width = 32 := by decide
  have hlt : a % 2 ^ 32 < 2 ^ 32 := Nat.mod_lt _ (Nat.two_pow_pos _)
  have h := bits_decomp_F (a % 2 ^ 32) hlt
  have hs : signOf F (a % 2 ^ 32) = signOf F a := by unfold signOf; rw [hw, Nat.mod_mod]
  have hm : magOf F (a % 2 ^ 32) = magOf F a := by
    unfold magOf; rw [FsignBit]; exact Nat.mod_mod_of_dvd a (Nat.pow_dvd_pow 2 (by decide))
  rw [hs, hm] at h; rw [hw]; exact h

/-- FLOAT SQUARE ROOT, every operand: `math.sqrt` of the widened operand, packed as binary32, is the binary32 square root -/
theorem narrow_sqrt_widen (a : Nat) : narrow (sqrt D .RNE (widen a)) = sqrt F .RNE a := by
  by_cases hna : isNaN F a = true
  · rw [widen_nan a hna, sqrt_nan _ _ isNaN_nanBits_D, narrow_nan]; unfold sqrt; simp [hna]
  have hn : isNaN F a = false := by simpa using hna
  obtain ⟨nD, iD, sD, _⟩ := widen_props a hn
  have zD := isZero_widen a hn
  cases hz : isZero F a
  case true =>
    -- ±0: the sign is kept
    have hm0 : magOf F a = 0 := by unfold isZero at hz; simpa using hz
    have hfin : magOf F a < F.infMag := by rw [hm0]; decide
    obtain ⟨g, hgf, hgv, hc⟩ := cvt_widen_finite .RNE a hfin
    have hg0 : g = 0 := sval_injective D (by rw [hgv, hm0, sval_zero, sval_zero, Nat.zero_mul])
    have hw : widen a = mkBits D (signOf F a) 0 := by rw [← hg0]; exact hc
    have hD : sqrt D .RNE (widen a) = mkBits D (signOf F a) 0 := by
      unfold sqrt; rw [zD, hz, nD]; simp only [Bool.false_eq_true, if_false, if_true]
      rw [hw]; cases signOf F a <;> decide
    have hF : sqrt F .RNE a = mkBits F (signOf F a) 0 := by
      unfold sqrt; rw [hz, hn]; simp only [Bool.false_eq_true, if_false, if_true]
      rw [mod_width_F, hm0]
    rw [hD, hF]; exact narrow_zero _
  case false =>
    rw [hz] at zD
    cases hs : signOf F a
    case true =>
      have hD : sqrt D .RNE (widen a) = D.nanBits := by
        unfold sqrt; simp only [nD, zD, sD, hs, Bool.false_eq_true, if_false, if_true]
      have hF : sqrt F .RNE a = F.nanBits := by
        unfold sqrt; simp only [hn, hz, hs, Bool.false_eq_true, if_false, if_true]
      rw [hD, hF]; exact narrow_nan
    case false =>
      rw [hs] at sD
      cases hi : isInf F a
      case true =>
        have hD : sqrt D .RNE (widen a) = mkBits D false D.infMag := by
          unfold sqrt; simp only [nD, zD, sD, iD, hi, Bool.false_eq_true, if_false, if_true]
        have hF : sqrt F .RNE a = mkBits F false F.infMag := by
          unfold sqrt; simp only [hn, hz, hs, hi, Bool.false_eq_true, if_false, if_true]
        rw [hD, hF]; exact narrow_inf _
      case false =>
        rw [hi] at iD
        have hfin : magOf F a < F.infMag := by
          unfold isNaN at hn; unfold isInf at hi; simp at hn hi; omega
        obtain ⟨g, hgf, hgv, hc⟩ := cvt_widen_finite .RNE a hfin
        have hw : widen a = mkBits D (signOf F a) g := hc
        have hpos : 0 < sval F (magOf F a) := (isZero_iff_sval F a).1 hz
        rw [sqrt_finite_D _ nD zD sD iD, sqrt_finite_F a hn hz hs hi, hw, magOf_mkBits _ g hgf, hgv]
        exact narrow_round_sqrt (magOf F a) hfin hpos

/-- the fold of a FLOAT square root (`nan if value < 0 else math.sqrt(value)`) is the binary64 square root of the widened
operand packed as binary32 -/
theorem fpSqrt_F_narrow (rm : RM) (a : Nat) : fpSqrt F rm a = narrow (sqrt D .RNE (widen a)) := by
  have hl : lift F a = widen a := by unfold lift; rw [if_pos rfl]
  have hlow : ∀ d, lower F d = narrow d := fun d => by unfold lower; rw [if_pos rfl]
  unfold fpSqrt pySqrt
  simp only [hl, hlow]
  cases hf : flt D (widen a) (mkBits D false 0)
  · simp
  · simp only [if_true]
    obtain ⟨hz, hs⟩ := flt_zero_imp (widen a) hf
    have hnn : isNaN D (widen a) = false := by
      unfold flt unordered at hf; simp at hf; exact hf.1.1
    have : sqrt D .RNE (widen a) = D.nanBits := by
      unfold sqrt; simp only [hnn, hz, hs, Bool.false_eq_true, if_false, if_true]
    rw [this]

/-- … which is the binary32 square root -/
theorem fpSqrt_F (rm : RM) (a : Nat) : fpSqrt F rm a = sqrt F .RNE a := by
  rw [fpSqrt_F_narrow, narrow_sqrt_widen]

end Claripy.FP.Fold
