import ClaripyProofs.Lemmas.FP.AddDR
/-! FLOAT subtraction: `a - b = a + (-b)` in both formats, and widening commutes with negation. -/
namespace Claripy.FP.Fold
open Claripy.FP Claripy.FP.Extract

theorem magOf_le_F (b : Nat) : magOf F b < 2 ^ 31 := by
  unfold magOf; rw [FsignBit]; exact Nat.mod_lt _ (Nat.two_pow_pos _)

/-- widening commutes with negation (non-NaN operands) -/
theorem widen_neg (b : Nat) (hn : isNaN F b = false) : widen (neg F b) = neg D (widen b) := by
  have hmle : magOf F b ≤ F.infMag := by unfold isNaN at hn; simp at hn; omega
  have hmag : magOf F (neg F b) = magOf F b := by rw [neg_eq_mkBits_F, magOf_mkBits_F _ _ hmle]
  have hsgn : signOf F (neg F b) = !signOf F b := by rw [neg_eq_mkBits_F, signOf_mkBits_F _ _ hmle]
  by_cases hi : isInf F b = true
  · have hi2 : isInf F (neg F b) = true := by unfold isInf at *; rw [hmag]; exact hi
    have hn2 : isNaN F (neg F b) = false := by unfold isNaN at *; rw [hmag]; exact hn
    have hw : widen b = mkBits D (signOf F b) D.infMag := by unfold widen cvt; simp [hn, hi]
    have hw2 : widen (neg F b) = mkBits D (!signOf F b) D.infMag := by unfold widen cvt; simp [hn2, hi2, hsgn]
    rw [hw, hw2]
    cases signOf F b <;> decide +kernel
  · have hfin : magOf F b < F.infMag := by
      unfold isNaN at hn; unfold isInf at hi; simp at hn hi; omega
    obtain ⟨g, hgf, hgv, hc⟩ := cvt_widen_finite .RNE b hfin
    obtain ⟨g2, hg2f, hg2v, hc2⟩ := cvt_widen_finite .RNE (neg F b) (by rw [hmag]; exact hfin)
    have hw : widen b = mkBits D (signOf F b) g := hc
    have hw2 : widen (neg F b) = mkBits D (signOf F (neg F b)) g2 := hc2
    have : g2 = g := sval_injective D (by rw [hg2v, hgv, hmag])
    rw [hw, hw2, this, hsgn, neg_mkBits_D _ g hgf]

theorem isNaN_widen (a : Nat) : isNaN D (widen a) = isNaN F a := by
  cases hx : isNaN F a
  · exact (widen_props a hx).1
  · rw [widen_nan a hx]; decide

/-- FLOAT SUBTRACTION, every pair of operands -/
theorem narrow_sub_widen (a b : Nat) : narrow (sub D .RNE (widen a) (widen b)) = sub F .RNE a b := by
  unfold sub
  rw [isNaN_widen b]
  cases hn : isNaN F b
  · simp only [Bool.false_eq_true, if_false]
    rw [← widen_neg b hn]; exact narrow_add_widen a (neg F b)
  · simp only [if_true]; exact narrow_nan

theorem fpSub_F (rm : RM) (a b : Nat) : fpSub F rm a b = sub F .RNE a b := by
  have hl : ∀ x, lift F x = widen x := fun x => by unfold lift; rw [if_pos rfl]
  have hlow : ∀ d, lower F d = narrow d := fun d => by unfold lower; rw [if_pos rfl]
  unfold fpSub pySub; rw [hl, hl, hlow]; exact narrow_sub_widen a b

end Claripy.FP.Fold
