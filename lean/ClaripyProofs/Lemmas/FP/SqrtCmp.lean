import ClaripyProofs.Lemmas.FP.Mono
/-!
# The square-root proxy `(2 * isqrt n + sticky) / 2` compares with integers like `sqrt n` itself; round-to-nearest-even depends on
its input only through the comparisons with the half-integers of the format's unit.
-/
namespace Claripy.FP

/-- the sticky proxy of `sqrt n` compares with every integer `C` exactly as `n` compares with `C²` -/
theorem sqrt_proxy_cmp (n C : Nat) :
    let r := Nat.sqrt n
    let s := if r * r = n then 0 else 1
    (2 * C ≤ 2 * r + s ↔ C * C ≤ n) ∧ (2 * r + s ≤ 2 * C ↔ n ≤ C * C) := by
  intro r s
  have h1 : r * r ≤ n := Nat.sqrt_le n
  have h2 : n < (r + 1) * (r + 1) := Nat.lt_succ_sqrt n
  have hs : s ≤ 1 := by show (if r * r = n then 0 else 1) ≤ 1; split <;> omega
  have hs0 : s = 0 ↔ r * r = n := by
    show (if r * r = n then 0 else 1) = 0 ↔ _
    split <;> simp_all
  refine ⟨⟨fun h => ?_, fun h => ?_⟩, ⟨fun h => ?_, fun h => ?_⟩⟩
  · have : C ≤ r := by omega
    exact Nat.le_trans (Nat.mul_self_le_mul_self this) h1
  · have : C < r + 1 := Nat.mul_self_lt_mul_self_iff.1 (Nat.lt_of_le_of_lt h h2)
    omega
  · by_cases hlt : r < C
    · exact Nat.le_of_lt (Nat.lt_of_lt_of_le h2 (Nat.mul_self_le_mul_self (by omega)))
    · have hrc : r = C := by omega
      have : s = 0 := by omega
      rw [← hrc, hs0.1 this]; exact Nat.le_refl _
  · have hrc : r ≤ C := Nat.mul_self_le_mul_self_iff.1 (Nat.le_trans h1 h)
    by_cases hlt : r < C
    · omega
    · have hrc : r = C := by omega
      have : r * r = n := by rw [← hrc] at h; omega
      have := hs0.2 this
      omega

/-- round-to-nearest-even sees its input only through the comparisons with half-integers `c/2` of the format's unit -/
theorem round_congr (f : Fmt) (wf : WF f) (neg : Bool) (sc den sc' den' : Nat) (hden : 0 < den) (hden' : 0 < den')
    (hle : ∀ c, c * den ≤ 2 * sc ↔ c * den' ≤ 2 * sc') (hge : ∀ c, 2 * sc ≤ c * den ↔ 2 * sc' ≤ c * den') :
    roundScaled f .RNE neg sc den = roundScaled f .RNE neg sc' den' := by
  have hint : ∀ v, (v * den ≤ sc ↔ v * den' ≤ sc') := by
    intro v
    have := hle (2 * v)
    rw [Nat.mul_assoc, Nat.mul_assoc] at this
    omega
  by_cases hR : sc < sval f f.infMag * den
  · have hR' : sc' < sval f f.infMag * den' := by
      have := hint (sval f f.infMag); omega
    have hIn := (inRange_iff f wf sc den hden).2 hR
    have hIn' := (inRange_iff f wf sc' den' hden').2 hR'
    obtain ⟨fl1, fl2⟩ := floor_law f sc den hden
    have hfloor : floorMag f sc' den' = floorMag f sc den := by
      apply floor_unique f sc' den' _ hden'
      · exact (hint _).1 fl1
      · have := hint (sval f (floorMag f sc den + 1)); omega
    rw [round_rne f wf neg sc den hden hIn, round_rne f wf neg sc' den' hden' hIn']
    dsimp only
    rw [hfloor]
    generalize floorMag f sc den = lo
    have h1 := hle (sval f lo + sval f (lo + 1))
    have h2 := hge (sval f lo + sval f (lo + 1))
    generalize (sval f lo + sval f (lo + 1)) * den = A at *
    generalize (sval f lo + sval f (lo + 1)) * den' = A' at *
    by_cases c1 : 2 * sc < A
    · rw [if_pos c1, if_pos (show 2 * sc' < A' by omega)]
    · rw [if_neg c1, if_neg (show ¬ 2 * sc' < A' by omega)]
      by_cases c2 : 2 * sc > A
      · rw [if_pos c2, if_pos (show 2 * sc' > A' by omega)]
      · rw [if_neg c2, if_neg (show ¬ 2 * sc' > A' by omega)]
  · have hR' : ¬ sc' < sval f f.infMag * den' := by
      have := hint (sval f f.infMag); omega
    rw [roundScaled_overflow f .RNE neg sc den (fun hI => hR ((inRange_iff f wf sc den hden).1 hI)),
      roundScaled_overflow f .RNE neg sc' den' (fun hI => hR' ((inRange_iff f wf sc' den' hden').1 hI))]

end Claripy.FP
