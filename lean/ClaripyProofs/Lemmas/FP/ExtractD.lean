import ClaripyProofs.Lemmas.FP.Repr
import Claripy.FP.Extract
/-! `_abstract_fp_val`: the three binary64 operations `sign * float(sig) * 2**exp` are all exact. -/
namespace Claripy.FP.Extract
open Claripy.FP Claripy.FP.Fold

theorem Dq : D.q = 1074 := by decide
theorem Dmbits : D.mbits = 52 := by decide
theorem Dbias : D.bias = 1023 := by decide
theorem DlgMax : D.lgMax + 1 = 2098 := by decide
theorem DsignBit : D.signBit = 2 ^ 63 := by decide
theorem DinfMag_lt : D.infMag < 2 ^ 63 := by decide

theorem sval_infMag_D : sval D D.infMag = 2 ^ 2098 := by rw [sval_infMag D wf64, DlgMax]

theorem finite_of_lt_pow (g k : Nat) (hk : k ≤ 2098) (h : sval D g < 2 ^ k) : g < D.infMag := by
  apply finite_of_sval_lt
  rw [sval_infMag_D]
  exact Nat.lt_of_lt_of_le h (Nat.pow_le_pow_right (by decide) hk)

/-! bit patterns built by `mkBits` -/
theorem magOf_mkBits (s : Bool) (g : Nat) (hg : g < D.infMag) : magOf D (mkBits D s g) = g := by
  have := DinfMag_lt
  unfold magOf mkBits; rw [DsignBit]
  cases s <;> simp <;> omega

theorem signOf_mkBits (s : Bool) (g : Nat) (hg : g < D.infMag) : signOf D (mkBits D s g) = s := by
  have := DinfMag_lt
  unfold signOf mkBits; rw [DsignBit]
  have hw : D.width = 64 := by decide
  rw [hw]
  cases s <;> simp <;> omega

theorem notNaN_mkBits (s : Bool) (g : Nat) (hg : g < D.infMag) : isNaN D (mkBits D s g) = false := by
  unfold isNaN; rw [magOf_mkBits s g hg]; simp; omega
theorem notInf_mkBits (s : Bool) (g : Nat) (hg : g < D.infMag) : isInf D (mkBits D s g) = false := by
  unfold isInf; rw [magOf_mkBits s g hg]; simp; omega

theorem neg_mkBits (g : Nat) (hg : g < D.infMag) : neg D (mkBits D false g) = mkBits D true g := by
  unfold neg
  rw [signOf_mkBits false g hg, magOf_mkBits false g hg]
  simp [mkBits]

/-- a product of two finite doubles whose exact value is a double is that double -/
theorem mul_exact (rm : RM) (s1 s2 : Bool) (g1 g2 g3 : Nat) (h1 : g1 < D.infMag) (h2 : g2 < D.infMag) (h3 : g3 < D.infMag)
    (hv : sval D g1 * sval D g2 = sval D g3 * 2 ^ 1074) :
    mul D rm (mkBits D s1 g1) (mkBits D s2 g2) = mkBits D (s1 != s2) g3 := by
  unfold mul
  simp only [notNaN_mkBits, notInf_mkBits, h1, h2, signOf_mkBits, magOf_mkBits, Bool.or_self, Bool.false_eq_true, if_false, Dq]
  exact roundS_exact' D wf64 rm _ g3 _ _ (Nat.two_pow_pos _) h3 hv

/-- `float("<decimal of sig / 2^mbits>")` is exact -/
theorem mant_exact (mb sig : Nat) (hmb : mb ≤ 52) (hsig : sig < 2 * 2 ^ mb) :
    ∃ g1, g1 < D.infMag ∧ sval D g1 = sig * 2 ^ (1074 - mb) ∧ pyFloatOfRat sig (2 ^ mb) = mkBits D false g1 := by
  have hle : 2 ^ mb ≤ 2 ^ 52 := Nat.pow_le_pow_right (by decide) hmb
  obtain ⟨g1, hg1⟩ := representable_of_dyadic D sig (1074 - mb) (by rw [Dmbits]; omega)
  have hfin : g1 < D.infMag := by
    apply finite_of_lt_pow g1 1075 (by decide)
    rw [hg1]
    calc sig * 2 ^ (1074 - mb) < (2 * 2 ^ mb) * 2 ^ (1074 - mb) := Nat.mul_lt_mul_of_pos_right hsig (Nat.two_pow_pos _)
      _ = 2 ^ 1075 := by rw [Nat.mul_assoc, ← Nat.pow_add, ← Nat.pow_succ']; congr 1; omega
  refine ⟨g1, hfin, hg1, ?_⟩
  unfold pyFloatOfRat roundRat
  rw [Dq]
  apply roundS_exact' D wf64 .RNE false g1 _ _ (Nat.two_pow_pos _) hfin
  rw [hg1, Nat.mul_assoc, ← Nat.pow_add]; congr 2; omega

/-- `2 ** (hi - lo)` as a float is exact -/
theorem pow_exact (hi lo : Nat) (hlo : lo ≤ 1074 + hi) (hhi : hi ≤ lo + 1023) :
    ∃ g2, g2 < D.infMag ∧ sval D g2 = 2 ^ (1074 + hi - lo) ∧ pyPow2 hi lo = mkBits D false g2 := by
  obtain ⟨g2, hg2⟩ := representable_of_dyadic D 1 (1074 + hi - lo) (by rw [Dmbits]; decide)
  rw [Nat.one_mul] at hg2
  have hfin : g2 < D.infMag := by
    apply finite_of_lt_pow g2 2098 (by decide)
    rw [hg2]; exact Nat.pow_lt_pow_right (by decide) (by omega)
  refine ⟨g2, hfin, hg2, ?_⟩
  unfold pyPow2 roundRat
  rw [Dq]
  by_cases h : hi ≥ lo
  · rw [if_pos h]
    apply roundS_exact' D wf64 .RNE false g2 _ _ (by decide) hfin
    rw [hg2, Nat.mul_one, ← Nat.pow_add]; congr 1; omega
  · rw [if_neg h]
    apply roundS_exact' D wf64 .RNE false g2 _ _ (Nat.two_pow_pos _) hfin
    rw [hg2, Nat.one_mul, ← Nat.pow_add]; congr 1; omega

end Claripy.FP.Extract

namespace Claripy.FP.Extract
open Claripy.FP Claripy.FP.Fold

/-- a 64-bit pattern is its sign and its magnitude -/
theorem bits_decomp (b : Nat) (hb : b < 2 ^ 64) : b = mkBits D (signOf D b) (magOf D b) := by
  unfold mkBits signOf magOf
  rw [DsignBit]
  have hw : D.width = 64 := by decide
  rw [hw, Nat.mod_eq_of_lt hb]
  by_cases h : b ≥ 2 ^ 63
  · simp only [h, decide_true, if_true]; omega
  · simp only [h, decide_false, Bool.false_eq_true, if_false]; omega

/-- FLOAT RECONSTRUCTION (binary64): `sign * float(sig) * 2**exp` is the numeral, for every non-NaN double -/
theorem abstractFpVal_D (b : Nat) (hb : b < 2 ^ 64) (hn : isNaN D b = false) : abstractFpVal D b = b := by
  have hdec := bits_decomp b hb
  unfold abstractFpVal
  simp only [hn, Bool.false_eq_true, if_false]
  by_cases hi : isInf D b = true
  · simp only [hi, if_true]
    unfold isInf at hi; simp only [decide_eq_true_eq] at hi
    rw [hi] at hdec; exact hdec.symm
  · have hi' : isInf D b = false := by simpa using hi
    simp only [hi', Bool.false_eq_true, if_false]
    by_cases hz : isZero D b = true
    · simp only [hz, if_true]
      unfold isZero at hz; simp only [decide_eq_true_eq] at hz
      rw [hz] at hdec; exact hdec.symm
    · have hz' : isZero D b = false := by simpa using hz
      simp only [hz', Bool.false_eq_true, if_false]
      -- finite, non-zero
      have hfin : magOf D b < D.infMag := by
        unfold isNaN at hn; unfold isInf at hi'
        simp only [decide_eq_false_iff_not] at hn hi'; omega
      generalize hmag : magOf D b = mag at *
      obtain ⟨sh, sig, hg, hsh, hsig, hshE, hsigE⟩ := mag_decomp D mag
      rw [Dmbits] at hg hsh hsig hshE
      have hE : mag / 2 ^ 52 ≤ 2046 := by
        have : D.infMag = 2047 * 2 ^ 52 := by decide
        rw [this] at hfin
        have := (Nat.div_lt_iff_lt_mul (Nat.two_pow_pos 52)).2 hfin
        omega
      obtain ⟨g1, hg1f, hg1v, hg1⟩ := mant_exact 52 sig (by decide) hsig
      obtain ⟨g2, hg2f, hg2v, hg2⟩ := pow_exact (max (mag / 2 ^ 52) 1) 1023 (by omega) (by omega)
      rw [Dmbits, Dbias, ← hsigE, hg1, hg2]
      have hsm : (if signOf D b = true then neg D (mkBits D false g1) else mkBits D false g1) = mkBits D (signOf D b) g1 := by
        cases signOf D b
        · simp
        · simp only [if_true]; exact neg_mkBits g1 hg1f
      rw [hsm]
      unfold pyMul
      have hv : sval D g1 * sval D g2 = sval D mag * 2 ^ 1074 := by
        rw [hg1v, hg2v]
        have hs : sval D mag = sig * 2 ^ (mag / 2 ^ 52 - 1) := by
          unfold sval; rw [Dmbits, ← hsigE]
        rw [hs]
        generalize mag / 2 ^ 52 = E at *
        have e1 : 1074 - 52 + (1074 + max E 1 - 1023) = (E - 1) + 1074 := by omega
        rw [Nat.mul_assoc, Nat.mul_assoc, ← Nat.pow_add, ← Nat.pow_add, e1]
      rw [mul_exact .RNE (signOf D b) false g1 g2 mag hg1f hg2f hfin hv]
      simp only [Bool.bne_false]
      exact hdec.symm

end Claripy.FP.Extract
