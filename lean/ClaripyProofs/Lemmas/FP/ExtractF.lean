import ClaripyProofs.Lemmas.FP.ExtractD
/-! `_abstract_fp_val` for binary32 numerals: the Python float is exact and packs back to the same 32 bits. -/
namespace Claripy.FP.Extract
open Claripy.FP Claripy.FP.Fold

theorem Fq : F.q = 149 := by decide
theorem Fmbits : F.mbits = 23 := by decide
theorem Fbias : F.bias = 127 := by decide
theorem FsignBit : F.signBit = 2 ^ 31 := by decide

theorem bits_decomp_F (b : Nat) (hb : b < 2 ^ 32) : b = mkBits F (signOf F b) (magOf F b) := by
  unfold mkBits signOf magOf
  rw [FsignBit]
  have hw : F.width = 32 := by decide
  rw [hw, Nat.mod_eq_of_lt hb]
  by_cases h : b ≥ 2 ^ 31
  · simp only [h, decide_true, if_true]; omega
  · simp only [h, decide_false, Bool.false_eq_true, if_false]; omega

/-- packing a double that holds a binary32 value (`struct.pack('f')`) gives that binary32 value -/
theorem narrow_exact (s : Bool) (g3 mag : Nat) (h3 : g3 < D.infMag) (hm : mag < F.infMag)
    (hv : sval D g3 = sval F mag * 2 ^ 925) : narrow (mkBits D s g3) = mkBits F s mag := by
  unfold narrow cvt
  simp only [notNaN_mkBits s g3 h3, notInf_mkBits s g3 h3, signOf_mkBits s g3 h3, magOf_mkBits s g3 h3,
    Bool.false_eq_true, if_false, Fq, Dq]
  apply roundS_exact' F wf32 .RNE s mag _ _ (Nat.two_pow_pos _) hm
  rw [hv, Nat.mul_assoc, ← Nat.pow_add]

/-- FLOAT RECONSTRUCTION (binary32): the double computed as `sign * float(sig) * 2**exp`, packed as binary32, is the numeral -/
theorem abstractFpVal_F (b : Nat) (hb : b < 2 ^ 32) (hn : isNaN F b = false) : lower F (abstractFpVal F b) = b := by
  have hdec := bits_decomp_F b hb
  have hlow : ∀ d, lower F d = narrow d := fun d => by unfold lower; rw [if_pos rfl]
  rw [hlow]
  unfold abstractFpVal
  simp only [hn, Bool.false_eq_true, if_false]
  by_cases hi : isInf F b = true
  · simp only [hi, if_true]
    unfold isInf at hi; simp only [decide_eq_true_eq] at hi
    rw [hi] at hdec
    rw [hdec]
    cases signOf F b <;> decide +kernel
  · have hi' : isInf F b = false := by simpa using hi
    simp only [hi', Bool.false_eq_true, if_false]
    by_cases hz : isZero F b = true
    · simp only [hz, if_true]
      unfold isZero at hz; simp only [decide_eq_true_eq] at hz
      rw [hz] at hdec
      rw [hdec]
      cases signOf F b <;> decide +kernel
    · have hz' : isZero F b = false := by simpa using hz
      simp only [hz', Bool.false_eq_true, if_false]
      have hfin : magOf F b < F.infMag := by
        unfold isNaN at hn; unfold isInf at hi'
        simp only [decide_eq_false_iff_not] at hn hi'; omega
      generalize hmag : magOf F b = mag at *
      obtain ⟨sh, sig, hg, hsh, hsig, hshE, hsigE⟩ := mag_decomp F mag
      rw [Fmbits] at hg hsh hsig hshE
      have hE : mag / 2 ^ 23 ≤ 254 := by
        have : F.infMag = 255 * 2 ^ 23 := by decide
        rw [this] at hfin
        have := (Nat.div_lt_iff_lt_mul (Nat.two_pow_pos 23)).2 hfin
        omega
      obtain ⟨g1, hg1f, hg1v, hg1⟩ := mant_exact 23 sig (by decide) hsig
      obtain ⟨g2, hg2f, hg2v, hg2⟩ := pow_exact (max (mag / 2 ^ 23) 1) 127 (by omega) (by omega)
      rw [Fmbits, Fbias, ← hsigE, hg1, hg2]
      have hsm : (if signOf F b = true then neg D (mkBits D false g1) else mkBits D false g1) = mkBits D (signOf F b) g1 := by
        cases signOf F b
        · simp
        · simp only [if_true]; exact neg_mkBits g1 hg1f
      rw [hsm]
      unfold pyMul
      have hs : sval F mag = sig * 2 ^ (mag / 2 ^ 23 - 1) := by
        unfold sval; rw [Fmbits, ← hsigE]
      -- the exact product is the binary32 value scaled to binary64 units
      obtain ⟨g3, hg3v⟩ := representable_of_dyadic D sig (mag / 2 ^ 23 - 1 + 925) (by rw [Dmbits]; omega)
      have hg3v' : sval D g3 = sval F mag * 2 ^ 925 := by
        rw [hg3v, hs, Nat.mul_assoc, ← Nat.pow_add]
      have hg3f : g3 < D.infMag := by
        apply finite_of_lt_pow g3 1203 (by decide)
        rw [hg3v]
        calc sig * 2 ^ (mag / 2 ^ 23 - 1 + 925) < (2 * 2 ^ 23) * 2 ^ (mag / 2 ^ 23 - 1 + 925) :=
              Nat.mul_lt_mul_of_pos_right hsig (Nat.two_pow_pos _)
          _ = 2 ^ (24 + (mag / 2 ^ 23 - 1 + 925)) := by rw [show (2 * 2 ^ 23 : Nat) = 2 ^ 24 by decide, ← Nat.pow_add]
          _ ≤ 2 ^ 1203 := Nat.pow_le_pow_right (by decide) (by omega)
      have hv : sval D g1 * sval D g2 = sval D g3 * 2 ^ 1074 := by
        rw [hg1v, hg2v, hg3v]
        generalize mag / 2 ^ 23 = E at *
        have e1 : 1074 - 23 + (1074 + max E 1 - 127) = (E - 1 + 925) + 1074 := by omega
        rw [Nat.mul_assoc, Nat.mul_assoc, ← Nat.pow_add, ← Nat.pow_add, e1]
      rw [mul_exact .RNE (signOf F b) false g1 g2 g3 hg1f hg2f hg3f hv]
      simp only [Bool.bne_false]
      rw [narrow_exact (signOf F b) g3 mag hg3f hfin hg3v']
      exact hdec.symm

end Claripy.FP.Extract
