import ClaripyProofs.Lemmas.Solver.Z3Obj
/-!
L1, part 2: `_satisfiable`, `_solution`, `_batch_eval`, `_extrema` over an exact oracle.
`hook` is the model callback; all that is assumed about it is `HookOk`: it only touches the frontend record,
never fails, and preserves a frontend predicate `P` when handed a partial model of the assertions `A` — a dict
(`PModel.Sorted`: the models `_generic_model` builds have one entry per constant).
-/
namespace Claripy.Solver

structure HookOk (hook : PModel → M Unit) (A : List ZCon) (P : Frontend → Prop) : Prop where
  frame : ∀ m s, ∃ fe', hook m s = (.ok (), { s with fe := fe' })
  pres : ∀ m s, P s.fe → PartialModelOf m A → m.Sorted → P (hook m s).2.fe

/-- what an L1 algorithm may change: the object `r` (its frames are described separately), the frontend record only
through the hook (so `P` is preserved) -/
structure L1Step (r : Nat) (P : Frontend → Prop) (s s' : St) : Prop extends ObjStep r s s' where
  fe : P s.fe → P s'.fe

theorem L1Step.refl (r : Nat) (P : Frontend → Prop) (s : St) : L1Step r P s s := ⟨ObjStep.refl r s, id⟩

theorem L1Step.trans {r : Nat} {P : Frontend → Prop} {s s' s'' : St} (h1 : L1Step r P s s') (h2 : L1Step r P s' s'') :
    L1Step r P s s'' := ⟨h1.toObjStep.trans h2.toObjStep, fun h => h2.fe (h1.fe h)⟩

theorem CheckStep.toL1 {r : Nat} {s s' : St} (h : CheckStep r s s') (P : Frontend → Prop) : L1Step r P s s' :=
  ⟨h.toObjStep, fun hp => by rw [h.fe]; exact hp⟩

theorem HookOk.step {hook : PModel → M Unit} {A : List ZCon} {P : Frontend → Prop} (hh : HookOk hook A P)
    (m : PModel) (s : St) (r : Nat) (hm : PartialModelOf m A) (hd : m.Sorted) :
    (hook m s).1 = .ok () ∧ L1Step r P s (hook m s).2 ∧ (hook m s).2.objs = s.objs := by
  obtain ⟨fe', h⟩ := hh.frame m s
  have hp := hh.pres m s
  rw [h] at hp ⊢
  exact ⟨rfl, ⟨⟨rfl, fun _ _ => rfl, rfl, rfl⟩, fun hP => hp hP hm hd⟩, rfl⟩

theorem objAt_of_objs_eq {s s' : St} (h : s'.objs = s.objs) (r : Nat) : objAt s' r = objAt s r := by
  simp [objAt, h]

/-- `_satisfiable` is exact, leaves the frames alone, and hands the hook a partial model of the assertions -/
theorem z3Satisfiable_spec {E : Env} (hE : OracleExact E) {hook : PModel → M Unit} {A : List ZCon}
    {P : Frontend → Prop} (hh : HookOk hook A P) (r : Nat) (extra : List ZCon) (s : St)
    (hA : ∀ c ∈ A, c ∈ (objAt s r).asserted) :
    match z3Satisfiable E r extra hook s with
    | (.ok b, s') => (b = true ↔ ∃ a, SatBy ((objAt s r).asserted ++ extra) a) ∧ L1Step r P s s' ∧
                     (objAt s' r).frames = (objAt s r).frames
    | (.error e, s') => IsGiveUp E e ∧ L1Step r P s s' ∧ (objAt s' r).frames = (objAt s r).frames := by
  have hc := z3Check_cases hE r extra s
  simp only [z3Satisfiable, bind, M.bind]
  rcases h : z3Check E r extra s with ⟨res, s1⟩
  rw [h] at hc
  cases res with
  | error e => exact ⟨hc.1, hc.2.toL1 P, hc.2.frames⟩
  | ok v =>
    cases v with
    | none =>
      simp only [pure, M.pure]
      refine ⟨⟨fun hb => by simp at hb, fun ⟨a, ha⟩ => absurd ha (hc.1 a)⟩, hc.2.toL1 P, hc.2.frames⟩
    | some p =>
      obtain ⟨vals, keys⟩ := p
      obtain ⟨hp, hsat, hstep⟩ := hc
      have hm : PartialModelOf (PModel.ofKeys vals keys) A :=
        hp.mono (fun c hc => List.mem_append_left _ (hA c hc))
      obtain ⟨hok, hst, hobjs⟩ := hh.step (PModel.ofKeys vals keys) s1 r hm (PModel.sorted_ofKeys vals keys)
      rcases hk : hook (PModel.ofKeys vals keys) s1 with ⟨res2, s2⟩
      rw [hk] at hok hst hobjs
      simp only at hok
      subst hok
      simp only [M.bind, hk]
      refine ⟨⟨fun _ => ⟨asgOf vals, hsat⟩, fun _ => rfl⟩, (hstep.toL1 P).trans hst, ?_⟩
      rw [objAt_of_objs_eq hobjs]; exact hstep.frames

end Claripy.Solver

namespace Claripy.Solver

/-! ### `_batch_eval` -/

/-- the value tuple `t` is attained by `exprs` in some assignment satisfying `cs` -/
def Realises (cs : List ZCon) (exprs : List Exp) (t : List Nat) : Prop :=
  ∃ a, SatBy cs a ∧ exprs.map (·.val a) = t

theorem notAll_sem (exprs : List Exp) (rv : List Nat) (a : Asg) (hl : rv.length = exprs.length) :
    ((exprs.zip rv).all fun ev => decide (ev.1.val a = ev.2)) = true ↔ exprs.map (·.val a) = rv := by
  induction exprs generalizing rv with
  | nil => cases rv <;> simp_all
  | cons e es ih =>
    cases rv with
    | nil => simp at hl
    | cons v vs =>
      simp only [List.length_cons, Nat.add_right_cancel_iff] at hl
      simp [ih vs hl]

theorem blocking_sem (exprs : List Exp) (rv : List Nat) (a : Asg) (hl : rv.length = exprs.length) :
    (blocking exprs rv).sem a = true ↔ exprs.map (·.val a) ≠ rv := by
  unfold blocking
  split
  · simp
  · simp only [Bool.not_eq_eq_eq_not, Bool.not_true, ne_eq]
    rw [← notAll_sem exprs rv a hl]
    simp

theorem SatBy.append {A B : List ZCon} {a : Asg} : SatBy (A ++ B) a ↔ SatBy A a ∧ SatBy B a := by
  simp only [SatBy, List.mem_append]
  exact ⟨fun h => ⟨fun c hc => h c (Or.inl hc), fun c hc => h c (Or.inr hc)⟩,
         fun ⟨h1, h2⟩ c hc => hc.elim (h1 c) (h2 c)⟩

/-- frames of object `r` after the loop: the innermost frame gained the blocking clauses `B` -/
def TopGrew (r : Nat) (s s' : St) (B : List ZCon) : Prop :=
  ∃ f rest, (objAt s r).frames = f :: rest ∧ (objAt s' r).frames = (f ++ B) :: rest

theorem objAt_set_eq (s : St) (r : Nat) (o : Z3Obj) (h : r < s.objs.length) :
    objAt { s with objs := s.objs.set r o } r = o := by
  simp [objAt, List.getD, h]

theorem batchEvalLoop_spec {E : Env} (hE : OracleExact E) {hook : PModel → M Unit} {A : List ZCon}
    {P : Frontend → Prop} (hh : HookOk hook A P) (r : Nat) (exprs : List Exp) (extra : List ZCon) :
    ∀ (rem : Nat) (acc : List (List Nat)) (s : St), r < s.objs.length → (objAt s r).frames ≠ [] →
      (∀ c ∈ A, c ∈ (objAt s r).asserted) →
      match batchEvalLoop E r exprs extra hook rem acc s with
      | (.ok ts, s') => ∃ new B, ts = acc.reverse ++ new ∧
          (∀ t ∈ new, Realises ((objAt s r).asserted ++ extra) exprs t) ∧ new.Nodup ∧ new.length ≤ rem ∧
          (new.length < rem → ∀ a, SatBy ((objAt s r).asserted ++ extra) a → exprs.map (·.val a) ∈ new) ∧
          L1Step r P s s' ∧ TopGrew r s s' B ∧ (rem ≤ 1 → B = [])
      | (.error e, s') => IsGiveUp E e ∧ ∃ B, L1Step r P s s' ∧ TopGrew r s s' B ∧ (rem ≤ 1 → B = []) := by
  intro rem
  induction rem with
  | zero =>
    intro acc s hr hne hA
    simp only [batchEvalLoop, pure, M.pure]
    obtain ⟨f, rest, hf⟩ := List.exists_cons_of_ne_nil hne
    exact ⟨[], [], by simp, by simp, by simp, by simp, by simp, L1Step.refl r P s, ⟨f, rest, hf, by simp [hf]⟩, fun _ => rfl⟩
  | succ rem ih =>
    intro acc s hr hne hA
    obtain ⟨f, rest, hf⟩ := List.exists_cons_of_ne_nil hne
    have hc := z3Check_cases hE r extra s
    simp only [batchEvalLoop, bind, M.bind]
    rcases h : z3Check E r extra s with ⟨res, s1⟩
    rw [h] at hc
    cases res with
    | error e =>
      exact ⟨hc.1, [], hc.2.toL1 P, ⟨f, rest, hf, by rw [hc.2.frames, hf]; simp⟩, fun _ => rfl⟩
    | ok v =>
      cases v with
      | none =>
        simp only [pure, M.pure]
        refine ⟨[], [], by simp, by simp, by simp, by simp, ?_, hc.2.toL1 P, ⟨f, rest, hf, by rw [hc.2.frames, hf]; simp⟩, fun _ => rfl⟩
        intro _ a ha
        exact absurd ha (hc.1 a)
      | some p =>
        obtain ⟨vals, keys⟩ := p
        obtain ⟨hp, hsat, hstep⟩ := hc
        have hm : PartialModelOf (PModel.ofKeys vals keys) A :=
          hp.mono (fun c hc => List.mem_append_left _ (hA c hc))
        obtain ⟨hok, hst, hobjs⟩ := hh.step (PModel.ofKeys vals keys) s1 r hm (PModel.sorted_ofKeys vals keys)
        rcases hk : hook (PModel.ofKeys vals keys) s1 with ⟨res2, s2⟩
        rw [hk] at hok hst hobjs
        simp only at hok hobjs
        subst hok
        simp only [M.bind, hk]
        -- frames / asserted of s2 are those of s
        have hr1 : r < s1.objs.length := by rw [hstep.len]; exact hr
        have hr2 : r < s2.objs.length := by rw [hobjs]; exact hr1
        have ho2 : objAt s2 r = objAt s1 r := objAt_of_objs_eq hobjs r
        have hfr2 : (objAt s2 r).frames = f :: rest := by rw [ho2, hstep.frames, hf]
        have has2 : (objAt s2 r).asserted = (objAt s r).asserted := by
          simp only [Z3Obj.asserted, hfr2, hf]
        let rv := exprs.map fun e => e.val (asgOf vals)
        have hrv : Realises ((objAt s r).asserted ++ extra) exprs rv := ⟨asgOf vals, hsat, rfl⟩
        by_cases hrem : rem = 0
        · -- last iteration: no blocking clause
          subst hrem
          simp only [ne_eq, not_true_eq_false, ↓reduceIte, batchEvalLoop, pure, M.pure, List.reverse_cons]
          refine ⟨[rv], [], by simp [rv], ?_, by simp, by simp, by simp, (hstep.toL1 P).trans hst,
                  ⟨f, rest, hf, by simp [hfr2]⟩, fun _ => rfl⟩
          intro t ht
          simp only [List.mem_singleton] at ht
          subst ht; exact hrv
        · simp only [ne_eq, hrem, not_false_eq_true, ↓reduceIte, getObj_apply, setObj_apply, M.bind]
          -- state after solver.add(blocking)
          let s3 : St := { s2 with objs := s2.objs.set r ((objAt s2 r).addTop [blocking exprs rv]) }
          have ho3 : objAt s3 r = (objAt s2 r).addTop [blocking exprs rv] := objAt_set_eq s2 r _ hr2
          have hfr3 : (objAt s3 r).frames = (f ++ [blocking exprs rv]) :: rest := by
            rw [ho3]; simp [Z3Obj.addTop, hfr2]
          have has3 : (objAt s3 r).asserted = (objAt s r).asserted ++ [blocking exprs rv] := by
            rw [ho3, Z3Obj.asserted_addTop, has2]
          have hst3 : L1Step r P s2 s3 := ⟨setObj_step r _ s2, fun h => h⟩
          have hih := ih (rv :: acc) s3 (by simp [s3]; exact hr2) (by rw [hfr3]; simp)
            (fun c hc => by rw [has3]; exact List.mem_append_left _ (hA c hc))
          rcases hl : batchEvalLoop E r exprs extra hook rem (rv :: acc) s3 with ⟨res4, s4⟩
          rw [hl] at hih
          have hsub : ∀ a, SatBy ((objAt s3 r).asserted ++ extra) a →
              SatBy ((objAt s r).asserted ++ extra) a ∧ exprs.map (·.val a) ≠ rv := by
            intro a ha
            rw [has3] at ha
            rw [SatBy.append, SatBy.append] at ha
            refine ⟨SatBy.append.mpr ⟨ha.1.1, ha.2⟩, ?_⟩
            have := ha.1.2 (blocking exprs rv) (by simp)
            rwa [blocking_sem exprs rv a (by simp [rv])] at this
          cases res4 with
          | error e =>
            obtain ⟨he, B, hst4, ⟨f', rest', hf', hg'⟩, _⟩ := hih
            rw [hfr3] at hf'
            simp only [List.cons.injEq] at hf'
            obtain ⟨hf1, hf2⟩ := hf'
            subst hf1 hf2
            refine ⟨he, blocking exprs rv :: B, ((hstep.toL1 P).trans hst).trans (hst3.trans hst4),
                    ⟨f, rest, hf, by rw [hg']; simp⟩, fun h => by omega⟩
          | ok ts =>
            obtain ⟨new, B, hts, hreal, hnd, hlen, hcomp, hst4, ⟨f', rest', hf', hg'⟩, _⟩ := hih
            rw [hfr3] at hf'
            simp only [List.cons.injEq] at hf'
            obtain ⟨hf1, hf2⟩ := hf'
            subst hf1 hf2
            refine ⟨rv :: new, blocking exprs rv :: B, by simp [hts], ?_, ?_, by simp; omega, ?_,
                    ((hstep.toL1 P).trans hst).trans (hst3.trans hst4), ⟨f, rest, hf, by rw [hg']; simp⟩,
                    fun h => by omega⟩
            · intro t ht
              rcases List.mem_cons.mp ht with rfl | ht
              · exact hrv
              · obtain ⟨a, ha, hat⟩ := hreal t ht
                exact ⟨a, (hsub a ha).1, hat⟩
            · refine List.nodup_cons.mpr ⟨fun hmem => ?_, hnd⟩
              obtain ⟨a, ha, hat⟩ := hreal rv hmem
              exact (hsub a ha).2 hat
            · intro hlt a ha
              by_cases hav : exprs.map (·.val a) = rv
              · simp [hav]
              · refine List.mem_cons_of_mem _ (hcomp (by simp at hlt; omega) a ?_)
                rw [has3, SatBy.append, SatBy.append]
                rw [SatBy.append] at ha
                refine ⟨⟨ha.1, ?_⟩, ha.2⟩
                intro c hc
                simp only [List.mem_singleton] at hc
                subst hc
                rw [blocking_sem exprs rv a (by simp [rv])]
                exact hav

end Claripy.Solver

namespace Claripy.Solver

theorem Z3Obj.asserted_push (o : Z3Obj) : ({ o with frames := [] :: o.frames } : Z3Obj).asserted = o.asserted := by
  simp [Z3Obj.asserted]

theorem z3Push_eq (r : Nat) (s : St) :
    z3Push r s = (.ok (), { s with objs := s.objs.set r { objAt s r with frames := [] :: (objAt s r).frames } }) := rfl

theorem z3Pop_eq (r : Nat) (s : St) :
    z3Pop r s = (.ok (), { s with objs := s.objs.set r { objAt s r with
      frames := match (objAt s r).frames with | [] => [] | [f] => [f] | _ :: rest => rest } }) := rfl

/-- `_batch_eval`: feasible, pairwise distinct, complete when fewer than `n` exist — and the assertion frames of the
solver object are exactly what they were, whether the call returns or the backend gives up half-way (C17) -/
theorem z3BatchEval_spec {E : Env} (hE : OracleExact E) {hook : PModel → M Unit} {A : List ZCon}
    {P : Frontend → Prop} (hh : HookOk hook A P) (r : Nat) (exprs : List Exp) (n : Nat) (extra : List ZCon) (s : St)
    (hr : r < s.objs.length) (hne : (objAt s r).frames ≠ []) (hA : ∀ c ∈ A, c ∈ (objAt s r).asserted) :
    match z3BatchEval E r exprs n extra hook s with
    | (.ok ts, s') =>
        (∀ t ∈ ts, Realises ((objAt s r).asserted ++ extra) exprs t) ∧ ts.Nodup ∧ ts.length ≤ n ∧
        (ts.length < n → ∀ a, SatBy ((objAt s r).asserted ++ extra) a → exprs.map (·.val a) ∈ ts) ∧
        L1Step r P s s' ∧ (objAt s' r).frames = (objAt s r).frames
    | (.error e, s') => IsGiveUp E e ∧ L1Step r P s s' ∧ (objAt s' r).frames = (objAt s r).frames := by
  obtain ⟨f, rest, hf⟩ := List.exists_cons_of_ne_nil hne
  unfold z3BatchEval
  by_cases hn : n > 1
  · simp only [hn, ↓reduceIte, bind, M.bind, z3Push_eq, M.tryFinally]
    -- state after push
    let sp : St := { s with objs := s.objs.set r { objAt s r with frames := [] :: (objAt s r).frames } }
    have hop : objAt sp r = { objAt s r with frames := [] :: (objAt s r).frames } := objAt_set_eq s r _ hr
    have hfp : (objAt sp r).frames = [] :: f :: rest := by rw [hop, hf]
    have hap : (objAt sp r).asserted = (objAt s r).asserted := by rw [hop]; exact Z3Obj.asserted_push _
    have hstp : L1Step r P s sp := ⟨setObj_step r _ s, fun h => h⟩
    have hl := batchEvalLoop_spec hE hh r exprs extra n [] sp (by simp [sp]; exact hr) (by rw [hfp]; simp)
      (fun c hc => by rw [hap]; exact hA c hc)
    rcases hloop : batchEvalLoop E r exprs extra hook n [] sp with ⟨res, s1⟩
    rw [hloop] at hl
    -- the pop restores the frames in both outcomes
    have hpop : ∀ B, TopGrew r sp s1 B → L1Step r P sp s1 →
        L1Step r P s (z3Pop r s1).2 ∧ (objAt (z3Pop r s1).2 r).frames = (objAt s r).frames ∧ (z3Pop r s1).1 = .ok () := by
      intro B ⟨f', rest', hf', hg'⟩ hst1
      rw [hfp] at hf'
      simp only [List.cons.injEq] at hf'
      obtain ⟨hf1, hf2⟩ := hf'
      subst hf1 hf2
      have hr1 : r < s1.objs.length := by rw [hst1.len]; simp [sp]; exact hr
      rw [z3Pop_eq]
      refine ⟨(hstp.trans hst1).trans ⟨setObj_step r _ s1, fun h => h⟩, ?_, rfl⟩
      rw [objAt_set_eq s1 r _ hr1, hg', hf]
    cases res with
    | error e =>
      obtain ⟨he, B, hst1, hg, _⟩ := hl
      obtain ⟨h1, h2, _⟩ := hpop B hg hst1
      simp only [z3Pop_eq] at h1 h2 ⊢
      exact ⟨he, h1, h2⟩
    | ok ts =>
      obtain ⟨new, B, hts, hreal, hnd, hlen, hcomp, hst1, hg, _⟩ := hl
      obtain ⟨h1, h2, _⟩ := hpop B hg hst1
      simp only [z3Pop_eq] at h1 h2 ⊢
      simp only [List.reverse_nil, List.nil_append] at hts
      subst hts
      rw [hap] at hreal hcomp
      exact ⟨hreal, hnd, hlen, hcomp, h1, h2⟩
  · simp only [hn, ↓reduceIte, M.tryFinally, pure, M.pure]
    have hl := batchEvalLoop_spec hE hh r exprs extra n [] s hr hne hA
    rcases hloop : batchEvalLoop E r exprs extra hook n [] s with ⟨res, s1⟩
    rw [hloop] at hl
    have hfr : ∀ B, TopGrew r s s1 B → B = [] → (objAt s1 r).frames = (objAt s r).frames := by
      intro B ⟨f', rest', hf', hg'⟩ hB
      subst hB
      rw [hg', hf']; simp
    cases res with
    | error e =>
      obtain ⟨he, B, hst1, hg, hB⟩ := hl
      exact ⟨he, hst1, hfr B hg (hB (by omega))⟩
    | ok ts =>
      obtain ⟨new, B, hts, hreal, hnd, hlen, hcomp, hst1, hg, hB⟩ := hl
      simp only [List.reverse_nil, List.nil_append] at hts
      subst hts
      exact ⟨hreal, hnd, hlen, hcomp, hst1, hfr B hg (hB (by omega))⟩

end Claripy.Solver
