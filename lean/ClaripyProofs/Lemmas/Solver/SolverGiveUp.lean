import ClaripyProofs.Lemmas.Solver.SolverReach
/-!
Give-ups are inside the hypotheses of the refinement theorems: an oracle that answers `unknown` where another one answered
keeps `SolverHyps` (`OracleExact` and `EvalComplete` only speak about the `sat` / `unsat` answers).  `gEnv` is the consistent
environment of `SolverConsistent.lean` whose backend gives up on its first checks.
-/
namespace Claripy.Solver

variable {R : Con → Prop} {RE : Exp → Prop} {E : Env}

/-- replacing any answers of the backend by `unknown` keeps all the hypotheses of the refinement theorems -/
theorem SolverHyps.giveUpMore (H : SolverHyps R RE E) (o' : Query → Nat → Answer)
    (ho : ∀ q k, o' q k = E.oracle q k ∨ o' q k = .unknown) : SolverHyps R RE { E with oracle := o' } := by
  refine ⟨⟨H.reg.faithful, H.reg.varsId, H.reg.wf, H.reg.simp_closed, H.reg.falseR, H.reg.falseSem⟩, H.zid, ?_, H.simpOn, H.simpVars,
    H.cheap, H.pick, H.expReg, ⟨?_, ?_⟩, H.triv, H.build⟩
  · intro q k
    show match o' q k with
      | .sat vals keys => ∀ a : Asg, (∀ v ∈ keys, a v = asgOf vals v) → q.holds a = true
      | .unsat _ => ∀ a : Asg, q.holds a = false
      | .unknown => True
    rcases ho q k with h | h
    · rw [h]; exact H.oracle q k
    · rw [h]; trivial
  · intro q k vals keys hor e he
    have hor' : o' q k = .sat vals keys := hor
    rcases ho q k with h | h
    · exact H.evalComplete.agree q k vals keys (by rw [← h]; exact hor') e he
    · rw [h] at hor'; cases hor'
  · intro q k vals keys hor e he
    have hor' : o' q k = .sat vals keys := hor
    rcases ho q k with h | h
    · exact H.evalComplete.overlap q k vals keys (by rw [← h]; exact hor') e he
    · rw [h] at hor'; cases hor'

/-- the backend of `cEnv`, giving up on everything it is asked during the first two events of a run -/
noncomputable def gOracle (q : Query) (k : Nat) : Answer := if k < 2 then .unknown else cOracle q k

noncomputable def gEnv : Env := { cEnv with oracle := gOracle }

theorem gHyps : SolverHyps cR cRE gEnv :=
  cHyps.giveUpMore gOracle (fun q k => by unfold gOracle; split <;> simp [cEnv])

theorem gEnv_gaveUp : GaveUp gEnv := ⟨⟨[], []⟩, 0, rfl⟩

/-- ask an empty solver whether it is satisfiable (the backend is asked and gives up), pin `x == 5` (ModelCacheMixin learns the
model without asking Z3), enumerate, branch, ask the branch and the parent what the caches can answer, constrain the branch,
pickle the parent, ask again (the backend answers from its third event on) -/
def gHist : List (Nat × Op) :=
  [(0, .satisfiable []), (0, .add [cEq]), (0, .eval cExp 4 []), (0, .branch), (1, .max cExp [] false), (0, .solution cExp 5 []),
   (1, .add [cCon]), (1, .eval cExp 4 []), (0, .pickle), (0, .min cExp [] true), (1, .satisfiable [cCon])]

theorem gHist_ok : HistOkS cR cRE 1 gHist := by
  have hc : cR cCon := Or.inr (Or.inl rfl)
  have hq : cR cEq := Or.inr (Or.inr (Or.inl rfl))
  have he : cRE cExp := rfl
  have hwf : ConWf cCon := cHyps.reg.wf _ hc
  simp only [gHist, HistOkS, InScopeS, List.mem_singleton, forall_eq, List.not_mem_nil, false_implies, implies_true, and_true]
  repeat' apply And.intro
  all_goals first | omega | exact hq | exact hc | exact he | exact hwf | trivial | exact hwf.1 | exact hwf.2.1 | exact hwf.2.2.1 | exact hwf.2.2.2

/-- the first call of `gHist` really ends in the give-up error; the next seven are answered (from the caches) -/
theorem gHist_outputs : (runHist gEnv .Solver (World.init false false) [[]] (gHist.take 8)).map (·.2.2) =
    [.err .giveUp, .cons [2], .vals [5], .newSolver 1, .int 5, .bool true, .cons [1], .vals [5]] := by decide +kernel

end Claripy.Solver
