import ClaripyProofs.Lemmas.Solver.SolverConsistent
/-!
The world a history leaves behind, for the caching class `Solver`: the invariant `TInvS` holds in every world a history in
scope reaches (whatever the backend did on the way — answers, `UnsatError`s, give-ups), histories compose, and a call on one
solver leaves the constraint list every OTHER solver is judged by alone.  These are the shapes C14 (isolation), C17 (after a
give-up) and C18 (after a pickle round trip) are stated in.
-/
namespace Claripy.Solver

variable {R : Con → Prop} {RE : Exp → Prop} {E : Env}

/-- the world after a history -/
def worldAfter (E : Env) (cls : SolverClass) : World → List (Nat × Op) → World
  | w, [] => w
  | w, (i, op) :: rest => worldAfter E cls (step E cls w i op).2 rest

/-- the constraint lists of the users of all solvers after a history -/
def usersAfterHist : List (List Con) → List (Nat × Op) → List (List Con)
  | Us, [] => Us
  | Us, (i, op) :: rest => usersAfterHist (usersAll Us i op) rest

theorem runHist_append (E : Env) (cls : SolverClass) (h1 h2 : List (Nat × Op)) : ∀ (w : World) (Us : List (List Con)),
    runHist E cls w Us (h1 ++ h2) =
      runHist E cls w Us h1 ++ runHist E cls (worldAfter E cls w h1) (usersAfterHist Us h1) h2 := by
  induction h1 with
  | nil => intro w Us; rfl
  | cons io rest ih =>
    obtain ⟨i, op⟩ := io
    intro w Us
    rw [List.cons_append, runHist_cons', runHist_cons', ih]
    rfl

/-- a call on solver `i` leaves the constraint list of every other solver alone -/
theorem usersAll_other (Us : List (List Con)) (i : Nat) (op : Op) (j : Nat) (hj : j ≠ i) (hlt : j < Us.length) :
    (usersAll Us i op).getD j [] = Us.getD j [] := by
  cases op <;> simp only [usersAll]
  case add cs => exact getD_set_ne _ _ _ _ _ (Ne.symm hj)
  case branch => exact getD_append_left' _ _ _ _ hlt

/-- the number of solvers alive after a call / a history -/
def nAfter (n : Nat) : Op → Nat
  | .branch => n + 1
  | _ => n

def lenAfter (n : Nat) (hist : List (Nat × Op)) : Nat := hist.foldl (fun n io => nAfter n io.2) n

theorem histOkS_cons {n i : Nat} {op : Op} {rest : List (Nat × Op)} :
    HistOkS R RE n ((i, op) :: rest) ↔ i < n ∧ InScopeS R RE op ∧ HistOkS R RE (nAfter n op) rest := by
  cases op <;> rfl

theorem histOkS_append {n : Nat} {h1 h2 : List (Nat × Op)} :
    HistOkS R RE n (h1 ++ h2) ↔ HistOkS R RE n h1 ∧ HistOkS R RE (lenAfter n h1) h2 := by
  induction h1 generalizing n with
  | nil => simp [HistOkS, lenAfter]
  | cons io rest ih =>
    obtain ⟨i, op⟩ := io
    simp only [List.cons_append, histOkS_cons, lenAfter, List.foldl_cons, and_assoc]
    rw [ih]
    rfl

section
variable (H : SolverHyps R RE E)
include H

/-- the length bookkeeping of one step -/
theorem sol_step_length (w : World) (Us : List (List Con)) (hw : TInvS R RE E Us w) (i : Nat) (hi : i < w.fes.length)
    (op : Op) (hop : InScopeS R RE op) :
    (step E .Solver w i op).2.fes.length = nAfter w.fes.length op := by
  have hl := (sol_step H w Us hw i hi op hop).2.len
  rw [usersAll_length, hw.len] at hl
  rw [← hl]
  cases op <;> rfl

/-- `add` never raises (no layer of the class consults the backend while adding) -/
theorem sol_step_add_out (w : World) (Us : List (List Con)) (hw : TInvS R RE E Us w) (i : Nat) (hi : i < w.fes.length)
    (cs : List Con) (hop : InScopeS R RE (.add cs)) : ∃ ids, (step E .Solver w i (.add cs)).1 = .cons ids := by
  have h0 := hw.each i hi
  show ∃ ids, (outOf (fun added => Out.cons (added.map (·.id))) (runOn w i (publicAdd (classOps E .Solver) cs))).1 = .cons ids
  rw [classOps_solver, runOn_eq]
  by_cases hemp : cs.isEmpty = true
  · have hnil : cs = [] := by simpa using hemp
    subst hnil
    exact ⟨[], rfl⟩
  · have : publicAdd (solStage E 4) cs true (stOfI w i) = (solStage E 4).add cs true (stOfI w i) := by
      simp [publicAdd, hemp]
    rw [this]
    obtain ⟨added, s', hrun, _⟩ := (solStage_ok3 H 3).add (Us.getD i []) (stOfI w i) cs true h0.mark hop
      (fun hf => by cases hf)
    rw [hrun]
    exact ⟨_, rfl⟩

/-- a call that ends in an error leaves every user's constraint list as it was: only `add` and `branch` change them, and
they never raise -/
theorem sol_error_users (w : World) (Us : List (List Con)) (hw : TInvS R RE E Us w) (i : Nat) (hi : i < w.fes.length)
    (op : Op) (hop : InScopeS R RE op) (err : Err) (he : (step E .Solver w i op).1 = .err err) :
    usersAll Us i op = Us ∧ nAfter w.fes.length op = w.fes.length := by
  cases op
  case add cs =>
    obtain ⟨ids, hids⟩ := sol_step_add_out H w Us hw i hi cs hop
    rw [hids] at he; cases he
  case branch =>
    rw [(sol_step_branch (E := E) w Us hw i hi).1] at he; cases he
  all_goals exact ⟨rfl, rfl⟩

/-- every world a history in scope reaches satisfies the invariant, for the constraint lists the users have by then -/
theorem sol_reach (hist : List (Nat × Op)) : ∀ (w : World) (Us : List (List Con)), TInvS R RE E Us w →
    HistOkS R RE w.fes.length hist →
    TInvS R RE E (usersAfterHist Us hist) (worldAfter E .Solver w hist) ∧
    (worldAfter E .Solver w hist).fes.length = lenAfter w.fes.length hist := by
  induction hist with
  | nil => intro w Us hw _; exact ⟨hw, rfl⟩
  | cons io rest ih =>
    obtain ⟨i, op⟩ := io
    intro w Us hw hok
    obtain ⟨hi, hop, hrest⟩ := histOkS_cons.mp hok
    have hl := sol_step_length H w Us hw i hi op hop
    have := ih _ _ (sol_step H w Us hw i hi op hop).2 (by rw [hl]; exact hrest)
    refine ⟨this.1, ?_⟩
    show (worldAfter E .Solver (step E .Solver w i op).2 rest).fes.length = _
    rw [this.2, hl]
    rfl

end

end Claripy.Solver
