import ClaripyProofs.Lemmas.Solver.SolverCalls
/-!
The public `batch_eval` of the class `Solver`: ConcreteHandlerMixin splits off the concrete expressions, the symbolic ones go
through ConstraintFilter, SatCache, ModelCache, SimplifyHelper to FullFrontend, and the concrete values are merged back in.
-/
namespace Claripy.Solver

variable {R : Con → Prop} {RE : Exp → Prop} {E : Env} {G : St → Prop} {U : List Con}

/-! ### merging concrete values back into the tuples -/

/-- the fold of ConcreteHandlerMixin.batch_eval: walk the expressions, take the concrete value or the next symbolic one -/
def mergeStep (acc : List Nat × List Nat) (c : Option Nat) : List Nat × List Nat :=
  match c with
  | some v => (acc.1 ++ [v], acc.2)
  | none => (acc.1 ++ [acc.2.headD 0], acc.2.tail)

def mergeConc (conc : List (Option Nat)) (r : List Nat) : List Nat := (conc.foldl mergeStep ([], r)).1

/-- the symbolic expressions among `es` -/
def symbolicOf (es : List Exp) : List Exp := es.filter fun e => e.conc.isNone

theorem symbolic_eq (es : List Exp) :
    ((es.zip (es.map (·.conc))).filterMap fun ec => if ec.2.isNone then some ec.1 else none) = symbolicOf es := by
  induction es with
  | nil => rfl
  | cons e es ih =>
    unfold symbolicOf at ih ⊢
    simp only [List.map_cons, List.zip_cons_cons, List.filterMap_cons, List.filter_cons]
    cases he : e.conc with
    | none => simp only [Option.isNone_none, ↓reduceIte, ih]
    | some c => simp only [Option.isNone_some, Bool.false_eq_true, ↓reduceIte, ih]

theorem mergeStep_foldl (es : List Exp) (a : Asg) (hco : ∀ e ∈ es, ∀ c, e.conc = some c → e.val a = c) (pre : List Nat) :
    ((es.map (·.conc)).foldl mergeStep (pre, (symbolicOf es).map (·.val a))).1 = pre ++ es.map (·.val a) := by
  induction es generalizing pre with
  | nil => simp
  | cons e es ih =>
    have hco' : ∀ e' ∈ es, ∀ c, e'.conc = some c → e'.val a = c := fun e' he' => hco e' (List.mem_cons_of_mem _ he')
    simp only [List.map_cons, List.foldl_cons]
    cases he : e.conc with
    | some c =>
      have hs : symbolicOf (e :: es) = symbolicOf es := by simp [symbolicOf, he]
      rw [hs]
      simp only [mergeStep]
      rw [ih hco' (pre ++ [c]), hco e (by simp) c he]
      simp
    | none =>
      have hs : symbolicOf (e :: es) = e :: symbolicOf es := by simp [symbolicOf, he]
      rw [hs]
      simp only [mergeStep, List.map_cons, List.headD_cons, List.tail_cons]
      rw [ih hco' (pre ++ [e.val a])]
      simp

/-- merging the symbolic values of an assignment gives the values of all expressions -/
theorem mergeConc_val (es : List Exp) (a : Asg) (hco : ∀ e ∈ es, ∀ c, e.conc = some c → e.val a = c) :
    mergeConc (es.map (·.conc)) ((symbolicOf es).map (·.val a)) = es.map (·.val a) := by
  have := mergeStep_foldl es a hco []
  simpa [mergeConc] using this

theorem symbolic_of_map (es : List Exp) (a a' : Asg) (h : es.map (·.val a) = es.map (·.val a')) :
    (symbolicOf es).map (·.val a) = (symbolicOf es).map (·.val a') := by
  apply List.map_congr_left
  intro e he
  exact map_eq_at h (List.mem_filter.mp he).1

/-- the answer of `batch_eval` on all expressions from the answer on the symbolic ones -/
theorem tuplesOk_merge (cs : List Con) (es : List Exp) (n : Nat) (rs : List (List Nat))
    (hco : ∀ e ∈ es, ∀ c, e.conc = some c → ∀ a, e.val a = c) (h : TuplesOk cs (symbolicOf es) n rs) :
    TuplesOk cs es n (rs.map (mergeConc (es.map (·.conc)))) := by
  obtain ⟨hf, hnd, hlen, hcomp⟩ := h
  have hwit : ∀ r ∈ rs, ∃ a, Models cs a ∧ r = (symbolicOf es).map (·.val a) ∧
      mergeConc (es.map (·.conc)) r = es.map (·.val a) := by
    intro r hr
    obtain ⟨a, ha, hra⟩ := hf r hr
    exact ⟨a, ha, hra.symm, by rw [← hra]; exact mergeConc_val es a (fun e he c hc => hco e he c hc a)⟩
  refine ⟨?_, ?_, by simpa using hlen, ?_⟩
  · intro t ht
    obtain ⟨r, hr, rfl⟩ := List.mem_map.mp ht
    obtain ⟨a, ha, _, hm⟩ := hwit r hr
    exact ⟨a, ha, hm.symm⟩
  · refine nodup_map_on ?_ hnd
    intro x hx y hy hxy
    obtain ⟨a, _, hxa, hma⟩ := hwit x hx
    obtain ⟨b, _, hyb, hmb⟩ := hwit y hy
    rw [hma, hmb] at hxy
    rw [hxa, hyb]
    exact symbolic_of_map es a b hxy
  · intro t ⟨a, ha, hta⟩
    rcases hcomp ((symbolicOf es).map (·.val a)) ⟨a, ha, rfl⟩ with hin | hl
    · left
      refine List.mem_map.mpr ⟨_, hin, ?_⟩
      rw [mergeConc_val es a (fun e he c hc => hco e he c hc a), hta]
    · right; simpa using hl

/-! ### the symbolic part through the stack -/

theorem filter_batchEval_spec {self sup : Ops} (hcc : ∀ c, self.concreteCon c = c.conc) (asts : List Exp) (n : Nat)
    (extra : List Con) (wf : ∀ c ∈ extra, ConWf c)
    (hsup : ∀ ec, BatchSpec R RE E G U asts n ec (sup.batchEval asts n ec)) :
    BatchSpec R RE E G U asts n extra ((filterLayer E self sup).batchEval asts n extra) := by
  intro s h
  show match (do let ec ← liftE (constraintFilter self extra); sup.batchEval asts n ec : M (List (List Nat))) s with
    | (.ok b, s') => _ | (.error e, s') => _
  have hf := filter_cases E (U := U) hcc extra wf
  simp only [bind, M.bind, liftE]
  cases hcf : constraintFilter self extra with
  | error err =>
    rw [hcf] at hf
    exact ⟨Or.inl hf, h, Keep.refl U s⟩
  | ok ec =>
    rw [hcf] at hf
    simp only
    have hspec := hsup ec s h
    revert hspec
    generalize sup.batchEval asts n ec s = res
    rcases res with ⟨r, s1⟩
    have hft : ∀ t, FeasibleT (U ++ ec) asts t ↔ FeasibleT (U ++ extra) asts t := fun t =>
      ⟨fun ⟨a, ha, h⟩ => ⟨a, (hf a).mp ha, h⟩, fun ⟨a, ha, h⟩ => ⟨a, (hf a).mpr ha, h⟩⟩
    cases r with
    | ok ts =>
      rintro ⟨⟨a1, a2, a3, a4⟩, b, c, d, f⟩
      exact ⟨⟨fun t ht => (hft t).mp (a1 t ht), a2, a3, fun t ht => a4 t ((hft t).mpr ht)⟩, b, c, d, f⟩
    | error err => exact fun ⟨a, b, c⟩ => ⟨(errOk_congr hf err).mp a, b, c⟩

theorem satCache_batchEval_spec {self sup : Ops} (asts : List Exp) (n : Nat) (extra : List Con)
    (hsup : BatchSpec R RE E G U asts n extra (sup.batchEval asts n extra)) :
    BatchSpec R RE E G U asts n extra ((satCacheLayer E self sup).batchEval asts n extra) := by
  have haux := satCacheQuery_spec (R := R) (RE := RE) (E := E) (G := G) (U := U) (sup.batchEval asts n extra) extra
    (fun ts _ s' => TuplesOk (U ++ extra) asts n ts ∧ ts ≠ [] ∧ CachedAll RE E s'.fe asts ts)
    (fun s h => by
      have := hsup s h
      revert this
      generalize sup.batchEval asts n extra s = res
      rcases res with ⟨r, s1⟩
      cases r with
      | ok ts => exact fun ⟨a, b, c, d, e⟩ => ⟨⟨a, b, c⟩, d, e⟩
      | error err => exact fun h => h)
    (by
      rintro ts _ _ ⟨hok, hne, _⟩
      obtain ⟨t, ht⟩ := List.exists_mem_of_ne_nil ts hne
      exact satisfiable_of_feasibleT (hok.1 t ht))
    (fun _ _ _ _ hg => hg)
  intro s h
  have := haux s h
  have hshow : (satCacheLayer E self sup).batchEval asts n extra s =
      satCacheQuery (sup.batchEval asts n extra) extra.isEmpty s := rfl
  rw [hshow]
  revert this
  generalize satCacheQuery (sup.batchEval asts n extra) extra.isEmpty s = res
  rcases res with ⟨r, s1⟩
  cases r with
  | ok ts => exact fun ⟨⟨a, b, c⟩, d, e⟩ => ⟨a, b, c, d, e⟩
  | error err => exact fun h => h

section
variable (H : SolverHyps R RE E)
include H

theorem sL7_batchEval_spec {self : Ops} (hs : Ok1 R RE E G self) (asts : List Exp) (hre : ∀ e ∈ asts, RE e) (n : Nat)
    (hn : 1 ≤ n) (extra : List Con) (wf : ∀ c ∈ extra, ConWf c) :
    BatchSpec R RE E G U asts n extra ((sL7 E self).batchEval asts n extra) := by
  have h0 : ∀ n' extra', 1 ≤ n' → BatchSpec R RE E G U asts n' extra' ((sL2 E self).batchEval asts n' extra') :=
    fun n' extra' hn' => helper_batchEval_spec (self := self) (sup := sL0 E self) hs.simp asts n' extra'
      (full_batchEval_spec (self := self) (sup := constrainedLayer E self frontendBase) H.oracle H.reg H.zid
        H.evalComplete H.expReg hs.hook asts n' hn' extra')
  have h3 : ∀ ec, BatchSpec R RE E G U asts n ec ((sL3 E self).batchEval asts n ec) :=
    fun ec => mc_batchEval_spec (sup := sL2 E self) H.pick H.expReg asts hre n hn ec h0
  have h4 : ∀ ec, BatchSpec R RE E G U asts n ec ((sL6 E self).batchEval asts n ec) :=
    fun ec => satCache_batchEval_spec (self := self) (sup := sL3 E self) asts n ec (h3 ec)
  exact filter_batchEval_spec (self := self) (sup := sL6 E self) hs.cc asts n extra wf h4

/-- the public `batch_eval` -/
theorem sol_batchEval_top (k : Nat) (es : List Exp) (hre : ∀ e ∈ es, e.conc = none → RE e)
    (hco : ∀ e ∈ es, ∀ c, e.conc = some c → ∀ a, e.val a = c) (n : Nat) (hn : 1 ≤ n) (extra : List Con)
    (wf : ∀ c ∈ extra, ConWf c) (s : St) (h : SI R RE E G U s) :
    match (solStage E (k + 1)).batchEval es n extra s with
    | (.ok ts, s') => Judge U (.batchEval es n extra) (.tuples ts) ∧ SI R RE E G U s'
    | (.error err, s') => ErrOk E (U ++ extra) err ∧ SI R RE E G U s' := by
  have hcv := (solStage_ok1 (G := G) H k).cv
  have hrun : (solStage E (k + 1)).batchEval es n extra s = (do
      if (symbolicOf es).isEmpty then pure [(es.map (·.conc)).map (·.getD 0)]
      else do
        let rs ← (sL7 E (solStage E k)).batchEval (symbolicOf es) n extra
        pure (rs.map (mergeConc (es.map (·.conc)))) : M (List (List Nat))) s := by
    show (do
      let conc := es.map (solStage E k).concreteValue
      let symbolic := (es.zip conc).filterMap fun ec => if ec.2.isNone then some ec.1 else none
      if symbolic.isEmpty then pure [conc.map (·.getD 0)]
      else do
        let rs ← (sL8 E (solStage E k)).batchEval symbolic n extra
        pure (rs.map fun r =>
          (conc.foldl (fun (acc : List Nat × List Nat) c =>
            match c with
            | some v => (acc.1 ++ [v], acc.2)
            | none => (acc.1 ++ [acc.2.headD 0], acc.2.tail)) ([], r)).1) : M (List (List Nat))) s = _
    have hconc : es.map (solStage E k).concreteValue = es.map (·.conc) := List.map_congr_left fun e _ => hcv e
    simp only [hconc, symbolic_eq]
    rfl
  rw [hrun]
  have hall : (symbolicOf es).isEmpty = true ↔ es.all (·.conc.isSome) = true := by
    simp only [symbolicOf, List.isEmpty_iff, List.filter_eq_nil_iff, List.all_eq_true]
    constructor
    · intro h e he; have := h e he; cases hc : e.conc <;> simp_all
    · intro h e he; have := h e he; cases hc : e.conc <;> simp_all
  by_cases hemp : (symbolicOf es).isEmpty = true
  · simp only [hemp, ↓reduceIte, pure, M.pure]
    refine ⟨?_, h⟩
    simp only [Judge, hall.mp hemp, ↓reduceIte, List.map_map]
    rfl
  · simp only [hemp, Bool.false_eq_true, ↓reduceIte, bind, M.bind]
    have hnall : ¬ es.all (·.conc.isSome) = true := fun hh => hemp (hall.mpr hh)
    have hsym : ∀ e ∈ symbolicOf es, RE e := by
      intro e he
      obtain ⟨h1, h2⟩ := List.mem_filter.mp he
      exact hre e h1 (by simpa using h2)
    have hspec := sL7_batchEval_spec H (solStage_ok1 (G := G) H k) (symbolicOf es) hsym n hn extra wf s h
    revert hspec
    generalize (sL7 E (solStage E k)).batchEval (symbolicOf es) n extra s = res
    rcases res with ⟨r, s1⟩
    cases r with
    | error err => exact fun ⟨a, b, _⟩ => ⟨a, b⟩
    | ok rs =>
      rintro ⟨hok, _, _, hsi, _⟩
      simp only [pure, M.pure]
      refine ⟨?_, hsi⟩
      have := tuplesOk_merge (U ++ extra) es n rs hco hok
      simp only [Judge, hnall, Bool.false_eq_true, ↓reduceIte]
      exact this

end

end Claripy.Solver
