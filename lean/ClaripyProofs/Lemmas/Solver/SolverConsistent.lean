import ClaripyProofs.Lemmas.Solver.SolverHistory
import Mathlib.Logic.Encodable.Basic
import Mathlib.Logic.Equiv.List
/-!
The hypotheses of the refinement theorem for the caching class (`SolverHyps`) are jointly satisfiable, with a registry that
contains a genuinely constrained variable and a queried expression: an environment whose oracle decides every query some
value of the variable settles, whose `claripy.ULE(e, m)` etc. build exactly what was written (ids = an injective code of the
key), whose simplifier is the identity.
-/
namespace Claripy.Solver

/-- the queried expression: the 3-bit variable 0 -/
def cExp : Exp := { id := 1, bits := 3, vars := [0], val := fun a => a 0 % 8 }

def cFalse : Con := { id := 0, vars := [], sem := fun _ => false, isFalse := true, conc := some false }
/-- a real constraint: `x <= 5` -/
def cCon : Con := { id := 1, vars := [0], sem := fun a => decide (a 0 % 8 ≤ 5) }

/-- `x == 5`, with the shape `_trivial_model_optimization` looks for (`BVS == constant`, the expression `x` has id 1) -/
def cEq : Con := { id := 2, vars := [0], sem := fun a => decide (a 0 = 5), triv := some (0, 5, 1) }

/-- an injective code of the constraints built from `cExp` -/
def keyCode : BuildKey → Nat × Int × List Nat
  | .ule _ m => (0, m, [])
  | .uge _ m => (1, m, [])
  | .sle _ m => (2, m, [])
  | .sge _ m => (3, m, [])
  | .ne _ v => (4, (v : Int), [])
  | .orEq _ vs => (5, 0, vs)

set_option linter.unusedTactic false in
theorem keyCode_sem {k k' : BuildKey} (h : keyCode k = keyCode k') (he : k.exp = k'.exp) : ∀ a, k.sem a = k'.sem a := by
  intro a
  cases k <;> cases k' <;> simp only [keyCode, Prod.mk.injEq, reduceCtorEq, false_and, and_true] at h <;>
    simp only [BuildKey.exp] at he <;> subst he
  all_goals first
    | (obtain ⟨_, rfl, _⟩ := h; rfl)
    | (obtain ⟨_, h2, _⟩ := h; have := Int.ofNat.inj h2; subst this; rfl)
    | (obtain ⟨_, _, rfl⟩ := h; rfl)
    | omega

def cBuild (k : BuildKey) : Con := { id := 3 + Encodable.encode (keyCode k), vars := [0], sem := k.sem }

/-- decides every query some value of variable 0 settles; gives up on the others -/
noncomputable def cOracle (q : Query) (_k : Nat) : Answer :=
  open Classical in
  if h : ∃ x : Nat, ∀ a : Asg, a 0 = x → q.holds a = true then .sat [Classical.choose h] [0]
  else if ∀ a : Asg, q.holds a = false then .unsat [] else .unknown

noncomputable def cEnv : Env :=
  { dflt := fun _ => 0, oracle := cOracle, build := cBuild, falseCon := cFalse,
    cheapFalse := fun _ _ _ => false, truth := fun _ _ _ => false, simp := fun cs _ => cs,
    pick := fun all n _ => all.take n }

def cR (c : Con) : Prop := c = cFalse ∨ c = cCon ∨ c = cEq ∨ ∃ k : BuildKey, k.exp = cExp ∧ c = cBuild k
def cRE (e : Exp) : Prop := e = cExp

theorem foldl_listInsert_nodup {α : Type} [BEq α] [LawfulBEq α] (l acc : List α) (h : (acc ++ l).Nodup) :
    l.foldl listInsert acc = acc ++ l := by
  induction l generalizing acc with
  | nil => simp
  | cons x xs ih =>
    have hx : x ∉ acc := by
      intro hx
      rw [List.nodup_append] at h
      exact h.2.2 x hx x (by simp) rfl
    have hins : listInsert acc x = acc ++ [x] := by
      unfold listInsert; simp [hx]
    simp only [List.foldl_cons, hins]
    rw [ih (acc ++ [x]) (by simpa using h)]
    simp

theorem cBuild_wf (k : BuildKey) (hk : k.exp = cExp) : ConWf (cBuild k) := by
  refine ⟨fun a a' h => ?_, fun h => by simp [cBuild] at h, fun b hb => by simp [cBuild] at hb,
    fun _ _ _ h => by simp [cBuild] at h⟩
  have h0 : a 0 = a' 0 := h 0 (by simp [cBuild])
  cases k <;> simp only [BuildKey.exp] at hk <;> subst hk <;> simp [cBuild, BuildKey.sem, cExp, h0]

theorem cFaithful : ∀ c c', cR c → cR c' → c.id = c'.id → ∀ a, c.sem a = c'.sem a := by
  rintro c c' (rfl | rfl | rfl | ⟨k, hk, rfl⟩) (rfl | rfl | rfl | ⟨k', hk', rfl⟩) hid a <;>
    first | rfl | (simp [cFalse, cCon, cEq, cBuild] at hid; done) | skip
  all_goals first
    | (simp only [cFalse, cCon, cEq, cBuild] at hid; omega)
    | skip
  have hcode : keyCode k = keyCode k' := by
    have : Encodable.encode (keyCode k) = Encodable.encode (keyCode k') := by
      simp only [cBuild] at hid; omega
    exact Encodable.encode_injective this
  exact keyCode_sem hcode (hk.trans hk'.symm) a

theorem cVarsId : ∀ c c', cR c → cR c' → c.id = c'.id → c.vars = c'.vars := by
  rintro c c' (rfl | rfl | rfl | ⟨k, hk, rfl⟩) (rfl | rfl | rfl | ⟨k', hk', rfl⟩) hid <;>
    first | rfl | (simp only [cFalse, cCon, cEq, cBuild] at hid; omega)

theorem cZid : ZidFaithful cR := by
  intro c c' hc hc' hz
  refine cFaithful c c' hc hc' ?_
  rcases hc with rfl | rfl | rfl | ⟨k, _, rfl⟩ <;> rcases hc' with rfl | rfl | rfl | ⟨k', _, rfl⟩ <;> exact hz

theorem cHyps : SolverHyps cR cRE cEnv := by
  refine ⟨⟨cFaithful, cVarsId, ?_, ?_, Or.inl rfl, fun _ => rfl⟩, cZid, ?_, fun _ _ _ _ => rfl, fun _ _ _ c hc v hv => ⟨c, hc, hv⟩,
    ⟨fun _ _ _ h => by simp [cEnv] at h, fun _ _ h => by simp [cEnv] at h, fun _ _ h => by simp [cEnv] at h⟩, ?_,
    ⟨?_, ?_, ?_⟩, ⟨?_, ?_⟩, ?_, ?_⟩
  · rintro c (rfl | rfl | rfl | ⟨k, hk, rfl⟩)
    · exact ⟨fun _ _ _ => rfl, fun _ _ => rfl, fun b hb a => by simp [cFalse] at hb ⊢; exact hb,
        fun _ _ _ h => by simp [cFalse] at h⟩
    · exact ⟨fun a a' h => by simp [cCon, h 0 (by simp [cCon])], fun h => by simp [cCon] at h,
        fun b hb => by simp [cCon] at hb, fun _ _ _ h => by simp [cCon] at h⟩
    · refine ⟨fun a a' h => by simp [cEq, h 0 (by simp [cEq])], fun h => by simp [cEq] at h,
        fun b hb => by simp [cEq] at hb, fun v x eid h => ?_⟩
      simp only [cEq, Option.some.injEq, Prod.mk.injEq] at h
      obtain ⟨rfl, rfl, rfl⟩ := h
      exact ⟨rfl, fun _ => rfl⟩
    · exact cBuild_wf k hk
  · intro cs k h c hc; exact h c hc
  · -- the oracle is exact
    intro q k
    show match cOracle q k with
      | .sat vals keys => ∀ a : Asg, (∀ v ∈ keys, a v = asgOf vals v) → q.holds a = true
      | .unsat _ => ∀ a : Asg, q.holds a = false
      | .unknown => True
    unfold cOracle
    by_cases h : ∃ x : Nat, ∀ a : Asg, a 0 = x → q.holds a = true
    · rw [dif_pos h]
      intro a ha
      exact Classical.choose_spec h a (by simpa [asgOf] using ha 0 (by simp))
    · rw [dif_neg h]
      by_cases h2 : ∀ a : Asg, q.holds a = false
      · rw [if_pos h2]; exact h2
      · rw [if_neg h2]; trivial
  · -- the recorded choice
    intro all n k hnd
    refine ⟨?_, by simp [cEnv], ?_⟩
    · simp only [cEnv, subsetB, List.all_eq_true, List.contains_eq_mem, decide_eq_true_eq]
      exact fun x hx => List.mem_of_mem_take hx
    · show (all.take n).foldl listInsert [] = all.take n
      have := foldl_listInsert_nodup (all.take n) [] (by simpa using hnd.sublist (List.take_sublist n all))
      simpa using this
  · rintro e e' rfl rfl _; exact ⟨rfl, fun _ => rfl⟩
  · rintro e rfl; exact ⟨by simp [cExp], fun a => by simp only [cExp]; omega⟩
  · rintro e rfl a a' h; simp only [cExp]; rw [h 0 (by simp [cExp])]
  · -- the models of `sat` answers determine the registered expression
    rintro q k vals keys hor e rfl
    have : cOracle q k = .sat vals keys := hor
    unfold cOracle at this
    by_cases h : ∃ x : Nat, ∀ a : Asg, a 0 = x → q.holds a = true
    · rw [dif_pos h] at this
      simp only [Answer.sat.injEq] at this
      obtain ⟨rfl, rfl⟩ := this
      simp [cExp, PModel.complete, PModel.ofKeys, PModel.insert, PModel.get?, asgOf]
    · rw [dif_neg h] at this
      split at this <;> cases this
  · rintro q k vals keys hor e rfl
    have : cOracle q k = .sat vals keys := hor
    unfold cOracle at this
    by_cases h : ∃ x : Nat, ∀ a : Asg, a 0 = x → q.holds a = true
    · rw [dif_pos h] at this
      simp only [Answer.sat.injEq] at this
      obtain ⟨rfl, rfl⟩ := this
      exact ⟨0, by simp [cExp], by simp⟩
    · rw [dif_neg h] at this
      split at this <;> cases this
  · rintro c (rfl | rfl | rfl | ⟨k, _, rfl⟩) v x eid ht
    · simp [cFalse] at ht
    · simp [cCon] at ht
    · simp only [cEq, Option.some.injEq, Prod.mk.injEq] at ht
      obtain ⟨rfl, rfl, rfl⟩ := ht
      refine ⟨fun a ha => by simp [cEq, ha], ?_⟩
      rintro e rfl _
      exact ⟨fun a ha => by simp only [cEq, decide_eq_true_eq] at ha; simp [cExp, ha],
             fun a ha => by simp [cExp, ha]⟩
    · simp [cBuild] at ht
  · rintro key hk
    exact ⟨Or.inr (Or.inr (Or.inr ⟨key, hk, rfl⟩)), fun _ => rfl, fun v hv => by rw [hk]; simpa [cEnv, cBuild, cExp] using hv⟩

/-- a concrete expression: `BVV(3, 3)` -/
def cThree : Exp := { id := 7, bits := 3, vars := [], val := fun _ => 3, conc := some 3 }

/-- a history in scope on a tree of two solvers: constrain, optimise, branch, enumerate in the child, ask again in the parent -/
def cHist : List (Nat × Op) :=
  [(0, .add [cEq]), (0, .eval cExp 4 []), (0, .add [cCon]), (0, .max cExp [] false), (0, .branch), (1, .eval cExp 10 []), (1, .add [cCon]),
   (0, .min cExp [] true), (1, .solution cExp 7 []), (0, .simplify), (1, .satisfiable [cCon]), (1, .pickle),
   (1, .batchEval [cExp, cThree] 4 []), (0, .downsize), (0, .isTrue cCon [])]

theorem cHist_ok : HistOkS cR cRE 1 cHist := by
  have hc : cR cCon := Or.inr (Or.inl rfl)
  have hq : cR cEq := Or.inr (Or.inr (Or.inl rfl))
  have he : cRE cExp := rfl
  have hwf : ConWf cCon :=
    ⟨fun a a' h => by simp [cCon, h 0 (by simp [cCon])], fun h => by simp [cCon] at h,
     fun b hb => by simp [cCon] at hb, fun _ _ _ h => by simp [cCon] at h⟩
  simp only [cHist, HistOkS, InScopeS, List.mem_singleton, forall_eq, List.not_mem_nil, false_implies, implies_true, and_true]
  refine ⟨by omega, hq, by omega, ⟨he, by omega⟩, by omega, hc, by omega, he, by omega, trivial, by omega, ⟨he, by omega⟩, by omega, hc, by omega, he, by omega,
    ⟨he, by simp [cExp]⟩, by omega, trivial, by omega, hwf, by omega, trivial, by omega, ⟨?_, by omega⟩, by omega, trivial,
    by omega, hwf⟩
  intro e hemem
  simp only [List.mem_cons, List.not_mem_nil, or_false] at hemem
  rcases hemem with rfl | rfl
  · exact ⟨fun _ => he, fun c hcc => by simp [cExp] at hcc⟩
  · exact ⟨fun hcc => by simp [cThree] at hcc, fun c hcc a => by simp [cThree] at hcc ⊢; exact hcc⟩

end Claripy.Solver
