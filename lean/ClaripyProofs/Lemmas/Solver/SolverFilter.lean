import ClaripyProofs.Lemmas.Solver.SolverSatCache
/-!
ConstraintFilterMixin (queries), ConcreteHandlerMixin and `is_true` / `is_false` of the class `Solver`: the top of the stack.
`TopSpec` is the form in which the step theorem uses the per-call results: the answer is one `Judge` allows (or an honest
give-up) and the invariant is kept.
-/
namespace Claripy.Solver

variable {R : Con → Prop} {RE : Exp → Prop} {E : Env} {G : St → Prop} {U : List Con}

/-! ### congruence of the specification in the constraints -/

section congr
variable {A B : List Con} (hiff : ∀ a, Models A a ↔ Models B a)
include hiff

theorem satisfiable_congr : Satisfiable A ↔ Satisfiable B :=
  ⟨fun ⟨a, ha⟩ => ⟨a, (hiff a).mp ha⟩, fun ⟨a, ha⟩ => ⟨a, (hiff a).mpr ha⟩⟩

theorem feasible_congr (e : Exp) (v : Nat) : Feasible A e v ↔ Feasible B e v :=
  ⟨fun ⟨a, ha, h⟩ => ⟨a, (hiff a).mp ha, h⟩, fun ⟨a, ha, h⟩ => ⟨a, (hiff a).mpr ha, h⟩⟩

theorem evalOk_congr (e : Exp) (n : Nat) (vs : List Nat) : EvalOk A e n vs ↔ EvalOk B e n vs := by
  unfold EvalOk
  cases e.conc with
  | some c => exact Iff.rfl
  | none => simp only [feasible_congr hiff]

theorem isOpt_congr (isMax signed : Bool) (e : Exp) (i : Int) : IsOpt isMax signed A e i ↔ IsOpt isMax signed B e i := by
  simp only [IsOpt, feasible_congr hiff]

theorem errOk_congr (err : Err) : ErrOk E A err ↔ ErrOk E B err := by
  simp only [ErrOk, satisfiable_congr hiff]

end congr

/-! ### `_constraint_filter` on extra constraints -/

theorem filter_cases (E : Env) {self : Ops} (hcc : ∀ c, self.concreteCon c = c.conc) (extra : List Con) (wf : ∀ c ∈ extra, ConWf c) :
    match constraintFilter self extra with
    | .ok ec => ∀ a, Models (U ++ ec) a ↔ Models (U ++ extra) a
    | .error e => e = .unsat ∧ ¬ Satisfiable (U ++ extra) := by
  have hs0 := clStage_ok E 0
  have h0cc : ∀ c, (clStage E 0).concreteCon c = c.conc := by obtain ⟨h1, _, _⟩ := hs0; exact h1
  rw [constraintFilter_congr (self' := clStage E 0) (fun c => by rw [hcc c, h0cc c]) extra]
  have := filter_spec hs0 extra wf
  revert this
  cases constraintFilter (clStage E 0) extra with
  | ok ec =>
    rintro ⟨h1, _⟩ a
    rw [models_append, models_append, h1 a]
  | error e =>
    rintro ⟨h1, h2⟩
    exact ⟨h1, fun ⟨a, ha⟩ => h2 a (models_append.mp ha).2⟩

theorem filter_satisfiable_spec {self sup : Ops} (hcc : ∀ c, self.concreteCon c = c.conc) (extra : List Con)
    (wf : ∀ c ∈ extra, ConWf c) (hsup : ∀ ec, SatSpec R RE E G U ec (sup.satisfiable ec)) :
    SatSpec R RE E G U extra ((filterLayer E self sup).satisfiable extra) := by
  intro s h
  show match (M.tryCatch (do let ec ← liftE (constraintFilter self extra); sup.satisfiable ec) (· == .unsat) (pure false)
      : M Bool) s with
    | (.ok b, s') => _ | (.error e, s') => _
  have hf := filter_cases E (U := U) hcc extra wf
  simp only [M.tryCatch, bind, M.bind, liftE]
  cases hcf : constraintFilter self extra with
  | error e =>
    rw [hcf] at hf
    obtain ⟨he, hun⟩ := hf
    subst he
    simp only [beq_self_eq_true, ↓reduceIte, pure, M.pure]
    exact ⟨⟨fun hb => by simp at hb, fun hs => absurd hs hun⟩, h, Keep.refl U s⟩
  | ok ec =>
    rw [hcf] at hf
    simp only
    have hspec := hsup ec s h
    rcases hq : sup.satisfiable ec s with ⟨res, s1⟩
    rw [hq] at hspec
    cases res with
    | error err =>
      obtain ⟨hg, h1, hk1⟩ := hspec
      have hne : (err == Err.unsat) = false := by obtain ⟨he1, _⟩ := hg; subst he1; rfl
      simp only [hne, Bool.false_eq_true, ↓reduceIte]
      exact ⟨hg, h1, hk1⟩
    | ok b =>
      obtain ⟨hb, h1, hk1⟩ := hspec
      exact ⟨hb.trans (satisfiable_congr hf), h1, hk1⟩

theorem filter_eval_spec {self sup : Ops} (hcc : ∀ c, self.concreteCon c = c.conc) (e : Exp) (n : Nat) (extra : List Con)
    (wf : ∀ c ∈ extra, ConWf c) (hsup : ∀ ec, EvalSpec R RE E G U e n ec (sup.eval e n ec)) :
    EvalSpec R RE E G U e n extra ((filterLayer E self sup).eval e n extra) := by
  intro s h
  show match (do let ec ← liftE (constraintFilter self extra); sup.eval e n ec : M (List Nat)) s with
    | (.ok b, s') => _ | (.error e, s') => _
  have hf := filter_cases E (U := U) hcc extra wf
  simp only [bind, M.bind, liftE]
  cases hcf : constraintFilter self extra with
  | error err =>
    rw [hcf] at hf
    exact ⟨Or.inl hf, h, Keep.refl U s⟩
  | ok ec =>
    rw [hcf] at hf
    simp only
    have hspec := hsup ec s h
    revert hspec
    generalize sup.eval e n ec s = res
    rcases res with ⟨r, s1⟩
    cases r with
    | ok vs => exact fun ⟨a, b, c, d, f⟩ => ⟨(evalOk_congr hf e n vs).mp a, b, c, d, f⟩
    | error err => exact fun ⟨a, b, c⟩ => ⟨(errOk_congr hf err).mp a, b, c⟩

theorem filter_opt_spec {self sup : Ops} (hcc : ∀ c, self.concreteCon c = c.conc) (isMax : Bool) (e : Exp)
    (extra : List Con) (signed : Bool) (wf : ∀ c ∈ extra, ConWf c)
    (hsup : ∀ ec, OptSpec R RE E G U isMax e ec signed (if isMax then sup.max e ec signed else sup.min e ec signed)) :
    OptSpec R RE E G U isMax e extra signed
      (if isMax then (filterLayer E self sup).max e extra signed else (filterLayer E self sup).min e extra signed) := by
  intro s h
  have hshow : (if isMax then (filterLayer E self sup).max e extra signed else (filterLayer E self sup).min e extra signed) s =
      (do let ec ← liftE (constraintFilter self extra)
          (if isMax then sup.max e ec signed else sup.min e ec signed) : M Int) s := by
    cases isMax <;> rfl
  rw [hshow]
  have hf := filter_cases E (U := U) hcc extra wf
  simp only [bind, M.bind, liftE]
  cases hcf : constraintFilter self extra with
  | error err =>
    rw [hcf] at hf
    exact ⟨Or.inl hf, h, Keep.refl U s⟩
  | ok ec =>
    rw [hcf] at hf
    simp only
    have hspec := hsup ec s h
    revert hspec
    generalize (if isMax then sup.max e ec signed else sup.min e ec signed) s = res
    rcases res with ⟨r, s1⟩
    cases r with
    | ok i => exact fun ⟨a, b, c, d⟩ => ⟨(isOpt_congr hf isMax signed e i).mp a, b, c, d⟩
    | error err => exact fun ⟨a, b, c⟩ => ⟨(errOk_congr hf err).mp a, b, c⟩

theorem filter_solution_spec {self sup : Ops} (hcc : ∀ c, self.concreteCon c = c.conc) (e : Exp) (v : Nat)
    (extra : List Con) (wf : ∀ c ∈ extra, ConWf c) (hsup : ∀ ec, SolSpec R RE E G U e v ec (sup.solution e v ec)) :
    SolSpec R RE E G U e v extra ((filterLayer E self sup).solution e v extra) := by
  intro s h
  show match (do let ec ← liftE (constraintFilter self extra); sup.solution e v ec : M Bool) s with
    | (.ok b, s') => _ | (.error e, s') => _
  have hf := filter_cases E (U := U) hcc extra wf
  simp only [bind, M.bind, liftE]
  cases hcf : constraintFilter self extra with
  | error err =>
    rw [hcf] at hf
    exact ⟨Or.inl hf, h, Keep.refl U s⟩
  | ok ec =>
    rw [hcf] at hf
    simp only
    have hspec := hsup ec s h
    revert hspec
    generalize sup.solution e v ec s = res
    rcases res with ⟨r, s1⟩
    cases r with
    | ok b => exact fun ⟨a, b, c⟩ => ⟨a.trans (feasible_congr hf e v), b, c⟩
    | error err => exact fun ⟨a, b, c⟩ => ⟨(errOk_congr hf err).mp a, b, c⟩

end Claripy.Solver
