import ClaripyProofs.Lemmas.Solver.CompositeExtras
/-!
**The frame facts of `_reabsorb_solver`** (`ReabsorbFrames`, CompositeExtras.lean) are a theorem: the proofs of `reabsorbKeeps`
(`reabsorbKeeps_of_replace`, CompositeUpdate.lean; `reabsorbReplaceKeeps`, CompositeReplace.lean) carried out again with the
stronger conclusion `ReabsorbPost` - the invariant AND: the merged child keeps its variables, a variable it does not know keeps
its entry of `_solvers`, every child of the new partition that shares a variable with it is implied by the merged constraints
(`hsem` in the branch of `update`, `hsemP` where the parts replace the children).  With it `satisfiable(extra_constraints)` is
right for any extras (`compSatisfiable_extra`).
-/
namespace Claripy.Solver

variable {R : Con → Prop} {RE : Exp → Prop} {E : Env}

/-- `ReabsorbPost` when the composite's record is the same and the old children keep variables and meaning: where
`_reabsorb_solver` returns at once, and in the branch of `update` -/
theorem reabsorbPost_same {U : List Con} {Us Us1 : List (List Con)} {s s2 : CSt} {m : Nat} (h : CInv R RE E U Us s)
    (h2 : CInv R RE E U Us1 s2) (hc : s2.c = s.c)
    (hv : ∀ i, i < s.w.fes.length → (s2.child i).variables = (s.child i).variables)
    (hU : ∀ i, i < s.w.fes.length → Us1.getD i [] = Us.getD i []) (hm : m < s.w.fes.length)
    (hsem : ∀ a, Models (Us.getD m []) a ↔ ∀ t ∈ s.c.solversFor (s.child m).variables, Models (Us.getD t []) a)
    (hun : s.c.unsat = false) : ReabsorbPost R RE E U Us Us1 s s2 m := by
  refine ⟨h2, by rw [hc]; exact hun, hv m hm, fun v _ => by rw [hc], ?_⟩
  intro a ha i hi hany
  obtain ⟨v, hvi, hvm⟩ := any_contains_true.mp hany
  rw [hc] at hi
  obtain ⟨u, hu⟩ := (mem_solverList' _ h.nodup i).mp hi
  have hilt := (h.map u i hu).1
  rw [hv i hilt] at hvi
  have hvi2 := h.cover u i hu v hvi
  rw [hU i hilt]
  exact (hsem a).mp ha i ((mem_solversFor _ _ _).mpr ⟨v, hvm, hvi2⟩)

/-- `ReabsorbFrames` for the branch of `_reabsorb_solver` in which the parts of `split()` replace the children -/
def ReabsorbReplaceFrames (R : Con → Prop) (RE : Exp → Prop) (E : Env) : Prop :=
  ∀ (U : List Con) (Us : List (List Con)) (s : CSt) (m : Nat), CInv R RE E U Us s → m < s.w.fes.length →
    (∀ v ∈ (s.child m).variables, ∃ t, alGet? s.c.solvers v = some t) →
    (∀ t ∈ s.c.solversFor (s.child m).variables, ∀ v ∈ (s.child t).variables, v ∈ (s.child m).variables) →
    (∀ a, Models (Us.getD m []) a ↔ ∀ t ∈ s.c.solversFor (s.child m).variables, Models (Us.getD t []) a) →
    (∀ t ∈ s.c.solversFor (s.child m).variables, Satisfiable (Us.getD t [])) → s.c.unsat = false →
    (s.child m).variables ≠ [] → alGet? s.c.solvers (minVar (s.child m).variables) ≠ some m → ReplaceTaken E m s →
    ∀ s', reabsorb E m s = (.ok (), s') → ∃ Us', ReabsorbPost R RE E U Us Us' s s' m

section
variable (H : SolverHyps R RE E)
include H

/-- the branch `len(parts) == len(old)` (and the immediate returns): the proof of `reabsorbKeeps_of_replace` with the stronger
conclusion -/
theorem reabsorbFrames_of_replace (hrep : ReabsorbReplaceFrames R RE E) : ReabsorbFrames R RE E := by
  intro U Us s m h hm hkeys hsup hsem hsat hun s' hrun
  by_cases hv : (s.child m).variables = []
  · rw [reabsorb_noop s m (Or.inl hv)] at hrun
    have := (Prod.mk.inj hrun).2
    subst this; exact ⟨Us, reabsorbPost_same h h rfl (fun _ _ => rfl) (fun _ _ => rfl) hm hsem hun⟩
  obtain ⟨t, ht⟩ := hkeys _ (minVar_mem _ hv)
  by_cases htm : t = m
  · subst htm
    rw [reabsorb_noop s t (Or.inr ht)] at hrun
    have := (Prod.mk.inj hrun).2
    subst this; exact ⟨Us, reabsorbPost_same h h rfl (fun _ _ => rfl) (fun _ _ => rfl) hm hsem hun⟩
  obtain ⟨parts, s1, Us1, hsp, hc1, hk1, hre1, hlen1, hfr1, hparts1, hp1, _, _, _⟩ :=
    childSplit_spec H (childFoot H) h.kids h.reuse m hm (h.keysOk m hm) (h.exact m hm)
  by_cases hcond : (parts.length == (s1.c.solversFor (s.child m).variables).length &&
      parts.all (fun p => !(s1.child p).variables.isEmpty)) = true
  · -- the branch of `update`
    have hrun2 : reabsorb E m s = (parts.forM updBody) s1 := by
      unfold reabsorb
      simp only [bind, CM.bind, CM.get]
      have hve : (s.child m).variables.isEmpty = false := by
        cases hx : (s.child m).variables with
        | nil => exact absurd hx hv
        | cons _ _ => rfl
      have hbeq : (t == m) = false := by simpa using htm
      simp only [hve, Bool.false_eq_true, ↓reduceIte, ht, hbeq]
      simp only [CM.bind]
      rw [hsp]
      simp only [CM.get, hcond, ↓reduceIte]
      rfl
    simp only [Bool.and_eq_true, List.all_eq_true] at hcond
    have hinit : UpdInv R RE E Us1 s.w.fes.length s1 s1 :=
      ⟨rfl, hk1, hre1, rfl, fun i hi => by
          by_cases hi0 : i < s.w.fes.length
          · rw [(hfr1 i hi0).1]; exact h.keysOk i hi0
          · exact (hparts1 i (by omega) hi).keys,
        fun _ => ⟨rfl, rfl⟩, fun _ _ => rfl⟩
    obtain ⟨s2, h2, hI2⟩ := forM_ok (P := UpdInv R RE E Us1 s.w.fes.length s1) updBody parts s1 hinit (by
      intro p hp s'' hI
      obtain ⟨hp1', hp2'⟩ := hp1 p hp
      have hpart := hparts1 p hp1' hp2'
      have hne : (s1.child p).variables ≠ [] := by
        have := hcond.2 p hp
        simpa using this
      have hminp := minVar_mem _ hne
      have hminm : minVar (s1.child p).variables ∈ (s.child m).variables := by
        obtain ⟨c, hc, hvc⟩ := hpart.exact _ hminp
        exact (h.kids.each m hm).base.vars c (hpart.cons c hc) _ hvc
      obtain ⟨t', ht'⟩ := hkeys _ hminm
      obtain ⟨s3, h3, hI3⟩ := childUpdate_step H h m hm hsem hsat hlen1 hfr1 hI p hp1' hpart hne t' ht'
      refine ⟨s3, ?_, hI3⟩
      have hcs : s''.c = s.c := hI.comp.trans hc1
      simp only [updBody, bind, CM.bind, CM.get, (hI.same p).1, hcs, ht', h3])
    rw [hrun2, h2] at hrun
    have hs' := (Prod.mk.inj hrun).2
    subst hs'
    have hcs2 : s2.c = s.c := hI2.comp.trans hc1
    have hgoal : s2 = { c := s.c, w := s2.w } := by rw [← hcs2]
    rw [hgoal]
    have hinv2 : CInv R RE E U Us1 { c := s.c, w := s2.w } := by
      refine h.of_world s2.w hI2.kids hI2.reuse hI2.keys ?_ (by rw [hI2.len]; exact hlen1) ?_ ?_
      · intro j hj
        have hj1 : j < s1.w.fes.length := by rw [← hI2.len]; exact hj
        have hsame := hI2.same j
        by_cases hj0 : j < s.w.fes.length
        · refine exactVars_congr (fe := s.child j) ?_ ?_ (h.exact j hj0)
          · show (s2.child j).constraints = _
            rw [hsame.2, (hfr1 j hj0).1]
          · show (s2.child j).variables = _
            rw [hsame.1, (hfr1 j hj0).1]
        · exact exactVars_congr (fe := s1.child j) hsame.2 hsame.1 (hparts1 j (by omega) hj1).exact
      · intro j hj
        show (s2.child j).variables = _
        rw [(hI2.same j).1, (hfr1 j hj).1]
      · intro j hj a
        rw [(hfr1 j hj).2]
    exact ⟨Us1, reabsorbPost_same h hinv2 rfl (fun j hj => by
      show (s2.child j).variables = _
      rw [(hI2.same j).1, (hfr1 j hj).1]) (fun j hj => (hfr1 j hj).2) hm hsem hun⟩
  · -- the parts replace the children
    refine hrep U Us s m h hm hkeys hsup hsem hsat hun hv (by rw [ht]; intro hx; exact htm (Option.some.inj hx)) ?_ s' hrun
    intro parts' s1' hsp'
    rw [hsp] at hsp'
    obtain ⟨hp', hs'⟩ := Prod.mk.inj hsp'
    have hp'' : parts = parts' := by injection hp'
    subst hp''; subst hs'
    simpa using hcond

/-- the parts replace the children: the proof of `reabsorbReplaceKeeps` with the stronger conclusion -/
theorem reabsorbReplaceFrames : ReabsorbReplaceFrames R RE E := by
  intro U Us s m h hm hkeys hsup hsem hsat hun hv hnm hrep s' hrun
  obtain ⟨t, ht⟩ := hkeys _ (minVar_mem _ hv)
  have htm : t ≠ m := by intro e; subst e; exact hnm ht
  obtain ⟨parts, s1, Us1, hsp, hc1, hk1, hre1, hlen1, hfr1, hparts1, hp1, hdisj, hcov, hsemP⟩ :=
    childSplit_spec H (childFoot H) h.kids h.reuse m hm (h.keysOk m hm) (h.exact m hm)
  have hcond := hrep parts s1 hsp
  have hrun2 : reabsorb E m s = (parts.forM replBody) s1 := by
    unfold reabsorb
    simp only [bind, CM.bind, CM.get]
    have hve : (s.child m).variables.isEmpty = false := by
      cases hx : (s.child m).variables with
      | nil => exact absurd hx hv
      | cons _ _ => rfl
    have hbeq : (t == m) = false := by simpa using htm
    simp only [hve, Bool.false_eq_true, ↓reduceIte, ht, hbeq]
    simp only [CM.bind]
    rw [hsp]
    simp only [CM.get, hcond, Bool.false_eq_true, ↓reduceIte]
    rfl
  rw [hrun2, forM_replBody] at hrun
  have hs' := (Prod.mk.inj hrun).2
  subst hs'
  rw [hc1]
  -- abbreviations
  have hsi := h.kids.each m hm
  have hP1 : ∀ p ∈ parts, ∀ v ∈ (s1.child p).variables, v ∈ (s.child m).variables := by
    intro p hp v hvp
    obtain ⟨q1, q2⟩ := hp1 p hp
    obtain ⟨c, hc, hvc⟩ := (hparts1 p q1 q2).exact v hvp
    exact hsi.base.vars c ((hparts1 p q1 q2).cons c hc) v hvc
  have hnd2 : (keys (storeAll s1.w parts s.c).solvers).Nodup := storeAll_nodup _ _ _ h.nodup
  have hG2 : ∀ v, v ∉ (s.child m).variables → alGet? (storeAll s1.w parts s.c).solvers v = alGet? s.c.solvers v :=
    fun v hvm => storeAll_get_other _ _ _ v (fun p hp hvp => hvm (hP1 p hp v hvp))
  have hG3 : ∀ p ∈ parts, ∀ v ∈ (s1.child p).variables, alGet? (storeAll s1.w parts s.c).solvers v = some p :=
    fun p hp v hvp => storeAll_get_part _ _ _ hdisj p hp v hvp
  have hG1 : ∀ v j, alGet? (storeAll s1.w parts s.c).solvers v = some j →
      (j ∈ parts ∧ v ∈ (s1.child j).variables) ∨ (v ∉ (s.child m).variables ∧ alGet? s.c.solvers v = some j) := by
    intro v j hvj
    by_cases hvm : v ∈ (s.child m).variables
    · obtain ⟨p, hp, hvp⟩ := hcov v hvm
      rw [hG3 p hp v hvp] at hvj
      have : p = j := Option.some.inj hvj
      subst this
      exact Or.inl ⟨hp, hvp⟩
    · rw [hG2 v hvm] at hvj
      exact Or.inr ⟨hvm, hvj⟩
  -- an old child that owns no variable of `m` shares no variable with `m`
  have hfar : ∀ j, j ∈ s.c.solverList → j ∉ s.c.solversFor (s.child m).variables → ∀ u ∈ (s.child j).variables,
      u ∉ (s.child m).variables := by
    intro j hj hjn u hu hum
    obtain ⟨v0, hv0⟩ := (mem_solverList' _ h.nodup j).mp hj
    exact hjn ((mem_solversFor _ _ _).mpr ⟨u, hum, h.cover v0 j hv0 u hu⟩)
  have holdOf : ∀ v j, v ∉ (s.child m).variables → alGet? s.c.solvers v = some j →
      j ∈ s.c.solverList ∧ j ∉ s.c.solversFor (s.child m).variables ∧ j < s.w.fes.length := by
    intro v j hvm hvj
    refine ⟨(mem_solverList' _ h.nodup j).mpr ⟨v, hvj⟩, fun hjs => ?_, (h.map v j hvj).1⟩
    exact hvm (hsup j hjs v (h.map v j hvj).2)
  have hltL : ∀ j ∈ s.c.solverList, j < s.w.fes.length := by
    intro j hj
    obtain ⟨u, hu⟩ := (mem_solverList' _ h.nodup j).mp hj
    exact (h.map u j hu).1
  -- a model of everything: the constraints without variables of `m` are true
  have hinL : ∀ j ∈ s.c.solversFor (s.child m).variables, j ∈ s.c.solverList := by
    intro j hj
    obtain ⟨n, _, hn⟩ := (mem_solversFor _ _ _).mp hj
    exact (mem_solverList' _ h.nodup j).mpr ⟨n, hn⟩
  obtain ⟨a0, ha0, _⟩ := children_joint_model H.reg h [] (fun _ => 0) (s.c.solversFor (s.child m).variables)
    (solversFor_nodup _ _) hinL (fun _ _ _ _ hk => (by cases hk)) hsat
  have hm0 : Models (s.child m).constraints a0 := by
    refine (h.child_models hm a0).mpr ((hsem a0).mpr fun t' ht' => ?_)
    exact (h.child_models (hltL t' (hinL t' ht')) a0).mp (ha0 t' ht')
  have htriv : ∀ a, ∀ c ∈ (s.child m).constraints, c.vars = [] → c.sem a = true := by
    intro a c hc hcv
    have hcw : ConWf c := H.reg.wf c (hsi.base.dinv.consR c hc)
    rw [hcw.1 a a0 (fun v hvc => by rw [hcv] at hvc; cases hvc)]
    exact hm0 c hc
  have hmemL : ∀ j, j ∈ (storeAll s1.w parts s.c).solverList ↔ ∃ v, alGet? (storeAll s1.w parts s.c).solvers v = some j :=
    fun j => mem_solverList' _ hnd2 j
  have hinv : CInv R RE E U Us1 { c := storeAll s1.w parts s.c, w := s1.w } := by
    refine ⟨hk1, hre1, ?_, ?_, hnd2, ?_, ?_, ?_, ?_, ?_⟩
    · intro j hj
      show KeysInv (s1.child j)
      by_cases hj0 : j < s.w.fes.length
      · rw [(hfr1 j hj0).1]; exact h.keysOk j hj0
      · exact (hparts1 j (by omega) hj).keys
    · intro j hj
      show ExactVars (s1.child j)
      by_cases hj0 : j < s.w.fes.length
      · rw [(hfr1 j hj0).1]; exact h.exact j hj0
      · exact (hparts1 j (by omega) hj).exact
    · -- map
      intro v j hvj
      rcases hG1 v j hvj with ⟨hjp, hvp⟩ | ⟨hvm, hold⟩
      · exact ⟨(hp1 j hjp).2, hvp⟩
      · obtain ⟨q1, q2⟩ := h.map v j hold
        refine ⟨Nat.lt_of_lt_of_le q1 hlen1, ?_⟩
        show v ∈ (s1.child j).variables
        rw [(hfr1 j q1).1]; exact q2
    · -- cover
      intro v j hvj u hu
      have hu' : u ∈ (s1.child j).variables := hu
      rcases hG1 v j hvj with ⟨hjp, _⟩ | ⟨hvm, hold⟩
      · exact hG3 j hjp u hu'
      · obtain ⟨hjl, hjn, hjlt⟩ := holdOf v j hvm hold
        rw [(hfr1 j hjlt).1] at hu'
        show alGet? (storeAll s1.w parts s.c).solvers u = some j
        rw [hG2 u (hfar j hjl hjn u hu')]
        exact h.cover v j hold u hu'
    · -- sem
      intro hun2 a
      rw [h.sem hun a]
      constructor
      · intro hall j hj
        obtain ⟨v, hvj⟩ := (hmemL j).mp hj
        rcases hG1 v j hvj with ⟨hjp, hvp⟩ | ⟨hvm, hold⟩
        · have hma : Models (s.child m).constraints a := by
            refine (h.child_models hm a).mpr ((hsem a).mpr fun t' ht' => hall t' ?_)
            obtain ⟨n, _, hn⟩ := (mem_solversFor _ _ _).mp ht'
            exact (mem_solverList' _ h.nodup t').mpr ⟨n, hn⟩
          exact ((hsemP a (htriv a)).mp hma) j hjp (by intro h0; rw [h0] at hvp; cases hvp)
        · obtain ⟨hjl, _, hjlt⟩ := holdOf v j hvm hold
          rw [(hfr1 j hjlt).2]; exact hall j hjl
      · intro hall j hj
        by_cases hjn : j ∈ s.c.solversFor (s.child m).variables
        · -- a merged child: through the parts
          have hma : Models (s.child m).constraints a := by
            refine (hsemP a (htriv a)).mpr fun p hp hne => hall p ?_
            obtain ⟨v, hvp⟩ := List.exists_mem_of_ne_nil _ hne
            exact (hmemL p).mpr ⟨v, hG3 p hp v hvp⟩
          exact (hsem a).mp ((h.child_models hm a).mp hma) j hjn
        · obtain ⟨v0, hv0⟩ := (mem_solverList' _ h.nodup j).mp hj
          have hv0m := hfar j hj hjn v0 (h.map v0 j hv0).2
          have := hall j ((hmemL j).mpr ⟨v0, by rw [hG2 v0 hv0m]; exact hv0⟩)
          rwa [(hfr1 j (hltL j hj)).2] at this
    · intro hu2
      have : (storeAll s1.w parts s.c).unsat = true := hu2
      rw [storeAll_unsat] at this
      exact h.unsatOk this
    · -- checked
      intro j hj hnu
      have hnu' : j ∉ (storeAll s1.w parts s.c).unchecked := hnu
      rw [storeAll_unchecked] at hnu'
      obtain ⟨v, hvj⟩ := (hmemL j).mp hj
      rcases hG1 v j hvj with ⟨hjp, _⟩ | ⟨hvm, hold⟩
      · exact absurd (Or.inr hjp) hnu'
      · obtain ⟨hjl, _, hjlt⟩ := holdOf v j hvm hold
        rw [(hfr1 j hjlt).2]
        exact h.checked j hjl (fun hc => hnu' (Or.inl hc))
  refine ⟨Us1, hinv, ?_, ?_, hG2, ?_⟩
  · show (storeAll s1.w parts s.c).unsat = false
    rw [storeAll_unsat]; exact hun
  · show (s1.child m).variables = _
    rw [(hfr1 m hm).1]
  · intro a ha i hi hany
    obtain ⟨v, hvi, hvm⟩ := any_contains_true.mp hany
    have hvi' : v ∈ (s1.child i).variables := hvi
    obtain ⟨u, hui⟩ := (hmemL i).mp hi
    rcases hG1 u i hui with ⟨hip, hup⟩ | ⟨hum, hold⟩
    · have hma : Models (s.child m).constraints a := (h.child_models hm a).mpr ha
      exact ((hsemP a (htriv a)).mp hma) i hip (by intro h0; rw [h0] at hup; cases hup)
    · obtain ⟨hil, hin, hilt⟩ := holdOf u i hum hold
      rw [(hfr1 i hilt).1] at hvi'
      exact absurd hvm (hfar i hil hin v hvi')


/-- **the frame facts of `_reabsorb_solver`** (both branches) -/
theorem reabsorbFrames : ReabsorbFrames R RE E := reabsorbFrames_of_replace H (reabsorbReplaceFrames H)

/-- **`satisfiable(extra_constraints)` of the composite is right**, for any extras: the answer is exact for everything the user
added plus the extras, or the backend of a child gave up; the invariant holds afterwards -/
theorem compSatisfiable_extra {U : List Con} {Us : List (List Con)} {s : CSt} (h : CInv R RE E U Us s) (extra : List Con)
    (hne : extra ≠ []) (hwf : ∀ c ∈ extra, ConWf c) :
    match compSatisfiable E extra s with
    | (.ok b, s') => (b = true ↔ Satisfiable (U ++ extra)) ∧ ∃ Us', CInv R RE E U Us' s'
    | (.error e, s') => IsGiveUp E e ∧ ∃ Us', CInv R RE E U Us' s' :=
  compSatisfiable_extra_spec H (childFoot H) h extra hne hwf (Or.inr (reabsorbFrames H))

end

end Claripy.Solver
