import ClaripyProofs.Lemmas.Solver.CompositeInv
/-!
`CompositeFrontend._add`: `_solver_for_names` (the closure loop finds exactly the children owning one of the names), `_claim`,
the child's `add`, `_store_child` — the invariant `CInv` is kept for the constraints the user then has.
-/
namespace Claripy.Solver

variable {R : Con → Prop} {RE : Exp → Prop} {E : Env}

/-! ### the closure loop of `_solver_for_names` -/

theorem mem_foldl_childVars (s : CSt) (l : List Nat) (acc : List Var) (v : Var) :
    v ∈ l.foldl (fun acc j => listUnion acc (s.child j).variables) acc ↔ v ∈ acc ∨ ∃ j ∈ l, v ∈ (s.child j).variables := by
  induction l generalizing acc with
  | nil => simp
  | cons j js ih =>
    simp only [List.foldl_cons, ih, mem_listUnion, List.mem_cons, exists_eq_or_imp]
    constructor
    · rintro ((h | h) | h)
      · exact Or.inl h
      · exact Or.inr (Or.inl h)
      · exact Or.inr (Or.inr h)
    · rintro (h | h | h)
      · exact Or.inl (Or.inl h)
      · exact Or.inl (Or.inr h)
      · exact Or.inr h

/-- with a consistent dict the loop adds nothing after its first round: the result is the set of children owning a name -/
theorem closureLoop_spec {U : List Con} {Us : List (List Con)} {s : CSt} (h : CInv R RE E U Us s) (names : List Var) :
    ∀ (fuel : Nat) (allNames newNames : List Var) (solvers : List Nat), solvers.Nodup →
      (∀ t ∈ solvers, t ∈ s.c.solversFor names) →
      (∀ n ∈ newNames, ∀ t, alGet? s.c.solvers n = some t → t ∈ s.c.solversFor names) →
      (closureLoop s fuel allNames newNames solvers).Nodup ∧
      (∀ t ∈ closureLoop s fuel allNames newNames solvers, t ∈ s.c.solversFor names) ∧
      (∀ t ∈ solvers, t ∈ closureLoop s fuel allNames newNames solvers) ∧
      (1 ≤ fuel → ∀ t ∈ s.c.solversFor newNames, t ∈ closureLoop s fuel allNames newNames solvers) := by
  intro fuel
  induction fuel with
  | zero => intro _ _ solvers hnd hown _; exact ⟨hnd, hown, fun _ h => h, fun h => by omega⟩
  | succ fuel ih =>
    intro allNames newNames solvers hnd hown hnew
    have hnd1 : (listUnion solvers (s.c.solversFor newNames)).Nodup := nodup_listUnion _ _ hnd
    have hown1 : ∀ t ∈ listUnion solvers (s.c.solversFor newNames), t ∈ s.c.solversFor names := by
      intro t ht
      rcases (mem_listUnion _ _ _).mp ht with ht | ht
      · exact hown t ht
      · obtain ⟨n, hn, hnt⟩ := (mem_solversFor _ _ _).mp ht
        exact hnew n hn t hnt
    have hnew1 : ∀ n ∈ (((listUnion solvers (s.c.solversFor newNames)).foldl
          (fun acc j => listUnion acc (s.child j).variables) []).filter fun v => !(listUnion allNames newNames).contains v),
        ∀ t, alGet? s.c.solvers n = some t → t ∈ s.c.solversFor names := by
      intro n hn t hnt
      have hn' := (List.mem_filter.mp hn).1
      rcases (mem_foldl_childVars s _ [] n).mp hn' with hx | ⟨j, hj, hnj⟩
      · cases hx
      · obtain ⟨n0, hn0, hn0j⟩ := (mem_solversFor _ _ _).mp (hown1 j hj)
        have := h.cover n0 j hn0j n hnj
        rw [hnt] at this
        have : t = j := by simpa using this
        rw [this]; exact hown1 j hj
    unfold closureLoop
    simp only
    split
    · exact ⟨hnd1, hown1, fun t ht => (mem_listUnion _ _ _).mpr (Or.inl ht), fun _ t ht => (mem_listUnion _ _ _).mpr (Or.inr ht)⟩
    · obtain ⟨r1, r2, r3, _⟩ := ih (listUnion allNames newNames) _ _ hnd1 hown1 hnew1
      exact ⟨r1, r2, fun t ht => r3 t ((mem_listUnion _ _ _).mpr (Or.inl ht)),
        fun _ t ht => r3 t ((mem_listUnion _ _ _).mpr (Or.inr ht))⟩

/-- the children `_solver_for_names(names)` merges: exactly those owning one of the names, each once -/
theorem closure_names {U : List Con} {Us : List (List Con)} {s : CSt} (h : CInv R RE E U Us s) (names : List Var) (fuel : Nat) :
    (closureLoop s (fuel + 1) names names []).Nodup ∧
    ∀ t, t ∈ closureLoop s (fuel + 1) names names [] ↔ t ∈ s.c.solversFor names := by
  obtain ⟨r1, r2, _, r4⟩ := closureLoop_spec h names (fuel + 1) names names [] List.nodup_nil (fun _ h => by cases h)
    (fun n hn t hnt => (mem_solversFor _ _ _).mpr ⟨n, hn, hnt⟩)
  exact ⟨r1, fun t => ⟨r2 t, r4 (by omega) t⟩⟩

/-! ### what the bookkeeping relies on besides the children's answers -/

/-- a child call that is not `add`: `variables` and `constraints` stay, cached models stay within the variables -/
def FootQ (s s' : St) : Prop :=
  s'.fe.variables = s.fe.variables ∧ s'.fe.constraints = s.fe.constraints ∧ (KeysInv s.fe → KeysInv s'.fe)

/-- **footprint of the class SolverCompositeChild**: its queries never touch `variables` / `constraints`, and every model it
caches is over its own variables (`_model_hook` restricts the model Z3 returns to `self.variables`; `_add` only drops
models or records the trivial one).  Proved in CompositeFoot.lean (`childFoot`). -/
structure ChildFoot (R : Con → Prop) (RE : Exp → Prop) (E : Env) : Prop where
  add : ∀ (G : St → Prop) (U : List Con) cs s, (∀ c ∈ cs, R c) → SI R RE E G U s → KeysInv s.fe →
    KeysInv (publicAdd (childOps E) cs true s).2.fe
  checkSat : ∀ (G : St → Prop) (U : List Con) ex s, SI R RE E G U s → FootQ s (childCheckSat E ex s).2
  eval : ∀ (G : St → Prop) (U : List Con) e n ex s, SI R RE E G U s → FootQ s ((childOps E).eval e n ex s).2

/-- what `_solver_for_names(names)` hands back: a child `m` (one of the old ones, or a new one) holding exactly the constraints
of the children that own one of the names -/
structure Merged (R : Con → Prop) (RE : Exp → Prop) (E : Env) (Us Us1 : List (List Con)) (s s1 : CSt) (names : List Var)
    (m : Nat) : Prop where
  comp : s1.c = s.c
  kids : TInvS R RE E Us1 s1.w
  reuse : s1.w.reuse = false
  keysOk : ∀ j, j < s1.w.fes.length → KeysInv (s1.child j)
  exact : ∀ j, j < s1.w.fes.length → ExactVars (s1.child j)
  len : s.w.fes.length ≤ s1.w.fes.length
  frame : ∀ i, i < s.w.fes.length → s1.child i = s.child i ∧ Us1.getD i [] = Us.getD i []
  lt : m < s1.w.fes.length
  sub : ∀ v ∈ (s1.child m).variables, ∃ t ∈ s.c.solversFor names, v ∈ (s.child t).variables
  sup : ∀ t ∈ s.c.solversFor names, ∀ v ∈ (s.child t).variables, v ∈ (s1.child m).variables
  sem : ∀ a, Models (Us1.getD m []) a ↔ ∀ t ∈ s.c.solversFor names, Models (Us.getD t []) a
  old : m < s.w.fes.length → m ∈ s.c.solversFor names
  fresh : s.c.solversFor names = [] → (s1.child m).hashes = [] ∧ (s1.child m).woAnnot = []

theorem solversFor_eq_nil_of_closure {U : List Con} {Us : List (List Con)} {s : CSt} (h : CInv R RE E U Us s)
    (names : List Var) (fuel : Nat) (hc : closureLoop s (fuel + 1) names names [] = []) : s.c.solversFor names = [] := by
  cases hx : s.c.solversFor names with
  | nil => rfl
  | cons t rest =>
    have := ((closure_names h names fuel).2 t).mpr (by rw [hx]; simp)
    rw [hc] at this; cases this

/-- no child owns a name: `template.blank_copy()` -/
theorem merged_blank {U : List Con} {Us : List (List Con)} {s : CSt} (h : CInv R RE E U Us s) (names : List Var)
    (hnone : s.c.solversFor names = []) :
    ∃ s1, blankChild E s = (.ok s.w.fes.length, s1) ∧ Merged R RE E Us (Us ++ [[]]) s s1 names s.w.fes.length := by
  refine ⟨_, rfl, ?_⟩
  have hk := child_blank_spec s.w Us h.kids h.reuse s.c.track
  have hold : ∀ i, i < s.w.fes.length →
      (s.w.fes ++ [({ track := s.c.track } : Frontend)]).getD i {} = s.w.fes.getD i {} :=
    fun i hi => getD_append_left' _ _ _ _ hi
  have hnew : (s.w.fes ++ [({ track := s.c.track } : Frontend)]).getD s.w.fes.length {} = { track := s.c.track } :=
    getD_append_last _ _ _
  refine ⟨rfl, hk, h.reuse, ?_, ?_, by simp, ?_, by simp, ?_, ?_, ?_, fun hlt => absurd hlt (Nat.lt_irrefl _), ?_⟩
  · intro j hj
    simp only [List.length_append, List.length_singleton] at hj
    show KeysInv ((s.w.fes ++ [childBlank E { track := s.c.track }]).getD j {})
    rw [childBlank_eq]
    by_cases hjl : j < s.w.fes.length
    · rw [hold j hjl]; exact h.keysOk j hjl
    · have : j = s.w.fes.length := by omega
      subst this
      rw [hnew]; intro m hm; cases hm
  · intro j hj
    simp only [List.length_append, List.length_singleton] at hj
    show ExactVars ((s.w.fes ++ [childBlank E { track := s.c.track }]).getD j {})
    rw [childBlank_eq]
    by_cases hjl : j < s.w.fes.length
    · rw [hold j hjl]; exact h.exact j hjl
    · have : j = s.w.fes.length := by omega
      subst this
      rw [hnew]; intro v hv; cases hv
  · intro i hi
    refine ⟨?_, getD_append_left' _ _ _ _ (by rw [h.kids.len]; exact hi)⟩
    show (s.w.fes ++ [childBlank E { track := s.c.track }]).getD i {} = _
    rw [childBlank_eq]; exact hold i hi
  · intro v hv
    have : v ∈ ((s.w.fes ++ [childBlank E { track := s.c.track }]).getD s.w.fes.length {}).variables := hv
    rw [childBlank_eq, hnew] at this; cases this
  · intro t ht; rw [hnone] at ht; cases ht
  · intro a
    rw [hnone]
    have : (Us ++ [[]]).getD s.w.fes.length [] = ([] : List Con) := by rw [← h.kids.len]; exact getD_append_last _ _ _
    rw [this]
    simp [Models]
  · intro _
    show ((s.w.fes ++ [childBlank E { track := s.c.track }]).getD s.w.fes.length {}).hashes = [] ∧
      ((s.w.fes ++ [childBlank E { track := s.c.track }]).getD s.w.fes.length {}).woAnnot = []
    rw [childBlank_eq, hnew]; exact ⟨rfl, rfl⟩

/-- exactly one child owns names: that child -/
theorem merged_single {U : List Con} {Us : List (List Con)} {s : CSt} (h : CInv R RE E U Us s) (names : List Var) (j : Nat)
    (hone : ∀ t, t ∈ s.c.solversFor names ↔ t = j) : Merged R RE E Us Us s s names j := by
  have hj : j ∈ s.c.solversFor names := (hone j).mpr rfl
  obtain ⟨n, _, hn⟩ := (mem_solversFor _ _ _).mp hj
  have hlt := (h.map n j hn).1
  refine ⟨rfl, h.kids, h.reuse, h.keysOk, h.exact, Nat.le_refl _, fun i _ => ⟨rfl, rfl⟩, hlt, ?_, ?_, ?_, fun _ => hj, ?_⟩
  · intro v hv; exact ⟨j, hj, hv⟩
  · intro t ht v hv; rw [(hone t).mp ht] at hv; exact hv
  · intro a
    constructor
    · intro ha t ht; rw [(hone t).mp ht]; exact ha
    · intro ha; exact ha j hj
  · intro hnil; rw [hnil] at hj; cases hj

section
variable (H : SolverHyps R RE E) (F : ChildFoot R RE E)
include H F

/-- `s.add(constraints)` on the (claimed) merged child `j'`, then `_store_child(j')` -/
theorem add_store {U : List Con} {Us Us2 : List (List Con)} {s : CSt} (h : CInv R RE E U Us s) (names : List Var)
    (cs : List Con) (hcs : ∀ c ∈ cs, R c) (hcv : ∀ c ∈ cs, ∀ v ∈ c.vars, v ∈ names) (hne : cs ≠ [])
    (hvne : ∀ c ∈ cs, c.vars ≠ []) (w2 : World) (owned2 : List Nat) (j' : Nat)
    (hkids : TInvS R RE E Us2 w2) (hre : w2.reuse = false)
    (hkeys : ∀ j, j < w2.fes.length → KeysInv (w2.fes.getD j {}))
    (hexact : ∀ j, j < w2.fes.length → ExactVars (w2.fes.getD j {}))
    (hlen : s.w.fes.length ≤ w2.fes.length) (hj' : j' < w2.fes.length)
    (hsub : ∀ v ∈ (w2.fes.getD j' {}).variables, ∃ t ∈ s.c.solversFor names, v ∈ (s.child t).variables)
    (hsup : ∀ t ∈ s.c.solversFor names, ∀ v ∈ (s.child t).variables, v ∈ (w2.fes.getD j' {}).variables)
    (hsem : ∀ a, Models (Us2.getD j' []) a ↔ ∀ t ∈ s.c.solversFor names, Models (Us.getD t []) a)
    (hold : j' ∈ s.c.solverList → j' ∈ s.c.solversFor names)
    (hfresh : s.c.solversFor names = [] → (w2.fes.getD j' {}).hashes = [] ∧ (w2.fes.getD j' {}).woAnnot = [])
    (hframe : ∀ i ∈ s.c.solverList, i ∉ s.c.solversFor names → w2.fes.getD i {} = s.child i ∧ Us2.getD i [] = Us.getD i []) :
    ∃ added w3, runOn w2 j' (publicAdd (childOps E) cs) = (.ok added, w3) ∧ (∀ c ∈ added, c ∈ cs) ∧
      CInv R RE E (U ++ cs) (Us2.set j' (Us2.getD j' [] ++ cs))
        { c := s.c.stored (w3.fes.getD j' {}).variables j' owned2, w := w3 } := by
  obtain ⟨added, w3, hrun, hk3, hlen3, hoth, hcons, hadd, hvars, hself, hre3, hcover⟩ :=
    child_add_spec H w2 Us2 hkids j' hj' cs hcs
  refine ⟨added, w3, hrun, hadd, ?_⟩
  have hj'U : j' < Us2.length := by rw [hkids.len]; exact hj'
  refine cinv_install h names cs w3 owned2 j' hk3 (by rw [hre3]; exact hre) ?_ ?_ (by rw [hlen3]; exact hlen)
    (by rw [hlen3]; exact hj') ?_ ?_ ?_ ?_ hold ?_
  · -- cached models stay within the variables
    intro j hj
    rw [hlen3] at hj
    by_cases hjj : j = j'
    · subst hjj
      rw [hself]
      exact F.add _ _ cs (stOfI w2 j) hcs (hkids.each j hj) (hkeys j hj)
    · rw [hoth j hjj]; exact hkeys j hj
  · -- every variable occurs in a constraint
    intro j hj
    rw [hlen3] at hj
    by_cases hjj : j = j'
    · subst hjj
      intro v hv
      rcases (hvars v).mp hv with hv | ⟨c, hc, hvc⟩
      · obtain ⟨c, hc, hvc⟩ := hexact j hj v hv
        exact ⟨c, by rw [hcons]; exact List.mem_append_left _ hc, hvc⟩
      · exact ⟨c, by rw [hcons]; exact List.mem_append_right _ hc, hvc⟩
    · rw [hoth j hjj]; exact hexact j hj
  · intro v hv
    rcases (hvars v).mp hv with hv | ⟨c, hc, hvc⟩
    · exact Or.inl (hsub v hv)
    · exact Or.inr (hcv c (hadd c hc) v hvc)
  · intro t ht v hv
    exact (hvars v).mpr (Or.inl (hsup t ht v hv))
  · -- the merged child knows a variable
    intro hnil
    cases hsol : s.c.solversFor names with
    | cons t rest =>
      have ht : t ∈ s.c.solversFor names := by rw [hsol]; simp
      obtain ⟨n, _, hn⟩ := (mem_solversFor _ _ _).mp ht
      have := (hvars n).mpr (Or.inl (hsup t ht n (h.map n t hn).2))
      rw [hnil] at this; cases this
    | nil =>
      obtain ⟨hh, hwo⟩ := hfresh hsol
      obtain ⟨c0, rest, rfl⟩ := List.exists_cons_of_ne_nil hne
      have hadded : ∃ c', c' ∈ added := by
        rcases hcover c0 (by simp) with hc | hc | ⟨c', hc', _⟩
        · exact ⟨c0, hc⟩
        · rw [hh, hwo] at hc; rcases hc with hc | hc <;> cases hc
        · exact ⟨c', hc'⟩
      obtain ⟨c', hc'⟩ := hadded
      obtain ⟨v, vs, hv⟩ := List.exists_cons_of_ne_nil (hvne c' (hadd c' hc'))
      have := (hvars v).mpr (Or.inr ⟨c', hc', by rw [hv]; simp⟩)
      rw [hnil] at this; cases this
  · intro a
    rw [getD_set_self _ _ _ _ hj'U, models_append, hsem a]
  · intro i hi his
    have hij : i ≠ j' := fun e => by subst e; exact his (hold hi)
    rw [hoth i hij, getD_set_ne _ _ _ _ _ (Ne.symm hij)]
    exact hframe i hi his

/-- `_claim`, the child's `add`, `_store_child` -/
def claimAddStore (E : Env) (m : Nat) (cs : List Con) : CM (List Con) := do
  let j ← claim E m
  let added ← CM.onChild j (publicAdd (childOps E) cs)
  storeChild j
  pure added

omit H F in
theorem addDependent_eq (E : Env) (names : List Var) (cs : List Con) :
    addDependent E names cs = (do let m ← solverForNames E names; claimAddStore E m cs) := rfl

omit H F in
theorem keysInv_congr {fe fe' : Frontend} (hm : fe'.models = fe.models) (hv : fe'.variables = fe.variables) (h : KeysInv fe) :
    KeysInv fe' := by
  intro m hmm; rw [hv]; rw [hm] at hmm; exact h m hmm

omit H F in
theorem exactVars_congr {fe fe' : Frontend} (hc : fe'.constraints = fe.constraints) (hv : fe'.variables = fe.variables)
    (h : ExactVars fe) : ExactVars fe' := by
  intro v hvv; rw [hc]; rw [hv] at hvv; exact h v hvv

/-- after `_solver_for_names`: claim the merged child (copy-on-write), add, store -/
theorem after_merge {U : List Con} {Us Us1 : List (List Con)} {s s1 : CSt} (h : CInv R RE E U Us s) (names : List Var)
    (m : Nat) (hm : Merged R RE E Us Us1 s s1 names m)
    (cs : List Con) (hcs : ∀ c ∈ cs, R c) (hcv : ∀ c ∈ cs, ∀ v ∈ c.vars, v ∈ names) (hne : cs ≠ [])
    (hvne : ∀ c ∈ cs, c.vars ≠ []) :
    ∃ added Us' s', claimAddStore E m cs s1 = (.ok added, s') ∧ (∀ c ∈ added, c ∈ cs) ∧ CInv R RE E (U ++ cs) Us' s' := by
  obtain ⟨c1, w1⟩ := s1
  have hc1 : c1 = s.c := hm.comp
  subst hc1
  have hmold : m ∈ s.c.solverList → m ∈ s.c.solversFor names := by
    intro hml
    obtain ⟨v, hv⟩ := (mem_solverList' _ h.nodup m).mp hml
    exact hm.old (h.map v m hv).1
  by_cases hown : s.c.owned.contains m = true
  · -- the child is ours: change it in place
    obtain ⟨added, w3, hrun, hadd, hinv⟩ := add_store H F h names cs hcs hcv hne hvne w1 s.c.owned m hm.kids hm.reuse
      hm.keysOk hm.exact hm.len hm.lt hm.sub hm.sup hm.sem hmold hm.fresh
      (fun i hi his => by
        obtain ⟨v, hv⟩ := (mem_solverList' _ h.nodup i).mp hi
        exact hm.frame i (h.map v i hv).1)
    refine ⟨added, _, _, ?_, hadd, hinv⟩
    have hcl : claim E m ⟨s.c, w1⟩ = (.ok m, ⟨s.c, w1⟩) := by
      simp only [claim, bind, CM.bind, CM.get, hown, ↓reduceIte, pure, CM.pure]
    simp only [claimAddStore, bind, CM.bind, hcl, CM.onChild, hrun, storeChild, pure, CM.pure]
    rfl
  · -- copy on write
    have hown' : s.c.owned.contains m = false := by simpa using hown
    obtain ⟨w2, hstep, hk2, hlen2, hfr2, hself2, hcons2, hvars2, hmod2, hhash2, hwo2, hre2⟩ :=
      child_branch_spec (E := E) w1 Us1 hm.kids m hm.lt
    have hlast : (Us1 ++ [Us1.getD m []]).getD w1.fes.length [] = Us1.getD m [] := by
      rw [← hm.kids.len]; exact getD_append_last _ _ _
    have hframe2 : ∀ i, i < w1.fes.length → i ≠ m → w2.fes.getD i {} = w1.fes.getD i {} := hfr2
    obtain ⟨added, w3, hrun, hadd, hinv⟩ := add_store H F h names cs hcs hcv hne hvne w2 (listInsert s.c.owned w1.fes.length)
      w1.fes.length hk2 (by rw [hre2]; exact hm.reuse)
      (by
        intro j hj
        rw [hlen2] at hj
        by_cases hjl : j < w1.fes.length
        · by_cases hjm : j = m
          · subst hjm; rw [hself2]; exact keysInv_congr rfl rfl (hm.keysOk j hjl)
          · rw [hframe2 j hjl hjm]; exact hm.keysOk j hjl
        · have : j = w1.fes.length := by omega
          subst this
          exact keysInv_congr hmod2 hvars2 (hm.keysOk m hm.lt))
      (by
        intro j hj
        rw [hlen2] at hj
        by_cases hjl : j < w1.fes.length
        · by_cases hjm : j = m
          · subst hjm; rw [hself2]; exact exactVars_congr rfl rfl (hm.exact j hjl)
          · rw [hframe2 j hjl hjm]; exact hm.exact j hjl
        · have : j = w1.fes.length := by omega
          subst this
          exact exactVars_congr hcons2 hvars2 (hm.exact m hm.lt))
      (by rw [hlen2]; exact Nat.le_succ_of_le hm.len) (by rw [hlen2]; exact Nat.lt_succ_self _)
      (by intro v hv; rw [hvars2] at hv; exact hm.sub v hv)
      (by intro t ht v hv; rw [hvars2]; exact hm.sup t ht v hv)
      (by intro a; rw [hlast]; exact hm.sem a)
      (by
        intro hml
        obtain ⟨v, hv⟩ := (mem_solverList' _ h.nodup _).mp hml
        have h1 := (h.map v _ hv).1
        have h2 : s.w.fes.length ≤ w1.fes.length := hm.len
        omega)
      (by intro hnil; rw [hhash2, hwo2]; exact hm.fresh hnil)
      (by
        intro i hi his
        obtain ⟨v, hv⟩ := (mem_solverList' _ h.nodup i).mp hi
        have hil := (h.map v i hv).1
        have hil1 : i < w1.fes.length := Nat.lt_of_lt_of_le hil hm.len
        have him : i ≠ m := fun e => by subst e; exact his (hm.old hil)
        rw [hframe2 i hil1 him, getD_append_left' _ _ _ _ (by rw [hm.kids.len]; exact hil1)]
        exact hm.frame i hil)
    refine ⟨added, _, _, ?_, hadd, hinv⟩
    have hcl : claim E m ⟨s.c, w1⟩ =
        (.ok w1.fes.length, ⟨{ s.c with owned := listInsert s.c.owned w1.fes.length }, w2⟩) := by
      simp only [claim, bind, CM.bind, CM.get, hown', Bool.false_eq_true, ↓reduceIte, childBranch, hstep, CM.modifyC,
        pure, CM.pure]
    simp only [claimAddStore, bind, CM.bind, hcl, CM.onChild, hrun, storeChild, pure, CM.pure]
    rfl

/-- what `combine` must deliver when several children own names (proved separately: `childCombine_spec`) -/
def CombineSpec (R : Con → Prop) (RE : Exp → Prop) (E : Env) : Prop :=
  ∀ (U : List Con) (Us : List (List Con)) (s : CSt), CInv R RE E U Us s → ∀ (names : List Var) (j : Nat) (rest : List Nat),
    rest ≠ [] → (j :: rest).Nodup → (∀ t, t ∈ j :: rest ↔ t ∈ s.c.solversFor names) →
    ∃ Us1 s1, childCombine E j rest s = (.ok s.w.fes.length, s1) ∧ Merged R RE E Us Us1 s s1 names s.w.fes.length

omit H F in
/-- `Merged` looks at the composite's record and the list of children only: the event counter may have moved before -/
theorem Merged.of_tick {Us Us1 : List (List Con)} {s s1 : CSt} {names : List Var} {m : Nat} (t : Nat)
    (hm : Merged R RE E Us Us1 { s with w := { s.w with tick := t } } s1 names m) : Merged R RE E Us Us1 s s1 names m :=
  ⟨hm.comp, hm.kids, hm.reuse, hm.keysOk, hm.exact, hm.len, hm.frame, hm.lt, hm.sub, hm.sup, hm.sem, hm.old, hm.fresh⟩

omit H F in
/-- `_solver_for_names(names)`: whatever the order in which `list(solvers)` lists the set of children -/
theorem solverForNames_spec (hC : CombineSpec R RE E) {U : List Con} {Us : List (List Con)} {s : CSt}
    (h : CInv R RE E U Us s) (names : List Var) :
    ∃ m Us1 s1, solverForNames E names s = (.ok m, s1) ∧ Merged R RE E Us Us1 s s1 names m := by
  obtain ⟨hnd, hmem⟩ := closure_names h names ((s.w.fes.map (fun f : Frontend => f.variables.length)).sum)
  have hrun : solverForNames E names s =
      (match closureLoop s ((s.w.fes.map (fun f : Frontend => f.variables.length)).sum + 1) names names [] with
       | [] => blankChild E
       | [j] => pure j
       | l => (do
          match ← orderChildren E l with
          | [] => blankChild E
          | j :: rest => childCombine E j rest : CM Nat)) s := rfl
  rw [hrun]
  cases hcl : closureLoop s ((s.w.fes.map (fun f : Frontend => f.variables.length)).sum + 1) names names [] with
  | nil =>
    obtain ⟨s1, hr, hm⟩ := merged_blank (E := E) h names (solversFor_eq_nil_of_closure h names _ hcl)
    exact ⟨_, _, s1, hr, hm⟩
  | cons j rest =>
    cases rest with
    | nil =>
      refine ⟨j, Us, s, rfl, merged_single h names j (fun t => ?_)⟩
      rw [← hmem t, hcl]; simp
    | cons r rest =>
      rw [hcl] at hnd hmem
      -- the set in the order CPython lists it: a permutation
      have hnd' := nodup_reorderBy (fun (j : Nat) k => k == [j])
        (E.pick ((j :: r :: rest).map fun j => [j]) ((j :: r :: rest).map fun j => [j]).length s.w.tick) _ hnd
      have hmem' := mem_reorderBy (fun (j : Nat) k => k == [j])
        (E.pick ((j :: r :: rest).map fun j => [j]) ((j :: r :: rest).map fun j => [j]).length s.w.tick) (j :: r :: rest)
      simp only [bind, CM.bind, orderChildren, orderOracle_run]
      generalize reorderBy (fun (j : Nat) k => k == [j])
        (E.pick ((j :: r :: rest).map fun j => [j]) ((j :: r :: rest).map fun j => [j]).length s.w.tick) (j :: r :: rest) = l'
        at hnd' hmem'
      have hjr : j ≠ r := by
        intro e; subst e
        have := (List.nodup_cons.mp hnd).1
        exact this (by simp)
      match l', hnd', hmem' with
      | [], _, hm' => exact absurd ((hm' j).mpr (by simp)) (by simp)
      | [a], _, hm' =>
        have h1 : j = a := by simpa using (hm' j).mpr (by simp)
        have h2 : r = a := by simpa using (hm' r).mpr (by simp)
        exact absurd (h1.trans h2.symm) hjr
      | a :: b :: rest', hnd', hm' =>
        obtain ⟨Us1, s1, hr, hm⟩ := hC U Us _ (h.set_tick (s.w.tick + 1)) names a (b :: rest') (by simp) hnd'
          (fun t => (hm' t).trans (hmem t))
        exact ⟨_, Us1, s1, hr, hm.of_tick _⟩

/-- **`_add_dependent_constraints(names, cs)` keeps the invariant** -/
theorem addDependent_spec (hC : CombineSpec R RE E) {U : List Con} {Us : List (List Con)} {s : CSt}
    (h : CInv R RE E U Us s) (names : List Var) (cs : List Con) (hcs : ∀ c ∈ cs, R c)
    (hcv : ∀ c ∈ cs, ∀ v ∈ c.vars, v ∈ names) (hne : cs ≠ []) (hvne : ∀ c ∈ cs, c.vars ≠ []) :
    ∃ added Us' s', addDependent E names cs s = (.ok added, s') ∧ (∀ c ∈ added, c ∈ cs) ∧ CInv R RE E (U ++ cs) Us' s' := by
  obtain ⟨m, Us1, s1, hr, hm⟩ := solverForNames_spec hC h names
  obtain ⟨added, Us', s', hr2, hadd, hinv⟩ := after_merge H F h names m hm cs hcs hcv hne hvne
  refine ⟨added, Us', s', ?_, hadd, hinv⟩
  rw [addDependent_eq]
  simp only [bind, CM.bind, hr, hr2]

omit H F in
theorem CInv.congr {U U' : List Con} {Us : List (List Con)} {s : CSt} (h : CInv R RE E U Us s)
    (heq : ∀ a, Models U' a ↔ Models U a) : CInv R RE E U' Us s :=
  ⟨h.kids, h.reuse, h.keysOk, h.exact, h.nodup, h.map, h.cover, fun hu a => (heq a).trans (h.sem hu a),
   fun hu ⟨a, ha⟩ => h.unsatOk hu ⟨a, (heq a).mp ha⟩, h.checked⟩

omit H F in
theorem getD_map_vars (cs : List Con) (i : Nat) (hi : i < cs.length) : (cs.map (·.vars)).getD i [] = (cs.getD i default).vars := by
  simp [List.getD, hi]

omit H F in
theorem getD_mem (cs : List Con) (i : Nat) (hi : i < cs.length) : cs.getD i default ∈ cs := by
  simp only [List.getD, List.getElem?_eq_getElem hi, Option.getD_some]; exact List.getElem_mem hi

/-- the loop of `_add` over the groups of `_split_constraints` -/
theorem addGroups_spec (hC : CombineSpec R RE E) (cs : List Con) (hcs : ∀ c ∈ cs, R c) (varss : List (List Var))
    (hvarss : ∀ i, i < cs.length → varss.getD i [] = (cs.getD i default).vars) (hvl : varss.length = cs.length) :
    ∀ (gs : List (List Var × List Nat)), (∀ g ∈ gs, g ∈ groupsOf varss) →
    ∀ (U : List Con) (Us : List (List Con)) (s : CSt) (acc : List Con), CInv R RE E U Us s →
    ∃ out Us' s', addGroups E cs gs acc s = (.ok out, s') ∧
      CInv R RE E (U ++ gs.flatMap (fun g => g.2.map fun i => cs.getD i default)) Us' s' := by
  intro gs
  induction gs with
  | nil => intro _ U Us s acc h; exact ⟨acc, Us, s, rfl, by simpa using h⟩
  | cons g rest ih =>
    intro hgs U Us s acc h
    have hg : g ∈ groupsOf varss := hgs g (by simp)
    obtain ⟨p, hp, hgp⟩ := (groupsOf_spec varss).1 g |>.mp hg
    have hidx : ∀ i ∈ g.2, i < cs.length ∧ (cs.getD i default).vars ≠ [] := by
      intro i hi
      obtain ⟨hlt, vs, hvs, hne, _⟩ := group_index varss p hp i (hgp ▸ hi)
      have hlt' : i < cs.length := by rw [← hvl]; exact hlt
      refine ⟨hlt', ?_⟩
      have : varss.getD i [] = vs := by simp [List.getD, hvs]
      rw [hvarss i hlt'] at this
      rw [this]; exact hne
    have hcov : ∀ i ∈ g.2, ∀ v ∈ (cs.getD i default).vars, v ∈ g.1 := by
      intro i hi v hv
      have h1 := groups_cover_vars varss g hg i hi
      rw [hvarss i (hidx i hi).1] at h1
      exact h1 v hv
    obtain ⟨added, Us1, s1, hr, _, hinv⟩ := addDependent_spec H F hC h g.1 (g.2.map fun i => cs.getD i default)
      (by
        intro c hc
        obtain ⟨i, hi, rfl⟩ := List.mem_map.mp hc
        exact hcs _ (getD_mem cs i (hidx i hi).1))
      (by
        intro c hc v hv
        obtain ⟨i, hi, hic⟩ := List.mem_map.mp hc
        subst hic
        exact hcov i hi v hv)
      (by
        intro hnil
        exact groups_nonempty _ g hg (List.map_eq_nil_iff.mp hnil))
      (by
        intro c hc
        obtain ⟨i, hi, rfl⟩ := List.mem_map.mp hc
        exact (hidx i hi).2)
    obtain ⟨out, Us2, s2, hr2, hinv2⟩ := ih (fun g' hg' => hgs g' (List.mem_cons_of_mem _ hg')) _ Us1 s1 (acc ++ added) hinv
    refine ⟨out, Us2, s2, ?_, ?_⟩
    · simp only [addGroups, bind, CM.bind, hr, hr2]
    · simpa [List.flatMap_cons, List.append_assoc] using hinv2

omit H F in
theorem concreteScan_true {set : List Con} (h : concreteScan set = some true) : ∃ c ∈ set, c.conc = some false := by
  induction set with
  | nil => simp [concreteScan] at h
  | cons c rest ih =>
    unfold concreteScan at h
    cases hc : c.conc with
    | none => rw [hc] at h; cases h
    | some b =>
      cases b with
      | false => exact ⟨c, by simp, hc⟩
      | true => rw [hc] at h; obtain ⟨c', hc', h'⟩ := ih h; exact ⟨c', by simp [hc'], h'⟩

omit H F in
theorem concreteScan_false {set : List Con} (h : concreteScan set = some false) : ∀ c ∈ set, c.conc = some true := by
  induction set with
  | nil => intro c hc; cases hc
  | cons c rest ih =>
    unfold concreteScan at h
    cases hc : c.conc with
    | none => rw [hc] at h; cases h
    | some b =>
      cases b with
      | false => rw [hc] at h; cases h
      | true =>
        rw [hc] at h
        intro c' hc'
        rcases List.mem_cons.mp hc' with rfl | hc'
        · exact hc
        · exact ih h c' hc'

omit H F in
theorem concreteScan_none {set : List Con} (h : concreteScan set = none) : ∃ c ∈ set, c.conc = none := by
  induction set with
  | nil => simp [concreteScan] at h
  | cons c rest ih =>
    unfold concreteScan at h
    cases hc : c.conc with
    | none => exact ⟨c, by simp, hc⟩
    | some b =>
      cases b with
      | false => rw [hc] at h; cases h
      | true => rw [hc] at h; obtain ⟨c', hc', h'⟩ := ih h; exact ⟨c', by simp [hc'], h'⟩

omit H F in
/-- the composite's own constraint list is not looked at by the invariant -/
theorem CInv.own {U : List Con} {Us : List (List Con)} {s : CSt} (h : CInv R RE E U Us s) (childAdded : List Con) :
    CInv R RE E U Us (ownAdd childAdded s).2 :=
  ⟨h.kids, h.reuse, h.keysOk, h.exact, h.nodup, h.map, h.cover, h.sem, h.unsatOk, h.checked⟩

omit H F in
theorem CInv.setUnsat {U U' : List Con} {Us : List (List Con)} {s : CSt} (h : CInv R RE E U Us s) (hun : ¬ Satisfiable U') :
    CInv R RE E U' Us { s with c := { s.c with unsat := true } } :=
  ⟨h.kids, h.reuse, h.keysOk, h.exact, h.nodup, h.map, h.cover, fun hu => (by cases hu), fun _ => hun, h.checked⟩

omit H F in
/-- the list `_split_constraints` returns, in whatever order the set behind it is iterated: the same groups -/
theorem orderGroups_run (E : Env) (gs : List (List Var × List Nat)) (s : CSt) :
    ∃ gs' t, orderGroups E gs s = (.ok gs', { s with w := { s.w with tick := t } }) ∧ ∀ g, g ∈ gs' ↔ g ∈ gs := by
  unfold orderGroups
  by_cases hl : gs.length < 2
  · simp only [hl, ↓reduceIte]
    exact ⟨gs, s.w.tick, rfl, fun _ => Iff.rfl⟩
  · simp only [hl, ↓reduceIte, orderOracle_run]
    exact ⟨_, _, rfl, fun g => mem_reorderBy _ _ _ g⟩

/-- **`CompositeFrontend._add` keeps the invariant**: afterwards the children partition `U ++ cs` (constraints without variables
that the concrete backend cannot decide are out of scope: `hconc`) -/
theorem compAdd_spec (hC : CombineSpec R RE E) {U : List Con} {Us : List (List Con)} {s : CSt} (h : CInv R RE E U Us s)
    (cs : List Con) (hcs : ∀ c ∈ cs, R c) (hconc : ∀ c ∈ cs, c.vars = [] → c.conc ≠ none) :
    ∃ added Us' s', compAdd E cs s = (.ok added, s') ∧ CInv R RE E (U ++ cs) Us' s' := by
  have hvarss : ∀ i, i < cs.length → (cs.map (·.vars)).getD i [] = (cs.getD i default).vars := fun i hi => getD_map_vars cs i hi
  have hvl : (cs.map (·.vars)).length = cs.length := by simp
  generalize hv : cs.map (·.vars) = varss at hvarss hvl
  have hsplit : splitConstraints varss = (groupsOf varss, concreteOf varss) := splitConstraints_eq varss
  obtain ⟨gs, t, hog, hgs⟩ := orderGroups_run E (groupsOf varss) s
  obtain ⟨out, Us1, s1, hr, hinv⟩ := addGroups_spec H F hC cs hcs varss hvarss hvl gs (fun g hg => (hgs g).mp hg) U Us _ []
    (h.set_tick t)
  -- the constraints without variables
  have hset : ∀ c ∈ (concreteOf varss).map (fun i => cs.getD i default), c ∈ cs ∧ c.vars = [] := by
    intro c hc
    obtain ⟨i, hi, rfl⟩ := List.mem_map.mp hc
    have h1 := (mem_concreteOf varss i).mp hi
    have hlt : i < cs.length := by rw [← hvl]; exact (List.getElem?_eq_some_iff.mp h1).1
    refine ⟨getD_mem cs i hlt, ?_⟩
    rw [← hvarss i hlt]; simp [List.getD, h1]
  have hgrp : ∀ c ∈ gs.flatMap (fun g => g.2.map fun i => cs.getD i default), c ∈ cs := by
    intro c hc
    obtain ⟨g, hg, hcg⟩ := List.mem_flatMap.mp hc
    obtain ⟨i, hi, rfl⟩ := List.mem_map.mp hcg
    have : i ∈ allIdx varss := by
      unfold allIdx
      exact List.mem_append_left _ (List.mem_flatten.mpr ⟨g.2, List.mem_map.mpr ⟨g, (hgs g).mp hg, rfl⟩, hi⟩)
    exact getD_mem cs i (by rw [← hvl]; exact (mem_allIdx varss i).mp this)
  have hall : ∀ c ∈ cs, c ∈ gs.flatMap (fun g => g.2.map fun i => cs.getD i default) ∨
      c ∈ (concreteOf varss).map (fun i => cs.getD i default) := by
    intro c hc
    obtain ⟨i, hlt, rfl⟩ := List.getElem_of_mem hc
    have hgd : cs.getD i default = cs[i] := by simp [List.getD, hlt]
    have : i ∈ allIdx varss := (mem_allIdx varss i).mpr (by rw [hvl]; exact hlt)
    unfold allIdx at this
    rcases List.mem_append.mp this with hx | hx
    · left
      obtain ⟨l, hl, hil⟩ := List.mem_flatten.mp hx
      obtain ⟨g, hg, rfl⟩ := List.mem_map.mp hl
      exact List.mem_flatMap.mpr ⟨g, (hgs g).mpr hg, List.mem_map.mpr ⟨i, hil, hgd⟩⟩
    · right; exact List.mem_map.mpr ⟨i, hx, hgd⟩
  -- the run
  have hrun : compAdd E cs s = (do
      let groups ← orderGroups E (groupsOf varss)
      let childAdded ← addGroups E cs groups []
      if (concreteOf varss).isEmpty then ownAdd childAdded
      else
        match concreteScan ((concreteOf varss).map fun i => cs.getD i default) with
        | some true => do
            CM.modifyC fun c => { c with unsat := true }
            ownAdd (childAdded ++ [E.falseCon])
        | some false => ownAdd childAdded
        | none => do
            let s ← CM.get
            addUnsure E ((concreteOf varss).map fun i => cs.getD i default) s.c.solverList
            ownAdd childAdded : CM (List Con)) s := by
    unfold compAdd
    rw [hv, hsplit]
    rfl
  rw [hrun]
  simp only [bind, CM.bind, hog, hr]
  by_cases hemp : (concreteOf varss).isEmpty = true
  · simp only [hemp, ↓reduceIte]
    refine ⟨_, Us1, _, rfl, ?_⟩
    refine (hinv.own out).congr fun a => ?_
    rw [models_append, models_append]
    have hnil : concreteOf varss = [] := by simpa using hemp
    constructor
    · rintro ⟨hU, hc⟩; exact ⟨hU, fun c hc' => hc c (hgrp c hc')⟩
    · rintro ⟨hU, hc⟩
      refine ⟨hU, fun c hc' => ?_⟩
      rcases hall c hc' with hx | hx
      · exact hc c hx
      · rw [hnil] at hx; cases hx
  · simp only [hemp, Bool.false_eq_true, ↓reduceIte]
    cases hscan : concreteScan ((concreteOf varss).map fun i => cs.getD i default) with
    | none =>
      obtain ⟨c, hc, hcn⟩ := concreteScan_none hscan
      exact absurd hcn (hconc c (hset c hc).1 (hset c hc).2)
    | some b =>
      cases b with
      | true =>
        obtain ⟨c, hc, hcf⟩ := concreteScan_true hscan
        have hun : ¬ Satisfiable (U ++ cs) := by
          rintro ⟨a, ha⟩
          have := (models_append.mp ha).2 c (hset c hc).1
          rw [(H.reg.wf c (hcs c (hset c hc).1)).2.2.1 false hcf a] at this
          cases this
        exact ⟨_, Us1, _, rfl, (hinv.setUnsat hun).own _⟩
      | false =>
        have htrue := concreteScan_false hscan
        refine ⟨_, Us1, _, rfl, ?_⟩
        refine (hinv.own out).congr fun a => ?_
        rw [models_append, models_append]
        constructor
        · rintro ⟨hU, hc⟩; exact ⟨hU, fun c hc' => hc c (hgrp c hc')⟩
        · rintro ⟨hU, hc⟩
          refine ⟨hU, fun c hc' => ?_⟩
          rcases hall c hc' with hx | hx
          · exact hc c hx
          · exact (H.reg.wf c (hcs c hc')).2.2.1 true (htrue c hx) a

end

end Claripy.Solver