import ClaripyProofs.Lemmas.Solver.ModelCache
import ClaripyProofs.Lemmas.Solver.GetSolverTracked
/-!
The invariant of one frontend of the caching class `Solver` (ModelCacheMixin + SatCacheMixin + ConstraintExpansionMixin +
SimplifyHelperMixin on top of what SolverCacheless has), relative to the constraints `U` its user has added:

  `SI = BInv ∧ MCInv ∧ SCInv`
  * `BInv`  — what the cacheless proof keeps (`CoreInv`: the Z3 object referred to, with what is pending, asserts the
              constraints; the constraints mean `U`; `DInv`: recorded hashes are implied by `U`), plus: the variables of the
              constraints are known (`variables`), and the state was reached by `WStep`s from a marked state (ghost, for the
              heap discipline of trees of solvers);
  * `MCInv` — the model cache (ModelCache.lean);
  * `SCInv` — the cached satisfiability is right.
and the specification shapes (`SatSpec`, `BatchSpec`, `OptSpec`, …) every layer of the class is shown to keep.
-/
namespace Claripy.Solver

/-! ### steps -/

theorem WStep.refl (s : St) : WStep s s := ⟨Nat.le_refl _, Or.inl rfl, fun _ _ _ => rfl, rfl, id⟩

theorem WStep.trans {s s' s'' : St} (h1 : WStep s s') (h2 : WStep s' s'') : WStep s s'' := by
  refine ⟨Nat.le_trans h1.grow h2.grow, ?_, ?_, h2.reuse.trans h1.reuse, fun hf => h2.fin (h1.fin hf)⟩
  · rcases h2.solver3 with e | e | ⟨r, hr, hge⟩
    · rw [e]; exact h1.solver3
    · exact Or.inr (Or.inl e)
    · exact Or.inr (Or.inr ⟨r, hr, Nat.le_trans h1.grow hge⟩)
  · intro i hi hp
    have hi' : i < s'.objs.length := Nat.lt_of_lt_of_le hi h1.grow
    have hp' : s'.fe.solver = some i → s'.fe.finalized = true := by
      intro hs'
      rcases h1.solver3 with e | e | ⟨r, hr, hge⟩
      · exact h1.fin (hp (e ▸ hs'))
      · rw [e] at hs'; cases hs'
      · rw [hr] at hs'
        have : r = i := by simpa using hs'
        omega
    rw [h2.foreign i hi' hp', h1.foreign i hi hp]

/-- a change of the record that leaves the Z3 objects, the solver reference and `finalized` alone -/
theorem WStep.of_fe {s s' : St} (hobjs : s'.objs = s.objs) (hre : s'.reuse = s.reuse) (hsol : s'.fe.solver = s.fe.solver)
    (hfin : s'.fe.finalized = s.fe.finalized) : WStep s s' :=
  ⟨by rw [hobjs]; exact Nat.le_refl _, Or.inl hsol, fun i _ _ => by simp only [objAt, hobjs], hre,
   fun hf => by rw [hfin]; exact hf⟩

/-! ### the invariant -/

/-- the part of the invariant the cacheless class has as well -/
structure BInv (R : Con → Prop) (G : St → Prop) (U : List Con) (s : St) : Prop where
  core : CoreInvG s
  equiv : ∀ a, holdsAll s.fe.constraints a = holdsAll U a
  dinv : DInv R U s
  /-- the frontend knows the variables of its constraints (`_model_hook` keeps those of a model) -/
  vars : ∀ c ∈ s.fe.constraints, ∀ v ∈ c.vars, v ∈ s.fe.variables
  ghost : ∃ s0, G s0 ∧ WStep s0 s
  /-- tracked frontends (`track=True`): the Z3 object referred to asserts conversions of registered constraints only -/
  areg : s.fe.track = true → ∀ r, s.fe.solver = some r → AssertedReg R s r

/-- SatCacheMixin: the cached satisfiability is right -/
def SCInv (U : List Con) (fe : Frontend) : Prop :=
  (fe.cachedSat = some true → Satisfiable U) ∧ (fe.cachedSat = some false → ¬ Satisfiable U)

/-- **invariant of a `Solver` frontend** whose user has added `U` -/
structure SI (R : Con → Prop) (RE : Exp → Prop) (E : Env) (G : St → Prop) (U : List Con) (s : St) : Prop where
  base : BInv R G U s
  mc : MCInv RE E U s.fe
  sc : SCInv U s.fe

variable {R : Con → Prop} {RE : Exp → Prop} {E : Env} {G : St → Prop}

theorem models_congr_of_holdsAll {U U' : List Con} (h : ∀ a, holdsAll U' a = holdsAll U a) (a : Asg) :
    Models U' a ↔ Models U a := by
  rw [models_iff_holdsAll, models_iff_holdsAll, h a]

/-- `BInv` looks at the fields of ConstrainedFrontend / FullFrontend / the deduplicator only -/
theorem BInv.transfer {U : List Con} {s s' : St} (h : BInv R G U s) (hobjs : s'.objs = s.objs) (hre : s'.reuse = s.reuse)
    (hcons : s'.fe.constraints = s.fe.constraints) (htoadd : s'.fe.toAdd = s.fe.toAdd) (hsol : s'.fe.solver = s.fe.solver)
    (htrack : s'.fe.track = s.fe.track) (hhash : s'.fe.hashes = s.fe.hashes) (hwo : s'.fe.woAnnot = s.fe.woAnnot)
    (hvar : s'.fe.variables = s.fe.variables) (hfin : s'.fe.finalized = s.fe.finalized) : BInv R G U s' := by
  refine ⟨⟨?_, ?_, ?_⟩, ?_, ⟨?_, ?_⟩, ?_, ?_, ?_⟩
  · rw [hcons, htoadd]; exact h.core.toAdd_sub
  · intro r hr
    rw [hsol] at hr
    obtain ⟨hlt, hf, hsem⟩ := h.core.obj r hr
    have ho : objAt s' r = objAt s r := by simp only [objAt, hobjs]
    exact ⟨by rw [hobjs]; exact hlt, by rw [ho]; exact hf, fun a => by rw [ho, htoadd, hcons]; exact hsem a⟩
  · rw [hre]; exact h.core.noReuse
  · rw [hcons]; exact h.equiv
  · rw [hcons]; exact h.dinv.consR
  · rw [hhash, hwo]; exact h.dinv.seen
  · rw [hcons, hvar]; exact h.vars
  · obtain ⟨s0, hg, hw⟩ := h.ghost
    exact ⟨s0, hg, hw.trans (WStep.of_fe hobjs hre hsol hfin)⟩
  · intro ht r hr
    rw [htrack] at ht
    rw [hsol] at hr
    have ho : objAt s' r = objAt s r := by simp only [objAt, hobjs]
    intro z hz
    rw [ho] at hz
    exact h.areg ht r hr z hz

/-- the invariant depends on the user's constraints only through their models -/
theorem BInv.congr {U U' : List Con} {s : St} (h : BInv R G U s) (heq : ∀ a, holdsAll U' a = holdsAll U a) : BInv R G U' s :=
  ⟨h.core, fun a => by rw [heq a]; exact h.equiv a,
   ⟨h.dinv.consR, fun c hc hi a ha => h.dinv.seen c hc hi a (by rw [← heq a]; exact ha)⟩, h.vars, h.ghost, h.areg⟩

theorem SCInv.congr {U U' : List Con} {fe : Frontend} (h : SCInv U fe) (heq : ∀ a, Models U' a ↔ Models U a) : SCInv U' fe := by
  have hs : Satisfiable U' ↔ Satisfiable U := ⟨fun ⟨a, ha⟩ => ⟨a, (heq a).mp ha⟩, fun ⟨a, ha⟩ => ⟨a, (heq a).mpr ha⟩⟩
  exact ⟨fun hc => hs.mpr (h.1 hc), fun hc hsat => h.2 hc (hs.mp hsat)⟩

theorem SI.congr {U U' : List Con} {s : St} (h : SI R RE E G U s) (heq : ∀ a, holdsAll U' a = holdsAll U a) :
    SI R RE E G U' s :=
  ⟨h.base.congr heq, h.mc.congr (models_congr_of_holdsAll heq), h.sc.congr (models_congr_of_holdsAll heq)⟩

/-- replacing the record by one that differs in the fields of the caching mixins (and `simplified`) only -/
theorem SI.set_fe {U : List Con} {s : St} (h : SI R RE E G U s) (fe' : Frontend)
    (hcons : fe'.constraints = s.fe.constraints) (htoadd : fe'.toAdd = s.fe.toAdd) (hsol : fe'.solver = s.fe.solver)
    (htrack : fe'.track = s.fe.track) (hhash : fe'.hashes = s.fe.hashes) (hwo : fe'.woAnnot = s.fe.woAnnot)
    (hvar : fe'.variables = s.fe.variables) (hfin : fe'.finalized = s.fe.finalized)
    (hmc : MCInv RE E U fe') (hsc : SCInv U fe') : SI R RE E G U { s with fe := fe' } :=
  ⟨h.base.transfer (s' := { s with fe := fe' }) rfl rfl hcons htoadd hsol htrack hhash hwo hvar hfin, hmc, hsc⟩

/-- the event counter and the query log are not looked at -/
theorem SI.set_tick {U : List Con} {s : St} (h : SI R RE E G U s) (t : Nat) : SI R RE E G U { s with tick := t } :=
  ⟨h.base.transfer (s' := { s with tick := t }) rfl rfl rfl rfl rfl rfl rfl rfl rfl rfl, h.mc, h.sc⟩

/-- the constraints held are registered and well formed -/
theorem BInv.cons_wf {U : List Con} {s : St} (hR : Reg R E) (h : BInv R G U s) : ∀ c ∈ s.fe.constraints, ConWf c :=
  fun c hc => hR.wf c (h.dinv.consR c hc)

theorem BInv.models_iff {U : List Con} {s : St} (h : BInv R G U s) (a : Asg) : Models s.fe.constraints a ↔ Models U a :=
  models_congr_of_holdsAll h.equiv a

/-! ### what a call keeps, besides the invariant -/

/-- the known variables only grow; cached models are only dropped when the constraints have become unsatisfiable -/
structure Keep (U : List Con) (s s' : St) : Prop where
  vars : ∀ v ∈ s.fe.variables, v ∈ s'.fe.variables
  models : Satisfiable U → ∀ m ∈ s.fe.models, m ∈ s'.fe.models

theorem Keep.refl (U : List Con) (s : St) : Keep U s s := ⟨fun _ h => h, fun _ _ h => h⟩

theorem Keep.trans {U : List Con} {s s' s'' : St} (h1 : Keep U s s') (h2 : Keep U s' s'') : Keep U s s'' :=
  ⟨fun v hv => h2.vars v (h1.vars v hv), fun hs m hm => h2.models hs m (h1.models hs m hm)⟩

theorem Keep.of_fe {U : List Con} {s s' : St} (hv : s'.fe.variables = s.fe.variables) (hm : s'.fe.models = s.fe.models) :
    Keep U s s' := ⟨fun v h => by rw [hv]; exact h, fun _ m h => by rw [hm]; exact h⟩

/-! ### `_add` -/

/-- what `_add(cs)` does to the fields of ConstrainedFrontend / FullFrontend, at any level of the stack: `new` are the
constraints that were really added -/
structure AddRel (s s' : St) (cs new : List Con) : Prop where
  cons : s'.fe.constraints = s.fe.constraints ++ new
  toAdd : s'.fe.toAdd = s.fe.toAdd ++ new
  solver : s'.fe.solver = s.fe.solver
  track : s'.fe.track = s.fe.track
  fin : s'.fe.finalized = s.fe.finalized
  objs : s'.objs = s.objs
  reuse : s'.reuse = s.reuse
  sub : ∀ c ∈ new, c ∈ cs
  /-- a constraint that was not added had been seen before, or has the id of one that was added -/
  cover : ∀ c ∈ cs, c ∈ new ∨ (c.id ∈ s.fe.hashes ∨ c.id ∈ s.fe.woAnnot) ∨ ∃ c' ∈ new, c'.id = c.id
  vars : ∀ v, v ∈ s'.fe.variables ↔ v ∈ s.fe.variables ∨ ∃ c ∈ new, v ∈ c.vars
  ids : ∀ i, (i ∈ s'.fe.hashes ∨ i ∈ s'.fe.woAnnot) → (i ∈ s.fe.hashes ∨ i ∈ s.fe.woAnnot) ∨ ∃ c ∈ new, c.id = i

/-- the fields of ModelCacheMixin -/
def mcFields (fe : Frontend) : List PModel × List Nat × List Nat × List Nat × List Nat × List Nat :=
  (fe.models, fe.evalExh, fe.maxExh, fe.minExh, fe.maxSExh, fe.minSExh)

/-- cached models are only dropped by `_add(cs)` when they violate `cs` -/
def KeepAdd (E : Env) (s s' : St) (cs : List Con) : Prop :=
  ∀ m ∈ s.fe.models, Models cs (m.complete E.dflt) → m ∈ s'.fe.models

/-- every constraint of `cs` holds wherever the old constraints and the added ones hold -/
theorem AddRel.implied {U : List Con} {s s' : St} {cs new : List Con} (hR : Reg R E) (hd : DInv R U s)
    (hcs : ∀ c ∈ cs, R c) (h : AddRel s s' cs new) (a : Asg) (hU : Models U a) (hn : Models new a) : Models cs a := by
  intro c hc
  rcases h.cover c hc with hin | hseen | ⟨c', hc', hid⟩
  · exact hn c hin
  · exact hd.seen c (hcs c hc) hseen a ((models_iff_holdsAll U a).mp hU)
  · rw [hR.faithful c c' (hcs c hc) (hcs c' (h.sub c' hc')) hid.symm a]
    exact hn c' hc'

theorem AddRel.models_iff {U : List Con} {s s' : St} {cs new : List Con} (hR : Reg R E) (hd : DInv R U s)
    (hcs : ∀ c ∈ cs, R c) (h : AddRel s s' cs new) (a : Asg) : Models (U ++ new) a ↔ Models (U ++ cs) a := by
  rw [models_append, models_append]
  constructor
  · rintro ⟨h1, h2⟩; exact ⟨h1, h.implied hR hd hcs a h1 h2⟩
  · rintro ⟨h1, h2⟩; exact ⟨h1, fun c hc => h2 c (h.sub c hc)⟩

/-- a literally false constraint among `cs`: the constraints are unsatisfiable afterwards -/
theorem AddRel.unsat_of_false {U : List Con} {s s' : St} {cs new : List Con} (hR : Reg R E) (hd : DInv R U s)
    (hcs : ∀ c ∈ cs, R c) (h : AddRel s s' cs new) (hf : cs.any (·.isFalse) = true) : ¬ Satisfiable (U ++ new) := by
  rintro ⟨a, ha⟩
  obtain ⟨c, hc, hcf⟩ := List.any_eq_true.mp hf
  have := ((h.models_iff hR hd hcs a).mp ha)
  have hca := (models_append.mp this).2 c hc
  rw [(hR.wf c (hcs c hc)).2.1 hcf a] at hca
  exact absurd hca (by simp)

/-- the cacheless part of the invariant after `_add` -/
theorem BInv.add {U : List Con} {s s' : St} {cs new : List Con} (hR : Reg R E) (h : BInv R G U s) (hcs : ∀ c ∈ cs, R c)
    (ha : AddRel s s' cs new) : BInv R G (U ++ new) s' := by
  refine ⟨⟨?_, ?_, ?_⟩, ?_, ⟨?_, ?_⟩, ?_, ?_, ?_⟩
  · intro a hca
    rw [ha.cons, holdsAll_append] at hca
    rw [ha.toAdd, holdsAll_append]
    simp only [Bool.and_eq_true] at hca ⊢
    exact ⟨h.core.toAdd_sub a hca.1, hca.2⟩
  · intro r hr
    rw [ha.solver] at hr
    obtain ⟨hlt, hfr, hsem⟩ := h.core.obj r hr
    have hobj : objAt s' r = objAt s r := objAt_of_objs_eq ha.objs r
    refine ⟨by rw [ha.objs]; exact hlt, by rw [hobj]; exact hfr, fun a => ?_⟩
    rw [hobj, ha.toAdd, ha.cons, holdsAll_append, holdsAll_append]
    simp only [Bool.and_eq_true]
    constructor
    · rintro ⟨h1, h2, h3⟩; exact ⟨(hsem a).mp ⟨h1, h2⟩, h3⟩
    · rintro ⟨h1, h2⟩
      have := (hsem a).mpr h1
      exact ⟨this.1, this.2, h2⟩
  · rw [ha.reuse]; exact h.core.noReuse
  · intro a; rw [ha.cons, holdsAll_append, holdsAll_append, h.equiv a]
  · intro c hc
    rw [ha.cons] at hc
    rcases List.mem_append.mp hc with hc | hc
    · exact h.dinv.consR c hc
    · exact hcs c (ha.sub c hc)
  · intro c hc hi a hUa
    rw [holdsAll_append] at hUa
    simp only [Bool.and_eq_true] at hUa
    rcases ha.ids c.id hi with hold | ⟨c', hc', hid⟩
    · exact h.dinv.seen c hc hold a hUa.1
    · rw [hR.faithful c c' hc (hcs c' (ha.sub c' hc')) hid.symm a]
      exact (models_iff_holdsAll new a).mpr hUa.2 c' hc'
  · intro c hc v hv
    rw [ha.cons] at hc
    rw [ha.vars]
    rcases List.mem_append.mp hc with hc | hc
    · exact Or.inl (h.vars c hc v hv)
    · exact Or.inr ⟨c, hc, hv⟩
  · obtain ⟨s0, hg, hw⟩ := h.ghost
    exact ⟨s0, hg, hw.trans (WStep.of_fe ha.objs ha.reuse ha.solver ha.fin)⟩
  · intro ht r hr
    rw [ha.track] at ht
    rw [ha.solver] at hr
    have ho : objAt s' r = objAt s r := objAt_of_objs_eq ha.objs r
    intro z hz
    rw [ho] at hz
    exact h.areg ht r hr z hz

/-! ### specification shapes -/

/-- the cache holds, for every tuple of the answer, a model that gives each expression whose variables the frontend
knows the value it has in the tuple -/
def CachedAll (RE : Exp → Prop) (E : Env) (fe : Frontend) (asts : List Exp) (ts : List (List Nat)) : Prop :=
  ∀ t ∈ ts, ∃ a : Asg, t = asts.map (·.val a) ∧
    ∀ e ∈ asts, RE e → (∀ v ∈ e.vars, v ∈ fe.variables) → ∃ m ∈ fe.models, e.val (m.complete E.dflt) = e.val a

section specs
variable (R : Con → Prop) (RE : Exp → Prop) (E : Env) (G : St → Prop) (U : List Con)

/-- `satisfiable(extra)` at any level of the stack -/
def SatSpec (extra : List Con) (m : M Bool) : Prop :=
  ∀ s, SI R RE E G U s → match m s with
    | (.ok b, s') => (b = true ↔ Satisfiable (U ++ extra)) ∧ SI R RE E G U s' ∧ Keep U s s'
    | (.error e, s') => IsGiveUp E e ∧ SI R RE E G U s' ∧ Keep U s s'

/-- `batch_eval(asts, n, extra)` -/
def BatchSpec (asts : List Exp) (n : Nat) (extra : List Con) (m : M (List (List Nat))) : Prop :=
  ∀ s, SI R RE E G U s → match m s with
    | (.ok ts, s') => TuplesOk (U ++ extra) asts n ts ∧ ts ≠ [] ∧ CachedAll RE E s'.fe asts ts ∧
                      SI R RE E G U s' ∧ Keep U s s'
    | (.error e, s') => ErrOk E (U ++ extra) e ∧ SI R RE E G U s' ∧ Keep U s s'

/-- `eval(e, n, extra)` of a symbolic expression -/
def EvalSpec (e : Exp) (n : Nat) (extra : List Con) (m : M (List Nat)) : Prop :=
  ∀ s, SI R RE E G U s → match m s with
    | (.ok vs, s') => EvalOk (U ++ extra) e n vs ∧ vs ≠ [] ∧
                      ((∀ x ∈ e.vars, x ∈ s'.fe.variables) → ∀ v ∈ vs, ∃ m ∈ s'.fe.models, e.val (m.complete E.dflt) = v) ∧
                      SI R RE E G U s' ∧ Keep U s s'
    | (.error err, s') => ErrOk E (U ++ extra) err ∧ SI R RE E G U s' ∧ Keep U s s'

/-- `max` / `min` of a symbolic expression -/
def OptSpec (isMax : Bool) (e : Exp) (extra : List Con) (signed : Bool) (m : M Int) : Prop :=
  ∀ s, SI R RE E G U s → match m s with
    | (.ok i, s') => IsOpt isMax signed (U ++ extra) e i ∧
                     ((∀ x ∈ e.vars, x ∈ s.fe.variables) → ∃ m ∈ s'.fe.models, e.val (m.complete E.dflt) = wrap e.bits i) ∧
                     SI R RE E G U s' ∧ Keep U s s'
    | (.error err, s') => ErrOk E (U ++ extra) err ∧ SI R RE E G U s' ∧ Keep U s s'

/-- `solution(e, v, extra)` of a symbolic expression -/
def SolSpec (e : Exp) (v : Nat) (extra : List Con) (m : M Bool) : Prop :=
  ∀ s, SI R RE E G U s → match m s with
    | (.ok b, s') => (b = true ↔ Feasible (U ++ extra) e v) ∧ SI R RE E G U s' ∧ Keep U s s'
    | (.error err, s') => ErrOk E (U ++ extra) err ∧ SI R RE E G U s' ∧ Keep U s s'

end specs

end Claripy.Solver
