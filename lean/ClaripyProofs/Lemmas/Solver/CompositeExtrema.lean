import ClaripyProofs.Lemmas.Solver.CompositeReplace
/-!
`min` / `max` of CompositeFrontend.  What was missing: the footprint of the child's `min` / `max` (`variables`, `constraints`
unchanged, cached models within the variables).  `FullFrontend.min/max` = `self.satisfiable`, `self.eval(e, 2)`, `_get_solver`,
`_extrema`: the footprint of the class one stage down (`cL4_satisfiable_foot`, `cL4_eval_foot`, with the C11 specifications
`ChOk` for the invariant in between), and a frame-only statement about `_extrema` (`z3Extrema_l1`: whatever Z3 answers, the
frontend record changes through the model hook only).
-/
namespace Claripy.Solver

variable {R : Con → Prop} {RE : Exp → Prop} {E : Env}

/-! ### `_extrema` changes the record through the hook only -/

theorem extremaLoop_l1 (hE : OracleExact E) {hook : PModel → M Unit} {P : Frontend → Prop} (hh : HookOk hook [] P) (r : Nat)
    (isMax : Bool) (e : Exp) (extra : List ZCon) (signed : Bool) :
    ∀ (fuel : Nat) (lo hi : Int) (s : St), L1Step r P s (extremaLoop E r isMax e extra signed hook fuel lo hi s).2 := by
  intro fuel
  induction fuel with
  | zero =>
    intro lo hi s
    simp only [extremaLoop, pure, M.pure]
    exact L1Step.refl r P s
  | succ fuel ih =>
    intro lo hi s
    simp only [extremaLoop]
    by_cases hgt : hi - lo > 1
    · simp only [hgt, ↓reduceIte, bind, M.bind]
      generalize (if isMax = true then rangeCon signed e ((lo + hi) / 2) hi else rangeCon signed e lo ((lo + hi) / 2)) = c
      have hck := z3Check_cases hE r (extra ++ [c]) s
      rcases h : z3Check E r (extra ++ [c]) s with ⟨res, s1⟩
      rw [h] at hck
      cases res with
      | error err => exact hck.2.toL1 P
      | ok v =>
        cases v with
        | none =>
          simp only
          split
          · exact (hck.2.toL1 P).trans (ih _ _ s1)
          · exact (hck.2.toL1 P).trans (ih _ _ s1)
        | some p =>
          obtain ⟨vals, keys⟩ := p
          obtain ⟨hp, _, hstep⟩ := hck
          obtain ⟨hok, hst, _⟩ := hh.step (PModel.ofKeys vals keys) s1 r (hp.mono (fun c hc => by cases hc))
            (PModel.sorted_ofKeys vals keys)
          rcases hk : hook (PModel.ofKeys vals keys) s1 with ⟨res2, s2⟩
          rw [hk] at hok hst
          simp only at hok
          subst hok
          simp only [M.bind, hk]
          split
          · exact ((hstep.toL1 P).trans hst).trans (ih _ _ s2)
          · exact ((hstep.toL1 P).trans hst).trans (ih _ _ s2)
    · simp only [hgt, ↓reduceIte, pure, M.pure]
      exact L1Step.refl r P s

theorem z3Extrema_l1 (hE : OracleExact E) {hook : PModel → M Unit} {P : Frontend → Prop} (hh : HookOk hook [] P) (r : Nat)
    (isMax : Bool) (e : Exp) (extra : List ZCon) (signed : Bool) (s : St) :
    L1Step r P s (z3Extrema E r isMax e extra signed hook s).2 := by
  simp only [z3Extrema, bind, M.bind]
  have hl := extremaLoop_l1 hE hh r isMax e extra signed (e.bits + 1)
    (if signed = true then -((2 ^ (e.bits - 1) : Nat) : Int) else 0)
    (if signed = true then ((2 ^ (e.bits - 1) : Nat) : Int) - 1 else ((2 ^ e.bits : Nat) : Int) - 1) s
  revert hl
  generalize extremaLoop E r isMax e extra signed hook (e.bits + 1)
    (if signed = true then -((2 ^ (e.bits - 1) : Nat) : Int) else 0)
    (if signed = true then ((2 ^ (e.bits - 1) : Nat) : Int) - 1 else ((2 ^ e.bits : Nat) : Int) - 1) s = res
  obtain ⟨rl, s1⟩ := res
  intro hl
  cases rl with
  | error err => exact hl
  | ok p =>
    obtain ⟨lo, hi⟩ := p
    simp only
    have hck := z3Check_cases hE r (extra ++ [eqCon e (if isMax = true then hi else lo)]) s1
    rcases h : z3Check E r (extra ++ [eqCon e (if isMax = true then hi else lo)]) s1 with ⟨res2, s2⟩
    rw [h] at hck
    cases res2 with
    | error err => exact hl.trans (hck.2.toL1 P)
    | ok v =>
      cases v with
      | none => exact hl.trans (hck.2.toL1 P)
      | some p =>
        obtain ⟨vals, keys⟩ := p
        obtain ⟨hp, _, hstep⟩ := hck
        obtain ⟨hok, hst, _⟩ := hh.step (PModel.ofKeys vals keys) s2 r (hp.mono (fun c hc => by cases hc))
          (PModel.sorted_ofKeys vals keys)
        rcases hk : hook (PModel.ofKeys vals keys) s2 with ⟨res3, s3⟩
        rw [hk] at hok hst
        simp only at hok
        subst hok
        simp only [M.bind, hk, pure, M.pure]
        exact (hl.trans (hstep.toL1 P)).trans hst

section
variable (H : SolverHyps R RE E)
include H

/-! ### footprints of the class SolverCompositeChild over ANY `self` whose hook is ModelCacheMixin's -/

theorem cL4_eval_foot {G : St → Prop} {U : List Con} {self : Ops} (hmh : self.modelHook = mcHook) (e : Exp) (n : Nat)
    (extra : List Con) : FootSpec R RE E G U ((cL4 E self).eval e n extra) := by
  have h0 : ∀ n' extra', FootSpec R RE E G U ((cL0 E self).batchEval [e] n' extra') :=
    fun n' extra' s h => full_batchEval_foot H hmh [e] n' extra' s h
  have h1 : FootSpec R RE E G U (modelCacheBatchEval E (cL0 E self) [e] n extra) := mc_batchEval_foot H [e] n extra h0
  have h2 : FootSpec R RE E G U ((cL1 E self).eval e n extra) := by
    intro s h
    show FootQ s ((do let rs ← modelCacheBatchEval E (cL0 E self) [e] n extra
                      pure (rs.map fun t => t.headD 0) : M (List Nat)) s).2
    simp only [bind, M.bind]
    have := h1 s h
    revert this
    generalize modelCacheBatchEval E (cL0 E self) [e] n extra s = res
    obtain ⟨r, s2⟩ := res
    cases r <;> exact id
  exact satCacheQuery_foot _ _ h2

theorem cL4_satisfiable_foot {G : St → Prop} {U : List Con} {self : Ops} (hmh : self.modelHook = mcHook) (extra : List Con) :
    FootSpec R RE E G U ((cL4 E self).satisfiable extra) := by
  intro s h
  show FootQ s ((do
      let fe ← M.getFe
      if fe.cachedSat == some false then pure false
      else if fe.cachedSat == some true && extra.isEmpty then pure true
      else do
        let r ← (do
          let fe ← M.getFe
          if !(getModels E fe extra).isEmpty then pure true
          else (do let r ← getSolver; z3Satisfiable E r (extra.map ZCon.ofCon) self.modelHook : M Bool) : M Bool)
        if extra.isEmpty then M.modifyFe fun fe => { fe with cachedSat := some r }
        pure r : M Bool) s).2
  rw [hmh]
  simp only [bind, M.bind, M.getFe_apply]
  refine footQ_ite _ (FootQ.refl _) (footQ_ite _ (FootQ.refl _) ?_)
  refine footQ_bind (footQ_ite _ (FootQ.refl _) (full_satisfiable_foot H extra s h)) fun r => ?_
  exact trQ_ite (extra.isEmpty = true) (trQ_bind (trQ_modifyFe _ fun _ => ⟨rfl, rfl, rfl⟩) fun _ => trQ_pure _) (trQ_pure _)

/-- FullFrontend.min / max -/
theorem full_extremum_foot {G : St → Prop} {U : List Con} {self : Ops} (hs : ChOk R RE E G self)
    (hfs : ∀ ex, FootSpec R RE E G U (self.satisfiable ex)) (e : Exp) (he : RE e) (hc : e.conc = none)
    (hfe : ∀ n ex, FootSpec R RE E G U (self.eval e n ex)) (isMax : Bool) (extra : List Con) (signed : Bool) :
    FootSpec R RE E G U (fullExtremum E self isMax e extra signed) := by
  intro s h
  unfold fullExtremum
  simp only [bind, M.bind]
  have h1 := hs.sat U extra s h
  have f1 := hfs extra s h
  revert h1 f1
  generalize self.satisfiable extra s = res1
  obtain ⟨r1, s1⟩ := res1
  cases r1 with
  | error err => exact fun _ f1 => f1
  | ok b =>
    rintro ⟨_, hsi1, _⟩ f1
    cases b with
    | false => exact f1
    | true =>
      simp only [Bool.not_true, Bool.false_eq_true, ↓reduceIte, M.bind]
      have h2 := hs.eval U e 2 extra he hc (by omega) s1 hsi1
      have f2 := hfe 2 extra s1 hsi1
      revert h2 f2
      generalize self.eval e 2 extra s1 = res2
      obtain ⟨r2, s2⟩ := res2
      cases r2 with
      | error err => exact fun _ f2 => f1.trans f2
      | ok two =>
        rintro ⟨_, _, _, hsi2, _⟩ f2
        have f12 : FootQ s s2 := f1.trans f2
        cases two with
        | nil => exact f12
        | cons v0 rest =>
          cases rest with
          | nil => exact f12
          | cons v1 rest' =>
            simp only [M.bind]
            have hg := getSolver_foot H s2 hsi2
            revert hg
            generalize getSolver s2 = res3
            obtain ⟨r3, s3⟩ := res3
            cases r3 with
            | error err => exact fun hg => hg.elim
            | ok r =>
              rintro ⟨_, hf3, hp3⟩
              dsimp only
              rw [hs.hook]
              have hl := z3Extrema_l1 H.oracle (hookOk_foot s3.fe) r isMax e
                ((extra ++ [cmpCon signed isMax e v0, cmpCon signed isMax e v1]).map ZCon.ofCon) signed s3
              exact (f12.trans hf3).trans (hl.fe hp3).footQ

omit H in
/-- ModelCacheMixin.min / max -/
theorem mc_extremum_foot {G : St → Prop} {U : List Con} {sup : Ops} (isMax : Bool) (e : Exp) (extra : List Con) (signed : Bool)
    (hsup : FootSpec R RE E G U (if isMax then sup.max e extra signed else sup.min e extra signed)) :
    FootSpec R RE E G U (modelCacheExtremum E sup isMax e extra signed) := by
  intro s h
  rw [modelCacheExtremum_eq]
  split
  · exact FootQ.refl s
  · unfold mcExtremumSlow
    refine footQ_bind (hsup s h) fun m => ?_
    show TrQ (if (extra.isEmpty && subsetB e.vars s.fe.variables) = true then
        (do M.modifyFe (flagOpt isMax signed e.id); pure m : M Int) else pure m)
    refine trQ_ite _ (trQ_bind (trQ_modifyFe _ fun fe => ?_) fun _ => trQ_pure _) (trQ_pure _)
    obtain ⟨hf, _⟩ := flagOpt_spec isMax signed e.id fe
    exact ⟨by rw [hf], by rw [hf], by rw [hf]⟩

/-- **`min` / `max` of the class over `self` have the footprint**, when `self` answers `satisfiable` / `eval` as C11 demands and
those have the footprint -/
theorem cL4_extremum_foot {G : St → Prop} {U : List Con} {self : Ops} (hs : ChOk R RE E G self)
    (hfs : ∀ ex, FootSpec R RE E G U (self.satisfiable ex)) (e : Exp) (he : RE e) (hc : e.conc = none)
    (hfe : ∀ n ex, FootSpec R RE E G U (self.eval e n ex)) (isMax : Bool) (extra : List Con) (signed : Bool) :
    FootSpec R RE E G U (if isMax then (cL4 E self).max e extra signed else (cL4 E self).min e extra signed) := by
  have h0 : FootSpec R RE E G U (if isMax then (cL0 E self).max e extra signed else (cL0 E self).min e extra signed) := by
    have : (if isMax then (cL0 E self).max e extra signed else (cL0 E self).min e extra signed) =
        fullExtremum E self isMax e extra signed := by cases isMax <;> rfl
    rw [this]
    exact full_extremum_foot H hs hfs e he hc hfe isMax extra signed
  have h1 : FootSpec R RE E G U (modelCacheExtremum E (cL0 E self) isMax e extra signed) :=
    mc_extremum_foot isMax e extra signed h0
  have h2 := satCacheQuery_foot (R := R) (RE := RE) (E := E) (G := G) (U := U) _ extra.isEmpty h1
  cases isMax
  · exact h2
  · exact h2

/-- **`min` / `max` of SolverCompositeChild have the footprint** -/
theorem child_extremum_foot {G : St → Prop} {U : List Con} (isMax : Bool) (e : Exp) (he : RE e) (hc : e.conc = none)
    (extra : List Con) (signed : Bool) :
    FootSpec R RE E G U (if isMax then (childOps E).max e extra signed else (childOps E).min e extra signed) := by
  have hs : ChOk R RE E G (chStage E 3) := cL4_chOk H (chStage_hook E 2)
  exact cL4_extremum_foot H (self := chStage E 3) hs
    (fun ex => cL4_satisfiable_foot H (self := chStage E 2) (chStage_hook E 2) ex) e he hc
    (fun n ex => cL4_eval_foot H (self := chStage E 2) (chStage_hook E 2) e n ex) isMax extra signed

/-! ### `min` / `max` of the composite -/

omit H in
/-- an optimum for the merged child is an optimum for everything -/
theorem Equi.judge_opt {names : List Var} {U Um : List Con} (h : Equi names U Um) {e : Exp} (he : ExpDep e)
    (hv : ∀ v ∈ e.vars, v ∈ names) (hc : e.conc = none) (isMax signed : Bool) (o : Out)
    (hj : Judge Um (if isMax then .max e [] signed else .min e [] signed) o) :
    Judge U (if isMax then .max e [] signed else .min e [] signed) o := by
  have hF := h.feasible he hv
  cases isMax <;> simp only [Bool.false_eq_true, ↓reduceIte] at hj ⊢
  all_goals
    cases o with
    | int i =>
      simp only [Judge, hc, IsOpt] at hj ⊢
      rw [hF]; exact hj
    | err e' =>
      cases e' with
      | unsat =>
        simp only [Judge] at hj ⊢
        exact fun hs => hj (h.sat.mp hs)
      | _ => exact hj.elim
    | _ => exact hj.elim

/-- **`max(e)` / `min(e)` of the composite** (registered symbolic expression, no extra constraints): the answer `Judge` demands
for everything the user added, and the invariant again -/
theorem compExtremum_step {U : List Con} {Us : List (List Con)} {s : CSt} (h : CInv R RE E U Us s) (isMax : Bool) (e : Exp)
    (he : RE e) (hc : e.conc = none) (signed : Bool) :
    JudgeOrGiveUp E U (if isMax then .max e [] signed else .min e [] signed)
      (compStep E s (if isMax then .max e [] signed else .min e [] signed)).1 ∧
    ∃ Us', CInv R RE E U Us' (compStep E s (if isMax then .max e [] signed else .min e [] signed)).2 := by
  have hvars : ∀ v ∈ e.vars, v ∈ namesFor [e.vars] := fun v hv => (mem_namesFor _ v).mpr ⟨e.vars, by simp, hv⟩
  have hK : UniqOwner s.c (namesFor [e.vars]) ∨ ReabsorbKeeps R RE E := Or.inr (reabsorbKeeps H)
  cases isMax with
  | true =>
    simp only [↓reduceIte]
    have hrun : compStep E s (.max e [] signed) =
        outOfC .int (compQuery E (namesFor [e.vars]) [] ((childOps E).max e [] signed) s) := by
      simp only [compStep, compMax, List.map_nil]
    have hstep : ∀ w i, step E .SolverCompositeChild w i (.max e [] signed) =
        outOf .int (runOn w i ((childOps E).max e [] signed)) := fun _ _ => rfl
    have hsc : InScopeC R RE (.max e [] signed) := ⟨he, hc⟩
    have hft : ∀ (U' : List Con) s', SI R RE E (fun _ => True) U' s' → FootQ s' (((childOps E).max e [] signed) s').2 :=
      fun U' s' hs' => child_extremum_foot H true e he hc [] signed s' hs'
    have key := compQuery_judge H h (.max e [] signed) (namesFor [e.vars]) ((childOps E).max e [] signed) Out.int
      hstep hsc (by intro hx; cases hx) (fun _ => rfl) (fun _ _ => rfl) hft
    have keep := compQuery_keeps H h (.max e [] signed) (namesFor [e.vars]) ((childOps E).max e [] signed) Out.int hK
      hstep hsc (by intro hx; cases hx) (fun _ _ => rfl) hft
    rw [hrun, outOfC_snd]
    refine ⟨key ?_ ?_, keep⟩
    · intro hns; simp only [Judge, List.append_nil]; exact hns
    · intro Um o hequi hj
      exact Equi.judge_opt hequi (H.expReg.dep e he) hvars hc true signed o hj
  | false =>
    simp only [Bool.false_eq_true, ↓reduceIte]
    have hrun : compStep E s (.min e [] signed) =
        outOfC .int (compQuery E (namesFor [e.vars]) [] ((childOps E).min e [] signed) s) := by
      simp only [compStep, compMin, List.map_nil]
    have hstep : ∀ w i, step E .SolverCompositeChild w i (.min e [] signed) =
        outOf .int (runOn w i ((childOps E).min e [] signed)) := fun _ _ => rfl
    have hsc : InScopeC R RE (.min e [] signed) := ⟨he, hc⟩
    have hft : ∀ (U' : List Con) s', SI R RE E (fun _ => True) U' s' → FootQ s' (((childOps E).min e [] signed) s').2 :=
      fun U' s' hs' => child_extremum_foot H false e he hc [] signed s' hs'
    have key := compQuery_judge H h (.min e [] signed) (namesFor [e.vars]) ((childOps E).min e [] signed) Out.int
      hstep hsc (by intro hx; cases hx) (fun _ => rfl) (fun _ _ => rfl) hft
    have keep := compQuery_keeps H h (.min e [] signed) (namesFor [e.vars]) ((childOps E).min e [] signed) Out.int hK
      hstep hsc (by intro hx; cases hx) (fun _ _ => rfl) hft
    rw [hrun, outOfC_snd]
    refine ⟨key ?_ ?_, keep⟩
    · intro hns; simp only [Judge, List.append_nil]; exact hns
    · intro Um o hequi hj
      exact Equi.judge_opt hequi (H.expReg.dep e he) hvars hc false signed o hj

end

/-! ### histories with `min` / `max` -/

/-- the calls of a history: those of `InScopeCH` (any name sets) and `min` / `max` of a registered symbolic expression without
extra constraints -/
def InScopeCX (R : Con → Prop) (RE : Exp → Prop) : Op → Prop
  | .min e extra _ => RE e ∧ e.conc = none ∧ extra = []
  | .max e extra _ => RE e ∧ e.conc = none ∧ extra = []
  | op => InScopeCH R RE (fun _ => True) op

section
variable (H : SolverHyps R RE E)
include H

/-- **one call**: right answer and the invariant again -/
theorem comp_stepX {U : List Con} {Us : List (List Con)} {s : CSt} (h : CInv R RE E U Us s) (op : Op) (hop : InScopeCX R RE op) :
    JudgeOrGiveUp E (usersAfter U op) op (compStep E s op).1 ∧ ∃ Us', CInv R RE E (usersAfter U op) Us' (compStep E s op).2 := by
  have hK : ∀ names, (fun _ : List Var => True) names → UniqOwner s.c names ∨ ReabsorbKeeps R RE E :=
    fun _ _ => Or.inr (reabsorbKeeps H)
  cases op with
  | min e extra signed =>
    obtain ⟨he, hc, rfl⟩ := hop
    exact compExtremum_step H h false e he hc signed
  | max e extra signed =>
    obtain ⟨he, hc, rfl⟩ := hop
    exact compExtremum_step H h true e he hc signed
  | add cs => exact comp_step2 H hK h (.add cs) hop
  | satisfiable extra => exact comp_step2 H hK h (.satisfiable extra) hop
  | eval e n extra => exact comp_step2 H hK h (.eval e n extra) hop
  | batchEval es n extra => exact comp_step2 H hK h (.batchEval es n extra) hop
  | solution e x extra => exact comp_step2 H hK h (.solution e x extra) hop
  | isTrue c extra => exact comp_step2 H hK h (.isTrue c extra) hop
  | isFalse c extra => exact comp_step2 H hK h (.isFalse c extra) hop
  | _ => exact hop.elim

/-- **any history of calls in scope** -/
theorem comp_histX : ∀ (hist : List Op) (s : CSt) (U : List Con) (Us : List (List Con)), CInv R RE E U Us s →
    (∀ op ∈ hist, InScopeCX R RE op) → ∀ x ∈ runComp E s U hist, JudgeOrGiveUp E x.1 x.2.1 x.2.2
  | [], _, _, _, _, _ => fun x hx => by cases hx
  | op :: rest, s, U, Us, h, hok => by
    intro x hx
    obtain ⟨hj, Us', hinv⟩ := comp_stepX H h op (hok op (by simp))
    rw [runComp_cons] at hx
    rcases List.mem_cons.mp hx with rfl | hx
    · exact hj
    · exact comp_histX rest _ _ Us' hinv (fun op' hop' => hok op' (by simp [hop'])) x hx

end

end Claripy.Solver
