import ClaripyProofs.Lemmas.Solver.CompositeExtraQueries
/-!
`branch()` of a CompositeFrontend and trees of branched composites (children shared copy-on-write).

* `compBranch_spec`: after `branch` the parent and the copy both satisfy `CInv` over the SAME constraint list, in the same world
  (every child of `_solver_list` got finalized, nothing else happened), and NEITHER owns a child (`_owned_solvers` is replaced by an
  empty set on both sides).
* `CInv.transfer` / `CInv.frame`: the invariant of a composite reads the records of the children ITS `_solvers` points to only
  (their variables and the meaning of their constraint lists); everything else is a fact about the world.  So a call on ANOTHER
  composite of the tree keeps it as soon as those records keep `constraints` and `variables`.
* `claim_spec`: `_claim(j)`: an owned child is returned as it is; a child that is not owned is branched - the old record is only
  finalized, the new one is owned.
* `TSt` / `treeStep` / `runTree`: a tree of composites over one world of children; `TreeInv`: every composite satisfies `CInv` for
  ITS OWN user's constraints, and a child owned by one composite is in no other composite's `_solvers` (`own`).
* `StepFrame` / `CompFrames`: the footprint of one call on one composite (records of children it does not own keep constraints and
  variables, new owned children / new entries of `_solvers` are children it owned / pointed to, or new records).  NOT proved here (it
  needs a walk through `compStep` with the children's footprints at every intermediate state); `tree_step` / `tree_hist` take it as
  a hypothesis.
-/
namespace Claripy.Solver

variable {R : Con → Prop} {RE : Exp → Prop} {E : Env}

/-! ### the invariant of a composite reads the children of its `_solvers` only -/

theorem solverList_congr {c c' : Comp} (h : c'.solvers = c.solvers) : c'.solverList = c.solverList := by
  unfold Comp.solverList; rw [h]

/-- the composite's record replaced by one with the same `_solvers`, `_unsat`, `_unchecked_solvers`; the world changed so that the
children `_solvers` points to keep their variables and their meaning -/
theorem CInv.transfer {U : List Con} {Us Us2 : List (List Con)} {s : CSt} (h : CInv R RE E U Us s) (c2 : Comp) (w2 : World)
    (hs : c2.solvers = s.c.solvers) (hu : c2.unsat = s.c.unsat) (hun : c2.unchecked = s.c.unchecked)
    (hk : TInvS R RE E Us2 w2) (hre : w2.reuse = false)
    (hkeys : ∀ j, j < w2.fes.length → KeysInv (w2.fes.getD j {}))
    (hex : ∀ j, j < w2.fes.length → ExactVars (w2.fes.getD j {}))
    (hlen : s.w.fes.length ≤ w2.fes.length)
    (hv : ∀ j ∈ s.c.solverList, (w2.fes.getD j {}).variables = (s.child j).variables)
    (hU : ∀ j ∈ s.c.solverList, ∀ a, Models (Us2.getD j []) a ↔ Models (Us.getD j []) a) :
    CInv R RE E U Us2 { c := c2, w := w2 } := by
  have hsl : c2.solverList = s.c.solverList := solverList_congr hs
  have hin : ∀ v j, alGet? s.c.solvers v = some j → j ∈ s.c.solverList :=
    fun v j hvj => (mem_solverList' _ h.nodup j).mpr ⟨v, hvj⟩
  refine ⟨hk, hre, hkeys, hex, ?_, ?_, ?_, ?_, ?_, ?_⟩
  · show (keys c2.solvers).Nodup
    rw [hs]; exact h.nodup
  · intro v j hvj
    have hvj' : alGet? s.c.solvers v = some j := by rw [← hs]; exact hvj
    obtain ⟨h1, h2⟩ := h.map v j hvj'
    refine ⟨Nat.lt_of_lt_of_le h1 hlen, ?_⟩
    show v ∈ (w2.fes.getD j {}).variables
    rw [hv j (hin v j hvj')]; exact h2
  · intro v j hvj u hu'
    have hvj' : alGet? s.c.solvers v = some j := by rw [← hs]; exact hvj
    have hu2 : u ∈ (w2.fes.getD j {}).variables := hu'
    rw [hv j (hin v j hvj')] at hu2
    show alGet? c2.solvers u = some j
    rw [hs]
    exact h.cover v j hvj' u hu2
  · intro hun' a
    have hun2 : s.c.unsat = false := by rw [← hu]; exact hun'
    show Models U a ↔ ∀ j ∈ c2.solverList, Models (Us2.getD j []) a
    rw [h.sem hun2 a, hsl]
    constructor
    · intro hall j hj; exact (hU j hj a).mpr (hall j hj)
    · intro hall j hj; exact (hU j hj a).mp (hall j hj)
  · intro hun'
    have hun2 : s.c.unsat = true := by rw [← hu]; exact hun'
    exact h.unsatOk hun2
  · intro j hj hnu
    have hj' : j ∈ s.c.solverList := by rw [← hsl]; exact hj
    have hnu' : j ∉ s.c.unchecked := by rw [← hun]; exact hnu
    obtain ⟨a, ha⟩ := h.checked j hj' hnu'
    exact ⟨a, (hU j hj' a).mpr ha⟩

/-- **the frame rule, semantic half**: composite `cj` satisfied `CInv` in world `w`; somebody else (whose own invariant holds
afterwards) changed the world to `w'`, and the records `cj._solvers` points to keep `constraints` and `variables`: `cj` satisfies
`CInv` for the SAME user constraints in `w'` -/
theorem CInv.frame {Uj Ui : List Con} {Us Us' : List (List Con)} {cj ci : Comp} {w w' : World}
    (hj : CInv R RE E Uj Us { c := cj, w := w }) (hi : CInv R RE E Ui Us' { c := ci, w := w' })
    (hlen : w.fes.length ≤ w'.fes.length)
    (hfr : ∀ k ∈ cj.solverList, (w'.fes.getD k {}).constraints = (w.fes.getD k {}).constraints ∧
      (w'.fes.getD k {}).variables = (w.fes.getD k {}).variables) :
    CInv R RE E Uj Us' { c := cj, w := w' } := by
  have hlt : ∀ k ∈ cj.solverList, k < w.fes.length := by
    intro k hk
    obtain ⟨v, hvk⟩ := (mem_solverList' _ hj.nodup k).mp hk
    exact (hj.map v k hvk).1
  refine hj.transfer cj w' rfl rfl rfl hi.kids hi.reuse hi.keysOk hi.exact hlen (fun k hk => (hfr k hk).2) ?_
  intro k hk a
  have h1 := hj.child_models (hlt k hk) a
  have h2 := hi.child_models (j := k) (Nat.lt_of_lt_of_le (hlt k hk) hlen) a
  have h3 : (CSt.child { c := ci, w := w' } k).constraints = (CSt.child { c := cj, w := w } k).constraints := (hfr k hk).1
  rw [h3] at h2
  exact h2.symm.trans h1

/-! ### `finalize()` of a child -/

/-- `child.finalize()` in the world of children -/
def finWorld (w : World) (j : Nat) : World := { w with fes := w.fes.set j { w.fes.getD j {} with finalized := true } }

theorem finWorld_eq (w : World) (j : Nat) :
    finWorld w j = wOfI w j { stOfI w j with fe := { (stOfI w j).fe with finalized := true } } := rfl

theorem tinvS_finalize {Us : List (List Con)} {w : World} (hw : TInvS R RE E Us w) (j : Nat) : TInvS R RE E Us (finWorld w j) := by
  by_cases hj : j < w.fes.length
  · have hf1 : SI R RE E (fun _ => True) (Us.getD j []) { stOfI w j with fe := { (stOfI w j).fe with finalized := true } } :=
      (hw.each j hj).heap rfl rfl rfl rfl rfl rfl rfl rfl rfl rfl (fun r hr => ⟨hw.solver_lt hj hr, rfl⟩)
    have hws : WStep (stOfI w j) { stOfI w j with fe := { (stOfI w j).fe with finalized := true } } :=
      ⟨Nat.le_refl _, Or.inl rfl, fun _ _ _ => rfl, rfl, fun _ => rfl⟩
    have hw1 := tinvS_step hw hj hws hf1
    rw [set_getD_self Us j [] (by rw [hw.len]; exact hj)] at hw1
    rw [finWorld_eq]; exact hw1
  · have : finWorld w j = w := by
      unfold finWorld
      rw [List.set_eq_of_length_le (Nat.le_of_not_lt hj)]
    rw [this]; exact hw

/-- a record and the same record finalized -/
def FinRel (fe fe' : Frontend) : Prop := { fe' with finalized := true } = { fe with finalized := true }

theorem FinRel.cons {fe fe' : Frontend} (h : FinRel fe fe') : fe'.constraints = fe.constraints := congrArg (·.constraints) h
theorem FinRel.vars {fe fe' : Frontend} (h : FinRel fe fe') : fe'.variables = fe.variables := congrArg (·.variables) h
theorem FinRel.models {fe fe' : Frontend} (h : FinRel fe fe') : fe'.models = fe.models := congrArg (·.models) h

theorem finWorld_rel (w : World) (j k : Nat) : FinRel (w.fes.getD k {}) ((finWorld w j).fes.getD k {}) := by
  unfold finWorld FinRel
  by_cases hj : j < w.fes.length
  · by_cases hk : j = k
    · subst hk
      simp only
      rw [getD_set_self _ _ _ _ hj]
    · simp only
      rw [getD_set_ne _ _ _ _ _ hk]
  · simp only
    rw [List.set_eq_of_length_le (Nat.le_of_not_lt hj)]

/-- the world after `for s in self._solver_list: s.finalize()` -/
def finAll (l : List Nat) (w : World) : World := l.foldl finWorld w

theorem finAll_eq (l : List Nat) : ∀ w : World,
    ({ w with fes := l.foldl (fun fes j => fes.set j { fes.getD j {} with finalized := true }) w.fes } : World) = finAll l w := by
  induction l with
  | nil => intro w; rfl
  | cons j rest ih =>
    intro w
    have := ih (finWorld w j)
    simp only [finAll, List.foldl_cons] at this ⊢
    rw [← this]
    rfl

theorem finAll_spec {Us : List (List Con)} (l : List Nat) : ∀ w : World, TInvS R RE E Us w →
    TInvS R RE E Us (finAll l w) ∧ (finAll l w).fes.length = w.fes.length ∧ (finAll l w).reuse = w.reuse ∧
      ∀ k, FinRel (w.fes.getD k {}) ((finAll l w).fes.getD k {}) := by
  induction l with
  | nil => intro w hw; exact ⟨hw, rfl, rfl, fun _ => rfl⟩
  | cons j rest ih =>
    intro w hw
    obtain ⟨h1, h2, h3, h4⟩ := ih (finWorld w j) (tinvS_finalize hw j)
    refine ⟨h1, ?_, ?_, ?_⟩
    · show (finAll rest (finWorld w j)).fes.length = _
      rw [h2]; simp [finWorld]
    · show (finAll rest (finWorld w j)).reuse = _
      rw [h3]; rfl
    · intro k
      have a := finWorld_rel w j k
      have b := h4 k
      show FinRel _ ((finAll rest (finWorld w j)).fes.getD k {})
      unfold FinRel at a b ⊢
      rw [b, a]

/-! ### `branch()` of the composite -/

theorem compBranch_eq (s : CSt) :
    compBranch s =
      ({ constraints := s.c.constraints, woAnnot := s.c.woAnnot, finalized := false, solvers := s.c.solvers,
         unchecked := s.c.unchecked, owned := [], unsat := s.c.unsat, track := s.c.track },
       { c := { s.c with owned := [] }, w := finAll s.c.solverList s.w }) := by
  unfold compBranch
  simp only
  rw [finAll_eq]

/-- a composite keeps `CInv` when the children of the world get finalized -/
theorem CInv.finalized {U : List Con} {Us : List (List Con)} {s : CSt} (h : CInv R RE E U Us s) (c2 : Comp) (l : List Nat)
    (hs : c2.solvers = s.c.solvers) (hu : c2.unsat = s.c.unsat) (hun : c2.unchecked = s.c.unchecked) :
    CInv R RE E U Us { c := c2, w := finAll l s.w } := by
  obtain ⟨h1, h2, h3, h4⟩ := finAll_spec (R := R) (RE := RE) (E := E) l s.w h.kids
  refine h.transfer c2 _ hs hu hun h1 (by rw [h3]; exact h.reuse) ?_ ?_ (Nat.le_of_eq h2.symm)
    (fun j _ => (h4 j).vars) (fun _ _ _ => Iff.rfl)
  · intro j hj
    rw [h2] at hj
    have := h.keysOk j hj
    unfold KeysInv at this ⊢
    rw [(h4 j).models, (h4 j).vars]; exact this
  · intro j hj
    rw [h2] at hj
    have := h.exact j hj
    unfold ExactVars at this ⊢
    rw [(h4 j).cons, (h4 j).vars]; exact this

/-- **`branch()`**: the parent and the copy satisfy the invariant for the SAME constraint list in the same world; neither owns a
child; both have the `_solvers` / `_unchecked_solvers` / `_unsat` / `constraints` of the parent before; a child record keeps its
constraints and variables (it is finalized if `_solvers` pointed to it) -/
theorem compBranch_spec {U : List Con} {Us : List (List Con)} {s : CSt} (h : CInv R RE E U Us s) :
    CInv R RE E U Us (compBranch s).2 ∧ CInv R RE E U Us { c := (compBranch s).1, w := (compBranch s).2.w } ∧
    (compBranch s).1.owned = [] ∧ (compBranch s).2.c.owned = [] ∧
    (compBranch s).1.solvers = s.c.solvers ∧ (compBranch s).2.c.solvers = s.c.solvers ∧
    (compBranch s).1.constraints = s.c.constraints ∧ (compBranch s).2.c.constraints = s.c.constraints ∧
    (compBranch s).2.w.fes.length = s.w.fes.length ∧
    ∀ k, FinRel (s.child k) ((compBranch s).2.child k) := by
  rw [compBranch_eq]
  obtain ⟨_, h2, _, h4⟩ := finAll_spec (R := R) (RE := RE) (E := E) s.c.solverList s.w h.kids
  exact ⟨h.finalized _ _ rfl rfl rfl, h.finalized _ _ rfl rfl rfl, rfl, rfl, rfl, rfl, rfl, rfl, h2, h4⟩

/-! ### `_claim` -/

/-- **`_claim(j)`**: an owned child is handed back as it is (nothing happens); a child that is not owned is branched: the new
record is the next one, it is owned, it has the constraints and variables of `j`; record `j` is only finalized, no other record
changes -/
theorem claim_spec {Us : List (List Con)} (s : CSt) (hw : TInvS R RE E Us s.w) (j : Nat) (hj : j < s.w.fes.length) :
    (j ∈ s.c.owned ∧ claim E j s = (.ok j, s)) ∨
    (j ∉ s.c.owned ∧ ∃ s', claim E j s = (.ok s.w.fes.length, s') ∧
      s'.c = { s.c with owned := listInsert s.c.owned s.w.fes.length } ∧
      s'.w.fes.length = s.w.fes.length + 1 ∧
      (s'.child s.w.fes.length).constraints = (s.child j).constraints ∧
      (s'.child s.w.fes.length).variables = (s.child j).variables ∧
      (∀ k, k < s.w.fes.length → FinRel (s.child k) (s'.child k)) ∧
      TInvS R RE E (Us ++ [Us.getD j []]) s'.w) := by
  by_cases ho : j ∈ s.c.owned
  · left
    refine ⟨ho, ?_⟩
    unfold claim
    simp only [bind, CM.bind, CM.get]
    rw [if_pos (by simpa using ho)]
    rfl
  · right
    refine ⟨ho, ?_⟩
    obtain ⟨w', hst, hinv, hlen, hoth, hself, hcons, hvars, _⟩ := child_branch_spec (E := E) s.w Us hw j hj
    refine ⟨{ c := { s.c with owned := listInsert s.c.owned s.w.fes.length }, w := w' }, ?_, rfl, hlen, hcons, hvars, ?_, hinv⟩
    · unfold claim
      simp only [bind, CM.bind, CM.get]
      rw [if_neg (by simpa using ho)]
      simp only [CM.bind, childBranch, hst, CM.modifyC]
      rfl
    · intro k hk
      show FinRel (s.w.fes.getD k {}) (w'.fes.getD k {})
      by_cases hkj : k = j
      · subst hkj; unfold FinRel; rw [hself]
      · unfold FinRel; rw [hoth k hk hkj]

/-! ### a tree of composites over one world of children -/

/-- the composites of a tree (in the order they were made by `branch`) and the world of children they share -/
structure TSt where
  cs : List Comp := [{}]
  w : World := { fes := [] }
  deriving Inhabited

/-- the view composite `i` has -/
def TSt.at (t : TSt) (i : Nat) : CSt := { c := t.cs.getD i {}, w := t.w }

/-- one public call on composite `i` of the tree; `branch` appends the copy -/
def treeStep (E : Env) (t : TSt) (i : Nat) : Op → Out × TSt
  | .branch =>
    let r := compBranch (t.at i)
    (.newSolver t.cs.length, { cs := t.cs.set i r.2.c ++ [r.1], w := r.2.w })
  | op =>
    let r := compStep E (t.at i) op
    (r.1, { cs := t.cs.set i r.2.c, w := r.2.w })

/-- a history over the tree; every answer is paired with the constraints the user of THAT composite had added when it was given -/
def runTree (E : Env) : TSt → List (List Con) → List (Nat × Op) → List (List Con × Op × Out)
  | _, _, [] => []
  | t, UU, (i, op) :: rest =>
    let r := treeStep E t i op
    ((usersAll UU i op).getD i [], op, r.1) :: runTree E r.2 (usersAll UU i op) rest

/-- the history addresses composites that exist, with calls in scope or `branch` -/
def HistOkT (R : Con → Prop) (RE : Exp → Prop) : Nat → List (Nat × Op) → Prop
  | _, [] => True
  | n, (i, op) :: rest =>
    i < n ∧ (op = .branch ∨ InScopeCE R RE op) ∧ HistOkT R RE (match op with | .branch => n + 1 | _ => n) rest

/-- **the invariant of a tree**: every composite satisfies `CInv` for its own user's constraints (over one assignment `Us` of
constraint lists to the child records); a child owned by a composite is a record of the world and is in NO OTHER composite's
`_solvers` -/
structure TreeInv (R : Con → Prop) (RE : Exp → Prop) (E : Env) (UU : List (List Con)) (Us : List (List Con)) (t : TSt) : Prop where
  len : UU.length = t.cs.length
  each : ∀ i, i < t.cs.length → CInv R RE E (UU.getD i []) Us (t.at i)
  ownLt : ∀ i, i < t.cs.length → ∀ k ∈ (t.cs.getD i {}).owned, k < t.w.fes.length
  own : ∀ i j, i < t.cs.length → j < t.cs.length → i ≠ j → ∀ k ∈ (t.cs.getD i {}).owned, k ∉ (t.cs.getD j {}).solverList

/-- **the footprint of one call** on a composite: the world grows; the record of a child the composite does NOT own keeps
constraints and variables; what it owns afterwards it owned before or is a new record; what `_solvers` points to afterwards it
pointed to before or is a new record -/
def StepFrame (s s' : CSt) : Prop :=
  s.w.fes.length ≤ s'.w.fes.length ∧
  (∀ k, k < s.w.fes.length → k ∉ s.c.owned →
    (s'.child k).constraints = (s.child k).constraints ∧ (s'.child k).variables = (s.child k).variables) ∧
  (∀ k ∈ s'.c.owned, k ∈ s.c.owned ∨ (s.w.fes.length ≤ k ∧ k < s'.w.fes.length)) ∧
  (∀ k ∈ s'.c.solverList, k ∈ s.c.solverList ∨ s.w.fes.length ≤ k)

/-- every call in scope, from every state satisfying the invariant, has the footprint -/
def CompFrames (R : Con → Prop) (RE : Exp → Prop) (E : Env) : Prop :=
  ∀ (U : List Con) (Us : List (List Con)) (s : CSt) (op : Op), CInv R RE E U Us s → InScopeCE R RE op →
    (∀ k ∈ s.c.owned, k < s.w.fes.length) → StepFrame s (compStep E s op).2

theorem StepFrame.refl (s : CSt) : StepFrame s s :=
  ⟨Nat.le_refl _, fun _ _ _ => ⟨rfl, rfl⟩, fun _ hk => Or.inl hk, fun _ hk => Or.inl hk⟩

theorem solverList_lt {U : List Con} {Us : List (List Con)} {s : CSt} (h : CInv R RE E U Us s) :
    ∀ k ∈ s.c.solverList, k < s.w.fes.length := by
  intro k hk
  obtain ⟨v, hvk⟩ := (mem_solverList' _ h.nodup k).mp hk
  exact (h.map v k hvk).1

theorem usersAll_getD_self (UU : List (List Con)) (i : Nat) (hi : i < UU.length) (op : Op) :
    (usersAll UU i op).getD i [] = usersAfter (UU.getD i []) op := by
  cases op <;> first
    | rfl
    | (simp only [usersAll, usersAfter]; exact getD_set_self _ _ _ _ hi)
    | (simp only [usersAll, usersAfter]; exact getD_append_left' _ _ _ _ hi)

theorem usersAll_getD_ne (UU : List (List Con)) (i j : Nat) (hj : j < UU.length) (hij : i ≠ j) (op : Op) :
    (usersAll UU i op).getD j [] = UU.getD j [] := by
  cases op <;> first
    | rfl
    | (simp only [usersAll]; exact getD_set_ne _ _ _ _ _ hij)
    | (simp only [usersAll]; exact getD_append_left' _ _ _ _ hj)

section
variable (H : SolverHyps R RE E)
include H

/-- **one call on one composite of a tree** (given the footprint of the calls): the answer is the one `Judge` demands for the
constraints of the composite that was ASKED, and the invariant of the tree holds again - every other composite still satisfies
`CInv` for its own, unchanged constraint list -/
theorem tree_step (hF : CompFrames R RE E) {UU Us : List (List Con)} {t : TSt} (ht : TreeInv R RE E UU Us t) (i : Nat)
    (hi : i < t.cs.length) (op : Op) (hop : op = .branch ∨ InScopeCE R RE op) :
    JudgeOrGiveUp E ((usersAll UU i op).getD i []) op (treeStep E t i op).1 ∧
      ∃ Us', TreeInv R RE E (usersAll UU i op) Us' (treeStep E t i op).2 := by
  have hiU : i < UU.length := by rw [ht.len]; exact hi
  by_cases hb : op = .branch
  · subst hb
    refine ⟨Or.inl trivial, Us, ?_⟩
    obtain ⟨hp, hc, hco, hpo, hcs, hps, _, _, hlen, _⟩ := compBranch_spec (ht.each i hi)
    have hcsl : (compBranch (t.at i)).1.solverList = (t.cs.getD i {}).solverList := solverList_congr hcs
    have hpsl : (compBranch (t.at i)).2.c.solverList = (t.cs.getD i {}).solverList := solverList_congr hps
    have hlen' : (t.cs.set i (compBranch (t.at i)).2.c).length = t.cs.length := by simp
    -- the composite at position `m` afterwards
    have hget : ∀ m, m < t.cs.length + 1 →
        ((t.cs.set i (compBranch (t.at i)).2.c ++ [(compBranch (t.at i)).1]).getD m {} = (compBranch (t.at i)).2.c ∧ m = i) ∨
        ((t.cs.set i (compBranch (t.at i)).2.c ++ [(compBranch (t.at i)).1]).getD m {} = (compBranch (t.at i)).1 ∧ m = t.cs.length) ∨
        ((t.cs.set i (compBranch (t.at i)).2.c ++ [(compBranch (t.at i)).1]).getD m {} = t.cs.getD m {} ∧ m ≠ i ∧ m < t.cs.length) := by
      intro m hm
      by_cases hml : m = t.cs.length
      · right; left
        refine ⟨?_, hml⟩
        subst hml
        rw [← hlen']; exact getD_append_last _ _ _
      · have hm' : m < t.cs.length := by omega
        rw [getD_append_left' _ _ _ _ (by rw [hlen']; exact hm')]
        by_cases hmi : m = i
        · left; subst hmi; exact ⟨getD_set_self _ _ _ _ hm', rfl⟩
        · right; right
          exact ⟨getD_set_ne _ _ _ _ _ (Ne.symm hmi), hmi, hm'⟩
    have hwlen : (compBranch (t.at i)).2.w.fes.length = t.w.fes.length := hlen
    have hcl2 : (treeStep E t i .branch).2.cs.length = t.cs.length + 1 := by simp [treeStep]
    have hww : (compBranch (t.at i)).2.w = finAll (t.cs.getD i {}).solverList t.w := by rw [compBranch_eq]; rfl
    refine ⟨?_, ?_, ?_, ?_⟩
    · show (UU ++ [UU.getD i []]).length = (t.cs.set i (compBranch (t.at i)).2.c ++ [(compBranch (t.at i)).1]).length
      simp [ht.len]
    · intro m hm
      have hm1 : m < t.cs.length + 1 := by rw [← hcl2]; exact hm
      show CInv R RE E ((UU ++ [UU.getD i []]).getD m []) Us
        { c := (t.cs.set i (compBranch (t.at i)).2.c ++ [(compBranch (t.at i)).1]).getD m {}, w := (compBranch (t.at i)).2.w }
      rcases hget m hm1 with ⟨he, rfl⟩ | ⟨he, rfl⟩ | ⟨he, hmi, hml⟩
      · rw [he, getD_append_left' _ _ _ _ hiU]; exact hp
      · rw [he, ← ht.len, getD_append_last]; exact hc
      · rw [he, getD_append_left' _ _ _ _ (by rw [ht.len]; exact hml), hww]
        exact (ht.each m hml).finalized _ _ rfl rfl rfl
    · intro m hm k hk
      have hm1 : m < t.cs.length + 1 := by rw [← hcl2]; exact hm
      show k < (compBranch (t.at i)).2.w.fes.length
      rw [hwlen]
      have hk' : k ∈ ((t.cs.set i (compBranch (t.at i)).2.c ++ [(compBranch (t.at i)).1]).getD m {}).owned := hk
      rcases hget m hm1 with ⟨he, _⟩ | ⟨he, _⟩ | ⟨he, _, hml⟩
      · rw [he, hpo] at hk'; cases hk'
      · rw [he, hco] at hk'; cases hk'
      · rw [he] at hk'; exact ht.ownLt m hml k hk'
    · intro a b ha hb hab k hk
      have ha1 : a < t.cs.length + 1 := by rw [← hcl2]; exact ha
      have hb1 : b < t.cs.length + 1 := by rw [← hcl2]; exact hb
      have hk' : k ∈ ((t.cs.set i (compBranch (t.at i)).2.c ++ [(compBranch (t.at i)).1]).getD a {}).owned := hk
      show k ∉ ((t.cs.set i (compBranch (t.at i)).2.c ++ [(compBranch (t.at i)).1]).getD b {}).solverList
      rcases hget a ha1 with ⟨he, _⟩ | ⟨he, _⟩ | ⟨he, hai, hal⟩
      · rw [he, hpo] at hk'; cases hk'
      · rw [he, hco] at hk'; cases hk'
      · rw [he] at hk'
        rcases hget b hb1 with ⟨he2, _⟩ | ⟨he2, _⟩ | ⟨he2, _, hbl⟩
        · rw [he2, hpsl]; exact ht.own a i hal hi hai k hk'
        · rw [he2, hcsl]; exact ht.own a i hal hi hai k hk'
        · rw [he2]; exact ht.own a b hal hbl hab k hk'
  · have hsc : InScopeCE R RE op := hop.resolve_left hb
    have hstep : treeStep E t i op = ((compStep E (t.at i) op).1,
        { cs := t.cs.set i (compStep E (t.at i) op).2.c, w := (compStep E (t.at i) op).2.w }) := by
      cases op <;> first | rfl | exact (hb rfl).elim
    obtain ⟨hj, Us', hinv⟩ := comp_stepE H (ht.each i hi) op hsc
    obtain ⟨f1, f2, f3, f4⟩ := hF _ _ _ op (ht.each i hi) hsc (ht.ownLt i hi)
    rw [hstep]
    refine ⟨by rw [usersAll_getD_self UU i hiU op]; exact hj, Us', ?_⟩
    have hlenU : (usersAll UU i op).length = t.cs.length := by
      rw [usersAll_length]
      cases op <;> first | exact ht.len | exact (hb rfl).elim
    refine ⟨by simpa using hlenU, ?_, ?_, ?_⟩
    · intro m hm
      have hm' : m < t.cs.length := by simpa using hm
      by_cases hmi : m = i
      · subst hmi
        show CInv R RE E ((usersAll UU m op).getD m []) Us'
          { c := (t.cs.set m (compStep E (t.at m) op).2.c).getD m {}, w := (compStep E (t.at m) op).2.w }
        rw [getD_set_self _ _ _ _ hm', usersAll_getD_self UU m hiU op]
        exact hinv
      · show CInv R RE E ((usersAll UU i op).getD m []) Us'
          { c := (t.cs.set i (compStep E (t.at i) op).2.c).getD m {}, w := (compStep E (t.at i) op).2.w }
        rw [getD_set_ne _ _ _ _ _ (Ne.symm hmi), usersAll_getD_ne UU i m (by rw [ht.len]; exact hm') (Ne.symm hmi) op]
        refine (ht.each m hm').frame hinv f1 ?_
        intro k hk
        exact f2 k (solverList_lt (ht.each m hm') k hk) (fun hko => ht.own i m hi hm' (Ne.symm hmi) k hko hk)
    · intro m hm k hk
      have hm' : m < t.cs.length := by simpa using hm
      show k < (compStep E (t.at i) op).2.w.fes.length
      have hk' : k ∈ ((t.cs.set i (compStep E (t.at i) op).2.c).getD m {}).owned := hk
      by_cases hmi : m = i
      · subst hmi
        rw [getD_set_self _ _ _ _ hm'] at hk'
        rcases f3 k hk' with h | h
        · exact Nat.lt_of_lt_of_le (ht.ownLt m hm' k h) f1
        · exact h.2
      · rw [getD_set_ne _ _ _ _ _ (Ne.symm hmi)] at hk'
        exact Nat.lt_of_lt_of_le (ht.ownLt m hm' k hk') f1
    · intro a b ha hb' hab k hk
      have ha' : a < t.cs.length := by simpa using ha
      have hb'' : b < t.cs.length := by simpa using hb'
      have hk' : k ∈ ((t.cs.set i (compStep E (t.at i) op).2.c).getD a {}).owned := hk
      show k ∉ ((t.cs.set i (compStep E (t.at i) op).2.c).getD b {}).solverList
      by_cases hai : a = i
      · subst hai
        rw [getD_set_self _ _ _ _ ha'] at hk'
        rw [getD_set_ne _ _ _ _ _ hab]
        rcases f3 k hk' with h | h
        · exact ht.own a b ha' hb'' hab k h
        · intro hkb
          have := solverList_lt (ht.each b hb'') k hkb
          exact absurd this (Nat.not_lt.mpr h.1)
      · rw [getD_set_ne _ _ _ _ _ (Ne.symm hai)] at hk'
        by_cases hbi : b = i
        · subst hbi
          rw [getD_set_self _ _ _ _ hb'']
          intro hkb
          rcases f4 k hkb with h | h
          · exact ht.own a b ha' hb'' hab k hk' h
          · exact absurd (ht.ownLt a ha' k hk') (Nat.not_lt.mpr h)
        · rw [getD_set_ne _ _ _ _ _ (Ne.symm hbi)]
          exact ht.own a b ha' hb'' hab k hk'

/-- **any history over a tree of branched composites** (given the footprint of the calls): every answer is the one `Judge` demands
for the constraints of the composite that was asked -/
theorem tree_hist (hF : CompFrames R RE E) : ∀ (hist : List (Nat × Op)) (t : TSt) (UU Us : List (List Con)),
    TreeInv R RE E UU Us t → HistOkT R RE t.cs.length hist → ∀ x ∈ runTree E t UU hist, JudgeOrGiveUp E x.1 x.2.1 x.2.2
  | [], _, _, _, _, _ => fun x hx => by cases hx
  | (i, op) :: rest, t, UU, Us, ht, hok => by
    intro x hx
    obtain ⟨hi, hop, hrest⟩ := hok
    obtain ⟨hj, Us', hinv⟩ := tree_step H hF ht i hi op hop
    have hrest' : HistOkT R RE (treeStep E t i op).2.cs.length rest := by
      cases op <;> simpa [treeStep] using hrest
    have hx' : x = ((usersAll UU i op).getD i [], op, (treeStep E t i op).1) ∨
        x ∈ runTree E (treeStep E t i op).2 (usersAll UU i op) rest := List.mem_cons.mp hx
    rcases hx' with rfl | hx'
    · exact hj
    · exact tree_hist hF rest _ _ Us' hinv hrest' x hx'

end

/-- the tree of one empty composite -/
theorem treeInv_init (R : Con → Prop) (RE : Exp → Prop) (E : Env) (track : Bool) :
    TreeInv R RE E [[]] [] { cs := [{ track := track }], w := { fes := [] } } := by
  refine ⟨rfl, ?_, ?_, ?_⟩
  · intro i hi
    have : i = 0 := by simpa using hi
    subst this
    exact cinv_init R RE E track
  · intro i hi k hk
    have : i = 0 := by simpa using hi
    subst this
    cases hk
  · intro i j hi hj hij
    have h1 : i = 0 := by simpa using hi
    have h2 : j = 0 := by simpa using hj
    exact (hij (h1.trans h2.symm)).elim

end Claripy.Solver
