import ClaripyProofs.Lemmas.Solver.CachelessAdd
/-!
SolverCacheless, whole histories over a TREE of branched solvers (not tracking, `reuse_z3_solver` off): any sequence of
add / satisfiable / eval / min / max / solution / is_true / is_false / simplify / downsize / branch on any of the solvers
alive.  Every answer the MODEL gives is one the property statement (`Judge`) allows for the constraints the user has
added to THAT solver (inherited at branch) — over the complete mixin stack composed from the generated MRO, with the
solvers of the tree sharing Z3 objects the way `_copy` makes them.
-/
namespace Claripy.Solver

/-- full invariant of one SolverCacheless frontend whose user has added `U` -/
def FInv (R : Con → Prop) (U : List Con) (s : St) : Prop := CLInv0 U s ∧ DInv R U s

/-- the starting point recorded, so that the query step can be read off afterwards -/
theorem CLInv0.mark {U : List Con} {s : St} (h : CLInv0 U s) : CLInv (· = s) U s :=
  ⟨h.core, h.equiv, ⟨s, rfl, QStep.refl s⟩⟩

theorem CLInv.unmark {U : List Con} {s s' : St} (h : CLInv (· = s) U s') : CLInv0 U s' ∧ QStep s s' := by
  obtain ⟨s0, rfl, hq⟩ := h.ghost
  exact ⟨⟨h.core, h.equiv, ⟨s', trivial, QStep.refl s'⟩⟩, hq⟩

theorem DInv.qstep {R : Con → Prop} {U : List Con} {s s' : St} (hd : DInv R U s) (hq : QStep s s') : DInv R U s' := by
  obtain ⟨sol, ta, hfe⟩ := hq.fe
  exact ⟨by rw [hfe]; exact hd.consR, by rw [hfe]; exact hd.seen⟩

/-- what any call on a frontend does to the Z3 objects and to its own reference, as far as the OTHER frontends care -/
structure WStep (s s' : St) : Prop where
  grow : s.objs.length ≤ s'.objs.length
  solver3 : s'.fe.solver = s.fe.solver ∨ s'.fe.solver = none ∨ ∃ r, s'.fe.solver = some r ∧ s.objs.length ≤ r
  foreign : ∀ i, i < s.objs.length → (s.fe.solver = some i → s.fe.finalized = true) →
    (objAt s' i).frames = (objAt s i).frames
  reuse : s'.reuse = s.reuse
  fin : s.fe.finalized = true → s'.fe.finalized = true

theorem QStep.toW {s s' : St} (h : QStep s s') : WStep s s' :=
  ⟨h.grow, h.solverNew.elim Or.inl (fun h => Or.inr (Or.inr h)), h.foreign, h.reuse, fun hf => by rw [h.finalized]; exact hf⟩

theorem MStep.toW {s s' : St} (h : MStep s s') : WStep s s' :=
  ⟨by rw [h.objs]; exact Nat.le_refl _, h.solver.elim Or.inl (fun h => Or.inr (Or.inl h)),
   fun i _ _ => by simp only [objAt, h.objs], h.reuse, h.fin⟩

/-- the invariant of a frontend only looks at its record and at the frames of the Z3 object it refers to -/
theorem FInv.transfer {R : Con → Prop} {U : List Con} {s s' : St} (h : FInv R U s)
    (hcons : s'.fe.constraints = s.fe.constraints) (htoadd : s'.fe.toAdd = s.fe.toAdd) (hsol : s'.fe.solver = s.fe.solver)
    (htrack : s'.fe.track = s.fe.track) (hhash : s'.fe.hashes = s.fe.hashes) (hwo : s'.fe.woAnnot = s.fe.woAnnot)
    (hre : s'.reuse = s.reuse)
    (hobj : ∀ r, s.fe.solver = some r → r < s'.objs.length ∧ (objAt s' r).frames = (objAt s r).frames) : FInv R U s' := by
  obtain ⟨hc, hd⟩ := h
  refine ⟨⟨⟨?_, ?_, ?_, ?_⟩, ?_, ⟨s', trivial, QStep.refl s'⟩⟩, ⟨?_, ?_⟩⟩
  · rw [hcons, htoadd]; exact hc.core.toAdd_sub
  · intro r hr
    rw [hsol] at hr
    obtain ⟨_, ⟨f, hf⟩, hsem⟩ := hc.core.obj r hr
    obtain ⟨hlt, hfr⟩ := hobj r hr
    refine ⟨hlt, ⟨f, by rw [hfr, hf]⟩, fun a => ?_⟩
    have has : (objAt s' r).asserted = (objAt s r).asserted := by simp only [Z3Obj.asserted, hfr]
    rw [has, htoadd, hcons]
    exact hsem a
  · rw [hre]; exact hc.core.noReuse
  · rw [htrack]; exact hc.core.untracked
  · rw [hcons]; exact hc.equiv
  · rw [hcons]; exact hd.consR
  · rw [hhash, hwo]; exact hd.seen

/-! ### world and state -/

def stOfI (w : World) (i : Nat) : St :=
  { fe := w.fes.getD i {}, objs := w.objs, reuse := w.reuse, shared := w.shared, tick := w.tick, qlog := w.qlog }

def wOfI (w : World) (i : Nat) (st' : St) : World :=
  { w with fes := w.fes.set i st'.fe, objs := st'.objs, shared := st'.shared, tick := st'.tick, qlog := st'.qlog }

theorem runOn_eq {α : Type} (w : World) (i : Nat) (m : M α) :
    runOn w i m = ((m (stOfI w i)).1, wOfI w i (m (stOfI w i)).2) := rfl

theorem getD_set_self {α : Type} (l : List α) (i : Nat) (x d : α) (h : i < l.length) : (l.set i x).getD i d = x := by
  simp [List.getD, h]

theorem getD_set_ne {α : Type} (l : List α) (i j : Nat) (x d : α) (h : i ≠ j) : (l.set i x).getD j d = l.getD j d := by
  simp [List.getD, List.getElem?_set_ne h]

theorem stOfI_wOfI_self (w : World) (i : Nat) (s' : St) (h : i < w.fes.length) (hr : s'.reuse = w.reuse) :
    stOfI (wOfI w i s') i = s' := by
  cases s' with
  | mk fe objs reuse shared tick qlog =>
    simp only at hr
    subst hr
    simp only [stOfI, wOfI, St.mk.injEq, and_true]
    exact getD_set_self _ _ _ _ h

/-- invariant of the world: every frontend satisfies its invariant for ITS user's constraints; a Z3 object referred to by
two frontends is referred to by finalized frontends only (so nobody asserts into it) -/
structure TInv (R : Con → Prop) (Us : List (List Con)) (w : World) : Prop where
  len : Us.length = w.fes.length
  each : ∀ i, i < w.fes.length → FInv R (Us.getD i []) (stOfI w i)
  share : ∀ i j r, i < w.fes.length → j < w.fes.length → i ≠ j →
    (w.fes.getD i {}).solver = some r → (w.fes.getD j {}).solver = some r → (w.fes.getD i {}).finalized = true

theorem TInv.solver_lt {R : Con → Prop} {Us : List (List Con)} {w : World} (hw : TInv R Us w) {j r : Nat}
    (hj : j < w.fes.length) (hr : (w.fes.getD j {}).solver = some r) : r < w.objs.length :=
  ((hw.each j hj).1.core.obj r hr).1

/-- a call on frontend `i` that is a `WStep` for it and re-establishes its invariant (for possibly more constraints) keeps
the invariant of the world -/
theorem tinv_step {R : Con → Prop} {Us : List (List Con)} {w : World} (hw : TInv R Us w) {i : Nat} (hi : i < w.fes.length)
    {s' : St} {U' : List Con} (hws : WStep (stOfI w i) s') (hf : FInv R U' s') :
    TInv R (Us.set i U') (wOfI w i s') := by
  have hre : s'.reuse = w.reuse := hws.reuse
  have hlen : (wOfI w i s').fes.length = w.fes.length := by simp [wOfI]
  refine ⟨by simp [wOfI, hw.len], ?_, ?_⟩
  · intro j hj
    rw [hlen] at hj
    by_cases hji : j = i
    · subst hji
      rw [stOfI_wOfI_self w j s' hi hre, getD_set_self _ _ _ _ (by rw [hw.len]; exact hi)]
      exact hf
    · rw [getD_set_ne _ _ _ _ _ (Ne.symm hji)]
      have hfe : (stOfI (wOfI w i s') j).fe = (stOfI w j).fe := by
        simp only [stOfI, wOfI]; exact getD_set_ne _ _ _ _ _ (Ne.symm hji)
      refine (hw.each j hj).transfer (by rw [hfe]) (by rw [hfe]) (by rw [hfe]) (by rw [hfe]) (by rw [hfe]) (by rw [hfe]) rfl ?_
      intro r hr
      have hlt : r < w.objs.length := hw.solver_lt hj hr
      refine ⟨Nat.lt_of_lt_of_le hlt hws.grow, ?_⟩
      exact hws.foreign r hlt (fun hir => hw.share i j r hi hj (Ne.symm hji) hir hr)
  · intro a b r ha hb hab hra hrb
    rw [hlen] at ha hb
    simp only [wOfI] at hra hrb ⊢
    by_cases hai : a = i
    · subst hai
      have hbi : b ≠ a := Ne.symm hab
      rw [getD_set_self _ _ _ _ ha] at hra ⊢
      rw [getD_set_ne _ _ _ _ _ (Ne.symm hbi)] at hrb
      have hlt : r < w.objs.length := hw.solver_lt hb hrb
      rcases hws.solver3 with e | e | ⟨r', e, hge⟩
      · exact hws.fin (hw.share a b r ha hb hab (e ▸ hra) hrb)
      · rw [e] at hra; cases hra
      · rw [e] at hra
        have : r' = r := by simpa using hra
        subst this
        exact absurd hlt (Nat.not_lt.mpr hge)
    · rw [getD_set_ne _ _ _ _ _ (Ne.symm hai)] at hra ⊢
      by_cases hbi : b = i
      · subst hbi
        rw [getD_set_self _ _ _ _ hb] at hrb
        have hlt : r < w.objs.length := hw.solver_lt ha hra
        rcases hws.solver3 with e | e | ⟨r', e, hge⟩
        · exact hw.share a b r ha hb hab hra (e ▸ hrb)
        · rw [e] at hrb; cases hrb
        · rw [e] at hrb
          have : r' = r := by simpa using hrb
          subst this
          exact absurd hlt (Nat.not_lt.mpr hge)
      · rw [getD_set_ne _ _ _ _ _ (Ne.symm hbi)] at hrb
        exact hw.share a b r ha hb hab hra hrb

theorem tinv_init (R : Con → Prop) : TInv R [[]] (World.init false false) := by
  refine ⟨rfl, ?_, ?_⟩
  · intro i hi
    have : i = 0 := by simp [World.init] at hi; exact hi
    subst this
    exact ⟨⟨⟨fun _ _ => rfl, fun r hr => by simp [stOfI, World.init] at hr, rfl, rfl⟩, fun _ => rfl, ⟨_, trivial, QStep.refl _⟩⟩,
           ⟨fun c hc => by simp [stOfI, World.init] at hc, fun c _ hi => by simp [stOfI, World.init] at hi⟩⟩
  · intro i j r hi hj hij
    simp [World.init] at hi hj
    omega

/-! ### calls in scope -/

/-- the calls this theorem covers and what is assumed of their arguments: added constraints come from the registry
(`R`), extra constraints and queried expressions are well formed, `eval` asks for at least one value, `solution` gets a
value in range -/
def InScope (R : Con → Prop) : Op → Prop
  | .add cs => ∀ c ∈ cs, R c
  | .satisfiable ex => ∀ c ∈ ex, ConWf c
  | .eval e n ex => ExpWf e ∧ 1 ≤ n ∧ ∀ c ∈ ex, ConWf c
  | .min e ex _ | .max e ex _ => ExpWf e ∧ ∀ c ∈ ex, ConWf c
  | .solution e v ex => v < 2 ^ e.bits ∧ ∀ c ∈ ex, ConWf c
  | .isTrue c ex | .isFalse c ex => ConWf c ∧ ∀ c ∈ ex, ConWf c
  | .simplify | .downsize | .branch => True
  | _ => False

/-- the user's constraints of the solver called, after the call -/
def usersAfter (U : List Con) : Op → List Con
  | .add new => U ++ new
  | _ => U

/-- the constraint lists of all solvers after a call on solver `i` -/
def usersAll (Us : List (List Con)) (i : Nat) : Op → List (List Con)
  | .add new => Us.set i (Us.getD i [] ++ new)
  | .branch => Us ++ [Us.getD i []]
  | _ => Us

theorem publicAdd_cacheless (E : Env) (cs : List Con) :
    publicAdd (clStage E 4) cs = clAdd E (clStage E 3) cs true := by
  unfold publicAdd
  rw [clStage_add]
  unfold clAdd
  by_cases h : cs.isEmpty = true
  · simp [h]
  · simp [h]

/-- the call raised because the backend gave up (`ClaripyZ3Error` / solver `unknown`), and the oracle did say `unknown` -/
def GaveUpOut (E : Env) (o : Out) : Prop := ∃ e, o = .err e ∧ IsGiveUp E e

theorem GaveUpOut.eq {E : Env} {o : Out} (h : GaveUpOut E o) : o = .err .giveUp := by
  obtain ⟨e, rfl, he, _⟩ := h
  rw [he]

/-- allowed answer, or an honest give-up -/
def JudgeOrGiveUp (E : Env) (cs : List Con) (op : Op) (o : Out) : Prop := Judge cs op o ∨ GaveUpOut E o

/-- `Frontend.branch` of this class: `blank_copy` and `_copy` through all layers -/
def branchM (E : Env) : M Frontend := do let fe ← M.getFe; (clStage E 4).copy ((clStage E 4).blankCopy fe {})

theorem branchM_spec (E : Env) (s : St) :
    ∃ c, branchM E s = (.ok c, { s with fe := { s.fe with finalized := true } }) ∧
      c.constraints = s.fe.constraints ∧ c.toAdd = s.fe.toAdd ∧ c.solver = s.fe.solver ∧ c.track = s.fe.track ∧
      c.hashes = s.fe.hashes ∧ c.woAnnot = s.fe.woAnnot ∧ c.finalized = true :=
  ⟨_, rfl, rfl, rfl, rfl, rfl, rfl, rfl, rfl⟩

theorem set_getD_self {α : Type} (l : List α) (i : Nat) (d : α) (h : i < l.length) : l.set i (l.getD i d) = l := by
  apply List.ext_getElem
  · simp
  · intro n h1 h2
    by_cases hn : i = n
    · subst hn; simp [List.getD, h]
    · simp [List.getElem_set_ne hn]

section
variable {E : Env} {R : Con → Prop} (hR : Reg R E) (hE : OracleExact E) (hS : SimpOn R E) (hT : CheapSound E)
include hR hE hS hT

/-- a query-like or mutating call on solver `i` (everything but `branch`): the answer is allowed for THAT solver's
constraints, the invariant of the whole world holds afterwards -/
theorem cl_step_nb (w : World) (Us : List (List Con)) (hw : TInv R Us w) (i : Nat) (hi : i < w.fes.length)
    (op : Op) (hop : InScope R op) (hnb : op ≠ .branch) :
    JudgeOrGiveUp E (usersAfter (Us.getD i []) op) op (step E .SolverCacheless w i op).1 ∧
    TInv R (usersAll Us i op) (step E .SolverCacheless w i op).2 := by
  have hs3 := clStage_ok E 3
  have hs2 := clStage_ok E 2
  obtain ⟨h0, hd⟩ := hw.each i hi
  have hUs : Us.set i (Us.getD i []) = Us := set_getD_self Us i [] (by rw [hw.len]; exact hi)
  -- a query: from the marked invariant read off the step, transport the deduplication invariant
  have query : ∀ {s' : St}, CLInv (· = stOfI w i) (Us.getD i []) s' → TInv R Us (wOfI w i s') := by
    intro s' h'
    obtain ⟨h1, hq⟩ := h'.unmark
    have := tinv_step hw hi hq.toW (U' := Us.getD i []) ⟨h1, hd.qstep hq⟩
    rwa [hUs] at this
  cases op with
  | add cs =>
    show JudgeOrGiveUp E (Us.getD i [] ++ cs) _ (outOf _ (runOn w i (publicAdd (classOps E .SolverCacheless) cs))).1 ∧
         TInv R (Us.set i (Us.getD i [] ++ cs)) (outOf _ (runOn w i (publicAdd (classOps E .SolverCacheless) cs))).2
    rw [classOps_cacheless, publicAdd_cacheless, runOn_eq]
    obtain ⟨added, s', heq, h1, h2, hm⟩ := clAdd_spec hR hs3 (Us.getD i []) (stOfI w i) h0 hd cs hop true
    rw [heq]
    exact ⟨Or.inl trivial, tinv_step hw hi hm.toW ⟨h1, h2⟩⟩
  | satisfiable extra =>
    show JudgeOrGiveUp E (Us.getD i []) _ (outOf .bool (runOn w i ((classOps E .SolverCacheless).satisfiable extra))).1 ∧
         TInv R Us (outOf .bool (runOn w i ((classOps E .SolverCacheless).satisfiable extra))).2
    rw [classOps_cacheless, clStage_satisfiable, runOn_eq]
    have hspec := clSat_spec hE hs3 (Us.getD i []) (stOfI w i) h0.mark extra hop
    generalize clSat E (clStage E 3) extra (stOfI w i) = res at hspec ⊢
    obtain ⟨r, s'⟩ := res
    cases r with
    | ok b => exact ⟨Or.inl hspec.1, query hspec.2⟩
    | error e => exact ⟨Or.inr ⟨e, rfl, hspec.1⟩, query hspec.2⟩
  | eval e n extra =>
    show JudgeOrGiveUp E (Us.getD i []) _ (outOf .vals (runOn w i ((classOps E .SolverCacheless).eval e n extra))).1 ∧
         TInv R Us (outOf .vals (runOn w i ((classOps E .SolverCacheless).eval e n extra))).2
    rw [classOps_cacheless, clStage_eval, runOn_eq]
    have hspec := clEval_spec hE hs3 (Us.getD i []) (stOfI w i) h0.mark e n hop.2.1 extra hop.2.2
    generalize clEval E (clStage E 3) e n extra (stOfI w i) = res at hspec ⊢
    obtain ⟨r, s'⟩ := res
    cases r with
    | ok vs => exact ⟨Or.inl hspec.1, query hspec.2⟩
    | error err =>
      refine ⟨?_, query hspec.2⟩
      rcases hspec.1 with ⟨rfl, hns⟩ | hg
      · exact Or.inl hns
      · exact Or.inr ⟨err, rfl, hg⟩
  | batchEval es n extra => exact hop.elim
  | min e extra signed =>
    show JudgeOrGiveUp E (Us.getD i []) _ (outOf .int (runOn w i ((classOps E .SolverCacheless).min e extra signed))).1 ∧
         TInv R Us (outOf .int (runOn w i ((classOps E .SolverCacheless).min e extra signed))).2
    rw [classOps_cacheless, clStage_min, runOn_eq]
    dsimp only
    have hspec := clExtremum_spec hE hs3 hs2 (clStage_satisfiable E 2) (clStage_eval E 2) (Us.getD i []) (stOfI w i) h0.mark
      false e hop.1 extra hop.2 signed
    generalize clExtremum E (clStage E 3) false e extra signed (stOfI w i) = res at hspec ⊢
    obtain ⟨r, s'⟩ := res
    cases r with
    | ok v => exact ⟨Or.inl hspec.1, query hspec.2⟩
    | error err =>
      refine ⟨?_, query hspec.2⟩
      rcases hspec.1 with ⟨rfl, hns⟩ | hg
      · exact Or.inl hns
      · exact Or.inr ⟨err, rfl, hg⟩
  | max e extra signed =>
    show JudgeOrGiveUp E (Us.getD i []) _ (outOf .int (runOn w i ((classOps E .SolverCacheless).max e extra signed))).1 ∧
         TInv R Us (outOf .int (runOn w i ((classOps E .SolverCacheless).max e extra signed))).2
    rw [classOps_cacheless, clStage_max, runOn_eq]
    dsimp only
    have hspec := clExtremum_spec hE hs3 hs2 (clStage_satisfiable E 2) (clStage_eval E 2) (Us.getD i []) (stOfI w i) h0.mark
      true e hop.1 extra hop.2 signed
    generalize clExtremum E (clStage E 3) true e extra signed (stOfI w i) = res at hspec ⊢
    obtain ⟨r, s'⟩ := res
    cases r with
    | ok v => exact ⟨Or.inl hspec.1, query hspec.2⟩
    | error err =>
      refine ⟨?_, query hspec.2⟩
      rcases hspec.1 with ⟨rfl, hns⟩ | hg
      · exact Or.inl hns
      · exact Or.inr ⟨err, rfl, hg⟩
  | solution e v extra =>
    show JudgeOrGiveUp E (Us.getD i []) _ (outOf .bool (runOn w i ((classOps E .SolverCacheless).solution e v extra))).1 ∧
         TInv R Us (outOf .bool (runOn w i ((classOps E .SolverCacheless).solution e v extra))).2
    rw [classOps_cacheless, clStage_solution, runOn_eq]
    have hspec := clSolution_spec hE hs3 (Us.getD i []) (stOfI w i) h0.mark e v hop.1 extra hop.2
    generalize clSolution E (clStage E 3) e v extra (stOfI w i) = res at hspec ⊢
    obtain ⟨r, s'⟩ := res
    cases r with
    | ok b => exact ⟨Or.inl hspec.1, query hspec.2⟩
    | error err =>
      refine ⟨?_, query hspec.2⟩
      rcases hspec.1 with ⟨rfl, hns⟩ | hg
      · exact Or.inl hns
      · exact Or.inr ⟨err, rfl, hg⟩
  | isTrue c extra =>
    show JudgeOrGiveUp E (Us.getD i []) _ (outOf .bool (runOn w i ((classOps E .SolverCacheless).isTrue c extra))).1 ∧
         TInv R Us (outOf .bool (runOn w i ((classOps E .SolverCacheless).isTrue c extra))).2
    rw [classOps_cacheless, clStage_isTrue, runOn_eq]
    have hspec := clTruth_spec hT hs3 (Us.getD i []) (stOfI w i) h0.mark true c hop.1 extra hop.2
    generalize clTruth E (clStage E 3) true c extra (stOfI w i) = res at hspec ⊢
    obtain ⟨r, s'⟩ := res
    cases r with
    | ok b => exact ⟨Or.inl hspec.1, query hspec.2⟩
    | error err =>
      refine ⟨?_, query hspec.2⟩
      rcases hspec.1 with ⟨rfl, hns⟩ | hg
      · exact Or.inl hns
      · exact Or.inr ⟨err, rfl, hg⟩
  | isFalse c extra =>
    show JudgeOrGiveUp E (Us.getD i []) _ (outOf .bool (runOn w i ((classOps E .SolverCacheless).isFalse c extra))).1 ∧
         TInv R Us (outOf .bool (runOn w i ((classOps E .SolverCacheless).isFalse c extra))).2
    rw [classOps_cacheless, clStage_isFalse, runOn_eq]
    have hspec := clTruth_spec hT hs3 (Us.getD i []) (stOfI w i) h0.mark false c hop.1 extra hop.2
    generalize clTruth E (clStage E 3) false c extra (stOfI w i) = res at hspec ⊢
    obtain ⟨r, s'⟩ := res
    cases r with
    | ok b => exact ⟨Or.inl hspec.1, query hspec.2⟩
    | error err =>
      refine ⟨?_, query hspec.2⟩
      rcases hspec.1 with ⟨rfl, hns⟩ | hg
      · exact Or.inl hns
      · exact Or.inr ⟨err, rfl, hg⟩
  | unsatCore extra => exact hop.elim
  | simplify =>
    show JudgeOrGiveUp E (Us.getD i []) _ (outOf _ (runOn w i (classOps E .SolverCacheless).simplify)).1 ∧
         TInv R Us (outOf _ (runOn w i (classOps E .SolverCacheless).simplify)).2
    rw [classOps_cacheless, runOn_eq, clStage_simplify]
    obtain ⟨h1, h2⟩ := clSimplify_spec hR hS (Us.getD i []) (stOfI w i) h0 hd
    have := tinv_step hw hi (clSimplify_mstep E (stOfI w i)).toW (U' := Us.getD i []) ⟨h1, h2⟩
    rw [hUs] at this
    exact ⟨Or.inl trivial, this⟩
  | downsize =>
    show JudgeOrGiveUp E (Us.getD i []) _ (outOf _ (runOn w i (classOps E .SolverCacheless).downsize)).1 ∧
         TInv R Us (outOf _ (runOn w i (classOps E .SolverCacheless).downsize)).2
    rw [classOps_cacheless, runOn_eq, clStage_downsize]
    obtain ⟨h1, h2⟩ := clDownsize_spec (R := R) (Us.getD i []) (stOfI w i) h0 hd
    have := tinv_step hw hi (clDownsize_mstep (stOfI w i)).toW (U' := Us.getD i []) ⟨h1, h2⟩
    rw [hUs] at this
    exact ⟨Or.inl trivial, this⟩
  | branch => exact (hnb rfl).elim
  | pickle => exact hop.elim

end

theorem getD_append_left' {α : Type} (l : List α) (c d : α) (j : Nat) (h : j < l.length) : (l ++ [c]).getD j d = l.getD j d := by
  simp [List.getD, List.getElem?_append_left h]

theorem getD_append_last {α : Type} (l : List α) (c d : α) : (l ++ [c]).getD l.length d = c := by
  simp [List.getD]

/-- the copy made by `branch` joins the world: it refers to the same Z3 object as its (finalized) parent -/
theorem tinv_append {R : Con → Prop} {Us : List (List Con)} {w : World} (hw : TInv R Us w) {i : Nat} (hi : i < w.fes.length)
    (hfin : (w.fes.getD i {}).finalized = true) (c : Frontend)
    (hcons : c.constraints = (w.fes.getD i {}).constraints) (htoadd : c.toAdd = (w.fes.getD i {}).toAdd)
    (hsol : c.solver = (w.fes.getD i {}).solver) (htrack : c.track = (w.fes.getD i {}).track)
    (hhash : c.hashes = (w.fes.getD i {}).hashes) (hwo : c.woAnnot = (w.fes.getD i {}).woAnnot) (hcfin : c.finalized = true) :
    TInv R (Us ++ [Us.getD i []]) { w with fes := w.fes ++ [c] } := by
  refine ⟨by simp [hw.len], ?_, ?_⟩
  · intro j hj
    simp only [List.length_append, List.length_singleton] at hj
    by_cases hjl : j < w.fes.length
    · have e1 : stOfI { w with fes := w.fes ++ [c] } j = stOfI w j := by
        simp only [stOfI, getD_append_left' _ _ _ _ hjl]
      rw [e1, getD_append_left' _ _ _ _ (by rw [hw.len]; exact hjl)]
      exact hw.each j hjl
    · have hjeq : j = w.fes.length := by omega
      subst hjeq
      have e2 : (Us ++ [Us.getD i []]).getD w.fes.length [] = Us.getD i [] := by
        rw [← hw.len]; exact getD_append_last _ _ _
      rw [e2]
      have hfe : (stOfI { w with fes := w.fes ++ [c] } w.fes.length).fe = c := by
        simp only [stOfI]; exact getD_append_last _ _ _
      refine (hw.each i hi).transfer (by rw [hfe]; exact hcons) (by rw [hfe]; exact htoadd) (by rw [hfe]; exact hsol)
        (by rw [hfe]; exact htrack) (by rw [hfe]; exact hhash) (by rw [hfe]; exact hwo) rfl ?_
      intro r hr
      exact ⟨hw.solver_lt hi hr, rfl⟩
  · intro a b r ha hb hab hra hrb
    simp only [List.length_append, List.length_singleton] at ha hb
    simp only at hra hrb ⊢
    by_cases hal : a < w.fes.length
    · rw [getD_append_left' _ _ _ _ hal] at hra ⊢
      by_cases hbl : b < w.fes.length
      · rw [getD_append_left' _ _ _ _ hbl] at hrb
        exact hw.share a b r hal hbl hab hra hrb
      · have hbeq : b = w.fes.length := by omega
        subst hbeq
        rw [getD_append_last] at hrb
        rw [hsol] at hrb
        by_cases hai : a = i
        · subst hai; exact hfin
        · exact hw.share a i r hal hi hai hra hrb
    · have haeq : a = w.fes.length := by omega
      subst haeq
      rw [getD_append_last]
      exact hcfin

/-- a history is in scope: every call is made on a solver that exists at that moment, with arguments in scope -/
def HistOk (R : Con → Prop) : Nat → List (Nat × Op) → Prop
  | _, [] => True
  | n, (i, op) :: rest => i < n ∧ InScope R op ∧ HistOk R (match op with | .branch => n + 1 | _ => n) rest

theorem runHist_cons (E : Env) (w : World) (Us : List (List Con)) (i : Nat) (op : Op) (rest : List (Nat × Op)) :
    runHist E .SolverCacheless w Us ((i, op) :: rest) =
      (usersAfter (Us.getD i []) op, op, (step E .SolverCacheless w i op).1) ::
        runHist E .SolverCacheless (step E .SolverCacheless w i op).2 (usersAll Us i op) rest := by
  cases op <;> rfl

theorem usersAll_length (Us : List (List Con)) (i : Nat) (op : Op) :
    (usersAll Us i op).length = (match op with | .branch => Us.length + 1 | _ => Us.length) := by
  cases op <;> simp [usersAll]

section
variable {E : Env} {R : Con → Prop} (hR : Reg R E) (hE : OracleExact E) (hS : SimpOn R E) (hT : CheapSound E)

/-- `branch` on solver `i`: a new solver with index = the number of solvers so far; the world invariant holds with the new
solver inheriting the constraint list of its parent -/
theorem cl_step_branch (w : World) (Us : List (List Con)) (hw : TInv R Us w) (i : Nat) (hi : i < w.fes.length) :
    (step E .SolverCacheless w i .branch).1 = .newSolver w.fes.length ∧
    TInv R (Us ++ [Us.getD i []]) (step E .SolverCacheless w i .branch).2 := by
  obtain ⟨c, hrun, hcons, htoadd, hsol, htrack, hhash, hwo, hcfin⟩ := branchM_spec E (stOfI w i)
  have hstep : step E .SolverCacheless w i .branch =
      (match runOn w i (branchM E) with
       | (.ok c, w') => (.newSolver w'.fes.length, { w' with fes := w'.fes ++ [c] })
       | (.error e, w') => (.err e, w')) := rfl
  rw [hstep, runOn_eq, hrun]
  simp only
  -- the parent, now finalized
  have hf1 : FInv R (Us.getD i []) { stOfI w i with fe := { (stOfI w i).fe with finalized := true } } :=
    (hw.each i hi).transfer rfl rfl rfl rfl rfl rfl rfl (fun r hr => ⟨hw.solver_lt hi hr, rfl⟩)
  have hws : WStep (stOfI w i) { stOfI w i with fe := { (stOfI w i).fe with finalized := true } } :=
    ⟨Nat.le_refl _, Or.inl rfl, fun _ _ _ => rfl, rfl, fun _ => rfl⟩
  have hw1 := tinv_step hw hi hws hf1
  rw [set_getD_self Us i [] (by rw [hw.len]; exact hi)] at hw1
  have hlen1 : (wOfI w i { stOfI w i with fe := { (stOfI w i).fe with finalized := true } }).fes.length = w.fes.length := by
    simp [wOfI]
  have hi1 : i < (wOfI w i { stOfI w i with fe := { (stOfI w i).fe with finalized := true } }).fes.length := by
    rw [hlen1]; exact hi
  have hfe1 : (wOfI w i { stOfI w i with fe := { (stOfI w i).fe with finalized := true } }).fes.getD i {} =
      { (stOfI w i).fe with finalized := true } := by
    simp only [wOfI]; exact getD_set_self _ _ _ _ hi
  refine ⟨by rw [hlen1], ?_⟩
  exact tinv_append hw1 hi1 (by rw [hfe1]) c (by rw [hfe1]; exact hcons) (by rw [hfe1]; exact htoadd)
    (by rw [hfe1]; exact hsol) (by rw [hfe1]; exact htrack) (by rw [hfe1]; exact hhash) (by rw [hfe1]; exact hwo) hcfin

include hR hE hS hT

/-- any call in scope on any solver alive -/
theorem cl_step (w : World) (Us : List (List Con)) (hw : TInv R Us w) (i : Nat) (hi : i < w.fes.length)
    (op : Op) (hop : InScope R op) :
    JudgeOrGiveUp E (usersAfter (Us.getD i []) op) op (step E .SolverCacheless w i op).1 ∧
    TInv R (usersAll Us i op) (step E .SolverCacheless w i op).2 := by
  by_cases hb : op = .branch
  · subst hb
    obtain ⟨h1, h2⟩ := cl_step_branch (E := E) w Us hw i hi
    refine ⟨Or.inl ?_, h2⟩
    rw [h1]
    trivial
  · exact cl_step_nb hR hE hS hT w Us hw i hi op hop hb

/-- **trees of branched solvers**: every answer of every solver is allowed for that solver's own constraints, or is an
honest give-up -/
theorem cl_hist_giveup (hist : List (Nat × Op)) : ∀ (w : World) (Us : List (List Con)), TInv R Us w →
    HistOk R w.fes.length hist →
    ∀ x ∈ runHist E .SolverCacheless w Us hist, JudgeOrGiveUp E x.1 x.2.1 x.2.2 := by
  induction hist with
  | nil => intro w Us _ _ x hx; simp [runHist] at hx
  | cons io rest ih =>
    obtain ⟨i, op⟩ := io
    intro w Us hw hok x hx
    obtain ⟨hi, hop, hrest⟩ := hok
    obtain ⟨hj, hw'⟩ := cl_step hR hE hS hT w Us hw i hi op hop
    rw [runHist_cons] at hx
    rcases List.mem_cons.mp hx with rfl | hx
    · exact hj
    · refine ih _ _ hw' ?_ x hx
      have hl := hw'.len
      rw [usersAll_length, hw.len] at hl
      rw [← hl]
      exact hrest

/-- every answer other than a give-up error is allowed -/
theorem cl_hist (hist : List (Nat × Op)) (w : World) (Us : List (List Con)) (hw : TInv R Us w)
    (hok : HistOk R w.fes.length hist) :
    ∀ x ∈ runHist E .SolverCacheless w Us hist, x.2.2 ≠ .err .giveUp → Judge x.1 x.2.1 x.2.2 := by
  intro x hx hne
  rcases cl_hist_giveup hR hE hS hT hist w Us hw hok x hx with h | hg
  · exact h
  · exact (hne hg.eq).elim

end

end Claripy.Solver
