import ClaripyProofs.Lemmas.Solver.CachelessAdd
/-!
SolverCacheless, whole histories: one frontend (not tracking, `reuse_z3_solver` off), any sequence of
add / satisfiable / eval / min / max / solution / is_true / is_false / simplify / downsize.
Every answer the MODEL gives is one the property statement (`Judge`) allows for the constraints the user has added so
far — over the complete mixin stack composed from the generated MRO, for every oracle that is exact and never gives up.
-/
namespace Claripy.Solver

/-- the deduplication invariant as the property carried through the queries -/
def DG (R : Con → Prop) (U : List Con) : List Con → List Nat → List Nat → Prop :=
  fun cons hashes wo => (∀ c ∈ cons, R c) ∧
    ∀ c, R c → (c.id ∈ hashes ∨ c.id ∈ wo) → ∀ a, holdsAll U a = true → c.sem a = true

/-- full invariant of a SolverCacheless frontend whose user has added `U` -/
abbrev FInv (R : Con → Prop) (U : List Con) (s : St) : Prop := CLInv (DG R U) U s

theorem FInv.split {R : Con → Prop} {U : List Con} {s : St} (h : FInv R U s) : CLInv0 U s ∧ DInv R U s :=
  ⟨⟨h.core, h.equiv, trivial⟩, ⟨h.ghost.1, h.ghost.2⟩⟩

theorem FInv.join {R : Con → Prop} {U : List Con} {s : St} (h : CLInv0 U s) (hd : DInv R U s) : FInv R U s :=
  ⟨h.core, h.equiv, ⟨hd.consR, hd.seen⟩⟩

/-! ### world and state -/

def stOf (w : World) : St :=
  { fe := w.fes.getD 0 {}, objs := w.objs, reuse := w.reuse, shared := w.shared, tick := w.tick, qlog := w.qlog }

def wOf (w : World) (st' : St) : World :=
  { w with fes := w.fes.set 0 st'.fe, objs := st'.objs, shared := st'.shared, tick := st'.tick, qlog := st'.qlog }

theorem runOn_eq {α : Type} (w : World) (m : M α) : runOn w 0 m = ((m (stOf w)).1, wOf w (m (stOf w)).2) := rfl

theorem stOf_wOf (w : World) (s' : St) (h : 0 < w.fes.length) (hr : s'.reuse = w.reuse) : stOf (wOf w s') = s' := by
  cases s' with
  | mk fe objs reuse shared tick qlog =>
    simp only at hr
    subst hr
    simp only [stOf, wOf, St.mk.injEq, and_true, true_and]
    cases hf : w.fes with
    | nil => rw [hf] at h; simp at h
    | cons x xs => simp

/-- invariant of the world: frontend 0 exists and satisfies the frontend invariant -/
def WInv (R : Con → Prop) (U : List Con) (w : World) : Prop := 0 < w.fes.length ∧ FInv R U (stOf w)

theorem winv_step {R : Con → Prop} {U U' : List Con} {w : World} {s' : St} (hw : WInv R U w) (h' : FInv R U' s') :
    WInv R U' (wOf w s') := by
  have hr : s'.reuse = w.reuse := by
    have h1 := h'.core.noReuse
    have h2 : w.reuse = false := hw.2.core.noReuse
    rw [h1, h2]
  refine ⟨by simp [wOf]; exact hw.1, ?_⟩
  rw [stOf_wOf w s' hw.1 hr]
  exact h'

theorem winv_init (R : Con → Prop) : WInv R [] (World.init false false) := by
  refine ⟨by simp [World.init], ⟨⟨fun _ _ => rfl, fun r hr => by simp [stOf, World.init] at hr, rfl, rfl⟩, fun _ => rfl,
    ⟨fun c hc => by simp [stOf, World.init] at hc, fun c _ hi => by simp [stOf, World.init] at hi⟩⟩⟩

/-! ### calls in scope -/

/-- the calls this theorem covers and what is assumed of their arguments: added constraints come from the registry
(`R`), extra constraints and queried expressions are well formed, `eval` asks for at least one value, `solution` gets a
value in range -/
def InScope (R : Con → Prop) : Op → Prop
  | .add cs => ∀ c ∈ cs, R c
  | .satisfiable ex => ∀ c ∈ ex, ConWf c
  | .eval e n ex => ExpWf e ∧ 1 ≤ n ∧ ∀ c ∈ ex, ConWf c
  | .min e ex _ | .max e ex _ => ExpWf e ∧ ∀ c ∈ ex, ConWf c
  | .solution e v ex => v < 2 ^ e.bits ∧ ∀ c ∈ ex, ConWf c
  | .isTrue c ex | .isFalse c ex => ConWf c ∧ ∀ c ∈ ex, ConWf c
  | .simplify | .downsize => True
  | _ => False

/-- the user's constraints after a call -/
def usersAfter (U : List Con) : Op → List Con
  | .add new => U ++ new
  | _ => U

theorem errOk_unsat {E : Env} (hN : NoGiveUp E) {cs : List Con} {err : Err} (h : ErrOk E cs err) :
    err = .unsat ∧ ¬ Satisfiable cs := by
  rcases h with h | h
  · exact h
  · exact (h.elim hN).elim

theorem publicAdd_cacheless (E : Env) (cs : List Con) :
    publicAdd (clStage E 4) cs = clAdd E (clStage E 3) cs true := by
  unfold publicAdd
  rw [clStage_add]
  unfold clAdd
  by_cases h : cs.isEmpty = true
  · simp [h]
  · simp [h]

theorem runHist_cons {R : Con → Prop} (E : Env) (w : World) (U : List Con) (op : Op) (rest : List (Nat × Op))
    (hop : InScope R op) :
    runHist E .SolverCacheless w [U] ((0, op) :: rest) =
      (usersAfter U op, op, (step E .SolverCacheless w 0 op).1) ::
        runHist E .SolverCacheless (step E .SolverCacheless w 0 op).2 [usersAfter U op] rest := by
  cases op <;> first | rfl | exact hop.elim

/-- the call raised because the backend gave up (`ClaripyZ3Error` / solver `unknown`), and the oracle did say `unknown` -/
def GaveUpOut (E : Env) (o : Out) : Prop := ∃ e, o = .err e ∧ IsGiveUp E e

theorem GaveUpOut.eq {E : Env} {o : Out} (h : GaveUpOut E o) : o = .err .giveUp := by
  obtain ⟨e, rfl, he, _⟩ := h
  rw [he]

/-- allowed answer, or an honest give-up -/
def JudgeOrGiveUp (E : Env) (cs : List Con) (op : Op) (o : Out) : Prop := Judge cs op o ∨ GaveUpOut E o

section
variable {E : Env} {R : Con → Prop} (hR : Reg R E) (hE : OracleExact E) (hS : SimpOn R E) (hT : CheapSound E)
include hR hE hS hT

/-- one call: the answer is allowed, the invariant holds afterwards -/
theorem cl_step (w : World) (U : List Con) (hw : WInv R U w) (op : Op) (hop : InScope R op) :
    JudgeOrGiveUp E (usersAfter U op) op (step E .SolverCacheless w 0 op).1 ∧
    WInv R (usersAfter U op) (step E .SolverCacheless w 0 op).2 := by
  have hs3 := clStage_ok E 3
  have hs2 := clStage_ok E 2
  cases op with
  | add cs =>
    show JudgeOrGiveUp E (U ++ cs) _ (outOf _ (runOn w 0 (publicAdd (classOps E .SolverCacheless) cs))).1 ∧
         WInv R (U ++ cs) (outOf _ (runOn w 0 (publicAdd (classOps E .SolverCacheless) cs))).2
    rw [classOps_cacheless, publicAdd_cacheless, runOn_eq]
    obtain ⟨h0, hd⟩ := hw.2.split
    obtain ⟨added, s', heq, h1, h2⟩ := clAdd_spec hR hs3 U (stOf w) h0 hd cs hop true
    rw [heq]
    exact ⟨Or.inl trivial, winv_step hw (FInv.join h1 h2)⟩
  | satisfiable extra =>
    show JudgeOrGiveUp E U _ (outOf .bool (runOn w 0 ((classOps E .SolverCacheless).satisfiable extra))).1 ∧
         WInv R U (outOf .bool (runOn w 0 ((classOps E .SolverCacheless).satisfiable extra))).2
    rw [classOps_cacheless, clStage_satisfiable, runOn_eq]
    have hspec := clSat_spec hE hs3 U (stOf w) hw.2 extra hop
    generalize clSat E (clStage E 3) extra (stOf w) = res at hspec ⊢
    obtain ⟨r, s'⟩ := res
    cases r with
    | ok b => exact ⟨Or.inl hspec.1, winv_step hw hspec.2⟩
    | error e => exact ⟨Or.inr ⟨e, rfl, hspec.1⟩, winv_step hw hspec.2⟩
  | eval e n extra =>
    show JudgeOrGiveUp E U _ (outOf .vals (runOn w 0 ((classOps E .SolverCacheless).eval e n extra))).1 ∧
         WInv R U (outOf .vals (runOn w 0 ((classOps E .SolverCacheless).eval e n extra))).2
    rw [classOps_cacheless, clStage_eval, runOn_eq]
    have hspec := clEval_spec hE hs3 U (stOf w) hw.2 e n hop.2.1 extra hop.2.2
    generalize clEval E (clStage E 3) e n extra (stOf w) = res at hspec ⊢
    obtain ⟨r, s'⟩ := res
    cases r with
    | ok vs => exact ⟨Or.inl hspec.1, winv_step hw hspec.2⟩
    | error err =>
      refine ⟨?_, winv_step hw hspec.2⟩
      rcases hspec.1 with ⟨rfl, hns⟩ | hg
      · exact Or.inl hns
      · exact Or.inr ⟨err, rfl, hg⟩
  | batchEval es n extra => exact hop.elim
  | min e extra signed =>
    show JudgeOrGiveUp E U _ (outOf .int (runOn w 0 ((classOps E .SolverCacheless).min e extra signed))).1 ∧
         WInv R U (outOf .int (runOn w 0 ((classOps E .SolverCacheless).min e extra signed))).2
    rw [classOps_cacheless, clStage_min, runOn_eq]
    dsimp only
    have hspec := clExtremum_spec hE hs3 hs2 (clStage_satisfiable E 2) (clStage_eval E 2) U (stOf w) hw.2 false e hop.1
      extra hop.2 signed
    generalize clExtremum E (clStage E 3) false e extra signed (stOf w) = res at hspec ⊢
    obtain ⟨r, s'⟩ := res
    cases r with
    | ok i => exact ⟨Or.inl hspec.1, winv_step hw hspec.2⟩
    | error err =>
      refine ⟨?_, winv_step hw hspec.2⟩
      rcases hspec.1 with ⟨rfl, hns⟩ | hg
      · exact Or.inl hns
      · exact Or.inr ⟨err, rfl, hg⟩
  | max e extra signed =>
    show JudgeOrGiveUp E U _ (outOf .int (runOn w 0 ((classOps E .SolverCacheless).max e extra signed))).1 ∧
         WInv R U (outOf .int (runOn w 0 ((classOps E .SolverCacheless).max e extra signed))).2
    rw [classOps_cacheless, clStage_max, runOn_eq]
    dsimp only
    have hspec := clExtremum_spec hE hs3 hs2 (clStage_satisfiable E 2) (clStage_eval E 2) U (stOf w) hw.2 true e hop.1
      extra hop.2 signed
    generalize clExtremum E (clStage E 3) true e extra signed (stOf w) = res at hspec ⊢
    obtain ⟨r, s'⟩ := res
    cases r with
    | ok i => exact ⟨Or.inl hspec.1, winv_step hw hspec.2⟩
    | error err =>
      refine ⟨?_, winv_step hw hspec.2⟩
      rcases hspec.1 with ⟨rfl, hns⟩ | hg
      · exact Or.inl hns
      · exact Or.inr ⟨err, rfl, hg⟩
  | solution e v extra =>
    show JudgeOrGiveUp E U _ (outOf .bool (runOn w 0 ((classOps E .SolverCacheless).solution e v extra))).1 ∧
         WInv R U (outOf .bool (runOn w 0 ((classOps E .SolverCacheless).solution e v extra))).2
    rw [classOps_cacheless, clStage_solution, runOn_eq]
    have hspec := clSolution_spec hE hs3 U (stOf w) hw.2 e v hop.1 extra hop.2
    generalize clSolution E (clStage E 3) e v extra (stOf w) = res at hspec ⊢
    obtain ⟨r, s'⟩ := res
    cases r with
    | ok b => exact ⟨Or.inl hspec.1, winv_step hw hspec.2⟩
    | error err =>
      refine ⟨?_, winv_step hw hspec.2⟩
      rcases hspec.1 with ⟨rfl, hns⟩ | hg
      · exact Or.inl hns
      · exact Or.inr ⟨err, rfl, hg⟩
  | isTrue c extra =>
    show JudgeOrGiveUp E U _ (outOf .bool (runOn w 0 ((classOps E .SolverCacheless).isTrue c extra))).1 ∧
         WInv R U (outOf .bool (runOn w 0 ((classOps E .SolverCacheless).isTrue c extra))).2
    rw [classOps_cacheless, clStage_isTrue, runOn_eq]
    have hspec := clTruth_spec hT hs3 U (stOf w) hw.2 true c hop.1 extra hop.2
    generalize clTruth E (clStage E 3) true c extra (stOf w) = res at hspec ⊢
    obtain ⟨r, s'⟩ := res
    cases r with
    | ok b => exact ⟨Or.inl hspec.1, winv_step hw hspec.2⟩
    | error err =>
      refine ⟨?_, winv_step hw hspec.2⟩
      rcases hspec.1 with ⟨rfl, hns⟩ | hg
      · exact Or.inl hns
      · exact Or.inr ⟨err, rfl, hg⟩
  | isFalse c extra =>
    show JudgeOrGiveUp E U _ (outOf .bool (runOn w 0 ((classOps E .SolverCacheless).isFalse c extra))).1 ∧
         WInv R U (outOf .bool (runOn w 0 ((classOps E .SolverCacheless).isFalse c extra))).2
    rw [classOps_cacheless, clStage_isFalse, runOn_eq]
    have hspec := clTruth_spec hT hs3 U (stOf w) hw.2 false c hop.1 extra hop.2
    generalize clTruth E (clStage E 3) false c extra (stOf w) = res at hspec ⊢
    obtain ⟨r, s'⟩ := res
    cases r with
    | ok b => exact ⟨Or.inl hspec.1, winv_step hw hspec.2⟩
    | error err =>
      refine ⟨?_, winv_step hw hspec.2⟩
      rcases hspec.1 with ⟨rfl, hns⟩ | hg
      · exact Or.inl hns
      · exact Or.inr ⟨err, rfl, hg⟩
  | unsatCore extra => exact hop.elim
  | simplify =>
    show JudgeOrGiveUp E U _ (outOf _ (runOn w 0 (classOps E .SolverCacheless).simplify)).1 ∧
         WInv R U (outOf _ (runOn w 0 (classOps E .SolverCacheless).simplify)).2
    rw [classOps_cacheless, runOn_eq, clStage_simplify]
    obtain ⟨h0, hd⟩ := hw.2.split
    obtain ⟨h1, h2⟩ := clSimplify_spec hR hS U (stOf w) h0 hd
    exact ⟨Or.inl trivial, winv_step hw (FInv.join h1 h2)⟩
  | downsize =>
    show JudgeOrGiveUp E U _ (outOf _ (runOn w 0 (classOps E .SolverCacheless).downsize)).1 ∧
         WInv R U (outOf _ (runOn w 0 (classOps E .SolverCacheless).downsize)).2
    rw [classOps_cacheless, runOn_eq, clStage_downsize]
    obtain ⟨h0, hd⟩ := hw.2.split
    obtain ⟨h1, h2⟩ := clDownsize_spec (R := R) U (stOf w) h0 hd
    exact ⟨Or.inl trivial, winv_step hw (FInv.join h1 h2)⟩
  | branch => exact hop.elim
  | pickle => exact hop.elim

/-- any history of calls in scope, from any world satisfying the invariant: every answer is allowed or an honest
give-up — in particular the answers AFTER a give-up are still right (C17) -/
theorem cl_hist_giveup (hist : List Op) : ∀ (w : World) (U : List Con), WInv R U w → (∀ op ∈ hist, InScope R op) →
    ∀ x ∈ runHist E .SolverCacheless w [U] (hist.map fun op => (0, op)), JudgeOrGiveUp E x.1 x.2.1 x.2.2 := by
  induction hist with
  | nil => intro w U _ _ x hx; simp [runHist] at hx
  | cons op rest ih =>
    intro w U hw hops x hx
    have hop := hops op (List.mem_cons_self ..)
    obtain ⟨hj, hw'⟩ := cl_step hR hE hS hT w U hw op hop
    rw [List.map_cons, runHist_cons E w U op _ hop] at hx
    rcases List.mem_cons.mp hx with rfl | hx
    · exact hj
    · exact ih _ _ hw' (fun o ho => hops o (List.mem_cons_of_mem _ ho)) x hx

/-- every answer other than a give-up error is allowed -/
theorem cl_hist (hist : List Op) (w : World) (U : List Con) (hw : WInv R U w) (hops : ∀ op ∈ hist, InScope R op) :
    ∀ x ∈ runHist E .SolverCacheless w [U] (hist.map fun op => (0, op)), x.2.2 ≠ .err .giveUp → Judge x.1 x.2.1 x.2.2 := by
  intro x hx hne
  rcases cl_hist_giveup hR hE hS hT hist w U hw hops x hx with h | hg
  · exact h
  · exact (hne hg.eq).elim

end

end Claripy.Solver
