import ClaripyProofs.Lemmas.Solver.Basic
/-!
The multi-frontend world: a call on frontend `i` never writes the record of another frontend.
(Sharing goes through the heap of Z3 objects only; see `ObjStep` / the frames lemmas for those.)
-/
namespace Claripy.Solver

theorem runOn_fes {α : Type} (w : World) (i : Nat) (m : M α) (j : Nat) (hj : j ≠ i) :
    (runOn w i m).2.fes[j]? = w.fes[j]? := by
  simp only [runOn]
  rw [List.getElem?_set_ne (Ne.symm hj)]

theorem runOn_fes_length {α : Type} (w : World) (i : Nat) (m : M α) : (runOn w i m).2.fes.length = w.fes.length := by
  simp [runOn]

theorem outOf_world {α : Type} (f : α → Out) (x : Except Err α × World) : (outOf f x).2 = x.2 := by
  rcases x with ⟨r, w⟩
  cases r <;> rfl

/-- **branch isolation, record part**: whatever call is made on frontend `i`, every other existing frontend record
is left exactly as it was -/
theorem step_other_frontends (E : Env) (cls : SolverClass) (w : World) (i : Nat) (op : Op) (j : Nat)
    (hj : j ≠ i) (hlt : j < w.fes.length) :
    (step E cls w i op).2.fes[j]? = w.fes[j]? := by
  cases op <;> simp only [step, outOf_world, runOn_fes _ _ _ _ hj]
  case pickle => rw [List.getElem?_set_ne (Ne.symm hj)]
  case branch =>
    generalize (do let fe ← M.getFe; (classOps E cls).copy ((classOps E cls).blankCopy fe {}) : M Frontend) = m
    have h1 := runOn_fes w i m j hj
    have h2 := runOn_fes_length w i m
    generalize runOn w i m = x at h1 h2 ⊢
    rcases x with ⟨r, w'⟩
    cases r with
    | error e => simpa using h1
    | ok c =>
      simp only at h1 h2 ⊢
      rw [List.getElem?_append_left (by omega)]
      exact h1

end Claripy.Solver
