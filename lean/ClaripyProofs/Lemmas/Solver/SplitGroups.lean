import ClaripyProofs.Lemmas.Solver.SplitInv
/-!
The result of `_split_constraints`: the groups read off the final dicts are pairwise variable-disjoint, contain every
conjunct exactly once (those without variables in the CONCRETE group), and each conjunct's variables lie in its group.
-/
namespace Claripy.Solver

/-- collecting the distinct images of a list, in order of first occurrence -/
theorem dedupFold_spec {α γ : Type} [BEq γ] [LawfulBEq γ] (f : α → γ) (l : List α) (acc : List γ) (hacc : acc.Nodup) :
    (∀ g, g ∈ l.foldl (fun acc p => if acc.contains (f p) then acc else acc ++ [f p]) acc ↔ g ∈ acc ∨ ∃ p ∈ l, f p = g) ∧
    (l.foldl (fun acc p => if acc.contains (f p) then acc else acc ++ [f p]) acc).Nodup := by
  induction l generalizing acc with
  | nil => exact ⟨fun g => by simp, hacc⟩
  | cons p ps ih =>
    simp only [List.foldl_cons]
    by_cases hc : acc.contains (f p) = true
    · simp only [hc, if_true]
      obtain ⟨i1, i2⟩ := ih acc hacc
      refine ⟨fun g => ?_, i2⟩
      rw [i1]
      have hm : f p ∈ acc := by simpa using hc
      constructor
      · rintro (h | ⟨q, hq, rfl⟩)
        · exact Or.inl h
        · exact Or.inr ⟨q, List.mem_cons_of_mem _ hq, rfl⟩
      · rintro (h | ⟨q, hq, rfl⟩)
        · exact Or.inl h
        · rcases List.mem_cons.mp hq with rfl | hq
          · exact Or.inl hm
          · exact Or.inr ⟨q, hq, rfl⟩
    · simp only [hc, Bool.false_eq_true, if_false]
      have hm : f p ∉ acc := by simpa using hc
      have hnd : (acc ++ [f p]).Nodup := by
        rw [List.nodup_append]
        exact ⟨hacc, by simp, fun a ha b hb => by simp at hb; subst hb; exact fun h => hm (h ▸ ha)⟩
      obtain ⟨i1, i2⟩ := ih (acc ++ [f p]) hnd
      refine ⟨fun g => ?_, i2⟩
      rw [i1]
      constructor
      · rintro (h | ⟨q, hq, rfl⟩)
        · rcases List.mem_append.mp h with h | h
          · exact Or.inl h
          · have : g = f p := by simpa using h
            exact Or.inr ⟨p, by simp, this.symm⟩
        · exact Or.inr ⟨q, List.mem_cons_of_mem _ hq, rfl⟩
      · rintro (h | ⟨q, hq, rfl⟩)
        · exact Or.inl (List.mem_append_left _ h)
        · rcases List.mem_cons.mp hq with rfl | hq
          · exact Or.inl (List.mem_append_right _ (by simp))
          · exact Or.inr ⟨q, hq, rfl⟩

/-- the group of an entry of `variable_connections` -/
def groupOf (st : SplitSt) (p : Var × List Var) : List Var × List Nat :=
  (sortDedup p.2, sortDedup ((alGet? st.cc p.1).getD []))

def finalSt (varss : List (List Var)) : SplitSt := (varss.zipIdx).foldl (fun st p => splitStep st p.2 p.1) {}

def groupsOf (varss : List (List Var)) : List (List Var × List Nat) :=
  (finalSt varss).vc.foldl (fun (acc : List (List Var × List Nat)) p =>
    if acc.contains (groupOf (finalSt varss) p) then acc else acc ++ [groupOf (finalSt varss) p]) []

def concreteOf (varss : List (List Var)) : List Nat :=
  (varss.zipIdx).filterMap fun p => if p.1.isEmpty then some p.2 else none

theorem splitConstraints_eq (varss : List (List Var)) : splitConstraints varss = (groupsOf varss, concreteOf varss) := rfl

theorem groupsOf_spec (varss : List (List Var)) :
    (∀ g, g ∈ groupsOf varss ↔ ∃ p ∈ (finalSt varss).vc, groupOf (finalSt varss) p = g) ∧ (groupsOf varss).Nodup := by
  have := dedupFold_spec (groupOf (finalSt varss)) (finalSt varss).vc [] List.nodup_nil
  refine ⟨fun g => ?_, this.2⟩
  have h := this.1 g
  simp only [List.not_mem_nil, false_or] at h
  exact h

/-- what an entry knows -/
theorem entry_facts (varss : List (List Var)) (p : Var × List Var) (hp : p ∈ (finalSt varss).vc) :
    alGet? (finalSt varss).vc p.1 = some p.2 ∧ ∃ C, alGet? (finalSt varss).cc p.1 = some C := by
  have inv := splitInv_final varss
  have h1 := alGet?_of_mem _ inv.vcKeys p hp
  refine ⟨h1, ?_⟩
  have := inv.dom p.1
  rw [h1] at this
  cases hc : alGet? (finalSt varss).cc p.1 with
  | none => rw [show (finalSt varss) = _ from rfl] at hc; simp [finalSt] at this hc; simp [hc] at this
  | some C => exact ⟨C, rfl⟩

/-- two entries that share a variable give the same group -/
theorem same_group (varss : List (List Var)) (p q : Var × List Var) (hp : p ∈ (finalSt varss).vc) (hq : q ∈ (finalSt varss).vc)
    (w : Var) (hwp : w ∈ p.2) (hwq : w ∈ q.2) : groupOf (finalSt varss) p = groupOf (finalSt varss) q := by
  have inv := splitInv_final varss
  obtain ⟨hp1, _⟩ := entry_facts varss p hp
  obtain ⟨hq1, _⟩ := entry_facts varss q hq
  have e1 := (inv.cls p.1 p.2 hp1).2 w hwp
  have e2 := (inv.cls q.1 q.2 hq1).2 w hwq
  have hS : p.2 = q.2 := by
    have : some p.2 = some q.2 := e1.symm.trans e2
    exact Option.some.inj this
  have c1 := inv.ccls p.1 p.2 hp1 w hwp
  have c2 := inv.ccls q.1 q.2 hq1 w hwq
  have hC : alGet? (finalSt varss).cc p.1 = alGet? (finalSt varss).cc q.1 := c1.symm.trans c2
  simp only [groupOf, hS, hC]

/-- the indices of a group: conjuncts with variables, all inside the group -/
theorem group_index (varss : List (List Var)) (p : Var × List Var) (hp : p ∈ (finalSt varss).vc) (i : Nat)
    (hi : i ∈ (groupOf (finalSt varss) p).2) :
    i < varss.length ∧ ∃ vs, varss[i]? = some vs ∧ vs ≠ [] ∧ ∀ w ∈ vs, w ∈ p.2 := by
  have inv := splitInv_final varss
  obtain ⟨hp1, C, hC⟩ := entry_facts varss p hp
  simp only [groupOf, hC, Option.getD_some, mem_sortDedup] at hi
  exact inv.idx p.1 p.2 C hp1 hC i hi

theorem mem_concreteOf (varss : List (List Var)) (i : Nat) : i ∈ concreteOf varss ↔ varss[i]? = some [] := by
  unfold concreteOf
  simp only [List.mem_filterMap]
  constructor
  · rintro ⟨⟨vs, j⟩, hm, hf⟩
    have := List.mem_zipIdx_iff_getElem?.mp hm
    simp only at this hf
    split at hf
    · rename_i he
      cases hf
      have : vs = [] := by simpa using he
      subst this
      assumption
    · cases hf
  · intro h
    exact ⟨([], i), List.mem_zipIdx_iff_getElem?.mpr h, by simp⟩

theorem concreteOf_nodup (varss : List (List Var)) : (concreteOf varss).Nodup := by
  unfold concreteOf
  have hnd : (varss.zipIdx.map (·.2)).Nodup := by
    rw [List.zipIdx_map_snd]
    exact List.nodup_range' ..
  generalize varss.zipIdx = l at hnd
  induction l with
  | nil => simp
  | cons p ps ih =>
    simp only [List.map_cons, List.nodup_cons] at hnd
    simp only [List.filterMap_cons]
    split
    · exact ih hnd.2
    · rename_i b hb
      refine List.nodup_cons.mpr ⟨?_, ih hnd.2⟩
      intro hm
      obtain ⟨q, hq, hfq⟩ := List.mem_filterMap.mp hm
      split at hb
      · cases hb
        split at hfq
        · have : q.2 = p.2 := Option.some.inj hfq
          exact hnd.1 (List.mem_map.mpr ⟨q, hq, this⟩)
        · cases hfq
      · cases hb

end Claripy.Solver
