import ClaripyProofs.Lemmas.Solver.CachelessHistory
import Mathlib.Data.List.Perm.Subperm
/-!
ModelCacheMixin, part 1: what the cache means.

`MCInv` is the invariant of the mixin's state (`_models`, `_eval_exhausted`, `_max_exhausted`, `_min_exhausted`,
`_max_signed_exhausted`, `_min_signed_exhausted`) relative to the constraints `U` the user has added:
  * every cached model, completed with claripy's defaults, satisfies `U`;
  * an expression flagged eval-exhausted takes no value under `U` that some cached model does not give it;
  * an expression flagged max/min-exhausted (per signedness) takes no value under `U` beyond what some cached model
    gives it.
This file: the invariant, the cache look-ups (`_get_models`, `_get_batch_solutions`), the model hook, and the FAST
PATHS — answers served from the cache are answers the specification `Judge` allows.
-/
namespace Claripy.Solver

/-! ### registry of the expressions a run queries -/

/-- **ExpReg** (hash-consing, C06, for the queried expressions): equal ids mean equal value functions and widths; all
well formed; values depend on the listed variables only -/
structure ExpReg (RE : Exp → Prop) : Prop where
  faithful : ∀ e e', RE e → RE e' → e.id = e'.id → e.bits = e'.bits ∧ ∀ a, e.val a = e'.val a
  wf : ∀ e, RE e → ExpWf e
  dep : ∀ e, RE e → ExpDep e

/-- **EvalComplete** (trusted like OracleExact): the model of a `sat` answer, as `_generic_model` hands it to the
frontend, (1) completed with claripy's defaults gives every registered expression the value Z3 reports for it and
(2) mentions a variable of every registered symbolic expression.  This is what `_batch_eval` / `_extrema` obtain by
evaluating with `model_completion=True` BEFORE reading the model (the evaluator adds the constants it visits to the
model object; the recorder takes the key set at that moment).  The oracle of the model is indexed by the event number
only, so the hypothesis is stated for every answer. -/
structure EvalComplete (RE : Exp → Prop) (E : Env) : Prop where
  agree : ∀ q k vals keys, E.oracle q k = .sat vals keys → ∀ e, RE e →
    e.val ((PModel.ofKeys vals keys).complete E.dflt) = e.val (asgOf vals)
  overlap : ∀ q k vals keys, E.oracle q k = .sat vals keys → ∀ e, RE e → ∃ v ∈ e.vars, v ∈ keys

/-- the `BVS == constant` shape `_trivial_model_optimization` looks for means what it looks like: the constraint
holds when the variable has the value, and pins the registered expression with the recorded id to the value -/
def TrivOk (R : Con → Prop) (RE : Exp → Prop) : Prop :=
  ∀ c, R c → ∀ v x eid, c.triv = some (v, x, eid) →
    (∀ a : Asg, a v = x → c.sem a = true) ∧
    (∀ e, RE e → e.id = eid → (∀ a : Asg, c.sem a = true → e.val a = x) ∧ (∀ a : Asg, a v = x → e.val a = x))

/-! ### cache look-ups -/

theorem modelSatisfies_iff (E : Env) (m : PModel) (extra : List Con) :
    modelSatisfies E m extra = true ↔ Models extra (m.complete E.dflt) := by
  simp [modelSatisfies, Models, List.all_eq_true]

theorem mem_getModels (E : Env) (fe : Frontend) (extra : List Con) (m : PModel) :
    m ∈ getModels E fe extra ↔ m ∈ fe.models ∧ Models extra (m.complete E.dflt) := by
  simp [getModels, List.mem_filter, modelSatisfies_iff]

theorem getModels_nil (E : Env) (fe : Frontend) : getModels E fe [] = fe.models := by
  simp [getModels, modelSatisfies]

theorem evalList_true (E : Env) (m : PModel) (asts : List Exp) :
    evalList E m asts true = some (asts.map fun e => e.val (m.complete E.dflt)) := by
  simp [evalList]

theorem mem_foldl_listInsert {α : Type} [BEq α] [LawfulBEq α] (l acc : List α) (x : α) :
    x ∈ l.foldl listInsert acc ↔ x ∈ acc ∨ x ∈ l := by
  have := mem_listUnion acc l x
  simpa [listUnion] using this

theorem nodup_listInsert {α : Type} [BEq α] [LawfulBEq α] (l : List α) (x : α) (h : l.Nodup) : (listInsert l x).Nodup := by
  unfold listInsert
  split
  · exact h
  · rename_i hc
    have hx : x ∉ l := by simpa using hc
    rw [List.nodup_append]
    exact ⟨h, by simp, fun a ha b hb => by simp at hb; subst hb; exact fun hab => hx (hab ▸ ha)⟩

theorem nodup_foldl_listInsert {α : Type} [BEq α] [LawfulBEq α] (l acc : List α) (h : acc.Nodup) :
    (l.foldl listInsert acc).Nodup := by
  induction l generalizing acc with
  | nil => exact h
  | cons x xs ih => exact ih _ (nodup_listInsert acc x h)

theorem nodup_listUnion {α : Type} [BEq α] [LawfulBEq α] (l r : List α) (h : l.Nodup) : (listUnion l r).Nodup :=
  nodup_foldl_listInsert r l h

/-- the value tuples the cached models give: exactly the tuples of the cached models that satisfy the extra
constraints (under claripy's completion) -/
theorem mem_allBatchSolutions (E : Env) (fe : Frontend) (asts : List Exp) (extra : List Con) (t : List Nat) :
    t ∈ allBatchSolutions E fe asts extra true ↔
      ∃ m ∈ fe.models, Models extra (m.complete E.dflt) ∧ t = asts.map fun e => e.val (m.complete E.dflt) := by
  unfold allBatchSolutions
  rw [mem_foldl_listInsert]
  simp only [List.not_mem_nil, false_or, List.mem_filterMap, mem_getModels, evalList_true, Option.some.injEq]
  constructor
  · rintro ⟨m, ⟨hm, hx⟩, rfl⟩; exact ⟨m, hm, hx, rfl⟩
  · rintro ⟨m, hm, hx, rfl⟩; exact ⟨m, ⟨hm, hx⟩, rfl⟩

theorem nodup_allBatchSolutions (E : Env) (fe : Frontend) (asts : List Exp) (extra : List Con) :
    (allBatchSolutions E fe asts extra true).Nodup :=
  nodup_foldl_listInsert _ _ List.nodup_nil

/-- the values of one expression the cache gives -/
theorem mem_cachedValues (E : Env) (fe : Frontend) (e : Exp) (extra : List Con) (v : Nat) :
    v ∈ (allBatchSolutions E fe [e] extra true).map (fun t => t.headD 0) ↔
      ∃ m ∈ fe.models, Models extra (m.complete E.dflt) ∧ v = e.val (m.complete E.dflt) := by
  simp only [List.mem_map, mem_allBatchSolutions]
  constructor
  · rintro ⟨t, ⟨m, hm, hx, rfl⟩, rfl⟩; exact ⟨m, hm, hx, rfl⟩
  · rintro ⟨m, hm, hx, rfl⟩; exact ⟨_, ⟨m, hm, hx, rfl⟩, rfl⟩

/-! ### the invariant -/

/-- the flag set `min` / `max` consult -/
def optFlags (isMax signed : Bool) (fe : Frontend) : List Nat :=
  if isMax then (if signed then fe.maxSExh else fe.maxExh) else (if signed then fe.minSExh else fe.minExh)

/-- `key v` is at least as good as `key w` in the direction of the query -/
def Beats (isMax signed : Bool) (bits : Nat) (v w : Nat) : Prop :=
  if isMax then key signed bits w ≤ key signed bits v else key signed bits v ≤ key signed bits w

/-- under `U` the expression takes one value at most (what `_trivial_model_optimization` knows of `BVS` when the sole
constraint is `BVS == constant`) -/
def ConstUnder (U : List Con) (e : Exp) : Prop := ∀ v w, Feasible U e v → Feasible U e w → v = w

theorem ConstUnder.mono {U U' : List Con} {e : Exp} (h : ConstUnder U e) (hf : ∀ v, Feasible U' e v → Feasible U e v) :
    ConstUnder U' e := fun v w hv hw => h v w (hf v hv) (hf w hw)

/-- **the invariant of ModelCacheMixin's state**.  The marker clauses say what the CODE relies on: every reader of a marker
(`batch_eval`: `len(results) > 0 and … in self._eval_exhausted`; `min` / `max`: `if len(cached) > 0`) first makes sure that some
model is cached.  A record with markers and NO cached model exists (`ModelCacheMixin.split` replaces `_models` of a part whose
`_add` just set the markers of its sole `BVS == constant` constraint): there the marker only says that the expression has one
value at most — and that is what makes the marker right again as soon as ANY valid model is cached.  With a model cached the
clause is the old one (`MCInv.evalExh`, `MCInv.opt` below). -/
structure MCInv (RE : Exp → Prop) (E : Env) (U : List Con) (fe : Frontend) : Prop where
  /-- every cached model (completed with the defaults) satisfies the constraints -/
  valid : ∀ m ∈ fe.models, Models U (m.complete E.dflt)
  /-- eval-exhausted: the expression has one value at most, or every value it can take is given by a cached model -/
  evalExhW : ∀ e, RE e → e.id ∈ fe.evalExh →
    ConstUnder U e ∨ ∀ v, Feasible U e v → ∃ m ∈ fe.models, e.val (m.complete E.dflt) = v
  /-- max / min (signed / unsigned) exhausted: one value at most, or no value the expression can take beats all cached ones -/
  optW : ∀ (isMax signed : Bool) e, RE e → e.id ∈ optFlags isMax signed fe →
    ConstUnder U e ∨ ∀ v, Feasible U e v → ∃ m ∈ fe.models, Beats isMax signed e.bits (e.val (m.complete E.dflt)) v

theorem Beats.refl (isMax signed : Bool) (bits v : Nat) : Beats isMax signed bits v v := by
  unfold Beats; split <;> exact Int.le_refl _

/-- **under the guard of the code** (a model is cached) a marker means: every value the expression can take is the value of a
cached model -/
theorem MCInv.evalExh {RE : Exp → Prop} {E : Env} {U : List Con} {fe : Frontend} (h : MCInv RE E U fe) (hne : fe.models ≠ [])
    (e : Exp) (he : RE e) (hi : e.id ∈ fe.evalExh) (v : Nat) (hv : Feasible U e v) :
    ∃ m ∈ fe.models, e.val (m.complete E.dflt) = v := by
  rcases h.evalExhW e he hi with hc | hs
  · obtain ⟨m, ms, hms⟩ := List.exists_cons_of_ne_nil hne
    have hm : m ∈ fe.models := by rw [hms]; simp
    exact ⟨m, hm, hc _ _ ⟨_, h.valid m hm, rfl⟩ hv⟩
  · exact hs v hv

theorem MCInv.opt {RE : Exp → Prop} {E : Env} {U : List Con} {fe : Frontend} (h : MCInv RE E U fe) (hne : fe.models ≠ [])
    (isMax signed : Bool) (e : Exp) (he : RE e) (hi : e.id ∈ optFlags isMax signed fe) (v : Nat) (hv : Feasible U e v) :
    ∃ m ∈ fe.models, Beats isMax signed e.bits (e.val (m.complete E.dflt)) v := by
  rcases h.optW isMax signed e he hi with hc | hs
  · obtain ⟨m, ms, hms⟩ := List.exists_cons_of_ne_nil hne
    have hm : m ∈ fe.models := by rw [hms]; simp
    refine ⟨m, hm, ?_⟩
    rw [hc _ _ ⟨_, h.valid m hm, rfl⟩ hv]
    exact Beats.refl _ _ _ _
  · exact hs v hv

/-- the strong clauses give the invariant -/
theorem MCInv.of_strong {RE : Exp → Prop} {E : Env} {U : List Con} {fe : Frontend}
    (valid : ∀ m ∈ fe.models, Models U (m.complete E.dflt))
    (evalExh : ∀ e, RE e → e.id ∈ fe.evalExh → ∀ v, Feasible U e v → ∃ m ∈ fe.models, e.val (m.complete E.dflt) = v)
    (opt : ∀ (isMax signed : Bool) e, RE e → e.id ∈ optFlags isMax signed fe → ∀ v, Feasible U e v →
      ∃ m ∈ fe.models, Beats isMax signed e.bits (e.val (m.complete E.dflt)) v) : MCInv RE E U fe :=
  ⟨valid, fun e he hi => Or.inr (evalExh e he hi), fun isMax signed e he hi => Or.inr (opt isMax signed e he hi)⟩

theorem mcInv_init (RE : Exp → Prop) (E : Env) (U : List Con) (fe : Frontend) (hm : fe.models = [])
    (h1 : fe.evalExh = []) (h2 : fe.maxExh = []) (h3 : fe.minExh = []) (h4 : fe.maxSExh = []) (h5 : fe.minSExh = []) :
    MCInv RE E U fe := by
  refine ⟨by simp [hm], by simp [h1], ?_⟩
  intro isMax signed e _ hin
  cases isMax <;> cases signed <;> simp [optFlags, h2, h3, h4, h5] at hin

/-- the invariant depends on the constraints only through their models -/
theorem MCInv.congr {RE : Exp → Prop} {E : Env} {U U' : List Con} {fe : Frontend} (h : MCInv RE E U fe)
    (heq : ∀ a, Models U' a ↔ Models U a) : MCInv RE E U' fe := by
  have hf : ∀ e v, Feasible U' e v → Feasible U e v := fun e v ⟨a, ha, hv⟩ => ⟨a, (heq a).mp ha, hv⟩
  exact ⟨fun m hm => (heq _).mpr (h.valid m hm),
         fun e he hi => (h.evalExhW e he hi).imp (·.mono (hf e)) (fun h' v hv => h' v (hf e v hv)),
         fun isMax signed e he hi => (h.optW isMax signed e he hi).imp (·.mono (hf e)) (fun h' v hv => h' v (hf e v hv))⟩

/-- more constraints, the same models, all still valid: the flags stay right -/
theorem MCInv.strengthen {RE : Exp → Prop} {E : Env} {U U' : List Con} {fe : Frontend} (h : MCInv RE E U fe)
    (himp : ∀ a, Models U' a → Models U a) (hv : ∀ m ∈ fe.models, Models U' (m.complete E.dflt)) : MCInv RE E U' fe := by
  have hf : ∀ e v, Feasible U' e v → Feasible U e v := fun e v ⟨a, ha, hv⟩ => ⟨a, himp a ha, hv⟩
  exact ⟨hv, fun e he hi => (h.evalExhW e he hi).imp (·.mono (hf e)) (fun h' v hv => h' v (hf e v hv)),
         fun isMax signed e he hi => (h.optW isMax signed e he hi).imp (·.mono (hf e)) (fun h' v hv => h' v (hf e v hv))⟩

/-- unsatisfiable constraints: any flags, no models -/
theorem mcInv_unsat (RE : Exp → Prop) (E : Env) (U : List Con) (fe : Frontend) (hun : ¬ Satisfiable U)
    (hm : ∀ m ∈ fe.models, Models U (m.complete E.dflt)) : MCInv RE E U fe :=
  ⟨hm, fun _ _ _ => Or.inl fun _ _ ⟨a, ha, _⟩ => (hun ⟨a, ha⟩).elim,
   fun _ _ _ _ _ => Or.inl fun _ _ ⟨a, ha, _⟩ => (hun ⟨a, ha⟩).elim⟩

/-- changing the record outside the mixin's fields -/
theorem MCInv.of_fields {RE : Exp → Prop} {E : Env} {U : List Con} {fe fe' : Frontend} (h : MCInv RE E U fe)
    (hm : fe'.models = fe.models) (h1 : fe'.evalExh = fe.evalExh) (h2 : fe'.maxExh = fe.maxExh)
    (h3 : fe'.minExh = fe.minExh) (h4 : fe'.maxSExh = fe.maxSExh) (h5 : fe'.minSExh = fe.minSExh) : MCInv RE E U fe' := by
  have hof : ∀ isMax signed, optFlags isMax signed fe' = optFlags isMax signed fe := by
    intro isMax signed; simp only [optFlags, h2, h3, h4, h5]
  exact ⟨by rw [hm]; exact h.valid, by rw [hm, h1]; exact h.evalExhW,
         fun isMax signed => by rw [hof, hm]; exact h.optW isMax signed⟩

/-- more cached models (all valid): the flags stay right -/
theorem MCInv.more_models {RE : Exp → Prop} {E : Env} {U : List Con} {fe : Frontend} (h : MCInv RE E U fe)
    (ms : List PModel) (hsub : ∀ m ∈ fe.models, m ∈ ms) (hv : ∀ m ∈ ms, Models U (m.complete E.dflt)) :
    MCInv RE E U { fe with models := ms } := by
  refine ⟨hv, fun e he hi => (h.evalExhW e he hi).imp id fun h' v hv' => ?_,
    fun isMax signed e he hi => (h.optW isMax signed e he (by simpa [optFlags] using hi)).imp id fun h' v hv' => ?_⟩
  · obtain ⟨m, hm, hx⟩ := h' v hv'
    exact ⟨m, hsub m hm, hx⟩
  · obtain ⟨m, hm, hx⟩ := h' v hv'
    exact ⟨m, hsub m hm, hx⟩

/-! ### `_model_hook` -/

/-- ModelCacheMixin._model_hook -/
def mcHook (m : PModel) : M Unit := do
  let fe ← M.getFe
  let m' := m.restrict fe.variables
  if !m'.isEmpty then M.modifyFe fun fe => { fe with models := listInsert fe.models m' }

theorem mcHook_layer (E : Env) (self sup : Ops) : (modelCacheLayer E self sup).modelHook = mcHook := rfl

def mcHookFe (m : PModel) (fe : Frontend) : Frontend :=
  if (m.restrict fe.variables).isEmpty then fe else { fe with models := listInsert fe.models (m.restrict fe.variables) }

theorem mcHook_apply (m : PModel) (s : St) : mcHook m s = (.ok (), { s with fe := mcHookFe m s.fe }) := by
  unfold mcHook mcHookFe
  simp only [bind, M.bind, M.getFe_apply]
  by_cases h : (m.restrict s.fe.variables).isEmpty = true
  · simp [h, pure, M.pure]
  · simp [h, M.modifyFe_apply]

/-- a partial model of constraints whose variables the frontend knows stays a model when restricted to those
variables and completed with the defaults -/
theorem restrict_complete_models {E : Env} {cs : List Con} (wf : ∀ c ∈ cs, ConWf c) (vars : List Var)
    (hv : ∀ c ∈ cs, ∀ v ∈ c.vars, v ∈ vars) (m : PModel) (hm : ∀ a, Agrees a m → Models cs a) :
    Models cs ((m.restrict vars).complete E.dflt) := by
  -- the assignment that follows `m` where `m` speaks and the restricted completion elsewhere
  let a : Asg := fun v => (m.get? v).getD (((m.restrict vars).complete E.dflt) v)
  have ha : Agrees a m := fun v x hx => by simp [a, hx]
  intro c hc
  rw [← hm a ha c hc]
  apply (wf c hc).1
  intro v hvc
  have hin := hv c hc v hvc
  simp only [a, PModel.complete_apply, PModel.get?_restrict, hin, ↓reduceIte]
  cases m.get? v <;> simp

/-- the hook keeps the invariant when it is handed a partial model of constraints that mean what the user's
constraints mean and mention known variables only -/
theorem mcHookFe_inv {RE : Exp → Prop} {E : Env} {U : List Con} {fe : Frontend} (h : MCInv RE E U fe) (m : PModel)
    (cs : List Con) (wf : ∀ c ∈ cs, ConWf c) (hv : ∀ c ∈ cs, ∀ v ∈ c.vars, v ∈ fe.variables)
    (heq : ∀ a, Models cs a ↔ Models U a) (hm : ∀ a, Agrees a m → Models cs a) : MCInv RE E U (mcHookFe m fe) := by
  unfold mcHookFe
  split
  · exact h
  · refine h.more_models _ (fun m' hm' => (mem_listInsert _ _ _).mpr (Or.inl hm')) ?_
    intro m' hm'
    rcases (mem_listInsert _ _ _).mp hm' with hm' | rfl
    · exact h.valid m' hm'
    · exact (heq _).mp (restrict_complete_models wf fe.variables hv m hm)

theorem mcHookFe_fields (m : PModel) (fe : Frontend) :
    mcHookFe m fe = { fe with models := (mcHookFe m fe).models } := by
  unfold mcHookFe; split <;> rfl

theorem mcHookFe_models_mono (m : PModel) (fe : Frontend) : ∀ m' ∈ fe.models, m' ∈ (mcHookFe m fe).models := by
  intro m' hm'
  unfold mcHookFe; split
  · exact hm'
  · exact (mem_listInsert _ _ _).mpr (Or.inl hm')

/-! ### `_get_batch_solutions(asts, n, …)` -/

theorem subset_of_nodup_length {α : Type} {l m : List α} (hl : l.Nodup) (hs : ∀ x ∈ l, x ∈ m)
    (hlen : m.length ≤ l.length) : ∀ x ∈ m, x ∈ l := by
  have := (List.subperm_of_subset hl (fun x hx => hs x hx)).perm_of_length_le hlen
  exact fun x hx => this.symm.subset hx

/-- **PickOk**: the recorded choice among DISTINCT cached solutions is one the code can make (`PickValid` of Basic.lean asks the
same of lists with repetitions, which nothing can satisfy; the cached tuples form a set) -/
def PickOk (E : Env) : Prop :=
  ∀ all n k, all.Nodup → subsetB (E.pick all n k) all = true ∧ (E.pick all n k).length = min n all.length ∧
    (E.pick all n k).foldl listInsert [] = E.pick all n k

/-- with a valid recorded choice: `min n |all|` distinct cached tuples; only the event counter moves -/
theorem getBatchSolutions_spec {E : Env} (hP : PickOk E) (asts : List Exp) (n : Nat) (extra : List Con) (s : St) :
    ∃ chosen, getBatchSolutions E asts n extra s = (.ok chosen, { s with tick := s.tick + 1 }) ∧
      (∀ t ∈ chosen, t ∈ allBatchSolutions E s.fe asts extra true) ∧
      chosen.length = min n (allBatchSolutions E s.fe asts extra true).length ∧ chosen.Nodup ∧
      (chosen.length < n → ∀ t ∈ allBatchSolutions E s.fe asts extra true, t ∈ chosen) := by
  obtain ⟨h1, h2, h3⟩ := hP (allBatchSolutions E s.fe asts extra true) n s.tick (nodup_allBatchSolutions E s.fe asts extra)
  have hsub : ∀ t ∈ E.pick (allBatchSolutions E s.fe asts extra true) n s.tick,
      t ∈ allBatchSolutions E s.fe asts extra true := by
    intro t ht
    have := List.all_eq_true.mp h1 t ht
    simpa using this
  have hnd : (E.pick (allBatchSolutions E s.fe asts extra true) n s.tick).Nodup := by
    rw [← h3]; exact nodup_foldl_listInsert _ _ List.nodup_nil
  refine ⟨E.pick (allBatchSolutions E s.fe asts extra true) n s.tick, ?_, hsub, h2, hnd, ?_⟩
  · simp only [getBatchSolutions, bind, M.bind, M.get_apply, M.modify_apply, h1, h2, h3, beq_self_eq_true,
      Bool.and_self, ↓reduceIte, pure, M.pure]
  · intro hlt
    exact subset_of_nodup_length hnd hsub (by omega)

/-! ### `min(cached, key=…)` / `max(cached, key=…)` -/

theorem pickBy_spec (isMax : Bool) (keyf : Nat → Int) (l : List Nat) :
    match pickBy (if isMax then (fun a b => decide (a > b)) else (fun a b => decide (a < b))) keyf l with
    | none => l = []
    | some v => v ∈ l ∧ ∀ w ∈ l, if isMax then keyf w ≤ keyf v else keyf v ≤ keyf w := by
  cases l with
  | nil => simp [pickBy]
  | cons v rest =>
    simp only [pickBy]
    -- generalised over the running best
    have key : ∀ (rest : List Nat) (best : Nat) (seen : List Nat), best ∈ seen →
        (∀ w ∈ seen, if isMax then keyf w ≤ keyf best else keyf best ≤ keyf w) →
        let r := rest.foldl (fun best w =>
          if (if isMax then (fun a b => decide (a > b)) else (fun a b => decide (a < b))) (keyf w) (keyf best) then w else best) best
        r ∈ seen ++ rest ∧ ∀ w ∈ seen ++ rest, if isMax then keyf w ≤ keyf r else keyf r ≤ keyf w := by
      intro rest
      induction rest with
      | nil => intro best seen hb hs; simpa using ⟨hb, hs⟩
      | cons x xs ih =>
        intro best seen hb hs
        simp only [List.foldl_cons]
        by_cases hx : (if isMax then (fun a b => decide (a > b)) else (fun a b => decide (a < b))) (keyf x) (keyf best) = true
        · rw [if_pos hx]
          have := ih x (seen ++ [x]) (by simp) (by
            intro w hw
            rcases List.mem_append.mp hw with hw | hw
            · have := hs w hw
              cases isMax <;> simp at hx this ⊢ <;> omega
            · simp at hw; subst hw; cases isMax <;> simp)
          simpa [List.append_assoc] using this
        · rw [if_neg hx]
          have := ih best (seen ++ [x]) (by simp [hb]) (by
            intro w hw
            rcases List.mem_append.mp hw with hw | hw
            · exact hs w hw
            · simp at hw; subst hw
              cases isMax <;> simp at hx ⊢ <;> omega)
          simpa [List.append_assoc] using this
    have := key rest v [v] (by simp) (by intro w hw; simp at hw; subst hw; cases isMax <;> simp)
    simpa using this

/-! ### the fast paths: answers served from the cache are allowed answers -/

section fast
variable {RE : Exp → Prop} {E : Env} {U : List Con}

/-- a cached value of `e` (from a model that satisfies the extra constraints) is a value `e` can take -/
theorem cached_feasible {fe : Frontend} (h : MCInv RE E U fe) (e : Exp) (extra : List Con) (m : PModel)
    (hm : m ∈ fe.models) (hx : Models extra (m.complete E.dflt)) : Feasible (U ++ extra) e (e.val (m.complete E.dflt)) :=
  ⟨_, models_append.mpr ⟨h.valid m hm, hx⟩, rfl⟩

theorem cachedT_feasible {fe : Frontend} (h : MCInv RE E U fe) (asts : List Exp) (extra : List Con) (t : List Nat)
    (ht : t ∈ allBatchSolutions E fe asts extra true) : FeasibleT (U ++ extra) asts t := by
  obtain ⟨m, hm, hx, rfl⟩ := (mem_allBatchSolutions E fe asts extra t).mp ht
  exact ⟨_, models_append.mpr ⟨h.valid m hm, hx⟩, rfl⟩

/-- **satisfiable, from the cache**: a cached model that satisfies the extra constraints makes the mixin answer `True`
without asking anybody — and `True` is right -/
theorem mc_satisfiable_fast {self sup : Ops} {s : St} (h : MCInv RE E U s.fe) (extra : List Con)
    (hne : (getModels E s.fe extra).isEmpty = false) :
    (modelCacheLayer E self sup).satisfiable extra s = (.ok true, s) ∧ Judge U (.satisfiable extra) (.bool true) := by
  refine ⟨?_, ?_⟩
  · show (do let fe ← M.getFe; if !(getModels E fe extra).isEmpty then pure true else sup.satisfiable extra : M Bool) s = _
    simp [bind, M.bind, hne, pure, M.pure]
  · simp only [Judge, true_iff]
    cases hg : getModels E s.fe extra with
    | nil => simp [hg] at hne
    | cons m _ =>
      have hm : m ∈ getModels E s.fe extra := by rw [hg]; simp
      obtain ⟨hm1, hm2⟩ := (mem_getModels E s.fe extra m).mp hm
      exact ⟨_, models_append.mpr ⟨h.valid m hm1, hm2⟩⟩

/-- **solution, from the cache** -/
theorem mc_solution_fast {self sup : Ops} {s : St} (h : MCInv RE E U s.fe) (e : Exp) (hc : e.conc = none) (v : Nat)
    (extra : List Con)
    (hin : ((allBatchSolutions E s.fe [e] extra true).map fun t => t.headD 0).contains v = true) :
    (modelCacheLayer E self sup).solution e v extra s = (.ok true, s) ∧ Judge U (.solution e v extra) (.bool true) := by
  refine ⟨?_, ?_⟩
  · show (do let fe ← M.getFe
             let cached := (allBatchSolutions E fe [e] extra true).map fun t => t.headD 0
             if cached.contains v then pure true else sup.solution e v extra : M Bool) s = _
    simp only [bind, M.bind, M.getFe_apply, hin, ↓reduceIte, pure, M.pure]
  · simp only [Judge, hc, true_iff]
    have hmem : v ∈ (allBatchSolutions E s.fe [e] extra true).map fun t => t.headD 0 := by simpa using hin
    obtain ⟨m, hm, hx, rfl⟩ := (mem_cachedValues E s.fe e extra v).mp hmem
    exact cached_feasible h e extra m hm hx

/-- what `min` / `max` return from the cache is the optimum -/
theorem cached_opt {fe : Frontend} (hR : ExpReg RE) (h : MCInv RE E U fe) (isMax signed : Bool) (e : Exp) (he : RE e)
    (hfl : e.id ∈ fe.evalExh ∨ e.id ∈ optFlags isMax signed fe) (v : Nat)
    (hv : pickBy (if isMax then (fun a b => decide (a > b)) else (fun a b => decide (a < b))) (key signed e.bits)
      ((allBatchSolutions E fe [e] [] true).map fun t => t.headD 0) = some v) :
    IsOpt isMax signed U e (v : Int) := by
  have hp := pickBy_spec isMax (key signed e.bits) ((allBatchSolutions E fe [e] [] true).map fun t => t.headD 0)
  rw [hv] at hp
  obtain ⟨hvin, hbest⟩ := hp
  obtain ⟨m, hm, _, rfl⟩ := (mem_cachedValues E fe e [] v).mp hvin
  have hlt : e.val (m.complete E.dflt) < 2 ^ e.bits := (hR.wf e he).2 _
  have hw : wrap e.bits ((e.val (m.complete E.dflt) : Nat) : Int) = e.val (m.complete E.dflt) := wrap_nat _ _ hlt
  refine ⟨by rw [hw]; exact ⟨_, h.valid m hm, rfl⟩, fun w hw' => ?_⟩
  rw [hw]
  -- some cached value is at least as good as `w`, and the picked one is at least as good as every cached value
  have hne : fe.models ≠ [] := List.ne_nil_of_mem hm
  have hex : ∃ m' ∈ fe.models, Beats isMax signed e.bits (e.val (m'.complete E.dflt)) w := by
    rcases hfl with hfl | hfl
    · obtain ⟨m', hm', hx⟩ := h.evalExh hne e he hfl w hw'
      refine ⟨m', hm', ?_⟩
      rw [hx]; unfold Beats; split <;> exact Int.le_refl _
    · exact h.opt hne isMax signed e he hfl w hw'
  obtain ⟨m', hm', hb⟩ := hex
  have := hbest (e.val (m'.complete E.dflt)) ((mem_cachedValues E fe e [] _).mpr ⟨m', hm', by simp [Models], rfl⟩)
  unfold Beats at hb
  cases isMax <;> simp only [Bool.false_eq_true, ↓reduceIte] at this hb ⊢ <;> omega

/-- **min / max, from the cache**: an expression flagged (eval- or optimum-) exhausted, no extra constraints, some
model cached: the mixin answers from the cached values, and the answer is the optimum the specification demands -/
theorem mc_extremum_fast {sup : Ops} {s : St} (hR : ExpReg RE) (h : MCInv RE E U s.fe) (isMax signed : Bool) (e : Exp)
    (he : RE e) (hc : e.conc = none) (hfl : e.id ∈ s.fe.evalExh ∨ e.id ∈ optFlags isMax signed s.fe)
    (hne : s.fe.models ≠ []) :
    ∃ i, modelCacheExtremum E sup isMax e [] signed s = (.ok i, s) ∧
      Judge U (if isMax then .max e [] signed else .min e [] signed) (.int i) := by
  have hcond : (([] : List Con).isEmpty && (s.fe.evalExh.contains e.id ||
      (if isMax then (if signed then s.fe.maxSExh else s.fe.maxExh)
       else (if signed then s.fe.minSExh else s.fe.minExh)).contains e.id)) = true := by
    rcases hfl with hfl | hfl
    · simp [hfl]
    · have : (if isMax then (if signed then s.fe.maxSExh else s.fe.maxExh)
       else (if signed then s.fe.minSExh else s.fe.minExh)) = optFlags isMax signed s.fe := rfl
      rw [this]; simp [hfl]
  have hp := pickBy_spec isMax (key signed e.bits) ((allBatchSolutions E s.fe [e] [] true).map fun t => t.headD 0)
  cases hpick : pickBy (if isMax then (fun a b => decide (a > b)) else (fun a b => decide (a < b))) (key signed e.bits)
      ((allBatchSolutions E s.fe [e] [] true).map fun t => t.headD 0) with
  | none =>
    rw [hpick] at hp
    exfalso
    obtain ⟨m, ms, hms⟩ := List.exists_cons_of_ne_nil hne
    have : e.val (m.complete E.dflt) ∈ (allBatchSolutions E s.fe [e] [] true).map fun t => t.headD 0 :=
      (mem_cachedValues E s.fe e [] _).mpr ⟨m, by rw [hms]; simp, by simp [Models], rfl⟩
    rw [hp] at this
    simp at this
  | some v =>
    refine ⟨(v : Int), ?_, ?_⟩
    · unfold modelCacheExtremum
      simp only [bind, M.bind, M.getFe_apply, hcond, ↓reduceIte, hpick, pure, M.pure]
    · have hopt := cached_opt hR h isMax signed e he hfl v hpick
      cases isMax <;> simpa [Judge, hc] using hopt

/-- what property C11 demands of a `batch_eval` answer (symbolic expressions) -/
def TuplesOk (cs : List Con) (es : List Exp) (n : Nat) (ts : List (List Nat)) : Prop :=
  (∀ t ∈ ts, FeasibleT cs es t) ∧ ts.Nodup ∧ ts.length ≤ n ∧ (∀ t, FeasibleT cs es t → t ∈ ts ∨ ts.length = n)

/-- `eval` is `batch_eval` of one expression -/
theorem evalOk_of_tuples {cs : List Con} {e : Exp} {n : Nat} {ts : List (List Nat)} (hc : e.conc = none)
    (h : TuplesOk cs [e] n ts) : EvalOk cs e n (ts.map fun t => t.headD 0) := by
  obtain ⟨hf, hnd, hlen, hcomp⟩ := h
  have hsing : ∀ t ∈ ts, ∃ a, Models cs a ∧ t = [e.val a] := by
    intro t ht
    obtain ⟨a, ha, hat⟩ := hf t ht
    exact ⟨a, ha, by simpa using hat.symm⟩
  simp only [EvalOk, hc]
  refine ⟨?_, ?_, by simpa using hlen, ?_⟩
  · intro v hv
    obtain ⟨t, ht, rfl⟩ := List.mem_map.mp hv
    obtain ⟨a, ha, rfl⟩ := hsing t ht
    exact ⟨a, ha, by simp⟩
  · refine nodup_map_on ?_ hnd
    intro x hx y hy hxy
    obtain ⟨a, _, rfl⟩ := hsing x hx
    obtain ⟨b, _, rfl⟩ := hsing y hy
    simp at hxy
    simp [hxy]
  · intro v ⟨a, ha, hv⟩
    rcases hcomp [e.val a] ⟨a, ha, rfl⟩ with h | h
    · left; exact List.mem_map.mpr ⟨_, h, by simp [hv]⟩
    · right; simpa using h

/-- the condition under which `batch_eval` answers from the cache alone -/
def BatchFast (E : Env) (fe : Frontend) (asts : List Exp) (n : Nat) (extra : List Con) : Prop :=
  n ≤ (allBatchSolutions E fe asts extra true).length ∨
  (allBatchSolutions E fe asts extra true ≠ [] ∧ extra = [] ∧ ∃ e, asts = [e] ∧ e.id ∈ fe.evalExh)

/-- **eval / batch_eval, from the cache**: enough cached tuples, or one expression flagged eval-exhausted (no extra
constraints, a model cached): the answer comes from the cache and is what the specification demands -/
theorem mc_batchEval_fast {sup : Ops} {s : St} (hP : PickOk E) (h : MCInv RE E U s.fe) (asts : List Exp)
    (hre : ∀ e ∈ asts, RE e) (n : Nat) (extra : List Con) (hfast : BatchFast E s.fe asts n extra) :
    ∃ ts, modelCacheBatchEval E sup asts n extra s = (.ok ts, { s with tick := s.tick + 1 }) ∧
      TuplesOk (U ++ extra) asts n ts ∧ (∀ t ∈ ts, t ∈ allBatchSolutions E s.fe asts extra true) ∧
      ts.length = min n (allBatchSolutions E s.fe asts extra true).length := by
  obtain ⟨chosen, hrun, hsub, hlen, hnd, hall⟩ := getBatchSolutions_spec hP asts n extra s
  have hfeas : ∀ t ∈ chosen, FeasibleT (U ++ extra) asts t := fun t ht => cachedT_feasible h asts extra t (hsub t ht)
  refine ⟨chosen, ?_, ⟨hfeas, hnd, by omega, ?_⟩, hsub, hlen⟩
  · unfold modelCacheBatchEval
    simp only [bind, M.bind, hrun, M.getFe_apply]
    by_cases hn : chosen.length = n
    · simp [hn, pure, M.pure]
    · rcases hfast with hge | ⟨hne, hex, e, rfl, hfl⟩
      · omega
      · have hcne : chosen.isEmpty = false := by
          cases hc : chosen with
          | nil =>
            exfalso
            rw [hc] at hlen
            simp only [List.length_nil] at hlen
            have h0 : (allBatchSolutions E s.fe [e] extra true).length = 0 := by
              rw [hc] at hn; simp only [List.length_nil] at hn; omega
            exact hne (List.length_eq_zero_iff.mp h0)
          | cons _ _ => rfl
        subst hex
        simp [hcne, hfl, pure, M.pure]
  · intro t ht
    by_cases hlt : chosen.length < n
    · left
      rcases hfast with hge | ⟨hne, hex, e, rfl, hfl⟩
      · omega
      · -- exhausted: the value is given by a cached model, and all cached tuples were taken
        subst hex
        obtain ⟨a, ha, rfl⟩ := ht
        have hUa : Models U a := (models_append.mp ha).1
        have hne' : s.fe.models ≠ [] := by
          intro h0
          apply hne
          cases hall0 : allBatchSolutions E s.fe [e] [] true with
          | nil => rfl
          | cons t _ =>
            obtain ⟨m, hm, _⟩ := (mem_allBatchSolutions E s.fe [e] [] t).mp (by rw [hall0]; simp)
            rw [h0] at hm; cases hm
        obtain ⟨m, hm, hx⟩ := h.evalExh hne' e (hre e (by simp)) hfl (e.val a) ⟨a, hUa, rfl⟩
        refine hall hlt _ ((mem_allBatchSolutions E s.fe [e] [] _).mpr ⟨m, hm, by simp [Models], ?_⟩)
        simp [hx]
    · right; omega

/-- the same for `eval` in the form of `Judge` -/
theorem mc_eval_fast {self sup : Ops} {s : St} (hP : PickOk E) (h : MCInv RE E U s.fe) (e : Exp) (he : RE e)
    (hc : e.conc = none) (n : Nat) (extra : List Con) (hfast : BatchFast E s.fe [e] n extra) :
    ∃ vs, (modelCacheLayer E self sup).eval e n extra s = (.ok vs, { s with tick := s.tick + 1 }) ∧
      Judge U (.eval e n extra) (.vals vs) := by
  obtain ⟨ts, hrun, hok, _, _⟩ := mc_batchEval_fast (sup := sup) hP h [e] (by simpa using he) n extra hfast
  refine ⟨ts.map fun t => t.headD 0, ?_, ?_⟩
  · show (do let rs ← modelCacheBatchEval E sup [e] n extra; pure (rs.map fun t => t.headD 0) : M (List Nat)) s = _
    simp only [bind, M.bind, hrun, pure, M.pure]
  · have := evalOk_of_tuples hc hok
    simpa [Judge, EvalOk, hc] using this

end fast

end Claripy.Solver
