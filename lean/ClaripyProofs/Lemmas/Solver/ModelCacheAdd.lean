import ClaripyProofs.Lemmas.Solver.ModelCacheOps
/-!
ModelCacheMixin, part 3: `_add` (the trivial-model optimisation, the re-validation of the cached models against the added
constraints, the clearing of the flags), `simplify`, `branch` / `_copy`, and pickling keep the cache invariant.
-/
namespace Claripy.Solver

variable {R : Con → Prop} {RE : Exp → Prop} {E : Env} {G : St → Prop} {U : List Con}

/-- the cache between `super()._add` and the re-validation: the models are still only known to satisfy the OLD
constraints `U`, the flags are already right for the new ones `U'` -/
structure MCHalf (RE : Exp → Prop) (E : Env) (U U' : List Con) (fe : Frontend) : Prop where
  valid : ∀ m ∈ fe.models, Models U (m.complete E.dflt)
  evalExh : ∀ e, RE e → e.id ∈ fe.evalExh →
    ConstUnder U' e ∨ ∀ v, Feasible U' e v → ∃ m ∈ fe.models, e.val (m.complete E.dflt) = v
  opt : ∀ (isMax signed : Bool) e, RE e → e.id ∈ optFlags isMax signed fe →
    ConstUnder U' e ∨ ∀ v, Feasible U' e v → ∃ m ∈ fe.models, Beats isMax signed e.bits (e.val (m.complete E.dflt)) v

theorem MCInv.half {U' : List Con} {fe : Frontend} (h : MCInv RE E U fe) (himp : ∀ a, Models U' a → Models U a) :
    MCHalf RE E U U' fe :=
  have hf : ∀ e v, Feasible U' e v → Feasible U e v := fun _ _ ⟨a, ha, hv⟩ => ⟨a, himp a ha, hv⟩
  ⟨h.valid, fun e he hi => (h.evalExhW e he hi).imp (·.mono (hf e)) (fun h' v hv => h' v (hf e v hv)),
   fun isMax signed e he hi => (h.optW isMax signed e he hi).imp (·.mono (hf e)) (fun h' v hv => h' v (hf e v hv))⟩

theorem MCHalf.full {U' : List Con} {fe : Frontend} (h : MCHalf RE E U U' fe)
    (hv : ∀ m ∈ fe.models, Models U' (m.complete E.dflt)) : MCInv RE E U' fe := ⟨hv, h.evalExh, h.opt⟩

theorem filter_length_eq {α : Type} (p : α → Bool) (l : List α) (h : (l.filter p).length = l.length) :
    ∀ x ∈ l, p x = true := by
  induction l with
  | nil => simp
  | cons y ys ih =>
    intro x hx
    by_cases hy : p y = true
    · simp only [List.filter_cons, hy, ↓reduceIte, List.length_cons, Nat.add_right_cancel_iff] at h
      rcases List.mem_cons.mp hx with rfl | hx
      · exact hy
      · exact ih h x hx
    · simp only [List.filter_cons, hy, Bool.false_eq_true, ↓reduceIte, List.length_cons] at h
      have := List.length_filter_le p ys
      omega

/-! ### `_trivial_model_optimization` -/

theorem trivOptFe_fields (fe : Frontend) :
    trivOptFe fe = { fe with models := (trivOptFe fe).models, evalExh := (trivOptFe fe).evalExh,
                             maxExh := (trivOptFe fe).maxExh, minExh := (trivOptFe fe).minExh,
                             maxSExh := (trivOptFe fe).maxSExh, minSExh := (trivOptFe fe).minSExh } := by
  unfold trivOptFe
  split
  · split <;> rfl
  · rfl

theorem trivOptFe_mono (fe : Frontend) : ∀ m ∈ fe.models, m ∈ (trivOptFe fe).models := by
  intro m hm
  unfold trivOptFe
  split
  · split
    · exact (mem_listInsert _ _ _).mpr (Or.inl hm)
    · exact hm
  · exact hm

/-- after the optimisation the flags are right for the new constraints `U'` (the constraints the frontend holds) -/
theorem trivOptFe_half (hT : TrivOk R RE) {U' : List Con} {fe : Frontend} (h : MCInv RE E U fe)
    (himp : ∀ a, Models U' a → Models U a) (hcR : ∀ c ∈ fe.constraints, R c)
    (heq : ∀ a, Models fe.constraints a ↔ Models U' a) : MCHalf RE E U U' (trivOptFe fe) := by
  unfold trivOptFe
  by_cases hc : (fe.constraints.length == 1 && fe.models.isEmpty) = true
  · rw [if_pos hc]
    simp only [Bool.and_eq_true, beq_iff_eq, List.isEmpty_iff] at hc
    obtain ⟨hlen, hmod⟩ := hc
    cases ht : (fe.constraints.headD default).triv with
    | none => exact h.half himp
    | some p =>
      obtain ⟨v, x, eid⟩ := p
      simp only
      -- the one constraint
      obtain ⟨c, hcs⟩ : ∃ c, fe.constraints = [c] := by
        match hfc : fe.constraints, hlen with
        | [c], _ => exact ⟨c, rfl⟩
      have hhead : fe.constraints.headD default = c := by rw [hcs]; rfl
      rw [hhead] at ht
      obtain ⟨h1, h2⟩ := hT c (hcR c (by rw [hcs]; simp)) v x eid ht
      have hval : ∀ a, Models U' a → c.sem a = true := fun a ha => (heq a).mpr ha c (by rw [hcs]; simp)
      have hcompl : (PModel.complete E.dflt [(v, x)]) v = x := by
        simp [PModel.complete, PModel.get?]
      have hmods : listInsert fe.models [(v, x)] = [[(v, x)]] := by rw [hmod]; rfl
      have hhalf := h.half (U' := U') himp
      refine ⟨?_, ?_, ?_⟩
      · intro m hm
        simp only [hmods, List.mem_singleton] at hm
        subst hm
        exact himp _ ((heq _).mp (by rw [hcs]; intro c' hc'; simp at hc'; subst hc'; exact h1 _ hcompl))
      · intro e he hi
        simp only [mem_listInsert] at hi
        rcases hi with hi | hi
        · -- flagged before, no model cached: one value at most
          rcases hhalf.evalExh e he hi with hc' | hs
          · exact Or.inl hc'
          · refine Or.inl fun v w hv _ => ?_
            obtain ⟨m, hm, _⟩ := hs v hv
            rw [hmod] at hm; cases hm
        · obtain ⟨h3, _⟩ := h2 e he hi
          refine Or.inl fun v w ⟨a, ha, hva⟩ ⟨b, hb, hwb⟩ => ?_
          rw [← hva, ← hwb, h3 a (hval a ha), h3 b (hval b hb)]
      · intro isMax signed e he hi
        have hi' : e.id ∈ optFlags isMax signed fe ∨ e.id = eid := by
          cases isMax <;> cases signed <;> simpa [optFlags, mem_listInsert] using hi
        rcases hi' with hi' | hi'
        · rcases hhalf.opt isMax signed e he hi' with hc' | hs
          · exact Or.inl hc'
          · refine Or.inl fun v w hv _ => ?_
            obtain ⟨m, hm, _⟩ := hs v hv
            rw [hmod] at hm; cases hm
        · obtain ⟨h3, _⟩ := h2 e he hi'
          refine Or.inl fun v w ⟨a, ha, hva⟩ ⟨b, hb, hwb⟩ => ?_
          rw [← hva, ← hwb, h3 a (hval a ha), h3 b (hval b hb)]
  · rw [if_neg hc]
    exact h.half himp

/-! ### re-validation of the cached models -/

theorem invalFe_fields (E : Env) (cs added : List Con) (fe : Frontend) :
    invalFe E cs added fe = { fe with models := (invalFe E cs added fe).models, evalExh := (invalFe E cs added fe).evalExh,
                                      maxExh := (invalFe E cs added fe).maxExh, minExh := (invalFe E cs added fe).minExh,
                                      maxSExh := (invalFe E cs added fe).maxSExh, minSExh := (invalFe E cs added fe).minSExh } := by
  unfold invalFe
  by_cases hf : cs.any (·.isFalse) = true
  · simp only [hf, ↓reduceIte]
    split <;> rfl
  · simp only [hf, Bool.false_eq_true, ↓reduceIte]
    split <;> rfl

theorem invalFe_inv {U' : List Con} {cs added : List Con} {fe : Frontend} (h : MCHalf RE E U U' fe)
    (hU' : ∀ a, Models U' a ↔ Models U a ∧ Models added a) (hfalse : cs.any (·.isFalse) = true → ¬ Satisfiable U') :
    MCInv RE E U' (invalFe E cs added fe) := by
  unfold invalFe
  by_cases hf : cs.any (·.isFalse) = true
  · simp only [hf, ↓reduceIte]
    have : getModels E { fe with models := [] } added = [] := by simp [getModels]
    simp only [this, List.length_nil, bne_self_eq_false, Bool.false_eq_true, ↓reduceIte]
    exact mcInv_unsat RE E U' _ (hfalse hf) (by simp)
  · simp only [hf, Bool.false_eq_true, ↓reduceIte]
    by_cases hl : ((getModels E fe added).length != fe.models.length) = true
    · rw [if_pos hl]
      refine ⟨?_, ?_, ?_⟩
      · intro m hm
        obtain ⟨hm1, hm2⟩ := (mem_getModels E fe added m).mp hm
        exact (hU' _).mpr ⟨h.valid m hm1, hm2⟩
      · intro e _ hi; simp [clearFlags] at hi
      · intro isMax signed e _ hi
        cases isMax <;> cases signed <;> simp [optFlags, clearFlags] at hi
    · rw [if_neg hl]
      have hl' : ((fe.models.filter fun m => modelSatisfies E m added)).length = fe.models.length := by
        simpa [getModels] using hl
      have hall := filter_length_eq _ _ hl'
      exact h.full fun m hm => (hU' _).mpr ⟨h.valid m hm, (modelSatisfies_iff E m added).mp (hall m hm)⟩

theorem invalFe_keep (hR : Reg R E) {cs added : List Con} (hcs : ∀ c ∈ cs, R c) (hsub : ∀ c ∈ added, c ∈ cs)
    (fe : Frontend) : ∀ m ∈ fe.models, Models cs (m.complete E.dflt) → m ∈ (invalFe E cs added fe).models := by
  intro m hm hmc
  have hma : Models added (m.complete E.dflt) := fun c hc => hmc c (hsub c hc)
  unfold invalFe
  by_cases hf : cs.any (·.isFalse) = true
  · exfalso
    obtain ⟨c, hc, hcf⟩ := List.any_eq_true.mp hf
    have := hmc c hc
    rw [(hR.wf c (hcs c hc)).2.1 hcf _] at this
    exact absurd this (by simp)
  · simp only [hf, Bool.false_eq_true, ↓reduceIte]
    split
    · exact (mem_getModels E fe added m).mpr ⟨hm, hma⟩
    · exact hm

theorem mcAfterAddFe_fields (E : Env) (oldVars : List Var) (cs : List Con) (inv : Bool) (added : List Con) (fe : Frontend) :
    mcAfterAddFe E oldVars cs inv added fe =
      { fe with models := (mcAfterAddFe E oldVars cs inv added fe).models,
                evalExh := (mcAfterAddFe E oldVars cs inv added fe).evalExh,
                maxExh := (mcAfterAddFe E oldVars cs inv added fe).maxExh,
                minExh := (mcAfterAddFe E oldVars cs inv added fe).minExh,
                maxSExh := (mcAfterAddFe E oldVars cs inv added fe).maxSExh,
                minSExh := (mcAfterAddFe E oldVars cs inv added fe).minSExh } := by
  unfold mcAfterAddFe
  split
  · have h1 := invalFe_fields E cs added (trivOptFe fe)
    have h2 := trivOptFe_fields fe
    rw [h1]
    rw [h2]
  · exact trivOptFe_fields fe

/-! ### the layer -/

/-- what ModelCacheMixin._add assumes of `super()._add` (FullFrontend._add over ConstrainedFrontend._add in every class):
it always returns, reports what it really added, and leaves the fields of the caching mixins alone -/
def LowAdd0 (add : List Con → Bool → M (List Con)) : Prop :=
  ∀ s cs inv, ∃ new s', add cs inv s = (.ok new, s') ∧ AddRel s s' cs new ∧ mcFields s'.fe = mcFields s.fe ∧
    s'.fe.cachedSat = s.fe.cachedSat ∧ s'.fe.hashes = s.fe.hashes

theorem mcFields_eq {fe fe' : Frontend} (h : mcFields fe' = mcFields fe) :
    fe'.models = fe.models ∧ fe'.evalExh = fe.evalExh ∧ fe'.maxExh = fe.maxExh ∧ fe'.minExh = fe.minExh ∧
    fe'.maxSExh = fe.maxSExh ∧ fe'.minSExh = fe.minSExh := by
  simp only [mcFields, Prod.mk.injEq] at h
  exact h

/-- **ModelCacheMixin._add** keeps the cache invariant, for the constraints the user then has.  `invalidate_cache=False`
(ConstraintExpansionMixin) is only sound for constraints the old ones imply — that is the hypothesis `himp`. -/
theorem mc_add_spec (hR : Reg R E) (hT : TrivOk R RE) {self sup : Ops} (hsup : LowAdd0 sup.add) (s : St)
    (hb : BInv R G U s) (hmc : MCInv RE E U s.fe) (cs : List Con) (inv : Bool) (hcs : ∀ c ∈ cs, R c)
    (himp : inv = false → ∀ a, Models U a → Models cs a) :
    ∃ new s', (modelCacheLayer E self sup).add cs inv s = (.ok new, s') ∧ AddRel s s' cs new ∧
      MCInv RE E (U ++ new) s'.fe ∧ KeepAdd E s s' cs ∧ s'.fe.cachedSat = s.fe.cachedSat ∧ s'.fe.hashes = s.fe.hashes := by
  rw [mcAdd_eq]
  by_cases hemp : cs.isEmpty = true
  · have : cs = [] := by simpa using hemp
    subst this
    refine ⟨[], s, by simp, ⟨by simp, by simp, rfl, rfl, rfl, rfl, rfl, by simp, by simp, by simp, fun i h => Or.inl h⟩,
      by simpa using hmc, fun m hm _ => hm, rfl, rfl⟩
  · simp only [hemp, Bool.false_eq_true, ↓reduceIte]
    obtain ⟨new, s1, hrun, hrel, hmcf, hcsat, hhash⟩ := hsup s cs inv
    obtain ⟨f1, f2, f3, f4, f5, f6⟩ := mcFields_eq hmcf
    rw [hrun]
    simp only
    have himpU : ∀ a, Models (U ++ new) a → Models U a := fun a ha => (models_append.mp ha).1
    have hmc1 : MCInv RE E U s1.fe := hmc.of_fields f1 f2 f3 f4 f5 f6
    by_cases hne : new.isEmpty = true
    · have : new = [] := by simpa using hne
      subst this
      simp only [List.isEmpty_nil, ↓reduceIte]
      exact ⟨[], s1, rfl, hrel, by simpa using hmc1, fun m hm _ => by rw [f1]; exact hm, hcsat, hhash⟩
    · simp only [hne, Bool.false_eq_true, ↓reduceIte]
      have hfields := mcAfterAddFe_fields E s.fe.variables cs inv new s1.fe
      refine ⟨new, _, rfl, ?_, ?_, ?_, by rw [hfields]; exact hcsat, by rw [hfields]; exact hhash⟩
      · -- the structural relation is not touched
        exact ⟨by rw [hfields]; exact hrel.cons, by rw [hfields]; exact hrel.toAdd, by rw [hfields]; exact hrel.solver,
          by rw [hfields]; exact hrel.track, by rw [hfields]; exact hrel.fin, hrel.objs, hrel.reuse, hrel.sub, hrel.cover,
          by rw [hfields]; exact hrel.vars, by rw [hfields]; exact hrel.ids⟩
      · -- the cache
        have hcR : ∀ c ∈ s1.fe.constraints, R c := by
          intro c hc
          rw [hrel.cons] at hc
          rcases List.mem_append.mp hc with hc | hc
          · exact hb.dinv.consR c hc
          · exact hcs c (hrel.sub c hc)
        have heq : ∀ a, Models s1.fe.constraints a ↔ Models (U ++ new) a := by
          intro a
          rw [hrel.cons, models_append, models_append, hb.models_iff a]
        have hhalf := trivOptFe_half (E := E) hT hmc1 himpU hcR heq
        unfold mcAfterAddFe
        by_cases hnv : ((new.any fun a => a.vars.any fun v => !s.fe.variables.contains v) || inv) = true
        · rw [if_pos hnv]
          exact invalFe_inv hhalf (fun a => models_append) (hrel.unsat_of_false hR hb.dinv hcs)
        · rw [if_neg hnv]
          have hinv : inv = false := by
            cases inv
            · rfl
            · simp at hnv
          refine hhalf.full fun m hm => models_append.mpr ⟨hhalf.valid m hm, fun c hc => ?_⟩
          exact himp hinv _ (hhalf.valid m hm) c (hrel.sub c hc)
      · -- models are only dropped when they violate the added constraints
        intro m hm hmcs
        have hm1 : m ∈ (trivOptFe s1.fe).models := trivOptFe_mono s1.fe m (by rw [f1]; exact hm)
        show m ∈ (mcAfterAddFe E s.fe.variables cs inv new s1.fe).models
        unfold mcAfterAddFe
        split
        · exact invalFe_keep hR hcs hrel.sub _ m hm1 hmcs
        · exact hm1

/-! ### `simplify` -/

theorem mcSimplify_eq (E : Env) (self sup : Ops) (s : St) :
    (modelCacheLayer E self sup).simplify s =
      match sup.simplify s with
      | (.ok results, s') =>
          if !results.isEmpty && results.any (·.isFalse) then (.ok results, { s' with fe := { s'.fe with models := [] } })
          else (.ok results, s')
      | (.error e, s') => (.error e, s') := by
  show (do
      let results ← sup.simplify
      if !results.isEmpty && results.any (·.isFalse) then
        M.modifyFe fun fe => { fe with models := [] }
      pure results : M (List Con)) s = _
  simp only [bind, M.bind]
  rcases sup.simplify s with ⟨res, s'⟩
  cases res with
  | error e => rfl
  | ok results =>
    simp only
    split <;> rfl

/-- dropping all cached models is right when the constraints are unsatisfiable (a literal `false` among the simplified
constraints) and harmless otherwise -/
theorem mcInv_clear_models {fe : Frontend} (hun : ¬ Satisfiable U) : MCInv RE E U { fe with models := [] } :=
  mcInv_unsat RE E U _ hun (by simp)

/-! ### `branch` (`_blank_copy` + `_copy`) and pickling -/

/-- the copy gets the models and the flags of the original: the invariant goes with them -/
theorem mcInv_copy {fe c : Frontend} (h : MCInv RE E U fe) :
    MCInv RE E U { c with models := fe.models, evalExh := fe.evalExh, maxExh := fe.maxExh, minExh := fe.minExh,
                          maxSExh := fe.maxSExh, minSExh := fe.minSExh } :=
  h.of_fields rfl rfl rfl rfl rfl rfl

/-- unpickling starts with an empty cache -/
theorem mcInv_pickle (fe new : Frontend) : MCInv RE E U (pickleLayer .ModelCacheMixin fe new) :=
  mcInv_init RE E U _ rfl rfl rfl rfl rfl rfl

/-- a fresh frontend -/
theorem mcInv_fresh (fe : Frontend) (h : fe = {}) : MCInv RE E U fe := by
  subst h; exact mcInv_init RE E U _ rfl rfl rfl rfl rfl rfl

end Claripy.Solver
