import ClaripyProofs.Lemmas.Solver.GetSolver
import ClaripyProofs.Lemmas.Solver.Extrema
/-!
The class `SolverCacheless` = ConcreteHandler, EagerResolution, ConstraintFilter, ConstraintDeduplicator,
SimplifySkipper over FullFrontend (MRO from the generated file): every public call keeps the invariant `CLInv` and
answers as the stateless reference demands.  One frontend, untracked, `reuse_z3_solver` off.
-/
namespace Claripy.Solver
open Claripy.Gen.SolverMro

/-- the class seen through `self` inside its own methods (four unrollings below the top) -/
def clSelf (E : Env) : Ops := stage E (mro .SolverCacheless) 4

theorem clSelf_concreteCon (E : Env) (c : Con) : (clSelf E).concreteCon c = c.conc := by
  simp [clSelf, stage, compose, mro, layerOf, eagerLayer, frontendBase, concreteHandlerLayer, filterLayer, dedupLayer,
    skipperLayer, fullLayer, constrainedLayer]

theorem clSelf_concreteValue (E : Env) (e : Exp) : (clSelf E).concreteValue e = e.conc := by
  simp [clSelf, stage, compose, mro, layerOf, eagerLayer, frontendBase, concreteHandlerLayer, filterLayer, dedupLayer,
    skipperLayer, fullLayer, constrainedLayer]

theorem clSelf_modelHook (E : Env) : (clSelf E).modelHook = fun _ => pure () := by
  simp [clSelf, stage, compose, mro, layerOf, eagerLayer, frontendBase, concreteHandlerLayer, filterLayer, dedupLayer,
    skipperLayer, fullLayer, constrainedLayer]

/-- the no-op hook is fine for any frontend predicate -/
theorem hookOk_noop (A : List ZCon) (P : Frontend → Prop) : HookOk (fun _ => (pure () : M Unit)) A P :=
  ⟨fun _ s => ⟨s.fe, rfl⟩, fun _ _ h _ => h⟩

/-! ### `_constraint_filter` -/

theorem filter_eq (E : Env) (cs : List Con) :
    constraintFilter (clSelf E) cs =
      if cs.isEmpty then .ok cs
      else if cs.any (fun c => c.conc == some false) then .error .unsat
      else .ok (cs.filter fun c => c.conc != some true) := by
  simp only [constraintFilter, clSelf_concreteCon]

theorem filter_spec (E : Env) (cs : List Con) (wf : ∀ c ∈ cs, ConWf c) :
    match constraintFilter (clSelf E) cs with
    | .ok ec => (∀ a, Models ec a ↔ Models cs a) ∧ (∀ c ∈ ec, c ∈ cs)
    | .error e => e = .unsat ∧ ∀ a, ¬ Models cs a := by
  rw [filter_eq]
  by_cases h0 : cs.isEmpty = true
  · simp [h0]
  · simp only [h0, Bool.false_eq_true, ↓reduceIte]
    by_cases h1 : cs.any (fun c => c.conc == some false) = true
    · simp only [h1, ↓reduceIte, true_and]
      intro a ha
      obtain ⟨c, hc, hcf⟩ := List.any_eq_true.mp h1
      have := (wf c hc).2.2.1 false (by simpa using hcf) a
      rw [ha c hc] at this
      exact absurd this (by simp)
    · simp only [h1, Bool.false_eq_true, ↓reduceIte]
      refine ⟨fun a => ⟨fun h c hc => ?_, fun h c hc => h c (List.mem_filter.mp hc).1⟩, fun c hc => (List.mem_filter.mp hc).1⟩
      by_cases hct : c.conc = some true
      · exact (wf c hc).2.2.1 true hct a
      · exact h c (List.mem_filter.mpr ⟨hc, by simpa using hct⟩)

end Claripy.Solver
