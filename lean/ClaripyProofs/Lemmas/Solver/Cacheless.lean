import ClaripyProofs.Lemmas.Solver.GetSolver
import ClaripyProofs.Lemmas.Solver.Extrema
import ClaripyProofs.Lemmas.Solver.Independent
/-!
The class `SolverCacheless` = ConcreteHandler, EagerResolution, ConstraintFilter, ConstraintDeduplicator,
SimplifySkipper over FullFrontend (MRO from the generated file): every public call keeps the invariant `CLInv` and
answers as the stateless reference demands.  One frontend, untracked, `reuse_z3_solver` off.
-/
namespace Claripy.Solver
open Claripy.Gen.SolverMro

/-- what the methods of this class need from `self` (late binding): eager concrete evaluation and no model hook -/
structure SelfOk (self : Ops) : Prop where
  cc : ∀ c, self.concreteCon c = c.conc
  cv : ∀ e, self.concreteValue e = e.conc
  mh : self.modelHook = fun _ => pure ()

/-- the class seen through `self` inside its own methods (`k + 1` unrollings) -/
def clStage (E : Env) (k : Nat) : Ops := stage E (mro .SolverCacheless) (k + 1)

theorem clStage_ok (E : Env) (k : Nat) : SelfOk (clStage E k) := by
  constructor <;> intros <;>
  simp [clStage, stage, compose, mro, layerOf, eagerLayer, frontendBase, concreteHandlerLayer, filterLayer, dedupLayer,
    skipperLayer, fullLayer, constrainedLayer]

def clSelf (E : Env) : Ops := clStage E 3

theorem classOps_cacheless (E : Env) : classOps E .SolverCacheless = clStage E 4 := rfl

/-- the no-op hook is fine for any frontend predicate -/
theorem hookOk_noop (A : List ZCon) (P : Frontend → Prop) : HookOk (fun _ => (pure () : M Unit)) A P :=
  ⟨fun _ s => ⟨s.fe, rfl⟩, fun _ _ h _ _ => h⟩

/-! ### `_constraint_filter` -/

theorem filter_eq {self : Ops} (hs : SelfOk self) (cs : List Con) :
    constraintFilter self cs =
      if cs.isEmpty then .ok cs
      else if cs.any (fun c => c.conc == some false) then .error .unsat
      else .ok (cs.filter fun c => c.conc != some true) := by
  obtain ⟨hcc, _, _⟩ := hs
  simp only [constraintFilter, hcc]

theorem filter_spec {self : Ops} (hs : SelfOk self) (cs : List Con) (wf : ∀ c ∈ cs, ConWf c) :
    match constraintFilter self cs with
    | .ok ec => (∀ a, Models ec a ↔ Models cs a) ∧ (∀ c ∈ ec, c ∈ cs)
    | .error e => e = .unsat ∧ ∀ a, ¬ Models cs a := by
  rw [filter_eq hs]
  by_cases h0 : cs.isEmpty = true
  · simp [h0]
  · simp only [h0, Bool.false_eq_true, ↓reduceIte]
    by_cases h1 : cs.any (fun c => c.conc == some false) = true
    · simp only [h1, ↓reduceIte, true_and]
      intro a ha
      obtain ⟨c, hc, hcf⟩ := List.any_eq_true.mp h1
      have := (wf c hc).2.2.1 false (by simpa using hcf) a
      rw [ha c hc] at this
      exact absurd this (by simp)
    · simp only [h1, Bool.false_eq_true, ↓reduceIte]
      refine ⟨fun a => ⟨fun h c hc => ?_, fun h c hc => h c (List.mem_filter.mp hc).1⟩, fun c hc => (List.mem_filter.mp hc).1⟩
      by_cases hct : c.conc = some true
      · exact (wf c hc).2.2.1 true hct a
      · exact h c (List.mem_filter.mpr ⟨hc, by simpa using hct⟩)


/-! ### invariant -/

/-- what a query may do to the state: the frontend record changes in `_tls.solver` / `_to_add` only; no Z3 object disappears;
the solver reference stays or points to an object created in between; every object that existed keeps its assertion frames,
except the frontend's own solver object while the frontend is not finalized (nobody else refers to that one) -/
structure QStep (s s' : St) : Prop where
  fe : ∃ sol ta, s'.fe = { s.fe with solver := sol, toAdd := ta }
  grow : s.objs.length ≤ s'.objs.length
  solverNew : s'.fe.solver = s.fe.solver ∨ ∃ r, s'.fe.solver = some r ∧ s.objs.length ≤ r
  foreign : ∀ i, i < s.objs.length → (s.fe.solver = some i → s.fe.finalized = true) →
    (objAt s' i).frames = (objAt s i).frames
  reuse : s'.reuse = s.reuse

theorem QStep.refl (s : St) : QStep s s :=
  ⟨⟨s.fe.solver, s.fe.toAdd, rfl⟩, Nat.le_refl _, Or.inl rfl, fun _ _ _ => rfl, rfl⟩

theorem QStep.finalized {s s' : St} (h : QStep s s') : s'.fe.finalized = s.fe.finalized := by
  obtain ⟨sol, ta, hfe⟩ := h.fe
  rw [hfe]

theorem QStep.trans {s s' s'' : St} (h1 : QStep s s') (h2 : QStep s' s'') : QStep s s'' := by
  refine ⟨?_, Nat.le_trans h1.grow h2.grow, ?_, ?_, h2.reuse.trans h1.reuse⟩
  · obtain ⟨sol1, ta1, e1⟩ := h1.fe
    obtain ⟨sol2, ta2, e2⟩ := h2.fe
    exact ⟨sol2, ta2, by rw [e2, e1]⟩
  · rcases h2.solverNew with e | ⟨r, hr, hge⟩
    · rw [e]; exact h1.solverNew
    · exact Or.inr ⟨r, hr, Nat.le_trans h1.grow hge⟩
  · intro i hi hp
    have hi' : i < s'.objs.length := Nat.lt_of_lt_of_le hi h1.grow
    have hp' : s'.fe.solver = some i → s'.fe.finalized = true := by
      intro hs'
      rw [h1.finalized]
      rcases h1.solverNew with e | ⟨r, hr, hge⟩
      · exact hp (e ▸ hs')
      · rw [hr] at hs'
        have : r = i := by simpa using hs'
        omega
    rw [h2.foreign i hi' hp', h1.foreign i hi hp]

structure CLInv (G : St → Prop) (U : List Con) (s : St) : Prop where
  core : CoreInv s
  /-- the constraints held mean what the user's constraints mean -/
  equiv : ∀ a, holdsAll s.fe.constraints a = holdsAll U a
  /-- the state was reached by query steps from a state with property `G` (the deduplication invariant, and the
  starting point when several frontends share Z3 objects, are passed here) -/
  ghost : ∃ s0, G s0 ∧ QStep s0 s

variable {G : St → Prop}

theorem holdsAll_append (A B : List Con) (a : Asg) : holdsAll (A ++ B) a = (holdsAll A a && holdsAll B a) := by
  simp [holdsAll, List.all_append]

theorem models_iff_holdsAll (cs : List Con) (a : Asg) : Models cs a ↔ holdsAll cs a = true := by
  simp [holdsAll, Models, List.all_eq_true]

/-- after `_get_solver` and a balanced L1 query that left the frontend record alone, the invariant holds again -/
theorem coreInv_after_query {s s1 s2 : St} {r : Nat} (h : CoreInv s) (hg : GotSolver s s1 r)
    (hst : L1Step r (fun fe => fe = s1.fe) s1 s2) (hfr : (objAt s2 r).frames = (objAt s1 r).frames) :
    CoreInv s2 ∧ s2.fe.constraints = s.fe.constraints := by
  have hfe : s2.fe = s1.fe := hst.fe rfl
  have hfe1 := hg.fe
  have hcons : s2.fe.constraints = s.fe.constraints := by rw [hfe, hfe1]
  refine ⟨⟨?_, ?_, ?_, ?_⟩, hcons⟩
  · intro a _; rw [hfe, hfe1]; rfl
  · intro r' hr'
    rw [hfe, hfe1] at hr'
    simp only [Option.some.injEq] at hr'
    subst hr'
    obtain ⟨f, hf⟩ := hg.frames
    refine ⟨by rw [hst.len]; exact hg.lt, ⟨f, by rw [hfr, hf]⟩, fun a => ?_⟩
    have has : (objAt s2 r).asserted = (objAt s1 r).asserted := by simp only [Z3Obj.asserted, hfr]
    rw [has, hcons, hfe, hfe1]
    simp only [holdsAll_nil, and_true]
    exact hg.asserted a
  · rw [hst.reuse, hg.reuse]; exact h.noReuse
  · rw [hfe, hfe1]; exact h.untracked

theorem objAt_eq_of_getElem? {s s' : St} {i : Nat} (h : s'.objs[i]? = s.objs[i]?) : objAt s' i = objAt s i := by
  simp only [objAt, List.getD_eq_getElem?_getD, h]

/-- `_get_solver` followed by a balanced L1 query is a query step -/
theorem qstep_after_query {s s1 s2 : St} {r : Nat} (hg : GotSolver s s1 r)
    (hst : L1Step r (fun fe => fe = s1.fe) s1 s2) (hfr : (objAt s2 r).frames = (objAt s1 r).frames) : QStep s s2 := by
  have hfe : s2.fe = { s.fe with solver := some r, toAdd := [] } := (hst.fe rfl).trans hg.fe
  refine ⟨⟨some r, [], hfe⟩, by rw [hst.len]; exact hg.grow, ?_, ?_, by rw [hst.reuse, hg.reuse]⟩
  · rw [hfe]
    rcases hg.fresh_or_same with ⟨h1, _⟩ | h2 | ⟨h3, _, _⟩
    · exact Or.inl h1.symm
    · exact Or.inr ⟨r, rfl, h2⟩
    · exact Or.inl h3.symm
  · intro i hi hp
    by_cases hir : i = r
    · subst hir
      rcases hg.fresh_or_same with ⟨h1, hf⟩ | h2 | ⟨_, _, h3⟩
      · have := hp h1; rw [hf] at this; cases this
      · omega
      · rw [hfr]
        have : objAt s1 i = objAt s i := by simp only [objAt, h3]
        rw [this]
    · have e1 : s2.objs[i]? = s1.objs[i]? := hst.other i hir
      have e2 : s1.objs[i]? = s.objs[i]? := hg.others i hi hir
      rw [objAt_eq_of_getElem? (e1.trans e2)]

theorem clInv_after_query {U : List Con} {s s1 s2 : St} {r : Nat} (h : CLInv G U s) (hg : GotSolver s s1 r)
    (hst : L1Step r (fun fe => fe = s1.fe) s1 s2) (hfr : (objAt s2 r).frames = (objAt s1 r).frames) : CLInv G U s2 := by
  obtain ⟨hc, hcons⟩ := coreInv_after_query h.core hg hst hfr
  obtain ⟨s0, hg0, hq⟩ := h.ghost
  exact ⟨hc, fun a => by rw [hcons]; exact h.equiv a, ⟨s0, hg0, hq.trans (qstep_after_query hg hst hfr)⟩⟩

/-- what the Z3 object asserts together with converted extra constraints, in terms of the user's constraints -/
theorem satBy_query {U : List Con} {s s1 : St} {r : Nat} (h : CLInv G U s) (hg : GotSolver s s1 r) (ec : List Con) (a : Asg) :
    SatBy ((objAt s1 r).asserted ++ ec.map ZCon.ofCon) a ↔ Models (U ++ ec) a := by
  rw [SatBy.append, hg.asserted a, satBy_ofCon, models_append, models_iff_holdsAll, models_iff_holdsAll, h.equiv a]

/-! ### `satisfiable` -/

/-- ConstraintFilterMixin.satisfiable over FullFrontend.satisfiable, for any `self` -/
def clSat (E : Env) (self : Ops) (extra : List Con) : M Bool :=
  M.tryCatch (do let ec ← liftE (constraintFilter self extra)
                 let r ← getSolver
                 z3Satisfiable E r (ec.map ZCon.ofCon) self.modelHook) (· == .unsat) (pure false)

theorem clStage_satisfiable (E : Env) (k : Nat) : (clStage E (k + 1)).satisfiable = clSat E (clStage E k) := rfl

theorem clSat_spec {E : Env} (hE : OracleExact E) {self : Ops} (hs : SelfOk self) (U : List Con) (s : St) (h : CLInv G U s)
    (extra : List Con) (wf : ∀ c ∈ extra, ConWf c) :
    match clSat E self extra s with
    | (.ok b, s') => (b = true ↔ Satisfiable (U ++ extra)) ∧ CLInv G U s'
    | (.error e, s') => IsGiveUp E e ∧ CLInv G U s' := by
  unfold clSat
  have hmh : self.modelHook = fun _ => pure () := by obtain ⟨_, _, h3⟩ := hs; exact h3
  rw [hmh]
  have hfs := filter_spec hs extra wf
  simp only [M.tryCatch, bind, M.bind, liftE]
  cases hf : constraintFilter self extra with
  | error e =>
    rw [hf] at hfs
    obtain ⟨he, hun⟩ := hfs
    subst he
    simp only [beq_self_eq_true, ↓reduceIte, pure, M.pure]
    refine ⟨⟨fun hb => by simp at hb, fun ⟨a, ha⟩ => absurd (models_append.mp ha).2 (hun a)⟩, h⟩
  | ok ec =>
    rw [hf] at hfs
    obtain ⟨hequiv, _⟩ := hfs
    simp only
    have hgs := getSolver_spec s h.core
    rcases hg : getSolver s with ⟨res, s1⟩
    rw [hg] at hgs
    cases res with
    | error e => exact absurd hgs id
    | ok r =>
      simp only
      have hsp := z3Satisfiable_spec hE (hookOk_noop [] (fun fe => fe = s1.fe)) r (ec.map ZCon.ofCon) s1 (by simp)
      rcases hz : z3Satisfiable E r (ec.map ZCon.ofCon) (fun _ => pure ()) s1 with ⟨res2, s2⟩
      rw [hz] at hsp
      cases res2 with
      | error e =>
        obtain ⟨he, hst, hfr⟩ := hsp
        have hne : (e == Err.unsat) = false := by
          obtain ⟨he1, _⟩ := he; subst he1; rfl
        simp only [hne, Bool.false_eq_true, ↓reduceIte]
        exact ⟨he, clInv_after_query h hgs hst hfr⟩
      | ok b =>
        obtain ⟨hb, hst, hfr⟩ := hsp
        refine ⟨?_, clInv_after_query h hgs hst hfr⟩
        rw [hb]
        constructor
        · rintro ⟨a, ha⟩
          exact ⟨a, by
            have := (satBy_query h hgs ec a).mp ha
            rw [models_append] at this ⊢
            exact ⟨this.1, (hequiv a).mp this.2⟩⟩
        · rintro ⟨a, ha⟩
          refine ⟨a, (satBy_query h hgs ec a).mpr ?_⟩
          rw [models_append] at ha ⊢
          exact ⟨ha.1, (hequiv a).mpr ha.2⟩


/-! ### `eval` -/

theorem nodup_map_on {α β : Type} {f : α → β} {l : List α} (h : ∀ x ∈ l, ∀ y ∈ l, f x = f y → x = y) (hd : l.Nodup) :
    (l.map f).Nodup := by
  induction l with
  | nil => simp
  | cons a t ih =>
    rw [List.nodup_cons] at hd
    rw [List.map_cons, List.nodup_cons]
    refine ⟨?_, ih (fun x hx y hy => h x (List.mem_cons_of_mem _ hx) y (List.mem_cons_of_mem _ hy)) hd.2⟩
    intro hmem
    obtain ⟨y, hy, hfy⟩ := List.mem_map.mp hmem
    have := h y (List.mem_cons_of_mem _ hy) a (List.mem_cons_self) hfy
    subst this
    exact hd.1 hy

/-- ConcreteHandlerMixin.eval over ConstraintFilterMixin.eval over FullFrontend.eval -/
def clEval (E : Env) (self : Ops) (e : Exp) (n : Nat) (extra : List Con) : M (List Nat) :=
  match self.concreteValue e with
  | some c => pure [c]
  | none => do
    let ec ← liftE (constraintFilter self extra)
    let r ← getSolver
    let res ← z3BatchEval E r [e] n (ec.map ZCon.ofCon) self.modelHook
    let res := res.map fun t => t.headD 0
    if res.isEmpty then M.throw .unsat else pure res

theorem clStage_eval (E : Env) (k : Nat) : (clStage E (k + 1)).eval = clEval E (clStage E k) := rfl

/-- what property C11 demands of an `eval` answer -/
def EvalOk (cs : List Con) (e : Exp) (n : Nat) (vs : List Nat) : Prop :=
  match e.conc with
  | some c => vs = [c]
  | none => (∀ v ∈ vs, Feasible cs e v) ∧ vs.Nodup ∧ vs.length ≤ n ∧ (∀ v, Feasible cs e v → v ∈ vs ∨ vs.length = n)

/-- an error of a query: `UnsatError` only when the constraints (with the extra ones) are unsatisfiable, or the
backend gave up -/
def ErrOk (E : Env) (cs : List Con) (err : Err) : Prop := err = .unsat ∧ ¬ Satisfiable cs ∨ IsGiveUp E err

theorem clEval_spec {E : Env} (hE : OracleExact E) {self : Ops} (hs : SelfOk self) (U : List Con) (s : St) (h : CLInv G U s)
    (e : Exp) (n : Nat) (hn : 1 ≤ n) (extra : List Con) (wf : ∀ c ∈ extra, ConWf c) :
    match clEval E self e n extra s with
    | (.ok vs, s') => EvalOk (U ++ extra) e n vs ∧ CLInv G U s'
    | (.error err, s') => ErrOk E (U ++ extra) err ∧ CLInv G U s' := by
  obtain ⟨hcc, hcv, hmh⟩ := hs
  unfold clEval
  rw [hcv e, hmh]
  cases hconc : e.conc with
  | some c => simp only [pure, M.pure, EvalOk, hconc]; exact ⟨trivial, h⟩
  | none =>
    simp only [bind, M.bind, liftE]
    have hfs := filter_spec ⟨hcc, hcv, hmh⟩ extra wf
    cases hf : constraintFilter self extra with
    | error err =>
      rw [hf] at hfs
      obtain ⟨he, hun⟩ := hfs
      exact ⟨Or.inl ⟨he, fun ⟨a, ha⟩ => hun a (models_append.mp ha).2⟩, h⟩
    | ok ec =>
      rw [hf] at hfs
      obtain ⟨hequiv, _⟩ := hfs
      simp only
      have hgs := getSolver_spec s h.core
      rcases hg : getSolver s with ⟨res, s1⟩
      rw [hg] at hgs
      cases res with
      | error err => exact absurd hgs id
      | ok r =>
        simp only
        obtain ⟨f, hf1⟩ := hgs.frames
        have hsp := z3BatchEval_spec hE (hookOk_noop [] (fun fe => fe = s1.fe)) r [e] n (ec.map ZCon.ofCon) s1 hgs.lt
          (by rw [hf1]; simp) (by simp)
        rcases hz : z3BatchEval E r [e] n (ec.map ZCon.ofCon) (fun _ => pure ()) s1 with ⟨res2, s2⟩
        rw [hz] at hsp
        have hq : ∀ a, SatBy ((objAt s1 r).asserted ++ ec.map ZCon.ofCon) a ↔ Models (U ++ extra) a := by
          intro a
          rw [satBy_query h hgs ec a, models_append, models_append, hequiv a]
        cases res2 with
        | error err =>
          obtain ⟨he, hst, hfr⟩ := hsp
          exact ⟨Or.inr he, clInv_after_query h hgs hst hfr⟩
        | ok ts =>
          obtain ⟨hreal, hnd, hlen, hcomp, hst, hfr⟩ := hsp
          have hinv := clInv_after_query h hgs hst hfr
          have hsing : ∀ t ∈ ts, ∃ a, Models (U ++ extra) a ∧ t = [e.val a] := by
            intro t ht
            obtain ⟨a, ha, hat⟩ := hreal t ht
            exact ⟨a, (hq a).mp ha, by simpa using hat.symm⟩
          by_cases hemp : (ts.map fun t => t.headD 0).isEmpty = true
          · -- nothing found: the constraints are unsatisfiable
            simp only [hemp, ↓reduceIte, M.throw_apply]
            refine ⟨Or.inl ⟨rfl, ?_⟩, hinv⟩
            rintro ⟨a, ha⟩
            have hts : ts = [] := by simpa using hemp
            have := hcomp (by rw [hts]; simp; omega) a ((hq a).mpr ha)
            rw [hts] at this
            simp at this
          · simp only [hemp, Bool.false_eq_true, ↓reduceIte, pure, M.pure]
            refine ⟨?_, hinv⟩
            simp only [EvalOk, hconc]
            refine ⟨?_, ?_, by simpa using hlen, ?_⟩
            · intro v hv
              obtain ⟨t, ht, rfl⟩ := List.mem_map.mp hv
              obtain ⟨a, ha, rfl⟩ := hsing t ht
              exact ⟨a, ha, by simp⟩
            · refine nodup_map_on ?_ hnd
              intro x hx y hy hxy
              obtain ⟨a, _, rfl⟩ := hsing x hx
              obtain ⟨b, _, rfl⟩ := hsing y hy
              simp at hxy
              simp [hxy]
            · intro v ⟨a, ha, hv⟩
              by_cases hl : ts.length < n
              · left
                have := hcomp hl a ((hq a).mpr ha)
                exact List.mem_map.mpr ⟨_, this, by simp [hv]⟩
              · right
                simp only [List.length_map]
                omega


/-! ### `solution`, `is_true`, `is_false` -/

theorem wrap_nat (b v : Nat) (hv : v < 2 ^ b) : wrap b (v : Int) = v := by
  have := wrap_of_nonneg b (v : Int) (by omega) (by omega)
  omega

def clSolution (E : Env) (self : Ops) (e : Exp) (v : Nat) (extra : List Con) : M Bool :=
  match self.concreteValue e with
  | some ce => pure (ce == v)
  | none => do
    let ec ← liftE (constraintFilter self extra)
    let r ← getSolver
    z3Solution E r e v (ec.map ZCon.ofCon) self.modelHook

theorem clStage_solution (E : Env) (k : Nat) : (clStage E (k + 1)).solution = clSolution E (clStage E k) := rfl

theorem clSolution_spec {E : Env} (hE : OracleExact E) {self : Ops} (hs : SelfOk self) (U : List Con) (s : St) (h : CLInv G U s)
    (e : Exp) (v : Nat) (hv : v < 2 ^ e.bits) (extra : List Con) (wf : ∀ c ∈ extra, ConWf c) :
    match clSolution E self e v extra s with
    | (.ok b, s') => (match e.conc with
                      | some c => b = (c == v)
                      | none => (b = true ↔ Feasible (U ++ extra) e v)) ∧ CLInv G U s'
    | (.error err, s') => ErrOk E (U ++ extra) err ∧ CLInv G U s' := by
  obtain ⟨hcc, hcv, hmh⟩ := hs
  unfold clSolution
  rw [hcv e, hmh]
  cases hconc : e.conc with
  | some c => simp only [pure, M.pure]; exact ⟨trivial, h⟩
  | none =>
    simp only [bind, M.bind, liftE]
    have hfs := filter_spec ⟨hcc, hcv, hmh⟩ extra wf
    cases hf : constraintFilter self extra with
    | error err =>
      rw [hf] at hfs
      exact ⟨Or.inl ⟨hfs.1, fun ⟨a, ha⟩ => hfs.2 a (models_append.mp ha).2⟩, h⟩
    | ok ec =>
      rw [hf] at hfs
      obtain ⟨hequiv, _⟩ := hfs
      simp only
      have hgs := getSolver_spec s h.core
      rcases hg : getSolver s with ⟨res, s1⟩
      rw [hg] at hgs
      cases res with
      | error err => exact absurd hgs id
      | ok r =>
        simp only [z3Solution]
        have hsp := z3Satisfiable_spec hE (hookOk_noop [] (fun fe => fe = s1.fe)) r (eqCon e (v : Int) :: ec.map ZCon.ofCon) s1 (by simp)
        rcases hz : z3Satisfiable E r (eqCon e (v : Int) :: ec.map ZCon.ofCon) (fun _ => pure ()) s1 with ⟨res2, s2⟩
        rw [hz] at hsp
        cases res2 with
        | error err => exact ⟨Or.inr hsp.1, clInv_after_query h hgs hsp.2.1 hsp.2.2⟩
        | ok b =>
          obtain ⟨hb, hst, hfr⟩ := hsp
          refine ⟨?_, clInv_after_query h hgs hst hfr⟩
          rw [hb]
          have hq : ∀ a, SatBy ((objAt s1 r).asserted ++ eqCon e (v : Int) :: ec.map ZCon.ofCon) a ↔
              Models (U ++ extra) a ∧ e.val a = v := by
            intro a
            have h1 : SatBy ((objAt s1 r).asserted ++ eqCon e (v : Int) :: ec.map ZCon.ofCon) a ↔
                SatBy ((objAt s1 r).asserted ++ ec.map ZCon.ofCon) a ∧ (eqCon e (v : Int)).sem a = true := by
              simp only [SatBy, List.mem_append, List.mem_cons]
              constructor
              · intro hh
                exact ⟨fun c hc => hh c (hc.elim Or.inl (fun x => Or.inr (Or.inr x))), hh _ (Or.inr (Or.inl rfl))⟩
              · rintro ⟨h1, h2⟩ c hc
                rcases hc with hc | rfl | hc
                · exact h1 c (Or.inl hc)
                · exact h2
                · exact h1 c (Or.inr hc)
            rw [h1, satBy_query h hgs ec a, models_append, models_append, hequiv a]
            simp only [eqCon, decide_eq_true_eq, wrap_nat e.bits v hv]
          constructor
          · rintro ⟨a, ha⟩; exact ⟨a, ((hq a).mp ha).1, ((hq a).mp ha).2⟩
          · rintro ⟨a, ha, hva⟩; exact ⟨a, (hq a).mpr ⟨ha, hva⟩⟩

/-- after `_get_solver` alone (and a bump of the event counter) the invariant holds -/
theorem clInv_after_getSolver {U : List Con} {s s1 : St} {r : Nat} (h : CLInv G U s) (hg : GotSolver s s1 r) (t : Nat) :
    CLInv G U { s1 with tick := t } := by
  have h2 : L1Step r (fun fe => fe = s1.fe) s1 { s1 with tick := t } := ⟨⟨rfl, fun _ _ => rfl, rfl, rfl⟩, fun hh => hh⟩
  exact clInv_after_query h hg h2 rfl

def clTruth (E : Env) (self : Ops) (isTrue : Bool) (c : Con) (extra : List Con) : M Bool :=
  match self.concreteCon c with
  | some b => pure (if isTrue then b else !b)
  | none => do
    let _ec ← liftE (constraintFilter self extra)
    let _ ← getSolver
    let s ← M.get
    M.modify fun s => { s with tick := s.tick + 1 }
    pure (E.truth isTrue c s.tick)

theorem clStage_isTrue (E : Env) (k : Nat) : (clStage E (k + 1)).isTrue = clTruth E (clStage E k) true := by
  funext c extra
  simp only [clStage, stage, compose, mro, layerOf, List.foldr, concreteHandlerLayer, clTruth]
  rfl

theorem clStage_isFalse (E : Env) (k : Nat) : (clStage E (k + 1)).isFalse = clTruth E (clStage E k) false := by
  funext c extra
  simp only [clStage, stage, compose, mro, layerOf, List.foldr, concreteHandlerLayer, clTruth]
  rfl

theorem clTruth_spec {E : Env} (hT : CheapSound E) {self : Ops} (hs : SelfOk self) (U : List Con) (s : St) (h : CLInv G U s)
    (isTrue : Bool) (c : Con) (hc : ConWf c) (extra : List Con) (wf : ∀ c ∈ extra, ConWf c) :
    match clTruth E self isTrue c extra s with
    | (.ok b, s') => (b = true → ∀ a, Models (U ++ extra) a → c.sem a = isTrue) ∧ CLInv G U s'
    | (.error err, s') => ErrOk E (U ++ extra) err ∧ CLInv G U s' := by
  obtain ⟨hcc, hcv, hmh⟩ := hs
  unfold clTruth
  rw [hcc c]
  cases hconc : c.conc with
  | some b =>
    simp only [pure, M.pure]
    refine ⟨fun hb a _ => ?_, h⟩
    have := hc.2.2.1 b hconc a
    cases isTrue <;> simp_all
  | none =>
    simp only [bind, M.bind, liftE]
    have hfs := filter_spec ⟨hcc, hcv, hmh⟩ extra wf
    cases hf : constraintFilter self extra with
    | error err =>
      rw [hf] at hfs
      exact ⟨Or.inl ⟨hfs.1, fun ⟨a, ha⟩ => hfs.2 a (models_append.mp ha).2⟩, h⟩
    | ok ec =>
      simp only
      have hgs := getSolver_spec s h.core
      rcases hg : getSolver s with ⟨res, s1⟩
      rw [hg] at hgs
      cases res with
      | error err => exact absurd hgs id
      | ok r =>
        simp only [M.get_apply, M.modify_apply, pure, M.pure]
        refine ⟨fun hb a _ => ?_, clInv_after_getSolver h hgs _⟩
        cases isTrue
        · exact hT.2.2 c _ hb a
        · exact hT.2.1 c _ hb a

end Claripy.Solver
