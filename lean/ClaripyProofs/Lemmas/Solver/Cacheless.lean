import ClaripyProofs.Lemmas.Solver.GetSolver
import ClaripyProofs.Lemmas.Solver.Extrema
import ClaripyProofs.Lemmas.Solver.Independent
/-!
The class `SolverCacheless` = ConcreteHandler, EagerResolution, ConstraintFilter, ConstraintDeduplicator,
SimplifySkipper over FullFrontend (MRO from the generated file): every public call keeps the invariant `CLInv` and
answers as the stateless reference demands.  One frontend, untracked, `reuse_z3_solver` off.
-/
namespace Claripy.Solver
open Claripy.Gen.SolverMro

/-- what the methods of this class need from `self` (late binding): eager concrete evaluation and no model hook -/
structure SelfOk (self : Ops) : Prop where
  cc : ∀ c, self.concreteCon c = c.conc
  cv : ∀ e, self.concreteValue e = e.conc
  mh : self.modelHook = fun _ => pure ()

/-- the class seen through `self` inside its own methods (`k + 1` unrollings) -/
def clStage (E : Env) (k : Nat) : Ops := stage E (mro .SolverCacheless) (k + 1)

theorem clStage_ok (E : Env) (k : Nat) : SelfOk (clStage E k) := by
  constructor <;> intros <;>
  simp [clStage, stage, compose, mro, layerOf, eagerLayer, frontendBase, concreteHandlerLayer, filterLayer, dedupLayer,
    skipperLayer, fullLayer, constrainedLayer]

def clSelf (E : Env) : Ops := clStage E 3

theorem classOps_cacheless (E : Env) : classOps E .SolverCacheless = clStage E 4 := rfl

/-- the no-op hook is fine for any frontend predicate -/
theorem hookOk_noop (A : List ZCon) (P : Frontend → Prop) : HookOk (fun _ => (pure () : M Unit)) A P :=
  ⟨fun _ s => ⟨s.fe, rfl⟩, fun _ _ h _ => h⟩

/-! ### `_constraint_filter` -/

theorem filter_eq {self : Ops} (hs : SelfOk self) (cs : List Con) :
    constraintFilter self cs =
      if cs.isEmpty then .ok cs
      else if cs.any (fun c => c.conc == some false) then .error .unsat
      else .ok (cs.filter fun c => c.conc != some true) := by
  obtain ⟨hcc, _, _⟩ := hs
  simp only [constraintFilter, hcc]

theorem filter_spec {self : Ops} (hs : SelfOk self) (cs : List Con) (wf : ∀ c ∈ cs, ConWf c) :
    match constraintFilter self cs with
    | .ok ec => (∀ a, Models ec a ↔ Models cs a) ∧ (∀ c ∈ ec, c ∈ cs)
    | .error e => e = .unsat ∧ ∀ a, ¬ Models cs a := by
  rw [filter_eq hs]
  by_cases h0 : cs.isEmpty = true
  · simp [h0]
  · simp only [h0, Bool.false_eq_true, ↓reduceIte]
    by_cases h1 : cs.any (fun c => c.conc == some false) = true
    · simp only [h1, ↓reduceIte, true_and]
      intro a ha
      obtain ⟨c, hc, hcf⟩ := List.any_eq_true.mp h1
      have := (wf c hc).2.2.1 false (by simpa using hcf) a
      rw [ha c hc] at this
      exact absurd this (by simp)
    · simp only [h1, Bool.false_eq_true, ↓reduceIte]
      refine ⟨fun a => ⟨fun h c hc => ?_, fun h c hc => h c (List.mem_filter.mp hc).1⟩, fun c hc => (List.mem_filter.mp hc).1⟩
      by_cases hct : c.conc = some true
      · exact (wf c hc).2.2.1 true hct a
      · exact h c (List.mem_filter.mpr ⟨hc, by simpa using hct⟩)


/-! ### invariant -/

structure CLInv (U : List Con) (s : St) : Prop where
  core : CoreInv s
  /-- the constraints held mean what the user's constraints mean -/
  equiv : ∀ a, holdsAll s.fe.constraints a = holdsAll U a

theorem holdsAll_append (A B : List Con) (a : Asg) : holdsAll (A ++ B) a = (holdsAll A a && holdsAll B a) := by
  simp [holdsAll, List.all_append]

theorem models_iff_holdsAll (cs : List Con) (a : Asg) : Models cs a ↔ holdsAll cs a = true := by
  simp [holdsAll, Models, List.all_eq_true]

/-- after `_get_solver` and a balanced L1 query that left the frontend record alone, the invariant holds again -/
theorem coreInv_after_query {s s1 s2 : St} {r : Nat} (h : CoreInv s) (hg : GotSolver s s1 r)
    (hst : L1Step r (fun fe => fe = s1.fe) s1 s2) (hfr : (objAt s2 r).frames = (objAt s1 r).frames) :
    CoreInv s2 ∧ s2.fe.constraints = s.fe.constraints := by
  have hfe : s2.fe = s1.fe := hst.fe rfl
  have hfe1 := hg.fe
  have hcons : s2.fe.constraints = s.fe.constraints := by rw [hfe, hfe1]
  refine ⟨⟨?_, ?_, ?_, ?_⟩, hcons⟩
  · intro a _; rw [hfe, hfe1]; rfl
  · intro r' hr'
    rw [hfe, hfe1] at hr'
    simp only [Option.some.injEq] at hr'
    subst hr'
    obtain ⟨f, hf⟩ := hg.frames
    refine ⟨by rw [hst.len]; exact hg.lt, ⟨f, by rw [hfr, hf]⟩, fun a => ?_⟩
    have has : (objAt s2 r).asserted = (objAt s1 r).asserted := by simp only [Z3Obj.asserted, hfr]
    rw [has, hcons, hfe, hfe1]
    simp only [holdsAll_nil, and_true]
    exact hg.asserted a
  · rw [hst.reuse, hg.reuse]; exact h.noReuse
  · rw [hfe, hfe1]; exact h.untracked

theorem clInv_after_query {U : List Con} {s s1 s2 : St} {r : Nat} (h : CLInv U s) (hg : GotSolver s s1 r)
    (hst : L1Step r (fun fe => fe = s1.fe) s1 s2) (hfr : (objAt s2 r).frames = (objAt s1 r).frames) : CLInv U s2 := by
  obtain ⟨hc, hcons⟩ := coreInv_after_query h.core hg hst hfr
  exact ⟨hc, fun a => by rw [hcons]; exact h.equiv a⟩

/-- what the Z3 object asserts together with converted extra constraints, in terms of the user's constraints -/
theorem satBy_query {U : List Con} {s s1 : St} {r : Nat} (h : CLInv U s) (hg : GotSolver s s1 r) (ec : List Con) (a : Asg) :
    SatBy ((objAt s1 r).asserted ++ ec.map ZCon.ofCon) a ↔ Models (U ++ ec) a := by
  rw [SatBy.append, hg.asserted a, satBy_ofCon, models_append, models_iff_holdsAll, models_iff_holdsAll, h.equiv a]

/-! ### `satisfiable` -/

/-- ConstraintFilterMixin.satisfiable over FullFrontend.satisfiable, for any `self` -/
def clSat (E : Env) (self : Ops) (extra : List Con) : M Bool :=
  M.tryCatch (do let ec ← liftE (constraintFilter self extra)
                 let r ← getSolver
                 z3Satisfiable E r (ec.map ZCon.ofCon) self.modelHook) (· == .unsat) (pure false)

theorem clStage_satisfiable (E : Env) (k : Nat) : (clStage E (k + 1)).satisfiable = clSat E (clStage E k) := rfl

theorem clSat_spec {E : Env} (hE : OracleExact E) {self : Ops} (hs : SelfOk self) (U : List Con) (s : St) (h : CLInv U s)
    (extra : List Con) (wf : ∀ c ∈ extra, ConWf c) :
    match clSat E self extra s with
    | (.ok b, s') => (b = true ↔ Satisfiable (U ++ extra)) ∧ CLInv U s'
    | (.error e, s') => IsGiveUp E e ∧ CLInv U s' := by
  unfold clSat
  have hmh : self.modelHook = fun _ => pure () := by obtain ⟨_, _, h3⟩ := hs; exact h3
  rw [hmh]
  have hfs := filter_spec hs extra wf
  simp only [M.tryCatch, bind, M.bind, liftE]
  cases hf : constraintFilter self extra with
  | error e =>
    rw [hf] at hfs
    obtain ⟨he, hun⟩ := hfs
    subst he
    simp only [beq_self_eq_true, ↓reduceIte, pure, M.pure]
    refine ⟨⟨fun hb => by simp at hb, fun ⟨a, ha⟩ => absurd (models_append.mp ha).2 (hun a)⟩, h⟩
  | ok ec =>
    rw [hf] at hfs
    obtain ⟨hequiv, _⟩ := hfs
    simp only
    have hgs := getSolver_spec s h.core
    rcases hg : getSolver s with ⟨res, s1⟩
    rw [hg] at hgs
    cases res with
    | error e => exact absurd hgs id
    | ok r =>
      simp only
      have hsp := z3Satisfiable_spec hE (hookOk_noop [] (fun fe => fe = s1.fe)) r (ec.map ZCon.ofCon) s1 (by simp)
      rcases hz : z3Satisfiable E r (ec.map ZCon.ofCon) (fun _ => pure ()) s1 with ⟨res2, s2⟩
      rw [hz] at hsp
      cases res2 with
      | error e =>
        obtain ⟨he, hst, hfr⟩ := hsp
        have hne : (e == Err.unsat) = false := by
          obtain ⟨he1, _⟩ := he; subst he1; rfl
        simp only [hne, Bool.false_eq_true, ↓reduceIte]
        exact ⟨he, clInv_after_query h hgs hst hfr⟩
      | ok b =>
        obtain ⟨hb, hst, hfr⟩ := hsp
        refine ⟨?_, clInv_after_query h hgs hst hfr⟩
        rw [hb]
        constructor
        · rintro ⟨a, ha⟩
          exact ⟨a, by
            have := (satBy_query h hgs ec a).mp ha
            rw [models_append] at this ⊢
            exact ⟨this.1, (hequiv a).mp this.2⟩⟩
        · rintro ⟨a, ha⟩
          refine ⟨a, (satBy_query h hgs ec a).mpr ?_⟩
          rw [models_append] at ha ⊢
          exact ⟨ha.1, (hequiv a).mpr ha.2⟩

end Claripy.Solver
