import Claripy.Solver.Structure
import ClaripyProofs.Lemmas.Solver.Independent
/-!
merge / combine at the level of constraint lists: the model sets are what C15 says.
-/
namespace Claripy.Solver

theorem holdsAll_iff (cs : List Con) (a : Asg) : holdsAll cs a = true ↔ Models cs a := by
  simp [holdsAll, Models, List.all_eq_true]

/-- the merged constraint holds exactly in the assignments that satisfy some merge condition together with the
constraints of the corresponding solver -/
theorem mergeSem_iff (opts : List (Con × List Con)) (a : Asg) :
    mergeSem opts a = true ↔ ∃ o ∈ opts, o.1.sem a = true ∧ Models o.2 a := by
  simp only [mergeSem, List.any_eq_true, Bool.and_eq_true, holdsAll_iff]

/-- the combined solver has exactly the models of all constraint sets together -/
theorem combineCons_iff (self : List Con) (others : List (List Con)) (a : Asg) :
    Models (combineCons self others) a ↔ Models self a ∧ ∀ o ∈ others, Models o a := by
  simp only [combineCons, models_append]
  refine and_congr_right fun _ => ?_
  simp only [Models, List.mem_flatten]
  exact ⟨fun h o ho c hc => h c ⟨o, ho, hc⟩, fun h c ⟨o, ho, hc⟩ => h o ho c hc⟩

/-- merging with a common ancestor: the ancestor's models that satisfy some condition -/
theorem ancestorMerge_iff (anc : List Con) (conds : List Con) (orc : Con)
    (hor : ∀ a, orc.sem a = conds.any (·.sem a)) (a : Asg) :
    Models (anc ++ [orc]) a ↔ Models anc a ∧ ∃ c ∈ conds, c.sem a = true := by
  rw [models_append]
  refine and_congr_right fun _ => ?_
  simp [Models, hor, List.any_eq_true]

end Claripy.Solver
