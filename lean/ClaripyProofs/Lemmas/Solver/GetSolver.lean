import ClaripyProofs.Lemmas.Solver.L1
/-!
L2: `FullFrontend._get_solver` / `_add_constraints` establish that the Z3 object the frontend references asserts
exactly (up to meaning) the frontend's constraints, with nothing pending.
Untracked frontends, `reuse_z3_solver` off.
-/
namespace Claripy.Solver

/-- what the FullFrontend part of a frontend record and its Z3 object must satisfy between calls -/
structure CoreInv (s : St) : Prop where
  /-- pending constraints are among the constraints (semantically) -/
  toAdd_sub : ∀ a, holdsAll s.fe.constraints a = true → holdsAll s.fe.toAdd a = true
  /-- the referenced object exists, has no open scope, and together with what is pending says what the constraints say -/
  obj : ∀ r, s.fe.solver = some r → r < s.objs.length ∧ (∃ f, (objAt s r).frames = [f]) ∧
        ∀ a, (SatBy (objAt s r).asserted a ∧ holdsAll s.fe.toAdd a = true) ↔ holdsAll s.fe.constraints a = true
  noReuse : s.reuse = false
  untracked : s.fe.track = false

theorem satBy_ofCon (cs : List Con) (a : Asg) : SatBy (cs.map ZCon.ofCon) a ↔ holdsAll cs a = true := by
  simp [SatBy, holdsAll, ZCon.ofCon, List.all_eq_true]

theorem z3Add_untracked (r : Nat) (cs : List ZCon) (s : St) :
    z3Add r cs false s = (.ok (), { s with objs := s.objs.set r ((objAt s r).addTop cs) }) := rfl

theorem objAt_other_set (s : St) (r i : Nat) (o : Z3Obj) (h : i ≠ r) :
    objAt { s with objs := s.objs.set r o } i = objAt s i := by
  simp [objAt, List.getD, List.getElem?_set, Ne.symm h]

/-- `_add_constraints` on an existing object `r` -/
theorem addConstraints_eq (s : St) (r : Nat) (hs : s.fe.solver = some r) (ht : s.fe.track = false) :
    addConstraints s = (.ok (), { s with objs := s.objs.set r ((objAt s r).addTop (s.fe.constraints.map ZCon.ofCon)),
                                         fe := { s.fe with toAdd := [] } }) := by
  simp [addConstraints, bind, M.bind, hs, ht, z3Add_untracked]

theorem objAt_objs (st : St) (r : Nat) (o : Z3Obj) (l : List Z3Obj) (h : st.objs = l.set r o) (hlt : r < l.length) :
    objAt st r = o := by
  simp [objAt, h, List.getD, hlt]

theorem holdsAll_nil (a : Asg) : holdsAll [] a = true := rfl

/-- the state `_get_solver` leaves behind -/
structure GotSolver (s s' : St) (r : Nat) : Prop where
  fe : s'.fe = { s.fe with solver := some r, toAdd := [] }
  lt : r < s'.objs.length
  frames : ∃ f, (objAt s' r).frames = [f]
  asserted : ∀ a, SatBy (objAt s' r).asserted a ↔ holdsAll s.fe.constraints a = true
  /-- objects that existed before and are not the one in use are untouched; `r` is the old object or a new one -/
  others : ∀ i, i < s.objs.length → i ≠ r → s'.objs[i]? = s.objs[i]?
  grow : s.objs.length ≤ s'.objs.length
  fresh_or_same : s.fe.solver = some r ∧ s.fe.finalized = false ∨ s.objs.length ≤ r ∨ (s.fe.solver = some r ∧ s.fe.toAdd = [] ∧ s'.objs = s.objs)
  reuse : s'.reuse = s.reuse
  shared : s'.shared = s.shared

theorem asserted_of_frames {o : Z3Obj} {f : List ZCon} (h : o.frames = [f]) : o.asserted = f := by
  simp [Z3Obj.asserted, h]

theorem getSolver_spec (s : St) (h : CoreInv s) :
    match getSolver s with
    | (.ok r, s') => GotSolver s s' r
    | (.error _, _) => False := by
  have hr := h.noReuse
  have ht := h.untracked
  cases hsol : s.fe.solver with
  | none =>
    -- a fresh object
    simp only [getSolver, bind, M.bind, M.getFe_apply, hsol, Option.isNone_none, ↓reduceIte, backendSolver, M.get_apply, hr,
      Bool.not_false, Bool.true_or, newObj, Bool.false_eq_true, pure, M.pure, M.modifyFe_apply]
    simp only [addConstraints, z3Add, bind, M.bind, M.getFe_apply, getObj_apply, setObj_apply, M.modifyFe_apply, ht,
          Bool.false_eq_true, ↓reduceIte, Option.getD_some]
    simp only [List.isEmpty_nil, Bool.not_true, Bool.false_eq_true, ↓reduceIte, pure, M.pure, M.get_apply, hr, M.getFe_apply,
      Option.getD_some]
    refine ⟨by simp [ht], by simp, ?_, ?_, ?_, by simp, Or.inr (Or.inl (Nat.le_refl _)), by simp [hr], rfl⟩
    · exact ⟨[] ++ s.fe.constraints.map ZCon.ofCon, by simp [objAt, List.getD, Z3Obj.addTop]⟩
    · intro a
      have : ∀ (o : Z3Obj), o.frames = [[]] → (o.addTop (s.fe.constraints.map ZCon.ofCon)).asserted
          = s.fe.constraints.map ZCon.ofCon := by
        intro o ho; rw [Z3Obj.asserted_addTop, asserted_of_frames ho]; simp
      simp only [objAt, List.length_append, List.length_cons, List.length_nil, Nat.zero_add, Nat.lt_add_one,
        List.getD_eq_getElem?_getD, List.getElem?_set_self, Option.getD_some]
      rw [this _ (by simp)]
      exact satBy_ofCon _ a
    · intro i hi hne
      simp [List.getElem?_set, Ne.symm hne, List.getElem?_append_left hi]
  | some r =>
    obtain ⟨hlt, ⟨f, hf⟩, hsem⟩ := h.obj r hsol
    have has : (objAt s r).asserted = f := asserted_of_frames hf
    have hfr : ∀ (o : Z3Obj), o.frames = [f] → (o.addTop (s.fe.constraints.map ZCon.ofCon)).asserted
        = f ++ s.fe.constraints.map ZCon.ofCon := by
      intro o ho; rw [Z3Obj.asserted_addTop, asserted_of_frames ho]
    have hf' : (s.objs[r]?.getD {}).frames = [f] := by simpa [objAt, List.getD] using hf
    by_cases hta : s.fe.toAdd.isEmpty = true
    · -- nothing pending: nothing to do
      simp only [getSolver, bind, M.bind, M.getFe_apply, hsol, Option.isNone_some, Bool.false_eq_true, ↓reduceIte,
        hta, Bool.not_true, Bool.and_false, M.get_apply, hr, pure, M.pure, Option.getD_some]
      have hnil : s.fe.toAdd = [] := by simpa using hta
      refine ⟨?_, hlt, ⟨f, hf⟩, ?_, fun _ _ _ => rfl, Nat.le_refl _, Or.inr (Or.inr ⟨hsol, hnil, rfl⟩), rfl, rfl⟩
      · cases hfe : s.fe; simp [hfe] at hsol hnil ⊢; simp [hsol, hnil]
      · intro a
        have := hsem a
        rw [hnil] at this
        simpa [holdsAll_nil] using this
    · have hta' : s.fe.toAdd.isEmpty = false := by simpa using hta
      cases hfz : s.fe.finalized with
      | true =>
        -- finalized with pending constraints: clone, then assert everything
        simp only [getSolver, bind, M.bind, M.getFe_apply, hsol, Option.isNone_some, Bool.false_eq_true, ↓reduceIte, hfz, hta',
          Bool.not_false, Bool.and_self, M.get_apply, hr, ht, Bool.or_self, cloneSolver, getObj_apply, Option.getD_some,
          M.modifyFe_apply, pure, M.pure]
        simp only [addConstraints, z3Add, bind, M.bind, M.getFe_apply, getObj_apply, setObj_apply, M.modifyFe_apply, ht,
          Bool.false_eq_true, ↓reduceIte, Option.getD_some]
        simp only [List.isEmpty_nil, Bool.not_true, Bool.false_eq_true, ↓reduceIte, pure, M.pure, M.get_apply, hr, M.getFe_apply,
          Option.getD_some]
        refine ⟨by simp [ht, hfz], by simp, ?_, ?_, ?_, by simp, Or.inr (Or.inl (Nat.le_refl _)), by simp [hr], rfl⟩
        · refine ⟨f ++ s.fe.constraints.map ZCon.ofCon, ?_⟩
          simp only [objAt, List.length_append, List.length_cons, List.length_nil, Nat.zero_add, Nat.lt_add_one,
            List.getD_eq_getElem?_getD, List.getElem?_set_self, Option.getD_some]
          simp [Z3Obj.addTop, hf']
        · intro a
          simp only [objAt, List.length_append, List.length_cons, List.length_nil, Nat.zero_add, Nat.lt_add_one,
            List.getD_eq_getElem?_getD, List.getElem?_set_self, Option.getD_some]
          rw [hfr _ (by simpa using hf'), SatBy.append, satBy_ofCon]
          constructor
          · exact fun hh => hh.2
          · intro hc
            have := (hsem a).mpr hc
            rw [has] at this
            exact ⟨this.1, hc⟩
        · intro i hi hne
          simp [List.getElem?_set, Ne.symm hne, List.getElem?_append_left hi]
      | false =>
        -- pending constraints on a frontend that is not finalized: assert in place
        simp only [getSolver, bind, M.bind, M.getFe_apply, hsol, Option.isNone_some, Bool.false_eq_true, ↓reduceIte, hfz, hta',
          Bool.not_false, Bool.false_and, pure, M.pure]
        simp only [addConstraints, z3Add, bind, M.bind, M.getFe_apply, getObj_apply, setObj_apply, M.modifyFe_apply, ht,
          Bool.false_eq_true, ↓reduceIte, Option.getD_some, hsol]
        simp only [M.get_apply, hr, Bool.false_eq_true, ↓reduceIte, pure, M.pure, M.getFe_apply, hsol, Option.getD_some,
          List.isEmpty_nil, Bool.not_true]
        simp only [M.bind, M.getFe_apply, M.pure_apply', Option.getD_some]
        refine ⟨?_, by simpa using hlt, ?_, ?_, ?_, by simp, Or.inl ⟨hsol, hfz⟩, by simp [hr], rfl⟩
        · cases hfe : s.fe; simp [hfe] at hsol ht ⊢; simp [hsol, ht]
        · exact ⟨f ++ s.fe.constraints.map ZCon.ofCon, by rw [objAt_objs _ r _ s.objs rfl hlt]; simp [Z3Obj.addTop, hf]⟩
        · intro a
          rw [objAt_objs _ r _ s.objs rfl hlt, Z3Obj.asserted_addTop, SatBy.append, satBy_ofCon]
          constructor
          · exact fun hh => hh.2
          · intro hc
            exact ⟨((hsem a).mpr hc).1, hc⟩
        · intro i hi hne
          simp [List.getElem?_set, Ne.symm hne]

end Claripy.Solver
