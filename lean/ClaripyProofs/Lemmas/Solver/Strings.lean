import ClaripyProofs.Lemmas.Solver.CachelessHistory
/-!
The class `SolverStrings` = ConcreteHandler, ConstraintFilter, ConstraintDeduplicator, EagerResolution over FullFrontend (MRO
from the generated file; bit-vector alphabets — string-theory answers are L0): the queries are literally those of
SolverCacheless, `_add` and `simplify` lack the SimplifySkipper step.  Whole histories over trees of branched solvers.
-/
namespace Claripy.Solver
open Claripy.Gen.SolverMro

/-- the class seen through `self` inside its own methods (`k + 1` unrollings) -/
def stStage (E : Env) (k : Nat) : Ops := stage E (mro .SolverStrings) (k + 1)

theorem stStage_ok (E : Env) (k : Nat) : SelfOk (stStage E k) := by
  constructor <;> intros <;>
  simp [stStage, stage, compose, mro, layerOf, eagerLayer, frontendBase, concreteHandlerLayer, filterLayer, dedupLayer,
    fullLayer, constrainedLayer]

theorem classOps_strings (E : Env) : classOps E .SolverStrings = stStage E 4 := rfl

theorem stStage_satisfiable (E : Env) (k : Nat) : (stStage E (k + 1)).satisfiable = clSat E (stStage E k) := rfl
theorem stStage_eval (E : Env) (k : Nat) : (stStage E (k + 1)).eval = clEval E (stStage E k) := rfl
theorem stStage_solution (E : Env) (k : Nat) : (stStage E (k + 1)).solution = clSolution E (stStage E k) := rfl
theorem stStage_max (E : Env) (k : Nat) :
    (stStage E (k + 1)).max = fun e extra signed => clExtremum E (stStage E k) true e extra signed := rfl
theorem stStage_min (E : Env) (k : Nat) :
    (stStage E (k + 1)).min = fun e extra signed => clExtremum E (stStage E k) false e extra signed := rfl
theorem stStage_isTrue (E : Env) (k : Nat) : (stStage E (k + 1)).isTrue = clTruth E (stStage E k) true := by
  funext c extra
  simp only [stStage, stage, compose, mro, layerOf, List.foldr, concreteHandlerLayer, clTruth]
  rfl
theorem stStage_isFalse (E : Env) (k : Nat) : (stStage E (k + 1)).isFalse = clTruth E (stStage E k) false := by
  funext c extra
  simp only [stStage, stage, compose, mro, layerOf, List.foldr, concreteHandlerLayer, clTruth]
  rfl
theorem stStage_downsize (E : Env) (k : Nat) (s : St) : (stStage E (k + 1)).downsize s = (.ok (), clDownsizeSt s) := rfl

/-! ### `_add` through ConstraintDeduplicator, FullFrontend, ConstrainedFrontend -/

/-- the deduplicating add without the SimplifySkipper step, as a function on the state -/
def dedupAddSSt (ec : List Con) (s : St) : List Con × St :=
  let filtered := ec.filter fun c => !s.fe.hashes.contains c.id
  if filtered.isEmpty then (filtered, s)
  else
    let r := constrainedAddLoop filtered s.fe []
    (r.2, { s with fe := { r.1 with toAdd := r.1.toAdd ++ r.2, hashes := listUnion r.1.hashes (r.2.map (·.id)) } })

theorem dedupAddSSt_spec (ec : List Con) (s : St) : Added s (dedupAddSSt ec s).2 ec (dedupAddSSt ec s).1 := by
  unfold dedupAddSSt
  by_cases hf : (ec.filter fun c => !s.fe.hashes.contains c.id).isEmpty = true
  · have hnil : (ec.filter fun c => !s.fe.hashes.contains c.id) = [] := by simpa using hf
    simp only [hnil]
    refine ⟨by simp, by simp, rfl, rfl, rfl, rfl, rfl, by simp, fun i h => Or.inl h, ?_⟩
    intro c hc
    right; left; left
    by_cases hcon : c.id ∈ s.fe.hashes
    · exact hcon
    · have : c ∈ (ec.filter fun c => !s.fe.hashes.contains c.id) := List.mem_filter.mpr ⟨hc, by simpa using hcon⟩
      rw [hnil] at this
      simp at this
  · simp only [hf, Bool.false_eq_true, ↓reduceIte]
    obtain ⟨new, h1, h2, h3, h4, h5⟩ := constrainedAddLoop_spec (ec.filter fun c => !s.fe.hashes.contains c.id) s.fe []
    simp only [List.nil_append] at h1
    rcases hl : constrainedAddLoop (ec.filter fun c => !s.fe.hashes.contains c.id) s.fe [] with ⟨fe', added⟩
    rw [hl] at h1 h2 h4
    simp only at h1 h2 h4 ⊢
    subst h1
    have hcons : fe'.constraints = s.fe.constraints ++ added := by rw [h2]
    have htoadd : fe'.toAdd = s.fe.toAdd := by rw [h2]
    have hsolver : fe'.solver = s.fe.solver := by rw [h2]
    have htrack : fe'.track = s.fe.track := by rw [h2]
    have hhash : fe'.hashes = s.fe.hashes := by rw [h2]
    have hfin : fe'.finalized = s.fe.finalized := by rw [h2]
    refine ⟨by simp [hcons], by simp [htoadd], by simp [hsolver], by simp [htrack], rfl, rfl, by simp [hfin], ?_, ?_, ?_⟩
    · intro c hc; exact (List.mem_filter.mp (h3 c hc)).1
    · intro i hi
      rcases hi with hi | hi
      · rcases (mem_listUnion _ _ i).mp hi with hi | hi
        · left; left; simpa [hhash] using hi
        · right
          obtain ⟨c, hc, rfl⟩ := List.mem_map.mp hi
          exact ⟨c, hc, rfl⟩
      · rcases (h4 i).mp hi with hi | hi
        · exact Or.inl (Or.inr hi)
        · exact Or.inr hi
    · intro c hc
      by_cases hh : c.id ∈ s.fe.hashes
      · exact Or.inr (Or.inl (Or.inl hh))
      · have hm : c ∈ ec.filter fun c => !s.fe.hashes.contains c.id := List.mem_filter.mpr ⟨hc, by simpa using hh⟩
        rcases h5 c hm with h | h | h
        · exact Or.inl h
        · exact Or.inr (Or.inl (Or.inr h))
        · exact Or.inr (Or.inr h)

/-- the public `_add` of the class as a function on the state -/
def stAddSt (E : Env) (self : Ops) (cs : List Con) (s : St) : List Con × St :=
  if cs.isEmpty then ([], s)
  else if !(filteredOf E self cs).isEmpty then dedupAddSSt (filteredOf E self cs) s else ([], s)

theorem stStage_add (E : Env) (k : Nat) (cs : List Con) (inv : Bool) (s : St) :
    (stStage E (k + 1)).add cs inv s = (.ok (stAddSt E (stStage E k) cs s).1, (stAddSt E (stStage E k) cs s).2) := by
  show (do
      let ec := filteredOf E (stStage E k) cs
      if cs.isEmpty then pure []
      else if !ec.isEmpty then (do
        let fe ← M.getFe
        let filtered := ec.filter fun c => !fe.hashes.contains c.id
        if filtered.isEmpty then pure filtered
        else do
          let added ← (do
            let toAdd ← (fun s => let (fe', added) := constrainedAddLoop filtered s.fe []
                                  ((.ok added : Except Err (List Con)), { s with fe := fe' }) : M (List Con))
            M.modifyFe fun fe => { fe with toAdd := fe.toAdd ++ toAdd }
            pure toAdd)
          M.modifyFe fun fe => { fe with hashes := listUnion fe.hashes (added.map (·.id)) }
          pure added)
      else pure [] : M (List Con)) s = _
  unfold stAddSt dedupAddSSt
  by_cases hemp : cs.isEmpty = true
  · simp [hemp, pure]
  · simp only [hemp, Bool.false_eq_true, ↓reduceIte]
    by_cases hece : (filteredOf E (stStage E k) cs).isEmpty = true
    · simp [hece, pure, M.pure]
    · simp only [hece, Bool.not_false, ↓reduceIte, bind, M.bind, M.getFe_apply]
      by_cases hf : ((filteredOf E (stStage E k) cs).filter fun c => !s.fe.hashes.contains c.id).isEmpty = true
      · simp only [hf, ↓reduceIte, pure, M.pure]
      · simp only [hf, Bool.false_eq_true, ↓reduceIte, M.bind, M.modifyFe_apply, pure, M.pure]

theorem stAdd_spec {E : Env} {R : Con → Prop} (hR : Reg R E) {self : Ops} (hs : SelfOk self) (U : List Con) (s : St)
    (h : CLInv0 U s) (hd : DInv R U s) (cs : List Con) (hcs : ∀ c ∈ cs, R c) :
    CLInv0 (U ++ cs) (stAddSt E self cs s).2 ∧ DInv R (U ++ cs) (stAddSt E self cs s).2 ∧ MStep s (stAddSt E self cs s).2 := by
  unfold stAddSt
  obtain ⟨hecR, hecEq⟩ := filtered_equiv hR hs cs hcs
  generalize filteredOf E self cs = ec at hecR hecEq ⊢
  have hU : ∀ a, holdsAll (U ++ cs) a = (holdsAll U a && holdsAll ec a) := by
    intro a; rw [holdsAll_append, hecEq a]
  by_cases hemp : cs.isEmpty = true
  · have : cs = [] := by simpa using hemp
    subst this
    simp only [List.isEmpty_nil, ↓reduceIte]
    exact ⟨by simpa using h, by simpa using hd, MStep.refl s⟩
  · simp only [hemp, Bool.false_eq_true, ↓reduceIte]
    by_cases hece : ec.isEmpty = true
    · have : ec = [] := by simpa using hece
      subst this
      simp only [List.isEmpty_nil, Bool.not_true, Bool.false_eq_true, ↓reduceIte]
      have hU' : ∀ a, holdsAll (U ++ cs) a = holdsAll U a := by intro a; rw [hU a]; simp [holdsAll]
      exact ⟨⟨h.core, fun a => by rw [hU' a]; exact h.equiv a, ⟨_, trivial, QStep.refl _⟩⟩,
        ⟨hd.consR, fun c hc hi a ha => hd.seen c hc hi a (by rw [← hU' a]; exact ha)⟩, MStep.refl s⟩
    · simp only [hece, Bool.not_false, ↓reduceIte]
      have had := dedupAddSSt_spec ec s
      generalize (dedupAddSSt ec s).1 = new at had
      generalize (dedupAddSSt ec s).2 = s' at had
      refine ⟨?_, ?_, ⟨had.objs, Or.inl had.solver, had.reuse, fun hf => by rw [had.fin]; exact hf⟩⟩
      have hcov : ∀ a, holdsAll U a = true → holdsAll new a = true → holdsAll ec a = true := by
        intro a hUa hna
        rw [← models_iff_holdsAll]
        intro c hc
        rcases had.cover c hc with hn | hseen | ⟨c', hc', hid⟩
        · exact (models_iff_holdsAll new a).mpr hna c hn
        · exact hd.seen c (hecR c hc) hseen a hUa
        · rw [hR.faithful c c' (hecR c hc) (hecR c' (had.sub c' hc')) hid.symm a]
          exact (models_iff_holdsAll new a).mpr hna c' hc'
      have hsubsem : ∀ a, holdsAll ec a = true → holdsAll new a = true := by
        intro a hea
        rw [← models_iff_holdsAll] at hea ⊢
        exact fun c hc => hea c (had.sub c hc)
      have hcons : ∀ a, holdsAll s'.fe.constraints a = holdsAll (U ++ cs) a := by
        intro a
        rw [had.cons, holdsAll_append, h.equiv a, hU a]
        cases hUa : holdsAll U a
        · simp
        · simp only [Bool.true_and]
          cases hna : holdsAll new a
          · cases hea : holdsAll ec a
            · rfl
            · have := hsubsem a hea; simp [hna] at this
          · exact (hcov a hUa hna).symm
      · refine ⟨⟨?_, ?_, ?_, ?_⟩, hcons, ⟨_, trivial, QStep.refl _⟩⟩
        · intro a ha
          rw [had.cons, holdsAll_append] at ha
          rw [had.toAdd, holdsAll_append]
          simp only [Bool.and_eq_true] at ha ⊢
          exact ⟨h.core.toAdd_sub a ha.1, ha.2⟩
        · intro r hr
          rw [had.solver] at hr
          obtain ⟨hlt, hfr, hsem⟩ := h.core.obj r hr
          have hobj : objAt s' r = objAt s r := objAt_of_objs_eq had.objs r
          refine ⟨by rw [had.objs]; exact hlt, by rw [hobj]; exact hfr, fun a => ?_⟩
          rw [hobj, had.toAdd, had.cons, holdsAll_append, holdsAll_append]
          simp only [Bool.and_eq_true]
          constructor
          · rintro ⟨h1, h2, h3⟩
            exact ⟨(hsem a).mp ⟨h1, h2⟩, h3⟩
          · rintro ⟨h1, h2⟩
            have := (hsem a).mpr h1
            exact ⟨this.1, this.2, h2⟩
        · rw [had.reuse]; exact h.core.noReuse
        · rw [had.track]; exact h.core.untracked
      · refine ⟨?_, ?_⟩
        · intro c hc
          rw [had.cons] at hc
          rcases List.mem_append.mp hc with hc | hc
          · exact hd.consR c hc
          · exact hecR c (had.sub c hc)
        · intro c hc hi a ha
          rw [hU a] at ha
          simp only [Bool.and_eq_true] at ha
          rcases had.ids c.id hi with hold | ⟨c', hc', hid⟩
          · exact hd.seen c hc hold a ha.1
          · rw [hR.faithful c c' hc (hecR c' (had.sub c' hc')) hid.symm a]
            exact (models_iff_holdsAll ec a).mpr ha.2 c' (had.sub c' hc')

/-! ### `simplify` (no skipper: it always simplifies) -/

def stSimplifySt (E : Env) (s : St) : List Con × St :=
  if s.fe.constraints.isEmpty then
    (s.fe.constraints, { s with fe := { s.fe with solver := none, toAdd := [],
                                                   hashes := listUnion s.fe.hashes (s.fe.constraints.map (·.id)) } })
  else
    let out := E.simp s.fe.constraints s.tick
    (out, { s with tick := s.tick + 1,
                   fe := { s.fe with constraints := out, solver := none, toAdd := [],
                                     hashes := listUnion s.fe.hashes (out.map (·.id)) } })

theorem stStage_simplify (E : Env) (k : Nat) (s : St) :
    (stStage E (k + 1)).simplify s = (.ok (stSimplifySt E s).1, (stSimplifySt E s).2) := by
  show (do
    let added ← (do
      let _ ← (do
        let fe ← M.getFe
        if fe.constraints.isEmpty then pure fe.constraints
        else do
          let s ← M.get
          let out := E.simp fe.constraints s.tick
          M.modify fun s => { s with tick := s.tick + 1, fe := { s.fe with constraints := out } }
          pure out)
      M.modifyFe fun fe => { fe with solver := none, toAdd := [] }
      let fe ← M.getFe
      pure fe.constraints)
    M.modifyFe fun fe => { fe with hashes := listUnion fe.hashes (added.map (·.id)) }
    pure added : M (List Con)) s = _
  unfold stSimplifySt
  simp only [bind, M.bind, M.getFe_apply]
  by_cases hemp : s.fe.constraints.isEmpty = true
  · simp [hemp, pure, M.pure, M.modifyFe_apply]
  · simp [hemp, M.bind, M.get_apply, M.modify_apply, pure, M.pure, M.modifyFe_apply]

theorem stSimplify_spec {E : Env} {R : Con → Prop} (hR : Reg R E) (hS : SimpOn R E) (U : List Con) (s : St)
    (h : CLInv0 U s) (hd : DInv R U s) : CLInv0 U (stSimplifySt E s).2 ∧ DInv R U (stSimplifySt E s).2 := by
  have hseen : ∀ (cons : List Con), (∀ c ∈ cons, R c) → (∀ a, holdsAll cons a = holdsAll U a) →
      ∀ c, R c → (c.id ∈ listUnion s.fe.hashes (cons.map (·.id)) ∨ c.id ∈ s.fe.woAnnot) →
      ∀ a, holdsAll U a = true → c.sem a = true := by
    intro cons hcR heq c hc hi a ha
    rcases hi with hi | hi
    · rcases (mem_listUnion _ _ _).mp hi with hi | hi
      · exact hd.seen c hc (Or.inl hi) a ha
      · obtain ⟨c', hc', hid⟩ := List.mem_map.mp hi
        rw [hR.faithful c c' hc (hcR c' hc') hid.symm a]
        have : holdsAll cons a = true := by rw [heq a]; exact ha
        exact (models_iff_holdsAll cons a).mpr this c' hc'
    · exact hd.seen c hc (Or.inr hi) a ha
  unfold stSimplifySt
  by_cases hemp : s.fe.constraints.isEmpty = true
  · simp only [hemp, ↓reduceIte]
    exact ⟨⟨⟨fun a _ => rfl, fun r hr => by simp at hr, h.core.noReuse, h.core.untracked⟩, h.equiv, ⟨_, trivial, QStep.refl _⟩⟩,
           ⟨hd.consR, hseen s.fe.constraints hd.consR h.equiv⟩⟩
  · simp only [hemp, Bool.false_eq_true, ↓reduceIte]
    have heq := hS s.fe.constraints s.tick hd.consR
    have hoR := hR.simp_closed s.fe.constraints s.tick hd.consR
    have hequ : ∀ a, holdsAll (E.simp s.fe.constraints s.tick) a = holdsAll U a := fun a => by rw [heq a, h.equiv a]
    exact ⟨⟨⟨fun a _ => rfl, fun r hr => by simp at hr, h.core.noReuse, h.core.untracked⟩, hequ, ⟨_, trivial, QStep.refl _⟩⟩,
           ⟨hoR, hseen _ hoR hequ⟩⟩

theorem stSimplify_mstep (E : Env) (s : St) : MStep s (stSimplifySt E s).2 := by
  unfold stSimplifySt
  by_cases hemp : s.fe.constraints.isEmpty = true
  · simp only [hemp, ↓reduceIte]; exact ⟨rfl, Or.inr rfl, rfl, id⟩
  · simp only [hemp, Bool.false_eq_true, ↓reduceIte]; exact ⟨rfl, Or.inr rfl, rfl, id⟩

end Claripy.Solver
