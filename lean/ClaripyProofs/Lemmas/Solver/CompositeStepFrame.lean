import ClaripyProofs.Lemmas.Solver.CompositeBranch
/-!
**The footprint of the calls of a composite** (`StepFrame`, `CompFrames` of CompositeBranch.lean), by an invariant-free calculus:
`StepFrame s0 ·` is kept by every primitive of the composite layer (`_solver_for_names` with `combine`, `_claim`, the child's `add`
on a CLAIMED record, `_store_child`, the oracle for set orders, `blank_copy`), given only that the QUERY methods of the child class
keep `constraints` and `variables` of the record they run on (`ChildKeeps`, a statement about class SolverCompositeChild alone).
-/
namespace Claripy.Solver

variable {E : Env}

/-- a method of the child class that does not write `constraints` / `variables` of its own record -/
def KeepsCV {α : Type} (m : M α) : Prop :=
  ∀ s, (m s).2.fe.constraints = s.fe.constraints ∧ (m s).2.fe.variables = s.fe.variables

/-- **the query methods of class SolverCompositeChild never write `constraints` / `variables`** (no invariant involved) -/
structure ChildKeeps (E : Env) : Prop where
  checkSat : ∀ ex, KeepsCV (childCheckSat E ex)
  eval : ∀ e n ex, KeepsCV ((childOps E).eval e n ex)
  batchEval : ∀ es n ex, KeepsCV ((childOps E).batchEval es n ex)
  max : ∀ e ex sg, KeepsCV ((childOps E).max e ex sg)
  min : ∀ e ex sg, KeepsCV ((childOps E).min e ex sg)
  solution : ∀ e v ex, KeepsCV ((childOps E).solution e v ex)
  isTrue : ∀ c ex, KeepsCV ((childOps E).isTrue c ex)
  isFalse : ∀ c ex, KeepsCV ((childOps E).isFalse c ex)

theorem keepsCV_branchC (E : Env) : KeepsCV (branchC E) := by
  intro s
  obtain ⟨c, hrun, _⟩ := branchC_spec E s
  rw [hrun]; exact ⟨rfl, rfl⟩

/-- a record the composite may write: it owned it at the start of the call, or it is a new record -/
def Mine (s0 : CSt) (j : Nat) : Prop := j ∈ s0.c.owned ∨ s0.w.fes.length ≤ j

/-- a record `_solvers` may point to: it did at the start of the call, or it is a new record -/
def Good (s0 : CSt) (j : Nat) : Prop := j ∈ s0.c.solverList ∨ s0.w.fes.length ≤ j

theorem StepFrame.step {s0 s s' : CSt} (h : StepFrame s0 s)
    (hlen : s.w.fes.length ≤ s'.w.fes.length)
    (hch : ∀ k, k < s0.w.fes.length → k ∉ s0.c.owned →
      (s'.child k).constraints = (s.child k).constraints ∧ (s'.child k).variables = (s.child k).variables)
    (hown : ∀ k ∈ s'.c.owned, k ∈ s.c.owned ∨ (s0.w.fes.length ≤ k ∧ k < s'.w.fes.length))
    (hsl : ∀ k ∈ s'.c.solverList, k ∈ s.c.solverList ∨ Good s0 k) : StepFrame s0 s' := by
  obtain ⟨a, b, c, d⟩ := h
  refine ⟨Nat.le_trans a hlen, ?_, ?_, ?_⟩
  · intro k hk hko
    obtain ⟨x, y⟩ := hch k hk hko
    obtain ⟨x', y'⟩ := b k hk hko
    exact ⟨x.trans x', y.trans y'⟩
  · intro k hk
    rcases hown k hk with h1 | h1
    · rcases c k h1 with h2 | h2
      · exact Or.inl h2
      · exact Or.inr ⟨h2.1, Nat.lt_of_lt_of_le h2.2 hlen⟩
    · exact Or.inr h1
  · intro k hk
    rcases hsl k hk with h1 | h1
    · exact d k h1
    · exact h1

/-- only the world changed -/
theorem StepFrame.world {s0 s : CSt} (h : StepFrame s0 s) (w' : World) (hlen : s.w.fes.length ≤ w'.fes.length)
    (hch : ∀ k, k < s0.w.fes.length → k ∉ s0.c.owned →
      (w'.fes.getD k {}).constraints = (s.w.fes.getD k {}).constraints ∧ (w'.fes.getD k {}).variables = (s.w.fes.getD k {}).variables) :
    StepFrame s0 { s with w := w' } :=
  h.step hlen hch (fun _ hk => Or.inl hk) (fun _ hk => Or.inl hk)

/-- only fields of the composite other than `_solvers` / `_owned_solvers` changed -/
theorem StepFrame.comp {s0 s : CSt} (h : StepFrame s0 s) (c' : Comp) (ho : c'.owned = s.c.owned) (hs : c'.solvers = s.c.solvers) :
    StepFrame s0 { s with c := c' } :=
  h.step (Nat.le_refl _) (fun _ _ _ => ⟨rfl, rfl⟩) (fun k hk => Or.inl (by rw [← ho]; exact hk))
    (fun k hk => Or.inl (by rw [← solverList_congr hs]; exact hk))

theorem StepFrame.mine_of_owned {s0 s : CSt} (h : StepFrame s0 s) {j : Nat} (hj : j ∈ s.c.owned) : Mine s0 j := by
  rcases h.2.2.1 j hj with h1 | h1
  · exact Or.inl h1
  · exact Or.inr h1.1

theorem StepFrame.good_of_mem {s0 s : CSt} (h : StepFrame s0 s) {j : Nat} (hj : j ∈ s.c.solverList) : Good s0 j := h.2.2.2 j hj

theorem runOn_cv {α : Type} (w : World) (j : Nat) (m : M α) (hm : KeepsCV m) (k : Nat) :
    ((runOn w j m).2.fes.getD k {}).constraints = (w.fes.getD k {}).constraints ∧
    ((runOn w j m).2.fes.getD k {}).variables = (w.fes.getD k {}).variables := by
  by_cases hk : k = j
  · subst hk
    by_cases hl : k < w.fes.length
    · rw [runOn_getD_self _ _ _ hl]
      exact hm (stOfI w k)
    · simp only [runOn]
      rw [List.set_eq_of_length_le (Nat.le_of_not_lt hl)]
      exact ⟨rfl, rfl⟩
  · rw [runOn_getD_ne _ _ _ _ hk]; exact ⟨rfl, rfl⟩

/-! ### the results of the composite's monad with the footprint -/

/-- the footprint holds for the state, and `Q` for a result -/
def SF (s0 : CSt) {α : Type} (Q : α → CSt → Prop) (r : Except Err α × CSt) : Prop :=
  StepFrame s0 r.2 ∧ ∀ a, r.1 = .ok a → Q a r.2

theorem sf_bind {α β : Type} {s0 : CSt} {m : CM α} {f : α → CM β} {s : CSt} {Q1 : α → CSt → Prop} {Q : β → CSt → Prop}
    (h1 : SF s0 Q1 (m s)) (h2 : ∀ a s1, StepFrame s0 s1 → Q1 a s1 → SF s0 Q (f a s1)) : SF s0 Q ((m >>= f) s) := by
  show SF s0 Q (CM.bind m f s)
  unfold CM.bind
  obtain ⟨hs, hq⟩ := h1
  cases hr : m s with
  | mk r s1 =>
    rw [hr] at hs hq
    cases r with
    | ok a => exact h2 a s1 hs (hq a rfl)
    | error e => exact ⟨hs, fun a ha => by cases ha⟩

theorem SF.mono {α : Type} {s0 : CSt} {Q Q' : α → CSt → Prop} {r : Except Err α × CSt} (h : SF s0 Q r)
    (hq : ∀ a s, StepFrame s0 s → Q a s → Q' a s) : SF s0 Q' r :=
  ⟨h.1, fun a ha => hq a _ h.1 (h.2 a ha)⟩

theorem sf_get {s0 s : CSt} (h : StepFrame s0 s) : SF s0 (fun a s1 => a = s ∧ s1 = s) (CM.get s) :=
  ⟨h, fun a ha => by cases ha; exact ⟨rfl, rfl⟩⟩

theorem sf_pure {α : Type} {s0 s : CSt} (h : StepFrame s0 s) (a : α) : SF s0 (fun b s1 => b = a ∧ s1 = s) ((pure a : CM α) s) :=
  ⟨h, fun b hb => by cases hb; exact ⟨rfl, rfl⟩⟩

theorem sf_throw {α : Type} {s0 s : CSt} (h : StepFrame s0 s) (e : Err) (Q : α → CSt → Prop) : SF s0 Q ((CM.throw e : CM α) s) :=
  ⟨h, fun b hb => by cases hb⟩

theorem sf_modifyC {s0 s : CSt} (h : StepFrame s0 s) (f : Comp → Comp) (ho : (f s.c).owned = s.c.owned)
    (hs : (f s.c).solvers = s.c.solvers) : SF s0 (fun _ s1 => s1 = { s with c := f s.c }) (CM.modifyC f s) :=
  ⟨h.comp _ ho hs, fun _ _ => rfl⟩

/-- a query of a child -/
theorem sf_onChild_keeps {α : Type} {s0 s : CSt} (h : StepFrame s0 s) (j : Nat) (m : M α) (hm : KeepsCV m) :
    SF s0 (fun _ s1 => s1.c = s.c ∧ s1.w.fes.length = s.w.fes.length) (CM.onChild j m s) := by
  refine ⟨?_, fun _ _ => ⟨rfl, runOn_fes_length _ _ _⟩⟩
  exact h.world _ (Nat.le_of_eq (runOn_fes_length _ _ _).symm) (fun k _ _ => runOn_cv s.w j m hm k)

/-- any method (the child's `add`) on a record that is the composite's own -/
theorem sf_onChild_mine {α : Type} {s0 s : CSt} (h : StepFrame s0 s) (j : Nat) (m : M α) (hj : Mine s0 j) :
    SF s0 (fun _ s1 => s1.c = s.c ∧ s1.w.fes.length = s.w.fes.length) (CM.onChild j m s) := by
  refine ⟨?_, fun _ _ => ⟨rfl, runOn_fes_length _ _ _⟩⟩
  refine h.world _ (Nat.le_of_eq (runOn_fes_length _ _ _).symm) (fun k hk hko => ?_)
  have hkj : k ≠ j := by
    rintro rfl
    rcases hj with h1 | h1
    · exact hko h1
    · omega
  rw [runOn_getD_ne _ _ _ _ hkj]; exact ⟨rfl, rfl⟩

/-- the oracle for the order of a set: one tick -/
theorem sf_orderOracle {α : Type} [BEq α] [LawfulBEq α] {s0 s : CSt} (h : StepFrame s0 s) (mt : α → List Nat → Bool)
    (keys : List (List Nat)) (l : List α) :
    SF s0 (fun r s1 => (∀ x, x ∈ r ↔ x ∈ l) ∧ s1.c = s.c ∧ s1.w.fes = s.w.fes) (orderOracle E mt keys l s) := by
  rw [orderOracle_run]
  exact ⟨h.world _ (Nat.le_refl _) (fun _ _ _ => ⟨rfl, rfl⟩), fun r hr => by cases hr; exact ⟨mem_reorderBy _ _ _, rfl, rfl⟩⟩

theorem sf_blankChild {s0 s : CSt} (h : StepFrame s0 s) :
    SF s0 (fun j s1 => j = s.w.fes.length ∧ s1.c = s.c ∧ s1.w.fes.length = s.w.fes.length + 1) (blankChild E s) := by
  refine ⟨?_, fun j hj => by cases hj; exact ⟨rfl, rfl, List.length_append⟩⟩
  refine h.world _ (by show _ ≤ (s.w.fes ++ [_]).length; simp) (fun k hk _ => ?_)
  have : k < s.w.fes.length := Nat.lt_of_lt_of_le hk h.1
  show ((s.w.fes ++ _).getD k {}).constraints = _ ∧ ((s.w.fes ++ _).getD k {}).variables = _
  rw [getD_append_left' _ _ _ _ this]; exact ⟨rfl, rfl⟩

/-! ### `_store_child`, `_claim` -/

theorem mem_foldl_alSet_snd (j : Nat) : ∀ (vars : List Var) (d : List (Var × Nat)) (p : Var × Nat),
    p ∈ vars.foldl (fun d v => alSet d v j) d → p ∈ d ∨ p.2 = j := by
  intro vars
  induction vars with
  | nil => intro d p hp; exact Or.inl hp
  | cons v rest ih =>
    intro d p hp
    rcases ih _ p hp with h1 | h1
    · replace h1 : p ∈ alSet d v j := h1
      unfold alSet at h1
      split at h1
      · obtain ⟨q, hq, hqp⟩ := List.mem_map.mp h1
        split at hqp
        · right; rw [← hqp]
        · left; rw [← hqp]; exact hq
      · rcases List.mem_append.mp h1 with h2 | h2
        · exact Or.inl h2
        · right; simp at h2; rw [h2]
    · exact Or.inr h1

theorem sf_storeChild {s0 s : CSt} (h : StepFrame s0 s) (j : Nat) (hj : Good s0 j) (inv : Bool) :
    SF s0 (fun _ s1 => s1.w = s.w ∧ s1.c.owned = s.c.owned) (storeChild j inv s) := by
  refine ⟨?_, fun _ _ => ⟨rfl, rfl⟩⟩
  refine h.step (Nat.le_refl _) (fun _ _ _ => ⟨rfl, rfl⟩) (fun k hk => Or.inl hk) ?_
  intro k hk
  obtain ⟨v, hv⟩ := (mem_solverList _ k).mp hk
  rcases mem_foldl_alSet_snd j _ _ _ hv with h1 | h1
  · exact Or.inl ((mem_solverList _ k).mpr ⟨v, h1⟩)
  · have : k = j := h1
    subst this
    exact Or.inr hj

/-- only the world changed, and the old records are as they were -/
theorem StepFrame.world_old {s0 s : CSt} (h : StepFrame s0 s) (w' : World) (hlen : s.w.fes.length ≤ w'.fes.length)
    (hch : ∀ i, i < s.w.fes.length → w'.fes.getD i {} = s.w.fes.getD i {}) : StepFrame s0 { s with w := w' } :=
  h.world w' hlen (fun k hk _ => by rw [hch k (Nat.lt_of_lt_of_le hk h.1)]; exact ⟨rfl, rfl⟩)

theorem child_branch_world (E : Env) (w : World) (j : Nat) :
    ∃ w', step E .SolverCompositeChild w j .branch = (.newSolver w.fes.length, w') ∧ w'.fes.length = w.fes.length + 1 ∧
      ∀ i, i < w.fes.length → (w'.fes.getD i {}).constraints = (w.fes.getD i {}).constraints ∧
        (w'.fes.getD i {}).variables = (w.fes.getD i {}).variables := by
  obtain ⟨c, hrun, _⟩ := branchC_spec E (stOfI w j)
  have hstep : step E .SolverCompositeChild w j .branch =
      (match runOn w j (branchC E) with
       | (.ok c, w') => (.newSolver w'.fes.length, { w' with fes := w'.fes ++ [c] })
       | (.error e, w') => (.err e, w')) := rfl
  have hcv := runOn_cv w j (branchC E) (keepsCV_branchC E)
  have hlen := runOn_fes_length w j (branchC E)
  rw [hstep]
  rw [runOn_eq, hrun] at hcv hlen ⊢
  simp only at hcv hlen ⊢
  refine ⟨_, by rw [hlen], by simp only [List.length_append, List.length_singleton, hlen], ?_⟩
  intro i hi
  show ((_ ++ [c]).getD i {}).constraints = _ ∧ ((_ ++ [c]).getD i {}).variables = _
  rw [getD_append_left' _ _ _ _ (by rw [hlen]; exact hi)]
  exact hcv i

/-- `_claim(j)`: the result is a record the composite may write; it is `j` or a new record -/
theorem sf_claim {s0 s : CSt} (h : StepFrame s0 s) (j : Nat) :
    SF s0 (fun k _ => Mine s0 k ∧ (k = j ∨ s0.w.fes.length ≤ k)) (claim E j s) := by
  by_cases ho : j ∈ s.c.owned
  · have : claim E j s = (.ok j, s) := by
      unfold claim
      simp only [bind, CM.bind, CM.get]
      rw [if_pos (by simpa using ho)]
      rfl
    rw [this]
    exact ⟨h, fun k hk => by cases hk; exact ⟨h.mine_of_owned ho, Or.inl rfl⟩⟩
  · obtain ⟨w', hst, hlen, hcv⟩ := child_branch_world E s.w j
    have : claim E j s = (.ok s.w.fes.length, { c := { s.c with owned := listInsert s.c.owned s.w.fes.length }, w := w' }) := by
      unfold claim
      simp only [bind, CM.bind, CM.get]
      rw [if_neg (by simpa using ho)]
      simp only [CM.bind, childBranch, hst, CM.modifyC]
      rfl
    rw [this]
    refine ⟨?_, fun k hk => by cases hk; exact ⟨Or.inr h.1, Or.inr h.1⟩⟩
    refine h.step (by show _ ≤ w'.fes.length; omega) (fun k hk _ => hcv k (Nat.lt_of_lt_of_le hk h.1)) ?_ (fun k hk => Or.inl hk)
    intro k hk
    rcases (mem_listInsert _ _ _).mp hk with h1 | h1
    · exact Or.inl h1
    · right; subst h1; exact ⟨h.1, by show _ < w'.fes.length; omega⟩

/-! ### `_solver_for_names` -/

theorem closureLoop_mem (s : CSt) : ∀ (fuel : Nat) (allNames newNames : List Var) (solvers : List Nat),
    ∀ t ∈ closureLoop s fuel allNames newNames solvers, t ∈ solvers ∨ t ∈ s.c.solverList := by
  intro fuel
  induction fuel with
  | zero => intro _ _ solvers t ht; exact Or.inl ht
  | succ n ih =>
    intro allNames newNames solvers t ht
    have hmem : ∀ t, t ∈ listUnion solvers (s.c.solversFor newNames) → t ∈ solvers ∨ t ∈ s.c.solverList := by
      intro t ht
      rcases (mem_listUnion _ _ _).mp ht with h1 | h1
      · exact Or.inl h1
      · obtain ⟨v, _, hv⟩ := (mem_solversFor _ _ _).mp h1
        exact Or.inr ((mem_solverList _ _).mpr ⟨v, mem_of_alGet? _ _ _ hv⟩)
    unfold closureLoop at ht
    simp only at ht
    split at ht
    · exact hmem t ht
    · rcases ih _ _ _ t ht with h1 | h1
      · exact hmem t h1
      · exact Or.inr h1

theorem combine_go_frame (E : Env) (k : Nat) : ∀ (l : List Nat) (w : World),
    (childCombineWith.go E k l w).2.fes.length = w.fes.length ∧
      ∀ i, i ≠ k → (childCombineWith.go E k l w).2.fes.getD i {} = w.fes.getD i {} := by
  intro l
  induction l with
  | nil => intro w; simp [childCombineWith.go]
  | cons o rest ih =>
    intro w
    rw [childCombineWith.go]
    have hl := runOn_fes_length w k (publicAdd (childOps E) (w.fes.getD o {}).constraints)
    have hg := fun i (hi : i ≠ k) => runOn_getD_ne w k (publicAdd (childOps E) (w.fes.getD o {}).constraints) i hi
    cases hr : runOn w k (publicAdd (childOps E) (w.fes.getD o {}).constraints) with
    | mk r w' =>
      rw [hr] at hl hg
      cases r with
      | ok a =>
        simp only
        obtain ⟨a1, a2⟩ := ih w'
        exact ⟨a1.trans hl, fun i hi => (a2 i hi).trans (hg i hi)⟩
      | error e => exact ⟨hl, hg⟩

theorem childCombineWith_frame (E : Env) (self : Nat) (others : List Nat) (sm : List PModel) (om : List (List PModel)) (s : CSt) :
    ∃ w', (childCombineWith E self others sm om s).2 = { s with w := w' } ∧ w'.fes.length = s.w.fes.length + 1 ∧
      (∀ i, i < s.w.fes.length → w'.fes.getD i {} = s.w.fes.getD i {}) ∧
      ∀ k, (childCombineWith E self others sm om s).1 = .ok k → k = s.w.fes.length := by
  obtain ⟨hl, hg⟩ := combine_go_frame E s.w.fes.length (self :: others)
    { s.w with fes := s.w.fes ++ [childBlank E (s.child self)] }
  have hl0 : ({ s.w with fes := s.w.fes ++ [childBlank E (s.child self)] } : World).fes.length = s.w.fes.length + 1 := by simp
  have hold : ∀ i, i < s.w.fes.length →
      ({ s.w with fes := s.w.fes ++ [childBlank E (s.child self)] } : World).fes.getD i {} = s.w.fes.getD i {} :=
    fun i hi => getD_append_left' _ _ _ _ hi
  unfold childCombineWith
  simp only
  cases hgo : childCombineWith.go E s.w.fes.length (self :: others)
      { s.w with fes := s.w.fes ++ [childBlank E (s.child self)] } with
  | mk r w1 =>
    rw [hgo] at hl hg
    simp only at hl hg
    have hfr : ∀ i, i < s.w.fes.length → w1.fes.getD i {} = s.w.fes.getD i {} :=
      fun i hi => (hg i (Nat.ne_of_lt hi)).trans (hold i hi)
    cases r with
    | error e => exact ⟨w1, rfl, hl.trans hl0, hfr, fun k hk => by cases hk⟩
    | ok u =>
      simp only
      split
      · exact ⟨w1, rfl, hl.trans hl0, hfr, fun k hk => by cases hk; rfl⟩
      · split
        · exact ⟨w1, rfl, hl.trans hl0, hfr, fun k hk => by cases hk; rfl⟩
        · refine ⟨_, rfl, by simp only [List.length_set]; exact hl.trans hl0, ?_, fun k hk => by cases hk; rfl⟩
          intro i hi
          show (w1.fes.set _ _).getD i {} = _
          rw [getD_set_ne _ _ _ _ _ (Nat.ne_of_gt hi)]
          exact hfr i hi

theorem sf_orderModelSets {s0 : CSt} : ∀ (l : List Nat) (s : CSt), StepFrame s0 s →
    SF s0 (fun _ s1 => s1.c = s.c ∧ s1.w.fes = s.w.fes) (orderModelSets E l s)
  | [], s, h => (sf_pure h _).mono (fun _ _ _ hq => by rw [hq.2]; exact ⟨rfl, rfl⟩)
  | o :: rest, s, h => by
    unfold orderModelSets
    refine sf_bind (sf_get h) ?_
    rintro _ _ _ ⟨rfl, rfl⟩
    refine sf_bind (sf_orderOracle h _ _ _) ?_
    intro ms s1 h1 ⟨_, hc1, hw1⟩
    refine sf_bind (sf_orderModelSets rest s1 h1) ?_
    intro mss s2 h2 ⟨hc2, hw2⟩
    exact (sf_pure h2 _).mono (fun _ _ _ hq => by rw [hq.2]; exact ⟨hc2.trans hc1, hw2.trans hw1⟩)

theorem sf_childCombine {s0 s : CSt} (h : StepFrame s0 s) (self : Nat) (others : List Nat) :
    SF s0 (fun k _ => s0.w.fes.length ≤ k) (childCombine E self others s) := by
  unfold childCombine
  refine sf_bind (sf_orderModelSets _ s h) ?_
  intro mss s1 h1 _
  obtain ⟨w', hst, hlen, hfr, hk⟩ := childCombineWith_frame E self others (mss.headD []) (mss.drop 1) s1
  refine ⟨?_, fun k hk' => by rw [hk k hk']; exact h1.1⟩
  rw [hst]
  exact h1.world_old w' (by omega) hfr

theorem sf_solverForNames {s0 s : CSt} (h : StepFrame s0 s) (names : List Var) :
    SF s0 (fun m _ => Good s0 m) (solverForNames E names s) := by
  unfold solverForNames
  refine sf_bind (sf_get h) ?_
  rintro _ _ _ ⟨rfl, rfl⟩
  have hnew : ∀ {s1 : CSt}, StepFrame s0 s1 → SF s0 (fun m _ => Good s0 m) (blankChild E s1) := fun h1 =>
    (sf_blankChild h1).mono (fun m _ _ hq => Or.inr (by rw [hq.1]; exact h1.1))
  dsimp only
  generalize hcl : closureLoop _ _ names names [] = cl
  match cl, hcl with
  | [], _ => exact hnew h
  | [j], hcl =>
    refine (sf_pure h j).mono (fun m _ _ hq => ?_)
    rw [hq.1]
    rcases closureLoop_mem _ _ _ _ _ j (by rw [hcl]; simp) with h1 | h1
    · cases h1
    · exact h.good_of_mem h1
  | a :: b :: c, _ =>
    refine sf_bind (sf_orderOracle h _ _ _) ?_
    intro l1 s1 h1 _
    cases l1 with
    | nil => exact hnew h1
    | cons j rest => exact (sf_childCombine h1 _ _).mono (fun k _ _ hq => Or.inr hq)

/-! ### `add` -/

theorem SF.triv {α : Type} {s0 : CSt} {Q : α → CSt → Prop} {r : Except Err α × CSt} (h : SF s0 Q r) :
    SF s0 (fun _ _ => True) r := h.mono (fun _ _ _ _ => trivial)

theorem sf_ite {α : Type} {s0 s : CSt} {Q : α → CSt → Prop} (c : Prop) [Decidable c] {a b : CM α}
    (ha : c → SF s0 Q (a s)) (hb : ¬ c → SF s0 Q (b s)) : SF s0 Q ((if c then a else b) s) := by
  by_cases hc : c
  · rw [if_pos hc]; exact ha hc
  · rw [if_neg hc]; exact hb hc

theorem sf_forM {s0 : CSt} {P : CSt → Prop} (f : Nat → CM Unit) : ∀ (l : List Nat) (s : CSt), StepFrame s0 s → P s →
    (∀ p ∈ l, ∀ s, StepFrame s0 s → P s → SF s0 (fun _ s' => P s') (f p s)) → SF s0 (fun _ s' => P s') (l.forM f s)
  | [], s, h, hp, _ => ⟨h, fun _ _ => hp⟩
  | p :: rest, s, h, hp, hf => by
    show SF s0 _ (((do f p; rest.forM f) : CM Unit) s)
    refine sf_bind (hf p (by simp) s h hp) ?_
    intro _ s1 h1 hp1
    exact sf_forM f rest s1 h1 hp1 (fun p' hp' => hf p' (List.mem_cons_of_mem _ hp'))

theorem sf_addDependent {s0 s : CSt} (h : StepFrame s0 s) (names : List Var) (cs : List Con) :
    SF s0 (fun _ _ => True) (addDependent E names cs s) := by
  unfold addDependent
  refine sf_bind (sf_solverForNames h names) ?_
  intro m s1 h1 hm
  refine sf_bind (sf_claim h1 m) ?_
  intro j s2 h2 ⟨hmine, hj⟩
  have hgood : Good s0 j := by
    rcases hj with rfl | hj
    · exact hm
    · exact Or.inr hj
  refine sf_bind (sf_onChild_mine h2 j _ hmine) ?_
  intro added s3 h3 _
  refine sf_bind (sf_storeChild h3 j hgood true) ?_
  intro _ s4 h4 _
  exact (sf_pure h4 _).triv

theorem sf_addGroups {s0 : CSt} (cs : List Con) : ∀ (gs : List (List Var × List Nat)) (acc : List Con) (s : CSt),
    StepFrame s0 s → SF s0 (fun _ _ => True) (addGroups E cs gs acc s)
  | [], acc, s, h => (sf_pure h _).triv
  | g :: rest, acc, s, h => by
    unfold addGroups
    refine sf_bind (sf_addDependent h _ _) ?_
    intro added s1 h1 _
    exact sf_addGroups cs rest _ s1 h1

theorem sf_addUnsure {s0 : CSt} (unsure : List Con) : ∀ (l : List Nat) (s : CSt), (∀ j ∈ l, Good s0 j) →
    StepFrame s0 s → SF s0 (fun _ _ => True) (addUnsure E unsure l s)
  | [], s, _, h => (sf_pure h _).triv
  | j :: rest, s, hl, h => by
    unfold addUnsure
    refine sf_bind (sf_claim h j) ?_
    intro k s2 h2 ⟨hmine, hk⟩
    have hgood : Good s0 k := by
      rcases hk with rfl | hk
      · exact hl _ (by simp)
      · exact Or.inr hk
    refine sf_bind (sf_onChild_mine h2 k _ hmine) ?_
    intro _ s3 h3 _
    refine sf_bind (sf_storeChild h3 k hgood true) ?_
    intro _ s4 h4 _
    exact sf_addUnsure unsure rest s4 (fun j' hj' => hl j' (List.mem_cons_of_mem _ hj')) h4

theorem sf_ownAdd {s0 s : CSt} (h : StepFrame s0 s) (ca : List Con) : SF s0 (fun _ _ => True) (ownAdd ca s) :=
  ⟨h.comp _ rfl rfl, fun _ _ => trivial⟩

theorem sf_orderGroups {s0 s : CSt} (h : StepFrame s0 s) (gs : List (List Var × List Nat)) :
    SF s0 (fun _ _ => True) (orderGroups E gs s) := by
  unfold orderGroups
  exact sf_ite _ (fun _ => (sf_pure h _).triv) (fun _ => (sf_orderOracle h _ _ _).triv)

theorem sf_compAdd {s0 s : CSt} (h : StepFrame s0 s) (cs : List Con) : SF s0 (fun _ _ => True) (compAdd E cs s) := by
  unfold compAdd
  dsimp only
  refine sf_bind (sf_orderGroups h _) ?_
  intro groups s1 h1 _
  refine sf_bind (sf_addGroups cs groups [] s1 h1) ?_
  intro ca s2 h2 _
  refine sf_ite _ (fun _ => sf_ownAdd h2 _) (fun _ => ?_)
  generalize concreteScan _ = sc
  match sc with
  | some true =>
    refine sf_bind (sf_modifyC h2 _ rfl rfl) ?_
    intro _ s3 h3 _
    exact sf_ownAdd h3 _
  | some false => exact sf_ownAdd h2 _
  | none =>
    refine sf_bind (sf_get h2) ?_
    rintro _ _ h3 ⟨rfl, rfl⟩
    refine sf_bind (sf_addUnsure _ _ _ (fun j hj => h3.good_of_mem hj) h3) ?_
    intro _ s4 h4 _
    exact sf_ownAdd h4 _

/-! ### the queries -/

theorem sf_compIsTrue (hK : ChildKeeps E) {s0 s : CSt} (h : StepFrame s0 s) (c : Con) (extra : List Con) :
    SF s0 (fun _ _ => True) (compIsTrue E c extra s) := by
  unfold compIsTrue
  refine sf_bind (sf_solverForNames h _) ?_
  intro ms s1 h1 _
  exact (sf_onChild_keeps h1 ms _ (hK.isTrue c extra)).triv

theorem sf_compIsFalse (hK : ChildKeeps E) {s0 s : CSt} (h : StepFrame s0 s) (c : Con) (extra : List Con) :
    SF s0 (fun _ _ => True) (compIsFalse E c extra s) := by
  unfold compIsFalse
  refine sf_bind (sf_solverForNames h _) ?_
  intro ms s1 h1 _
  exact (sf_onChild_keeps h1 ms _ (hK.isFalse c extra)).triv

theorem sf_checkLoop (hK : ChildKeeps E) {s0 : CSt} (skip : Option (List Var)) : ∀ (l : List Nat) (s : CSt), StepFrame s0 s →
    SF s0 (fun _ _ => True) (checkLoop E skip l s)
  | [], s, h => (sf_pure h _).triv
  | j :: rest, s, h => by
    unfold checkLoop
    refine sf_bind (sf_get h) ?_
    rintro _ _ h ⟨rfl, rfl⟩
    dsimp only
    refine sf_ite _ (fun _ => sf_checkLoop hK skip rest _ h) (fun _ => sf_ite _ (fun _ => sf_checkLoop hK skip rest _ h) (fun _ => ?_))
    refine sf_bind (sf_onChild_keeps h j _ (hK.checkSat [])) ?_
    intro r s1 h1 _
    exact sf_ite _ (fun _ => (sf_pure h1 _).triv) (fun _ => sf_checkLoop hK skip rest s1 h1)

/-! ### `_reabsorb_solver`: `split`, `update` -/

theorem split_go_frame (E : Env) (fs : Frontend) : ∀ (lists : List (List Con)) (w : World) (acc : List Nat),
    w.fes.length ≤ (childSplitWith.go E fs lists w acc).2.fes.length ∧
    (∀ i, i < w.fes.length → (childSplitWith.go E fs lists w acc).2.fes.getD i {} = w.fes.getD i {}) ∧
    ∀ parts, (childSplitWith.go E fs lists w acc).1 = .ok parts →
      ∀ p ∈ parts, p ∈ acc ∨ (w.fes.length ≤ p ∧ p < (childSplitWith.go E fs lists w acc).2.fes.length)
  | [], w, acc => by
    rw [childSplitWith.go]
    exact ⟨Nat.le_refl _, fun _ _ => rfl, fun parts hp p hpp => by cases hp; exact Or.inl hpp⟩
  | cl :: rest, w, acc => by
    rw [childSplitWith.go]
    simp only
    have hl := runOn_fes_length { w with fes := w.fes ++ [childBlank E fs] } w.fes.length (publicAdd (childOps E) cl)
    have hg := fun i (hi : i ≠ w.fes.length) =>
      runOn_getD_ne { w with fes := w.fes ++ [childBlank E fs] } w.fes.length (publicAdd (childOps E) cl) i hi
    cases hr : runOn { w with fes := w.fes ++ [childBlank E fs] } w.fes.length (publicAdd (childOps E) cl) with
    | mk r w' =>
      rw [hr] at hl hg
      simp only [List.length_append, List.length_singleton] at hl
      have hold : ∀ i, i < w.fes.length → w'.fes.getD i {} = w.fes.getD i {} := fun i hi =>
        (hg i (Nat.ne_of_lt hi)).trans (getD_append_left' _ _ _ _ hi)
      cases r with
      | error e => exact ⟨by simp only; omega, hold, fun parts hp => by cases hp⟩
      | ok a =>
        simp only
        obtain ⟨a1, a2, a3⟩ := split_go_frame E fs rest
          { w' with fes := w'.fes.set w.fes.length { (w'.fes.getD w.fes.length {}) with
              models := (fs.models.map fun m => m.restrict (w'.fes.getD w.fes.length {}).variables).foldl listInsert [] } }
          (acc ++ [w.fes.length])
        simp only [List.length_set] at a1 a2 a3
        refine ⟨by omega, fun i hi => ?_, fun parts hp p hpp => ?_⟩
        · rw [a2 i (by omega), getD_set_ne _ _ _ _ _ (Nat.ne_of_gt hi)]
          exact hold i hi
        · rcases a3 parts hp p hpp with h1 | h1
          · rcases List.mem_append.mp h1 with h2 | h2
            · exact Or.inl h2
            · right
              have : p = w.fes.length := by simpa using h2
              subst this
              exact ⟨Nat.le_refl _, by omega⟩
          · exact Or.inr ⟨by omega, h1.2⟩

theorem split_go_frame' (E : Env) (fs : Frontend) (lists : List (List Con)) (w : World) (acc : List Nat)
    (r : Except Err (List Nat)) (w' : World) (h : childSplitWith.go E fs lists w acc = (r, w')) :
    w.fes.length ≤ w'.fes.length ∧ (∀ i, i < w.fes.length → w'.fes.getD i {} = w.fes.getD i {}) ∧
    ∀ parts, r = .ok parts → ∀ p ∈ parts, p ∈ acc ∨ (w.fes.length ≤ p ∧ p < w'.fes.length) := by
  have := split_go_frame E fs lists w acc
  rw [h] at this
  exact this

theorem sf_childSplitWith {s0 s : CSt} (h : StepFrame s0 s) (j : Nat) (groups : List (List Var × List Nat)) (concrete : List Nat) :
    SF s0 (fun parts s1 => ∀ p ∈ parts, s0.w.fes.length ≤ p ∧ p < s1.w.fes.length) (childSplitWith E j groups concrete s) := by
  obtain ⟨a1, a2, a3⟩ := split_go_frame E (s.child j)
    ((groups.map fun g => g.2.map fun i => (s.child j).constraints.getD i default) ++
      (if concrete.isEmpty then [] else [concrete.map fun i => (s.child j).constraints.getD i default])) s.w []
  refine ⟨h.world_old _ a1 a2, fun parts hp p hpp => ?_⟩
  rcases a3 parts hp p hpp with h1 | h1
  · cases h1
  · exact ⟨Nat.le_trans h.1 h1.1, h1.2⟩

theorem sf_childSplit {s0 s : CSt} (h : StepFrame s0 s) (j : Nat) :
    SF s0 (fun parts s1 => ∀ p ∈ parts, s0.w.fes.length ≤ p ∧ p < s1.w.fes.length) (childSplit E j s) := by
  unfold childSplit
  refine sf_bind (sf_get h) ?_
  rintro _ _ h ⟨rfl, rfl⟩
  dsimp only
  refine sf_bind (sf_orderGroups h _) ?_
  intro groups s1 h1 _
  exact sf_childSplitWith h1 j groups _

theorem set_cv (l : List Frontend) (i : Nat) (fe : Frontend)
    (hfe : fe.constraints = (l.getD i {}).constraints ∧ fe.variables = (l.getD i {}).variables) (k : Nat) :
    ((l.set i fe).getD k {}).constraints = (l.getD k {}).constraints ∧ ((l.set i fe).getD k {}).variables = (l.getD k {}).variables := by
  by_cases hk : i = k
  · subst hk
    by_cases hl : i < l.length
    · rw [getD_set_self _ _ _ _ hl]; exact hfe
    · rw [List.set_eq_of_length_le (Nat.le_of_not_lt hl)]; exact ⟨rfl, rfl⟩
  · rw [getD_set_ne _ _ _ _ _ hk]; exact ⟨rfl, rfl⟩

theorem sf_childUpdate {s0 s : CSt} (h : StepFrame s0 s) (self other : Nat) :
    SF s0 (fun _ s1 => s1.w.fes.length = s.w.fes.length) (childUpdate self other s) := by
  refine ⟨?_, fun _ _ => by simp [childUpdate]⟩
  exact h.world _ (by simp) (fun k _ _ => by apply set_cv s.w.fes self; exact ⟨rfl, rfl⟩)

theorem sf_reabsorb {s0 s : CSt} (h : StepFrame s0 s) (j : Nat) : SF s0 (fun _ _ => True) (reabsorb E j s) := by
  unfold reabsorb
  refine sf_bind (sf_get h) ?_
  rintro _ _ h ⟨rfl, rfl⟩
  dsimp only
  refine sf_ite _ (fun _ => (sf_pure h _).triv) (fun _ => ?_)
  generalize alGet? _ _ = tt
  match tt with
  | none => exact (sf_pure h _).triv
  | some t =>
    refine sf_ite _ (fun _ => (sf_pure h _).triv) (fun _ => ?_)
    refine sf_bind (sf_childSplit h j) ?_
    intro parts s1 h1 hparts
    refine sf_bind (sf_get h1) ?_
    rintro _ _ h1 ⟨rfl, rfl⟩
    refine sf_ite _ (fun _ => ?_) (fun _ => ?_)
    · refine (sf_forM (P := fun _ => True) _ parts _ h1 trivial ?_).triv
      intro p _ s2 h2 _
      refine sf_bind (sf_get h2) ?_
      rintro _ _ h2 ⟨rfl, rfl⟩
      generalize alGet? _ _ = t2
      match t2 with
      | some t => exact (sf_childUpdate h2 _ _).triv
      | none => exact sf_throw h2 _ _
    · refine (sf_forM (P := fun s' => ∀ p ∈ parts, s0.w.fes.length ≤ p ∧ p < s'.w.fes.length) _ parts _ h1 hparts ?_).triv
      intro p hp s2 h2 hP
      have hnew : StepFrame s0 { s2 with c := { s2.c with owned := listInsert s2.c.owned p } } := by
        refine h2.step (Nat.le_refl _) (fun _ _ _ => ⟨rfl, rfl⟩) ?_ (fun k hk => Or.inl hk)
        intro k hk
        rcases (mem_listInsert _ _ _).mp hk with h3 | h3
        · exact Or.inl h3
        · right; subst h3; exact hP k hp
      refine sf_bind (Q1 := fun _ s3 => s3 = { s2 with c := { s2.c with owned := listInsert s2.c.owned p } }) ⟨hnew, fun _ _ => rfl⟩ ?_
      rintro _ _ h3 rfl
      refine (sf_storeChild h3 p (Or.inr (hP p hp).1) true).mono ?_
      intro _ s4 _ hq
      rw [hq.1]; exact hP

/-! ### `satisfiable`, the value queries, one call -/

theorem sf_checkTail (hK : ChildKeeps E) {s0 s : CSt} (h : StepFrame s0 s) (skip : Option (List Var)) (l : List Nat) :
    SF s0 (fun _ _ => True) ((do
      let order ← orderChildren E l
      let ok ← checkLoop E skip order
      if !ok then pure false
      else do
        CM.modifyC fun c => { c with unchecked := [] }
        pure true : CM Bool) s) := by
  refine sf_bind (sf_orderOracle h _ _ _) ?_
  intro order s1 h1 _
  refine sf_bind (sf_checkLoop hK skip order s1 h1) ?_
  intro ok s2 h2 _
  refine sf_ite _ (fun _ => (sf_pure h2 _).triv) (fun _ => ?_)
  refine sf_bind (sf_modifyC h2 _ rfl rfl) ?_
  intro _ s3 h3 _
  exact (sf_pure h3 _).triv

theorem sf_compSatisfiable (hK : ChildKeeps E) {s0 s : CSt} (h : StepFrame s0 s) (extra : List Con) :
    SF s0 (fun _ _ => True) (compSatisfiable E extra s) := by
  unfold compSatisfiable
  refine sf_bind (sf_get h) ?_
  rintro _ _ h ⟨rfl, rfl⟩
  refine sf_ite _ (fun _ => (sf_pure h _).triv) (fun _ => ?_)
  refine sf_ite _ (fun _ => sf_checkTail hK h none _) (fun _ => ?_)
  refine sf_bind (sf_solverForNames h _) ?_
  intro es s1 h1 _
  refine sf_bind (sf_onChild_keeps h1 es _ (hK.checkSat extra)) ?_
  intro r s2 h2 _
  refine sf_ite _ (fun _ => (sf_pure h2 _).triv) (fun _ => ?_)
  refine sf_bind (sf_reabsorb h2 es) ?_
  intro _ s3 h3 _
  refine sf_bind (sf_get h3) ?_
  rintro _ _ h3 ⟨rfl, rfl⟩
  exact sf_checkTail hK h3 _ _

theorem sf_ensureSat (hK : ChildKeeps E) {s0 s : CSt} (h : StepFrame s0 s) (extra : List Con) :
    SF s0 (fun _ _ => True) (ensureSat E extra s) := by
  unfold ensureSat
  refine sf_bind (sf_get h) ?_
  rintro _ _ h ⟨rfl, rfl⟩
  refine sf_ite _ (fun _ => sf_throw h _ _) (fun _ => ?_)
  refine sf_bind (sf_compSatisfiable hK h extra) ?_
  intro b s1 h1 _
  exact sf_ite _ (fun _ => sf_throw h1 _ _) (fun _ => (sf_pure h1 _).triv)

theorem sf_compQuery (hK : ChildKeeps E) {α : Type} {s0 s : CSt} (h : StepFrame s0 s) (names : List Var) (extra : List Con)
    (q : M α) (hq : KeepsCV q) : SF s0 (fun _ _ => True) (compQuery E names extra q s) := by
  unfold compQuery
  refine sf_bind (sf_ensureSat hK h extra) ?_
  intro _ s1 h1 _
  refine sf_bind (sf_solverForNames h1 names) ?_
  intro ms s2 h2 _
  refine sf_bind (sf_onChild_keeps h2 ms q hq) ?_
  intro r s3 h3 _
  refine sf_bind (sf_reabsorb h3 ms) ?_
  intro _ s4 h4 _
  exact (sf_pure h4 _).triv

/-- **the footprint of one public call** (`add`, `satisfiable`, `eval`, `batch_eval`, `min`, `max`, `solution`, `is_true`,
`is_false`, any arguments, any state): no invariant is needed, only that the child class's queries keep `constraints` /
`variables` of their own record -/
theorem stepFrame_compStep (hK : ChildKeeps E) (s : CSt) (op : Op)
    (hop : op ≠ .simplify ∧ op ≠ .downsize ∧ op ≠ .pickle) : StepFrame s (compStep E s op).2 := by
  have h := StepFrame.refl s
  cases op with
  | add cs =>
    show StepFrame s (if cs.isEmpty then (Out.cons [], s) else outOfC _ (compAdd E cs s)).2
    split
    · exact h
    · rw [outOfC_snd]; exact (sf_compAdd h cs).1
  | satisfiable extra => show StepFrame s (outOfC _ _).2; rw [outOfC_snd]; exact (sf_compSatisfiable hK h extra).1
  | eval e n extra => show StepFrame s (outOfC _ _).2; rw [outOfC_snd]; exact (sf_compQuery hK h _ _ _ (hK.eval e n extra)).1
  | batchEval es n extra =>
    show StepFrame s (outOfC _ _).2; rw [outOfC_snd]; exact (sf_compQuery hK h _ _ _ (hK.batchEval es n extra)).1
  | min e extra sg => show StepFrame s (outOfC _ _).2; rw [outOfC_snd]; exact (sf_compQuery hK h _ _ _ (hK.min e extra sg)).1
  | max e extra sg => show StepFrame s (outOfC _ _).2; rw [outOfC_snd]; exact (sf_compQuery hK h _ _ _ (hK.max e extra sg)).1
  | solution e v extra =>
    show StepFrame s (outOfC _ _).2; rw [outOfC_snd]; exact (sf_compQuery hK h _ _ _ (hK.solution e v extra)).1
  | isTrue c extra => show StepFrame s (outOfC _ _).2; rw [outOfC_snd]; exact (sf_compIsTrue hK h c extra).1
  | isFalse c extra => show StepFrame s (outOfC _ _).2; rw [outOfC_snd]; exact (sf_compIsFalse hK h c extra).1
  | simplify => exact absurd rfl hop.1
  | downsize => exact absurd rfl hop.2.1
  | pickle => exact absurd rfl hop.2.2
  | unsatCore _ => exact h
  | branch => exact h

end Claripy.Solver
